import LJT.Model.Lossless
import LJT.Proofs.Nbits
import LJT.Proofs.Huff
namespace LJT.LL

/-- two lists related element by element -/
inductive All2 {α β : Type} (R : α → β → Prop) : List α → List β → Prop
  | nil : All2 R [] []
  | cons {a b l1 l2} : R a b → All2 R l1 l2 → All2 R (a :: l1) (b :: l2)

/-- element-wise congruence modulo 2^16 -/
def Cong16 (a b : Int) : Prop := a % 65536 = b % 65536

def InRange (l : List Int) : Prop := ∀ c ∈ l, 0 ≤ c ∧ c < 65536

theorem undiff1D_diff1D : ∀ (cs ds : List Int) (Ra : Int), InRange cs →
    All2 Cong16 ds (diff1D Ra cs) → undiff1D Ra ds = cs := by
  intro cs
  induction cs with
  | nil => intro ds Ra _ h; simp only [diff1D] at h; cases h; rfl
  | cons c cs ih =>
    intro ds Ra hr h
    simp only [diff1D] at h
    cases h with
    | cons hd htl =>
      rename_i d ds'
      have hc := hr c (List.mem_cons_self ..)
      have e : m16 (d + Ra) = c := by
        unfold Cong16 at hd; unfold m16; omega
      simp only [undiff1D, e]
      rw [ih ds' c (fun x hx => hr x (List.mem_cons_of_mem _ hx)) htl]

theorem undiffTail_diffTail (psv : Nat) : ∀ (cs ds prev : List Int) (Ra Rc : Int), InRange cs →
    cs.length ≤ prev.length →
    All2 Cong16 ds (diffTail psv Ra Rc cs prev) → undiffTail psv Ra Rc ds prev = cs := by
  intro cs
  induction cs with
  | nil =>
    intro ds prev Ra Rc _ _ h
    cases prev <;> (simp only [diffTail] at h; cases h; simp [undiffTail])
  | cons c cs ih =>
    intro ds prev Ra Rc hr hl h
    cases prev with
    | nil => simp at hl
    | cons Rb ps =>
      simp only [diffTail] at h
      cases h with
      | cons hd htl =>
        rename_i d ds'
        have hc := hr c (List.mem_cons_self ..)
        have e : m16 (d + predictor psv Ra Rb Rc) = c := by
          unfold Cong16 at hd; unfold m16; omega
        simp only [undiffTail, e]
        rw [ih ds' ps c Rb (fun x hx => hr x (List.mem_cons_of_mem _ hx)) (by simpa using hl) htl]

theorem undiffFirstRow_diffFirstRow (init : Int) (cs ds : List Int) (hr : InRange cs)
    (h : All2 Cong16 ds (diffFirstRow init cs)) : undiffFirstRow init ds = cs := by
  cases cs with
  | nil => simp only [diffFirstRow] at h; cases h; rfl
  | cons c cs =>
    simp only [diffFirstRow] at h
    cases h with
    | cons hd htl =>
      rename_i d ds'
      have hc := hr c (List.mem_cons_self ..)
      have e : m16 (d + init) = c := by unfold Cong16 at hd; unfold m16; omega
      simp only [undiffFirstRow, e]
      rw [undiff1D_diff1D cs ds' c (fun x hx => hr x (List.mem_cons_of_mem _ hx)) htl]

theorem undiffRow_diffRow (psv : Nat) (prev cs ds : List Int) (hr : InRange cs)
    (hl : cs.length ≤ prev.length) (h : All2 Cong16 ds (diffRow psv prev cs)) :
    undiffRow psv prev ds = cs := by
  cases cs with
  | nil =>
    cases prev <;> (simp only [diffRow] at h; cases h; simp [undiffRow])
  | cons c cs =>
    cases prev with
    | nil => simp at hl
    | cons p ps =>
      simp only [diffRow] at h
      cases h with
      | cons hd htl =>
        rename_i d ds'
        have hc := hr c (List.mem_cons_self ..)
        have e : m16 (d + p) = c := by unfold Cong16 at hd; unfold m16; omega
        have hr' : InRange cs := fun x hx => hr x (List.mem_cons_of_mem _ hx)
        simp only [undiffRow, e]
        by_cases h1 : psv = 1
        · simp only [h1, if_true] at htl ⊢
          rw [undiff1D_diff1D cs ds' c hr' htl]
        · simp only [h1, if_false] at htl ⊢
          rw [undiffTail_diffTail psv cs ds' ps c p hr' (by simpa using hl) htl]

/-- **all rows of a component**: with the same first-row flags on both sides, any
differences congruent (mod 2^16) to the compressor's reconstruct the input rows.  `prev`
only matters when the first flag is `false`. -/
theorem undiffRows_diffRows (psv : Nat) (init : Int) (w : Nat) : ∀ (rows dss : List (List Int)) (flags : List Bool)
    (prev : List Int), (∀ r ∈ rows, InRange r) → (∀ r ∈ rows, r.length = w) →
    (flags.headD true = true ∨ prev.length = w) →
    rows.length ≤ flags.length →
    All2 (All2 Cong16) dss (diffRows psv init flags prev rows) →
    undiffRows psv init flags prev dss = rows := by
  intro rows
  induction rows with
  | nil =>
    intro dss flags prev _ _ _ _ h
    cases flags <;> (simp only [diffRows] at h; cases h; simp [undiffRows])
  | cons row rows ih =>
    intro dss flags prev hr hw hp hl h
    cases flags with
    | nil => simp at hl
    | cons f fs =>
      simp only [diffRows] at h
      cases h with
      | cons hd htl =>
        rename_i ds dss'
        have hrow := hr row (List.mem_cons_self ..)
        have hwrow := hw row (List.mem_cons_self ..)
        have e : (if f = true then undiffFirstRow init ds else undiffRow psv prev ds) = row := by
          by_cases hf : f = true
          · simp only [hf, if_true] at hd ⊢
            exact undiffFirstRow_diffFirstRow init row ds hrow hd
          · simp only [hf, if_false] at hd ⊢
            have hpl : prev.length = w := by
              rcases hp with hp | hp
              · simp only [List.headD_cons] at hp; exact absurd hp hf
              · exact hp
            exact undiffRow_diffRow psv prev row ds hrow (by omega) hd
        simp only [undiffRows, e]
        rw [ih dss' fs row (fun r hx => hr r (List.mem_cons_of_mem _ hx))
          (fun r hx => hw r (List.mem_cons_of_mem _ hx)) (Or.inr hwrow) (by simpa using hl) htl]

end LJT.LL

namespace LJT.LL

/-! ### restart bookkeeping: compressor and decompressor use the first-row function on the same rows -/

/-- relation between compressor state and decompressor state at the start of a row -/
def SyncRel (R : Nat) (se sd : Bool × Nat) : Prop :=
  if R = 0 then se.1 = sd.1
  else (se = sd ∧ 1 ≤ se.2 ∧ se.2 ≤ R) ∨ (se = (true, R) ∧ sd.2 = 0)

theorem sync_step (R : Nat) (se sd : Bool × Nat) (h : SyncRel R se sd) :
    (encStep R se).1 = (decStep R sd).1 ∧ SyncRel R (encStep R se).2 (decStep R sd).2 := by
  obtain ⟨f, t⟩ := se
  obtain ⟨f', t'⟩ := sd
  unfold SyncRel at *
  by_cases hR : R = 0
  · subst hR
    simp only [if_true] at h
    subst h
    simp [encStep, decStep]
  · simp only [hR, if_false] at h ⊢
    have hRpos : R > 0 := by omega
    rcases h with ⟨heq, h1, h2⟩ | ⟨heq, h0⟩
    · simp only [Prod.mk.injEq] at heq
      obtain ⟨rfl, rfl⟩ := heq
      have ht0 : ¬ (t = 0) := by omega
      by_cases h10 : t - 1 = 0
      · have e1 : encStep R (f, t) = (f, (true, R)) := by simp [encStep, hRpos, h10]
        have e2 : decStep R (f, t) = (f, (false, 0)) := by simp [decStep, hRpos, ht0, h10]
        rw [e1, e2]
        exact ⟨rfl, Or.inr ⟨rfl, rfl⟩⟩
      · have e1 : encStep R (f, t) = (f, (false, t - 1)) := by simp [encStep, hRpos, h10]
        have e2 : decStep R (f, t) = (f, (false, t - 1)) := by simp [decStep, hRpos, ht0]
        rw [e1, e2]
        exact ⟨rfl, Or.inl ⟨rfl, by simp only; omega, by simp only; omega⟩⟩
    · simp only [Prod.mk.injEq] at heq
      obtain ⟨rfl, rfl⟩ := heq
      subst h0
      by_cases h10 : t - 1 = 0
      · have e1 : encStep t (true, t) = (true, (true, t)) := by simp [encStep, hRpos, h10]
        have e2 : decStep t (f', 0) = (true, (false, 0)) := by simp [decStep, hRpos, h10]
        rw [e1, e2]
        exact ⟨rfl, Or.inr ⟨rfl, rfl⟩⟩
      · have e1 : encStep t (true, t) = (true, (false, t - 1)) := by simp [encStep, hRpos, h10]
        have e2 : decStep t (f', 0) = (true, (false, t - 1)) := by simp [decStep, hRpos]
        rw [e1, e2]
        exact ⟨rfl, Or.inl ⟨rfl, by simp only; omega, by simp only; omega⟩⟩

theorem flags_sync (R : Nat) : ∀ (n : Nat) (se sd : Bool × Nat), SyncRel R se sd →
    encFlags R n se = decFlags R n sd := by
  intro n
  induction n with
  | zero => intro _ _ _; rfl
  | succ n ih =>
    intro se sd h
    obtain ⟨h1, h2⟩ := sync_step R se sd h
    simp only [encFlags, decFlags]
    rw [h1, ih _ _ h2]

/-- **restart_sync**: for every restart interval (in rows) the compressor and the
decompressor reset their predictors on exactly the same rows -/
theorem restart_sync (R n : Nat) : encFlags R n (true, R) = decFlags R n (true, R) := by
  apply flags_sync
  unfold SyncRel
  by_cases hR : R = 0
  · simp [hR]
  · simp only [hR, if_false]
    left; exact ⟨trivial, by omega, Nat.le_refl _⟩

theorem ite_pair_fst {α β : Type} (c : Prop) [Decidable c] (a : α) (x y : β) :
    (if c then (a, x) else (a, y)).1 = a := by split <;> rfl

theorem encStep_fst (R : Nat) (st : Bool × Nat) : (encStep R st).1 = st.1 := by
  unfold encStep
  dsimp only
  exact ite_pair_fst _ _ _ _

theorem encFlags_length (R : Nat) : ∀ n st, (encFlags R n st).length = n := by
  intro n; induction n with
  | zero => intro _; rfl
  | succ n ih => intro st; simp [encFlags, ih]

/-! ### difference categories -/

theorem bitLen_bounds (x : Nat) (h0 : x ≠ 0) (h : x < 2 ^ 17) :
    2 ^ (bitLen 17 x - 1) ≤ x ∧ x < 2 ^ bitLen 17 x ∧ 1 ≤ bitLen 17 x := by
  unfold bitLen
  rw [nbitsClz_eq 17 x h]
  have := nbitsSpec_bounds x h0
  refine ⟨this.1, this.2, ?_⟩
  simp [nbitsSpec, h0]

/-- **llcat_roundtrip**: the value the decoder reconstructs from the category and extra
bits the encoder emits is congruent to the difference modulo 2^16, for *every* integer
difference (including the 32768 case, which has no extra bits) -/
theorem extend_category (d : Int) :
    Cong16 (extend (category d).1 (category d).2.1) d ∧ (category d).1 ≤ 16 ∧
    (category d).2.1 < 2 ^ (category d).2.2 ∧
    (category d).2.2 = (if (category d).1 = 16 then 0 else (category d).1) := by
  unfold category Cong16
  have hv0 : 0 ≤ d % 65536 := Int.emod_nonneg d (by omega)
  have hv1 : d % 65536 < 65536 := Int.emod_lt_of_pos d (by omega)
  obtain ⟨v, hv⟩ : ∃ v : Nat, (d % 65536) = (v : Int) := ⟨(d % 65536).toNat, by omega⟩
  have hvlt : v < 65536 := by omega
  simp only [hv, Int.toNat_natCast]
  by_cases hneg : v ≥ 32768
  · simp only [hneg, if_true]
    by_cases hmag : (65536 - v) % 32768 = 0
    · simp only [hmag, if_true, extend]
      have : v = 32768 := by omega
      subst this
      refine ⟨?_, by omega, by simp, by simp⟩
      simp
    · simp only [hmag, if_false]
      obtain ⟨mag, hmagdef⟩ : ∃ m, (65536 - v) % 32768 = m := ⟨_, rfl⟩
      rw [hmagdef] at hmag ⊢
      have hm1 : mag < 32768 := by omega
      have hmv : mag = 65536 - v := by omega
      obtain ⟨b1, b2, b3⟩ := bitLen_bounds mag hmag (by
        have : (2:Nat) ^ 17 = 131072 := by decide
        omega)
      obtain ⟨nb, hnb⟩ : ∃ nb, bitLen 17 mag = nb := ⟨_, rfl⟩
      rw [hnb] at b1 b2 b3 ⊢
      have hnb15 : nb ≤ 15 := by
        apply Nat.le_of_not_lt; intro hgt
        have : 2 ^ 15 ≤ 2 ^ (nb - 1) := Nat.pow_le_pow_right (by omega) (by omega)
        have : (2:Nat) ^ 15 = 32768 := by decide
        omega
      have hpow : 2 ^ nb = 2 * 2 ^ (nb - 1) := by
        rw [← Nat.pow_succ']; congr 1; omega
      have hne0 : nb ≠ 0 := by omega
      have hne16 : nb ≠ 16 := by omega
      refine ⟨?_, by omega, by omega, by simp [hne16]⟩
      have hex : 2 ^ nb - 1 - mag < 2 ^ (nb - 1) := by omega
      simp only [extend, hne0, hne16, if_false, hex, if_true]
      have hge : mag + 1 ≤ 2 ^ nb := by omega
      push_cast
      rw [Int.ofNat_sub (by omega : mag ≤ 2 ^ nb - 1), Int.ofNat_sub (by omega : 1 ≤ 2 ^ nb)]
      push_cast
      omega
  · simp only [hneg, if_false]
    by_cases hv00 : v = 0
    · subst hv00
      refine ⟨?_, by decide, by decide, by decide⟩
      simp [extend, bitLen, nbitsClz]
    · obtain ⟨b1, b2, b3⟩ := bitLen_bounds v hv00 (by
        have : (2:Nat) ^ 17 = 131072 := by decide
        omega)
      obtain ⟨nb, hnb⟩ : ∃ nb, bitLen 17 v = nb := ⟨_, rfl⟩
      rw [hnb] at b1 b2 b3 ⊢
      have hnb15 : nb ≤ 15 := by
        apply Nat.le_of_not_lt; intro hgt
        have : 2 ^ 15 ≤ 2 ^ (nb - 1) := Nat.pow_le_pow_right (by omega) (by omega)
        have : (2:Nat) ^ 15 = 32768 := by decide
        omega
      have hne0 : nb ≠ 0 := by omega
      have hne16 : nb ≠ 16 := by omega
      refine ⟨?_, by omega, b2, by simp [hne16]⟩
      have hex : ¬ (v < 2 ^ (nb - 1)) := by omega
      simp only [extend, hne0, hne16, if_false, hex]
      omega

end LJT.LL

namespace LJT.LL
open LJT.Huff

theorem foldl_codeBits (v : Nat) : ∀ (n a : Nat),
    (codeBits v n).foldl (fun a b => a * 2 + (if b then 1 else 0)) a = a * 2 ^ n + v % 2 ^ n := by
  intro n
  induction n with
  | zero => intro a; simp [codeBits_zero, Nat.mod_one]
  | succ k ih =>
    intro a
    rw [codeBits_succ, List.foldl_cons, ih]
    have hmod : v % 2 ^ (k + 1) = (v >>> k) % 2 * 2 ^ k + v % 2 ^ k := by
      rw [Nat.shiftRight_eq_div_pow, Nat.pow_succ, Nat.mod_mul, Nat.add_comm, Nat.mul_comm]
    rw [hmod, Nat.pow_succ]
    generalize 2 ^ k = p
    by_cases hb : (v >>> k) % 2 = 1
    · simp only [hb, decide_true, if_true]
      rw [Nat.add_mul, Nat.mul_assoc, Nat.mul_comm 2 p]; omega
    · have h0 : (v >>> k) % 2 = 0 := by omega
      simp only [h0, Nat.zero_mul, Nat.zero_add]
      have : (if decide ((0:Nat) = 1) = true then 1 else 0) = 0 := by decide
      rw [this, Nat.add_zero, Nat.mul_assoc, Nat.mul_comm 2 p]

theorem bitsNat_natBits (v n : Nat) (h : v < 2 ^ n) : bitsNat (natBits v n) = v := by
  unfold bitsNat natBits
  rw [foldl_codeBits, Nat.zero_mul, Nat.zero_add, Nat.mod_eq_of_lt h]

theorem codeBits_length (v n : Nat) : (codeBits v n).length = n := by
  unfold codeBits; simp

/-- **one coded difference decodes to a congruent difference** -/
theorem decodeItem_itemBits (t : Tbl) (c : CDerived) (dd : DDerived)
    (hc : mkCDerived true true t = some c) (hd : mkDDerived true true t = some dd)
    (d : Int) (bs rest : List Bool) (h : itemBits c d = some bs) :
    ∃ d', decodeItem dd (bs ++ rest) = some (d', rest) ∧ Cong16 d' d := by
  obtain ⟨hcong, hle, hex, hnex⟩ := extend_category d
  unfold itemBits at h
  obtain ⟨nb, ex, nex, hcat⟩ : ∃ nb ex nex, category d = (nb, ex, nex) := ⟨_, _, _, rfl⟩
  rw [hcat] at hcong hle hex hnex h
  simp only at hcong hle hex hnex h
  cases hcode : encode c nb with
  | none => rw [hcode] at h; cases h
  | some code =>
    rw [hcode] at h
    injection h with h
    subst h
    have hdec := decode_encode true true t c dd hc hd nb code hcode (natBits ex nex ++ rest)
    unfold decodeItem
    rw [List.append_assoc, hdec]
    simp only
    by_cases h0 : nb = 0
    · subst h0
      have hnex0 : nex = 0 := by simpa using hnex
      subst hnex0
      simp only [natBits, codeBits_zero, List.nil_append, if_true]
      refine ⟨0, rfl, ?_⟩
      simpa [extend] using hcong
    · by_cases h16 : nb = 16
      · subst h16
        have hnex0 : nex = 0 := by simpa using hnex
        subst hnex0
        simp only [natBits, codeBits_zero, List.nil_append]
        refine ⟨32768, by simp, ?_⟩
        simpa [extend] using hcong
      · have hnexnb : nex = nb := by simpa [h16] using hnex
        subst hnexnb
        simp only [h0, h16, if_false]
        have hlen : (natBits ex nex ++ rest).length = nex + rest.length := by
          simp [natBits, codeBits_length]
        have hnl : ¬ ((natBits ex nex ++ rest).length < nex) := by omega
        simp only [hnl, if_false]
        have htake : (natBits ex nex ++ rest).take nex = natBits ex nex := by
          rw [List.take_append_of_le_length (by simp [natBits, codeBits_length])]
          rw [List.take_of_length_le (by simp [natBits, codeBits_length])]
        have hdrop : (natBits ex nex ++ rest).drop nex = rest := by
          rw [List.drop_append_of_le_length (by simp [natBits, codeBits_length])]
          rw [List.drop_of_length_le (by simp [natBits, codeBits_length])]
          rfl
        rw [htake, hdrop, bitsNat_natBits ex nex hex]
        exact ⟨_, rfl, hcong⟩

end LJT.LL

namespace LJT.LL
open LJT.Huff

/-- the items of one MCU: components `ci, ci+1, ..` with their differences -/
def mcuItems : Nat → List Int → List (Nat × Int)
  | _, [] => []
  | ci, d :: ds => (ci, d) :: mcuItems (ci + 1) ds

/-- every component uses a Huffman table for which both derived tables exist -/
def TablesOK (cds : List CDerived) (dds : List DDerived) (tblOf : List Nat) (lo hi : Nat) : Prop :=
  ∀ ci, lo ≤ ci → ci < hi → ∃ t, mkCDerived true true t = some (cds.getD (tblOf.getD ci 0) ⟨[], []⟩) ∧
    mkDDerived true true t = some (dds.getD (tblOf.getD ci 0) ⟨[], [], [], []⟩)

theorem segBits_append (cds : List CDerived) (tblOf : List Nat) : ∀ (a b : List (Nat × Int)) (bits : List Bool),
    segBits cds tblOf (a ++ b) = some bits →
    ∃ x y, segBits cds tblOf a = some x ∧ segBits cds tblOf b = some y ∧ bits = x ++ y := by
  intro a
  induction a with
  | nil => intro b bits h; exact ⟨[], bits, rfl, h, rfl⟩
  | cons i a ih =>
    intro b bits h
    obtain ⟨ci, d⟩ := i
    simp only [List.cons_append, segBits] at h ⊢
    cases hi : itemBits (cds.getD (tblOf.getD ci 0) ⟨[], []⟩) d with
    | none => rw [hi] at h; simp at h
    | some bi =>
      rw [hi] at h
      cases hr : segBits cds tblOf (a ++ b) with
      | none => rw [hr] at h; simp at h
      | some r =>
        rw [hr] at h
        simp only [Option.some.injEq] at h
        obtain ⟨x, y, hx, hy, e⟩ := ih b r hr
        rw [hx]
        exact ⟨bi ++ x, y, rfl, hy, by rw [← h, e, List.append_assoc]⟩

theorem decodeMcu_ok (cds : List CDerived) (dds : List DDerived) (tblOf : List Nat) :
    ∀ (ds : List Int) (ci : Nat) (bits tail : List Bool),
      TablesOK cds dds tblOf ci (ci + ds.length) →
      segBits cds tblOf (mcuItems ci ds) = some bits →
      ∃ ds', decodeMcu dds tblOf ds.length ci (bits ++ tail) = some (mcuItems ci ds', tail) ∧
        All2 Cong16 ds' ds := by
  intro ds
  induction ds with
  | nil =>
    intro ci bits tail _ h
    simp only [mcuItems, segBits, Option.some.injEq] at h
    subst h
    exact ⟨[], rfl, All2.nil⟩
  | cons d ds ih =>
    intro ci bits tail htab h
    simp only [mcuItems, segBits] at h
    cases hi : itemBits (cds.getD (tblOf.getD ci 0) ⟨[], []⟩) d with
    | none => rw [hi] at h; simp at h
    | some bi =>
      rw [hi] at h
      cases hr : segBits cds tblOf (mcuItems (ci + 1) ds) with
      | none => rw [hr] at h; simp at h
      | some r =>
        rw [hr] at h
        simp only [Option.some.injEq] at h
        subst h
        obtain ⟨t, hc, hd⟩ := htab ci (Nat.le_refl _) (by simp)
        obtain ⟨d', hdec, hcong⟩ := decodeItem_itemBits t _ _ hc hd d bi (r ++ tail) hi
        have htab' : TablesOK cds dds tblOf (ci + 1) (ci + 1 + ds.length) := by
          intro c h1 h2
          exact htab c (by omega) (by simp only [List.length_cons]; omega)
        obtain ⟨ds', hrest, hall⟩ := ih (ci + 1) r tail htab' hr
        refine ⟨d' :: ds', ?_, All2.cons hcong hall⟩
        simp only [List.length_cons, decodeMcu, List.append_assoc, hdec, hrest, mcuItems]

theorem all2_length {α β : Type} {R : α → β → Prop} {a : List α} {b : List β} (h : All2 R a b) :
    a.length = b.length := by
  induction h with
  | nil => rfl
  | cons _ _ ih => simp [ih]

theorem all2_append {α β : Type} {R : α → β → Prop} {a c : List α} {b d : List β}
    (h1 : All2 R a b) (h2 : All2 R c d) : All2 R (a ++ c) (b ++ d) := by
  induction h1 with
  | nil => exact h2
  | cons hr _ ih => exact All2.cons hr ih

/-- **entropy-coded differences round-trip**: a sequence of MCUs (each holding one
difference per component) encoded with tables accepted by both table builders, followed
by anything (padding bits), decodes to MCUs with congruent differences and leaves exactly
what followed -/
theorem decodeItems_ok (cds : List CDerived) (dds : List DDerived) (tblOf : List Nat) (nc : Nat)
    (htab : TablesOK cds dds tblOf 0 nc) :
    ∀ (mcus : List (List Int)) (bits tail : List Bool), (∀ m ∈ mcus, m.length = nc) →
      segBits cds tblOf (mcus.flatMap (mcuItems 0)) = some bits →
      ∃ mcus', decodeItems dds tblOf nc mcus.length (bits ++ tail) = some (mcus'.flatMap (mcuItems 0), tail) ∧
        All2 (All2 Cong16) mcus' mcus := by
  intro mcus
  induction mcus with
  | nil =>
    intro bits tail _ h
    simp only [List.flatMap_nil, segBits, Option.some.injEq] at h
    subst h
    exact ⟨[], rfl, All2.nil⟩
  | cons m mcus ih =>
    intro bits tail hlen h
    rw [List.flatMap_cons] at h
    obtain ⟨x, y, hx, hy, e⟩ := segBits_append cds tblOf _ _ bits h
    subst e
    have hm : m.length = nc := hlen m (List.mem_cons_self ..)
    obtain ⟨m', hdec, hall⟩ := decodeMcu_ok cds dds tblOf m 0 x (y ++ tail)
      (by rw [Nat.zero_add, hm]; exact htab) hx
    obtain ⟨mcus', hrest, hall'⟩ := ih y tail (fun k hk => hlen k (List.mem_cons_of_mem _ hk)) hy
    refine ⟨m' :: mcus', ?_, All2.cons hall hall'⟩
    rw [hm] at hdec
    simp only [List.length_cons, decodeItems, List.append_assoc, hdec, hrest, List.flatMap_cons]

end LJT.LL
