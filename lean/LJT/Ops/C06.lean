import LJT.Ops.Util
import LJT.Model.Transform
namespace LJT.Ops
open LJT.Xform

def c06Coef (seed ci byy bx k : Nat) : Int :=
  let v := (seed + 1) * (ci * 7 + byy * 131 + bx * 17 + k * 3 + 11) * 40503 / 64
  let r : Int := ((v % 41 : Nat) : Int) - 20
  if k > 20 && v % 4 ≠ 0 then 0 else r

def c06Quant (tbl k : Nat) : Nat := 1 + ((k * 7 + tbl * 3) % 50) + (if k = 10 then 300 * tbl else 0)

def fnv16 (vals : List Nat) : Nat :=
  fnv (vals.flatMap (fun v => [v % 256, (v / 256) % 256]))

def ssFactors (ss : Nat) : Nat × Nat :=
  if ss ≥ 10 then (ss / 10, ss % 10) else
  ([1, 2, 2, 1, 1, 4, 1].getD ss 1, [1, 1, 2, 1, 2, 1, 4].getD ss 1)

def opC06 : List String → Option String
  | ["xform", op, ss, w, h, opts, cx, cy, cw, ch, seed, _] => do
    let op := Op.fromTJ (← nat? op); let ss ← nat? ss; let w ← nat? w; let h ← nat? h; let opts ← nat? opts
    let cx ← nat? cx; let cy ← nat? cy; let cw ← nat? cw; let ch ← nat? ch; let seed ← nat? seed
    let (hs, vs) := ssFactors ss
    let nc := if ss = 3 then 1 else 3
    let bit (n : Nat) := (opts / n) % 2 = 1
    match plan w h hs vs nc op (bit 1) (bit 2) (bit 8) (bit 4) cx cy cw ch with
    | none => some "err"
    | some p =>
      let comps := (List.range p.ncOut).map (fun ci =>
        let g := component p op (fun byy bx => (List.range 64).map (fun k => c06Coef seed ci byy bx k)) ci
        let blocks := (List.range g.hb).flatMap (fun y => (List.range g.wb).flatMap (fun x =>
          (g.at_ y x).map (fun v => (v % 65536).toNat)))
        let q := xformQuant op ((List.range 64).map (c06Quant (if ci = 0 then 0 else 1)))
        let hh := if ci = 0 then p.dh else 1
        let vv := if ci = 0 then p.dv else 1
        s!" | {hh} {vv} {g.wb}x{g.hb} q{fnv16 q} b{fnv16 blocks}")
      some s!"{p.outW}x{p.outH} nc{p.ncOut}{String.join comps}"
  | _ => none

end LJT.Ops
