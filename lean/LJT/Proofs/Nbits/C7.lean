import LJT.Model.Nbits
/-! kernel-evaluated check of entries 57344..65535 of the regenerated nbits table -/
namespace LJT
theorem nbits_chunk_C7 : checkRange nbitsTbl nbitsSpec 14 57344 8192 = true := by decide +kernel
end LJT
