/* C20 / C13(size clause) operations: plane geometry and buffer-size helpers;
 * YUV content equalities on the real code. */
#include "exec_common.h"

typedef unsigned __int128 u128;

static unsigned long long sat_u128(u128 v) { return v > (u128)ULLONG_MAX ? ULLONG_MAX : (unsigned long long)v; }

/* yuvgeom <width> <height> <align> <subsamp> <stride>
 * R: pw0 pw1 pw2 ph0 ph1 ph2 ps0 ps1 ps2 ybuf | legacy: tjPlaneWidth(1) tjPlaneHeight(1) tjBufSizeYUV2 tjPlaneSizeYUV(1)
 * O: the published closed forms, evaluated in 128-bit arithmetic */
static int op_yuvgeom(toks_t *t)
{
  int w = (int)tl(t, 1), h = (int)tl(t, 2), align = (int)tl(t, 3), ss = (int)tl(t, 4), stride = (int)tl(t, 5);
  int i, pw[3], ph[3]; size_t ps[3], ybuf;
  for (i = 0; i < 3; i++) {
    pw[i] = tj3YUVPlaneWidth(i, w, ss);
    ph[i] = tj3YUVPlaneHeight(i, h, ss);
    ps[i] = tj3YUVPlaneSize(i, w, stride, h, ss);
  }
  ybuf = tj3YUVBufSize(w, align, h, ss);
  printf("R %d %d %d %d %d %d %zu %zu %zu %zu | %d %d %lu %lu\n", pw[0], pw[1], pw[2], ph[0], ph[1], ph[2],
         ps[0], ps[1], ps[2], ybuf, tjPlaneWidth(1, w, ss), tjPlaneHeight(1, h, ss),
         tjBufSizeYUV2(w, align, h, ss), tjPlaneSizeYUV(1, w, stride, h, ss));
  /* oracle */
  if (ss >= 0 && ss < TJ_NUMSAMP && w >= 1 && h >= 1) {
    int nc = ss == TJSAMP_GRAY ? 1 : 3, bad = 0; const char *why = "";
    u128 mw = tjMCUWidth[ss] / 8, mh = tjMCUHeight[ss] / 8, tot = 0;
    int pow2 = align >= 1 && (align & (align - 1)) == 0, ovf = 0;
    for (i = 0; i < nc; i++) {
      u128 epw = ((u128)w + mw - 1) / mw * (i ? 1 : mw);
      u128 eph = ((u128)h + mh - 1) / mh * (i ? 1 : mh);
      u128 est, eps, ast;
      if (epw > INT_MAX) epw = 0;
      if (eph > INT_MAX) eph = 0;
      if ((u128)pw[i] != epw) { bad = 1; why = "plane-width"; }
      if ((u128)ph[i] != eph) { bad = 1; why = "plane-height"; }
      if (epw && (u128)pw[i] * (i ? mw : 1) < (u128)w) { bad = 1; why = "plane-does-not-cover-width"; }
      ast = stride == 0 ? epw : (stride < 0 ? (u128)(-(long long)stride) : (u128)stride);
      eps = (epw && eph) ? ast * (eph - 1) + epw : 0;
      if ((u128)ps[i] != eps) { bad = 1; why = "plane-size"; }
      if (pow2) {
        est = (epw + align - 1) / align * align;
        if (!epw || !eph || est > INT_MAX) ovf = 1;
        tot += est * eph;
      }
    }
    if (pow2) {
      if (ovf) tot = 0;
      if ((u128)ybuf != tot) { bad = 1; why = "yuv-buf-size-is-not-sum-of-planes"; }
    } else if (ybuf != 0) { bad = 1; why = "non-power-of-two-align-accepted"; }
    if (bad) printf("O fail yuvgeom %s\n", why); else printf("O ok\n");
  } else {
    int ssbad = !(ss >= 0 && ss < TJ_NUMSAMP);
    if (((w < 1 || ssbad) && (pw[0] || pw[1] || pw[2])) || ((h < 1 || ssbad) && (ph[0] || ph[1] || ph[2])) ||
        ps[0] || ps[1] || ps[2] || ybuf)
      printf("O fail yuvgeom invalid-argument-accepted\n");
    else printf("O ok\n");
  }
  return 1;
}

/* jbuf <width> <height> <subsamp>   R: tj3JPEGBufSize tjBufSize TJBUFSIZE */
static int op_jbuf(toks_t *t)
{
  int w = (int)tl(t, 1), h = (int)tl(t, 2), ss = (int)tl(t, 3);
  size_t a = tj3JPEGBufSize(w, h, ss);
  unsigned long b = tjBufSize(w, h, ss), c = TJBUFSIZE(w, h);
  printf("R %zu %lu %lu\n", a, b, c);
  if (w >= 1 && h >= 1 && ss >= -1 && ss < TJ_NUMSAMP) {
    int s2 = ss < 0 ? TJSAMP_444 : ss;
    u128 mw = tjMCUWidth[s2], mh = tjMCUHeight[s2];
    u128 csf = s2 == TJSAMP_GRAY ? 0 : 4 * 64 / (mw * mh);
    u128 e = (((u128)w + mw - 1) / mw * mw) * (((u128)h + mh - 1) / mh * mh) * (2 + csf) + 2048;
    if (e > (u128)ULLONG_MAX) e = 0;
    if ((u128)a != e) printf("O fail jbuf tj3JPEGBufSize=%zu expected %llu\n", a, (unsigned long long)e);
    else printf("O ok\n");
  } else {
    if (a) printf("O fail jbuf invalid-argument-accepted\n"); else printf("O ok\n");
  }
  return 1;
}

/* scaled <dim> : R: TJSCALED(dim, sf[i]) for the 16 factors, and jpeg_calc_output_dimensions */
static int op_scaled(toks_t *t)
{
  int dim = (int)tl(t, 1), n = 0, i, bad = 0;
  tjscalingfactor *sf = tj3GetScalingFactors(&n);
  printf("R");
  for (i = 0; i < n; i++) {
    int v = TJSCALED(dim, sf[i]);
    long long e = ((long long)dim * sf[i].num + sf[i].denom - 1) / sf[i].denom;
    printf(" %d", v);
    if (v != e) bad = 1;
  }
  printf("\n");
  if (bad) printf("O fail TJSCALED\n"); else printf("O ok\n");
  return 1;
}

/* yuvcontent <w> <h> <subsamp> <sfidx> <pf> <stridemode> <align> <seed>
 * Oracle on the real library only (the model answers "skip"):
 *  (1) per-plane decompress-to-YUV == unified decompress-to-YUV at the documented offsets
 *  (2) decode-planes(planes) == direct decompress with fast upsampling (same scale)
 *  (3) at scale 1/1: planes == raw-data decode cropped to the plane size
 *  (4) bytes in stride padding keep their previous value
 * stridemode: 0 NULL strides, 1 all zero, 2 explicit padded, 3 {padded,0,0}, 4 {0,padded,padded} */
static unsigned long long yc_state;
static unsigned yc_next(void)
{
  yc_state ^= yc_state << 13; yc_state ^= yc_state >> 7; yc_state ^= yc_state << 17;
  return (unsigned)(yc_state >> 32);
}

/* a grayscale JPEG that holds exactly component `ci` of the given stream (same coefficient blocks, same quantisation table) */
static int yc_component_jpeg(const unsigned char *jp, size_t n, int ci, unsigned char **out, unsigned long *outn, int *cw, int *ch)
{
  struct jpeg_decompress_struct d; struct jpeg_compress_struct c; my_err_t ed, ec; jvirt_barray_ptr *arr; jvirt_barray_ptr one[1]; jpeg_component_info *cp; JDIMENSION by, bx; int k;
  d.err = my_err_init(&ed); c.err = my_err_init(&ec);
  jpeg_create_decompress(&d); jpeg_create_compress(&c);
  if (setjmp(ed.jb) || setjmp(ec.jb)) { jpeg_destroy_compress(&c); jpeg_destroy_decompress(&d); return 0; }
  jpeg_mem_src(&d, jp, n);
  jpeg_read_header(&d, TRUE);
  arr = jpeg_read_coefficients(&d);
  cp = &d.comp_info[ci];
  *cw = (int)((d.image_width * (JDIMENSION)cp->h_samp_factor + (JDIMENSION)d.max_h_samp_factor - 1) / (JDIMENSION)d.max_h_samp_factor);
  *ch = (int)((d.image_height * (JDIMENSION)cp->v_samp_factor + (JDIMENSION)d.max_v_samp_factor - 1) / (JDIMENSION)d.max_v_samp_factor);
  jpeg_mem_dest(&c, out, outn);
  c.image_width = (JDIMENSION)*cw; c.image_height = (JDIMENSION)*ch; c.input_components = 1; c.in_color_space = JCS_GRAYSCALE;
  jpeg_set_defaults(&c);
  if (c.quant_tbl_ptrs[0] == NULL) c.quant_tbl_ptrs[0] = jpeg_alloc_quant_table((j_common_ptr)&c);
  for (k = 0; k < 64; k++) c.quant_tbl_ptrs[0]->quantval[k] = cp->quant_table ? cp->quant_table->quantval[k] : d.quant_tbl_ptrs[cp->quant_tbl_no]->quantval[k];
  c.quant_tbl_ptrs[0]->sent_table = FALSE;
  c.optimize_coding = TRUE;
  one[0] = (*c.mem->request_virt_barray) ((j_common_ptr)&c, JPOOL_IMAGE, TRUE, cp->width_in_blocks, cp->height_in_blocks, 1);
  jpeg_write_coefficients(&c, one);
  for (by = 0; by < cp->height_in_blocks; by++) {
    JBLOCKARRAY src = (*d.mem->access_virt_barray) ((j_common_ptr)&d, arr[ci], by, 1, FALSE);
    JBLOCKARRAY dst = (*c.mem->access_virt_barray) ((j_common_ptr)&c, one[0], by, 1, TRUE);
    for (bx = 0; bx < cp->width_in_blocks; bx++) memcpy(dst[0][bx], src[0][bx], sizeof(JBLOCK));
  }
  jpeg_finish_compress(&c);
  jpeg_destroy_compress(&c);
  jpeg_finish_decompress(&d);
  jpeg_destroy_decompress(&d);
  return 1;
}

static int op_yuvcontent(toks_t *t)
{
  int w = (int)tl(t, 1), h = (int)tl(t, 2), ss = (int)tl(t, 3), sfi = (int)tl(t, 4), pf = (int)tl(t, 5);
  int smode = (int)tl(t, 6), align = (int)tl(t, 7);
  int nsf = 0, i, x, y, nc = ss == TJSAMP_GRAY ? 1 : 3, bad = 0, sw, sh, ps = tjPixelSize[pf];
  tjscalingfactor *sfs = tj3GetScalingFactors(&nsf), sf;
  tjhandle hc = tj3Init(TJINIT_COMPRESS), hd = tj3Init(TJINIT_DECOMPRESS);
  unsigned char *rgb = (unsigned char *)malloc((size_t)w * h * 3), *jpeg = NULL;
  unsigned char *planes[3] = { NULL, NULL, NULL }, *uni = NULL, *p1 = NULL, *p2 = NULL;
  int strides[3] = { 0, 0, 0 }, pw[3], ph[3], st[3];
  size_t jsize = 0;
  char why[200] = "";
  yc_state = 0x2545F4914F6CDD1DULL ^ (unsigned long long)tl(t, 8) * 0x9E3779B97F4A7C15ULL;
  for (y = 0; y < h; y++) for (x = 0; x < w; x++) {
    unsigned r = yc_next();
    rgb[(y * w + x) * 3 + 0] = (unsigned char)((x * 7 + (r & 63)) & 255);
    rgb[(y * w + x) * 3 + 1] = (unsigned char)((y * 5 + ((r >> 8) & 63)) & 255);
    rgb[(y * w + x) * 3 + 2] = (unsigned char)(((x + y) * 3 + ((r >> 16) & 127)) & 255);
  }
  sf = sfs[sfi % nsf];
  if (ss >= 100) {
    /* the same 4:2:2 / 4:4:0 geometry written with doubled sampling factors (luma 2x2, chroma 1x2 resp. 2x1), through the libjpeg API:
       legal, and something the TurboJPEG compressor never writes */
    struct jpeg_compress_struct c; my_err_t ce; unsigned long ul = 0; int nsv = ss - 100;
    ss = nsv == 0 ? TJSAMP_422 : TJSAMP_440; nc = 3;
    c.err = my_err_init(&ce);
    jpeg_create_compress(&c);
    if (setjmp(ce.jb)) { printf("R skip compress-failed %d\n", ce.code); jpeg_destroy_compress(&c); goto done; }
    jpeg_mem_dest(&c, &jpeg, &ul);
    c.image_width = (JDIMENSION)w; c.image_height = (JDIMENSION)h; c.input_components = 3; c.in_color_space = JCS_RGB;
    jpeg_set_defaults(&c); jpeg_set_quality(&c, 90, TRUE);
    c.comp_info[0].h_samp_factor = 2; c.comp_info[0].v_samp_factor = 2;
    c.comp_info[1].h_samp_factor = c.comp_info[2].h_samp_factor = nsv == 0 ? 1 : 2;
    c.comp_info[1].v_samp_factor = c.comp_info[2].v_samp_factor = nsv == 0 ? 2 : 1;
    jpeg_start_compress(&c, TRUE);
    for (y = 0; y < h; y++) { JSAMPROW rp = rgb + (size_t)y * w * 3; jpeg_write_scanlines(&c, &rp, 1); }
    jpeg_finish_compress(&c); jpeg_destroy_compress(&c);
    jsize = ul;
  } else {
  tj3Set(hc, TJPARAM_SUBSAMP, ss); tj3Set(hc, TJPARAM_QUALITY, 90);
  if (tj3Compress8(hc, rgb, w, 0, h, TJPF_RGB, &jpeg, &jsize) < 0) { printf("R skip compress-failed\n"); goto done; }
  }
  if (tj3DecompressHeader(hd, jpeg, jsize) < 0 || tj3SetScalingFactor(hd, sf) < 0) { printf("R skip header\n"); goto done; }
  if (tj3Get(hd, TJPARAM_SUBSAMP) != ss) {
    printf("R content subsamp\n"); printf("O fail yuvcontent the header of a JPEG whose sampling factors describe subsampling level %d reports level %d\n", ss, tj3Get(hd, TJPARAM_SUBSAMP));
    goto done;
  }
  sw = TJSCALED(w, sf); sh = TJSCALED(h, sf);
  for (i = 0; i < nc; i++) {
    pw[i] = tj3YUVPlaneWidth(i, sw, ss); ph[i] = tj3YUVPlaneHeight(i, sh, ss);
    st[i] = pw[i];
    if (smode == 2 || (smode == 3 && i == 0) || (smode == 4 && i > 0)) st[i] = pw[i] + 5 + i;
    strides[i] = (smode == 0 || smode == 1) ? 0 : (st[i] == pw[i] ? 0 : st[i]);
    planes[i] = (unsigned char *)malloc((size_t)st[i] * ph[i] + 16);
    memset(planes[i], 0xA5, (size_t)st[i] * ph[i] + 16);
  }
  printf("R content %dx%d ss=%d sf=%d/%d\n", sw, sh, ss, sf.num, sf.denom);
  if (tj3DecompressToYUVPlanes8(hd, jpeg, jsize, planes, smode == 0 ? NULL : strides) < 0) {
    snprintf(why, sizeof(why), "tj3DecompressToYUVPlanes8: %s", tj3GetErrorStr(hd)); bad = 1; goto verdict;
  }
  for (i = 0; i < nc && !bad; i++)          /* (4) padding untouched */
    for (y = 0; y < ph[i] && !bad; y++)
      for (x = pw[i]; x < st[i]; x++)
        if (planes[i][(size_t)y * st[i] + x] != 0xA5) { bad = 1; snprintf(why, sizeof(why), "stride padding of plane %d written", i); break; }
  /* (1) unified buffer */
  if (!bad) {
    size_t usz = tj3YUVBufSize(sw, align, sh, ss), off = 0;
    uni = (unsigned char *)malloc(usz + 1);
    memset(uni, 0x5A, usz + 1);
    if (tj3DecompressToYUV8(hd, jpeg, jsize, uni, align) < 0) { bad = 1; snprintf(why, sizeof(why), "tj3DecompressToYUV8: %s", tj3GetErrorStr(hd)); }
    for (i = 0; i < nc && !bad; i++) {
      int ust = (pw[i] + align - 1) & ~(align - 1);
      /* rows that carry decoded data: whole (scaled) blocks of the component; plane rows
         beyond them exist only because the plane height is padded to the iMCU and are
         not defined by either entry point */
      int vi = i ? 1 : tjMCUHeight[ss] / 8, maxv = tjMCUHeight[ss] / 8;
      int hblk = ((h * vi + maxv - 1) / maxv + 7) / 8, dcts = 8 * sf.num / sf.denom;
      int valid = hblk * dcts < ph[i] ? hblk * dcts : ph[i];
      int hi = i ? 1 : tjMCUWidth[ss] / 8, maxh = tjMCUWidth[ss] / 8;
      int wblk = ((w * hi + maxh - 1) / maxh + 7) / 8;
      int vcols = wblk * dcts < pw[i] ? wblk * dcts : pw[i];
      for (y = 0; y < valid && !bad; y++)
        if (memcmp(uni + off + (size_t)y * ust, planes[i] + (size_t)y * st[i], vcols)) { bad = 1; snprintf(why, sizeof(why), "unified buffer differs from per-plane output (plane %d row %d)", i, y); }
      off += (size_t)ust * ph[i];
    }
    if (!bad && uni[usz] != 0x5A) { bad = 1; snprintf(why, sizeof(why), "write beyond tj3YUVBufSize"); }
  }
  /* (5) every plane is the component itself decoded at the same scale: compare with a grayscale JPEG that holds exactly that
     component's coefficient blocks, decoded by the ordinary decompressor with the same scaling factor */
  for (i = 0; i < nc && !bad; i++) {
    unsigned char *gj = NULL, *gp; unsigned long gn = 0; int cw, ch, gw, gh, yy; tjhandle hg;
    if (!yc_component_jpeg(jpeg, jsize, i, &gj, &gn, &cw, &ch)) { free(gj); continue; }
    hg = tj3Init(TJINIT_DECOMPRESS);
    if (tj3DecompressHeader(hg, gj, gn) == 0 && tj3SetScalingFactor(hg, sf) == 0) {
      gw = TJSCALED(cw, sf); gh = TJSCALED(ch, sf);
      gp = (unsigned char *)malloc((size_t)gw * gh + 16);
      if (tj3Decompress8(hg, gj, gn, gp, 0, TJPF_GRAY) == 0) {
        int cmpw = gw < pw[i] ? gw : pw[i], cmph = gh < ph[i] ? gh : ph[i];
        for (yy = 0; yy < cmph && !bad; yy++)
          if (memcmp(gp + (size_t)yy * gw, planes[i] + (size_t)yy * st[i], (size_t)cmpw)) {
            int xx = 0; while (xx < cmpw && gp[(size_t)yy * gw + xx] == planes[i][(size_t)yy * st[i] + xx]) xx++;
            bad = 1; snprintf(why, sizeof(why), "plane %d differs from the component decoded on its own at %d/%d (row %d col %d: %d vs %d)", i, sf.num, sf.denom, yy, xx, planes[i][(size_t)yy * st[i] + xx], gp[(size_t)yy * gw + xx]);
          }
      }
      free(gp);
    }
    tj3Destroy(hg); free(gj);
  }
  /* (2) decode planes == direct decompress with fast upsampling */
  if (!bad) {
    p1 = (unsigned char *)malloc((size_t)sw * sh * ps); p2 = (unsigned char *)malloc((size_t)sw * sh * ps);
    memset(p1, 1, (size_t)sw * sh * ps); memset(p2, 2, (size_t)sw * sh * ps);
    if (tj3DecodeYUVPlanes8(hd, (const unsigned char * const *)planes, smode == 0 ? NULL : strides, p1, sw, 0, sh, pf) < 0) {
      bad = 1; snprintf(why, sizeof(why), "tj3DecodeYUVPlanes8: %s", tj3GetErrorStr(hd));
    } else {
      tj3Set(hd, TJPARAM_FASTUPSAMPLE, 1);
      if (tj3Decompress8(hd, jpeg, jsize, p2, 0, pf) < 0) { bad = 1; snprintf(why, sizeof(why), "tj3Decompress8: %s", tj3GetErrorStr(hd)); }
      else {
        for (y = 0; y < sh && !bad; y++) for (x = 0; x < sw * ps; x++) {
          int ch = x % ps;
          if ((pf == TJPF_RGBX || pf == TJPF_BGRX) && ch == 3) continue;
          if ((pf == TJPF_XBGR || pf == TJPF_XRGB) && ch == 0) continue;
          if (p1[(size_t)y * sw * ps + x] != p2[(size_t)y * sw * ps + x]) {
            bad = 1; snprintf(why, sizeof(why), "decode-planes differs from fast-upsampling decompress at row %d byte %d (%d vs %d)", y, x, p1[(size_t)y * sw * ps + x], p2[(size_t)y * sw * ps + x]); break;
          }
        }
      }
    }
  }
  /* (3) raw-data decode at scale 1/1 */
  if (!bad && sf.num == 1 && sf.denom == 1) {
    struct jpeg_decompress_struct d; my_err_t e; int ci;
    d.err = my_err_init(&e);
    jpeg_create_decompress(&d);
    if (!setjmp(e.jb)) {
      JSAMPARRAY rows[3]; int mcuh;
      jpeg_mem_src(&d, jpeg, (unsigned long)jsize);
      jpeg_read_header(&d, TRUE);
      d.raw_data_out = TRUE;
      d.do_fancy_upsampling = FALSE;
      jpeg_start_decompress(&d);
      mcuh = d.max_v_samp_factor * DCTSIZE;
      for (ci = 0; ci < d.num_components; ci++) {
        int rh = d.comp_info[ci].v_samp_factor * DCTSIZE, r2;
        rows[ci] = (JSAMPARRAY)malloc(sizeof(JSAMPROW) * rh);
        for (r2 = 0; r2 < rh; r2++) rows[ci][r2] = (JSAMPROW)malloc(d.comp_info[ci].width_in_blocks * DCTSIZE);
      }
      while (d.output_scanline < d.output_height && !bad) {
        int base = d.output_scanline;
        jpeg_read_raw_data(&d, rows, mcuh);
        for (ci = 0; ci < d.num_components && !bad; ci++) {
          int vs = d.comp_info[ci].v_samp_factor, rh = vs * DCTSIZE, r2;
          int prow0 = base * vs / d.max_v_samp_factor;
          for (r2 = 0; r2 < rh && !bad; r2++) {
            int pr = prow0 + r2;
            if (pr >= ph[ci]) break;
            if (memcmp(rows[ci][r2], planes[ci] + (size_t)pr * st[ci], pw[ci])) { bad = 1; snprintf(why, sizeof(why), "plane %d row %d differs from raw-data decode", ci, pr); }
          }
        }
      }
      jpeg_abort_decompress(&d);
    } else { bad = 1; snprintf(why, sizeof(why), "libjpeg raw decode error %d", e.code); }
    jpeg_destroy_decompress(&d);
  }
verdict:
  if (bad) printf("O fail yuvcontent %s\n", why); else printf("O ok\n");
done:
  for (i = 0; i < 3; i++) free(planes[i]);
  free(uni); free(p1); free(p2); free(rgb); tj3Free(jpeg);
  tj3Destroy(hc); tj3Destroy(hd);
  return 1;
}

/* yuvcomp <w> <h> <subsamp> <seed> : the same planar YUV image (every byte of the documented planes seeded, the padding columns and rows
 * included) compressed through tj3CompressFromYUVPlanes8 with strides NULL, with strides all 0, with explicit strides equal to the plane
 * widths, with wider strides, and through tj3CompressFromYUV8 from the unified buffer (align 1): five descriptions of one image by the
 * documented geometry, one JPEG. */
static int op_yuvcomp(toks_t *t)
{
  int w = (int)tl(t, 1), h = (int)tl(t, 2), ss = (int)tl(t, 3), nc = ss == TJSAMP_GRAY ? 1 : 3, i, y, k, bad = 0;
  int pw[3] = { 0, 0, 0 }, ph[3] = { 0, 0, 0 }, st[3], zero[3] = { 0, 0, 0 };
  unsigned char *tight[3] = { 0, 0, 0 }, *wide[3] = { 0, 0, 0 }, *uni = NULL, *jp[5] = { 0, 0, 0, 0, 0 }; size_t jn[5] = { 0, 0, 0, 0, 0 }, off = 0, usz;
  const unsigned char *cp[3]; char why[200] = ""; tjhandle hc = tj3Init(TJINIT_COMPRESS);
  yc_state = 0x2545F4914F6CDD1DULL ^ (unsigned long long)tl(t, 4) * 0x9E3779B97F4A7C15ULL;
  tj3Set(hc, TJPARAM_SUBSAMP, ss); tj3Set(hc, TJPARAM_QUALITY, 95);
  usz = tj3YUVBufSize(w, 1, h, ss);
  uni = (unsigned char *)malloc(usz + 1);
  for (i = 0; i < nc; i++) {
    pw[i] = tj3YUVPlaneWidth(i, w, ss); ph[i] = tj3YUVPlaneHeight(i, h, ss); st[i] = pw[i] + 3 + i;
    tight[i] = (unsigned char *)malloc((size_t)pw[i] * ph[i] + 1); wide[i] = (unsigned char *)malloc((size_t)st[i] * ph[i] + 1);
    memset(wide[i], 0x77, (size_t)st[i] * ph[i]);
    for (y = 0; y < ph[i]; y++) for (k = 0; k < pw[i]; k++) {
      unsigned char v = (unsigned char)((k * 3 + y * 5 + (yc_next() & 31)) & 255);
      tight[i][(size_t)y * pw[i] + k] = v; wide[i][(size_t)y * st[i] + k] = v; uni[off + (size_t)y * pw[i] + k] = v;
    }
    off += (size_t)pw[i] * ph[i];
  }
  printf("R yuvcomp %dx%d ss=%d planes %dx%d %dx%d\n", w, h, ss, pw[0], ph[0], pw[1], ph[1]);
  for (i = 0; i < 3; i++) cp[i] = tight[i];
  if (tj3CompressFromYUVPlanes8(hc, cp, w, NULL, h, &jp[0], &jn[0]) < 0) { bad = 1; snprintf(why, sizeof(why), "strides NULL: %s", tj3GetErrorStr(hc)); }
  if (!bad && tj3CompressFromYUVPlanes8(hc, cp, w, zero, h, &jp[1], &jn[1]) < 0) { bad = 1; snprintf(why, sizeof(why), "strides 0: %s", tj3GetErrorStr(hc)); }
  if (!bad && tj3CompressFromYUVPlanes8(hc, cp, w, pw, h, &jp[2], &jn[2]) < 0) { bad = 1; snprintf(why, sizeof(why), "strides = plane widths: %s", tj3GetErrorStr(hc)); }
  for (i = 0; i < 3; i++) cp[i] = wide[i];
  if (!bad && tj3CompressFromYUVPlanes8(hc, cp, w, st, h, &jp[3], &jn[3]) < 0) { bad = 1; snprintf(why, sizeof(why), "wider strides: %s", tj3GetErrorStr(hc)); }
  if (!bad && tj3CompressFromYUV8(hc, uni, w, 1, h, &jp[4], &jn[4]) < 0) { bad = 1; snprintf(why, sizeof(why), "unified buffer: %s", tj3GetErrorStr(hc)); }
  for (i = 1; i < 5 && !bad; i++)
    if (jn[i] != jn[0] || memcmp(jp[i], jp[0], jn[0])) {
      static const char *nm[5] = { "strides NULL", "strides all 0", "strides = plane widths", "wider strides", "tj3CompressFromYUV8 (align 1)" };
      bad = 1; snprintf(why, sizeof(why), "the JPEG from '%s' (%zu bytes) differs from the one from 'strides NULL' (%zu bytes)", nm[i], jn[i], jn[0]);
    }
  if (bad) printf("O fail yuvcomp %dx%d subsamp %d: %s\n", w, h, ss, why); else printf("O ok\n");
  for (i = 0; i < 3; i++) { free(tight[i]); free(wide[i]); }
  for (i = 0; i < 5; i++) tj3Free(jp[i]);
  free(uni); tj3Destroy(hc);
  return 1;
}

static int dispatch_c20(toks_t *t)
{
  if (!strcmp(t->tok[0], "yuvcomp") && t->n >= 5) return op_yuvcomp(t);
  const char *op = t->tok[0];
  if (!strcmp(op, "yuvgeom")) return op_yuvgeom(t);
  if (!strcmp(op, "jbuf")) return op_jbuf(t);
  if (!strcmp(op, "scaled")) return op_scaled(t);
  if (!strcmp(op, "yuvcontent")) return op_yuvcontent(t);
  return 0;
}
