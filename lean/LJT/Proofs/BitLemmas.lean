/-! Bit-mask facts used wherever the C code clears or keeps low bits with `&`. -/
namespace LJT

/-- `x & ~(2^k - 1)` in an `n`-bit unsigned type clears the `k` low bits. -/
theorem land_mask (x k n : Nat) (hk : k ≤ n) (hx : x < 2^n) :
    x &&& (2^n - 2^k) = x / 2^k * 2^k := by
  have hm : 2^n - 2^k = (2^(n-k) - 1) <<< k := by
    rw [Nat.shiftLeft_eq, Nat.sub_mul, ← Nat.pow_add, Nat.sub_add_cancel hk]; simp
  rw [hm]
  apply Nat.eq_of_testBit_eq
  intro i
  rw [Nat.testBit_and, Nat.testBit_shiftLeft, Nat.testBit_two_pow_sub_one]
  rw [← Nat.shiftLeft_eq, ← Nat.shiftRight_eq_div_pow, Nat.testBit_shiftLeft, Nat.testBit_shiftRight]
  by_cases h : k ≤ i
  · simp [h]
    by_cases h2 : i < n
    · have : i - k < n - k := by omega
      simp [this]
    · have : ¬ (i - k < n - k) := by omega
      simp [this]
      have : x < 2^i := Nat.lt_of_lt_of_le hx (Nat.pow_le_pow_right (by omega) (by omega))
      exact Nat.testBit_lt_two_pow this
  · simp [h]

end LJT
