import LJT.Model.SeqHuff
import LJT.Model.Suspend
/-!
The sequential Huffman MCU decoder obeys the suspension contract at the bit level: once it can finish on the bits it
was given, more bits behind them change neither what it decodes nor how much it consumes (it never looks beyond what
it needs).  With `LJT.Suspend.chunking_independent` this makes the decoded blocks independent of how the
entropy-coded data was cut into deliveries.
-/
namespace LJT.SeqHuff
open LJT.Huff LJT.LL

theorem decodeLv_append (vals : List Nat) : ∀ (lv : List (Int × Int)) (l : Nat) (code : Int) (bs e : List Bool) (s : Nat) (f : Bool)
    (rest : List Bool), decodeLv vals lv l code bs = some (s, f, rest) →
    decodeLv vals lv l code (bs ++ e) = some (s, f, rest ++ e) ∧ rest.length ≤ bs.length := by
  intro lv
  induction lv with
  | nil => intro l code bs e s f rest h; simp [decodeLv] at h
  | cons p lv ih =>
    intro l code bs e s f rest h
    obtain ⟨mc, vo⟩ := p
    simp only [decodeLv] at h ⊢
    by_cases hc : code ≤ mc
    · rw [if_pos hc] at h ⊢
      by_cases hl : l > 16
      · rw [if_pos hl] at h ⊢
        cases h; exact ⟨rfl, Nat.le_refl _⟩
      · rw [if_neg hl] at h ⊢
        cases h; exact ⟨rfl, Nat.le_refl _⟩
    · rw [if_neg hc] at h ⊢
      cases bs with
      | nil => cases h
      | cons b bs' =>
        obtain ⟨h1, h2⟩ := ih _ _ _ e _ _ _ h
        exact ⟨h1, by simp; omega⟩

theorem decode_append (d : DDerived) (bs e : List Bool) (s : Nat) (f : Bool) (rest : List Bool)
    (h : decode d bs = some (s, f, rest)) : decode d (bs ++ e) = some (s, f, rest ++ e) ∧ rest.length ≤ bs.length := by
  cases bs with
  | nil => cases h
  | cons b bs' =>
    simp only [decode, List.cons_append] at h ⊢
    obtain ⟨h1, h2⟩ := decodeLv_append _ _ _ _ _ e _ _ _ h
    exact ⟨h1, by simp; omega⟩

theorem decodeItem_append (d : DDerived) (bs e : List Bool) (v : Int) (rest : List Bool)
    (h : decodeItem d bs = some (v, rest)) : decodeItem d (bs ++ e) = some (v, rest ++ e) ∧ rest.length ≤ bs.length := by
  unfold decodeItem at h ⊢
  cases hd : decode d bs with
  | none => rw [hd] at h; cases h
  | some r =>
    obtain ⟨s, f, r'⟩ := r
    obtain ⟨h1, h2⟩ := decode_append d bs e s f r' hd
    rw [hd] at h
    rw [h1]
    simp only at h ⊢
    by_cases h0 : s = 0
    · rw [if_pos h0] at h ⊢; cases h; exact ⟨rfl, h2⟩
    · rw [if_neg h0] at h ⊢
      by_cases h16 : s = 16
      · rw [if_pos h16] at h ⊢; cases h; exact ⟨rfl, h2⟩
      · rw [if_neg h16] at h ⊢
        by_cases hlen : r'.length < s
        · rw [if_pos hlen] at h; cases h
        · rw [if_neg hlen] at h
          have hlen' : ¬ (r' ++ e).length < s := by simp; omega
          rw [if_neg hlen']
          cases h
          have hs : s ≤ r'.length := by omega
          rw [List.take_append_of_le_length hs, List.drop_append_of_le_length hs]
          exact ⟨rfl, by simp; omega⟩

theorem decodeAC_append (dd : DDerived) : ∀ (f rem : Nat) (bs e : List Bool) (l : List Int) (rest : List Bool),
    decodeAC dd f rem bs = some (l, rest) → decodeAC dd f rem (bs ++ e) = some (l, rest ++ e) ∧ rest.length ≤ bs.length := by
  intro f
  induction f with
  | zero =>
    intro rem bs e l rest h
    simp only [decodeAC] at h ⊢
    by_cases hr : rem = 0
    · rw [if_pos hr] at h ⊢; cases h; exact ⟨rfl, Nat.le_refl _⟩
    · rw [if_neg hr] at h; cases h
  | succ f ih =>
    intro rem bs e l rest h
    simp only [decodeAC] at h ⊢
    by_cases hr : rem = 0
    · rw [if_pos hr] at h ⊢; cases h; exact ⟨rfl, Nat.le_refl _⟩
    · rw [if_neg hr] at h ⊢
      cases hd : decode dd bs with
      | none => rw [hd] at h; cases h
      | some r =>
        obtain ⟨s, fl, r'⟩ := r
        obtain ⟨h1, h2⟩ := decode_append dd bs e s fl r' hd
        rw [hd] at h
        rw [h1]
        cases fl with
        | true => cases h
        | false =>
          simp only at h ⊢
          by_cases hn : s % 16 ≠ 0
          · rw [if_pos hn] at h ⊢
            by_cases h3 : s / 16 + 1 > rem
            · rw [if_pos h3] at h; cases h
            · rw [if_neg h3] at h ⊢
              by_cases h4 : r'.length < s % 16
              · rw [if_pos h4] at h; cases h
              · rw [if_neg h4] at h
                have h4' : ¬ (r' ++ e).length < s % 16 := by simp; omega
                rw [if_neg h4']
                have hs : s % 16 ≤ r'.length := by omega
                rw [List.take_append_of_le_length hs, List.drop_append_of_le_length hs]
                cases hrec : decodeAC dd f (rem - s / 16 - 1) (r'.drop (s % 16)) with
                | none => rw [hrec] at h; cases h
                | some q =>
                  obtain ⟨l', b'⟩ := q
                  obtain ⟨i1, i2⟩ := ih _ _ e _ _ hrec
                  rw [hrec] at h
                  rw [i1]
                  cases h
                  exact ⟨rfl, by simp at i2; omega⟩
          · rw [if_neg hn] at h ⊢
            by_cases h15 : s / 16 = 15
            · rw [if_pos h15] at h ⊢
              by_cases h5 : 16 > rem
              · rw [if_pos h5] at h; cases h
              · rw [if_neg h5] at h ⊢
                cases hrec : decodeAC dd f (rem - 16) r' with
                | none => rw [hrec] at h; cases h
                | some q =>
                  obtain ⟨l', b'⟩ := q
                  obtain ⟨i1, i2⟩ := ih _ _ e _ _ hrec
                  rw [hrec] at h
                  rw [i1]
                  cases h
                  exact ⟨rfl, by omega⟩
            · rw [if_neg h15] at h ⊢
              by_cases h0 : s / 16 = 0
              · rw [if_pos h0] at h ⊢; cases h; exact ⟨rfl, h2⟩
              · rw [if_neg h0] at h; cases h

theorem decodeBlock_append (ddc dac : DDerived) (bs e : List Bool) (v : Int) (ac : List Int) (rest : List Bool)
    (h : decodeBlock ddc dac bs = some (v, ac, rest)) :
    decodeBlock ddc dac (bs ++ e) = some (v, ac, rest ++ e) ∧ rest.length ≤ bs.length := by
  unfold decodeBlock at h ⊢
  cases hi : decodeItem ddc bs with
  | none =>
    rw [hi] at h
    split at h <;> cases h
  | some q =>
    obtain ⟨diff, r1⟩ := q
    obtain ⟨i1, i2⟩ := decodeItem_append ddc bs e diff r1 hi
    -- the DC symbol decodes (decodeItem succeeded), and it is the same symbol with more bits behind
    have hdec : ∃ s f r, decode ddc bs = some (s, f, r) := by
      unfold decodeItem at hi
      cases hd : decode ddc bs with
      | none => rw [hd] at hi; cases hi
      | some r => exact ⟨r.1, r.2.1, r.2.2, rfl⟩
    obtain ⟨s, f, r, hd⟩ := hdec
    obtain ⟨d1, _⟩ := decode_append ddc bs e s f r hd
    rw [hd, hi] at h
    rw [d1, i1]
    cases f with
    | true => cases h
    | false =>
      simp only at h ⊢
      cases ha : decodeAC dac 64 63 r1 with
      | none => rw [ha] at h; cases h
      | some q =>
        obtain ⟨ac', r2⟩ := q
        obtain ⟨a1, a2⟩ := decodeAC_append dac 64 63 r1 e ac' r2 ha
        rw [ha] at h
        rw [a1]
        cases h
        exact ⟨rfl, by omega⟩

theorem decodeBlocks_append (tabs : Nat → Option (DDerived × DDerived)) : ∀ (slots : List Nat) (pred : Array Int)
    (bs e : List Bool) (out : List Blk) (rest : List Bool), decodeBlocks tabs pred slots bs = some (out, rest) →
    decodeBlocks tabs pred slots (bs ++ e) = some (out, rest ++ e) ∧ rest.length ≤ bs.length := by
  intro slots
  induction slots with
  | nil => intro pred bs e out rest h; simp only [decodeBlocks] at h ⊢; cases h; exact ⟨rfl, Nat.le_refl _⟩
  | cons s slots ih =>
    intro pred bs e out rest h
    simp only [decodeBlocks] at h ⊢
    cases ht : tabs s with
    | none => rw [ht] at h; cases h
    | some tb =>
      obtain ⟨ddc, dac⟩ := tb
      rw [ht] at h
      simp only at h ⊢
      cases hb : decodeBlock ddc dac bs with
      | none => rw [hb] at h; cases h
      | some q =>
        obtain ⟨diff, ac, r1⟩ := q
        obtain ⟨b1, b2⟩ := decodeBlock_append ddc dac bs e diff ac r1 hb
        rw [hb] at h
        rw [b1]
        simp only at h ⊢
        cases hr : decodeBlocks tabs (pred.setIfInBounds s (pred.getD s 0 + diff)) slots r1 with
        | none => rw [hr] at h; cases h
        | some q2 =>
          obtain ⟨bl, r2⟩ := q2
          obtain ⟨i1, i2⟩ := ih _ _ e _ _ hr
          rw [hr] at h
          rw [i1]
          cases h
          exact ⟨rfl, by omega⟩


/-- `last_dc_val[]` after a list of decoded blocks -/
def predAfter (pred : Array Int) (bs : List Blk) : Array Int := bs.foldl (fun p b => p.setIfInBounds b.slot b.dc) pred

/-- `decode_mcu_slow`/`decode_mcu_fast` as a unit of work over the bit stream: saved state = the DC predictors and the
MCUs decoded so far; the MCU (blocks with the component slots `slots`) is either decoded completely - new predictors,
MCU appended, number of bits consumed - or nothing happens -/
def mcuStep (tabs : Nat → Option (DDerived × DDerived)) (slots : List Nat) :
    LJT.Suspend.Step (Array Int × List (List Blk)) Bool :=
  fun st bits =>
    match decodeBlocks tabs st.1 slots bits with
    | none => none
    | some (bs, rest) => some ((predAfter st.1 bs, st.2 ++ [bs]), bits.length - rest.length)

theorem mcuStep_stable (tabs : Nat → Option (DDerived × DDerived)) (slots : List Nat) :
    LJT.Suspend.Stable (mcuStep tabs slots) := by
  intro st d st' n e h
  unfold mcuStep at h ⊢
  cases hd : decodeBlocks tabs st.1 slots d with
  | none => rw [hd] at h; cases h
  | some q =>
    obtain ⟨bs, rest⟩ := q
    obtain ⟨h1, h2⟩ := decodeBlocks_append tabs slots st.1 d e bs rest hd
    rw [hd] at h
    rw [h1]
    simp only [Option.some.injEq, Prod.mk.injEq] at h ⊢
    obtain ⟨hs, hn⟩ := h
    refine ⟨by omega, hs, ?_⟩
    simp only [List.length_append]
    omega


/-! ### the lossless MCU decoder (src/jdlhuff.c decode_mcus) -/

theorem decodeMcu_append (dds : List DDerived) (tblOf : List Nat) : ∀ (k ci : Nat) (bs e : List Bool)
    (out : List (Nat × Int)) (rest : List Bool), decodeMcu dds tblOf k ci bs = some (out, rest) →
    decodeMcu dds tblOf k ci (bs ++ e) = some (out, rest ++ e) ∧ rest.length ≤ bs.length := by
  intro k
  induction k with
  | zero => intro ci bs e out rest h; simp only [decodeMcu] at h ⊢; cases h; exact ⟨rfl, Nat.le_refl _⟩
  | succ k ih =>
    intro ci bs e out rest h
    simp only [decodeMcu] at h ⊢
    cases hi : decodeItem (dds.getD (tblOf.getD ci 0) ⟨[], [], [], []⟩) bs with
    | none => rw [hi] at h; cases h
    | some q =>
      obtain ⟨d, r1⟩ := q
      obtain ⟨i1, i2⟩ := decodeItem_append _ bs e d r1 hi
      rw [hi] at h
      rw [i1]
      simp only at h ⊢
      cases hr : decodeMcu dds tblOf k (ci + 1) r1 with
      | none => rw [hr] at h; cases h
      | some q2 =>
        obtain ⟨ds, r2⟩ := q2
        obtain ⟨j1, j2⟩ := ih _ _ e _ _ hr
        rw [hr] at h
        rw [j1]
        cases h
        exact ⟨rfl, by omega⟩

/-- one lossless MCU (one difference per component) as a unit of work over the bit stream -/
def llMcuStep (dds : List DDerived) (tblOf : List Nat) (nc : Nat) : LJT.Suspend.Step (List (List (Nat × Int))) Bool :=
  fun st bits =>
    match decodeMcu dds tblOf nc 0 bits with
    | none => none
    | some (ds, rest) => some (st ++ [ds], bits.length - rest.length)

theorem llMcuStep_stable (dds : List DDerived) (tblOf : List Nat) (nc : Nat) :
    LJT.Suspend.Stable (llMcuStep dds tblOf nc) := by
  intro st d st' n e h
  unfold llMcuStep at h ⊢
  cases hd : decodeMcu dds tblOf nc 0 d with
  | none => rw [hd] at h; cases h
  | some q =>
    obtain ⟨ds, rest⟩ := q
    obtain ⟨h1, h2⟩ := decodeMcu_append dds tblOf nc 0 d e ds rest hd
    rw [hd] at h
    rw [h1]
    simp only [Option.some.injEq, Prod.mk.injEq] at h ⊢
    obtain ⟨hs, hn⟩ := h
    refine ⟨by omega, hs, ?_⟩
    simp only [List.length_append]
    omega

end LJT.SeqHuff
