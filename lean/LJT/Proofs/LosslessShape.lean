import LJT.Proofs.ListAux
/-! Shapes of the difference arrays, and the MCU structure of a row. -/
namespace LJT.LL

theorem diff1D_length : ∀ (cs : List Int) (Ra : Int), (diff1D Ra cs).length = cs.length := by
  intro cs; induction cs with
  | nil => intro Ra; rfl
  | cons c cs ih => intro Ra; simp [diff1D, ih]

theorem diffTail_length (psv : Nat) : ∀ (cs ps : List Int) (Ra Rc : Int), cs.length ≤ ps.length →
    (diffTail psv Ra Rc cs ps).length = cs.length := by
  intro cs; induction cs with
  | nil => intro ps Ra Rc _; cases ps <;> rfl
  | cons c cs ih =>
    intro ps Ra Rc h
    cases ps with
    | nil => simp at h
    | cons p ps => simp [diffTail, ih ps c p (by simpa using h)]

theorem diffFirstRow_length (init : Int) (cs : List Int) : (diffFirstRow init cs).length = cs.length := by
  cases cs <;> simp [diffFirstRow, diff1D_length]

theorem diffRow_length (psv : Nat) (prev cur : List Int) (h : cur.length ≤ prev.length) :
    (diffRow psv prev cur).length = cur.length := by
  cases cur with
  | nil => cases prev <;> rfl
  | cons c cs =>
    cases prev with
    | nil => simp at h
    | cons p ps =>
      simp only [diffRow]
      split
      · simp [diff1D_length]
      · simp [diffTail_length psv cs ps c p (by simpa using h)]

/-- the rows of differences of a component keep the shape of the input rows -/
theorem diffRows_shape (psv : Nat) (init : Int) (w : Nat) : ∀ (rows : List (List Int)) (flags : List Bool) (prev : List Int),
    (∀ r ∈ rows, r.length = w) → rows.length ≤ flags.length → (flags.headD true = true ∨ prev.length = w) →
    (diffRows psv init flags prev rows).length = rows.length ∧ ∀ r ∈ diffRows psv init flags prev rows, r.length = w := by
  intro rows
  induction rows with
  | nil => intro flags prev _ _ _; cases flags <;> simp [diffRows]
  | cons row rows ih =>
    intro flags prev hw hl hp
    cases flags with
    | nil => simp at hl
    | cons f fs =>
      have hrow : row.length = w := hw row (by simp)
      obtain ⟨i1, i2⟩ := ih fs row (fun r hr => hw r (by simp [hr])) (by simpa using hl) (Or.inr hrow)
      simp only [diffRows, List.length_cons, i1, true_and]
      intro r hr
      rcases List.mem_cons.1 hr with e | e
      · subst e
        cases f with
        | true => simp [diffFirstRow_length, hrow]
        | false =>
          simp only [Bool.false_eq_true, if_false]
          have hpw : prev.length = w := by
            rcases hp with h | h
            · simp at h
            · exact h
          rw [diffRow_length psv prev row (by omega), hrow]
      · exact i2 r e

/-- the MCUs of one MCU row: for every column, one difference of every component -/
def mcuRow (rows : List (List Int)) : List (List Int) :=
  (List.range (rows.headD []).length).map (fun x => rows.map (·.getD x 0))

theorem zipIdx_items (x : Nat) : ∀ (rows : List (List Int)) (k : Nat),
    (rows.zipIdx k).map (fun (p : List Int × Nat) => (p.2, p.1.getD x 0)) = mcuItems k (rows.map (·.getD x 0)) := by
  intro rows
  induction rows with
  | nil => intro k; rfl
  | cons r rs ih =>
    intro k
    rw [List.zipIdx_cons, List.map_cons, List.map_cons, mcuItems, ih (k + 1)]

theorem flatMap_congr' {α β : Type} (l : List α) (f g : α → List β) (h : ∀ x ∈ l, f x = g x) :
    l.flatMap f = l.flatMap g := by
  induction l with
  | nil => rfl
  | cons a as ih =>
    simp only [List.flatMap_cons]
    rw [h a (by simp), ih (fun x hx => h x (by simp [hx]))]

theorem interleaveRow_eq (rows : List (List Int)) : interleaveRow rows = (mcuRow rows).flatMap (mcuItems 0) := by
  unfold interleaveRow mcuRow
  rw [List.flatMap_map]
  apply flatMap_congr'
  intro x _
  exact zipIdx_items x rows 0

theorem mcuItems_snd : ∀ (m : List Int) (k : Nat), (mcuItems k m).map (·.2) = m := by
  intro m; induction m with
  | nil => intro k; rfl
  | cons d ds ih => intro k; simp [mcuItems, ih]

theorem flatMap_mcuItems_snd (mcus : List (List Int)) : (mcus.flatMap (mcuItems 0)).map (·.2) = mcus.flatten := by
  induction mcus with
  | nil => rfl
  | cons m ms ih => simp [List.flatMap_cons, mcuItems_snd, ih]

end LJT.LL
