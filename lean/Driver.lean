import LJT.Ops.C19
import LJT.Ops.C20
import LJT.Ops.C13
import LJT.Ops.C16
import LJT.Ops.C02
import LJT.Ops.C10
import LJT.Ops.C08
import LJT.Ops.C06
import LJT.Ops.C07
import LJT.Ops.C18
import LJT.Ops.C03
import LJT.Ops.C04
import LJT.Ops.C11
import LJT.Ops.C14
import LJT.Ops.C17
/-! `ljt-driver`: one operation per input line, one `R <result>` line per operation.
Unknown operations answer `R skip` (the harness then compares nothing for that op). -/
open LJT.Ops

def dispatch (line : String) : String :=
  let t := toks line
  let r := (opC19 t) <|> (opC20 t) <|> (opC13 t) <|> (opC16 t) <|> (opC02 t) <|> (opC10 t) <|> (opC08 t) <|> (opC06 t) <|> (opC07 t) <|> (opC18 t) <|> (opC03 t) <|> (opC04 t) <|> (opC11 t) <|> (opC14 t) <|> (opC17 t)
  match r with
  | some s => s
  | none => "skip"

partial def loop (h : IO.FS.Stream) (out : IO.FS.Stream) : IO Unit := do
  let line ← h.getLine
  if line.isEmpty then return ()
  out.putStrLn ("R " ++ dispatch line)
  loop h out

def main : IO Unit := do
  let out ← IO.getStdout
  loop (← IO.getStdin) out
  out.flush
