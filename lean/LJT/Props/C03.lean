import LJT.Proofs.SeqHuff
import LJT.Proofs.SeqInterval
import LJT.Proofs.SeqScan
import LJT.Proofs.ProgAC
import LJT.Proofs.ProgRef
import LJT.Model.ProgHuff
import LJT.Proofs.ArithBin
/-! # C03 - entropy coding and scan structure never change the coefficients

Property theorems about `LJT.SeqHuff` (Model/SeqHuff.lean: the block coder of
src/jchuff.c `encode_one_block` and the T.81 F.2.2 decoding procedure that the independent
decoder Model/T81.lean runs).  Tables are universally quantified: the statements hold for
the default tables, for optimised tables and for any other valid table pair - the symbols
sent do not depend on the table, only their codes do. -/
namespace LJT.Props.C03
open LJT.Huff LJT.LL LJT.SeqHuff

/-- **AC coefficients**: run-length coding with ZRL and EOB is inverted exactly, for any
number `r` of pending zeros, any list of following coefficients, any valid AC table that
contains the symbols needed -/
theorem ac_runlength_roundtrip (t : Tbl) (c : CDerived) (dd : DDerived)
    (hc : mkCDerived false false t = some c) (hd : mkDDerived false false t = some dd)
    (ac : List Int) (r fuel : Nat) (bits rest : List Bool) (hv : ∀ v ∈ ac, v.natAbs < 32768)
    (he : encodeAC c r ac = some bits) (hf : r + ac.length < fuel) :
    decodeAC dd fuel (r + ac.length) (bits ++ rest) = some (List.replicate r 0 ++ ac, rest) :=
  decodeAC_encodeAC t c dd hc hd ac r fuel bits rest hv he hf

/-- **A block round-trips**: for every DC difference and every 63 AC coefficients of magnitude
below 2^15, every pair of valid tables with which the block can be encoded at all, and
whatever follows in the bit stream -/
theorem block_roundtrip (tdc tac : Tbl) (cdc cac : CDerived) (ddc dac : DDerived)
    (h1 : mkCDerived true false tdc = some cdc) (h2 : mkDDerived true false tdc = some ddc)
    (h3 : mkCDerived false false tac = some cac) (h4 : mkDDerived false false tac = some dac)
    (diff : Int) (ac : List Int) (hlen : ac.length = 63) (hd : diff.natAbs < 32768)
    (hac : ∀ v ∈ ac, v.natAbs < 32768) (bits rest : List Bool) (he : encodeBlock cdc cac diff ac = some bits) :
    decodeBlock ddc dac (bits ++ rest) = some (diff, ac, rest) :=
  decodeBlock_encodeBlock tdc tac cdc cac ddc dac h1 h2 h3 h4 diff ac hlen hd hac bits rest he

/-- value known to the decoder after the scans down to successive-approximation level `al` -/
def approx (m al : Nat) : Nat := m / 2 ^ al * 2 ^ al
def approxI (c : Int) (al : Nat) : Int := c / 2 ^ al * 2 ^ al

/-- **Successive approximation sends every bit once, in order**: the refinement scan at level
`j` adds exactly bit `j` of the magnitude (AC) ... -/
theorem refinement_adds_one_bit (m j : Nat) : approx m j = approx m (j + 1) + (m / 2 ^ j % 2) * 2 ^ j := by
  unfold approx
  have h : m / 2 ^ (j + 1) = m / 2 ^ j / 2 := by rw [Nat.pow_succ, Nat.div_div_eq_div_mul]
  rw [h, Nat.pow_succ]
  have := Nat.div_add_mod (m / 2 ^ j) 2
  generalize m / 2 ^ j = q at *
  generalize 2 ^ j = p at *
  have e1 : q / 2 * (p * 2) = (2 * (q / 2)) * p := by
    rw [Nat.mul_comm p 2, ← Nat.mul_assoc, Nat.mul_comm (q / 2) 2]
  rw [e1, ← Nat.add_mul, this]

/-- ... or of the two's-complement value (DC, arithmetic shift) ... -/
theorem refinement_adds_one_bit_dc (c : Int) (j : Nat) : approxI c j = approxI c (j + 1) + (c / 2 ^ j % 2) * 2 ^ j := by
  unfold approxI
  have hp : (0 : Int) < 2 ^ j := Int.pow_pos (by omega)
  have h : c / 2 ^ (j + 1) = c / 2 ^ j / 2 := by
    rw [Int.pow_succ, Int.ediv_ediv_of_nonneg (Int.le_of_lt hp)]
  rw [h, Int.pow_succ]
  have := Int.emod_add_mul_ediv (c / 2 ^ j) 2
  generalize c / 2 ^ j = q at *
  generalize (2 : Int) ^ j = p at *
  have e1 : q / 2 * (p * 2) = (2 * (q / 2)) * p := by
    rw [Int.mul_comm p 2, ← Int.mul_assoc, Int.mul_comm (q / 2) 2]
  rw [e1, ← Int.add_mul, Int.add_comm, this]

/-- ... and after the level-0 scan the coefficient is complete -/
theorem approximation_complete (m : Nat) (c : Int) : approx m 0 = m ∧ approxI c 0 = c := by
  simp [approx, approxI]

/-- the code the encoder model emits for a symbol under table `c` (`ProgHuff.acScanBytes`) -/
def codeOf (c : CDerived) (s : Nat) : List Bool := (encode c s).getD []

theorem codeOf_good (t : Tbl) (c : CDerived) (dd : DDerived)
    (hc : mkCDerived false false t = some c) (hd : mkDDerived false false t = some dd)
    (s : Nat) (h : (encode c s).isSome = true) : ProgAC.Good (codeOf c) (decode dd) s := by
  intro rest
  unfold codeOf
  cases he : encode c s with
  | none => simp [he] at h
  | some bs => simpa using decode_encode false false t c dd hc hd s bs he rest

/-- **A first-pass AC scan with end-of-band runs round-trips** (progressive mode, T.81 G.1.2.2;
src/jcphuff.c `encode_mcu_AC_first` + `emit_eobrun`): for every sequence of blocks of a restart
interval - bands of any length `L ≥ 1`, point-transformed coefficients of magnitude below 2^15, runs
of all-zero bands of any length including the forced flush at 0x7FFF - every valid AC table that
contains the symbols used, and whatever follows in the bit stream, the decoding procedure the
independent reader runs block by block returns exactly the bands, ends with no pending run and
leaves exactly what followed.  `ProgAC.firstEv` is the function `ProgHuff.acScanIntervals` calls
and `ProgAC.evBits (codeOf c)` the bits `ProgHuff.acScanBytes` emits (tied byte-for-byte to
libjpeg-turbo's files by the `progfile` operations); `ProgAC.firstDecBlock` is what `T81.acFirstBlock` runs. -/
theorem ac_first_scan_roundtrip (t : Tbl) (c : CDerived) (dd : DDerived)
    (hc : mkCDerived false false t = some c) (hd : mkDDerived false false t = some dd)
    (L : Nat) (hL : 1 ≤ L) (blocks : List (List Int)) (hwf : ProgAC.WF L blocks)
    (henc : ∀ s, ProgAC.Ev.sym s ∈ ProgAC.firstEv 0 blocks → (encode c s).isSome = true) (rest : List Bool) :
    ProgAC.firstDecBlocks (decode dd) L blocks.length 0
      (ProgAC.evBits (codeOf c) (ProgAC.firstEv 0 blocks) ++ rest) = .ok (blocks, 0, rest) :=
  (ProgAC.first_blocks (codeOf c) (decode dd) L hL blocks hwf).1 rest
    (fun s hs => codeOf_good t c dd hc hd s (henc s hs))

/-- non-vacuity of the scan theorem: three bands of length 2 - one with a coefficient, then two
all-zero ones coded as an EOB run - are well-formed and produce a non-trivial event stream -/
example : ProgAC.WF 2 [[1, 0], [0, 0], [0, 0]] ∧
    ProgAC.firstEv 0 [[1, 0], [0, 0], [0, 0]] = [.sym 1, .bits 1 1, .sym 16, .bits 1 1] := by
  constructor
  · intro b hb
    simp at hb
    rcases hb with rfl | rfl | rfl <;> decide
  · decide

/-- **A refinement AC scan round-trips** (progressive mode, T.81 G.1.2.3 / figure G.7;
src/jcphuff.c `encode_mcu_AC_refine` with `emit_eobrun`, the EOBRUN counter and the BE/BR
correction-bit buffers): for every sequence of blocks of a restart interval - bands of any length
`L ≥ 1`, every coefficient given as (|c| >> Al, sign) with no bound on the magnitude - any `p = 2^Al
> 0`, every valid AC table containing the symbols used, and whatever follows: when the decoder holds
the values known before the scan (`prevOf`: the bits above Al), running the reader's block procedure
over the encoder model's bits yields exactly the values after the scan (`newOf`: the bits down to
Al), ends with no pending run and leaves exactly what followed.  Covered: ZRL folding into EOB
(`hasOne`), correction bits travelling with ZRL / symbol / EOBn, runs of blocks without a
newly-nonzero coefficient, the forced flushes at EOBRUN = 0x7FFF and BE > 937.  `ProgAC.refEv` is
what `ProgHuff.acScanIntervals` calls, `ProgAC.refDecBlock` what `T81.acRefineBlock` runs. -/
theorem ac_refine_scan_roundtrip (t : Tbl) (c : CDerived) (dd : DDerived)
    (hc : mkCDerived false false t = some c) (hd : mkDDerived false false t = some dd)
    (p : Int) (hp : 0 < p) (L : Nat) (hL : 1 ≤ L) (blocks : List (List (Nat × Bool)))
    (hwf : ∀ b ∈ blocks, b.length = L)
    (henc : ∀ s, ProgAC.Ev.sym s ∈ ProgAC.refEv 0 [] blocks → (encode c s).isSome = true) (rest : List Bool) :
    ProgAC.refDecBlocks (decode dd) p (blocks.map (ProgAC.prevs p)) 0
      (ProgAC.evBits (codeOf c) (ProgAC.refEv 0 [] blocks) ++ rest) = .ok (blocks.map (ProgAC.news p), 0, rest) :=
  (ProgAC.ref_blocks (codeOf c) (decode dd) p hp L hL blocks hwf).1 rest
    (fun s hs => codeOf_good t c dd hc hd s (henc s hs))

/-- what the decoder holds before the refinement scan at level `al` is what the scan at level
`al + 1` (first pass or refinement) left: the scans chain -/
theorem refinement_chain (v : Int) (al : Nat) :
    ProgAC.prevOf (2 ^ al) (ProgHuff.pointRef al v) = ProgAC.newOf (2 ^ (al + 1)) (ProgHuff.pointRef (al + 1) v) := by
  unfold ProgAC.prevOf ProgAC.newOf ProgAC.sgn ProgHuff.pointRef
  simp only
  have hdd : v.natAbs / 2 ^ (al + 1) = v.natAbs / 2 ^ al / 2 := by rw [Nat.pow_succ, Nat.div_div_eq_div_mul]
  rw [hdd]
  generalize v.natAbs / 2 ^ al = a
  by_cases h : a ≤ 1
  · rw [if_pos h, show a / 2 = 0 by omega]; simp
  · rw [if_neg h, Int.pow_succ]
    push_cast
    rw [Int.mul_assoc, Int.mul_assoc, Int.mul_assoc]
    congr 2
    rw [Int.mul_comm ((2 : Int) ^ al) 2]

/-- the first pass at level `al` stores the same value -/
theorem first_pass_value (v : Int) (al : Nat) :
    ProgHuff.pointFirst al v * 2 ^ al = ProgAC.newOf (2 ^ al) (ProgHuff.pointRef al v) := by
  unfold ProgHuff.pointFirst ProgAC.newOf ProgAC.sgn ProgHuff.pointRef
  simp only
  by_cases h : v < 0
  · simp [h]
  · simp [h]

/-- after the scan at level 0 the coefficient is exact -/
theorem refinement_complete (v : Int) : ProgAC.newOf (2 ^ 0) (ProgHuff.pointRef 0 v) = v := by
  unfold ProgAC.newOf ProgAC.sgn ProgHuff.pointRef
  simp only [Nat.pow_zero, Nat.div_one, Int.pow_zero, Int.mul_one]
  by_cases h : v < 0
  · simp only [h, decide_true, if_true]; omega
  · simp only [h, decide_false, Bool.false_eq_true, if_false]; omega

/-- non-vacuity of the refinement theorem: a band of 18 coefficients with a history coefficient,
16 zeros and a newly-nonzero one makes the encoder emit a ZRL carrying a correction bit, then the
symbol of the new coefficient; a second, quiet block is folded into an EOB run with its correction bit -/
example : ProgAC.refEv 0 [] [[(2, false)] ++ List.replicate 16 (0, false) ++ [(1, true)], [(3, false)] ++ List.replicate 17 (0, false)] =
    [.sym 0xF0, .bits 0 1, .sym 1, .bits 0 1, .sym 0, .bits 1 1] := by
  decide

/-! ### arithmetic coding: the binarisation (src/jcarith.c / src/jdarith.c)

The QM coder is treated as a channel that delivers (statistics bin, decision) pairs in order; it
is modelled in Model/Arith.lean (decoder) and Model/ArithEnc.lean (encoder) and tied to
libjpeg-turbo byte for byte in both directions (C04 `arifile`, `t81`), but not proved.  What is
proved is that the binarisation on top of it loses nothing: `ArithBin.lsrc` hands the encoder's
decisions to the decoding procedures the reader runs and flags any request for a bin other than
the one the encoder used. -/

/-- **DC differences (Figure F.4 ... F.9)**: for every difference of magnitude up to 2^15, every
table, conditioning context and conditioning bounds L, U: the decoder gets the difference back,
arrives at the same new context, has asked for exactly the encoder's bins (flag unchanged) and
leaves exactly the decisions that follow -/
theorem arith_dc_roundtrip (tbl ctx L U : Nat) (v : Int) (hv : v.natAbs ≤ 32768) (rest : List ArithBin.Dn) (f : Bool) :
    ArithBin.decDC ArithBin.lsrc ((ArithBin.dcDiff tbl ctx L U v).1 ++ rest, f) tbl ctx L U =
      some (v, (ArithBin.dcDiff tbl ctx L U v).2, (rest, f)) :=
  ArithBin.decDC_dcDiff tbl ctx L U v hv rest f

/-- **AC coefficients of a block or band (Figure F.5; sequential mode and first pass)**: for every
list of coefficients (magnitude after the point transform up to 2^15, sign), from any zigzag
position `k`, any table and conditioning bound K: end-of-block decisions, zero runs, signs,
magnitude categories and magnitude bits decode to exactly the coefficients -/
theorem arith_ac_roundtrip (tbl K k : Nat) (l : List (Nat × Bool)) (hb : ∀ c ∈ l, c.1 ≤ 32768) (rest : List ArithBin.Dn) (f : Bool) :
    ArithBin.decF ArithBin.lsrc tbl K false k l.length (ArithBin.acF tbl K false k l ++ rest, f) =
      some (l.map (fun c => ArithBin.sval c.2 c.1), (rest, f)) :=
  ArithBin.decF_acF tbl K l false k rest f hb (fun h => by cases h)

/-- **AC refinement (Figure G.10)**: for every band given as (|c| >> Al, sign) with no bound on the
magnitude and every `p = 2^Al > 0`: from the values of the previous level (`prevOf`) the decoder
reaches exactly the values of this level (`newOf`), the conditional end-of-block decision included -/
theorem arith_refine_roundtrip (tbl k : Nat) (p : Int) (hp : 0 < p) (l : List (Nat × Bool)) (rest : List ArithBin.Dn) (f : Bool) :
    ArithBin.decR ArithBin.lsrc tbl p false k (l.map (ProgAC.prevOf p)) (ArithBin.acR tbl false k l ++ rest, f) =
      some (l.map (ProgAC.newOf p), (rest, f)) :=
  ArithBin.decR_acR tbl p hp l false k rest f (fun h => by cases h)

/-- non-vacuity: a band with a zero run, a coefficient of magnitude 5 and trailing zeros gives
end-of-block 0, two "zero" decisions, "not zero", sign, the category decisions and one magnitude
bit pattern, then end-of-block 1 -/
example : ArithBin.acF 0 5 false 1 [(0, false), (0, false), (5, true), (0, false)] =
    [(1024, 0), (1025, 0), (1028, 0), (1031, 1), (5120, 1), (1032, 1), (1032, 1), (1213, 1), (1214, 0), (1228, 0), (1228, 0), (1033, 1)] := by
  decide

/-- non-vacuity: a small valid AC table (EOB, a run-0 size-1 symbol and ZRL) meets the
hypotheses of the theorems above, and a block with a coefficient is encodable with it -/
def tinyAc : Tbl := ⟨[0, 1, 1, 1, 0, 0, 0, 0, 0, 0, 0, 0, 0, 0, 0, 0, 0], [0, 1, 0xF0]⟩
theorem tiny_codes : codes tinyAc.bits = some [0, 2, 6] := by
  simp [codes, sizes, sizesFrom, tinyAc, genCodes, List.replicate]
theorem tiny_sizes : sizes tinyAc.bits = [1, 2, 3] := by
  simp [sizes, sizesFrom, tinyAc, List.replicate]
example : (mkCDerived false false tinyAc).isSome = true ∧ (mkDDerived false false tinyAc).isSome = true := by
  unfold mkCDerived mkDDerived
  simp only [tiny_codes, tiny_sizes]
  decide +kernel


/-- **A whole restart interval of a sequential Huffman scan round-trips**: blocks of any number of components in
MCU order (`Blk.slot` = the component's position in the scan), each coded with the DC and AC tables of its
component and with the DC coefficient sent as the difference to that component's previous block
(`last_dc_val[]`, reset to `pred` = 0 at the start of the interval).  `encodeBlocks` is the function the Lean
writer emits whole scans with (Model/T81Enc.lean `mcuBits`, byte-identical to libjpeg-turbo's files: `seqbytes`,
`seqfile`); decoding its bits - followed by anything - block by block with the tables of the same slots returns
exactly the blocks and leaves exactly the rest.  Hypotheses: each slot's encoder and decoder tables derive from
one table pair, 63 AC coefficients per block below 2^15 in magnitude, and DC differences below 2^15 (what the C
encoder checks before coding). -/
theorem sequential_interval_roundtrip (ct : Nat → Option (CDerived × CDerived)) (dt : Nat → Option (DDerived × DDerived))
    (blocks : List Blk) (pred : Array Int) (bits rest : List Bool)
    (hall : ∀ b ∈ blocks, TabsOK ct dt b.slot ∧ b.ac.length = 63 ∧ ∀ v ∈ b.ac, v.natAbs < 32768)
    (hd : DiffsOK pred blocks) (he : encodeBlocks ct pred blocks = some bits) :
    decodeBlocks dt pred (blocks.map (·.slot)) (bits ++ rest) = some (blocks, rest) :=
  decodeBlocks_encodeBlocks ct dt blocks pred bits rest hall hd he


/-- **A whole sequential Huffman scan round-trips, restart markers included.**  `ivs` are the restart intervals of
a scan, each the blocks of its MCUs in order; `bitss` their codings by `encodeBlocks` with the DC predictors reset
to 0 (what `emit_restart` does).  The scan's entropy-coded data - each interval packed MSB first, padded with 1-bits,
byte-stuffed, the intervals joined by RST0..RST7 in rotation: exactly how Model/T81Enc.lean `scanBytes` (tied byte for
byte to libjpeg-turbo by `seqbytes` / `seqfile`) builds it - split at the markers and decoded interval by interval
gives back exactly the blocks.  Any number of intervals, any MCU structure, any valid tables per component. -/
theorem sequential_scan_roundtrip (ct : Nat → Option (CDerived × CDerived)) (dt : Nat → Option (DDerived × DDerived))
    (ivs : List (List Blk)) (hne : ivs ≠ []) (bitss : List (List Bool))
    (hall : ∀ iv ∈ ivs, (∀ b ∈ iv, TabsOK ct dt b.slot ∧ b.ac.length = 63 ∧ ∀ v ∈ b.ac, v.natAbs < 32768) ∧
      DiffsOK (Array.replicate 4 0) iv)
    (henc : All2 (fun iv bits => encodeBlocks ct (Array.replicate 4 0) iv = some bits) ivs bitss) :
    decodeIntervals dt (ivs.map (fun iv => iv.map (·.slot)))
      (Bits.splitRST (Bits.joinRST (bitss.map Bits.segmentBytes) 0) []) = some ivs :=
  scan_roundtrip ct dt ivs hne bitss hall henc

end LJT.Props.C03
