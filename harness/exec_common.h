/* Common part of the real-code executor: reads one operation per line, calls
 * the real libjpeg-turbo code (linked statically from the scratch build of
 * /repo's working tree), prints "R <result>" and optionally "O ok|fail ...". */
#ifndef EXEC_COMMON_H
#define EXEC_COMMON_H
#include <stdio.h>
#include <stdlib.h>
#include <string.h>
#include <stdint.h>
#include <setjmp.h>
#include <limits.h>
#define JPEG_INTERNALS
#include "jinclude.h"
#include "jpeglib.h"
#include "jerror.h"
#include "turbojpeg.h"

typedef struct {
  char **tok;
  int n;
} toks_t;

static char *g_line = NULL;
static size_t g_cap = 0;

static toks_t tokenize(char *line)
{
  static char **arr = NULL;
  static int cap = 0;
  toks_t t; int n = 0; char *p = line;
  for (;;) {
    while (*p == ' ' || *p == '\n' || *p == '\r' || *p == '\t') p++;
    if (!*p) break;
    if (n >= cap) { cap = cap ? cap * 2 : 1024; arr = (char **)realloc(arr, cap * sizeof(char *)); }
    arr[n++] = p;
    while (*p && *p != ' ' && *p != '\n' && *p != '\r' && *p != '\t') p++;
    if (*p) *p++ = 0;
  }
  t.tok = arr; t.n = n;
  return t;
}

static long tl(toks_t *t, int i) { return i < t->n ? strtol(t->tok[i], NULL, 10) : 0; }
static long long tll(toks_t *t, int i) { return i < t->n ? strtoll(t->tok[i], NULL, 10) : 0; }

/* hex helpers ("-" = empty) */
static unsigned char *hex2bytes(const char *s, size_t *len)
{
  size_t n, i; unsigned char *b;
  if (!strcmp(s, "-")) { *len = 0; return (unsigned char *)calloc(1, 1); }
  n = strlen(s) / 2;
  b = (unsigned char *)malloc(n ? n : 1);   /* exact size: a read one byte past the input is seen by ASan */
  for (i = 0; i < n; i++) {
    unsigned v; sscanf(s + 2 * i, "%2x", &v); b[i] = (unsigned char)v;
  }
  *len = n; return b;
}
static void puthex(const unsigned char *b, size_t n)
{
  size_t i;
  if (!n) { putchar('-'); return; }
  for (i = 0; i < n; i++) printf("%02x", b[i]);
}
static unsigned long long fnv(const unsigned char *b, size_t n)
{
  unsigned long long h = 14695981039346656037ULL; size_t i;
  for (i = 0; i < n; i++) { h ^= b[i]; h *= 1099511628211ULL; }
  return h;
}

/* libjpeg error manager that longjmps and records code + warnings */
typedef struct {
  struct jpeg_error_mgr pub;
  jmp_buf jb;
  int code;
  int nwarn;
  int warn[64];
} my_err_t;

static void my_error_exit(j_common_ptr cinfo)
{
  my_err_t *e = (my_err_t *)cinfo->err;
  e->code = cinfo->err->msg_code;
  longjmp(e->jb, 1);
}
static void my_emit_message(j_common_ptr cinfo, int level)
{
  my_err_t *e = (my_err_t *)cinfo->err;
  if (level < 0) {
    if (e->nwarn < 64) e->warn[e->nwarn] = cinfo->err->msg_code;
    e->nwarn++;
    cinfo->err->num_warnings++;
  }
}
static void my_output_message(j_common_ptr cinfo) { (void)cinfo; }
static struct jpeg_error_mgr *my_err_init(my_err_t *e)
{
  jpeg_std_error(&e->pub);
  e->pub.error_exit = my_error_exit;
  e->pub.emit_message = my_emit_message;
  e->pub.output_message = my_output_message;
  e->code = 0; e->nwarn = 0;
  return &e->pub;
}

#define INTERNAL(msg) do { fprintf(stderr, "HARNESS-INTERNAL: %s\n", msg); exit(3); } while (0)

#endif
