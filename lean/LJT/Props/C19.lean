import LJT.Proofs.Nbits
import LJT.Proofs.Huff
import LJT.Proofs.HuffOpt12
/-!
# C19 - Generated Huffman tables are always valid, complete prefix codes

Full statement (properties.jsonl): for every symbol-frequency histogram that can arise
from an image the optimal-table generator returns a table in which every symbol with
non-zero frequency has a code of 1..16 bits, Kraft holds with one unused code point of the
longest length, symbols are listed by non-decreasing length; the encoder- and decoder-side
derived tables of any accepted table are mutual inverses; and the bit-length function
returns floor(log2 x)+1 for 1..65535 and 0 for 0.

This file holds the property theorems only; helper lemmas are in `LJT/Proofs`.
-/
namespace LJT.C19

/-- **nbits clause, table form (scalar build).**  Every one of the 65536 entries of
`jpeg_nbits_table` as it stands in /repo now (regenerated into `Gen.nbitsPacked`). -/
theorem nbits_table_correct (x : Nat) (h : x < 65536) :
    nbitsTbl x = if x = 0 then 0 else Nat.log2 x + 1 :=
  nbitsTbl_correct x h

/-- **nbits clause, table linked by the SIMD build** (simd/x86_64/jchuff-sse2.asm). -/
theorem nbits_table_simd_correct (x : Nat) (h : x < 65536) :
    nbitsTblSimd x = if x = 0 then 0 else Nat.log2 x + 1 :=
  nbitsTblSimd_correct x h

/-- **nbits clause, `32 - clz` form** (`USE_CLZ_INTRINSIC`), for every 32-bit argument. -/
theorem nbits_clz_correct (x : Nat) (h : x < 2 ^ 32) :
    nbitsClz 32 x = if x = 0 then 0 else Nat.log2 x + 1 :=
  nbitsClz_eq 32 x h

/-- the specification really is "number of significant bits": `2^(n-1) ≤ x < 2^n` -/
theorem nbits_is_bit_length (x : Nat) (h0 : x ≠ 0) (h : x < 65536) :
    2 ^ (nbitsTbl x - 1) ≤ x ∧ x < 2 ^ nbitsTbl x := by
  rw [nbitsTbl_correct x h]; exact nbitsSpec_bounds x h0

-- non-vacuity: a concrete non-trivial argument
example : nbitsTbl 40000 = 16 ∧ nbitsClz 32 40000 = 16 := by decide +kernel

open LJT.Huff in
/-- **Encoder- and decoder-side derived tables are mutual inverses.**  For every table
`(bits, huffval)` accepted by both `jpeg_make_c_derived_tbl` and `jpeg_make_d_derived_tbl`
(DC or AC, lossy or lossless symbol range), every symbol `s` that has a code, and every
continuation `rest` of the bit stream: decoding the emitted code bits followed by `rest`
with the bit-sequential decoder (`jpeg_huff_decode`, Figure F.16 as coded) returns exactly
`s`, no bad-code warning, and leaves exactly `rest`. -/
theorem derived_tables_inverse (isDC lossless : Bool) (t : Tbl) (c : CDerived) (d : DDerived)
    (hc : mkCDerived isDC lossless t = some c) (hd : mkDDerived isDC lossless t = some d)
    (s : Nat) (bs : List Bool) (he : encode c s = some bs) (rest : List Bool) :
    decode d (bs ++ rest) = some (s, false, rest) :=
  decode_encode isDC lossless t c d hc hd s bs he rest

open LJT.Huff in
/-- **The code is prefix-free**: the code of one symbol is never a prefix of the code of
a different symbol (so the stream is uniquely decodable). -/
theorem codes_prefix_free (isDC lossless : Bool) (t : Tbl) (c : CDerived) (d : DDerived)
    (hc : mkCDerived isDC lossless t = some c) (hd : mkDDerived isDC lossless t = some d)
    (s1 s2 : Nat) (b1 b2 r : List Bool) (h1 : encode c s1 = some b1) (h2 : encode c s2 = some b2)
    (hp : b1 ++ r = b2) : s1 = s2 := by
  have e1 := decode_encode isDC lossless t c d hc hd s1 b1 h1 r
  have e2 := decode_encode isDC lossless t c d hc hd s2 b2 h2 []
  rw [List.append_nil, ← hp, e1] at e2
  injection e2 with e2
  exact (Prod.mk.inj e2).1

open LJT.Huff in
/-- **No code is all ones** (a code point of the longest length stays unused): whenever
`genCodes` (Figure C.2 with the validity check as coded) accepts a sorted list of code
lengths, every code `c` of length `n` satisfies `c + 1 < 2^n`. -/
theorem no_code_is_all_ones (bits : List Nat) (cs : List Nat) (h : codes bits = some cs)
    (q : Nat) (hq : q < (sizes bits).length) : cs.getD q 0 + 1 < 2 ^ (sizes bits)[q] := by
  obtain ⟨c0, s0, Q⟩ := codes_canon bits cs h
  exact Q.upper q hq

-- non-vacuity: the standard luminance DC table of this tree (regenerated) is accepted by
-- both builders, so the hypotheses of the three theorems above are met by a real table.
open LJT.Huff in
theorem stdDc_codes : codes Gen.stdDcLumBits = some [0, 2, 3, 4, 5, 6, 14, 30, 62, 126, 254, 510] := by
  simp [codes, sizes, sizesFrom, Gen.stdDcLumBits, genCodes, List.replicate]
open LJT.Huff in
theorem stdDc_sizes : sizes Gen.stdDcLumBits = [2, 3, 3, 3, 3, 3, 4, 5, 6, 7, 8, 9] := by
  simp [sizes, sizesFrom, Gen.stdDcLumBits, List.replicate]
open LJT.Huff in
example : (mkCDerived true false ⟨Gen.stdDcLumBits, Gen.stdDcLumVals⟩).isSome = true ∧
    (mkDDerived true false ⟨Gen.stdDcLumBits, Gen.stdDcLumVals⟩).isSome = true := by
  unfold mkCDerived mkDDerived
  simp only [stdDc_codes, stdDc_sizes]
  decide +kernel

open LJT.Huff in
/-- **The optimal-table generator, code lengths** (`jpeg_gen_optimal_table`, Annex K.2 as coded; the model
is tied to the real function by the `genopt` operation and by every optimised / progressive file of C04).

For every histogram `freq0` - at most 257 entries, the counts of the 256 real symbols adding up to less than
10^9 - the function either leaves through `JERR_HUFF_CLEN_OVERFLOW` (a Huffman code length above 32, which
needs Fibonacci-like counts; see the tie for the depths up to 32 the property names) or returns `bits[]` with:

* 17 entries, `bits[0] = 0` (`BitsOK.zero`), and `Σ_{l=1..16} bits[l]` = the number of symbols with a
  non-zero frequency (`count`): every such symbol gets a length in 1..16, none is dropped by the limiting step;
* no entry above 255: the `UINT8` copy-out loses nothing (`small`);
* Kraft: `Σ_l bits[l]·2^(16-l) + 2^(16-L) = 2^16` where `L` is the longest length in use (`kraft`) - the code
  is complete except for exactly one code point of the longest length, the one the pseudo-symbol 256
  reserved, so no code is all ones;
* the table passes the code-space check of `jpeg_make_c_derived_tbl` / `jpeg_make_d_derived_tbl`
  (`codes t.bits = some _`), which makes `derived_tables_inverse`, `codes_prefix_free` and
  `no_code_is_all_ones` below apply to every generated table. -/
theorem gen_optimal_table_code_lengths (freq0 : List Nat) (hlen : freq0.length ≤ 257)
    (htot : ((List.range 256).map (freq0.getD · 0)).sum < 1000000000) :
    genOptimalTable freq0 = .clenOverflow ∨
    ∃ t, genOptimalTable freq0 = .ok t ∧ t.bits.length = 17 ∧
      BitsOK (fun l => t.bits.getD l 0) (nzReal freq0).length ∧ (∃ cs, codes t.bits = some cs) :=
  genOptimalTable_bits freq0 hlen htot

open LJT.Huff in
/-- **The pseudo-symbol ends on the deepest level** (what makes "skip the last symbol" in the loop that fills
`huffval[]` correct, and what reserves the all-ones code point): after the merge loop, no `codesize[]` entry
exceeds that of the last slot, which is the pseudo-symbol 256; every real symbol has a code length of at least
1; and there is one `codesize[]` entry per non-zero frequency. -/
theorem gen_optimal_pseudo_symbol_deepest (freq0 : List Nat) (hlen : freq0.length ≤ 257)
    (htot : ((List.range 256).map (freq0.getD · 0)).sum < 1000000000)
    (hno : (genCs freq0).any (· > 32) = false) :
    (genCs freq0).length = (nzReal freq0).length + 1 ∧
    (∀ c ∈ genCs freq0, c ≤ (genCs freq0).getD (nzReal freq0).length 0) ∧
    (1 ≤ (nzReal freq0).length → ∀ c ∈ genCs freq0, 1 ≤ c) :=
  (genBits_ok freq0 hlen htot hno).2


open LJT.Huff in
/-- **The optimal-table generator, symbol list** (`huffval[]`).  Unless the function leaves through
`JERR_HUFF_CLEN_OVERFLOW`, the list it returns has one entry per symbol with a non-zero frequency, is a
rearrangement (`Perm`) of exactly those symbols - none missing, none twice, no hole left by the skipped
pseudo-symbol - and is ordered by code length: the `k`-th such symbol (ascending symbol order) stands at
position `pos cs k`, and whenever its Huffman code length `codesize[k]` is smaller than that of the `k'`-th
symbol it stands before it.  Together with `gen_optimal_table_code_lengths` (`bits[]` sorted ascending by
construction of Figure C.1): symbols are listed in order of non-decreasing code length. -/
theorem gen_optimal_table_symbol_list (freq0 : List Nat) (hlen : freq0.length ≤ 257)
    (htot : ((List.range 256).map (freq0.getD · 0)).sum < 1000000000) :
    genOptimalTable freq0 = .clenOverflow ∨
    ∃ t, genOptimalTable freq0 = .ok t ∧ t.vals.length = (nzReal freq0).length ∧
      t.vals.Perm (nzReal freq0) ∧
      (∀ k, k < (nzReal freq0).length → pos (genCs freq0) k < (nzReal freq0).length ∧
        t.vals.getD (pos (genCs freq0) k) 0 = (nzReal freq0).getD k 0) ∧
      (∀ k k', k < (nzReal freq0).length → k' < (nzReal freq0).length →
        (genCs freq0).getD k 0 < (genCs freq0).getD k' 0 → pos (genCs freq0) k < pos (genCs freq0) k') :=
  genOptimalTable_vals freq0 hlen htot


open LJT.Huff in
/-- **Every symbol with a non-zero frequency has a code of 1 to 16 bits.**  The table returned by the generator
is taken by `jpeg_make_c_derived_tbl` (no `JERR_BAD_HUFF_TABLE`: code space, symbol range, no duplicate), and
the code size `ehufsi[s]` it stores for every symbol `s` with a non-zero frequency lies in 1..16. -/
theorem gen_optimal_table_every_symbol_coded (freq0 : List Nat) (hlen : freq0.length ≤ 257)
    (htot : ((List.range 256).map (freq0.getD · 0)).sum < 1000000000) :
    genOptimalTable freq0 = .clenOverflow ∨
    ∃ t c, genOptimalTable freq0 = .ok t ∧ mkCDerived false false t = some c ∧
      ∀ s ∈ nzReal freq0, 1 ≤ c.si.getD s 0 ∧ c.si.getD s 0 ≤ 16 :=
  genOptimalTable_encodes freq0 hlen htot

-- non-vacuity: a histogram with a tie (the counts 1, 1) that meets the hypotheses; the kernel evaluates the model
open LJT.Huff in
example : genOptimalTable [5, 1, 1, 2] =
    .ok ⟨[0, 1, 1, 1, 1, 0, 0, 0, 0, 0, 0, 0, 0, 0, 0, 0, 0], [0, 3, 1, 2]⟩ := by decide +kernel
open LJT.Huff in
example : ([5, 1, 1, 2] : List Nat).length ≤ 257 ∧ ((List.range 256).map (([5, 1, 1, 2] : List Nat).getD · 0)).sum < 1000000000 := by
  decide +kernel

-- non-vacuity of the error exit: counts 1, 2, 3, 5, 8, ... over 34 symbols make the Huffman tree a chain of depth 34
open LJT.Huff in
example : genOptimalTable [1, 2, 3, 5, 8, 13, 21, 34, 55, 89, 144, 233, 377, 610, 987, 1597, 2584, 4181, 6765, 10946, 17711, 28657,
    46368, 75025, 121393, 196418, 317811, 514229, 832040, 1346269, 2178309, 3524578, 5702887, 9227465] = .clenOverflow := by
  decide +kernel

end LJT.C19
