import LJT.Model.SkipSM
/-!
The read / skip state machine when the merged upsampler (src/jdmerge.c: upsampling and colour conversion in one step,
chosen for 4:2:0 / 4:2:2 YCbCr -> RGB without fancy upsampling) is in use: `merged_2v_upsample` with its spare row,
`merged_1v_upsample`, and the paths `_jpeg_skip_scanlines` / `increment_simple_rowgroup_ctr` /
`set_merged_rows_to_go` of src/jdapistd.c take for it.  Same conventions as Model/SkipSM.lean; the counters are compared
with the real structures after every call by the `skipst` operation.
-/
namespace LJT.Skip

structure MSt where
  y : Nat         -- output_scanline
  irow : Nat      -- output_iMCU_row
  bf : Bool       -- main->buffer_full
  rg : Nat        -- main->rowgroup_ctr
  spare : Bool    -- upsample->spare_full
  rtg : Nat       -- upsample->rows_to_go
  bufRow : Nat    -- ghost: the iMCU row decoded into the main buffer
  spRow : Nat     -- ghost: iMCU row of the row group whose second row sits in the spare row
  spRg : Nat      -- ghost: its row group
deriving Repr, DecidableEq

def minit (c : Cfg) : MSt := ⟨0, 0, false, 0, false, c.H, 0, 0, 0⟩

def mfillBuf (s : MSt) : MSt :=
  if s.bf then s else { s with bf := true, bufRow := s.irow, irow := s.irow + 1 }

/-- `merged_2v_upsample` / `merged_1v_upsample` on a full main buffer: rows delivered and new state (before
`process_data_simple_main` looks at `rowgroup_ctr`) -/
def mupsample (c : Cfg) (s : MSt) (n : Nat) : MSt × List Prov :=
  if c.v = 2 then
    if s.spare then
      ({ s with spare := false, rtg := s.rtg - 1, rg := s.rg + 1 }, [(s.spRow, s.spRg, 1)])
    else
      let k := min (min 2 s.rtg) n
      if 1 < k then
        ({ s with rtg := s.rtg - k, rg := s.rg + 1 }, [(s.bufRow, s.rg, 0), (s.bufRow, s.rg, 1)])
      else
        ({ s with spare := true, spRow := s.bufRow, spRg := s.rg, rtg := s.rtg - k }, [(s.bufRow, s.rg, 0)].take k)
  else
    ({ s with rg := s.rg + 1 }, [(s.bufRow, s.rg, 0)])

/-- `_jpeg_read_scanlines(cinfo, rows, n)` -/
def mread (c : Cfg) (s : MSt) (n : Nat) : MSt × List Prov :=
  if c.H ≤ s.y then (s, [])
  else if n = 0 then (s, [])
  else
    let r := mupsample c (mfillBuf s) n
    let s := r.1
    let s := if c.M ≤ s.rg then { s with bf := false, rg := 0 } else s
    ({ s with y := s.y + r.2.length }, r.2)

def mreadDiscard (c : Cfg) : Nat → MSt → MSt
  | 0, s => s
  | k + 1, s => mreadDiscard c k (mread c s 1).1

/-- `increment_simple_rowgroup_ctr(cinfo, rows)` with the merged upsampler: with 2:1 vertical sampling everything is
read and discarded; with 1:1 the row-group counter is moved -/
def mincSimple (c : Cfg) (s : MSt) (rows : Nat) : MSt :=
  if c.v = 2 then mreadDiscard c rows s
  else
    let s := if 0 < rows then mfillBuf s else s
    { s with rg := s.rg + rows / c.v, y := s.y + (rows - rows % c.v) }

/-- `_jpeg_skip_scanlines(cinfo, n)`: the upsampler is not touched when the rest of the current iMCU row is dropped (so
a full spare row stays full), `rows_to_go` is set at the end (`set_merged_rows_to_go`, 2:1 only) -/
def mskip (c : Cfg) (s : MSt) (n : Nat) : MSt × Nat :=
  if c.H ≤ s.y + n then ({ s with y := c.H }, c.H - s.y)
  else if n = 0 then (s, 0)
  else
    let L := c.M * c.v
    let left := (L - s.y % L) % L
    if n < left then (mincSimple c s n, n)
    else
      let s := { s with y := s.y + left, bf := false, rg := 0 }
      let after := n - left
      let toSkip := after / L * L
      let toRead := after - toSkip
      let s := { s with y := s.y + toSkip, irow := s.irow + toSkip / L }
      let s := mincSimple c s toRead
      (if c.v = 2 then { s with rtg := c.H - s.y } else s, n)

def mstep (c : Cfg) (s : MSt) : Call → MSt × List (Nat × Prov) × Nat
  | .rd n => let r := mread c s n; (r.1, (r.2.zipIdx s.y).map (fun (p, i) => (i, p)), r.2.length)
  | .sk n => let r := mskip c s n; (r.1, [], r.2)

def mrun (c : Cfg) : MSt → List Call → MSt × List (Nat × Prov)
  | s, [] => (s, [])
  | s, a :: as =>
    let r := mstep c s a
    let r2 := mrun c r.1 as
    (r2.1, r.2.1 ++ r2.2)

/-- the situation of known finding D16: a skip that leaves the current iMCU row while the second row of a pair is
waiting in the spare row -/
def d16 (c : Cfg) (s : MSt) : Call → Bool
  | .sk n =>
    let L := c.M * c.v
    s.spare && decide (s.y + n < c.H) && decide ((L - s.y % L) % L ≤ n) && decide (0 < n)
  | .rd _ => false

/-- no call of the history meets the D16 situation -/
def d16free (c : Cfg) : MSt → List Call → Bool
  | _, [] => true
  | s, a :: as => !d16 c s a && d16free c (mstep c s a).1 as

end LJT.Skip
