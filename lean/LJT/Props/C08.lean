import LJT.Model.DecompCtl
import LJT.Proofs.SkipSM
import LJT.Proofs.MergedSM
import LJT.Proofs.MergedSM1
import LJT.Proofs.CtxSM
/-!
# C08 - Partial decompression equals the same region of a full decode

Full statement: a horizontal crop starting at an iMCU boundary and/or any sequence of
read/skip calls, at any scaling factor and with any options, delivers exactly the pixels
a full decompression delivers at those positions (first/last column excepted under
smooth upsampling); output dimensions are ceil(dim x M/8); a skip is honoured exactly
unless it would pass the bottom, where it stops at the last row; an invalid region is
rejected.

Proved here: the dimension formula for all 16 regenerated factors, the crop-window arithmetic, the
skip return value, the region validation, and the read/skip state machines of jdapistd.c /
jdmainct.c / jdsample.c / jdmerge.c themselves, in all three configurations of the decoder
(Model/SkipSM.lean: simple main controller + separate upsampler; Model/MergedSM.lean: merged
upsampler with its spare row; Model/CtxSM.lean: context-row main controller with its postponed row
group) - each tied counter by counter to the real structures after every call by the `skipst`
operation: after *any* history of read(n) and skip(n) calls, every delivered row is (computed from)
the row group and row of the iMCU row that its scanline number names, so two histories - in
particular a partial one and a full decode - deliver rows of the same provenance at the same
scanline.  For the merged 2:1 machine this holds for the histories that avoid known finding D16,
and D16 itself is a kernel-evaluated theorem about the tied model.  That a row's pixels are a
function of its provenance (entropy decoding of skipped iMCU rows keeps the coder state; IDCT,
upsampling and colour conversion read nothing else - for the context machine: which neighbouring
row groups are read) is outside the models and rests on the `skiphist` / `quanthist` / `smoothhist`
oracles, as does the horizontal crop (known_findings.json D15..D19, D39, D43, D44 were found there
or by these proofs; D16 stays open).
-/
namespace LJT.C08
open LJT.DecompCtl LJT.Gen

/-- **The 16 scaling factors are exactly k/8, k = 1..16** (table regenerated each run). -/
theorem scaling_factors_are_eighths :
    tjScalingFactors.length = 16 ∧
    (∀ k, 1 ≤ k → k ≤ 16 → ∃ f ∈ tjScalingFactors, 8 % f.2 = 0 ∧ f.1 * (8 / f.2) = k) := by
  refine ⟨by decide, ?_⟩
  intro k h1 h2
  have : k = 1 ∨ k = 2 ∨ k = 3 ∨ k = 4 ∨ k = 5 ∨ k = 6 ∨ k = 7 ∨ k = 8 ∨ k = 9 ∨ k = 10 ∨ k = 11 ∨
      k = 12 ∨ k = 13 ∨ k = 14 ∨ k = 15 ∨ k = 16 := by omega
  rcases this with rfl | rfl | rfl | rfl | rfl | rfl | rfl | rfl | rfl | rfl | rfl | rfl | rfl | rfl | rfl | rfl <;> decide

/-- **Output dimension = ceil(dim x num/denom)**: the smallest integer not below the
exact scaled size. -/
theorem output_dim_is_ceil (dim num denom : Nat) (hd : 0 < denom) :
    outputDim dim num denom * denom ≥ dim * num ∧ (outputDim dim num denom - 1) * denom < dim * num ∨
    (dim * num = 0 ∧ outputDim dim num denom = 0) := by
  unfold outputDim
  by_cases h0 : dim * num = 0
  · right
    refine ⟨h0, ?_⟩
    rw [h0]; apply Nat.div_eq_of_lt; omega
  · left
    have h1 := Nat.div_add_mod (dim * num + denom - 1) denom
    have h2 := Nat.mod_lt (dim * num + denom - 1) hd
    have hq : 1 ≤ (dim * num + denom - 1) / denom := by
      apply (Nat.le_div_iff_mul_le hd).2; omega
    constructor
    · have : denom * ((dim * num + denom - 1) / denom) = (dim * num + denom - 1) / denom * denom := Nat.mul_comm _ _
      omega
    · have e : ((dim * num + denom - 1) / denom - 1) * denom = (dim * num + denom - 1) / denom * denom - denom := by
        rw [Nat.sub_mul, Nat.one_mul]
      have : denom * ((dim * num + denom - 1) / denom) = (dim * num + denom - 1) / denom * denom := Nat.mul_comm _ _
      omega

/-- the same value for a factor written as k/8 and as its reduced fraction -/
theorem output_dim_reduced (dim n d : Nat) (hd : 0 < d) (h8 : 8 % d = 0) :
    outputDim dim n d = outputDim dim (n * (8 / d)) 8 := by
  unfold outputDim
  obtain ⟨m, hm⟩ : ∃ m, 8 = d * m := ⟨8 / d, by have := Nat.div_add_mod 8 d; omega⟩
  have hmpos : 0 < m := by
    rcases Nat.eq_zero_or_pos m with h | h
    · subst h; omega
    · exact h
  have hq : 8 / d = m := by rw [hm]; exact Nat.mul_div_cancel_left m hd
  rw [hq]
  -- ceil(a/d) = ceil(a*m/(d*m))
  have key : ∀ a, (a * m + d * m - 1) / (d * m) = (a + d - 1) / d := by
    intro a
    rw [Nat.mul_comm d m, ← Nat.div_div_eq_div_mul]
    congr 1
    have : a * m + m * d - 1 = (a + d - 1) * m + (m - 1) := by
      have h1 : (a + d - 1) * m = a * m + d * m - m := by
        rw [Nat.sub_mul, Nat.add_mul, Nat.one_mul]
      have h2 : m ≤ d * m := Nat.le_mul_of_pos_left m hd
      rw [h1, Nat.mul_comm m d]; omega
    rw [this, Nat.mul_comm _ m, Nat.mul_add_div hmpos, Nat.div_eq_of_lt (by omega : m - 1 < m)]
    omega
  have := key (dim * n)
  rw [show dim * (n * m) = dim * n * m by rw [Nat.mul_assoc]]
  rw [show (8 : Nat) = d * m from hm]
  exact this.symm

/-- **Crop window**: the returned offset is the iMCU boundary at or below the request, the
right edge is exactly the requested right edge, and the window contains the request. -/
theorem crop_window (align x w : Nat) (ha : 0 < align) :
    let r := cropWindow align x w
    r.1 % align = 0 ∧ r.1 ≤ x ∧ x < r.1 + align ∧ r.1 + r.2 = x + w ∧ w ≤ r.2 := by
  unfold cropWindow
  simp only
  have h1 := Nat.div_add_mod x align
  have h2 := Nat.mod_lt x ha
  have h3 : x / align * align = align * (x / align) := Nat.mul_comm _ _
  refine ⟨by simp, by omega, by omega, by omega, by omega⟩

/-- **Skip return value**: the request is honoured exactly unless it would pass the bottom
of the image, where it stops at the last row. -/
theorem skip_return_value (height scanline n : Nat) (hs : scanline ≤ height) :
    skipReturn height scanline n = min n (height - scanline) ∧
    scanline + skipReturn height scanline n ≤ height := by
  unfold skipReturn
  split <;> constructor <;> omega

/-- **Region validation is exact**: for *all* 32-bit arguments the setter accepts exactly
the regions that are empty-by-convention (all zero) or non-negative, left-aligned to the
scaled iMCU width and inside the scaled image. -/
theorem region_validation_exact (sw sh mw x y w h : Int) (hsw : 0 ≤ sw) (hsh : 0 ≤ sh) :
    tjCropAccept sw sh mw x y w h = true ↔
      ((x = 0 ∧ y = 0 ∧ w = 0 ∧ h = 0) ∨
       (0 ≤ x ∧ 0 ≤ y ∧ 0 ≤ w ∧ 0 ≤ h ∧ x % mw = 0 ∧
        0 < (if w = 0 then sw - x else w) ∧ 0 < (if h = 0 then sh - y else h) ∧
        x + (if w = 0 then sw - x else w) ≤ sw ∧ y + (if h = 0 then sh - y else h) ≤ sh)) := by
  unfold tjCropAccept
  by_cases h0 : x = 0 ∧ y = 0 ∧ w = 0 ∧ h = 0
  · simp [h0]
  · rw [if_neg h0]
    by_cases hneg : x < 0 ∨ y < 0 ∨ w < 0 ∨ h < 0
    · rw [if_pos hneg]
      constructor
      · intro hf; cases hf
      · rintro (hz | ⟨a, b, c, d, _⟩)
        · exact absurd hz h0
        · omega
    · rw [if_neg hneg]
      by_cases hal : x % mw = 0
      · rw [if_neg (fun hn => hn hal)]
        dsimp only
        by_cases hout : (if w = 0 then sw - x else w) ≤ 0 ∨ (if h = 0 then sh - y else h) ≤ 0 ∨ x > sw ∨
            (if w = 0 then sw - x else w) > sw - x ∨ y > sh ∨ (if h = 0 then sh - y else h) > sh - y
        · rw [if_pos hout]
          constructor
          · intro hf; cases hf
          · rintro (hz | ⟨_, _, _, _, _, a, b, c, d⟩)
            · exact absurd hz h0
            · omega
        · rw [if_neg hout]
          constructor
          · intro _
            right
            exact ⟨by omega, by omega, by omega, by omega, hal, by omega, by omega, by omega, by omega⟩
          · intro _; rfl
      · rw [if_pos hal]
        constructor
        · intro hf; cases hf
        · rintro (hz | ⟨_, _, _, _, e, _⟩)
          · exact absurd hz h0
          · exact absurd e hal

/-! ### the read / skip state machine (no context rows, separate upsampler) -/
open LJT.Skip in
/-- **Every row a history delivers is the row of the image that its scanline number names.**  For every geometry
(`M` row groups per iMCU row, `v` rows per row group, any height) and every sequence of `jpeg_read_scanlines(n)` /
`jpeg_skip_scanlines(n)` calls - any `n`, including 0 and past the bottom - each delivered row comes from iMCU row
`a`, row group `g < M`, row `r < v` with `a*M*v + g*v + r` equal to the scanline it is delivered at. -/
theorem delivered_rows_are_where_they_belong (c : Cfg) (hM : 0 < c.M) (hv : 0 < c.v) (calls : List Call) :
    ∀ ip ∈ (run c (init c) calls).2, ip.2.2.1 < c.M ∧ ip.2.2.2 < c.v ∧ Prov.line c ip.2 = ip.1 ∧ ip.1 < c.H := by
  intro ip hip
  obtain ⟨h1, h2, h3, _, h5⟩ := (run_spec c hM hv calls (init c) (init_inv c hM hv)).2 ip hip
  exact ⟨h1, h2, h3, h5⟩

open LJT.Skip in
/-- **A full decode delivers every row once, in order**: `output_height` calls for one row deliver scanlines
`0, 1, .., output_height - 1`. -/
theorem full_decode_delivers_every_row (c : Cfg) (hM : 0 < c.M) (hv : 0 < c.v) :
    (run c (init c) (List.replicate c.H (.rd 1))).2.map (·.1) = List.range c.H := by
  have := (full_decode_gen c c.H (init c) (init_inv c hM hv) (by simp [init])).1
  rw [this, List.range_eq_range']
  rfl

open LJT.Skip in
/-- **A partial decode and a full decode agree**: whatever two histories deliver at the same scanline has the same
provenance - same iMCU row, same row group, same row of the upsampled group. -/
theorem histories_agree_on_every_scanline (c : Cfg) (hM : 0 < c.M) (hv : 0 < c.v) (h1 h2 : List Call)
    (i : Nat) (p1 p2 : Prov) (m1 : (i, p1) ∈ (run c (init c) h1).2) (m2 : (i, p2) ∈ (run c (init c) h2).2) : p1 = p2 := by
  obtain ⟨a1, a2, a3, _⟩ := delivered_rows_are_where_they_belong c hM hv h1 _ m1
  obtain ⟨b1, b2, b3, _⟩ := delivered_rows_are_where_they_belong c hM hv h2 _ m2
  obtain ⟨x, y, z⟩ := p1
  obtain ⟨x', y', z'⟩ := p2
  obtain ⟨e1, e2, e3⟩ := lineOf_unique c x y z x' y' z' a1 a2 b1 b2 (by
    show Prov.line c (x, y, z) = Prov.line c (x', y', z')
    rw [a3, b3])
  subst e1; subst e2; subst e3; rfl

open LJT.Skip in
/-- **A read makes progress and delivers consecutive scanlines**: inside the image a request for `n >= 1` rows returns
between 1 and `n` rows (at most the `v` rows of one row group), numbered from `output_scanline` upwards, and advances
`output_scanline` by exactly that count; at the bottom, or for `n = 0`, nothing changes. -/
theorem read_progress (c : Cfg) (hM : 0 < c.M) (hv : 0 < c.v) (calls : List Call) (n : Nat) :
    let s := (run c (init c) calls).1
    let r := step c s (.rd n)
    r.1.y = s.y + r.2.2 ∧ r.2.1.map (·.1) = List.range' s.y r.2.2 ∧ r.2.2 ≤ n ∧ r.2.2 ≤ c.v ∧
      (s.y < c.H → 1 ≤ n → 1 ≤ r.2.2) := by
  intro s r
  have hinv : InvW true c s := (run_spec c hM hv calls (init c) (init_inv c hM hv)).1
  by_cases hH : c.H ≤ s.y
  · have e : Skip.read c s n = (s, []) := by simp [Skip.read, hH]
    simp only [r, step, e]
    exact ⟨rfl, rfl, Nat.zero_le _, Nat.zero_le _, fun h => by omega⟩
  · by_cases hn : n = 0
    · have e : Skip.read c s n = (s, []) := by simp [Skip.read, hH, hn]
      simp only [r, step, e]
      exact ⟨rfl, rfl, Nat.zero_le _, Nat.zero_le _, fun _ h => by omega⟩
    · obtain ⟨a, g, q, k, _, _, _, k1, k2, k3, hrows, hy', _⟩ := read_spec c s n hinv.weaken (by omega) (by omega)
      have hlen : (Skip.read c s n).2.length = k := by rw [hrows]; simp
      simp only [r, step, hlen]
      refine ⟨hy', ?_, k2, by omega, fun _ _ => k1⟩
      rw [List.map_map]
      apply List.ext_getElem
      · simp [hlen]
      · intro j h1 h2
        simp [List.getElem_zipIdx]

open LJT.Skip in
/-- **A skip is honoured exactly**: it delivers nothing, returns `min n (rows left)` and advances `output_scanline`
by that amount, after any history. -/
theorem skip_honoured_exactly (c : Cfg) (hM : 0 < c.M) (hv : 0 < c.v) (calls : List Call) (n : Nat) :
    let s := (run c (init c) calls).1
    let r := step c s (.sk n)
    r.2.1 = [] ∧ r.2.2 = min n (c.H - s.y) ∧ r.1.y = s.y + min n (c.H - s.y) := by
  intro s r
  have hinv : InvW true c s := (run_spec c hM hv calls (init c) (init_inv c hM hv)).1
  obtain ⟨_, h2, h3⟩ := skip_spec c s n hM hv hinv
  exact ⟨rfl, h2, h3⟩

/-! ### the same when the upsampler needs context rows (fancy upsampling of vertically subsampled chroma) -/
open LJT.Skip in
/-- **Context rows: every history delivers rows computed from the right centre row group.**  The three-state main
controller of jdmainct.c postpones the last row group of every iMCU row until the next iMCU row has been decoded; for
every geometry with at least two row groups per iMCU row (context rows are never used below that) and every history of
read(n) / skip(n) calls, each delivered row comes from the row group and row of the iMCU row that its scanline names.
(The neighbouring row groups the fancy upsampler reads as context are not part of the model.) -/
theorem context_rows_are_where_they_belong (c : Cfg) (hM : 2 ≤ c.M) (hv : 0 < c.v) (calls : List Call) :
    ∀ ip ∈ (crun c (cinit c) calls).2, ip.2.2.1 < c.M ∧ ip.2.2.2 < c.v ∧ Prov.line c ip.2 = ip.1 ∧ ip.1 < c.H := by
  intro ip hip
  obtain ⟨h1, h2, h3, _, h5⟩ := (crun_spec c hM hv calls (cinit c) (cinit_inv c (by omega) hv)).2 ip hip
  exact ⟨h1, h2, h3, h5⟩

open LJT.Skip in
/-- a partial decode and a full decode through the context-row machine agree on the provenance of every scanline -/
theorem context_histories_agree_on_every_scanline (c : Cfg) (hM : 2 ≤ c.M) (hv : 0 < c.v) (h1 h2 : List Call)
    (i : Nat) (p1 p2 : Prov) (m1 : (i, p1) ∈ (crun c (cinit c) h1).2) (m2 : (i, p2) ∈ (crun c (cinit c) h2).2) : p1 = p2 := by
  obtain ⟨a1, a2, a3, _⟩ := context_rows_are_where_they_belong c hM hv h1 _ m1
  obtain ⟨b1, b2, b3, _⟩ := context_rows_are_where_they_belong c hM hv h2 _ m2
  obtain ⟨x, y, z⟩ := p1
  obtain ⟨x', y', z'⟩ := p2
  obtain ⟨e1, e2, e3⟩ := lineOf_unique c x y z x' y' z' a1 a2 b1 b2 (by
    show Prov.line c (x, y, z) = Prov.line c (x', y', z')
    rw [a3, b3])
  subst e1; subst e2; subst e3; rfl

open LJT.Skip in
/-- a full decode through the context-row machine delivers every row once, in order -/
theorem context_full_decode_delivers_every_row (c : Cfg) (hM : 2 ≤ c.M) (hv : 0 < c.v) :
    (crun c (cinit c) (List.replicate c.H (.rd 1))).2.map (·.1) = List.range c.H := by
  have := (cfull_decode_gen c hM hv c.H (cinit c) (cinit_inv c (by omega) hv) (by simp [cinit])).1
  rw [this, List.range_eq_range']
  rfl

open LJT.Skip in
/-- a skip is honoured exactly by the context-row machine too, after any history -/
theorem context_skip_honoured_exactly (c : Cfg) (hM : 2 ≤ c.M) (hv : 0 < c.v) (calls : List Call) (n : Nat) :
    let s := (crun c (cinit c) calls).1
    (cskip c s n).2 = min n (c.H - s.y) ∧ (cskip c s n).1.y = s.y + min n (c.H - s.y) := by
  intro s
  have hinv : CInv c s := (crun_spec c hM hv calls (cinit c) (cinit_inv c (by omega) hv)).1
  exact (cskip_spec c hM hv s n hinv).2

-- non-vacuity: 4:2:0 with fancy upsampling (8 row groups of 2 rows), height 70: read 15, skip 1, read 3, skip 17, read 2
open LJT.Skip in
example : ((crun ⟨8, 2, 70⟩ (cinit ⟨8, 2, 70⟩) [.rd 2, .sk 13, .rd 2, .sk 17, .rd 2]).2).map (·.1) = [0, 1, 15, 16, 34, 35] := by decide

/-! ### the same with the merged upsampler (jdmerge.c, 2:1 vertical sampling, spare row) -/
open LJT.Skip in
/-- **Merged upsampling: every history that avoids the situation of known finding D16 delivers the right rows.**  D16 = a
skip that leaves the current iMCU row while the second row of a pair waits in the spare row (`d16`, decided on the model
state before the call).  For every other history of read(n) / skip(n) calls the row delivered at each scanline is the
row group and row of the iMCU row that the scanline names. -/
theorem merged_rows_are_where_they_belong_partial (c : Cfg) (hM : 0 < c.M) (hv : c.v = 2) (calls : List Call)
    (hfree : d16free c (minit c) calls = true) :
    ∀ ip ∈ (mrun c (minit c) calls).2, ip.2.2.1 < c.M ∧ ip.2.2.2 < c.v ∧ Prov.line c ip.2 = ip.1 ∧ ip.1 < c.H := by
  intro ip hip
  obtain ⟨h1, h2, h3, _, h5⟩ := (mrun_spec c hv hM calls (minit c) (minit_inv c hM) hfree).2 ip hip
  exact ⟨h1, h2, h3, h5⟩

open LJT.Skip in
/-- with merged 2:1 upsampling a skip at the end of a history that is D16-free (the skip included) is honoured exactly -/
theorem merged_skip_honoured_exactly_partial (c : Cfg) (hM : 0 < c.M) (hv : c.v = 2) (calls : List Call) (n : Nat)
    (hfree : d16free c (minit c) (calls ++ [.sk n]) = true) :
    let s := (mrun c (minit c) calls).1
    (mskip c s n).2 = min n (c.H - s.y) ∧ (mskip c s n).1.y = s.y + min n (c.H - s.y) := by
  intro s
  have split : ∀ (cs : List Call) (t : MSt), d16free c t (cs ++ [.sk n]) = true →
      d16free c t cs = true ∧ d16 c (mrun c t cs).1 (.sk n) = false := by
    intro cs
    induction cs with
    | nil => intro t h; simp only [List.nil_append, d16free, Bool.and_true, Bool.not_eq_true'] at h; exact ⟨rfl, by simpa [mrun] using h⟩
    | cons a as ih =>
      intro t h
      simp only [List.cons_append, d16free, Bool.and_eq_true, Bool.not_eq_true'] at h
      obtain ⟨i1, i2⟩ := ih _ h.2
      exact ⟨by simp only [d16free, Bool.and_eq_true, Bool.not_eq_true']; exact ⟨h.1, i1⟩, by simpa [mrun] using i2⟩
  obtain ⟨f1, f2⟩ := split calls (minit c) hfree
  have hinv := (mrun_spec c hv hM calls (minit c) (minit_inv c hM) f1).1
  exact (mskip_spec c hv s n hM hinv f2).2

open LJT.Skip in
/-- **Merged upsampling without vertical subsampling (4:2:2): every history delivers the right rows.** -/
theorem merged_1v_rows_are_where_they_belong (c : Cfg) (hM : 0 < c.M) (hv : c.v = 1) (calls : List Call) :
    ∀ ip ∈ (mrun c (minit c) calls).2, ip.2.2.1 < c.M ∧ ip.2.2.2 < c.v ∧ Prov.line c ip.2 = ip.1 ∧ ip.1 < c.H := by
  intro ip hip
  obtain ⟨h1, h2, h3, _, h5⟩ := (mrun1_spec c hv hM calls (minit c) (minit_inv1 c hM)).2 ip hip
  exact ⟨h1, h2, h3, h5⟩

open LJT.Skip in
/-- **The full statement is false of the code as it stands (known finding D16)**: with 8 row groups of 2 rows, after
reading one row (its partner goes to the spare row) a skip of 17 rows ends on scanline 18 with the machine one row out
of step (the stale spare row was consumed as scanline 16), and the next read delivers row 1 of row group 1 of iMCU row
1 - image row 19 - as scanline 18.  The model is the code's (the `skipst` operation compares `spare_full` and the
other counters after every call), and the same history on the real decoder is the replay of D16. -/
theorem merged_d16_witness :
    (mrun ⟨8, 2, 40⟩ (minit ⟨8, 2, 40⟩) [.rd 1, .sk 17, .rd 1]).2 = [(0, (0, 0, 0)), (18, (1, 1, 1))] ∧
    Prov.line ⟨8, 2, 40⟩ (1, 1, 1) = 19 ∧
    d16free ⟨8, 2, 40⟩ (minit ⟨8, 2, 40⟩) [.rd 1, .sk 17, .rd 1] = false := by decide

-- non-vacuity: 4:2:0-like geometry (8 row groups of 2 rows), height 37; read 2, read 3 (only the 2 rows of one row
-- group come back), skip 1 (inside the iMCU row), skip 20 (over an iMCU row boundary, ending inside a row group), read 2
-- (one row comes back: the rest of that row group), read 2
open LJT.Skip in
example : (run ⟨8, 2, 37⟩ (init ⟨8, 2, 37⟩) [.rd 2, .rd 3, .sk 1, .sk 20, .rd 2, .rd 2]).2 =
    [(0, (0, 0, 0)), (1, (0, 0, 1)), (2, (0, 1, 0)), (3, (0, 1, 1)), (25, (1, 4, 1)), (26, (1, 5, 0)), (27, (1, 5, 1))] := by decide

-- non-vacuity: a 227x149 image at 3/8 is 86x56; a crop request (20, 30) with alignment 6
example : outputDim 227 3 8 = 86 ∧ outputDim 149 3 8 = 56 ∧ cropWindow 6 20 30 = (18, 32) ∧
    tjCropAccept 86 56 6 18 3 32 10 = true ∧ tjCropAccept 86 56 6 2147483640 0 16 0 = false := by decide

end LJT.C08
