import LJT.Model.Nbits
/-! kernel-evaluated check of entries 0..8191 of the regenerated nbits table -/
namespace LJT
theorem nbits_chunk_S0 : checkRange nbitsTblSimd nbitsSpec 14 0 8192 = true := by decide +kernel
end LJT
