import LJT.Ops.Util
import LJT.Model.ICC
import LJT.Model.Header
import LJT.Model.CopyOpt
import LJT.Model.HeaderIO
import LJT.Gen.Err
namespace LJT.Ops
open LJT.ICC LJT.Header

/-- `n` groups of `(id h v tq)` from a token list -/
def takeComps : Nat → List Nat → Option (List HeaderIO.CompInfo × List Nat)
  | 0, r => some ([], r)
  | n + 1, i :: h :: v :: q :: r => do
    let (cs, r') ← takeComps n r
    some (⟨i, h, v, q⟩ :: cs, r')
  | _ + 1, _ => none

/-- stage 2 of `hdrw`: `hdrio W prec h w nc (id h v tq)*nc J wj maj min unit xd yd A wa tr RI ri SEG app0 app14 sof dri
D sj maj min unit xd yd sa tr prec h w nc (id h v tq)*nc ri L l0 l14`.  Checks (1) that the model's marker writer
produces exactly the segments the compressor wrote for these fields and (2) that the model's marker reader, given those
segments under the save limits, reports exactly what jpeg_read_header reported. -/
def hdrio (t : List String) : Option String := do
  match t with
  | "W" :: prec :: h :: w :: nc :: rest =>
    let prec ← nat? prec; let h ← nat? h; let w ← nat? w; let nc ← nat? nc
    let (ctoks, rest) := (rest.take (4 * nc), rest.drop (4 * nc))
    let cn ← nats? ctoks
    let (comps, _) ← takeComps nc cn
    match rest with
    | "J" :: wj :: maj :: mnr :: unit :: xd :: yd :: "A" :: wa :: tr :: "RI" :: ri :: "SEG" :: a0 :: a14 :: sof :: dri :: "D" :: drest =>
      let wj ← nat? wj; let maj ← nat? maj; let mnr ← nat? mnr; let unit ← nat? unit; let xd ← nat? xd; let yd ← nat? yd
      let wa ← nat? wa; let tr ← nat? tr; let ri ← nat? ri
      let a0b ← hexBytes? a0; let a14b ← hexBytes? a14; let sofb ← hexBytes? sof; let drib ← hexBytes? dri
      let jf : HeaderIO.Jfif := ⟨maj, mnr, unit, xd, yd⟩
      let sf : HeaderIO.Sof := ⟨prec, h, w, comps⟩
      -- (1) the writer
      if wj = 1 && a0b != HeaderIO.jfifPayload jf then some "bad writer: APP0" else
      if wj = 0 && a0b != [] then some "bad writer: APP0 written although write_JFIF_header is off" else
      if wa = 1 && a14b != HeaderIO.adobePayload tr then some "bad writer: APP14" else
      if wa = 0 && a14b != [] then some "bad writer: APP14 written although write_Adobe_marker is off" else
      if sofb != HeaderIO.sofBytes sf then some "bad writer: SOF" else
      if ri != 0 && drib != HeaderIO.driBytes ri then some "bad writer: DRI" else
      if ri = 0 && drib != [] then some "bad writer: DRI written for interval 0" else
      -- (2) the reader
      let dn ← ints? (drest.filter (· != "L"))
      let dnat := dn.map Int.toNat
      match dnat with
      | sj :: dmaj :: dmnr :: dunit :: dxd :: dyd :: sa :: dtr :: dprec :: dh :: dw :: dnc :: more =>
        let (dcomps, more2) ← takeComps dnc more
        match more2, dn.reverse with
        | [dri2, _, _], l14 :: l0 :: _ =>
          let lim0 := if l0 < 0 then 0 else l0.toNat
          let lim14 := if l14 < 0 then 0 else l14.toNat
          let ej := if wj = 1 then HeaderIO.examineApp0 (a0b.take (HeaderIO.examinedLen 0xE0 lim0 a0b.length)) else none
          let ea := if wa = 1 then HeaderIO.examineApp14 (a14b.take (HeaderIO.examinedLen 0xEE lim14 a14b.length)) else none
          let okj := match ej with
            | some j => sj = 1 && j == ⟨dmaj, dmnr, dunit, dxd, dyd⟩
            | none => sj = 0
          let oka := match ea with
            | some x => sa = 1 && x = dtr
            | none => sa = 0
          if !okj then some "bad reader: JFIF fields" else
          if !oka then some "bad reader: Adobe fields" else
          if HeaderIO.parseSof sofb != some ⟨dprec, dh, dw, dcomps⟩ then some "bad reader: SOF fields" else
          if (if ri = 0 then dri2 != 0 else HeaderIO.parseDri drib != some dri2) then some "bad reader: DRI" else
          some "ok"
        | _, _ => none
      | _ => none
    | _ => none
  | _ => none

def genByte (seed k : Nat) : Nat := ((seed + 1) * (k + 17) * 40503 / 64) % 256
def genBytes (seed len : Nat) : List Nat := (List.range len).map (genByte seed)

def parseIccr : List Nat → List (Nat × List Nat)
  | code :: idok :: seq :: cnt :: plen :: pseed :: rest =>
    let id := if idok = 1 then magic else magic.set 3 0x2D
    (code, id ++ [seq % 256, cnt % 256] ++ genBytes pseed plen) :: parseIccr rest
  | _ => []

def parseMsave : List Nat → List (Nat × Nat × Nat × Nat)
  | code :: len :: seed :: limit :: rest => (code, len, seed, limit) :: parseMsave rest
  | _ => []

def opC16 : List String → Option String
  | "hdrio" :: rest => hdrio rest
  | ["iccw", len, seed] => do
    let len ← nat? len; let seed ← nat? seed
    if len = 0 then some s!"err {Gen.JERR_BUFFER_SIZE}" else
    let ms := writeICC (genBytes seed len)
    some s!"{ms.length} {" ".intercalate (ms.map (fun m => s!"{m.2.length}:{fnv m.2}"))}"
  | "iccr" :: _ :: rest => do
    let ns ← nats? rest
    let ms := parseIccr ns
    match readICC ms with
    | some p => some s!"ok {p.length}:{fnv p}"
    | none => some s!"none warn={if hasICC ms then 1 else 0}"
  | "msave" :: _ :: rest => do
    let ns ← nats? rest
    let specs := parseMsave ns
    -- the limit in force for a code is the last one requested for it
    let limitOf (code : Nat) : Nat :=
      (specs.foldl (fun acc (c, _, _, l) => if c = code then some l else acc) (none : Option Nat)).getD 0
    let out := specs.filterMap (fun (code, len, seed, _) =>
      match saved code (limitOf code) (genBytes seed len) with
      | some (d, orig) => some s!"{code}:{d.length}:{orig}:{fnv d}"
      | none => none)
    some ("ok " ++ " ".intercalate out)
  | "ss" :: nc :: jcs :: rest => do
    let nc ← nat? nc; let jcs ← nat? jcs; let ns ← nats? rest
    let rec pairs : List Nat → List (Nat × Nat)
      | h :: v :: r => (h, v) :: pairs r
      | _ => []
    some s!"subsamp {getSubsamp nc jcs (pairs ns)}"
  | "xcopy" :: nm :: rest => do
    let nm ← nat? nm
    let ns ← nats? rest
    let rec mk : Nat → List Nat → List (Nat × List Nat)
      | 0, _ => []
      | n + 1, code :: len :: seed :: r => (code, genBytes seed len) :: mk n r
      | _, _ => []
    let src := mk nm ns
    let opts := (ns.drop (nm * 3 + 1)).take (ns.getD (nm * 3) 0)
    let toOpt (o : Nat) : CopyOpt.Opt := match o with
      | 0 => .none | 1 => .comments | 2 => .all | 3 => .allExceptIcc | _ => .icc
    let rec run : List Nat → (Nat → Bool) → String → String
      | [], _, acc => acc
      | o :: os, saved, acc =>
        let out := CopyOpt.transform saved (toOpt o) true false src
        let str := " ".intercalate (out.map (fun m => s!"{m.1}:{m.2.length}:{fnv m.2}"))
        run os (CopyOpt.setup saved (toOpt o)) (acc ++ (if str.isEmpty then " |" else " " ++ str ++ " |"))
    some ("ok" ++ run opts (fun _ => false) "")
  | _ => none

end LJT.Ops
