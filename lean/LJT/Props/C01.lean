import LJT.Proofs.SeqHuff
import LJT.Proofs.Suspend
import LJT.Gen.Tables
import LJT.Gen.Src
import LJT.Proofs.DecBudget
/-! # C01 - decoding arbitrary bytes is memory-safe, terminating and error-reporting

What a theorem can carry of this property: statements for *every* bit string about the model
decoders (the block decoder never produces more than the block holds, the zigzag table is
padded so that a run can never index outside it, the marker loop makes progress).  Memory
safety, absence of undefined behaviour, initialised output and the time bound of the real
decoder are observed on the real code (harness `dfz`, sanitizers, prefill differencing,
per-call watchdog). -/
namespace LJT.Props.C01
open LJT.Huff LJT.SeqHuff LJT.Suspend

/-- **Whatever the bits are, a decoded block has exactly the coefficients asked for**: the AC
decoder, fed any bit string with any table, either fails or returns exactly `rem` values -
a run or a ZRL can never carry it past the end of the block -/
theorem ac_decode_stays_in_block (dd : DDerived) : ∀ (fuel rem : Nat) (bits : List Bool) (l : List Int) (rest : List Bool),
    decodeAC dd fuel rem bits = some (l, rest) → l.length = rem := by
  intro fuel
  induction fuel with
  | zero =>
    intro rem bits l rest h
    unfold decodeAC at h
    split at h
    · simp at h; obtain ⟨rfl, _⟩ := h; simp; omega
    · simp at h
  | succ f ih =>
    intro rem bits l rest h
    rw [decodeAC_succ] at h
    split at h
    · rename_i h0; simp at h; obtain ⟨rfl, _⟩ := h; simp; omega
    · rename_i hrem
      split at h
      · simp at h
      · simp at h
      · rename_i s rst _
        split at h
        · split at h
          · simp at h
          · split at h
            · simp at h
            · split at h
              · simp at h
              · rename_i l' b' hrec
                simp at h; obtain ⟨rfl, _⟩ := h
                have := ih _ _ _ _ hrec
                simp [this]; omega
        · split at h
          · split at h
            · simp at h
            · split at h
              · simp at h
              · rename_i l' b' hrec
                simp at h; obtain ⟨rfl, _⟩ := h
                have := ih _ _ _ _ hrec
                simp [this]; omega
          · split at h
            · simp at h; obtain ⟨rfl, _⟩ := h; simp
            · simp at h

/-- **The zigzag table is padded** (`jpeg_natural_order[DCTSIZE2 + 16]`): from any position in
the block plus any 4-bit run the index stays inside the table, and every entry is a valid
coefficient position - the guarantee jdhuff.c / jdphuff.c rely on when a corrupt run length
carries `k` beyond 63 -/
theorem natural_order_padded :
    Gen.naturalOrder.length = 80 ∧ (∀ k r, k ≤ 63 → r ≤ 15 → k + r < Gen.naturalOrder.length) ∧
    (∀ x ∈ Gen.naturalOrder, x ≤ 63) := by
  refine ⟨by decide, ?_, by decide⟩
  intro k r hk hr
  have : Gen.naturalOrder.length = 80 := by decide
  omega

/-- **The marker loop makes progress**: every marker segment read consumes at least four
bytes, so the number of segments processed is bounded by the input length -/
theorem marker_loop_bounded : ∀ (count : Nat) (d : List Nat) (cf : Nat) (lf : List Nat),
    ChunkRun segStep count d [] cf lf → 4 * (cf - count) + lf.length ≤ d.length ∧ count ≤ cf := by
  intro count d cf lf h
  generalize hcs : ([] : List (List Nat)) = cs at h
  induction h with
  | done s buf _ => simp
  | adv s buf cs s' n sf lf hs _ ih =>
    subst hcs
    have ih' := ih rfl
    unfold segStep at hs
    split at hs
    · rename_i c0 m hi lo rest
      dsimp only at hs
      split at hs
      · rename_i hc
        simp at hs; obtain ⟨rfl, rfl⟩ := hs
        simp at ih' ⊢
        omega
      · simp at hs
    · simp at hs
  | more s buf c cs sf lf _ _ _ => cases hcs

/-- non-vacuity: a run over two segments and a trailing byte -/
example : ChunkRun segStep 0 [0xFF, 0xFE, 0, 2, 0xFF, 0xE0, 0, 3, 9, 0xD9] [] 2 [0xD9] := by
  apply ChunkRun.adv _ _ _ 1 4 _ _ (by decide)
  apply ChunkRun.adv _ _ _ 2 5 _ _ (by decide)
  exact ChunkRun.done _ _ (by decide)

/-- **The unchecked fast path of the Huffman decoder has enough input** (src/jdhuff.c
`decode_mcu`: `decode_mcu_fast` reads the source buffer through a bare pointer and is chosen only
when at least `BUFSIZE` bytes per block of the MCU are in the buffer).  Whatever the bit string and
the tables: a block that the model decoder decodes consumes at most 1985 bits; in the source buffer
every byte of them may be a 0xFF followed by a stuffed zero, and the bit-buffer refill reads up to
6 more data bytes (12 with stuffing) ahead of what is consumed.  That total fits `BUFSIZE` as it
stands in the source (regenerated on every run). -/
theorem decoder_fast_path_budget (ddc dac : DDerived) (hsym : ∀ v ∈ ddc.vals, v ≤ 16) (bits : List Bool)
    (diff : Int) (ac : List Int) (rest : List Bool) (h : decodeBlock ddc dac bits = some (diff, ac, rest)) :
    2 * ((bits.length - rest.length + 7) / 8) + 12 ≤ Gen.Src.jdhuff_BUFSIZE := by
  obtain ⟨n, hn, hb⟩ := decodeBlock_consumes ddc dac hsym bits diff ac rest h
  have : bits.length - rest.length = n := by omega
  rw [this]
  have : (n + 7) / 8 ≤ 249 := by omega
  simp [Gen.Src.jdhuff_BUFSIZE]
  omega

/-- non-vacuity: the bound is nearly tight (1985 bits -> 249 bytes -> 498 stuffed + 12 = 510 of 512),
and the Annex K DC table delivers only categories -/
example : 2 * ((1985 + 7) / 8) + 12 = 510 ∧ Gen.Src.jdhuff_BUFSIZE = 512 ∧ (∀ v ∈ Gen.stdDcLumVals, v ≤ 16) := by
  decide

end LJT.Props.C01
