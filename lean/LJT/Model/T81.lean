import LJT.Model.Huff
import LJT.Model.Lossless
import LJT.Model.Bits
import LJT.Model.SeqHuff
import LJT.Model.Arith
import LJT.Model.ArithBin
import LJT.Model.ProgAC
import LJT.Gen.Tables
/-! An interchange-format decoder written from ITU-T T.81 (not from libjpeg-turbo's decoder):
marker parser with the syntax checks of Annex B, Huffman table construction of Annex C
(`Huff.mkDDerived`), sequential decoding of Annex F and progressive decoding of Annex G for
Huffman-coded DCT processes.  It returns the quantised coefficients of every component
(`width_in_blocks x height_in_blocks` blocks, natural order inside a block) or the first
syntax violation it meets.  Arithmetic-coded and lossless processes are recognised but not
decoded here (lossless: Model/Lossless.lean). -/
deriving instance Inhabited for LJT.Huff.DDerived
namespace LJT.T81
open LJT LJT.Huff

structure Comp where
  id : Nat
  h : Nat
  v : Nat
  tq : Nat
deriving Repr

structure Frame where
  sof : Nat            -- marker code 0xC0 .. 0xCF
  prec : Nat
  height : Nat
  width : Nat
  comps : List Comp
deriving Repr

structure ScanComp where
  ci : Nat             -- index into frame components
  td : Nat
  ta : Nat
deriving Repr

structure Scan where
  comps : List ScanComp
  ss : Nat
  se : Nat
  ah : Nat
  al : Nat
deriving Repr

structure Result where
  frame : Frame
  qt : List (Option (List Nat))      -- 4 quantisation tables (natural order)
  coefs : List (Nat × Nat × Array Int)  -- per component: width_in_blocks, height_in_blocks, blocks*64
  nscans : Nat
  ri : Nat
  arith : Bool
  notes : List String

def ceilDiv (a b : Nat) : Nat := (a + b - 1) / b

def u16 (bs : Array Nat) (i : Nat) : Nat := bs.getD i 0 * 256 + bs.getD (i + 1) 0

/-- bits of one entropy-coded interval: unstuffed bytes, most significant bit first -/
def intervalBits (bytes : List Nat) : List Bool := Bits.unpackBytes (Bits.unstuff bytes)

def getBits (n : Nat) (bs : List Bool) : Option (Nat × List Bool) :=
  if bs.length < n then none else some (LL.bitsNat (bs.take n), bs.drop n)

def extend (s r : Nat) : Int := if r < 2 ^ (s - 1) then (r : Int) - ((2 ^ s - 1 : Nat) : Int) else r

/-- state of the coefficient store while decoding -/
structure Store where
  wb : Array Nat          -- padded width in blocks per component
  data : Array (Array Int)

def Store.get (s : Store) (c blk k : Nat) : Int := (s.data.getD c #[]).getD (blk * 64 + k) 0
def Store.set (s : Store) (c blk k : Nat) (v : Int) : Store :=
  { s with data := s.data.modify c (fun a => a.setIfInBounds (blk * 64 + k) v) }

/-- the coefficients of the band `ss..se` of a block, in zigzag order -/
def Store.band (st : Store) (c blk ss se : Nat) : List Int :=
  (List.range (se - ss + 1)).map (fun j => st.get c blk (Gen.naturalOrder.getD (ss + j) 0))

/-- store the values of a band (zigzag order from `ss`); zero values are not written -/
def Store.setBand (st : Store) (c blk ss : Nat) (vals : List Int) : Store :=
  (vals.zipIdx).foldl (fun (s : Store) (p : Int × Nat) =>
    if p.1 = 0 then s else s.set c blk (Gen.naturalOrder.getD (ss + p.2) 0) p.1) st

/-- progressive AC refinement of one block (G.1.2.3, figure G.7): returns new store, EOBRUN, bits.
The decoding procedure itself is `ProgAC.refDecBlock` (Model/ProgAC.lean), a pure function of the
band's current values. -/
def acRefineBlock (dd : DDerived) (st : Store) (c blk ss se al : Nat) (eobrun : Nat) (bits : List Bool) :
    Except String (Store × Nat × List Bool) :=
  match ProgAC.refDecBlock (Huff.decode dd) ((2 : Int) ^ al) (st.band c blk ss se) eobrun bits with
  | .error e => .error e
  | .ok (vals, e', rest) => .ok (st.setBand c blk ss vals, e', rest)

/-- progressive AC first pass of one block (G.1.2.2): `ProgAC.firstDecBlock` gives the
point-transformed values of the band -/
def acFirstBlock (dd : DDerived) (st : Store) (c blk ss se al : Nat) (eobrun : Nat) (bits : List Bool) :
    Except String (Store × Nat × List Bool) :=
  match ProgAC.firstDecBlock (Huff.decode dd) (se - ss + 1) eobrun bits with
  | .error e => .error e
  | .ok (vals, e', rest) => .ok (st.setBand c blk ss (vals.map (· * 2 ^ al)), e', rest)

structure Tables where
  dc : Array (Option Tbl) := Array.replicate 4 none
  ac : Array (Option Tbl) := Array.replicate 4 none
  qt : Array (Option (List Nat)) := Array.replicate 4 none
  dcL : Array Nat := Array.replicate 16 0
  dcU : Array Nat := Array.replicate 16 1
  acK : Array Nat := Array.replicate 16 5

/-- decode the entropy-coded data of one scan.  `ecs` = the intervals between RSTn markers -/
def decodeScan (f : Frame) (tabs : Tables) (sc : Scan) (ri : Nat) (intervals : List (List Nat)) (st0 : Store)
    (hmax vmax : Nat) : Except String Store := Id.run do
  let prog := f.sof == 0xC2
  let ns := sc.comps.length
  -- geometry
  let compOf := fun (i : Nat) => f.comps.getD i ⟨0, 1, 1, 0⟩
  let mcusX := if ns == 1 then
      let c := compOf (sc.comps.getD 0 ⟨0, 0, 0⟩).ci
      ceilDiv (ceilDiv (f.width * c.h) hmax) 8
    else ceilDiv f.width (8 * hmax)
  let mcusY := if ns == 1 then
      let c := compOf (sc.comps.getD 0 ⟨0, 0, 0⟩).ci
      ceilDiv (ceilDiv (f.height * c.v) vmax) 8
    else ceilDiv f.height (8 * vmax)
  let total := mcusX * mcusY
  -- derived tables
  let mut dcd : Array (Option DDerived) := #[]
  let mut acd : Array (Option DDerived) := #[]
  for s in sc.comps do
    dcd := dcd.push ((tabs.dc.getD s.td none).bind (mkDDerived true false))
    acd := acd.push ((tabs.ac.getD s.ta none).bind (mkDDerived false false))
  let needDC := sc.ss == 0
  let needAC := sc.se > 0 && !(prog && sc.ss == 0)
  for i in [0:ns] do
    if needDC && !(prog && sc.ah != 0) && (dcd.getD i none).isNone then return .error "scan uses an undefined or invalid DC Huffman table"
    if (needAC || (!prog)) && (acd.getD i none).isNone then return .error "scan uses an undefined or invalid AC Huffman table"
  let mut st := st0
  let mut mcu := 0
  let mut ivs := intervals
  let nIntervals := if ri == 0 then 1 else ceilDiv total ri
  if intervals.length != nIntervals then
    return .error s!"restart markers: {intervals.length} intervals found, {nIntervals} expected"
  while mcu < total do
    let bytes := ivs.headD []
    ivs := ivs.tail
    let mut bits := intervalBits bytes
    let mut pred : Array Int := Array.replicate 4 0
    let mut eobrun := 0
    let cnt := if ri == 0 then total else min ri (total - mcu)
    for _ in [0:cnt] do
      let my := mcu / mcusX
      let mx := mcu % mcusX
      for i in [0:ns] do
        let s := sc.comps.getD i ⟨0, 0, 0⟩
        let c := compOf s.ci
        let bh := if ns == 1 then 1 else c.h
        let bv := if ns == 1 then 1 else c.v
        let wbp := st.wb.getD s.ci 1
        for by_ in [0:bv] do
          for bx in [0:bh] do
            let blk := (my * bv + by_) * wbp + (mx * bh + bx)
            if !prog then
              match SeqHuff.decodeBlock (dcd.getD i none |>.get!) (acd.getD i none |>.get!) bits with
              | none => return .error "sequential block: bad code, run beyond block or out of data"
              | some (diff, ac, rest) =>
                bits := rest
                let dcv := pred.getD i 0 + diff
                pred := pred.setIfInBounds i dcv
                st := st.set s.ci blk 0 dcv
                let mut k := 1
                for v in ac do
                  st := st.set s.ci blk (Gen.naturalOrder.getD k 0) v
                  k := k + 1
            else if sc.ss == 0 then
              if sc.ah == 0 then
                match Huff.decode (dcd.getD i none |>.get!) bits with
                | some (_, true, _) => return .error "DC first: bit pattern that is no code of the table"
                | _ => pure ()
                match LL.decodeItem (dcd.getD i none |>.get!) bits with
                | none => return .error "DC first: bad code or out of data"
                | some (diff, rest) =>
                  bits := rest
                  let dcv := pred.getD i 0 + diff
                  pred := pred.setIfInBounds i dcv
                  st := st.set s.ci blk 0 (dcv * 2 ^ sc.al)
              else
                match bits with
                | [] => return .error "DC refinement: out of data"
                | b :: rest =>
                  bits := rest
                  if b then st := st.set s.ci blk 0 (st.get s.ci blk 0 + 2 ^ sc.al)
            else
              let dd := (acd.getD i none).get!
              let r := if sc.ah == 0 then acFirstBlock dd st s.ci blk sc.ss sc.se sc.al eobrun bits
                       else acRefineBlock dd st s.ci blk sc.ss sc.se sc.al eobrun bits
              match r with
              | .error e => return .error e
              | .ok (st', e', rest) => st := st'; eobrun := e'; bits := rest
      mcu := mcu + 1
    -- what is left of the interval must be padding: fewer than 8 one-bits
    if eobrun != 0 then return .error "EOBRUN extends beyond the restart interval / scan"
    if bits.length ≥ 8 then return .error s!"{bits.length} unread bits at the end of an entropy-coded interval"
    if bits.any (fun b => !b) then return .error "padding bits at the end of an entropy-coded interval are not all 1"
  return .ok st

/-- signed value of a 16-bit quantity -/
def s16 (x : Nat) : Int := if x % 65536 ≥ 32768 then ((x % 65536 : Nat) : Int) - 65536 else ((x % 65536 : Nat) : Int)

/-- AC refinement of one block with the arithmetic decoder (G.2 as coded in decode_mcu_AC_refine):
`ArithBin.decR` on the band's current values -/
def arithACRefine (a : Arith.AS) (st : Store) (c blk tbl ss se al : Nat) : Option (Store × Arith.AS) :=
  match ArithBin.decR ArithBin.qm tbl ((2 : Int) ^ al) false ss (st.band c blk ss se) a with
  | none => none
  | some (vals, a') => some (st.setBand c blk ss vals, a')

/-- decode the entropy-coded data of one arithmetic-coded scan (SOF9 / SOF10) -/
def decodeScanArith (f : Frame) (tabs : Tables) (sc : Scan) (ri : Nat) (intervals : List (List Nat)) (st0 : Store)
    (hmax vmax : Nat) : Except String Store := Id.run do
  let prog := f.sof == 0xCA
  let ns := sc.comps.length
  let compOf := fun (i : Nat) => f.comps.getD i ⟨0, 1, 1, 0⟩
  let mcusX := if ns == 1 then
      let c := compOf (sc.comps.getD 0 ⟨0, 0, 0⟩).ci
      ceilDiv (ceilDiv (f.width * c.h) hmax) 8
    else ceilDiv f.width (8 * hmax)
  let mcusY := if ns == 1 then
      let c := compOf (sc.comps.getD 0 ⟨0, 0, 0⟩).ci
      ceilDiv (ceilDiv (f.height * c.v) vmax) 8
    else ceilDiv f.height (8 * vmax)
  let total := mcusX * mcusY
  let nIntervals := if ri == 0 then 1 else ceilDiv total ri
  if intervals.length != nIntervals then
    return .error s!"restart markers: {intervals.length} intervals found, {nIntervals} expected"
  let mut st := st0
  let mut mcu := 0
  let mut ivs := intervals
  while mcu < total do
    let mut a := Arith.AS.init (ivs.headD [])
    ivs := ivs.tail
    let mut last : Array Nat := Array.replicate 4 0
    let mut ctx : Array Nat := Array.replicate 4 0
    let cnt := if ri == 0 then total else min ri (total - mcu)
    for _ in [0:cnt] do
      let my := mcu / mcusX
      let mx := mcu % mcusX
      for i in [0:ns] do
        let s := sc.comps.getD i ⟨0, 0, 0⟩
        let c := compOf s.ci
        let bh := if ns == 1 then 1 else c.h
        let bv := if ns == 1 then 1 else c.v
        let wbp := st.wb.getD s.ci 1
        for by_ in [0:bv] do
          for bx in [0:bh] do
            let blk := (my * bv + by_) * wbp + (mx * bh + bx)
            let doDC := !prog || sc.ss == 0
            if doDC && !(prog && sc.ah != 0) then
              match ArithBin.decDC ArithBin.qm a s.td (ctx.getD i 0) (tabs.dcL.getD s.td 0) (tabs.dcU.getD s.td 1) with
              | none => return .error "arithmetic DC: magnitude overflow"
              | some (d, cx, a1) =>
                a := a1
                ctx := ctx.setIfInBounds i cx
                let nv := ((((last.getD i 0 : Nat) : Int) + d) % 65536).toNat
                last := last.setIfInBounds i nv
                st := st.set s.ci blk 0 (s16 (nv * 2 ^ sc.al))
            else if doDC then
              let (b, a1) := Arith.decode a Arith.fixedBin
              a := a1
              if b == 1 then
                let cur := st.get s.ci blk 0
                -- `|= p1` on the two's-complement value
                st := st.set s.ci blk 0 (s16 (((cur % 65536).toNat ||| 2 ^ sc.al)))
            if !prog then
              match ArithBin.decF ArithBin.qm s.ta (tabs.acK.getD s.ta 5) false 1 63 a with
              | none => return .error "arithmetic AC: spectral or magnitude overflow"
              | some (vals, a1) =>
                a := a1
                st := st.setBand s.ci blk 1 vals
            else if sc.ss != 0 then
              if sc.ah == 0 then
                match ArithBin.decF ArithBin.qm s.ta (tabs.acK.getD s.ta 5) false sc.ss (sc.se + 1 - sc.ss) a with
                | none => return .error "arithmetic AC first: spectral or magnitude overflow"
                | some (vals, a1) =>
                  a := a1
                  st := st.setBand s.ci blk sc.ss (vals.map (fun v => s16 ((v * 2 ^ sc.al) % 65536).toNat))
              else
                match arithACRefine a st s.ci blk s.ta sc.ss sc.se sc.al with
                | none => return .error "arithmetic AC refinement: spectral overflow"
                | some (st', a1) => st := st'; a := a1
      mcu := mcu + 1
  return .ok st

/-- split entropy-coded data starting at `i` into intervals; returns intervals, index of the
next marker, and a note when the RSTn numbering is off -/
def splitECS (bs : Array Nat) (i0 : Nat) : List (List Nat) × Nat × Option String := Id.run do
  let mut i := i0
  let mut cur : Array Nat := #[]
  let mut out : Array (List Nat) := #[]
  let mut expect := 0
  let mut note : Option String := none
  while i < bs.size do
    let b := bs.getD i 0
    if b == 0xFF then
      let n := bs.getD (i + 1) 0
      if n == 0 then cur := (cur.push 0xFF).push 0; i := i + 2
      else if n == 0xFF then i := i + 1          -- fill byte before a marker
      else if 0xD0 ≤ n && n ≤ 0xD7 then
        if n - 0xD0 != expect % 8 && note.isNone then note := some s!"RST{n - 0xD0} where RST{expect % 8} is due"
        expect := expect + 1
        out := out.push cur.toList; cur := #[]; i := i + 2
      else break
    else cur := cur.push b; i := i + 1
  out := out.push cur.toList
  return (out.toList, i, note)

/-- parse and decode a whole interchange stream -/
def decode (bytes : List Nat) : Except String Result := Id.run do
  let bs := bytes.toArray
  if bs.getD 0 0 != 0xFF || bs.getD 1 0 != 0xD8 then return .error "no SOI"
  let mut i := 2
  let mut tabs : Tables := {}
  let mut frame : Option Frame := none
  let mut store : Store := ⟨#[], #[]⟩
  let mut ri := 0
  let mut nscans := 0
  let mut notes : Array String := #[]
  let mut arith := false
  let mut hmax := 1
  let mut vmax := 1
  -- progression state: per component and coefficient, last Al sent (or none)
  let mut prog : Array (Array (Option Nat)) := #[]
  let mut sawEOI := false
  let mut saw16 := false
  let mut fuel := bs.size + 10
  while fuel > 0 do
    fuel := fuel - 1
    if i ≥ bs.size then return .error "no EOI"
    if bs.getD i 0 != 0xFF then return .error s!"marker expected at offset {i}"
    -- optional fill bytes
    let mut j := i + 1
    while bs.getD j 0 == 0xFF && j < bs.size do j := j + 1
    let m := bs.getD j 0
    i := j + 1
    if m == 0xD9 then
      sawEOI := true
      if i != bs.size then notes := notes.push s!"{bs.size - i} bytes after EOI"
      break
    if m == 0xD8 || m == 0 || (0xD0 ≤ m && m ≤ 0xD7) || m == 0x01 then return .error s!"unexpected marker FF{m} at offset {i}"
    let len := u16 bs i
    if len < 2 || i + len > bs.size then return .error s!"bad segment length {len} for marker {m}"
    let p := i + 2
    let e := i + len
    if m == 0xDB then
      let mut q := p
      while q < e do
        let pq := bs.getD q 0 / 16
        let tq := bs.getD q 0 % 16
        if pq > 1 || tq > 3 then return .error "DQT: bad Pq/Tq"
        let sz := if pq == 1 then 128 else 64
        if q + 1 + sz > e then return .error "DQT: length does not match its tables"
        let mut t : Array Nat := Array.replicate 64 0
        for k in [0:64] do
          let v := if pq == 1 then u16 bs (q + 1 + 2 * k) else bs.getD (q + 1 + k) 0
          if v == 0 then return .error "DQT: zero quantiser"
          t := t.setIfInBounds (Gen.naturalOrder.getD k 0) v
        if pq == 1 then saw16 := true
        if pq == 1 && (frame.map (·.sof)).getD 0xC1 == 0xC0 then
          return .error "DQT: 16-bit table (Pq=1) in a baseline (SOF0) frame"
        tabs := { tabs with qt := tabs.qt.setIfInBounds tq (some t.toList) }
        q := q + 1 + sz
    else if m == 0xC4 then
      let mut q := p
      while q < e do
        let tc := bs.getD q 0 / 16
        let th := bs.getD q 0 % 16
        if tc > 1 || th > 3 then return .error "DHT: bad Tc/Th"
        if q + 17 > e then return .error "DHT: truncated"
        let bitsL := 0 :: (List.range 16).map (fun k => bs.getD (q + 1 + k) 0)
        let n := bitsL.foldl (· + ·) 0
        if n > 256 || q + 17 + n > e then return .error "DHT: counts do not fit the segment"
        let vals := (List.range n).map (fun k => bs.getD (q + 17 + k) 0)
        let t : Tbl := ⟨bitsL, vals⟩
        if (mkDDerived (tc == 0) false t).isNone then return .error "DHT: not a valid prefix code / symbol out of range"
        if tc == 0 then tabs := { tabs with dc := tabs.dc.setIfInBounds th (some t) }
        else tabs := { tabs with ac := tabs.ac.setIfInBounds th (some t) }
        q := q + 17 + n
    else if m == 0xDD then
      if len != 4 then return .error "DRI: bad length"
      ri := u16 bs p
    else if m == 0xCC then
      arith := true
      let mut q := p
      while q + 1 < e do
        let idx := bs.getD q 0
        let v := bs.getD (q + 1) 0
        if idx < 16 then
          if v % 16 > v / 16 then return .error "DAC: L > U"
          tabs := { tabs with dcL := tabs.dcL.setIfInBounds idx (v % 16), dcU := tabs.dcU.setIfInBounds idx (v / 16) }
        else if idx < 32 then tabs := { tabs with acK := tabs.acK.setIfInBounds (idx - 16) v }
        else return .error "DAC: bad table index"
        q := q + 2
    else if 0xC0 ≤ m && m ≤ 0xCF && m != 0xC4 && m != 0xC8 then
      if frame.isSome then return .error "two frame headers"
      let prec := bs.getD p 0
      let h := u16 bs (p + 1)
      let w := u16 bs (p + 3)
      let nf := bs.getD (p + 5) 0
      if len != 8 + 3 * nf then return .error "SOF: bad length"
      if w == 0 || h == 0 || nf == 0 then return .error "SOF: empty image"
      let mut comps : Array Comp := #[]
      for k in [0:nf] do
        let c : Comp := ⟨bs.getD (p + 6 + 3 * k) 0, bs.getD (p + 7 + 3 * k) 0 / 16, bs.getD (p + 7 + 3 * k) 0 % 16, bs.getD (p + 8 + 3 * k) 0⟩
        if c.h == 0 || c.h > 4 || c.v == 0 || c.v > 4 || c.tq > 3 then return .error "SOF: bad sampling factor or table selector"
        if comps.any (fun d => d.id == c.id) then return .error "SOF: duplicate component id"
        comps := comps.push c
      if m == 0xC0 && prec != 8 then return .error "SOF0 with precision other than 8"
      if m == 0xC0 && saw16 then return .error "SOF0 (baseline) after a 16-bit quantisation table (Pq=1)"
      if (m == 0xC1 || m == 0xC2 || m == 0xC9 || m == 0xCA) && prec != 8 && prec != 12 then return .error "DCT frame with precision other than 8/12"
      if m ≥ 0xC9 then arith := true
      hmax := comps.foldl (fun a c => max a c.h) 1
      vmax := comps.foldl (fun a c => max a c.v) 1
      let fr : Frame := ⟨m, prec, h, w, comps.toList⟩
      frame := some fr
      let mut wbs : Array Nat := #[]
      let mut data : Array (Array Int) := #[]
      for c in comps do
        let wbp := ceilDiv w (8 * hmax) * c.h
        let hbp := ceilDiv h (8 * vmax) * c.v
        wbs := wbs.push wbp
        data := data.push (Array.replicate (wbp * hbp * 64) 0)
      store := ⟨wbs, data⟩
      prog := Array.replicate nf (Array.replicate 64 none)
    else if m == 0xDA then
      match frame with
      | none => return .error "SOS before SOF"
      | some fr =>
        let ns := bs.getD p 0
        if ns == 0 || ns > 4 || len != 6 + 2 * ns then return .error "SOS: bad Ns/length"
        let mut scs : Array ScanComp := #[]
        for k in [0:ns] do
          let cid := bs.getD (p + 1 + 2 * k) 0
          match fr.comps.findIdx? (fun c => c.id == cid) with
          | none => return .error "SOS: unknown component"
          | some ci =>
            if scs.any (fun s => s.ci ≥ ci) then return .error "SOS: components not in frame order"
            scs := scs.push ⟨ci, bs.getD (p + 2 + 2 * k) 0 / 16, bs.getD (p + 2 + 2 * k) 0 % 16⟩
        let ss := bs.getD (p + 1 + 2 * ns) 0
        let se := bs.getD (p + 2 + 2 * ns) 0
        let ah := bs.getD (p + 3 + 2 * ns) 0 / 16
        let al := bs.getD (p + 3 + 2 * ns) 0 % 16
        let sc : Scan := ⟨scs.toList, ss, se, ah, al⟩
        let isProg := fr.sof == 0xC2 || fr.sof == 0xCA
        let lossless := fr.sof == 0xC3 || fr.sof == 0xCB
        if !lossless then
          if isProg then
            if ss > se || se > 63 || al > 13 || ah > 13 then return .error "SOS: bad progressive parameters"
            if ss == 0 && se != 0 then return .error "SOS: DC and AC in one progressive scan"
            if ss != 0 && ns != 1 then return .error "SOS: interleaved AC scan"
            if ah != 0 && ah != al + 1 then return .error "SOS: Ah must be Al+1 in a refinement scan"
            -- every bit of every coefficient is sent once and in order
            for s in scs do
              for k in [ss:se + 1] do
                let prev := (prog.getD s.ci #[]).getD k none
                match prev with
                | none => if ah != 0 then return .error s!"progression: refinement of coefficient {k} before its first scan"
                | some pal => if ah != pal then return .error s!"progression: coefficient {k} scan Ah={ah} follows Al={pal}"
                prog := prog.modify s.ci (fun a => a.setIfInBounds k (some al))
              if ss != 0 && ((prog.getD s.ci #[]).getD 0 none).isNone then return .error "progression: AC scan before the DC scan of the component"
          else
            if ss != 0 || se != 63 || ah != 0 || al != 0 then return .error "SOS: sequential scan must have Ss=0 Se=63 Ah=Al=0"
          if ns > 1 then
            let blocks := scs.foldl (fun a s => a + (fr.comps.getD s.ci ⟨0, 1, 1, 0⟩).h * (fr.comps.getD s.ci ⟨0, 1, 1, 0⟩).v) 0
            if blocks > 10 then return .error "SOS: more than 10 blocks per MCU"
          for s in scs do
            if (tabs.qt.getD (fr.comps.getD s.ci ⟨0, 1, 1, 0⟩).tq none).isNone then return .error "scan uses an undefined quantisation table"
        let (ivs, nxt, note) := splitECS bs e
        match note with
        | some n => return .error n
        | none => pure ()
        nscans := nscans + 1
        if !arith && !lossless then
          match decodeScan fr tabs sc ri ivs store hmax vmax with
          | .error er => return .error s!"scan {nscans}: {er}"
          | .ok st => store := st
        if arith && !lossless then
          match decodeScanArith fr tabs sc ri ivs store hmax vmax with
          | .error er => return .error s!"scan {nscans}: {er}"
          | .ok st => store := st
        i := nxt
        continue
    else if (0xE0 ≤ m && m ≤ 0xEF) || m == 0xFE then
      pure ()
    else
      return .error s!"unsupported marker FF{m}"
    i := e
  if !sawEOI then return .error "no EOI"
  match frame with
  | none => return .error "no frame"
  | some fr =>
    if nscans == 0 then return .error "no scan"
    -- a complete progressive stream has sent every bit of every coefficient it mentions down to Al = 0?  (not required by T.81)
    let mut out : Array (Nat × Nat × Array Int) := #[]
    let mut ci := 0
    for c in fr.comps do
      let wb := ceilDiv (ceilDiv (fr.width * c.h) hmax) 8
      let hb := ceilDiv (ceilDiv (fr.height * c.v) vmax) 8
      let wbp := store.wb.getD ci 1
      let mut a : Array Int := Array.mkEmpty (wb * hb * 64)
      for by_ in [0:hb] do
        for bx in [0:wb] do
          for k in [0:64] do
            a := a.push (store.get ci (by_ * wbp + bx) k)
      out := out.push (wb, hb, a)
      ci := ci + 1
    return .ok ⟨fr, tabs.qt.toList, out.toList, nscans, ri, arith, notes.toList⟩

end LJT.T81
