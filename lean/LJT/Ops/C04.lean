import LJT.Ops.C03
import LJT.Ops.C07
import LJT.Model.T81Enc
import LJT.Model.DCT
namespace LJT.Ops
open LJT.T81 LJT.T81Enc

def c04Coef (seed : Nat) (ci by_ bx k : Nat) : Int :=
  let h := c07Mix ((seed * 1000003 + ci * 7919 + by_ * 104729 + bx * 611 + k) % 18446744073709551616)
  let r : Int := ((h % 41 : Nat) : Int) - 20
  if k > 20 && (h >>> 8) % 4 != 0 then 0 else r

def c04Quant (q16 : Bool) (cls k : Nat) : Nat :=
  if q16 then 1 + (k * 977 + cls * 31) % 40000 else 1 + (k * 7 + cls * 3) % 200

def opC04 : List String → Option String
  -- t81enc seed w h ri flags hv1 hv2 ... : flags bit0 q16, bit1 joinTables, bit2 fill, bit3 split, bits 4-5 driPos, bits 6-7 tblShift
  | "t81enc" :: seed :: w :: h :: ri :: flags :: hvs => do
    let seed ← nat? seed; let w ← nat? w; let h ← nat? h; let ri ← nat? ri; let fl ← nat? flags
    let hv ← nats? hvs
    let comps := hv.map (fun x => (x / 10, x % 10))
    let o : Opts := { q16 := fl % 2 == 1, joinTables := (fl / 2) % 2 == 1, fill := (fl / 4) % 2 == 1, driPos := (fl / 16) % 4, split := (fl / 8) % 2 == 1, tblShift := (fl / 64) % 4, ri := ri }
    let qs := [(List.range 64).map (c04Quant o.q16 0), (List.range 64).map (c04Quant o.q16 1)]
    match encode o w h comps qs (c04Coef seed) with
    | none => some "skip unencodable"
    | some bytes =>
      let hmax := comps.foldl (fun a c => max a c.1) 1
      let vmax := comps.foldl (fun a c => max a c.2) 1
      let hashes := (List.range comps.length).map (fun ci =>
        let c := comps.getD ci (1, 1)
        let wb := ceilDiv (ceilDiv (w * c.1) hmax) 8
        let hb := ceilDiv (ceilDiv (h * c.2) vmax) 8
        (List.range hb).foldl (fun acc by_ => (List.range wb).foldl (fun acc bx =>
          (List.range 64).foldl (fun acc k => c03fnv16 acc (c04Coef seed ci by_ bx k)) acc) acc) 14695981039346656037)
      some s!"skip {hexOf bytes} {",".intercalate (hashes.map toString)}"
  -- seqbytes seed w h ri hs vs nc : the entropy-coded data of the baseline scan the real encoder must write for the formula coefficients
  | ["seqbytes", seed, w, h, ri, hs, vs, nc] => do
    let seed ← nat? seed; let w ← nat? w; let h ← nat? h; let ri ← nat? ri; let hs ← nat? hs; let vs ← nat? vs; let nc ← nat? nc
    let comps := if nc == 1 then [(1, 1)] else [(hs, vs), (1, 1), (1, 1)]
    match scanBytes w h comps ri (c04Coef seed) with
    | none => some "unencodable"
    | some bs => some s!"{bs.length} {fnv bs}"
  -- seqfile seed w h ri hs vs nc : the whole baseline file libjpeg-turbo must write (jcmarker.c layout: SOI, JFIF APP0, one DQT per
  -- table, SOF0, one DHT per table in scan-component order, DRI, SOS, data, EOI) for quality 75 and the formula coefficients
  | ["seqfile", seed, w, h, ri, hs, vs, nc] => do
    let seed ← nat? seed; let w ← nat? w; let h ← nat? h; let ri ← nat? ri; let hs ← nat? hs; let vs ← nat? vs; let nc ← nat? nc
    let comps := if nc == 1 then [(1, 1)] else [(hs, vs), (1, 1), (1, 1)]
    let sc := LJT.DCT.qualityScaling 75
    let qs := [LJT.DCT.scaleTable Gen.Src.std_luminance_quant_tbl sc true, LJT.DCT.scaleTable Gen.Src.std_chrominance_quant_tbl sc true]
    let o : Opts := { q16 := false, joinTables := false, fill := false, driPos := 2, split := false, tblShift := 0, ri := ri, jfif := true, ljDummies := true }
    match encode o w h comps qs (c04Coef seed) with
    | none => some "unencodable"
    | some bs => some s!"{bs.length} {fnv bs}"
  | ["susp", _, _, hex] => do
    let bytes ← hexBytes? hex
    match decode bytes with
    | .error e => some s!"err {e}"
    | .ok r => some (t81Line r)
  | ["suspall", _, hex] => do
    let bytes ← hexBytes? hex
    match decode bytes with
    | .error e => some s!"err {e}"
    | .ok r => some (t81Line r)
  | ["t81c", _, hex] => do
    let bytes ← hexBytes? hex
    match decode bytes with
    | .error e => some s!"err {e}"
    | .ok r => some (t81Line r)
  | _ => none

end LJT.Ops
