import LJT.Ops.Util
import LJT.Model.ScanScript
namespace LJT.Ops
open LJT.ScanScript

def parseScans : List Int → List Scan
  | nc :: i0 :: i1 :: i2 :: i3 :: ss :: se :: ah :: al :: rest => ⟨nc, [i0, i1, i2, i3], ss, se, ah, al⟩ :: parseScans rest
  | _ => []

/-- `vscript <prec> <nc> <n> (<comps_in_scan> <i0> <i1> <i2> <i3> <Ss> <Se> <Ah> <Al>)*n` -/
def opC17 : List String → Option String
  | "vscript" :: prec :: nc :: _n :: rest => do
    let prec ← nat? prec
    let nc ← nat? nc
    let xs ← ints? rest
    let scans := parseScans xs
    match validateScript prec nc scans with
    | .ok m =>
      let dec := match m with
        | .progressive => (match decRun scans BitPos.init 0 with | some w => s!" dec {w}" | none => " dec bad")
        | _ => ""
      some (s!"ok {match m with | .sequential => "seq" | .progressive => "prog" | .lossless => "lossless"}" ++ dec)
    | .error (c, p) =>
      if c == Gen.JERR_MISSING_DATA then some s!"err {c}" else some s!"err {c} {p}"
  | _ => none

end LJT.Ops
