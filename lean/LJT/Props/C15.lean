import LJT.Model.Threads
/-! # C15 - independent instances may be used concurrently from different threads

The logical content as a theorem: when each operation touches only the instance it is applied
to, every interleaving gives every instance exactly the results, and leaves it in exactly the
state, that it gets when its operations run alone.  That the real library has no other shared
mutable state - no conflicting accesses between threads - is what ThreadSanitizer and the
thread-vs-alone differential of the harness observe. -/
namespace LJT.Props.C15
open LJT.Threads

variable {σ ρ α : Type}

/-- **Non-interference**: for every schedule, instance `i` ends in the state and sees the
results of running its own operations alone -/
theorem interleaving_equals_alone (f : Op σ ρ α) : ∀ (sched : List (Nat × α)) (g : Nat → σ) (i : Nat),
    ((runSys f g sched).1 i, proj i (runSys f g sched).2) = runAlone f (g i) (proj i sched) := by
  intro sched
  induction sched with
  | nil => intro g i; simp [runSys, proj, runAlone]
  | cons p t ih =>
    intro g i
    obtain ⟨j, a⟩ := p
    simp only [runSys, stepSys]
    by_cases hji : j = i
    · subst hji
      have := ih (fun k => if k = j then (f a (g j)).1 else g k) j
      simp only [if_true] at this
      simp only [proj, List.filter_cons, decide_true, if_true, List.map_cons, runAlone] at this ⊢
      rw [← this]
    · have := ih (fun k => if k = j then (f a (g j)).1 else g k) i
      have hne : ¬ (i = j) := fun h => hji h.symm
      simp only [hne, if_false] at this
      simp only [proj, List.filter_cons, hji, decide_false, Bool.false_eq_true, if_false] at this ⊢
      exact this

/-- two schedules with the same per-instance operation sequences are indistinguishable to
every instance (order-independence across threads) -/
theorem schedule_irrelevant (f : Op σ ρ α) (s1 s2 : List (Nat × α)) (g : Nat → σ) (i : Nat)
    (h : proj i s1 = proj i s2) :
    ((runSys f g s1).1 i, proj i (runSys f g s1).2) = ((runSys f g s2).1 i, proj i (runSys f g s2).2) := by
  rw [interleaving_equals_alone f s1 g i, interleaving_equals_alone f s2 g i, h]

/-- an error message (part of the result of the failing operation) therefore belongs to the
instance's own most recent failure: the last result instance `i` sees in any schedule is the
last result of running alone -/
theorem last_result_is_own (f : Op σ ρ α) (sched : List (Nat × α)) (g : Nat → σ) (i : Nat) :
    (proj i (runSys f g sched).2).getLast? = (runAlone f (g i) (proj i sched)).2.getLast? := by
  have := interleaving_equals_alone f sched g i
  rw [← this]

/-- non-vacuity: a counter per instance, two instances interleaved -/
example : let f : Op Nat Nat Nat := fun a s => (s + a, s + a)
    proj 1 (runSys f (fun _ => 0) [(1, 5), (2, 7), (1, 1), (2, 1)]).2 = [5, 6] := by decide

end LJT.Props.C15
