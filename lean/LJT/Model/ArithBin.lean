import LJT.Model.Arith
/-! Binarisation of DCT coefficients for arithmetic coding (T.81 F.1.4 / F.2.4, G.1.3 / G.2.3) as
pure functions, shared by both sides of the model.  The encoder side (src/jcarith.c `encode_mcu*`,
used by Model/ArithEnc.lean) turns coefficients into lists of binary decisions `(bin, value)`; the
decoder side (src/jdarith.c `decode_mcu*`, used by the independent reader Model/T81.lean) is written
against an abstract source of decisions `Src`, instantiated with the QM decoder `Arith.decode` in the
reader and with a plain list of decisions in `Proofs/ArithBin.lean`. -/
namespace LJT.ArithBin
open LJT.Arith (dcBase acBase fixedBin)

/-- a binary decision: statistics bin and value -/
abbrev Dn := Nat × Nat

/-- a source of decisions: given the bin, the next decision and the new state -/
structure Src (σ : Type) where
  next : σ → Nat → Nat × σ

/-- the QM decoder as a source -/
def qm : Src Arith.AS := ⟨Arith.decode⟩

/-! ### encoder side -/

/-- Figure F.8 / F.9 for a DC difference magnitude `v1 = |v| - 1`, first bin `st`: decisions and `m` -/
def dcMag (tbl st v1 : Nat) : List Dn × Nat :=
  if v1 = 0 then ([(st, 0)], 0)
  else
    let n := Nat.log2 v1
    let x1 := dcBase tbl + 20
    ((st, 1) :: ((List.range n).map (fun i => (x1 + i, 1)) ++
      ((x1 + n, 0) :: (List.range n).map (fun i => (x1 + n + 14, (v1 >>> (n - 1 - i)) % 2)))), 2 ^ n)

/-- Figure F.4: a DC difference with conditioning context `ctx`: decisions and the new context -/
def dcDiff (tbl ctx L U : Nat) (v : Int) : List Dn × Nat :=
  let st := dcBase tbl + ctx
  if v = 0 then ([(st, 0)], 0)
  else
    let sg := if v < 0 then 1 else 0
    let mg := dcMag tbl (st + 2 + sg) (v.natAbs - 1)
    ((st, 1) :: (st + 1, sg) :: mg.1,
     if mg.2 < (2 ^ L) / 2 then 0 else if mg.2 > (2 ^ U) / 2 then 12 + sg * 4 else 4 + sg * 4)

/-- sign and magnitude of a nonzero AC coefficient at zigzag position `k` whose bins start at `st`
(the decision "not zero" at `st + 1` included) -/
def acVal (tbl K k st : Nat) (neg : Bool) (av : Nat) : List Dn :=
  let st2 := st + 2
  let v1 := av - 1
  let hd : List Dn := [(st + 1, 1), (fixedBin, if neg then 1 else 0)]
  if v1 = 0 then hd ++ [(st2, 0)]
  else
    let n := Nat.log2 v1
    if n = 0 then hd ++ [(st2, 1), (st2, 0)]
    else
      let x := acBase tbl + (if k ≤ K then 189 else 217)
      hd ++ ((st2, 1) :: (st2, 1) :: ((List.range (n - 1)).map (fun i => (x + i, 1)) ++
        ((x + (n - 1), 0) :: (List.range n).map (fun i => (x + (n - 1) + 14, (v1 >>> (n - 1 - i)) % 2)))))

def acBin (tbl k : Nat) : Nat := acBase tbl + 3 * (k - 1)

/-- Figure F.5 (sequential and first-pass AC): the coefficients from zigzag position `k` to the end
of the band, each as (magnitude after the point transform, negative).  `started` = inside a zero run
(the end-of-block decision of the current symbol has been made) -/
def acF (tbl K : Nat) : Bool → Nat → List (Nat × Bool) → List Dn
  | _, _, [] => []
  | started, k, c :: t =>
    if !started && (c :: t).all (fun x => x.1 == 0) then [(acBin tbl k, 1)]
    else
      (if started then [] else [(acBin tbl k, 0)]) ++
        (if c.1 = 0 then (acBin tbl k + 1, 0) :: acF tbl K true (k + 1) t
         else acVal tbl K k (acBin tbl k) c.2 c.1 ++ acF tbl K false (k + 1) t)

/-- Figure G.10 (AC refinement): magnitude at level Al; history nonzero iff magnitude ≥ 2.  The
end-of-block decision is made only when no coefficient with history lies ahead (`k > kex`) -/
def acR (tbl : Nat) : Bool → Nat → List (Nat × Bool) → List Dn
  | _, _, [] => []
  | started, k, c :: t =>
    if !started && (c :: t).all (fun x => x.1 == 0) then [(acBin tbl k, 1)]
    else
      (if started || (c :: t).any (fun x => x.1 ≥ 2) then [] else [(acBin tbl k, 0)]) ++
        (if c.1 = 0 then (acBin tbl k + 1, 0) :: acR tbl true (k + 1) t
         else if c.1 ≥ 2 then (acBin tbl k + 2, c.1 % 2) :: acR tbl false (k + 1) t
         else (acBin tbl k + 1, 1) :: (fixedBin, if c.2 then 1 else 0) :: acR tbl false (k + 1) t)

/-! ### decoder side -/

variable {σ : Type}

/-- magnitude category: unary part starting at bin `st` -/
def magUnary (S : Src σ) : Nat → Nat → Nat → σ → Option (Nat × Nat × σ)
  | 0, _, _, _ => none
  | fuel + 1, m, st, s =>
    if (S.next s st).1 = 0 then some (m, st, (S.next s st).2)
    else if m * 2 = 0x8000 then none
    else magUnary S fuel (m * 2) (st + 1) (S.next s st).2

/-- the magnitude bits below the leading one, bin `st` -/
def magBits (S : Src σ) : Nat → Nat → Nat → Nat → σ → Nat × σ
  | 0, v, _, _, s => (v, s)
  | fuel + 1, v, m, st, s =>
    if m / 2 = 0 then (v, s)
    else magBits S fuel (if (S.next s st).1 = 1 then v ||| (m / 2) else v) (m / 2) st (S.next s st).2

/-- DC difference (F.2.4.1 as coded): the difference and the new context -/
def decDC (S : Src σ) (s : σ) (tbl ctx L U : Nat) : Option (Int × Nat × σ) :=
  let st := dcBase tbl + ctx
  let r0 := S.next s st
  if r0.1 = 0 then some (0, 0, r0.2) else
  let r1 := S.next r0.2 (st + 1)
  let sign := r1.1
  let st := st + 2 + sign
  let r2 := S.next r1.2 st
  let r := if r2.1 ≠ 0 then magUnary S 20 1 (dcBase tbl + 20) r2.2 else some (0, st, r2.2)
  match r with
  | none => none
  | some (m, st, s) =>
    let ctx' := if m < (2 ^ L) / 2 then 0 else if m > (2 ^ U) / 2 then 12 + sign * 4 else 4 + sign * 4
    let vb := magBits S 20 m m (st + 14) s
    let v : Int := (vb.1 : Int) + 1
    some (if sign = 1 then -v else v, ctx', vb.2)

/-- sign and magnitude of a nonzero AC coefficient -/
def decACval (S : Src σ) (s : σ) (tbl k K st : Nat) : Option (Int × σ) :=
  let r0 := S.next s fixedBin
  let sign := r0.1
  let st := st + 2
  let r1 := S.next r0.2 st
  let r :=
    if r1.1 ≠ 0 then
      let r2 := S.next r1.2 st
      if r2.1 ≠ 0 then magUnary S 20 2 (acBase tbl + (if k ≤ K then 189 else 217)) r2.2
      else some (1, st, r2.2)
    else some (0, st, r1.2)
  match r with
  | none => none
  | some (m, st, s) =>
    let vb := magBits S 20 m m (st + 14) s
    let v : Int := (vb.1 : Int) + 1
    some (if sign = 1 then -v else v, vb.2)

/-- `rem` coefficients of a band from zigzag position `k` (sequential / first pass): their values -/
def decF (S : Src σ) (tbl K : Nat) : Bool → Nat → Nat → σ → Option (List Int × σ)
  | _, _, 0, s => some ([], s)
  | started, k, rem + 1, s =>
    let st := acBin tbl k
    let r0 := if started then (0, s) else S.next s st
    if r0.1 = 1 then some (List.replicate (rem + 1) 0, r0.2)
    else
      let r1 := S.next r0.2 (st + 1)
      if r1.1 = 1 then
        match decACval S r1.2 tbl k K st with
        | none => none
        | some (v, s3) =>
          match decF S tbl K false (k + 1) rem s3 with
          | none => none
          | some (l, s4) => some (v :: l, s4)
      else if rem = 0 then none
      else
        match decF S tbl K true (k + 1) rem r1.2 with
        | none => none
        | some (l, s3) => some (0 :: l, s3)

/-- refinement of the band whose current values are `prev` (from zigzag position `k`), `p = 2^Al` -/
def decR (S : Src σ) (tbl : Nat) (p : Int) : Bool → Nat → List Int → σ → Option (List Int × σ)
  | _, _, [], s => some ([], s)
  | started, k, cur :: t, s =>
    let st := acBin tbl k
    let r0 := if !started && (cur :: t).all (· == 0) then S.next s st else (0, s)
    if r0.1 = 1 then some (cur :: t, r0.2)
    else if cur ≠ 0 then
      let r1 := S.next r0.2 (st + 2)
      match decR S tbl p false (k + 1) t r1.2 with
      | none => none
      | some (l, s') => some ((if r1.1 = 1 then (if cur < 0 then cur - p else cur + p) else cur) :: l, s')
    else
      let r1 := S.next r0.2 (st + 1)
      if r1.1 = 1 then
        let r2 := S.next r1.2 fixedBin
        match decR S tbl p false (k + 1) t r2.2 with
        | none => none
        | some (l, s') => some ((if r2.1 = 1 then -p else p) :: l, s')
      else if t.isEmpty then none
      else
        match decR S tbl p true (k + 1) t r1.2 with
        | none => none
        | some (l, s') => some (0 :: l, s')

end LJT.ArithBin
