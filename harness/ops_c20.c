/* C20 / C13(size clause) operations: plane geometry and buffer-size helpers;
 * YUV content equalities on the real code. */
#include "exec_common.h"

typedef unsigned __int128 u128;

static unsigned long long sat_u128(u128 v) { return v > (u128)ULLONG_MAX ? ULLONG_MAX : (unsigned long long)v; }

/* yuvgeom <width> <height> <align> <subsamp> <stride>
 * R: pw0 pw1 pw2 ph0 ph1 ph2 ps0 ps1 ps2 ybuf | legacy: tjPlaneWidth(1) tjPlaneHeight(1) tjBufSizeYUV2 tjPlaneSizeYUV(1)
 * O: the published closed forms, evaluated in 128-bit arithmetic */
static int op_yuvgeom(toks_t *t)
{
  int w = (int)tl(t, 1), h = (int)tl(t, 2), align = (int)tl(t, 3), ss = (int)tl(t, 4), stride = (int)tl(t, 5);
  int i, pw[3], ph[3]; size_t ps[3], ybuf;
  for (i = 0; i < 3; i++) {
    pw[i] = tj3YUVPlaneWidth(i, w, ss);
    ph[i] = tj3YUVPlaneHeight(i, h, ss);
    ps[i] = tj3YUVPlaneSize(i, w, stride, h, ss);
  }
  ybuf = tj3YUVBufSize(w, align, h, ss);
  printf("R %d %d %d %d %d %d %zu %zu %zu %zu | %d %d %lu %lu\n", pw[0], pw[1], pw[2], ph[0], ph[1], ph[2],
         ps[0], ps[1], ps[2], ybuf, tjPlaneWidth(1, w, ss), tjPlaneHeight(1, h, ss),
         tjBufSizeYUV2(w, align, h, ss), tjPlaneSizeYUV(1, w, stride, h, ss));
  /* oracle */
  if (ss >= 0 && ss < TJ_NUMSAMP && w >= 1 && h >= 1) {
    int nc = ss == TJSAMP_GRAY ? 1 : 3, bad = 0; const char *why = "";
    u128 mw = tjMCUWidth[ss] / 8, mh = tjMCUHeight[ss] / 8, tot = 0;
    int pow2 = align >= 1 && (align & (align - 1)) == 0, ovf = 0;
    for (i = 0; i < nc; i++) {
      u128 epw = ((u128)w + mw - 1) / mw * (i ? 1 : mw);
      u128 eph = ((u128)h + mh - 1) / mh * (i ? 1 : mh);
      u128 est, eps, ast;
      if (epw > INT_MAX) epw = 0;
      if (eph > INT_MAX) eph = 0;
      if ((u128)pw[i] != epw) { bad = 1; why = "plane-width"; }
      if ((u128)ph[i] != eph) { bad = 1; why = "plane-height"; }
      if (epw && (u128)pw[i] * (i ? mw : 1) < (u128)w) { bad = 1; why = "plane-does-not-cover-width"; }
      ast = stride == 0 ? epw : (stride < 0 ? (u128)(-(long long)stride) : (u128)stride);
      eps = (epw && eph) ? ast * (eph - 1) + epw : 0;
      if ((u128)ps[i] != eps) { bad = 1; why = "plane-size"; }
      if (pow2) {
        est = (epw + align - 1) / align * align;
        if (!epw || !eph || est > INT_MAX) ovf = 1;
        tot += est * eph;
      }
    }
    if (pow2) {
      if (ovf) tot = 0;
      if ((u128)ybuf != tot) { bad = 1; why = "yuv-buf-size-is-not-sum-of-planes"; }
    } else if (ybuf != 0) { bad = 1; why = "non-power-of-two-align-accepted"; }
    if (bad) printf("O fail yuvgeom %s\n", why); else printf("O ok\n");
  } else {
    int ssbad = !(ss >= 0 && ss < TJ_NUMSAMP);
    if (((w < 1 || ssbad) && (pw[0] || pw[1] || pw[2])) || ((h < 1 || ssbad) && (ph[0] || ph[1] || ph[2])) ||
        ps[0] || ps[1] || ps[2] || ybuf)
      printf("O fail yuvgeom invalid-argument-accepted\n");
    else printf("O ok\n");
  }
  return 1;
}

/* jbuf <width> <height> <subsamp>   R: tj3JPEGBufSize tjBufSize TJBUFSIZE */
static int op_jbuf(toks_t *t)
{
  int w = (int)tl(t, 1), h = (int)tl(t, 2), ss = (int)tl(t, 3);
  size_t a = tj3JPEGBufSize(w, h, ss);
  unsigned long b = tjBufSize(w, h, ss), c = TJBUFSIZE(w, h);
  printf("R %zu %lu %lu\n", a, b, c);
  if (w >= 1 && h >= 1 && ss >= -1 && ss < TJ_NUMSAMP) {
    int s2 = ss < 0 ? TJSAMP_444 : ss;
    u128 mw = tjMCUWidth[s2], mh = tjMCUHeight[s2];
    u128 csf = s2 == TJSAMP_GRAY ? 0 : 4 * 64 / (mw * mh);
    u128 e = (((u128)w + mw - 1) / mw * mw) * (((u128)h + mh - 1) / mh * mh) * (2 + csf) + 2048;
    if (e > (u128)ULLONG_MAX) e = 0;
    if ((u128)a != e) printf("O fail jbuf tj3JPEGBufSize=%zu expected %llu\n", a, (unsigned long long)e);
    else printf("O ok\n");
  } else {
    if (a) printf("O fail jbuf invalid-argument-accepted\n"); else printf("O ok\n");
  }
  return 1;
}

/* scaled <dim> : R: TJSCALED(dim, sf[i]) for the 16 factors, and jpeg_calc_output_dimensions */
static int op_scaled(toks_t *t)
{
  int dim = (int)tl(t, 1), n = 0, i, bad = 0;
  tjscalingfactor *sf = tj3GetScalingFactors(&n);
  printf("R");
  for (i = 0; i < n; i++) {
    int v = TJSCALED(dim, sf[i]);
    long long e = ((long long)dim * sf[i].num + sf[i].denom - 1) / sf[i].denom;
    printf(" %d", v);
    if (v != e) bad = 1;
  }
  printf("\n");
  if (bad) printf("O fail TJSCALED\n"); else printf("O ok\n");
  return 1;
}

static int dispatch_c20(toks_t *t)
{
  const char *op = t->tok[0];
  if (!strcmp(op, "yuvgeom")) return op_yuvgeom(t);
  if (!strcmp(op, "jbuf")) return op_jbuf(t);
  if (!strcmp(op, "scaled")) return op_scaled(t);
  return 0;
}
