import LJT.Proofs.Bits
import LJT.Proofs.SeqHuff
import LJT.Model.T81Enc
import LJT.Model.Arith
import LJT.Gen.Tables
import LJT.Props.C03
/-! # C04 - emitted streams conform to T.81; conforming streams decode to spec

Theorems about the independent T.81 layer (Model/T81.lean reader, Model/T81Enc.lean writer,
Model/Bits.lean framing).  A whole-stream inverse theorem is not proved; the parts below are,
and the composition is exercised in both directions against the real codec. -/
namespace LJT.Props.C04
open LJT.Bits LJT.T81 LJT.T81Enc

/-- **Interval framing is inverted exactly**: for every bit string, what the reader extracts
from the bytes of an entropy-coded interval (unstuffing, MSB-first unpacking) is the bit
string followed by fewer than eight 1-bits (B.1.1.5, F.1.2.3) -/
theorem interval_framing_roundtrip (bits : List Bool) :
    intervalBits (segmentBytes bits) = bits ++ List.replicate (padLen bits.length) true ∧ padLen bits.length < 8 := by
  refine ⟨?_, padLen_lt _⟩
  show segmentBits (segmentBytes bits) = _
  rw [segmentBits_segmentBytes]

/-- **No marker can appear inside entropy-coded data**: in stuffed data every 0xFF byte is
followed by 0x00 -/
theorem stuffed_data_has_no_marker : ∀ (bs : List Nat) (i : Nat), (stuff bs)[i]? = some 0xFF → (stuff bs)[i + 1]? = some 0x00
  | [], i, h => by simp [stuff] at h
  | b :: t, i, h => by
    unfold stuff at h ⊢
    by_cases hb : b = 0xFF
    · simp only [hb, if_true] at h ⊢
      match i with
      | 0 => simp
      | 1 => simp at h
      | j + 2 =>
        simp only [List.getElem?_cons_succ] at h ⊢
        exact stuffed_data_has_no_marker t j h
    · simp only [hb, if_false] at h ⊢
      match i with
      | 0 => simp at h; exact absurd h.symm (by omega)
      | j + 1 =>
        simp only [List.getElem?_cons_succ] at h ⊢
        exact stuffed_data_has_no_marker t j h

/-- **Marker segments carry their exact length** (B.1.1.4): the two bytes after the marker
code are the big-endian count of themselves plus the payload -/
theorem marker_length_exact (o : Opts) (m : Nat) (payload : List Nat) (h : payload.length + 2 < 65536) :
    ∃ pre, marker o m payload = pre ++ [0xFF, m] ++ be16 (payload.length + 2) ++ payload ∧
      (∀ x ∈ pre, x = 0xFF) ∧
      (be16 (payload.length + 2)).getD 0 0 * 256 + (be16 (payload.length + 2)).getD 1 0 = payload.length + 2 := by
  refine ⟨if o.fill then [0xFF, 0xFF] else [], by simp [marker], ?_, ?_⟩
  · intro x hx; split at hx <;> simp at hx <;> omega
  · simp [be16]; omega

/-- the block coder of the writer is inverted by the decoding procedure the reader runs
(restated from C03 for the reader/writer pair) -/
theorem block_coder_inverse (tdc tac : Huff.Tbl) (cdc cac : Huff.CDerived) (ddc dac : Huff.DDerived)
    (h1 : Huff.mkCDerived true false tdc = some cdc) (h2 : Huff.mkDDerived true false tdc = some ddc)
    (h3 : Huff.mkCDerived false false tac = some cac) (h4 : Huff.mkDDerived false false tac = some dac)
    (diff : Int) (ac : List Int) (hlen : ac.length = 63) (hd : diff.natAbs < 32768)
    (hac : ∀ v ∈ ac, v.natAbs < 32768) (bits rest : List Bool) (he : SeqHuff.encodeBlock cdc cac diff ac = some bits) :
    SeqHuff.decodeBlock ddc dac (bits ++ rest) = some (diff, ac, rest) :=
  LJT.SeqHuff.decodeBlock_encodeBlock tdc tac cdc cac ddc dac h1 h2 h3 h4 diff ac hlen hd hac bits rest he

/-- **A restart interval of a first-pass AC scan, from its bytes**: the bytes the encoder model
writes for the interval (`ProgHuff.acScanBytes`: events -> code bits -> 1-padding -> byte stuffing),
read back the way the reader does (unstuff, unpack, block procedure `n` times), give exactly the
blocks, no pending end-of-band run, and leave fewer than eight 1-bits - which is what the reader
then demands of the end of an interval -/
theorem ac_first_interval_from_bytes (t : Huff.Tbl) (c : Huff.CDerived) (dd : Huff.DDerived)
    (hc : Huff.mkCDerived false false t = some c) (hd : Huff.mkDDerived false false t = some dd)
    (L : Nat) (hL : 1 ≤ L) (blocks : List (List Int)) (hwf : ProgAC.WF L blocks)
    (henc : ∀ s, ProgAC.Ev.sym s ∈ ProgAC.firstEv 0 blocks → (Huff.encode c s).isSome = true) :
    ∃ k, k < 8 ∧
      ProgAC.firstDecBlocks (Huff.decode dd) L blocks.length 0
        (intervalBits (segmentBytes (ProgAC.evBits (C03.codeOf c) (ProgAC.firstEv 0 blocks)))) =
        .ok (blocks, 0, List.replicate k true) := by
  obtain ⟨h1, h2⟩ := interval_framing_roundtrip (ProgAC.evBits (C03.codeOf c) (ProgAC.firstEv 0 blocks))
  exact ⟨_, h2, by rw [h1]; exact C03.ac_first_scan_roundtrip t c dd hc hd L hL blocks hwf henc _⟩

/-- the same for a refinement scan -/
theorem ac_refine_interval_from_bytes (t : Huff.Tbl) (c : Huff.CDerived) (dd : Huff.DDerived)
    (hc : Huff.mkCDerived false false t = some c) (hd : Huff.mkDDerived false false t = some dd)
    (p : Int) (hp : 0 < p) (L : Nat) (hL : 1 ≤ L) (blocks : List (List (Nat × Bool))) (hwf : ∀ b ∈ blocks, b.length = L)
    (henc : ∀ s, ProgAC.Ev.sym s ∈ ProgAC.refEv 0 [] blocks → (Huff.encode c s).isSome = true) :
    ∃ k, k < 8 ∧
      ProgAC.refDecBlocks (Huff.decode dd) p (blocks.map (ProgAC.prevs p)) 0
        (intervalBits (segmentBytes (ProgAC.evBits (C03.codeOf c) (ProgAC.refEv 0 [] blocks)))) =
        .ok (blocks.map (ProgAC.news p), 0, List.replicate k true) := by
  obtain ⟨h1, h2⟩ := interval_framing_roundtrip (ProgAC.evBits (C03.codeOf c) (ProgAC.refEv 0 [] blocks))
  exact ⟨_, h2, by rw [h1]; exact C03.ac_refine_scan_roundtrip t c dd hc hd p hp L hL blocks hwf henc _⟩

/-- **The probability estimation table of the arithmetic coder is Table D.3**: the table compiled
into the library (regenerated on every run) equals, entry by entry, the packed form of the
specification literal the models use -/
theorem qm_table_is_table_D3 : Gen.aritab = Arith.qmTable := by decide

/-- non-vacuity: a stuffed 0xFF and an unstuffed byte -/
example : stuff [0xFF, 0x12] = [0xFF, 0x00, 0x12] ∧ intervalBits (segmentBytes [true, false, true]) = [true, false, true, true, true, true, true, true] := by
  decide

end LJT.Props.C04
