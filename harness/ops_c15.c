/* C15: independent instances may be used concurrently from different threads */
#include "exec_common.h"
#include <pthread.h>
#include <unistd.h>

#define C15_MAXT 16
#define C15_MAXIT 400
typedef struct {
  unsigned char *base, *prog, *icc; size_t nbase, nprog, nicc; unsigned char img[40 * 32 * 3];
} c15_mat;
typedef struct { int id, iters; unsigned long long seed; c15_mat *m; unsigned long long dig[C15_MAXIT]; int bad; char why[160]; } c15_thr;

static unsigned long long c15_h(const void *p, size_t n, unsigned long long h)
{
  const unsigned char *b = (const unsigned char *)p; size_t i;
  for (i = 0; i < n; i++) { h ^= b[i]; h *= 1099511628211ULL; }
  return h;
}

/* libjpeg API: 1-pass colour quantisation into a caller-chosen component order */
static unsigned long long c15_quant(const unsigned char *jp, size_t n, int bgr, int ncolors)
{
  struct jpeg_decompress_struct d; my_err_t e; unsigned long long h = 14695981039346656037ULL; unsigned char row[64 * 4]; int i;
  d.err = my_err_init(&e);
  jpeg_create_decompress(&d);
  if (setjmp(e.jb)) { jpeg_destroy_decompress(&d); return 1; }
  jpeg_mem_src(&d, jp, n);
  jpeg_read_header(&d, TRUE);
  d.out_color_space = bgr ? JCS_EXT_BGR : JCS_RGB;
  d.quantize_colors = TRUE; d.two_pass_quantize = FALSE; d.desired_number_of_colors = ncolors; d.dither_mode = JDITHER_NONE;
  jpeg_start_decompress(&d);
  for (i = 0; i < d.out_color_components; i++) h = c15_h(d.colormap[i], (size_t)d.actual_number_of_colors, h);
  while (d.output_scanline < d.output_height) { JSAMPROW rp = row; jpeg_read_scanlines(&d, &rp, 1); h = c15_h(row, d.output_width, h); }
  jpeg_finish_decompress(&d);
  jpeg_destroy_decompress(&d);
  return h;
}

/* one operation of thread `id`, iteration `it`; returns a digest of everything the caller can observe */
static unsigned long long c15_one(c15_thr *t, int it)
{
  unsigned long long rs = c03_mix(t->seed + (unsigned long long)t->id * 1000003ULL + (unsigned long long)it), h = 14695981039346656037ULL;
#define R15(m) ((int)((rs = c03_mix(rs)) % (unsigned long long)(m)))
  int k = R15(10); static const int subs[6] = { TJSAMP_444, TJSAMP_422, TJSAMP_420, TJSAMP_GRAY, TJSAMP_440, TJSAMP_411 };
  unsigned char out[40 * 32 * 4 * 4 + 64]; unsigned char *jp = NULL; size_t jn = 0; c15_mat *m = t->m;
  switch (k) {
  case 0: case 1: {  /* compress with thread-dependent settings */
    tjhandle hc = tj3Init(TJINIT_COMPRESS); int rc;
    tj3Set(hc, TJPARAM_QUALITY, 1 + R15(100)); tj3Set(hc, TJPARAM_SUBSAMP, subs[R15(6)]); tj3Set(hc, TJPARAM_PROGRESSIVE, R15(2)); tj3Set(hc, TJPARAM_OPTIMIZE, R15(2)); tj3Set(hc, TJPARAM_FASTDCT, R15(2));
    if (R15(4) == 0) tj3Set(hc, TJPARAM_ARITHMETIC, 1);
    rc = tj3Compress8(hc, m->img, 40, 0, 32, TJPF_RGB, &jp, &jn);
    h = rc == 0 ? c15_h(jp, jn, h) : c15_h(tj3GetErrorStr(hc), strlen(tj3GetErrorStr(hc)), h);
    tj3Free(jp); tj3Destroy(hc); break; }
  case 2: case 3: {  /* decompress a progressive image under a thread-dependent scan limit: the even threads' limit is too low */
    tjhandle hd = tj3Init(TJINIT_DECOMPRESS); int lim = (t->id % 2 == 0) ? 3 + R15(4) : 50 + t->id, rc; const char *es;
    tj3Set(hd, TJPARAM_SCANLIMIT, lim); tj3Set(hd, TJPARAM_FASTUPSAMPLE, R15(2));
    rc = tj3Decompress8(hd, m->prog, m->nprog, out, 0, R15(2) ? TJPF_RGB : TJPF_BGRX);
    es = tj3GetErrorStr(hd);
    h = rc == 0 ? c15_h(out, 40 * 32 * 3, h) : c15_h(es, strlen(es), h);
    /* the message must be this instance's own: it names this instance's limit */
    if (rc < 0) { char want[64]; snprintf(want, sizeof(want), "more than %d scans", lim); if (!strstr(es, want) && !t->bad) { t->bad = 1; snprintf(t->why, sizeof(t->why), "thread %d (scan limit %d) got the error string '%.80s'", t->id, lim, es); } }
    else if (t->id % 2 == 0 && !t->bad) { t->bad = 1; snprintf(t->why, sizeof(t->why), "thread %d: 10-scan image accepted under scan limit %d", t->id, lim); }
    tj3Destroy(hd); break; }
  case 4: {  /* 1-pass colour quantisation, component order depends on the thread */
    h = c15_quant(m->base, m->nbase, t->id % 2, 20 + (t->id % 3) * 7); break; }
  case 5: {  /* a failing call whose message identifies the thread */
    tjhandle hd = tj3Init(TJINIT_DECOMPRESS); int rc; const char *es;
    if (t->id % 3 == 0) rc = tj3Decompress8(hd, m->base, 20, out, 0, TJPF_RGB);                 /* truncated */
    else if (t->id % 3 == 1) rc = tj3Decompress8(hd, NULL, 10, out, 0, TJPF_RGB);               /* invalid argument */
    else { tjscalingfactor f = { 3, 7 }; rc = tj3SetScalingFactor(hd, f); }                       /* unsupported scaling factor */
    es = tj3GetErrorStr(hd);
    h = c15_h(es, strlen(es), h) + (unsigned long long)(rc + 7);
    { const char *want = t->id % 3 == 0 ? "" : t->id % 3 == 1 ? "Invalid argument" : "Unsupported scaling factor";
      if (!strstr(es, want) && !t->bad) { t->bad = 1; snprintf(t->why, sizeof(t->why), "thread %d expected '%s' in its error string, got '%.80s'", t->id, want, es); } }
    tj3Destroy(hd); break; }
  case 6: {  /* transform */
    tjhandle hx = tj3Init(TJINIT_TRANSFORM); tjtransform xf; unsigned char *d2 = NULL; size_t n2 = 0; int rc;
    memset(&xf, 0, sizeof(xf)); xf.op = R15(8); xf.options = TJXOPT_TRIM | (R15(2) ? TJXOPT_PROGRESSIVE : 0);
    tj3Set(hx, TJPARAM_SCANLIMIT, 100 + t->id);
    rc = tj3Transform(hx, R15(2) ? m->base : m->prog, R15(2) ? m->nbase : m->nprog, 1, &d2, &n2, &xf);
    h = rc == 0 ? c15_h(d2, n2, h) : c15_h(tj3GetErrorStr(hx), strlen(tj3GetErrorStr(hx)), h);
    tj3Free(d2); tj3Destroy(hx); break; }
  case 7: {  /* instance-less helpers */
    int nsf, w = 1 + R15(500), hh = 1 + R15(500), ss = R15(6); tjscalingfactor *sf = tj3GetScalingFactors(&nsf); void *p = tj3Alloc((size_t)(1 + R15(4000)));
    h ^= (unsigned long long)tj3JPEGBufSize(w, hh, ss) * 31ULL + (unsigned long long)tj3YUVBufSize(w, 1 << R15(4), hh, ss) * 17ULL + (unsigned long long)tj3YUVPlaneWidth(R15(3), w, ss) + (unsigned long long)tj3YUVPlaneHeight(R15(3), hh, ss) * 3ULL + (unsigned long long)(sf[R15(nsf)].num * 100 + nsf);
    tj3Free(p); break; }
  case 8: {  /* decompress to YUV and with scaling */
    tjhandle hd = tj3Init(TJINIT_DECOMPRESS); int nsf, rc; tjscalingfactor *sf = tj3GetScalingFactors(&nsf); tjscalingfactor f = sf[R15(nsf)];
    tj3DecompressHeader(hd, m->icc, m->nicc); tj3SetScalingFactor(hd, f); tj3Set(hd, TJPARAM_FASTDCT, R15(2));
    memset(out, 0, sizeof(out));
    rc = tj3Decompress8(hd, m->icc, m->nicc, out, 0, TJPF_RGB);
    h = rc == 0 ? c15_h(out, (size_t)TJSCALED(40, f) * TJSCALED(32, f) * 3, h) : 5;
    tj3Destroy(hd); break; }
  default: {  /* 12-bit lossless round trip */
    tjhandle hc = tj3Init(TJINIT_COMPRESS); short img12[20 * 10 * 3]; int i, rc; for (i = 0; i < 600; i++) img12[i] = (short)(c03_mix(rs + (unsigned long long)i) % 4096ULL);
    tj3Set(hc, TJPARAM_PRECISION, 12); tj3Set(hc, TJPARAM_LOSSLESS, 1); tj3Set(hc, TJPARAM_LOSSLESSPSV, 1 + R15(7));
    rc = tj3Compress12(hc, img12, 20, 0, 10, TJPF_RGB, &jp, &jn);
    h = rc == 0 ? c15_h(jp, jn, h) : 9;
    tj3Free(jp); tj3Destroy(hc); break; }
  }
  return h;
}
static void c15_materials(c15_mat *m, unsigned long long seed)
{
  int i; tjhandle hc;
  for (i = 0; i < (int)sizeof(m->img); i++) m->img[i] = (unsigned char)(c03_mix(seed + (unsigned long long)(i / 3)) % 256ULL);
  hc = tj3Init(TJINIT_COMPRESS); tj3Set(hc, TJPARAM_QUALITY, 80); tj3Set(hc, TJPARAM_SUBSAMP, TJSAMP_420);
  m->base = NULL; tj3Compress8(hc, m->img, 40, 0, 32, TJPF_RGB, &m->base, &m->nbase);
  tj3Set(hc, TJPARAM_PROGRESSIVE, 1); m->prog = NULL; tj3Compress8(hc, m->img, 40, 0, 32, TJPF_RGB, &m->prog, &m->nprog);
  tj3Set(hc, TJPARAM_PROGRESSIVE, 0); { static unsigned char prof[500]; tj3SetICCProfile(hc, prof, sizeof(prof)); } m->icc = NULL; tj3Compress8(hc, m->img, 40, 0, 32, TJPF_RGB, &m->icc, &m->nicc);
  tj3Destroy(hc);
}
static int c15_own = 0;   /* threads-first mode: every thread makes its own materials, so the first use of the library in the process is concurrent */
static c15_mat c15_mats[C15_MAXT];
static void *c15_main(void *arg)
{
  c15_thr *t = (c15_thr *)arg; int i;
  if (c15_own) { c15_materials(&c15_mats[t->id], t->seed); t->m = &c15_mats[t->id]; }
  for (i = 0; i < t->iters; i++) t->dig[i] = c15_one(t, i);
  return NULL;
}

/* thr nthreads seed iters */
static int c15_thr_op(toks_t *t)
{
  int nt = (int)tl(t, 1), iters = (int)tl(t, 3), i, j; unsigned long long seed = (unsigned long long)tll(t, 2); static c15_thr th[C15_MAXT], ref; static c15_mat m; pthread_t pt[C15_MAXT]; tjhandle hc; const char *bad = NULL; static char msg[300];
  if (nt > C15_MAXT) nt = C15_MAXT; if (iters > C15_MAXIT) iters = C15_MAXIT;
  (void)hc;
  if (!strcmp(t->tok[0], "thr0")) {
    /* run `thr1` in a fresh process: there the very first use of the library (one-time initialisations included) happens in
       several threads at once; the child's verdict, or its death (sanitizer report), is relayed */
    char self[512], cmd[900], line[600], last[600] = ""; ssize_t k = readlink("/proc/self/exe", self, sizeof(self) - 1); FILE *f; int st, gotO = 0;
    if (k <= 0) { printf("R skip noself\n"); return 1; }
    self[k] = 0;
    snprintf(cmd, sizeof(cmd), "printf 'thr1 %d %llu %d\\n' | timeout -s KILL 25 '%s' 2>&1", nt, seed, iters, self);
    f = popen(cmd, "r");
    if (!f) { printf("R skip nopopen\n"); return 1; }
    printf("R skip fresh process, %d threads x %d\n", nt, iters);
    while (fgets(line, sizeof(line), f)) {
      if (!strncmp(line, "O ", 2) && !gotO) { fputs(line, stdout); gotO = 1; }
      else if (strstr(line, "WARNING: ThreadSanitizer") || strstr(line, "ERROR: AddressSanitizer") || strstr(line, "runtime error")) { strncpy(last, line, sizeof(last) - 1); }
    }
    st = pclose(f);
    if (!gotO) { char *nl = strchr(last, '\n'); if (nl) *nl = 0; printf("O fail thr: fresh process with concurrent first use of the library died (status %d): %s\n", st, last[0] ? last : "no verdict"); }
    else if (last[0] && gotO) { /* verdict printed, but a report appeared as well */ }
    return 1;
  }
  c15_own = !strcmp(t->tok[0], "thr1");
  if (!c15_own) c15_materials(&m, seed);
  for (i = 0; i < nt; i++) { memset(&th[i], 0, sizeof(th[i])); th[i].id = i; th[i].iters = iters; th[i].seed = seed; th[i].m = &m; }
  for (i = 0; i < nt; i++) pthread_create(&pt[i], NULL, c15_main, &th[i]);
  for (i = 0; i < nt; i++) pthread_join(pt[i], NULL);
  if (c15_own) c15_materials(&m, seed);
  /* the same operations, one thread at a time */
  for (i = 0; i < nt && !bad; i++) {
    if (th[i].bad) { bad = th[i].why; break; }
    memset(&ref, 0, sizeof(ref)); ref.id = i; ref.iters = iters; ref.seed = seed; ref.m = &m;
    for (j = 0; j < iters; j++) {
      unsigned long long d = c15_one(&ref, j);
      if (d != th[i].dig[j]) { snprintf(msg, sizeof(msg), "thread %d operation %d gave digest %llu concurrently and %llu alone", i, j, th[i].dig[j], d); bad = msg; break; }
    }
  }
  printf("R skip %d threads x %d\n", nt, iters);
  if (bad) printf("O fail thr: %s\n", bad); else printf("O ok\n");
  tj3Free(m.base); tj3Free(m.prog); tj3Free(m.icc);
  return 1;
}


/* thrh nthreads seed iters : instances are created by ONE thread (the main thread, and in a second phase by the neighbouring worker) and
 * then used by another - never by two threads at once.  Every worker, and the creating thread on an instance of its own at the same
 * time, makes calls that fail inside the libjpeg layer with a message that names the caller ("Not a JPEG file: starts with 0x.. 0x.."
 * with bytes derived from the thread and the iteration), and calls that succeed; the error string retrieved for the instance and for the
 * thread must be the caller's own most recent failure. */
typedef struct { int id, iters, phase; unsigned long long seed; tjhandle hd, hc, made; pthread_barrier_t *bar; tjhandle *ring; int nt; int bad; char why[200]; } c15_hthr;
static void c15_fail_check(c15_hthr *t, tjhandle hd, tjhandle hc, int it, int who)
{
  unsigned char junk[64]; unsigned char small[16]; unsigned char *sp = small; size_t sn = sizeof(small); char want[64]; const char *es, *eg; int rc, i;
  unsigned char b0 = (unsigned char)(0x20 + who * 5 + (it % 5)), b1 = (unsigned char)(0x21 + (it * 7 + who) % 90);
  static const unsigned char px[8 * 8 * 3] = { 1, 200, 3, 90, 5, 60 };
  if (b0 == 0xFF) b0 = 0x7E;
  for (i = 0; i < (int)sizeof(junk); i++) junk[i] = (unsigned char)(i * 3 + who);
  junk[0] = b0; junk[1] = b1;
  rc = tj3DecompressHeader(hd, junk, sizeof(junk));
  es = tj3GetErrorStr(hd); eg = tj3GetErrorStr(NULL);
  snprintf(want, sizeof(want), "starts with 0x%02x 0x%02x", b0, b1);
  if (!t->bad && (rc != -1 || !strstr(es, want) || !strstr(eg, want))) {
    t->bad = 1; snprintf(t->why, sizeof(t->why), "thread %d phase %d iteration %d: header of a non-JPEG buffer (%s): rc %d, instance error string '%.60s', thread error string '%.60s'", who, t->phase, it, want, rc, es, eg);
  }
  if (hc && (it & 1)) {
    tj3Set(hc, TJPARAM_NOREALLOC, 1); tj3Set(hc, TJPARAM_QUALITY, 90); tj3Set(hc, TJPARAM_SUBSAMP, TJSAMP_444);
    rc = tj3Compress8(hc, px, 8, 0, 8, TJPF_RGB, &sp, &sn);
    es = tj3GetErrorStr(hc);
    if (!t->bad && (rc != -1 || strstr(es, "No error") || strstr(es, "starts with"))) {
      t->bad = 1; snprintf(t->why, sizeof(t->why), "thread %d phase %d iteration %d: compression into a 16-byte buffer without reallocation: rc %d, error string '%.80s'", who, t->phase, it, rc, es);
    }
  }
}
static void *c15_hmain(void *arg)
{
  c15_hthr *t = (c15_hthr *)arg; int i;
  t->phase = 1;
  for (i = 0; i < t->iters; i++) c15_fail_check(t, t->hd, t->hc, i, t->id);
  /* phase 2: every worker creates an instance, the next worker uses it */
  t->made = tj3Init(TJINIT_DECOMPRESS); t->ring[t->id] = t->made;
  pthread_barrier_wait(t->bar);
  t->phase = 2;
  for (i = 0; i < t->iters; i++) c15_fail_check(t, t->ring[(t->id + 1) % t->nt], NULL, i, t->id);
  pthread_barrier_wait(t->bar);
  tj3Destroy(t->made);
  return NULL;
}
static int c15_thrh_op(toks_t *t)
{
  int nt = (int)tl(t, 1), iters = (int)tl(t, 3), i; unsigned long long seed = (unsigned long long)tll(t, 2); static c15_hthr th[C15_MAXT + 1]; pthread_t pt[C15_MAXT]; pthread_barrier_t bar; tjhandle ring[C15_MAXT]; const char *bad = NULL;
  if (nt > C15_MAXT) nt = C15_MAXT; if (nt < 2) nt = 2; if (iters > C15_MAXIT) iters = C15_MAXIT;
  pthread_barrier_init(&bar, NULL, (unsigned)nt);
  for (i = 0; i <= nt; i++) { memset(&th[i], 0, sizeof(th[i])); th[i].id = i; th[i].iters = iters; th[i].seed = seed; th[i].bar = &bar; th[i].ring = ring; th[i].nt = nt;
    th[i].hd = tj3Init((i % 3 == 2) ? TJINIT_TRANSFORM : TJINIT_DECOMPRESS); th[i].hc = (i % 3 == 2) ? th[i].hd : tj3Init(TJINIT_COMPRESS); }
  for (i = 0; i < nt; i++) pthread_create(&pt[i], NULL, c15_hmain, &th[i]);
  /* the creating thread keeps failing on an instance of its own meanwhile */
  th[nt].phase = 0;
  for (i = 0; i < iters * 2; i++) c15_fail_check(&th[nt], th[nt].hd, th[nt].hc, i, nt);
  for (i = 0; i < nt; i++) pthread_join(pt[i], NULL);
  for (i = 0; i <= nt; i++) { if (th[i].bad && !bad) bad = th[i].why; if (th[i].hc != th[i].hd) tj3Destroy(th[i].hc); tj3Destroy(th[i].hd); }
  pthread_barrier_destroy(&bar);
  printf("R skip handoff %d threads x %d\n", nt, iters);
  if (bad) printf("O fail thrh: %s\n", bad); else printf("O ok\n");
  return 1;
}

static int dispatch_c15(toks_t *t)
{
  if (!strcmp(t->tok[0], "thrh") && t->n >= 4) return c15_thrh_op(t);
  if ((!strcmp(t->tok[0], "thr") || !strcmp(t->tok[0], "thr0") || !strcmp(t->tok[0], "thr1")) && t->n >= 4) return c15_thr_op(t);
  return 0;
}
