import LJT.Proofs.Robust
/-! # C17 - the compressor never crashes or emits bad output for any parameter combination

The decision logic that can be stated on the model: the size bound that keeps
`encode_one_block` inside its local buffer, and the agreement of the two Huffman table
builders on what they accept.  Everything else of this property is explored on the real
library (harness `cparam` / `xcoef`). -/
namespace LJT.Props.C17
open LJT.Huff LJT.SeqHuff

/-- **No block overruns the encoder's local buffer**: for every valid DC/AC table pair, every
DC difference and every 63 AC coefficients below 2^15 in magnitude (all that 8- and 12-bit
data and direct coefficient input can present once the range checks passed), the bytes the
block can produce - counting up to 63 bits already pending in the bit buffer and assuming the
worst case that every byte is 0xFF and gets a stuffed zero - fit `BUFSIZE` of src/jchuff.c as
generated from the working tree. -/
theorem block_fits_local_buffer (tdc tac : Tbl) (cdc cac : CDerived)
    (h1 : mkCDerived true false tdc = some cdc) (h3 : mkCDerived false false tac = some cac)
    (diff : Int) (ac : List Int) (hlen : ac.length = 63) (hd : diff.natAbs < 32768)
    (hac : ∀ v ∈ ac, v.natAbs < 32768) (bits : List Bool) (he : encodeBlock cdc cac diff ac = some bits)
    (pending : Nat) (hp : pending ≤ 63) :
    2 * ((pending + bits.length) / 8) ≤ Gen.Src.jchuff_BUFSIZE :=
  block_fits_buffer tdc tac cdc cac h1 h3 diff ac hlen hd hac bits he pending hp

/-- every code word of an accepted table has at most 16 bits -/
theorem code_length_le_16 (isDC lossless : Bool) (t : Tbl) (c : CDerived) (hc : mkCDerived isDC lossless t = some c)
    (s : Nat) (bs : List Bool) (he : encode c s = some bs) : bs.length ≤ 16 :=
  encode_length_le isDC lossless t c hc s bs he

/-- **A table the compressor accepts is a table the decompressor accepts** (so a stream is
never written with a DHT its own reader refuses) -/
theorem compressor_tables_are_decodable (isDC lossless : Bool) (t : Tbl) (c : CDerived)
    (hc : mkCDerived isDC lossless t = some c) : (mkDDerived isDC lossless t).isSome = true :=
  c_accepts_d_accepts isDC lossless t c hc

/-- non-vacuity: the bound is tight enough to matter - 63 pending bits and 1984 block bits
need 510 of the 512 bytes -/
example : 2 * ((63 + 31 * 64) / 8) = 510 ∧ Gen.Src.jchuff_BUFSIZE = 512 := by decide

end LJT.Props.C17
