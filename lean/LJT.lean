import LJT.Props.C19
import LJT.Props.C20
import LJT.Ops.C19
