import LJT.Model.ICC
namespace LJT.ICC

theorem chunks_flatten : ∀ (f : Nat) (p : List Nat), p.length ≤ f → (chunks f p).flatten = p := by
  intro f
  induction f with
  | zero => intro p h; cases p <;> simp_all [chunks]
  | succ f ih =>
    intro p h
    cases p with
    | nil => simp [chunks]
    | cons b p =>
      simp only [chunks, List.flatten_cons]
      rw [ih]
      · exact List.take_append_drop _ _
      · simp only [List.length_drop, List.length_cons] at h ⊢
        unfold MAX_DATA MAX_BYTES_IN_MARKER ICC_OVERHEAD_LEN; omega

theorem chunks_length : ∀ (f : Nat) (p : List Nat), p.length ≤ f →
    (chunks f p).length = (p.length + MAX_DATA - 1) / MAX_DATA := by
  intro f
  induction f with
  | zero => intro p h; cases p <;> simp_all [chunks, MAX_DATA, MAX_BYTES_IN_MARKER, ICC_OVERHEAD_LEN]
  | succ f ih =>
    intro p h
    cases p with
    | nil => simp [chunks, MAX_DATA, MAX_BYTES_IN_MARKER, ICC_OVERHEAD_LEN]
    | cons b p =>
      simp only [chunks, List.length_cons]
      rw [ih]
      · simp only [List.length_drop, List.length_cons]
        unfold MAX_DATA MAX_BYTES_IN_MARKER ICC_OVERHEAD_LEN
        simp only [Nat.reduceSub]
        by_cases hle : p.length + 1 ≤ 65519
        · have h1 : p.length + 1 - 65519 = 0 := by omega
          rw [h1]
          have : (p.length + 1 + 65519 - 1) / 65519 = 1 := by
            apply Nat.div_eq_of_lt_le <;> omega
          rw [this]
        · have h2 : p.length + 1 + 65519 - 1 = (p.length + 1 - 65519 + 65519 - 1) + 65519 := by omega
          rw [h2, Nat.add_div_right _ (by omega)]
      · simp only [List.length_drop, List.length_cons] at h ⊢
        unfold MAX_DATA MAX_BYTES_IN_MARKER ICC_OVERHEAD_LEN; omega

theorem numMarkers_eq (len : Nat) : numMarkers len = (len + MAX_DATA - 1) / MAX_DATA := by
  unfold numMarkers MAX_DATA MAX_BYTES_IN_MARKER ICC_OVERHEAD_LEN
  simp only [Nat.reduceSub]
  have h1 := Nat.div_add_mod len 65519
  have h2 := Nat.mod_lt len (by omega : 0 < 65519)
  split
  · -- remainder non-zero
    rename_i hne
    have : len % 65519 ≠ 0 := by
      intro h0; apply hne; rw [h0] at h1; omega
    apply Eq.symm
    apply Nat.div_eq_of_lt_le <;> omega
  · rename_i he
    have he' : len / 65519 * 65519 = len := by omega
    apply Eq.symm
    apply Nat.div_eq_of_lt_le <;> omega

end LJT.ICC

namespace LJT.ICC

theorem mk_isICC (n k : Nat) (c : List Nat) : isICC (mkMarker n k c) = true := by
  simp [isICC, mkMarker, ICC_MARKER, ICC_OVERHEAD_LEN, magic]

theorem mk_seqNo (n k : Nat) (c : List Nat) (hk : k + 1 < 256) : seqNo (mkMarker n k c) = k + 1 := by
  simp [seqNo, mkMarker, magic, Nat.mod_eq_of_lt hk]

theorem mk_count (n k : Nat) (c : List Nat) (hn : n < 256) : count (mkMarker n k c) = n := by
  simp [count, mkMarker, magic, Nat.mod_eq_of_lt hn]

theorem mk_payload (n k : Nat) (c : List Nat) : payload (mkMarker n k c) = c := by
  simp [payload, mkMarker, magic, ICC_OVERHEAD_LEN]

theorem mem_mkMarkers (n : Nat) : ∀ (L : List (List Nat)) (k : Nat) (m : Nat × List Nat),
    m ∈ mkMarkers n k L → ∃ j, ∃ h : j < L.length, m = mkMarker n (k + j) L[j] := by
  intro L
  induction L with
  | nil => intro k m h; simp [mkMarkers] at h
  | cons c cs ih =>
    intro k m h
    simp only [mkMarkers, List.mem_cons] at h
    rcases h with rfl | h
    · exact ⟨0, by simp, by simp⟩
    · obtain ⟨j, hj, e⟩ := ih (k + 1) m h
      refine ⟨j + 1, by simpa using hj, ?_⟩
      simp only [List.getElem_cons_succ]
      rw [e]; congr 1; omega

theorem find_mkMarkers (n : Nat) : ∀ (L : List (List Nat)) (k j : Nat) (hj : j < L.length),
    k + L.length < 256 →
    (mkMarkers n k L).find? (fun m => seqNo m == k + j + 1) = some (mkMarker n (k + j) L[j]) := by
  intro L
  induction L with
  | nil => intro k j hj; simp at hj
  | cons c cs ih =>
    intro k j hj hk
    simp only [List.length_cons] at hj hk
    cases j with
    | zero =>
      simp only [mkMarkers, Nat.add_zero, List.getElem_cons_zero]
      rw [List.find?_cons_of_pos]
      simp [mk_seqNo n k c (by omega)]
    | succ j =>
      simp only [mkMarkers, List.getElem_cons_succ]
      rw [List.find?_cons_of_neg]
      · have := ih (k + 1) j (by omega) (by omega)
        rw [show k + (j + 1) + 1 = k + 1 + j + 1 by omega, show k + (j + 1) = k + 1 + j by omega]
        exact this
      · simp [mk_seqNo n k c (by omega)]

theorem seq_mkMarkers (n : Nat) : ∀ (L : List (List Nat)) (k : Nat), k + L.length < 256 →
    (mkMarkers n k L).map seqNo = List.range' (k + 1) L.length := by
  intro L
  induction L with
  | nil => intro k _; simp [mkMarkers]
  | cons c cs ih =>
    intro k hk
    simp only [List.length_cons] at hk
    simp only [mkMarkers, List.map_cons, List.length_cons, List.range'_succ]
    rw [mk_seqNo n k c (by omega), ih (k + 1) (by omega)]

theorem filter_mkMarkers (n : Nat) : ∀ (L : List (List Nat)) (k : Nat),
    (mkMarkers n k L).filter isICC = mkMarkers n k L := by
  intro L k
  apply List.filter_eq_self.2
  intro m hm
  obtain ⟨j, _, e⟩ := mem_mkMarkers n L k m hm
  rw [e]; exact mk_isICC _ _ _

theorem flatMap_getElem (L : List (List Nat)) :
    (List.range L.length).flatMap (fun i => L.getD i []) = L.flatten := by
  induction L with
  | nil => simp
  | cons c cs ih =>
    rw [List.length_cons, List.range_succ_eq_map, List.flatMap_cons, List.flatMap_map]
    simp only [List.getD_cons_zero, List.flatten_cons]
    congr 1

end LJT.ICC

namespace LJT.ICC

theorem find_unique {α : Type} (key : α → Nat) : ∀ (l : List α) (m : α), (l.map key).Nodup → m ∈ l →
    l.find? (fun x => key x == key m) = some m := by
  intro l
  induction l with
  | nil => intro m _ h; simp at h
  | cons a l ih =>
    intro m hnd hm
    simp only [List.map_cons, List.nodup_cons] at hnd
    rcases List.mem_cons.1 hm with rfl | hm'
    · simp
    · have hne : key a ≠ key m := by
        intro e; apply hnd.1; rw [e]; exact List.mem_map_of_mem hm'
      rw [List.find?_cons_of_neg (by simpa using hne)]
      exact ih m hnd.2 hm'

/-- the core of the round trip, for any arrangement of the written markers among others -/
theorem readICC_of_perm (p : List Nat) (h1 : 1 ≤ p.length) (h2 : p.length ≤ 255 * 65519)
    (ms : List (Nat × List Nat)) (hperm : (ms.filter isICC).Perm (writeICC p)) :
    readICC ms = some p := by
  -- the chunk list and its properties
  obtain ⟨L, hL⟩ : ∃ L, L = chunks p.length p := ⟨_, rfl⟩
  have hflat : L.flatten = p := by rw [hL]; exact chunks_flatten _ _ (Nat.le_refl _)
  have hn : numMarkers p.length = L.length := by
    rw [numMarkers_eq, hL, chunks_length _ _ (Nat.le_refl _)]
  have hlen255 : L.length ≤ 255 := by
    rw [← hn, numMarkers_eq]
    unfold MAX_DATA MAX_BYTES_IN_MARKER ICC_OVERHEAD_LEN
    simp only [Nat.reduceSub]
    apply Nat.le_of_lt_succ
    apply (Nat.div_lt_iff_lt_mul (by omega)).2
    omega
  have hpos : 0 < L.length := by
    cases hLc : L with
    | nil => rw [hLc] at hflat; simp at hflat; rw [hflat] at h1; simp at h1
    | cons _ _ => simp
  obtain ⟨W, hW⟩ : ∃ W, W = writeICC p := ⟨_, rfl⟩
  have hWdef : W = mkMarkers L.length 0 L := by rw [hW, writeICC, hn, ← hL]
  obtain ⟨icc, hicc⟩ : ∃ icc, icc = ms.filter isICC := ⟨_, rfl⟩
  rw [← hicc, ← hW] at hperm
  -- facts about every ICC marker found
  have hmem : ∀ m, m ∈ icc → ∃ j, ∃ h : j < L.length, m = mkMarker L.length j L[j] := by
    intro m hm
    have : m ∈ W := hperm.mem_iff.1 hm
    rw [hWdef] at this
    obtain ⟨j, hj, e⟩ := mem_mkMarkers _ _ _ _ this
    exact ⟨j, hj, by simpa using e⟩
  have hseqW : W.map seqNo = List.range' 1 L.length := by
    rw [hWdef]; simpa using seq_mkMarkers L.length L 0 (by omega)
  have hnd : (icc.map seqNo).Nodup := by
    have : (icc.map seqNo).Perm (W.map seqNo) := hperm.map _
    rw [this.nodup_iff, hseqW]; exact List.nodup_range'
  have hpres : ∀ j (hj : j < L.length), mkMarker L.length j L[j] ∈ icc := by
    intro j hj
    apply hperm.mem_iff.2
    rw [hWdef]
    have := find_mkMarkers L.length L 0 j hj (by omega)
    simp only [Nat.zero_add] at this
    exact List.mem_of_find?_eq_some this
  have hne : icc ≠ [] := by
    intro e
    have := hpres 0 hpos
    rw [e] at this; simp at this
  -- now run the reader
  unfold readICC
  rw [← hicc]
  cases hic : icc with
  | nil => exact absurd hic hne
  | cons m0 tl =>
    have hh : icc.head? = some m0 := by rw [hic]; rfl
    rw [← hic]
    simp only [hh]
    obtain ⟨j0, hj0, e0⟩ := hmem m0 (by rw [hic]; simp)
    have hcount0 : count m0 = L.length := by rw [e0]; exact mk_count _ _ _ (by omega)
    simp only [hcount0]
    have c1 : (icc.all fun m => count m == L.length) = true := by
      rw [List.all_eq_true]; intro m hm
      obtain ⟨j, hj, e⟩ := hmem m hm
      rw [e, mk_count _ _ _ (by omega)]; simp
    have c2 : (icc.all fun m => decide (0 < seqNo m) && decide (seqNo m ≤ L.length)) = true := by
      rw [List.all_eq_true]; intro m hm
      obtain ⟨j, hj, e⟩ := hmem m hm
      rw [e, mk_seqNo _ _ _ (by omega)]; simp; omega
    have c3 : decide ((icc.map seqNo).Nodup) = true := by simpa using hnd
    have c4 : ((List.range L.length).all fun i => icc.any fun m => seqNo m == i + 1) = true := by
      rw [List.all_eq_true]; intro i hi
      rw [List.any_eq_true]
      have hi' := List.mem_range.1 hi
      exact ⟨_, hpres i hi', by rw [mk_seqNo _ _ _ (by omega)]; simp⟩
    have hout : ((List.range L.length).flatMap (payloadAt icc)) = p := by
      rw [← hflat, ← flatMap_getElem, List.flatMap_def, List.flatMap_def]
      congr 1
      apply List.map_congr_left
      intro i hi
      have hi' := List.mem_range.1 hi
      have hfind := find_unique seqNo icc _ hnd (hpres i hi')
      rw [mk_seqNo _ _ _ (by omega)] at hfind
      unfold payloadAt
      rw [hfind]
      simp only [mk_payload]
      simp [hi']
    have hemp : p.isEmpty = false := by
      cases p with
      | nil => simp at h1
      | cons _ _ => rfl
    simp only [c1, c2, c3, c4, Bool.not_true, Bool.false_eq_true, if_false]
    rw [hout, hemp]
    rfl

end LJT.ICC
