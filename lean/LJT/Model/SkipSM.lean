/-!
The read / skip state machine of the decompressor when no context rows are needed and the separate
(non-merged) upsampler is in use: src/jdapistd.c `_jpeg_read_scanlines`, `_jpeg_skip_scanlines`,
`increment_simple_rowgroup_ctr`, `read_and_discard_scanlines`; src/jdmainct.c `process_data_simple_main`;
src/jdsample.c `sep_upsample`.

The model follows the counters of the C code field by field (they are compared with the real structures after every
call by the `skipst` operation) and adds ghost fields that say which iMCU row sits in the main buffer and which row
group sits in the upsampler's conversion buffer; every delivered row is reported by its provenance
`(iMCU row, row group, row within the group)`.
-/
namespace LJT.Skip

/-- `M` = `min_DCT_scaled_size` (row groups per iMCU row), `v` = `max_v_samp_factor` (rows per row group),
`H` = `output_height` -/
structure Cfg where
  M : Nat
  v : Nat
  H : Nat
deriving Repr, DecidableEq

structure St where
  y : Nat         -- output_scanline
  irow : Nat      -- output_iMCU_row: iMCU rows taken from the coefficient controller so far
  bf : Bool       -- main->buffer_full
  rg : Nat        -- main->rowgroup_ctr
  nro : Nat       -- upsample->next_row_out
  rtg : Nat       -- upsample->rows_to_go
  bufRow : Nat    -- ghost: the iMCU row decoded into the main buffer
  cbRow : Nat     -- ghost: iMCU row of the row group in the conversion buffer
  cbRg : Nat      -- ghost: its row group
deriving Repr, DecidableEq

/-- a delivered row: iMCU row, row group within it, row within the group -/
abbrev Prov := Nat × Nat × Nat

/-- the image row a provenance names -/
def Prov.line (c : Cfg) (p : Prov) : Nat := p.1 * (c.M * c.v) + p.2.1 * c.v + p.2.2

/-- `start_pass_main` / `start_pass_upsample` -/
def init (c : Cfg) : St := ⟨0, 0, false, 0, c.v, c.H, 0, 0, 0⟩

/-- `(*cinfo->coef->decompress_data)` when the main buffer is empty -/
def fillBuf (s : St) : St :=
  if s.bf then s else { s with bf := true, bufRow := s.irow, irow := s.irow + 1 }

/-- first half of `process_data_simple_main` + `sep_upsample`: make sure an iMCU row is in the main buffer and a row
group in the conversion buffer -/
def prep (c : Cfg) (s : St) : St :=
  let s := fillBuf s
  if c.v ≤ s.nro then { s with cbRow := s.bufRow, cbRg := s.rg, nro := 0 } else s

/-- second half: deliver up to `n` rows of the conversion buffer and advance the counters -/
def deliver (c : Cfg) (s : St) (n : Nat) : St × List Prov :=
  let k := min (min (c.v - s.nro) s.rtg) n
  let rows := (List.range k).map fun j => (s.cbRow, s.cbRg, s.nro + j)
  let s1 := { s with rtg := s.rtg - k, nro := s.nro + k }
  let s2 := if c.v ≤ s1.nro then { s1 with rg := s1.rg + 1 } else s1
  let s3 := if c.M ≤ s2.rg then { s2 with bf := false, rg := 0 } else s2
  ({ s3 with y := s3.y + k }, rows)

/-- `_jpeg_read_scanlines(cinfo, rows, n)`: one call of `process_data_simple_main`, hence one of `sep_upsample` -/
def read (c : Cfg) (s : St) (n : Nat) : St × List Prov :=
  if c.H ≤ s.y then (s, [])            -- JWRN_TOO_MUCH_DATA
  else if n = 0 then (s, [])           -- nothing wanted
  else deliver c (prep c s) n

/-- `read_and_discard_scanlines(cinfo, k)`: `k` calls of `_jpeg_read_scanlines(cinfo, dummy, 1)` -/
def readDiscard (c : Cfg) : Nat → St → St
  | 0, s => s
  | k + 1, s => readDiscard c k (read c s 1).1

/-- second half of `increment_simple_rowgroup_ctr`: step over whole row groups by moving `rowgroup_ctr`, bring
`rows_to_go` up to date, read and discard what is left -/
def jump (c : Cfg) (s : St) (rows : Nat) : St :=
  let left := rows % c.v
  let s := { s with rg := s.rg + rows / c.v, y := s.y + (rows - left) }
  let s := { s with rtg := c.H - s.y }
  readDiscard c left s

/-- `increment_simple_rowgroup_ctr(cinfo, rows)` (separate upsampler): decode the current iMCU row if that has not
happened yet, let the upsampler deliver the rows it still holds, then `jump` -/
def incSimple (c : Cfg) (s : St) (rows : Nat) : St :=
  let s := if 0 < rows then fillBuf s else s
  let pending := if s.nro < c.v then min (c.v - s.nro) rows else 0
  jump c (readDiscard c pending s) (rows - pending)

/-- `_jpeg_skip_scanlines(cinfo, n)`: new state and return value -/
def skip (c : Cfg) (s : St) (n : Nat) : St × Nat :=
  if c.H ≤ s.y + n then ({ s with y := c.H }, c.H - s.y)
  else if n = 0 then (s, 0)
  else
    let L := c.M * c.v
    let left := (L - s.y % L) % L
    if n < left then (incSimple c s n, n)
    else
      let s := { s with y := s.y + left, bf := false, rg := 0, nro := c.v }
      let s := { s with rtg := c.H - s.y }
      let after := n - left
      let toSkip := after / L * L
      let toRead := after - toSkip
      let s := { s with y := s.y + toSkip, irow := s.irow + toSkip / L }
      let s := incSimple c s toRead
      ({ s with rtg := c.H - s.y }, n)

inductive Call where
  | rd (n : Nat)
  | sk (n : Nat)
deriving Repr, DecidableEq

/-- one API call: new state, delivered rows (with the scanline each was delivered at), return value -/
def step (c : Cfg) (s : St) : Call → St × List (Nat × Prov) × Nat
  | .rd n => let r := read c s n; (r.1, (r.2.zipIdx s.y).map (fun (p, i) => (i, p)), r.2.length)
  | .sk n => let r := skip c s n; (r.1, [], r.2)

/-- a whole history: final state and every delivered row with its scanline -/
def run (c : Cfg) : St → List Call → St × List (Nat × Prov)
  | s, [] => (s, [])
  | s, a :: as =>
    let r := step c s a
    let r2 := run c r.1 as
    (r2.1, r.2.1 ++ r2.2)

end LJT.Skip
