import LJT.Proofs.Nbits
/-!
# C19 - Generated Huffman tables are always valid, complete prefix codes

Full statement (properties.jsonl): for every symbol-frequency histogram that can arise
from an image the optimal-table generator returns a table in which every symbol with
non-zero frequency has a code of 1..16 bits, Kraft holds with one unused code point of the
longest length, symbols are listed by non-decreasing length; the encoder- and decoder-side
derived tables of any accepted table are mutual inverses; and the bit-length function
returns floor(log2 x)+1 for 1..65535 and 0 for 0.

This file holds the property theorems only; helper lemmas are in `LJT/Proofs`.
-/
namespace LJT.C19

/-- **nbits clause, table form (scalar build).**  Every one of the 65536 entries of
`jpeg_nbits_table` as it stands in /repo now (regenerated into `Gen.nbitsPacked`). -/
theorem nbits_table_correct (x : Nat) (h : x < 65536) :
    nbitsTbl x = if x = 0 then 0 else Nat.log2 x + 1 :=
  nbitsTbl_correct x h

/-- **nbits clause, table linked by the SIMD build** (simd/x86_64/jchuff-sse2.asm). -/
theorem nbits_table_simd_correct (x : Nat) (h : x < 65536) :
    nbitsTblSimd x = if x = 0 then 0 else Nat.log2 x + 1 :=
  nbitsTblSimd_correct x h

/-- **nbits clause, `32 - clz` form** (`USE_CLZ_INTRINSIC`), for every 32-bit argument. -/
theorem nbits_clz_correct (x : Nat) (h : x < 2 ^ 32) :
    nbitsClz 32 x = if x = 0 then 0 else Nat.log2 x + 1 :=
  nbitsClz_eq 32 x h

/-- the specification really is "number of significant bits": `2^(n-1) ≤ x < 2^n` -/
theorem nbits_is_bit_length (x : Nat) (h0 : x ≠ 0) (h : x < 65536) :
    2 ^ (nbitsTbl x - 1) ≤ x ∧ x < 2 ^ nbitsTbl x := by
  rw [nbitsTbl_correct x h]; exact nbitsSpec_bounds x h0

-- non-vacuity: a concrete non-trivial argument
example : nbitsTbl 40000 = 16 ∧ nbitsClz 32 40000 = 16 := by decide +kernel

end LJT.C19
