import LJT.Props.C07
import LJT.Props.C19
/-! # C05 - SIMD and scalar code paths give bit-identical results

Bit-identity is a statement about two implementations; where one model serves both, it is a
theorem.  The remaining kernels are compared output against output by the harness. -/
namespace LJT.Props.C05
open LJT.DCT

/-- **The quantiser does not depend on the word size**: the SIMD build keeps the divisor table
in 16-bit words (`DCTELEM` = short), the scalar build in 32-bit words; for every divisor and
every coefficient both return the same value. -/
theorem quantizer_word_size_independent (d : Nat) (w : Int) (hd : 0 < d) (hw : w.natAbs < 32768) :
    quantize8 16 d w = quantize8 32 d w := by
  rw [LJT.Props.C07.quant_is_round_nearest 16 d w (by omega) hd hw,
      LJT.Props.C07.quant_is_round_nearest 32 d w (by omega) hd hw]

/-- the same through the component divisor `8 q` of the accurate DCT -/
theorem quantize_coef_word_size_independent (q : Nat) (w : Int) (hq : 1 ≤ q) (hw : w.natAbs < 32768) :
    quantizeCoef 8 16 q w = quantizeCoef 8 32 q w := by
  simp only [quantizeCoef, show (8 : Nat) ≤ 8 from Nat.le_refl _, if_true]
  exact quantizer_word_size_independent (q * 8) w (by omega) hw

/-- non-vacuity -/
example : quantize8 16 24 (-100) = -4 ∧ quantize8 32 24 (-100) = -4 := by decide

end LJT.Props.C05
