import LJT.Model.Nbits
/-! kernel-evaluated check of entries 24576..32767 of the regenerated nbits table -/
namespace LJT
theorem nbits_chunk_C3 : checkRange nbitsTbl nbitsSpec 14 24576 8192 = true := by decide +kernel
end LJT
