import LJT.Ops.Util
import LJT.Model.ICC
import LJT.Model.Header
import LJT.Model.CopyOpt
import LJT.Gen.Err
namespace LJT.Ops
open LJT.ICC LJT.Header

def genByte (seed k : Nat) : Nat := ((seed + 1) * (k + 17) * 40503 / 64) % 256
def genBytes (seed len : Nat) : List Nat := (List.range len).map (genByte seed)

def parseIccr : List Nat → List (Nat × List Nat)
  | code :: idok :: seq :: cnt :: plen :: pseed :: rest =>
    let id := if idok = 1 then magic else magic.set 3 0x2D
    (code, id ++ [seq % 256, cnt % 256] ++ genBytes pseed plen) :: parseIccr rest
  | _ => []

def parseMsave : List Nat → List (Nat × Nat × Nat × Nat)
  | code :: len :: seed :: limit :: rest => (code, len, seed, limit) :: parseMsave rest
  | _ => []

def opC16 : List String → Option String
  | ["iccw", len, seed] => do
    let len ← nat? len; let seed ← nat? seed
    if len = 0 then some s!"err {Gen.JERR_BUFFER_SIZE}" else
    let ms := writeICC (genBytes seed len)
    some s!"{ms.length} {" ".intercalate (ms.map (fun m => s!"{m.2.length}:{fnv m.2}"))}"
  | "iccr" :: _ :: rest => do
    let ns ← nats? rest
    let ms := parseIccr ns
    match readICC ms with
    | some p => some s!"ok {p.length}:{fnv p}"
    | none => some s!"none warn={if hasICC ms then 1 else 0}"
  | "msave" :: _ :: rest => do
    let ns ← nats? rest
    let specs := parseMsave ns
    -- the limit in force for a code is the last one requested for it
    let limitOf (code : Nat) : Nat :=
      (specs.foldl (fun acc (c, _, _, l) => if c = code then some l else acc) (none : Option Nat)).getD 0
    let out := specs.filterMap (fun (code, len, seed, _) =>
      match saved code (limitOf code) (genBytes seed len) with
      | some (d, orig) => some s!"{code}:{d.length}:{orig}:{fnv d}"
      | none => none)
    some ("ok " ++ " ".intercalate out)
  | "ss" :: nc :: jcs :: rest => do
    let nc ← nat? nc; let jcs ← nat? jcs; let ns ← nats? rest
    let rec pairs : List Nat → List (Nat × Nat)
      | h :: v :: r => (h, v) :: pairs r
      | _ => []
    some s!"subsamp {getSubsamp nc jcs (pairs ns)}"
  | "xcopy" :: nm :: rest => do
    let nm ← nat? nm
    let ns ← nats? rest
    let rec mk : Nat → List Nat → List (Nat × List Nat)
      | 0, _ => []
      | n + 1, code :: len :: seed :: r => (code, genBytes seed len) :: mk n r
      | _, _ => []
    let src := mk nm ns
    let opts := (ns.drop (nm * 3 + 1)).take (ns.getD (nm * 3) 0)
    let toOpt (o : Nat) : CopyOpt.Opt := match o with
      | 0 => .none | 1 => .comments | 2 => .all | 3 => .allExceptIcc | _ => .icc
    let rec run : List Nat → (Nat → Bool) → String → String
      | [], _, acc => acc
      | o :: os, saved, acc =>
        let out := CopyOpt.transform saved (toOpt o) true false src
        let str := " ".intercalate (out.map (fun m => s!"{m.1}:{m.2.length}:{fnv m.2}"))
        run os (CopyOpt.setup saved (toOpt o)) (acc ++ (if str.isEmpty then " |" else " " ++ str ++ " |"))
    some ("ok" ++ run opts (fun _ => false) "")
  | _ => none

end LJT.Ops
