import LJT.Model.Nbits
/-! kernel-evaluated check of entries 16384..24575 of the regenerated nbits table -/
namespace LJT
theorem nbits_chunk_S2 : checkRange nbitsTblSimd nbitsSpec 14 16384 8192 = true := by decide +kernel
end LJT
