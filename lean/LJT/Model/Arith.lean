import LJT.Gen.Tables
/-! The QM arithmetic decoder of T.81 Annex D as coded in src/jdarith.c (`arith_decode`) and the
binarisation of DC/AC coefficients of Annex F.2.4 / G.2 (`decode_mcu`, `decode_mcu_DC_first`,
`decode_mcu_AC_first`, `decode_mcu_DC_refine`, `decode_mcu_AC_refine`).  Executable model used
by the independent reader for arithmetic-coded streams. -/
namespace LJT.Arith

/-- decoder registers, the unread bytes of the interval, and all statistics bins:
DC table `t` at `t*64`, AC table `t` at `1024 + t*256`, the fixed bin at 5120 -/
structure AS where
  c : Nat
  a : Nat
  ct : Int
  data : List Nat
  atMarker : Bool
  stats : Array Nat
  err : Bool

def fixedBin : Nat := 5120
def dcBase (t : Nat) : Nat := t * 64
def acBase (t : Nat) : Nat := 1024 + t * 256

def AS.init (data : List Nat) : AS :=
  ⟨0, 0, -16, data, false, (Array.replicate 5121 0).set! fixedBin 113, false⟩

/-- `get_byte` with the marker / stuffing convention of `arith_decode` -/
def nextByte (s : AS) : Nat × AS :=
  if s.atMarker then (0, s) else
  match s.data with
  | [] => (0, { s with atMarker := true })
  | b :: r =>
    if b != 0xFF then (b, { s with data := r }) else
    -- swallow extra 0xFF bytes
    let r' := r.dropWhile (· == 0xFF)
    match r' with
    | [] => (0, { s with data := [], atMarker := true })
    | x :: r2 => if x == 0 then (0xFF, { s with data := r2 }) else (0, { s with data := r', atMarker := true })

/-- renormalisation loop of `arith_decode` -/
def renorm : Nat → AS → AS
  | 0, s => s
  | fuel + 1, s =>
    if s.a ≥ 0x8000 then s else
    let s := Id.run do
      let mut s := s
      s := { s with ct := s.ct - 1 }
      if s.ct < 0 then
        let (d, s') := nextByte s
        s := { s' with c := s'.c * 256 + d, ct := s'.ct + 8 }
        if s.ct < 0 then
          s := { s with ct := s.ct + 1 }
          if s.ct == 0 then s := { s with a := 0x8000 }
      return s
    renorm fuel { s with a := s.a * 2 }

/-- `arith_decode`: one binary decision with the statistics bin `st` -/
def decode (s : AS) (st : Nat) : Nat × AS :=
  let s := renorm 64 s
  let sv := s.stats.getD st 0
  let q := Gen.aritab.getD (sv % 128) 0
  let nl := q % 256
  let nm := (q / 256) % 256
  let qe := q / 65536
  let a1 := s.a - qe
  let temp := a1 * 2 ^ s.ct.toNat
  if s.c ≥ temp then
    let c := s.c - temp
    if a1 < qe then
      (sv / 128, { s with c := c, a := qe, stats := s.stats.setIfInBounds st (((sv / 128) * 128) ^^^ nm) })
    else
      (1 - sv / 128, { s with c := c, a := qe, stats := s.stats.setIfInBounds st (((sv / 128) * 128) ^^^ nl) })
  else if a1 < 0x8000 then
    if a1 < qe then
      (1 - sv / 128, { s with a := a1, stats := s.stats.setIfInBounds st (((sv / 128) * 128) ^^^ nl) })
    else
      (sv / 128, { s with a := a1, stats := s.stats.setIfInBounds st (((sv / 128) * 128) ^^^ nm) })
  else (sv / 128, { s with a := a1 })

/-- magnitude category bins: unary part starting at `st0`, returns (m, st after, state) or error -/
def magUnary : Nat → Nat → Nat → AS → Option (Nat × Nat × AS)
  | 0, _, _, _ => none
  | fuel + 1, m, st, s =>
    let (b, s) := decode s st
    if b == 0 then some (m, st, s)
    else
      let m := m * 2
      if m == 0x8000 then none else magUnary fuel m (st + 1) s

/-- the magnitude bits below the leading one, bin `st` -/
def magBits : Nat → Nat → Nat → Nat → AS → Nat × AS
  | 0, v, _, _, s => (v, s)
  | fuel + 1, v, m, st, s =>
    let m := m / 2
    if m == 0 then (v, s) else
    let (b, s) := decode s st
    magBits fuel (if b == 1 then v ||| m else v) m st s

/-- DC difference (F.2.4.1 as coded): returns the difference and the new context -/
def decodeDC (s : AS) (tbl ctx L U : Nat) : Option (Int × Nat × AS) :=
  let st := dcBase tbl + ctx
  let (b, s) := decode s st
  if b == 0 then some (0, 0, s) else
  let (sign, s) := decode s (st + 1)
  let st := st + 2 + sign
  let (m0, s) := decode s st
  let r := if m0 != 0 then magUnary 20 1 (dcBase tbl + 20) s else some (0, st, s)
  match r with
  | none => none
  | some (m, st, s) =>
    let ctx' := if m < (2 ^ L) / 2 then 0 else if m > (2 ^ U) / 2 then 12 + sign * 4 else 4 + sign * 4
    let (v, s) := magBits 20 m m (st + 14) s
    let v : Int := (v : Int) + 1
    some (if sign == 1 then -v else v, ctx', s)

/-- one nonzero AC coefficient after its position is known (sign, magnitude) -/
def decodeACval (s : AS) (tbl k K st : Nat) : Option (Int × AS) :=
  let (sign, s) := decode s fixedBin
  let st := st + 2
  let (m0, s) := decode s st
  let r :=
    if m0 != 0 then
      let (b, s) := decode s st
      if b != 0 then magUnary 20 2 (acBase tbl + (if k ≤ K then 189 else 217)) s
      else some (1, st, s)
    else some (0, st, s)
  match r with
  | none => none
  | some (m, st, s) =>
    let (v, s) := magBits 20 m m (st + 14) s
    let v : Int := (v : Int) + 1
    some (if sign == 1 then -v else v, s)

/-- AC coefficients of one block for a band `ss..se` (sequential: 1..63), first pass.
Returns the list of (zigzag position, value) -/
def decodeACband (s : AS) (tbl K ss se : Nat) : Option (List (Nat × Int) × AS) := Id.run do
  let mut s := s
  let mut k := ss
  let mut out : List (Nat × Int) := []
  let mut fuel := 70
  while k ≤ se && fuel > 0 do
    fuel := fuel - 1
    let mut st := acBase tbl + 3 * (k - 1)
    let (eob, s1) := decode s st
    s := s1
    if eob == 1 then break
    -- zero run
    let mut go := true
    let mut f2 := 70
    while go && f2 > 0 do
      f2 := f2 - 1
      let (nz, s2) := decode s (st + 1)
      s := s2
      if nz == 1 then go := false
      else
        st := st + 3; k := k + 1
        if k > se then return none
    match decodeACval s tbl k K st with
    | none => return none
    | some (v, s3) => s := s3; out := (k, v) :: out
    k := k + 1
  return some (out.reverse, s)

end LJT.Arith
