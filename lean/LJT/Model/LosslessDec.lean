import LJT.Model.Lossless
import LJT.Model.Bits
/-!
The decoder's side of a whole lossless scan (src/jdlhuff.c decode_mcus, src/jddiffct.c decompress_data /
process_restart, src/jdlossls.c): split at RSTn, decode interval by interval, regroup into component rows,
undifference, scale up.  `llDecode` is run by the driver on the bytes of every `llenc` op and compared with what
libjpeg-turbo's decompressor returns for the same bytes.
-/
namespace LJT.LL
open LJT.Huff LJT.Bits

/-- chunks of `R` elements (the recursion of `segmentsOf`) -/
def chunksF {α : Type} (R : Nat) : Nat → List α → List (List α)
  | 0, _ => []
  | _ + 1, [] => []
  | f + 1, r :: rs => ((r :: rs).take R) :: chunksF R f ((r :: rs).drop R)

/-- decode every restart interval of a scan: `counts[k]` MCUs from the bytes of interval `k` -/
def decodeSegments (dds : List DDerived) (tblOf : List Nat) (nc : Nat) :
    List Nat → List (List Nat) → Option (List (List (Nat × Int)))
  | [], [] => some []
  | n :: ns, seg :: segs =>
    match decodeItems dds tblOf nc n (segmentBits seg), decodeSegments dds tblOf nc ns segs with
    | some (items, _), some rest => some (items :: rest)
    | _, _ => none
  | _, _ => none

/-- MCU counts of the restart intervals: `R` MCU rows of `w` MCUs each (all `h` rows when `R = 0`) -/
def segCounts (R h w : Nat) : List Nat :=
  if R = 0 then [h * w] else (chunksF R h (List.replicate h w)).map List.sum

/-- the decoder's `diff_buf`: difference `x` of row `y` of component `ci` is item `(y*w + x)*nc + ci` of the scan -/
def regroup (nc h w : Nat) (flat : List Int) : List (List (List Int)) :=
  (List.range nc).map fun ci => (List.range h).map fun y => (List.range w).map fun x => flat.getD ((y * w + x) * nc + ci) 0

/-- the decoder's side of a whole lossless scan: split the entropy-coded data at the restart markers, decode the
MCUs of every interval, regroup the differences by component and row, undo the prediction with the decoder's own
restart bookkeeping, scale up -/
def llDecode (p : Params) (tblOf : List Nat) (dds : List DDerived) (nc h w : Nat) (bytes : List Nat) :
    Option (List (List (List Nat))) :=
  match decodeSegments dds tblOf nc (segCounts p.R h w) (splitRST bytes []) with
  | none => none
  | some segItems =>
    some ((regroup nc h w (segItems.flatten.map (·.2))).map fun dss =>
      upscale p.Pt (undiffRows p.psv (initPred p) (decFlags p.R h (true, p.R)) [] dss))

end LJT.LL
