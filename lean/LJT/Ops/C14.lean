import LJT.Ops.Util
import LJT.Model.Mem
namespace LJT.Ops
open LJT.Mem

/-- replay a recorded trace: `aO.ID:SIZE` allocation for memory manager O, `fO.ID` release,
`xO:SIZE` failed allocation, `qO:N` the library's own counter at a `jpeg_mem_available` call -/
def opC14 : List String → Option String
  | "memreplay" :: evs => do
    let step := fun (acc : Option (List (Nat × State) × Nat)) (e : String) => do
      let (sts, nq) ← acc
      let getSt := fun (o : Nat) => ((sts.find? (·.1 == o)).map (·.2)).getD init
      let setSt := fun (o : Nat) (s : State) => (o, s) :: sts.filter (·.1 != o)
      let body := (e.drop 1).toString
      match e.front with
      | 'a' =>
        match body.splitOn ":" with
        | [oi, sz] =>
          match oi.splitOn "." with
          | [o, i] => do
            let o ← nat? o; let i ← nat? i; let sz ← nat? sz
            some (setSt o (alloc (getSt o) i 1 sz true), nq)
          | _ => none
        | _ => none
      | 'f' =>
        match body.splitOn "." with
        | [o, i] => do
          let o ← nat? o; let i ← nat? i
          some (setSt o (free1 (getSt o) i), nq)
        | _ => none
      | 'x' => some (sts, nq)
      | 'q' =>
        match body.splitOn ":" with
        | [o, n] => do
          let o ← nat? o; let n ← nat? n
          if (getSt o).total == n then some (sts, nq + 1) else none
        | _ => none
      | _ => none
    match evs.foldl step (some ([], 0)) with
    | some (_, _) => some "ok"
    | none => some "counter-mismatch"
  | _ => none

end LJT.Ops
