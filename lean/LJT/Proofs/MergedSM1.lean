import LJT.Proofs.MergedSM
namespace LJT.Skip

/-- the invariant of the merged machine without vertical subsampling (`merged_1v_upsample`, `max_v_samp_factor = 1`):
one row per row group, no spare row -/
def InvM1 (strong : Bool) (c : Cfg) (s : MSt) : Prop :=
  s.y ≤ c.H ∧ (s.y < c.H → ∃ a g, g < c.M ∧ s.y = lineOf c a g 0 ∧
    ((s.bf = true ∧ s.bufRow = a ∧ s.rg = g ∧ s.irow = a + 1 ∧ (strong = true → g ≠ 0))
     ∨ (g = 0 ∧ s.bf = false ∧ s.rg = 0 ∧ s.irow = a)))

theorem InvM1.weaken {c : Cfg} {s : MSt} (h : InvM1 true c s) : InvM1 false c s := by
  refine ⟨h.1, fun hy => ?_⟩
  obtain ⟨a, g, hg, hy', hc⟩ := h.2 hy
  refine ⟨a, g, hg, hy', ?_⟩
  rcases hc with ⟨x1, x2, x3, x4, _⟩ | x
  · exact Or.inl ⟨x1, x2, x3, x4, fun h => absurd h (by decide)⟩
  · exact Or.inr x

theorem minit_inv1 (c : Cfg) (hM : 0 < c.M) : InvM1 true c (minit c) :=
  ⟨Nat.zero_le _, fun _ => ⟨0, 0, hM, by simp [minit, lineOf], Or.inr ⟨rfl, rfl, rfl, rfl⟩⟩⟩

theorem line1 (c : Cfg) (hv : c.v = 1) (a g : Nat) : lineOf c a g 0 = a * c.M + g := by
  simp [lineOf, hv]

theorem mread1_spec (c : Cfg) (hv : c.v = 1) (s : MSt) (n : Nat) (h : InvM1 false c s) (hH : s.y < c.H) (hn : 1 ≤ n) :
    ∃ a g, g < c.M ∧ s.y = lineOf c a g 0 ∧ (mread c s n).2 = [(a, g, 0)] ∧
      (mread c s n).1.y = s.y + 1 ∧ InvM1 true c (mread c s n).1 := by
  obtain ⟨a, g, hg, hy, hc⟩ := h.2 hH
  have h1 : ¬ c.H ≤ s.y := by omega
  have h2 : ¬ n = 0 := by omega
  have hv2 : ¬ c.v = 2 := by omega
  obtain ⟨t, ht, t1, t3, t4, t5, t6⟩ : ∃ t : MSt, mfillBuf s = t ∧ t.y = s.y ∧ t.bf = true ∧
      t.bufRow = a ∧ t.rg = g ∧ t.irow = a + 1 := by
    rcases hc with ⟨x1, x2, x3, x4, _⟩ | ⟨x1, x2, x3, x4⟩
    · exact ⟨s, by simp [mfillBuf, x1], rfl, x1, x2, x3, x4⟩
    · refine ⟨{ s with bf := true, bufRow := s.irow, irow := s.irow + 1 }, by simp [mfillBuf, x2], rfl, rfl, x4, ?_, ?_⟩
      · show s.rg = g; omega
      · show s.irow + 1 = a + 1; omega
  have hu : mupsample c t n = ({ t with rg := t.rg + 1 }, [(a, g, 0)]) := by
    unfold mupsample
    rw [if_neg hv2, t4, t5]
  have hrd : mread c s n = (let r := mupsample c t n
      let s' := r.1
      let s' := if c.M ≤ s'.rg then { s' with bf := false, rg := 0 } else s'
      ({ s' with y := s'.y + r.2.length }, r.2)) := by
    simp only [mread, h1, h2, if_false, ht]
  rw [hrd, hu]
  rw [line1 c hv] at hy
  by_cases hlast : g + 1 = c.M
  · have hM' : c.M ≤ t.rg + 1 := by omega
    simp only [hM', if_true, List.length_singleton]
    refine ⟨a, g, hg, by rw [line1 c hv]; exact hy, rfl, by show t.y + 1 = s.y + 1; omega, ?_⟩
    refine ⟨by show t.y + 1 ≤ c.H; omega, fun _ => ⟨a + 1, 0, by omega, ?_, Or.inr ⟨rfl, rfl, rfl, t6⟩⟩⟩
    show t.y + 1 = _
    rw [line1 c hv, Nat.succ_mul]; omega
  · have hM' : ¬ c.M ≤ t.rg + 1 := by omega
    simp only [hM', if_false, List.length_singleton]
    refine ⟨a, g, hg, by rw [line1 c hv]; exact hy, rfl, by show t.y + 1 = s.y + 1; omega, ?_⟩
    refine ⟨by show t.y + 1 ≤ c.H; omega, fun _ => ⟨a, g + 1, by omega, ?_, Or.inl ⟨t3, t4, by show t.rg + 1 = g + 1; omega, t6, fun _ => by omega⟩⟩⟩
    show t.y + 1 = _
    rw [line1 c hv]; omega

/-- `increment_simple_rowgroup_ctr` from a state whose position is `(a, g, 0)`, staying inside iMCU row `a` -/
theorem mincSimple1_spec (c : Cfg) (hv : c.v = 1) (s : MSt) (a g rows : Nat) (hg : g < c.M) (hy : s.y = lineOf c a g 0)
    (hc : (s.bf = true ∧ s.bufRow = a ∧ s.rg = g ∧ s.irow = a + 1) ∨ (g = 0 ∧ s.bf = false ∧ s.rg = 0 ∧ s.irow = a))
    (hin : g + rows < c.M) (hH : s.y + rows < c.H) (hst : 0 < rows ∨ (s.bf = true → g ≠ 0)) :
    InvM1 true c (mincSimple c s rows) ∧ (mincSimple c s rows).y = s.y + rows := by
  have hv2 : ¬ c.v = 2 := by omega
  rw [line1 c hv] at hy
  by_cases h0 : rows = 0
  · subst h0
    have e : mincSimple c s 0 = s := by
      unfold mincSimple
      rw [if_neg hv2]
      simp only [Nat.lt_irrefl, if_false, Nat.zero_div, Nat.add_zero, Nat.zero_mod, Nat.sub_zero]
    rw [e]
    refine ⟨⟨by omega, fun _ => ⟨a, g, hg, by rw [line1 c hv]; exact hy, ?_⟩⟩, rfl⟩
    rcases hc with ⟨x1, x2, x3, x4⟩ | x
    · rcases hst with h | h
      · omega
      · exact Or.inl ⟨x1, x2, x3, x4, fun _ => h x1⟩
    · exact Or.inr x
  · have hpos : 0 < rows := by omega
    obtain ⟨t, ht, t1, t3, t4, t5, t6⟩ : ∃ t : MSt, mfillBuf s = t ∧ t.y = s.y ∧ t.bf = true ∧
        t.bufRow = a ∧ t.rg = g ∧ t.irow = a + 1 := by
      rcases hc with ⟨x1, x2, x3, x4⟩ | ⟨x1, x2, x3, x4⟩
      · exact ⟨s, by simp [mfillBuf, x1], rfl, x1, x2, x3, x4⟩
      · refine ⟨{ s with bf := true, bufRow := s.irow, irow := s.irow + 1 }, by simp [mfillBuf, x2], rfl, rfl, x4, ?_, ?_⟩
        · show s.rg = g; omega
        · show s.irow + 1 = a + 1; omega
    have e : mincSimple c s rows = { t with rg := t.rg + rows, y := t.y + rows } := by
      unfold mincSimple
      rw [if_neg hv2]
      simp only [hpos, if_true, ht, hv, Nat.div_one, Nat.mod_one, Nat.sub_zero]
    rw [e]
    refine ⟨⟨by show t.y + rows ≤ c.H; omega, fun _ => ⟨a, g + rows, hin, ?_, Or.inl ⟨t3, t4, by show t.rg + rows = g + rows; omega, t6, fun _ => by omega⟩⟩⟩,
      by show t.y + rows = s.y + rows; omega⟩
    show t.y + rows = _
    rw [line1 c hv]; omega

theorem mskip1_spec (c : Cfg) (hv : c.v = 1) (s : MSt) (n : Nat) (hM : 0 < c.M) (hinv : InvM1 true c s) :
    InvM1 true c (mskip c s n).1 ∧ (mskip c s n).2 = min n (c.H - s.y) ∧ (mskip c s n).1.y = s.y + min n (c.H - s.y) := by
  have hyH := hinv.1
  have hv2 : ¬ c.v = 2 := by omega
  by_cases h1 : c.H ≤ s.y + n
  · have e : mskip c s n = ({ s with y := c.H }, c.H - s.y) := by simp [mskip, h1]
    rw [e]
    refine ⟨⟨Nat.le_refl _, fun h => absurd h (Nat.lt_irrefl _)⟩, by omega, by show c.H = _; omega⟩
  · by_cases h2 : n = 0
    · subst h2
      have h1' : ¬ c.H ≤ s.y := by simpa using h1
      have e : mskip c s 0 = (s, 0) := by simp [mskip, h1']
      rw [e]
      exact ⟨hinv, by simp, by simp⟩
    · rw [mskip_eq c s n h1 h2]
      obtain ⟨a, g, hg, hy, hc⟩ := hinv.2 (by omega)
      have hmin : min n (c.H - s.y) = n := by omega
      have hy1 := hy
      rw [line1 c hv] at hy1
      have hmod : s.y % (c.M * c.v) = g := by
        rw [hv, Nat.mul_one, hy1, Nat.mul_comm, Nat.mul_add_mod]
        exact Nat.mod_eq_of_lt hg
      rw [hmod, hmin, hv, Nat.mul_one]
      by_cases hg0 : g = 0
      · subst hg0
        have hleft : (c.M - 0) % c.M = 0 := by simp
        rw [hleft, if_neg (Nat.not_lt_zero _)]
        have hc' : s.bf = false ∧ s.rg = 0 ∧ s.irow = a := by
          rcases hc with ⟨_, _, _, _, x5⟩ | ⟨_, x2, x3, x4⟩
          · exact absurd rfl (x5 rfl)
          · exact ⟨x2, x3, x4⟩
        -- whole iMCU rows, then a move inside the next one
        have hdm := Nat.div_add_mod n c.M
        have hml := Nat.mod_lt n hM
        have e : mskipRest c s 0 n = mincSimple c { s with bf := false, rg := 0, y := s.y + n / c.M * c.M, irow := s.irow + n / c.M } (n - n / c.M * c.M) := by
          simp only [mskipRest, hv, Nat.mul_one, Nat.sub_zero, Nat.add_zero, if_neg (show ¬ (1 = 2) by decide), Nat.mul_div_cancel _ hM]
        rw [e]
        have hcm : c.M * (n / c.M) = n / c.M * c.M := Nat.mul_comm _ _
        obtain ⟨j1, j2⟩ := mincSimple1_spec c hv { s with bf := false, rg := 0, y := s.y + n / c.M * c.M, irow := s.irow + n / c.M }
          (a + n / c.M) 0 (n - n / c.M * c.M) hM
          (by show s.y + n / c.M * c.M = _; rw [line1 c hv, hy1, Nat.add_mul]; omega)
          (Or.inr ⟨rfl, rfl, rfl, by show s.irow + n / c.M = _; omega⟩) (by omega) (by show s.y + n / c.M * c.M + (n - n / c.M * c.M) < c.H; omega)
          (Or.inr (fun h => by cases h))
        refine ⟨j1, rfl, ?_⟩
        rw [j2]; show s.y + n / c.M * c.M + (n - n / c.M * c.M) = _; omega
      · have hleft : (c.M - g) % c.M = c.M - g := Nat.mod_eq_of_lt (by omega)
        rw [hleft]
        have hc' : s.bf = true ∧ s.bufRow = a ∧ s.rg = g ∧ s.irow = a + 1 := by
          rcases hc with ⟨x1, x2, x3, x4, _⟩ | ⟨x1, _⟩
          · exact ⟨x1, x2, x3, x4⟩
          · omega
        by_cases hlt : n < c.M - g
        · rw [if_pos hlt]
          obtain ⟨j1, j2⟩ := mincSimple1_spec c hv s a g n hg hy (Or.inl hc') (by omega) (by omega) (Or.inl (by omega))
          exact ⟨j1, rfl, j2⟩
        · rw [if_neg hlt]
          generalize hl : c.M - g = lf at hlt
          have hdm := Nat.div_add_mod (n - lf) c.M
          have hml := Nat.mod_lt (n - lf) hM
          have hcm : c.M * ((n - lf) / c.M) = (n - lf) / c.M * c.M := Nat.mul_comm _ _
          have e : mskipRest c s lf n = mincSimple c { s with bf := false, rg := 0, y := s.y + lf + (n - lf) / c.M * c.M, irow := s.irow + (n - lf) / c.M } (n - lf - (n - lf) / c.M * c.M) := by
            simp only [mskipRest, hv, Nat.mul_one, if_neg (show ¬ (1 = 2) by decide), Nat.mul_div_cancel _ hM]
          rw [e]
          obtain ⟨j1, j2⟩ := mincSimple1_spec c hv { s with bf := false, rg := 0, y := s.y + lf + (n - lf) / c.M * c.M, irow := s.irow + (n - lf) / c.M } (a + 1 + (n - lf) / c.M) 0 (n - lf - (n - lf) / c.M * c.M) hM
            (by show s.y + lf + (n - lf) / c.M * c.M = _; rw [line1 c hv, hy1, Nat.add_mul, Nat.add_mul]; omega)
            (Or.inr ⟨rfl, rfl, rfl, by show s.irow + (n - lf) / c.M = _; omega⟩) (by omega)
            (by show s.y + lf + (n - lf) / c.M * c.M + (n - lf - (n - lf) / c.M * c.M) < c.H; omega)
            (Or.inr (fun h => by cases h))
          refine ⟨j1, rfl, ?_⟩
          rw [j2]; show s.y + lf + (n - lf) / c.M * c.M + (n - lf - (n - lf) / c.M * c.M) = _; omega


theorem mstep1_spec (c : Cfg) (hv : c.v = 1) (s : MSt) (call : Call) (hM : 0 < c.M) (hinv : InvM1 true c s) :
    InvM1 true c (mstep c s call).1 ∧ s.y ≤ (mstep c s call).1.y ∧ (∀ ip ∈ (mstep c s call).2.1, RowOK c s.y ip) := by
  cases call with
  | sk n =>
    obtain ⟨h1, _, h3⟩ := mskip1_spec c hv s n hM hinv
    refine ⟨h1, by show s.y ≤ (mskip c s n).1.y; rw [h3]; omega, ?_⟩
    intro ip hip
    simp [mstep] at hip
  | rd n =>
    by_cases hH : c.H ≤ s.y
    · have e : mread c s n = (s, []) := by simp [mread, hH]
      simp only [mstep, e]
      exact ⟨hinv, Nat.le_refl _, by intro ip hip; simp at hip⟩
    · by_cases hn : n = 0
      · have e : mread c s n = (s, []) := by simp [mread, hH, hn]
        simp only [mstep, e]
        exact ⟨hinv, Nat.le_refl _, by intro ip hip; simp at hip⟩
      · obtain ⟨a, g, hg, hy, hrows, hy', hinv'⟩ := mread1_spec c hv s n hinv.weaken (by omega) (by omega)
        refine ⟨hinv', by show s.y ≤ (mread c s n).1.y; omega, ?_⟩
        intro ip hip
        simp only [mstep, hrows, List.zipIdx_cons, List.zipIdx_nil, List.map_cons, List.map_nil, List.mem_singleton] at hip
        subst hip
        refine ⟨hg, by show 0 < c.v; omega, ?_, Nat.le_refl _, by omega⟩
        show a * (c.M * c.v) + g * c.v + 0 = s.y
        simp only [lineOf] at hy
        omega

theorem mrun1_spec (c : Cfg) (hv : c.v = 1) (hM : 0 < c.M) : ∀ (calls : List Call) (s : MSt), InvM1 true c s →
    InvM1 true c (mrun c s calls).1 ∧ ∀ ip ∈ (mrun c s calls).2, RowOK c s.y ip := by
  intro calls
  induction calls with
  | nil => intro s h; exact ⟨h, by intro ip hip; simp [mrun] at hip⟩
  | cons a as ih =>
    intro s h
    obtain ⟨h1, h2, h3⟩ := mstep1_spec c hv s a hM h
    obtain ⟨i1, i2⟩ := ih (mstep c s a).1 h1
    simp only [mrun]
    refine ⟨i1, ?_⟩
    intro ip hip
    rcases List.mem_append.mp hip with h | h
    · exact h3 ip h
    · obtain ⟨q1, q2, q3, q4, q5⟩ := i2 ip h
      exact ⟨q1, q2, q3, by omega, q5⟩

end LJT.Skip
