/* C02 operations: lossless compression through the libjpeg API at every precision,
 * stream dissection (DHT + entropy-coded data) and round-trip oracle through both APIs */
#include "exec_common.h"

static unsigned ll_sample(int P, int kind, unsigned long long seed, unsigned long long k, int x)
{
  unsigned maxv = (1u << P) - 1;
  unsigned long long g = ((seed + 1ULL) * (k + 17ULL) * 40503ULL) / 64ULL;
  switch (kind) {
  case 0: return (unsigned)(g % (1ULL << P));
  case 1: return maxv / 3;
  case 2: return (x & 1) ? maxv : 0;
  case 3: return (unsigned)((k * 3ULL) % (1ULL << P));
  default: return (g & 1) ? maxv : 0;
  }
}

/* fills img[(y*w + x)*nc + ci] */
static void ll_image(unsigned short *img, int P, int nc, int w, int h, int kind, unsigned long long seed)
{
  int ci, y, x;
  for (ci = 0; ci < nc; ci++) for (y = 0; y < h; y++) for (x = 0; x < w; x++)
    img[((size_t)y * w + x) * nc + ci] = (unsigned short)ll_sample(P, kind, seed, ((unsigned long long)ci * h + y) * w + x, x);
}

static int ll_layout = 0;   /* scan layout of ll_compress: 0 default (one interleaved scan), 1 one scan per component, 2 {0},{1..}, 3 {0,1},{2..} */
static int ll_compress(int P, int Pt, int psv, int R, int nc, int w, int h, int ycc, const unsigned short *img,
                       unsigned char **out, unsigned long *outsize, int *errcode)
{
  struct jpeg_compress_struct c; my_err_t e; int y; static jpeg_scan_info sc[4];
  c.err = my_err_init(&e);
  jpeg_create_compress(&c);
  if (setjmp(e.jb)) { *errcode = e.code; jpeg_destroy_compress(&c); return 0; }
  jpeg_mem_dest(&c, out, outsize);
  c.image_width = w; c.image_height = h; c.input_components = nc;
  c.in_color_space = nc == 1 ? JCS_GRAYSCALE : nc == 3 ? (ycc ? JCS_YCbCr : JCS_RGB) : nc == 4 ? JCS_CMYK : JCS_UNKNOWN;
  c.data_precision = P;
  jpeg_set_defaults(&c);
  jpeg_enable_lossless(&c, psv, Pt);
  if (ll_layout && nc > 1) {
    int ns = 0, ci = 0, k;
    while (ci < nc) {
      int take = ll_layout == 1 ? 1 : ll_layout == 2 ? (ci == 0 ? 1 : nc - 1) : (ci == 0 ? (nc > 2 ? 2 : 1) : nc - ci);
      sc[ns].comps_in_scan = take;
      for (k = 0; k < take; k++) sc[ns].component_index[k] = ci + k;
      sc[ns].Ss = psv; sc[ns].Se = 0; sc[ns].Ah = 0; sc[ns].Al = Pt; ns++; ci += take;
    }
    c.scan_info = sc; c.num_scans = ns;
  }
  if (R) c.restart_in_rows = R;
  jpeg_start_compress(&c, TRUE);
  for (y = 0; y < h; y++) {
    if (P <= 8) {
      unsigned char *row = (unsigned char *)malloc((size_t)w * nc); JSAMPROW rp = row; int i;
      for (i = 0; i < w * nc; i++) row[i] = (unsigned char)img[(size_t)y * w * nc + i];
      jpeg_write_scanlines(&c, &rp, 1); free(row);
    } else if (P <= 12) {
      short *row = (short *)malloc((size_t)w * nc * 2); J12SAMPROW rp = row; int i;
      for (i = 0; i < w * nc; i++) row[i] = (short)img[(size_t)y * w * nc + i];
      jpeg12_write_scanlines(&c, &rp, 1); free(row);
    } else {
      J16SAMPROW rp = (J16SAMPROW)(img + (size_t)y * w * nc);
      jpeg16_write_scanlines(&c, &rp, 1);
    }
  }
  jpeg_finish_compress(&c);
  jpeg_destroy_compress(&c);
  return 1;
}

/* decode with libjpeg; returns samples interleaved as in ll_image */
static int ll_decompress(const unsigned char *j, unsigned long n, int P, int nc, int w, int h, unsigned short *out, int *warns, int *errcode)
{
  struct jpeg_decompress_struct d; my_err_t e; int y;
  d.err = my_err_init(&e);
  jpeg_create_decompress(&d);
  if (setjmp(e.jb)) { *errcode = e.code; jpeg_destroy_decompress(&d); return 0; }
  jpeg_mem_src(&d, j, n);
  jpeg_read_header(&d, TRUE);
  if ((int)d.image_width != w || (int)d.image_height != h || d.num_components != nc || d.data_precision != P) { *errcode = -1; jpeg_destroy_decompress(&d); return 0; }
  d.out_color_space = d.jpeg_color_space;
  jpeg_start_decompress(&d);
  for (y = 0; y < h; y++) {
    if (P <= 8) {
      unsigned char *row = (unsigned char *)malloc((size_t)w * nc); JSAMPROW rp = row; int i;
      jpeg_read_scanlines(&d, &rp, 1);
      for (i = 0; i < w * nc; i++) out[(size_t)y * w * nc + i] = row[i];
      free(row);
    } else if (P <= 12) {
      short *row = (short *)malloc((size_t)w * nc * 2); J12SAMPROW rp = row; int i;
      jpeg12_read_scanlines(&d, &rp, 1);
      for (i = 0; i < w * nc; i++) out[(size_t)y * w * nc + i] = (unsigned short)row[i];
      free(row);
    } else {
      J16SAMPROW rp = (J16SAMPROW)(out + (size_t)y * w * nc);
      jpeg16_read_scanlines(&d, &rp, 1);
    }
  }
  jpeg_finish_decompress(&d);
  *warns = e.nwarn; if (e.nwarn) *errcode = e.warn[0];
  jpeg_destroy_decompress(&d);
  return 1;
}

/* print DHT tables and the entropy-coded data of the (single) scan */
static void ll_dissect(const unsigned char *j, size_t n)
{
  size_t i = 2;
  while (i + 4 <= n && j[i] == 0xFF) {
    int code = j[i + 1]; size_t len = ((size_t)j[i + 2] << 8) | j[i + 3];
    if (code == 0xC4) {
      size_t p = i + 4, end = i + 2 + len;
      while (p < end) {
        int tcth = j[p++], cnt = 0, l;
        printf("dht%d:", tcth & 15);
        for (l = 0; l < 16; l++) { printf("%s%d", l ? " " : "", j[p + l]); cnt += j[p + l]; }
        p += 16; printf(":");
        for (l = 0; l < cnt; l++) printf("%s%d", l ? " " : "", j[p + l]);
        p += cnt; printf(" ");
      }
    }
    if (code == 0xDA) {
      size_t s = i + 2 + len, e = n;
      if (e >= 2 && j[e - 2] == 0xFF && j[e - 1] == 0xD9) e -= 2;
      printf("scan %zu:%llu", e - s, fnv(j + s, e - s));
      return;
    }
    i += 2 + len;
  }
}

/* llenc <P> <Pt> <psv> <R> <nc> <w> <h> <kind> <seed> <rgb|ycc> */
static int op_llenc(toks_t *t)
{
  int P = (int)tl(t, 1), Pt = (int)tl(t, 2), psv = (int)tl(t, 3), R = (int)tl(t, 4), nc = (int)tl(t, 5);
  int w = (int)tl(t, 6), h = (int)tl(t, 7), kind = (int)tl(t, 8), ycc = !strcmp(t->tok[10], "ycc"), err = 0, warns = 0, bad = 0;
  unsigned long long seed = (unsigned long long)tll(t, 9);
  size_t n = (size_t)w * h * nc, i;
  unsigned short *img = (unsigned short *)malloc(n * 2 + 2), *dec = (unsigned short *)malloc(n * 2 + 2);
  unsigned char *out = NULL; unsigned long outsize = 0;
  char why[200] = ""; int layout_op = 0;
  ll_image(img, P, nc, w, h, kind, seed);
  ll_layout = (!strcmp(t->tok[0], "llscan") && t->n > 11) ? (int)tl(t, 11) : 0;
  if (!ll_compress(P, Pt, psv, R, nc, w, h, ycc, img, &out, &outsize, &err)) { ll_layout = 0; printf("R err %d\n", err); goto done; }
  if (ll_layout) { printf("R skip layout %d size %lu\n", ll_layout, outsize); ll_layout = 0; layout_op = 1; }
  else { printf("R "); ll_dissect(out, outsize); }
  /* oracle: decode and compare with (s >> Pt) << Pt */
  if (!ll_decompress(out, outsize, P, nc, w, h, dec, &warns, &err)) { bad = 1; snprintf(why, sizeof(why), "own decompressor failed (error %d)", err); if (!layout_op) printf(" dec none\n"); }
  else if (!layout_op) {                                  /* what the decompressor returned, for the model's llDecode */
    unsigned char *b = (unsigned char *)malloc(n * 2 + 1);
    for (i = 0; i < n; i++) { b[2 * i] = (unsigned char)(dec[i] & 255); b[2 * i + 1] = (unsigned char)(dec[i] >> 8); }
    printf(" dec %zu:%llu\n", n, fnv(b, n * 2)); free(b);
  }
  if (bad) ;
  else if (warns) { bad = 1; snprintf(why, sizeof(why), "own decompressor warned (%d warnings, first code %d)", warns, err); }
  else for (i = 0; i < n; i++) {
    unsigned exp = ((unsigned)img[i] >> Pt) << Pt;
    if (dec[i] != exp) { bad = 1; snprintf(why, sizeof(why), "sample %zu: got %u expected %u (orig %u)", i, dec[i], exp, img[i]); break; }
  }
  /* TurboJPEG decode of the same stream */
  if (!bad && (nc == 1 || nc == 3 || nc == 4)) {
    tjhandle hd = tj3Init(TJINIT_DECOMPRESS); int pf = nc == 1 ? TJPF_GRAY : nc == 3 ? TJPF_RGB : TJPF_CMYK, rc;
    memset(dec, 0x5A, n * 2);
    if (P <= 8) { unsigned char *b8 = (unsigned char *)malloc(n); rc = tj3Decompress8(hd, out, outsize, b8, 0, pf); for (i = 0; i < n; i++) dec[i] = b8[i]; free(b8); }
    else if (P <= 12) rc = tj3Decompress12(hd, out, outsize, (short *)dec, 0, pf);
    else rc = tj3Decompress16(hd, out, outsize, dec, 0, pf);
    if (rc < 0) {
      if (!ycc) { bad = 1; snprintf(why, sizeof(why), "TurboJPEG decompress: %s", tj3GetErrorStr(hd)); }
    } else if (!ycc) for (i = 0; i < n; i++) {
      unsigned exp = ((unsigned)img[i] >> Pt) << Pt;
      if (dec[i] != exp) { bad = 1; snprintf(why, sizeof(why), "TurboJPEG sample %zu: got %u expected %u", i, dec[i], exp); break; }
    }
    tj3Destroy(hd);
  }
  if (bad) printf("O fail llenc %s\n", why); else printf("O ok\n");
done:
  free(img); free(dec); free(out);
  return 1;
}

/* lltj <P> <Pt> <psv> <Rrows> <pf> <w> <h> <kind> <seed> <bottomup> <pitchpad> : TurboJPEG API both ways,
 * any packed layout / row order / pitch (oracle only) */
static int op_lltj(toks_t *t)
{
  int P = (int)tl(t, 1), Pt = (int)tl(t, 2), psv = (int)tl(t, 3), R = (int)tl(t, 4), pf = (int)tl(t, 5);
  int w = (int)tl(t, 6), h = (int)tl(t, 7), kind = (int)tl(t, 8), bu = (int)tl(t, 10), pad = (int)tl(t, 11);
  unsigned long long seed = (unsigned long long)tll(t, 9);
  int ps = tjPixelSize[pf], pitch = w * ps + pad, x, y, ch, rc, bad = 0;
  size_t n = (size_t)pitch * h;
  unsigned short *src = (unsigned short *)calloc(n + 1, 2), *dst = (unsigned short *)calloc(n + 1, 2);
  unsigned char *jb = NULL; size_t js = 0; char why[200] = "";
  tjhandle hc = tj3Init(TJINIT_COMPRESS), hd = tj3Init(TJINIT_DECOMPRESS);
  for (y = 0; y < h; y++) for (x = 0; x < pitch; x++)
    src[(size_t)y * pitch + x] = (unsigned short)ll_sample(P, x < w * ps ? kind : 0, seed + 3, (unsigned long long)y * pitch + x, x / ps);
  tj3Set(hc, TJPARAM_PRECISION, P); tj3Set(hc, TJPARAM_LOSSLESS, 1); tj3Set(hc, TJPARAM_LOSSLESSPSV, psv); tj3Set(hc, TJPARAM_LOSSLESSPT, Pt);
  tj3Set(hc, TJPARAM_BOTTOMUP, bu); if (R) tj3Set(hc, TJPARAM_RESTARTROWS, R);
  tj3Set(hd, TJPARAM_BOTTOMUP, bu);
  if (P <= 8) {
    unsigned char *s8 = (unsigned char *)malloc(n), *d8 = (unsigned char *)calloc(n, 1); size_t i;
    for (i = 0; i < n; i++) s8[i] = (unsigned char)src[i];
    rc = tj3Compress8(hc, s8, w, pitch, h, pf, &jb, &js);
    if (rc == 0) rc = tj3Decompress8(hd, jb, js, d8, pitch, pf) < 0 ? -2 : 0;
    for (i = 0; i < n; i++) dst[i] = d8[i];
    free(s8); free(d8);
  } else if (P <= 12) {
    rc = tj3Compress12(hc, (short *)src, w, pitch, h, pf, &jb, &js);
    if (rc == 0) rc = tj3Decompress12(hd, jb, js, (short *)dst, pitch, pf) < 0 ? -2 : 0;
  } else {
    rc = tj3Compress16(hc, src, w, pitch, h, pf, &jb, &js);
    if (rc == 0) rc = tj3Decompress16(hd, jb, js, dst, pitch, pf) < 0 ? -2 : 0;
  }
  if (rc == -1) { printf("R comperr\n"); printf("O fail lltj compress: %s\n", tj3GetErrorStr(hc)); goto done; }
  printf("R ok\n");
  if (rc == -2) { bad = 1; snprintf(why, sizeof(why), "decompress: %s", tj3GetErrorStr(hd)); }
  for (y = 0; y < h && !bad; y++) for (x = 0; x < w && !bad; x++) for (ch = 0; ch < ps; ch++) {
    unsigned s = src[(size_t)y * pitch + x * ps + ch], d = dst[(size_t)y * pitch + x * ps + ch], exp = (s >> Pt) << Pt;
    int isx = (tjAlphaOffset[pf] < 0 && ps == 4 && pf != TJPF_CMYK &&
               ch != tjRedOffset[pf] && ch != tjGreenOffset[pf] && ch != tjBlueOffset[pf]);
    if (isx) continue;                                   /* unused byte: not part of the picture */
    if (tjAlphaOffset[pf] == ch) exp = P <= 8 ? 255 : P <= 12 ? 4095 : 65535;   /* alpha = maximum of the sample type (_MAXJSAMPLE) */
    if (d != exp) { bad = 1; snprintf(why, sizeof(why), "pixel (%d,%d) channel %d: got %u expected %u", x, y, ch, d, exp); break; }
  }
  if (bad) printf("O fail lltj %s\n", why); else printf("O ok\n");
done:
  tj3Free(jb); free(src); free(dst); tj3Destroy(hc); tj3Destroy(hd);
  return 1;
}

static int dispatch_c02(toks_t *t)
{
  const char *op = t->tok[0];
  if (!strcmp(op, "llenc")) return op_llenc(t);
  if (!strcmp(op, "llscan") && t->n > 11) return op_llenc(t);
  if (!strcmp(op, "lltj")) return op_lltj(t);
  return 0;
}
