import LJT.Proofs.ICC
import LJT.Proofs.HeaderIO
import LJT.Model.Header
import LJT.Proofs.CopyOpt
/-!
# C16 - Header parameters and embedded metadata round-trip intact

Full statement: dimensions, precision, colourspace, subsampling level, progressive /
arithmetic / lossless flags, predictor and point transform, density and units reported by
header reading equal what was used to compress; an ICC profile of any length from 1 byte
to 255 segments and COM/APPn markers up to 65533 bytes are returned byte-identical and in
order; the transformer copies or drops extra markers exactly as the copy option says.

Proved here: the ICC clause at full strength (every length, every arrangement of the
segments among other markers), the saved-marker prefix rule, and the
sampling-factor -> subsampling-level map for all seven levels.  The remaining header fields
and the copy options are decided by the correspondence / oracle run on the real library
(`hdr`, `msave` ops) and are listed as partial in MANIFEST.json.
-/
namespace LJT.C16
open LJT.ICC LJT.Header LJT.Gen

/-- **ICC round trip, any length**: for every profile of 1 .. 255 x 65519 bytes, reading
the markers the writer emits returns exactly the profile. -/
theorem icc_roundtrip (p : List Nat) (h1 : 1 ≤ p.length) (h2 : p.length ≤ 255 * 65519) :
    readICC (writeICC p) = some p :=
  readICC_of_perm p h1 h2 (writeICC p) (by
    have : (writeICC p).filter isICC = writeICC p := by
      unfold writeICC; exact filter_mkMarkers _ _ _
    rw [this])

/-- **ICC round trip, order-insensitive, foreign markers ignored**: the APP2 segments may
appear in any order and be interleaved with arbitrary other saved markers (including APP2
markers that do not carry the ICC signature). -/
theorem icc_order_insensitive (p : List Nat) (h1 : 1 ≤ p.length) (h2 : p.length ≤ 255 * 65519)
    (ms : List (Nat × List Nat)) (hperm : (ms.filter isICC).Perm (writeICC p)) :
    readICC ms = some p :=
  readICC_of_perm p h1 h2 ms hperm

/-- the writer emits exactly `ceil(len / 65519)` segments, each within the marker size limit -/
theorem icc_segment_count (p : List Nat) :
    (writeICC p).length = (p.length + 65519 - 1) / 65519 := by
  have : ∀ n k (L : List (List Nat)), (mkMarkers n k L).length = L.length := by
    intro n k L; induction L generalizing k with
    | nil => rfl
    | cons c cs ih => simp [mkMarkers, ih]
  unfold writeICC
  rw [this, chunks_length _ _ (Nat.le_refl _)]
  rfl

/-- **Saved markers**: a marker saved with limit `l` keeps exactly the first
`min l length` bytes and reports the original length (APP0/APP14 keep at least the bytes
the library itself needs). -/
theorem marker_save_prefix (code limit : Nat) (data : List Nat) (d : List Nat) (orig : Nat)
    (h : saved code limit data = some (d, orig)) :
    d = data.take (saveLimit code limit) ∧ orig = data.length ∧ d.length = min (saveLimit code limit) data.length := by
  unfold saved at h
  simp only at h
  split at h
  · cases h
  · injection h with h
    obtain ⟨h1, h2⟩ := Prod.mk.inj h
    refine ⟨?_, h2.symm, ?_⟩
    · rw [← h1]
      by_cases hl : saveLimit code limit ≤ data.length
      · rw [Nat.min_eq_left hl]
      · rw [Nat.min_eq_right (by omega), List.take_of_length_le (Nat.le_refl _),
          List.take_of_length_le (by omega)]
    · rw [← h1]; simp

/-- **Subsampling level is recovered from the sampling factors** for every level and for
3-component as well as 4-component (CMYK/YCCK) images; grayscale reports TJSAMP_GRAY. -/
theorem subsamp_of_factors :
    (∀ s, s < TJ_NUMSAMP → s ≠ TJSAMP_GRAY →
      getSubsamp 3 JCS_YCbCr [(mw s, mh s), (1, 1), (1, 1)] = (s : Int) ∧
      getSubsamp 4 JCS_YCCK [(mw s, mh s), (1, 1), (1, 1), (mw s, mh s)] = (s : Int) ∧
      getSubsamp 4 JCS_CMYK [(mw s, mh s), (1, 1), (1, 1), (mw s, mh s)] = (s : Int)) ∧
    getSubsamp 1 JCS_GRAYSCALE [(1, 1)] = (TJSAMP_GRAY : Int) := by
  refine ⟨?_, by decide⟩
  intro s hs hg
  have : s = 0 ∨ s = 1 ∨ s = 2 ∨ s = 3 ∨ s = 4 ∨ s = 5 ∨ s = 6 := by
    simp [TJ_NUMSAMP] at hs; omega
  rcases this with rfl | rfl | rfl | rfl | rfl | rfl | rfl <;> first | (exact absurd rfl hg) | decide

open LJT.CopyOpt in
/-- **Copy options select exactly the documented subset, whatever the instance did
before**: on a source object whose marker-save settings were accumulated by any history of
earlier transforms, a transform with option `o` outputs exactly the source's COM/APPn
markers that the option documents, in source order, minus a JFIF/Adobe marker the encoder
already wrote itself. -/
theorem copy_option_spec (hist : List Opt) (o : Opt) (wj wa : Bool) (src : List (Nat × List Nat))
    (hsrc : ∀ m ∈ src, m.1 = CopyOpt.COM ∨ isAPPn m.1 = true) :
    transform (savedAfter hist) o wj wa src =
      src.filter (fun m => documented o m && !(wj && isJFIF m) && !(wa && isAdobe m)) :=
  transform_spec _ o wj wa src hsrc

-- non-vacuity: a 70000-byte profile needs two segments and meets the hypotheses
example : 1 ≤ 70000 ∧ 70000 ≤ 255 * 65519 ∧ numMarkers 70000 = 2 := by decide


open LJT.HeaderIO in
/-- **Pixel density, units and JFIF version round-trip** through `emit_jfif_app0` and `examine_app0`, for every
value the fields can hold and **whatever length limit** an application gave `jpeg_save_markers` for APP0
(none, 0, below or above the 14 bytes the library needs): the marker reader sees at least those 14 bytes. -/
theorem jfif_fields_roundtrip (j : Jfif) (h1 : j.major < 256) (h2 : j.minor < 256) (h3 : j.unit < 256)
    (h4 : j.xd < 65536) (h5 : j.yd < 65536) (limit : Nat) :
    examineApp0 ((jfifPayload j).take (examinedLen 0xE0 limit 14)) = some j :=
  jfif_roundtrip j h1 h2 h3 h4 h5 limit

open LJT.HeaderIO in
/-- **The Adobe colour-transform byte round-trips** (how CMYK / YCCK / RGB files tell their colourspace), under any
APP14 save limit. -/
theorem adobe_transform_roundtrip (t : Nat) (h : t < 256) (limit : Nat) :
    examineApp14 ((adobePayload t).take (examinedLen 0xEE limit 12)) = some t :=
  adobe_roundtrip t h limit

open LJT.HeaderIO in
/-- **Frame header round trip**: data precision, height, width, and per component the identifier, both sampling
factors and the quantisation-table selector, for every frame `emit_sof` can write (dimensions 1..65535, 1..255
components, sampling factors and selectors that fit their fields). -/
theorem frame_header_roundtrip (s : Sof) (hp : s.precision < 256) (hh1 : 1 ≤ s.height) (hh : s.height < 65536)
    (hw1 : 1 ≤ s.width) (hw : s.width < 65536) (hn1 : 1 ≤ s.comps.length) (hn : s.comps.length < 256)
    (hc : ∀ c ∈ s.comps, c.id < 256 ∧ c.h < 16 ∧ c.v < 16 ∧ c.tq < 256) :
    parseSof (sofBytes s) = some s :=
  sof_roundtrip s hp hh1 hh hw1 hw hn1 hn hc

open LJT.HeaderIO in
/-- **Restart interval, predictor selection value and point transform round-trip** (DRI; the `Ss Se Ah|Al` bytes
that end a scan header carry the lossless predictor in `Ss` and the point transform in `Al`). -/
theorem restart_and_scan_parameters_roundtrip (ri ss se ah al : Nat) (h0 : ri < 65536) (h1 : ss < 256) (h2 : se < 256)
    (h3 : ah < 16) (h4 : al < 16) :
    parseDri (driBytes ri) = some ri ∧ parseSosParams (sosParams ss se ah al) = some (ss, se, ah, al) :=
  ⟨dri_roundtrip ri h0, sos_params_roundtrip ss se ah al h1 h2 h3 h4⟩

-- non-vacuity
open LJT.HeaderIO in
example : parseSof (sofBytes ⟨8, 480, 640, [⟨1, 2, 2, 0⟩, ⟨2, 1, 1, 1⟩, ⟨3, 1, 1, 1⟩]⟩) =
    some ⟨8, 480, 640, [⟨1, 2, 2, 0⟩, ⟨2, 1, 1, 1⟩, ⟨3, 1, 1, 1⟩]⟩ := by decide +kernel


end LJT.C16
