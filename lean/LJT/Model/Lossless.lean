import LJT.Model.Huff
import LJT.Model.Bits
import LJT.Model.Nbits
/-! Lossless (predictive) JPEG: point transform, predictors and differencing
(jclossls.c, jcdiffct.c), undifferencing (jdlossls.c, jddiffct.c), difference
category coding (jclhuff.c, jdlhuff.c).  All sampling factors are 1 (the compressor
forces this in lossless mode, jcmaster.c), so an MCU is one sample of each component of
the scan.  `img[ci][y][x]`. -/
namespace LJT.LL

/-- PREDICTOR1..7 of jlossls.h; `RIGHT_SHIFT(x, 1)` is the arithmetic (floor) shift -/
def predictor (psv : Nat) (Ra Rb Rc : Int) : Int :=
  match psv with
  | 1 => Ra
  | 2 => Rb
  | 3 => Rc
  | 4 => Ra + Rb - Rc
  | 5 => Ra + (Rb - Rc) / 2
  | 6 => Rb + (Ra - Rc) / 2
  | _ => (Ra + Rb) / 2

/-! ### differencing of one row -/

/-- columns 1.. of a row: `Ra` = sample to the left, `Rc` = sample above-left,
`prev` = rest of the row above (its head is `Rb`) -/
def diffTail (psv : Nat) : Int → Int → List Int → List Int → List Int
  | Ra, Rc, c :: cs, Rb :: ps => (c - predictor psv Ra Rb Rc) :: diffTail psv c Rb cs ps
  | _, _, _, _ => []

/-- 1-D horizontal differencing of columns 1.. -/
def diff1D : Int → List Int → List Int
  | _, [] => []
  | Ra, c :: cs => (c - Ra) :: diff1D c cs

/-- `jpeg_difference_first_row`: first column against `2^(P-Pt-1)`, then predictor 1 -/
def diffFirstRow (init : Int) : List Int → List Int
  | [] => []
  | c :: cs => (c - init) :: diff1D c cs

/-- `jpeg_difference1..7`: first column against the sample above, then predictor `psv`
(predictor 1 does not look at the row above after the first column) -/
def diffRow (psv : Nat) (prev cur : List Int) : List Int :=
  match cur, prev with
  | c :: cs, p :: ps => (c - p) :: (if psv = 1 then diff1D c cs else diffTail psv c p cs ps)
  | _, _ => []

/-! ### undifferencing of one row (`& 0xFFFF`) -/

def m16 (x : Int) : Int := x % 65536

def undiffTail (psv : Nat) : Int → Int → List Int → List Int → List Int
  | Ra, Rc, d :: ds, Rb :: ps =>
    let r := m16 (d + predictor psv Ra Rb Rc)
    r :: undiffTail psv r Rb ds ps
  | _, _, _, _ => []

def undiff1D : Int → List Int → List Int
  | _, [] => []
  | Ra, d :: ds => let r := m16 (d + Ra); r :: undiff1D r ds

def undiffFirstRow (init : Int) : List Int → List Int
  | [] => []
  | d :: ds => let r := m16 (d + init); r :: undiff1D r ds

def undiffRow (psv : Nat) (prev ds : List Int) : List Int :=
  match ds, prev with
  | d :: ds, p :: ps =>
    let r := m16 (d + p)
    r :: (if psv = 1 then undiff1D r ds else undiffTail psv r p ds ps)
  | _, _ => []

/-! ### restart bookkeeping: which rows use the first-row function -/

/-- compressor (jclossls.c): state `(first, restart_rows_to_go)`; `R` = rows per restart
interval (0 = no restarts).  Returns the flag used for this row and the next state. -/
def encStep (R : Nat) (st : Bool × Nat) : Bool × (Bool × Nat) :=
  let togo1 := if R > 0 then st.2 - 1 else st.2
  if R > 0 ∧ togo1 = 0 then (st.1, (true, R)) else (st.1, (false, togo1))

def encFlags (R : Nat) : Nat → Bool × Nat → List Bool
  | 0, _ => []
  | n + 1, st => let (f, st') := encStep R st; f :: encFlags R n st'

/-- decompressor (jddiffct.c + jdlossls.c): state `(first, restart_rows_to_go)`;
a restart is processed before the row when the counter is 0 -/
def decStep (R : Nat) (st : Bool × Nat) : Bool × (Bool × Nat) :=
  let st1 : Bool × Nat := if R > 0 ∧ st.2 = 0 then (true, R) else st
  let togo := if R > 0 then st1.2 - 1 else st1.2
  (st1.1, (false, togo))

def decFlags (R : Nat) : Nat → Bool × Nat → List Bool
  | 0, _ => []
  | n + 1, st => let (f, st') := decStep R st; f :: decFlags R n st'

/-! ### a whole component -/

/-- difference all rows; `prev` = the previous (scaled) input row -/
def diffRows (psv : Nat) (init : Int) : List Bool → List Int → List (List Int) → List (List Int)
  | f :: fs, prev, row :: rows =>
    (if f then diffFirstRow init row else diffRow psv prev row) :: diffRows psv init fs row rows
  | _, _, _ => []

def undiffRows (psv : Nat) (init : Int) : List Bool → List Int → List (List Int) → List (List Int)
  | f :: fs, prev, ds :: dss =>
    let r := if f then undiffFirstRow init ds else undiffRow psv prev ds
    r :: undiffRows psv init fs r dss
  | _, _, _ => []

/-! ### difference categories (H.1.2.2 as coded) -/

/-- number of significant bits (the `while (temp) { nbits++; temp >>= 1; }` loop) -/
def bitLen (fuel x : Nat) : Nat := LJT.nbitsClz fuel x

/-- `(nbits, extra-bit value, number of extra bits)` for a difference, as coded in
`encode_mcus_huff`: the difference is taken modulo 2^16 -/
def category (d : Int) : Nat × Nat × Nat :=
  let v := (d % 65536).toNat                 -- low 16 bits of the int
  if v ≥ 32768 then
    let mag := (65536 - v) % 32768            -- (-temp) & 0x7FFF
    if mag = 0 then (16, 0, 0)
    else
      let nb := bitLen 17 mag
      (nb, 2 ^ nb - 1 - mag, nb)              -- low nb bits of ~mag
  else
    let nb := bitLen 17 v
    (nb, v, nb)

/-- the decoder's value for `(s, r)`: `HUFF_EXTEND`, with category 16 meaning 32768 -/
def extend (s r : Nat) : Int :=
  if s = 0 then 0
  else if s = 16 then 32768
  else if r < 2 ^ (s - 1) then (r : Int) - (2 ^ s - 1 : Nat) else r

def natBits (v n : Nat) : List Bool := Huff.codeBits v n

def bitsNat (bs : List Bool) : Nat := bs.foldl (fun a b => a * 2 + (if b then 1 else 0)) 0

/-- bits of one coded difference with the encoder-side table of its component -/
def itemBits (c : Huff.CDerived) (d : Int) : Option (List Bool) :=
  let (nb, ex, nex) := category d
  match Huff.encode c nb with
  | none => none
  | some code => some (code ++ natBits ex nex)

/-- decode one difference -/
def decodeItem (dd : Huff.DDerived) (bs : List Bool) : Option (Int × List Bool) :=
  match Huff.decode dd bs with
  | none => none
  | some (s, _, rest) =>
    if s = 0 then some (0, rest)
    else if s = 16 then some (32768, rest)
    else if rest.length < s then none
    else some (extend s (bitsNat (rest.take s)), rest.drop s)

/-! ### MCU order -/

/-- the differences of one MCU row (one image row), MCU by MCU: for each column, one
difference of each component of the scan -/
def interleaveRow : List (List Int) → List (Nat × Int)
  | rows =>
    let w := (rows.headD []).length
    (List.range w).flatMap (fun x => rows.zipIdx.map (fun (r, ci) => (ci, r.getD x 0)))

end LJT.LL

namespace LJT.LL

structure Params where
  P : Nat          -- data precision, 2..16
  Pt : Nat         -- point transform (Al)
  psv : Nat        -- predictor selection value (Ss), 1..7
  R : Nat          -- restart interval in rows (0 = none)
deriving Repr

def initPred (p : Params) : Int := ((2 ^ (p.P - p.Pt - 1) : Nat) : Int)

/-- `simple_downscale` -/
def downscale (Pt : Nat) (rows : List (List Nat)) : List (List Int) :=
  rows.map (fun r => r.map (fun s => ((s >>> Pt : Nat) : Int)))

/-- `simple_upscale` / `noscale`: shift left and narrow to the sample type (16 bits here) -/
def upscale (Pt : Nat) (rows : List (List Int)) : List (List Nat) :=
  rows.map (fun r => r.map (fun s => (s.toNat <<< Pt) % 65536))

/-- differences of every component, `[ci][y][x]` -/
def encodeDiffs (p : Params) (img : List (List (List Nat))) : List (List (List Int)) :=
  img.map (fun rows =>
    diffRows p.psv (initPred p) (encFlags p.R rows.length (true, p.R)) [] (downscale p.Pt rows))

/-- transpose `[ci][y]` into `[y][ci]` for `h` rows -/
def byRow (comps : List (List (List Int))) (h : Nat) : List (List (List Int)) :=
  (List.range h).map (fun y => comps.map (fun rows => rows.getD y []))

/-- the coded items of the scan grouped into restart segments (`R` rows each) -/
def segmentsOf (R : Nat) (rowsItems : List (List (Nat × Int))) : List (List (Nat × Int)) :=
  if R = 0 then [rowsItems.flatten]
  else
    let rec go : Nat → List (List (Nat × Int)) → List (List (Nat × Int))
      | 0, _ => []
      | _ + 1, [] => []
      | f + 1, r :: rs => ((r :: rs).take R).flatten :: go f ((r :: rs).drop R)
    go rowsItems.length rowsItems

/-- statistics pass (`encode_mcus_gather`): histogram of categories per table -/
def gather (tblOf : List Nat) (items : List (Nat × Int)) (tbl : Nat) : List Nat :=
  let fr := items.foldl (fun (a : Array Nat) (ci, d) =>
    if tblOf.getD ci 0 = tbl then a.modify (category d).1 (· + 1) else a) (Array.replicate 257 0)
  fr.toList

/-- the bits of a sequence of coded differences (component index, difference) -/
def segBits (cds : List Huff.CDerived) (tblOf : List Nat) : List (Nat × Int) → Option (List Bool)
  | [] => some []
  | (ci, d) :: is =>
    match itemBits (cds.getD (tblOf.getD ci 0) ⟨[], []⟩) d, segBits cds tblOf is with
    | some b, some r => some (b ++ r)
    | _, _ => none

/-- decode the `k` differences of one MCU, components `ci, ci+1, ..` -/
def decodeMcu (dds : List Huff.DDerived) (tblOf : List Nat) :
    Nat → Nat → List Bool → Option (List (Nat × Int) × List Bool)
  | 0, _, bs => some ([], bs)
  | k + 1, ci, bs =>
    match decodeItem (dds.getD (tblOf.getD ci 0) ⟨[], [], [], []⟩) bs with
    | none => none
    | some (d, rest) =>
      match decodeMcu dds tblOf k (ci + 1) rest with
      | none => none
      | some (ds, rest') => some ((ci, d) :: ds, rest')

/-- decode `n` MCUs of `nc` components each from a bit list; returns the items and the
unread bits (padding) -/
def decodeItems (dds : List Huff.DDerived) (tblOf : List Nat) (nc : Nat) :
    Nat → List Bool → Option (List (Nat × Int) × List Bool)
  | 0, bs => some ([], bs)
  | n + 1, bs =>
    match decodeMcu dds tblOf nc 0 bs with
    | none => none
    | some (ds, rest) =>
      match decodeItems dds tblOf nc n rest with
      | none => none
      | some (more, rest') => some (ds ++ more, rest')

end LJT.LL
