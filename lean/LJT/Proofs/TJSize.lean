import LJT.Model.TJSize
import LJT.Proofs.BitLemmas
namespace LJT.TJ
open LJT.Gen

theorem padULL_eq (v k : Nat) (hk : k ≤ 31) (hv : v < 2 ^ 63) :
    padULL v (2 ^ k) = ceilMul v (2 ^ k) := by
  unfold padULL ceilMul ULL
  have hp : 2 ^ k ≤ 2 ^ 31 := Nat.pow_le_pow_right (by omega) hk
  have hpos : 0 < 2 ^ k := Nat.two_pow_pos k
  have hlt : v + 2 ^ k - 1 < 2 ^ 64 := by
    have : (2:Nat) ^ 31 < 2 ^ 63 := by decide
    have : (2:Nat) ^ 63 + 2 ^ 63 = 2 ^ 64 := by decide
    omega
  rw [Nat.mod_eq_of_lt hlt]
  exact land_mask _ k 64 (by omega) hlt

theorem ceilMul_ge (v p : Nat) (hp : 0 < p) : v ≤ ceilMul v p := by
  unfold ceilMul
  have h1 := Nat.div_add_mod (v + p - 1) p
  have h2 := Nat.mod_lt (v + p - 1) hp
  have : (v + p - 1) / p * p = p * ((v + p - 1) / p) := Nat.mul_comm _ _
  omega

theorem ceilMul_lt (v p : Nat) (hp : 0 < p) : ceilMul v p < v + p := by
  unfold ceilMul
  have h1 := Nat.div_add_mod (v + p - 1) p
  have : (v + p - 1) / p * p = p * ((v + p - 1) / p) := Nat.mul_comm _ _
  omega

theorem ceilMul_dvd (v p : Nat) : p ∣ ceilMul v p := ⟨(v + p - 1) / p, Nat.mul_comm _ _⟩

theorem ceilMul_div (v p : Nat) (hp : 0 < p) : ceilMul v p / p = (v + p - 1) / p := by
  unfold ceilMul; exact Nat.mul_div_cancel _ hp

/-- the three iMCU sizes that occur, as powers of two -/
theorem mcu_cases (s : Int) (h : validSubsamp s = true) :
    (mcuW s = 8 ∨ mcuW s = 16 ∨ mcuW s = 32) ∧ (mcuH s = 8 ∨ mcuH s = 16 ∨ mcuH s = 32) := by
  simp only [validSubsamp, Bool.and_eq_true, decide_eq_true_eq] at h
  obtain ⟨h0, h1⟩ := h
  have : s = 0 ∨ s = 1 ∨ s = 2 ∨ s = 3 ∨ s = 4 ∨ s = 5 ∨ s = 6 := by
    simp [TJ_NUMSAMP] at h1; omega
  rcases this with rfl | rfl | rfl | rfl | rfl | rfl | rfl <;> decide

end LJT.TJ

namespace LJT.TJ
open LJT.Gen

theorem planeDim_closed (comp dim s : Int) (mcu : Nat) (hm : mcu = 8 ∨ mcu = 16 ∨ mcu = 32)
    (hs : validSubsamp s = true) (hd : 1 ≤ dim) (hd2 : dim ≤ 2147483647)
    (hc : 0 ≤ comp) (hc2 : comp < (if s = (TJSAMP_GRAY : Int) then 1 else 3)) :
    planeDim comp dim s mcu =
      (let r := if comp = 0 then lumaDim dim.toNat mcu else chromaDim dim.toNat mcu
       if r > INT_MAX then 0 else r) := by
  have hv : dim.toNat < 2 ^ 63 := by
    have : dim.toNat ≤ 2147483647 := by omega
    have : (2147483647 : Nat) < 2 ^ 63 := by decide
    omega
  have h1 : ¬ (dim < 1) := by omega
  have h2 : ¬ (comp < 0) := by omega
  have h3 : ¬ (comp ≥ (if s = (TJSAMP_GRAY : Int) then 1 else 3)) := by omega
  unfold planeDim
  simp only [h1, hs, h2, h3, decide_false, Bool.not_true, Bool.or_self, Bool.false_eq_true, if_false,
    decide_eq_true_eq, Bool.or_false]
  have key : ∀ k, k ≤ 2 → mcu / 8 = 2 ^ k → mcu = 8 * 2 ^ k →
      (if (if comp = 0 then padULL dim.toNat (mcu / 8) else padULL dim.toNat (mcu / 8) * 8 % ULL / mcu) > INT_MAX then 0
        else if comp = 0 then padULL dim.toNat (mcu / 8) else padULL dim.toNat (mcu / 8) * 8 % ULL / mcu) =
      (if (if comp = 0 then lumaDim dim.toNat mcu else chromaDim dim.toNat mcu) > INT_MAX then 0
        else if comp = 0 then lumaDim dim.toNat mcu else chromaDim dim.toNat mcu) := by
    intro k hk hk8 hmk
    have hp := padULL_eq dim.toNat k (by omega) hv
    have hpos : 0 < 2 ^ k := Nat.two_pow_pos k
    have hle : 2 ^ k ≤ 4 := by
      have : 2 ^ k ≤ 2 ^ 2 := Nat.pow_le_pow_right (by omega) hk
      simpa using this
    have hlt := ceilMul_lt dim.toNat (2 ^ k) hpos
    have hsmall : ceilMul dim.toNat (2 ^ k) * 8 < ULL := by
      unfold ULL
      have : (2:Nat) ^ 63 = 9223372036854775808 := by decide
      have : (2:Nat) ^ 64 = 18446744073709551616 := by decide
      have : dim.toNat ≤ 2147483647 := by omega
      omega
    unfold lumaDim chromaDim
    rw [hk8, hp, Nat.mod_eq_of_lt hsmall, hmk]
    have : ceilMul dim.toNat (2 ^ k) * 8 / (8 * 2 ^ k) = (dim.toNat + 2 ^ k - 1) / 2 ^ k := by
      rw [Nat.mul_comm _ 8, Nat.mul_div_mul_left _ _ (by omega : 0 < 8)]
      exact ceilMul_div _ _ hpos
    rw [this]
  rcases hm with rfl | rfl | rfl
  · exact key 0 (by omega) (by decide) (by decide)
  · exact key 1 (by omega) (by decide) (by decide)
  · exact key 2 (by omega) (by decide) (by decide)

end LJT.TJ

namespace LJT.TJ
open LJT.Gen

theorem isPow2_two_pow (k : Nat) : isPow2 ((2 ^ k : Nat) : Int) = true := by
  unfold isPow2
  simp only [Int.toNat_natCast, beq_iff_eq]
  apply Nat.eq_of_testBit_eq
  intro i
  rw [Nat.testBit_and, Nat.testBit_two_pow, Nat.testBit_two_pow_sub_one]
  by_cases h : k = i
  · subst h; simp
  · simp [h]

/-- stride of plane `i` in a unified buffer with row alignment `al` -/
def planeStride (i : Nat) (w al s : Int) : Nat := ceilMul (yuvPlaneWidth i w s) al.toNat

/-- what `tj3YUVBufSize` adds for plane `i` -/
def planeBytes (i : Nat) (w al h s : Int) : Nat := planeStride i w al s * yuvPlaneHeight i h s

/-- a plane is usable: non-zero dimensions and a stride that fits `int` -/
def planeOK (i : Nat) (w al h s : Int) : Prop :=
  yuvPlaneWidth i w s ≠ 0 ∧ yuvPlaneHeight i h s ≠ 0 ∧ planeStride i w al s ≤ INT_MAX

theorem ite_zero_le {c : Prop} [Decidable c] {x m : Nat} (h : x ≤ m) :
    (if c then 0 else x) ≤ m := by split <;> omega

theorem clampZero_le (r m : Nat) : (if r > m then 0 else r) ≤ m := by split <;> omega

theorem planeDim_le (comp dim s : Int) (mcu : Nat) : planeDim comp dim s mcu ≤ INT_MAX := by
  unfold planeDim
  dsimp only
  apply ite_zero_le
  apply ite_zero_le
  exact clampZero_le _ _

theorem yuvPlaneWidth_le (i : Nat) (w s : Int) : yuvPlaneWidth i w s ≤ INT_MAX := planeDim_le _ _ _ _
theorem yuvPlaneHeight_le (i : Nat) (h s : Int) : yuvPlaneHeight i h s ≤ INT_MAX := planeDim_le _ _ _ _

theorem go_step (w al h s : Int) (k : Nat) (hk : k ≤ 30) (hal : al = ((2 ^ k : Nat) : Int))
    (n i acc : Nat) (hok : planeOK i w al h s) (hacc : acc ≤ 2 * (INT_MAX * INT_MAX)) :
    yuvBufSize.go w al h s (n + 1) i acc = yuvBufSize.go w al h s n (i + 1) (acc + planeBytes i w al h s) := by
  obtain ⟨h1, h2, h3⟩ := hok
  have hpw := yuvPlaneWidth_le i w s
  have hph := yuvPlaneHeight_le i h s
  have hpad : padULL (yuvPlaneWidth i w s) al.toNat = planeStride i w al s := by
    unfold planeStride
    rw [hal]; simp only [Int.toNat_natCast]
    exact padULL_eq _ k (by omega) (by unfold INT_MAX at hpw; have : (2147483647:Nat) < 2 ^ 63 := by decide
                                       omega)
  conv => lhs; unfold yuvBufSize.go
  simp only [h1, h2, Bool.or_self, decide_false, Bool.false_eq_true, if_false, hpad]
  have h3' : ¬ (planeStride i w al s > INT_MAX) := by omega
  simp only [h3', if_false]
  have hb : planeStride i w al s * yuvPlaneHeight i h s ≤ INT_MAX * INT_MAX := Nat.mul_le_mul h3 hph
  have : acc + planeStride i w al s * yuvPlaneHeight i h s < ULL := by
    unfold ULL INT_MAX at *
    have : (2147483647:Nat) * 2147483647 = 4611686014132420609 := by decide
    have : (2:Nat) ^ 64 = 18446744073709551616 := by decide
    omega
  rw [Nat.mod_eq_of_lt this]
  rfl

end LJT.TJ

namespace LJT.TJ
open LJT.Gen

theorem yuvBufSize_color (w al h s : Int) (k : Nat) (hk : k ≤ 30) (hal : al = ((2 ^ k : Nat) : Int))
    (hs : validSubsamp s = true) (hg : s ≠ (TJSAMP_GRAY : Int))
    (h0 : planeOK 0 w al h s) (h1 : planeOK 1 w al h s) (h2 : planeOK 2 w al h s) :
    yuvBufSize w al h s = planeBytes 0 w al h s + planeBytes 1 w al h s + planeBytes 2 w al h s := by
  have hpos : ¬ (al < 1) := by
    have := Nat.two_pow_pos k; rw [hal]; omega
  have hp2 : isPow2 al = true := by rw [hal]; exact isPow2_two_pow k
  have hb : ∀ i, planeOK i w al h s → planeBytes i w al h s ≤ INT_MAX * INT_MAX := by
    intro i ⟨_, _, h3⟩
    exact Nat.mul_le_mul h3 (yuvPlaneHeight_le i h s)
  unfold yuvBufSize
  simp only [hpos, hp2, hs, hg, decide_false, Bool.not_true, Bool.or_self, Bool.false_eq_true, if_false]
  have e0 := go_step w al h s k hk hal 2 0 0 h0 (by omega)
  have e1 := go_step w al h s k hk hal 1 1 (0 + planeBytes 0 w al h s) h1 (by have := hb 0 h0; omega)
  have e2 := go_step w al h s k hk hal 0 2 (0 + planeBytes 0 w al h s + planeBytes 1 w al h s) h2
    (by have := hb 0 h0; have := hb 1 h1; omega)
  simp only [Nat.zero_add] at e0 e1 e2
  rw [e0, e1, e2]
  rfl

theorem yuvBufSize_gray (w al h s : Int) (k : Nat) (hk : k ≤ 30) (hal : al = ((2 ^ k : Nat) : Int))
    (hs : validSubsamp s = true) (hg : s = (TJSAMP_GRAY : Int)) (h0 : planeOK 0 w al h s) :
    yuvBufSize w al h s = planeBytes 0 w al h s := by
  subst hg
  have hpos : ¬ (al < 1) := by
    have := Nat.two_pow_pos k; rw [hal]; omega
  have hp2 : isPow2 al = true := by rw [hal]; exact isPow2_two_pow k
  unfold yuvBufSize
  simp only [hpos, hp2, hs, decide_false, Bool.not_true, Bool.or_self, Bool.false_eq_true, if_false, if_true]
  have e0 := go_step w al h (TJSAMP_GRAY : Int) k hk hal 0 0 0 h0 (by omega)
  simp only [Nat.zero_add] at e0
  rw [e0]
  rfl

/-- with the unified buffer's own stride a plane needs at most `stride * height` bytes -/
theorem planeSize_le_bytes (i : Nat) (w al h s : Int) (hal : 0 < al.toNat)
    (hph : yuvPlaneHeight i h s ≠ 0) :
    planeStride i w al s * (yuvPlaneHeight i h s - 1) + yuvPlaneWidth i w s ≤ planeBytes i w al h s := by
  unfold planeBytes
  have h1 : yuvPlaneWidth i w s ≤ planeStride i w al s := ceilMul_ge _ _ hal
  obtain ⟨n, hn⟩ : ∃ n, yuvPlaneHeight i h s = n + 1 := ⟨yuvPlaneHeight i h s - 1, by omega⟩
  rw [hn, Nat.add_sub_cancel, Nat.mul_succ]
  omega

theorem jpegBufSize_closed (w h s : Int) (hs : validSubsamp s = true)
    (hw : 1 ≤ w) (hw2 : w ≤ 2147483647) (hh : 1 ≤ h) (hh2 : h ≤ 2147483647)
    (hfit : ceilMul w.toNat (mcuW s) * ceilMul h.toNat (mcuH s) *
        (2 + (if s = (TJSAMP_GRAY : Int) then 0 else 4 * 64 / (mcuW s * mcuH s))) + 2048 < ULL) :
    jpegBufSize w h s = ceilMul w.toNat (mcuW s) * ceilMul h.toNat (mcuH s) *
        (2 + (if s = (TJSAMP_GRAY : Int) then 0 else 4 * 64 / (mcuW s * mcuH s))) + 2048 := by
  have hv : validSubsamp s = true := hs
  simp only [validSubsamp, Bool.and_eq_true, decide_eq_true_eq] at hs
  obtain ⟨hs0, hs1⟩ := hs
  have hwn : w.toNat < 2 ^ 63 := by
    have : (2147483647 : Nat) < 2 ^ 63 := by decide
    omega
  have hhn : h.toNat < 2 ^ 63 := by
    have : (2147483647 : Nat) < 2 ^ 63 := by decide
    omega
  have c1 : ¬ (w < 1) := by omega
  have c2 : ¬ (h < 1) := by omega
  have c3 : ¬ (s < -1) := by omega
  have c4 : ¬ (s ≥ (TJ_NUMSAMP : Int)) := by omega
  have c5 : ¬ (s = -1) := by omega
  obtain ⟨mw, mh⟩ := mcu_cases s hv
  have pw : ∃ k, k ≤ 31 ∧ mcuW s = 2 ^ k := by
    rcases mw with e | e | e
    · exact ⟨3, by omega, by rw [e]⟩
    · exact ⟨4, by omega, by rw [e]⟩
    · exact ⟨5, by omega, by rw [e]⟩
  have ph : ∃ k, k ≤ 31 ∧ mcuH s = 2 ^ k := by
    rcases mh with e | e | e
    · exact ⟨3, by omega, by rw [e]⟩
    · exact ⟨4, by omega, by rw [e]⟩
    · exact ⟨5, by omega, by rw [e]⟩
  obtain ⟨kw, hkw, ekw⟩ := pw
  obtain ⟨kh, hkh, ekh⟩ := ph
  have epw : padULL w.toNat (mcuW s) = ceilMul w.toNat (mcuW s) := by rw [ekw]; exact padULL_eq _ _ hkw hwn
  have eph : padULL h.toNat (mcuH s) = ceilMul h.toNat (mcuH s) := by rw [ekh]; exact padULL_eq _ _ hkh hhn
  unfold jpegBufSize
  simp only [c1, c2, c3, c4, c5, decide_false, Bool.or_self, Bool.false_eq_true, if_false, epw, eph]
  have hpwpos : 0 < ceilMul w.toNat (mcuW s) := by
    have := ceilMul_ge w.toNat (mcuW s) (by rw [ekw]; exact Nat.two_pow_pos _); omega
  -- the guard does not fire because the true value fits
  have hguard : ¬ (ceilMul h.toNat (mcuH s) >
      (ULL - 1 - 2048) / (2 + (if s = (TJSAMP_GRAY : Int) then 0 else 4 * 64 / (mcuW s * mcuH s))) /
        ceilMul w.toNat (mcuW s)) := by
    have hc2 : 2 ≤ (2 + (if s = (TJSAMP_GRAY : Int) then 0 else 4 * 64 / (mcuW s * mcuH s))) := by omega
    generalize (2 + (if s = (TJSAMP_GRAY : Int) then 0 else 4 * 64 / (mcuW s * mcuH s))) = c at *
    generalize ceilMul w.toNat (mcuW s) = a at *
    generalize ceilMul h.toNat (mcuH s) = b at *
    intro hgt
    have hc : 0 < c ∨ c = 0 := by omega
    rcases hc with hc | hc
    · rw [Nat.div_div_eq_div_mul] at hgt
      have : (ULL - 1 - 2048) < (c * a) * (b) := by
        have := (Nat.div_lt_iff_lt_mul (Nat.mul_pos hc hpwpos)).1 hgt
        rw [Nat.mul_comm] at this; exact this
      have e : c * a * b = a * b * c := by
        rw [Nat.mul_comm c a, Nat.mul_assoc, Nat.mul_comm c b, ← Nat.mul_assoc]
      omega
    · omega
  simp only [hguard, if_false]

end LJT.TJ
