"""C08 - partial decompression equals the same region of a full decode."""
ID = "C08"
VARIANTS = ["san", "simd"]
RULE = ("outdim/tjcrop: dimension formula and region validation compared with the model for boundary and random arguments; "
        "skiphist: histories of read(n) / multi-row read / skip(n) calls from a grammar biased to iMCU-row boundaries +-{0,1,2}, "
        "with and without a horizontal crop, over all subsamplings x scaling factors k/8 x fancy/merged upsampling x islow/ifast x "
        "baseline/progressive/arithmetic, every delivered row compared with a full decode (oracle on the real decoder); "
        "skipst: the counters of the read/skip state machine (output_scanline, output_iMCU_row, buffer_full, rowgroup_ctr, next_row_out, "
        "rows_to_go, return value), read through the repo's private headers after every call of such a history (incl. zero-row reads and "
        "zero-row skips), compared with Model.SkipSM (separate upsampler), Model.MergedSM (merged upsampler, spare_full in place of next_row_out) or Model.CtxSM "
        "(context rows: also context_state, whichptr, iMCU_row_ctr) - every upsampler configuration of the decoder; "
        "quanthist: the same histories with one-pass colour quantisation (no dithering); "
        "smoothhist: the same on progressive streams cut short inside the entropy-coded data with block smoothing active "
        "(decompress_smooth_data, DC-only and partly refined coefficients), crops with x offset 0 and > 0 and the right edge inside the image")
TRUSTED = ["Model.DecompCtl covers the arithmetic; Model.SkipSM / Model.MergedSM / Model.CtxSM are hand models of the read/skip state machine of jdapistd.c / jdmainct.c (simple and "
           "context main controller) / jdsample.c (sep_upsample) / jdmerge.c (merged_1v/2v_upsample), tied counter by counter by skipst; of the context-row "
           "machine only the centre row group of every delivered row is modelled, not the neighbouring row groups read as context (funny pointers); "
           "the horizontal crop is not modelled (oracle on the real code); that a row's "
           "pixels depend only on its provenance (iMCU row, row group, row) is not modelled either (oracle)"]
ASSUMPTIONS = ["block smoothing is switched off in skiphist (complete streams never use it) and on in smoothhist (streams cut short)"]
IMAX = 2147483647


def classify(op, R):
    p = op.split(" ")
    if p[0] == "smoothhist":
        return "smoothhist:cut%s:ss%s:s%s:f%s:crop%s" % (p[1], p[2], p[7], p[8], ("0" if int(p[11]) == 0 else "L" if int(p[10]) == 0 else "X"))
    if p[0] == "skipst":
        return "skipst:ss%s:s%s:%s:%s" % (p[1], p[5], "ms" if p[4] == "1" else "ss", "skip" if R.startswith("skip") else R.split(" ")[0])
    if p[0] == "quanthist":
        return "quanthist:c%s:ss%s:s%s:f%s:crop%s" % (p[1], p[2], p[7], p[8], int(int(p[11]) > 0))
    if p[0] == "skiphist":
        return "skiphist:ss%s:s%s:f%s:crop%s:%s" % (p[1], p[6], p[7], int(int(p[10]) > 0), "ms" if (p[4] == "1") else "ss")
    return p[0]


def history(rng, lines_per_imcu, height):
    calls = []
    pos = 0
    while pos < height and len(calls) < 10:
        b = ((pos // lines_per_imcu) + rng.choice([1, 1, 2, 3])) * lines_per_imcu
        target = max(pos + 1, b + rng.choice([-2, -1, 0, 0, 1, 2]))
        n = target - pos if rng.random() < .7 else rng.randint(1, 2 * lines_per_imcu + 3)
        kind = rng.choice(["s", "s", "s", "r", "r", "m"])
        if kind == "m":
            n = min(n, 40)
        if rng.random() < .06:
            calls.append(rng.choice(["m0", "m0", "s0"]))      # calls that ask for nothing
        calls.append("%s%d" % (kind, n))
        pos += n
    return calls


def gen_ops(rng, tier):
    ops = []
    big = tier == "thorough"
    for w, h in [(1, 1), (7, 9), (8, 8), (9, 17), (227, 149), (65500, 1), (1, 65500), (640, 480)] + [(rng.randint(1, 70000), rng.randint(1, 70000)) for _ in range(40 if big else 8)]:
        ops.append("outdim %d %d" % (w, h))
    for i in range(1500 if big else 200):
        jw = rng.choice([16, 17, 33, 64]); jh = rng.choice([16, 17, 40])
        ss = rng.choice([0, 1, 2, 4, 5, 6]); sfi = rng.randrange(16)
        x = rng.choice([0, 8, 16, 32, 4, 6, 12, 24, -8, IMAX - 7, IMAX, 2147483640, 2147483632, rng.randint(0, 70)])
        y = rng.choice([0, 1, 7, -1, IMAX, 2147483640, rng.randint(0, 50)])
        w = rng.choice([0, 1, 8, 16, jw, jw + 1, -1, IMAX, 16, rng.randint(0, 70)])
        h = rng.choice([0, 1, jh, jh + 1, -1, IMAX, 8, rng.randint(0, 50)])
        ops.append("tjcrop %d %d %d %d %d %d %d %d" % (jw, jh, ss, sfi, x, y, w, h))
    ops.append("tjcrop 64 64 0 8 0 0 0 0")
    for i in range(2500 if big else 420):
        ss = rng.choice([0, 1, 2, 2, 4, 5, 6, 3, 42, 24, 31, 13, 44, 22, 32, 1142, 2142, 1242, 1121])   # >= 1000: luma h x v, chroma 1 x v
        w = rng.choice([17, 33, 40, 48, 65]); h = rng.choice([17, 33, 40, 48, 70])
        prog = int(rng.random() < .25); arith = int(rng.random() < .15)
        snum = rng.choice([8, 8, 8, 4, 2, 1, 3, 5, 6, 7, 9, 12, 16])
        fancy = rng.randint(0, 1); dct = int(rng.random() < .2)
        mcuh = {0: 8, 1: 8, 2: 16, 3: 8, 4: 16, 5: 8, 6: 32}[ss] if ss < 10 else 8 * (ss % 10) if ss < 1000 else 8 * ((ss // 10) % 10)
        lines = max(1, mcuh * snum // 8)
        oh = (h * snum + 7) // 8
        calls = history(rng, lines, oh)
        if rng.random() < .45:
            ow = (w * snum + 7) // 8
            cx = rng.randrange(max(ow, 1)); cw = rng.randint(1, max(1, ow - cx))
        else:
            cx, cw = 0, 0
        ops.append("skiphist %d %d %d %d %d %d %d %d %d %d %d %s" % (ss, w, h, prog, arith, snum, fancy, dct, cx, cw, rng.randrange(1 << 20), " ".join(calls)))
    # the counters of the read/skip state machine after every call, against Model.SkipSM (configurations without context rows / merged upsampling;
    # the executor answers "skip" for the others)
    for i in range(4000 if big else 500):
        ss = rng.choice([0, 1, 2, 2, 4, 4, 5, 6, 3])
        w = rng.choice([17, 33, 40]); h = rng.choice([1, 7, 17, 33, 40, 48, 70, 97])
        prog = int(rng.random() < .3)
        snum = rng.choice([8, 8, 4, 2, 1, 3, 5, 6, 7, 9, 12, 16])
        m = rng.random()
        fancy, ycc = (0, 1) if m < .3 else (1, rng.randint(0, 1)) if m < .6 else (0, 0)
        if fancy == 1 and rng.random() < .6:
            ss = rng.choice([2, 2, 4]); snum = rng.choice([8, 8, 9, 12, 16, snum])          # where context rows are needed
        if (fancy, ycc) == (0, 0) and rng.random() < .7:
            ss = rng.choice([1, 2, 2, 2]); snum = rng.choice([8, 8, 9, 12, 16, snum])       # where the merged upsampler is used
        # the upsampler jdmaster.c use_merged_upsample() is expected to pick (the executor answers "skip" if it picked the other one)
        upm = int(fancy == 0 and ycc == 0 and (ss == 1 or (ss == 2 and snum >= 8)))
        if fancy == 1 and snum > 1 and ((ss == 2 and snum >= 8) or ss == 4):
            upm = 2                                                                     # context rows (fancy h2v2 / h1v2 upsampling)
        mcuh = {0: 8, 1: 8, 2: 16, 3: 8, 4: 16, 5: 8, 6: 32}[ss]
        oh = (h * snum + 7) // 8
        calls = history(rng, max(1, mcuh * snum // 8), oh)
        if rng.random() < .3:
            calls = [c if c[0] != "r" else "m" + c[1:] for c in calls]
        ops.append("skipst %d %d %d %d %d %d %d %d %d %s" % (ss, w, h, prog, snum, fancy, ycc, upm, rng.randrange(1 << 20), " ".join(calls)))
    ops += ["skipst 2 40 37 0 8 0 1 0 5 m2 m3 s1 s20 m2 m2 s100", "skipst 0 40 37 1 8 1 0 0 5 r3 s9 m0 s8 r2 s3 m5",
            "skipst 2 40 37 0 8 0 0 1 5 r3 s4 m0 r2 s13 r3 s2 r1", "skipst 1 40 37 1 3 0 0 1 5 r3 s9 m0 s8 r2 s3 m5"]
    # one-pass colour quantisation (no dithering) behind the upsampler: crops and histories as above
    for i in range(1200 if big else 160):
        ss = rng.choice([0, 1, 2, 2, 2, 4, 3])
        w = rng.choice([33, 40, 48, 65]); h = rng.choice([17, 33, 40, 48])
        snum = rng.choice([8, 8, 8, 4, 16, 12, 3])
        fancy = rng.randint(0, 1)
        ow = (w * snum + 7) // 8; oh = (h * snum + 7) // 8
        if rng.random() < .6:
            cx = rng.randrange(ow); cw = rng.randint(1, ow - cx)
        else:
            cx, cw = 0, 0
        mcuh = {0: 8, 1: 8, 2: 16, 3: 8, 4: 16, 5: 8, 6: 32}[ss]
        calls = history(rng, max(1, mcuh * snum // 8), oh)
        ops.append("quanthist %d %d %d %d %d 0 %d %d 0 %d %d %d %s" % (rng.choice([256, 64, 8]), ss, w, h, int(rng.random() < .2), snum, fancy, cx, cw, rng.randrange(1 << 20), " ".join(calls)))
    # block smoothing: a progressive stream cut short inside its entropy-coded data (so that jdcoefct.c decompress_smooth_data produces the
    # pixels, incl. the DC-only case), then crops with the right edge inside the image / x offset 0 / x offset > 0, reads and skips
    for i in range(1500 if big else 260):
        ss = rng.choice([0, 1, 2, 2, 4, 3, 5])
        w = rng.choice([40, 48, 65, 136]); h = rng.choice([33, 40, 48, 70])
        snum = rng.choice([8, 8, 8, 4, 16, 12, 2, 1, 7])
        fancy = rng.randint(0, 1); arith = int(rng.random() < .2)
        cut = rng.choice([20, 60, 150, 300, 500, 700, 900])
        ow = (w * snum + 7) // 8; oh = (h * snum + 7) // 8
        m = rng.random()
        if m < .4:
            cx, cw = 0, rng.randint(1, ow)
        elif m < .75:
            cx = rng.randrange(ow); cw = rng.randint(1, ow - cx)
        else:
            cx, cw = 0, 0
        mcuh = {0: 8, 1: 8, 2: 16, 3: 8, 4: 16, 5: 8, 6: 32}[ss]
        calls = ["r%d" % oh] if rng.random() < .5 else history(rng, max(1, mcuh * snum // 8), oh)
        ops.append("smoothhist %d %d %d %d 1 %d %d %d 0 %d %d %d %s" % (cut, ss, w, h, arith, snum, fancy, cx, cw, rng.randrange(1 << 20), " ".join(calls)))
    ops.append("smoothhist 300 0 40 40 1 0 8 1 0 12 26 628569 r200")
    # the minimised failing histories of the defects repaired in /repo (corpus)
    ops += ["skiphist 1142 40 100 0 0 8 1 0 0 0 5 r29 s40 r10", "skiphist 1142 40 100 1 0 8 1 0 0 0 5 r29 s40 r10",
            "skiphist 0 32 32 0 0 8 1 0 0 0 5 m0 s8 r4", "skiphist 0 32 32 1 0 8 1 0 0 0 5 r8 m0 s9 r4",
            "skiphist 0 40 40 0 0 8 1 0 0 0 5 s7 s1 r3", "skiphist 2 40 40 0 0 8 0 0 0 0 5 r1 s20 r5",
            "skiphist 2 40 40 0 0 8 0 0 0 0 5 r3 s20 r5"]
    return ops


def search(ctx, failing_ops):
    from .. import common as C
    import random
    rng = random.Random("search/%s" % ctx["seed"])
    ops = list(failing_ops) + gen_ops(rng, "quick")
    found = []
    for v, exe in ctx["exes"].items():
        res, _ = C.run_exec(exe, ops)
        for op, (R, O) in zip(ops, res):
            if O and O.startswith("fail"):
                found.append((v, op, R, O))
    return found


MANIFEST = {
    "text": ("Kernel-checked Lean theorems: the 16 scaling factors of the tree are exactly k/8; output dimension = ceil(dim x M/8) "
             "(and equal for the reduced and the /8 form of a factor); the crop window starts at the iMCU boundary at or below the "
             "request and keeps the requested right edge; skip returns min(n, rows left); tj3SetCroppingRegion accepts exactly the "
             "documented regions for all 32-bit arguments; and, over a model of the read/skip state machine (no context rows, separate "
             "upsampler) whose counters are compared with the real structures after every call: after any history of read(n)/skip(n) calls "
             "every delivered row is the row group and row of the iMCU row its scanline names, two histories deliver rows of the same "
             "provenance at the same scanline, a read makes progress, a skip is honoured exactly. The same is proved for the context-row machine (centre row group) and the merged 1:1 machine; for the "
             "merged 2:1 machine for every history that avoids known finding D16, which is itself a kernel-evaluated theorem about the tied model. "
             "For the context neighbours, the horizontal crop and the pixel values themselves the clause is decided by an oracle on the real "
             "decoder over generated histories (partial)."),
    "design_ref": "DESIGN.md 6.8",
    "note": ("Trusted: Lean kernel; axioms propext, Quot.sound, Classical.choice; arithmetic model tied by outdim/tjcrop ops; the read/skip "
             "state machine is modelled and tied (skipst) for all three upsampler configurations (separate, merged, context rows); which "
             "neighbouring rows the fancy upsampler reads, the crop and the pixel arithmetic are NOT modelled: there the clause rests on the oracle."),
    "technique": "Lean 4 proof (omega over the dimension/crop/validation arithmetic; invariant by induction over read/skip histories of a state-machine model tied to the real counters) + history oracle on the real decoder",
}
