import LJT.Model.ProgAC
import LJT.Proofs.SeqHuff
/-! Round trips of progressive AC coding (C03): the event streams of `ProgAC.firstEv` /
`ProgAC.refEv` (the encoder model tied byte-for-byte to src/jcphuff.c) are inverted by
`ProgAC.firstDecBlocks` / `ProgAC.refDecBlocks` (the procedures the independent T.81 reader runs),
for every sequence of blocks, any end-of-band run lengths and any prefix code that contains the
symbols used. -/
namespace LJT.ProgAC
open LJT.Huff LJT.LL

/-- the decoder `dec` inverts the code of symbol `s` -/
def Good (code : Nat → List Bool) (dec : Dec) (s : Nat) : Prop :=
  ∀ rest, dec (code s ++ rest) = some (s, false, rest)

/-- every symbol of an event list is decodable -/
def GoodEvs (code : Nat → List Bool) (dec : Dec) (evs : List Ev) : Prop :=
  ∀ s, Ev.sym s ∈ evs → Good code dec s

theorem GoodEvs.append_left {code dec} {a b : List Ev} (h : GoodEvs code dec (a ++ b)) : GoodEvs code dec a :=
  fun s hs => h s (List.mem_append_left _ hs)

theorem GoodEvs.append_right {code dec} {a b : List Ev} (h : GoodEvs code dec (a ++ b)) : GoodEvs code dec b :=
  fun s hs => h s (List.mem_append_right _ hs)

theorem GoodEvs.head {code dec} {s : Nat} {t : List Ev} (h : GoodEvs code dec (.sym s :: t)) : Good code dec s :=
  h s (by simp)

theorem GoodEvs.tail {code dec} {e : Ev} {t : List Ev} (h : GoodEvs code dec (e :: t)) : GoodEvs code dec t :=
  fun s hs => h s (List.mem_cons_of_mem _ hs)

theorem evBits_append (code : Nat → List Bool) (a b : List Ev) :
    evBits code (a ++ b) = evBits code a ++ evBits code b := by
  induction a with
  | nil => rfl
  | cons e t ih =>
    cases e with
    | sym s => simp [evBits, ih]
    | bits v n => simp [evBits, ih]

theorem natBits_length (v n : Nat) : (natBits v n).length = n := by
  simp [natBits, codeBits_length]

theorem getBits_natBits (v n : Nat) (h : v < 2 ^ n) (rest : List Bool) :
    getBits n (natBits v n ++ rest) = some (v, rest) := by
  unfold getBits
  have hl : ¬ ((natBits v n ++ rest).length < n) := by simp [natBits_length]
  rw [if_neg hl]
  have htake : (natBits v n ++ rest).take n = natBits v n := by
    rw [List.take_append_of_le_length (by simp [natBits_length])]
    rw [List.take_of_length_le (by simp [natBits_length])]
  have hdrop : (natBits v n ++ rest).drop n = rest := by
    rw [List.drop_append_of_le_length (by simp [natBits_length])]
    rw [List.drop_of_length_le (by simp [natBits_length])]
    rfl
  rw [htake, hdrop, bitsNat_natBits v n h]

/-! ### the EOBn symbol -/

theorem log2_lt_15 (e : Nat) (h0 : e ≠ 0) (h : e < 32768) : Nat.log2 e < 15 :=
  (Nat.log2_lt h0).2 (by simpa using h)

/-- reading the run length back: `2^n + (e mod 2^n) = e` for `n = log2 e` -/
theorem readEob_eob (e : Nat) (h0 : e ≠ 0) (rest : List Bool) :
    readEob (Nat.log2 e) (natBits (e % 2 ^ Nat.log2 e) (Nat.log2 e) ++ rest) = some (e, rest) := by
  have hlo := Nat.log2_self_le h0
  have hhi : e < 2 ^ (Nat.log2 e + 1) := Nat.lt_log2_self
  unfold readEob
  by_cases hk : Nat.log2 e = 0
  · rw [hk] at hlo hhi ⊢
    simp only [if_true]
    have : e = 1 := by simp at hlo hhi; omega
    subst this
    simp [natBits, codeBits]
  · rw [if_neg hk, getBits_natBits _ _ (Nat.mod_lt _ (Nat.two_pow_pos _))]
    simp only [Option.map_some]
    have hp : 2 ^ (Nat.log2 e + 1) = 2 * 2 ^ Nat.log2 e := by rw [Nat.pow_succ]; omega
    have : e / 2 ^ Nat.log2 e = 1 := by
      apply Nat.div_eq_of_lt_le
      · simpa using hlo
      · rw [hp] at hhi; omega
    have hdm := Nat.div_add_mod e (2 ^ Nat.log2 e)
    rw [this] at hdm
    congr 2
    omega

/-- bits of a pending run `e > 0`: the EOBn symbol followed by its n extra bits -/
theorem evBits_eobEv (code : Nat → List Bool) (e : Nat) (h0 : e ≠ 0) :
    evBits code (eobEv e) = code (Nat.log2 e * 16) ++ natBits (e % 2 ^ Nat.log2 e) (Nat.log2 e) := by
  unfold eobEv
  rw [if_neg h0]
  by_cases hk : Nat.log2 e = 0
  · rw [if_pos hk, hk]; simp [evBits, natBits, codeBits]
  · rw [if_neg hk]; simp [evBits]

theorem eobEv_zero : eobEv 0 = [] := by simp [eobEv]

theorem eobEv_sym (e : Nat) (h0 : e ≠ 0) : Ev.sym (Nat.log2 e * 16) ∈ eobEv e := by
  unfold eobEv
  rw [if_neg h0]
  by_cases hk : Nat.log2 e = 0
  · rw [if_pos hk, hk]; simp
  · rw [if_neg hk]; simp

/-! ### first pass -/

theorem firstDec_succ (dec : Dec) (f rem : Nat) (bits : List Bool) :
    firstDec dec (f + 1) rem bits =
      if rem = 0 then .ok ([], 0, bits) else
      match dec bits with
      | none => .error "AC first: bad Huffman code"
      | some (_, true, _) => .error "AC first: bit pattern that is no code of the table"
      | some (sym, false, rest) =>
        if sym % 16 ≠ 0 then
          if sym / 16 + 1 > rem then .error "AC first: run beyond band"
          else
            match getBits (sym % 16) rest with
            | none => .error "AC first: out of data"
            | some (x, rest2) =>
              match firstDec dec f (rem - sym / 16 - 1) rest2 with
              | .error e => .error e
              | .ok (l, e, b) => .ok (List.replicate (sym / 16) 0 ++ extend (sym % 16) x :: l, e, b)
        else if sym / 16 = 15 then
          if 16 > rem then .error "AC first: ZRL beyond band"
          else
            match firstDec dec f (rem - 16) rest with
            | .error e => .error e
            | .ok (l, e, b) => .ok (List.replicate 16 0 ++ l, e, b)
        else
          match readEob (sym / 16) rest with
          | none => .error "AC first: out of data"
          | some (run, rest2) => .ok (List.replicate rem 0, run - 1, rest2) := by
  rfl

theorem firstDec_rem_zero (dec : Dec) (f : Nat) (bits : List Bool) : firstDec dec f 0 bits = .ok ([], 0, bits) := by
  cases f <;> simp [firstDec]

/-- the amount of fuel does not matter once it exceeds the number of coefficients left -/
theorem firstDec_fuel (dec : Dec) : ∀ (f1 f2 rem : Nat) (bits : List Bool), rem < f1 → rem < f2 →
    firstDec dec f1 rem bits = firstDec dec f2 rem bits := by
  intro f1
  induction f1 with
  | zero => intro f2 rem bits h; omega
  | succ f1 ih =>
    intro f2 rem bits h1 h2
    obtain ⟨g, rfl⟩ : ∃ g, f2 = g + 1 := ⟨f2 - 1, by omega⟩
    rw [firstDec_succ, firstDec_succ]
    by_cases hr : rem = 0
    · simp [hr]
    · simp only [hr, if_false]
      cases hd : dec bits with
      | none => rfl
      | some p =>
        obtain ⟨sym, flag, rest⟩ := p
        cases flag with
        | true => rfl
        | false =>
          simp only
          by_cases hs : sym % 16 ≠ 0
          · rw [if_pos hs, if_pos hs]
            by_cases hrun : sym / 16 + 1 > rem
            · simp [hrun]
            · simp only [hrun, if_false]
              cases hg : getBits (sym % 16) rest with
              | none => rfl
              | some q =>
                obtain ⟨x, rest2⟩ := q
                simp only
                rw [ih g (rem - sym / 16 - 1) rest2 (by omega) (by omega)]
          · rw [if_neg hs, if_neg hs]
            by_cases h15 : sym / 16 = 15
            · simp only [h15, if_true]
              by_cases h16 : 16 > rem
              · simp [h16]
              · simp only [h16, if_false]
                rw [ih g (rem - 16) rest (by omega) (by omega)]
            · simp only [h15, if_false]

/-- what the decoder has reconstructed of a band when it reaches the trailing zeros -/
def firstBody : Nat → List Int → List Int
  | _, [] => []
  | r, v :: t => if v = 0 then firstBody (r + 1) t else List.replicate r 0 ++ v :: firstBody 0 t

theorem firstBody_trail : ∀ (vs : List Int) (r : Nat),
    firstBody r vs ++ List.replicate (firstCoefEv r vs).2 0 = List.replicate r 0 ++ vs := by
  intro vs
  induction vs with
  | nil => intro r; simp [firstBody, firstCoefEv]
  | cons v t ih =>
    intro r
    by_cases hv : v = 0
    · subst hv
      simp only [firstBody, firstCoefEv, if_true]
      rw [ih (r + 1), List.replicate_succ', List.append_assoc]; rfl
    · simp only [firstBody, firstCoefEv, hv, if_false]
      rw [List.append_assoc, List.cons_append, ih 0]
      simp

theorem firstCoefEv_trail_le : ∀ (vs : List Int) (r : Nat), (firstCoefEv r vs).2 ≤ r + vs.length := by
  intro vs
  induction vs with
  | nil => intro r; simp [firstCoefEv]
  | cons v t ih =>
    intro r
    by_cases hv : v = 0
    · subst hv; simp only [firstCoefEv, if_true]; have := ih (r + 1); simp only [List.length_cons]; omega
    · simp only [firstCoefEv, hv, if_false]; have := ih 0; simp only [List.length_cons]; omega

/-- `n` ZRL symbols skip `16 n` coefficients -/
theorem first_zrl (code : Nat → List Bool) (dec : Dec) (hz : Good code dec 0xF0) :
    ∀ (n fuel m : Nat) (X : List Bool) (l : List Int) (e : Nat) (b : List Bool), 16 * n + m < fuel →
      firstDec dec fuel m X = .ok (l, e, b) →
      firstDec dec fuel (16 * n + m) (evBits code (List.replicate n (.sym 0xF0)) ++ X) =
        .ok (List.replicate (16 * n) 0 ++ l, e, b) := by
  intro n
  induction n with
  | zero => intro fuel m X l e b _ h; simpa [evBits] using h
  | succ k ih =>
    intro fuel m X l e b hf h
    obtain ⟨g, rfl⟩ : ∃ g, fuel = g + 1 := ⟨fuel - 1, by omega⟩
    have hcont : firstDec dec g m X = .ok (l, e, b) := by
      rw [firstDec_fuel dec g (g + 1) m X (by omega) (by omega)]; exact h
    have hih := ih g m X l e b (by omega) hcont
    rw [show List.replicate (k + 1) (Ev.sym 0xF0) = Ev.sym 0xF0 :: List.replicate k (Ev.sym 0xF0) from List.replicate_succ]
    simp only [evBits, List.append_assoc]
    rw [firstDec_succ, if_neg (by omega), hz]
    simp only [show (0xF0 : Nat) % 16 = 0 by decide, show (0xF0 : Nat) / 16 = 15 by decide, ne_eq, not_true_eq_false,
      if_false, if_true]
    rw [if_neg (by omega), show 16 * (k + 1) + m - 16 = 16 * k + m by omega, hih]
    simp only
    rw [show 16 * (k + 1) = 16 + 16 * k by omega, ← List.replicate_append_replicate, List.append_assoc]

/-- the coefficient symbols of a band are decoded exactly, up to the point where only the
trailing zeros of the band are left -/
theorem first_coefs (code : Nat → List Bool) (dec : Dec) :
    ∀ (vs : List Int) (r fuel : Nat) (X : List Bool) (l : List Int) (e : Nat) (b : List Bool),
      (∀ v ∈ vs, v.natAbs < 32768) → GoodEvs code dec (firstCoefEv r vs).1 → r + vs.length < fuel →
      firstDec dec fuel (firstCoefEv r vs).2 X = .ok (l, e, b) →
      firstDec dec fuel (r + vs.length) (evBits code (firstCoefEv r vs).1 ++ X) = .ok (firstBody r vs ++ l, e, b) := by
  intro vs
  induction vs with
  | nil =>
    intro r fuel X l e b _ _ _ h
    simpa [firstCoefEv, firstBody, evBits] using h
  | cons v t ih =>
    intro r fuel X l e b hv hg hf h
    have hvt : ∀ x ∈ t, x.natAbs < 32768 := fun x hx => hv x (by simp [hx])
    by_cases hv0 : v = 0
    · subst hv0
      simp only [firstCoefEv, firstBody, if_true] at hg h ⊢
      rw [show r + (0 :: t).length = r + 1 + t.length by simp; omega]
      exact ih (r + 1) fuel X l e b hvt hg (by simp at hf; omega) h
    · obtain ⟨h1, h15, hnex, hex, hext⟩ := SeqHuff.category_small v hv0 (hv v (by simp))
      simp only [firstCoefEv, firstBody, hv0, if_false] at hg h ⊢
      generalize category v = cat at *
      obtain ⟨nb, ex, nex⟩ := cat
      simp only at *
      subst hnex
      have hgz : r / 16 ≠ 0 → Good code dec 0xF0 := by
        intro hne
        apply hg
        apply List.mem_append_left
        obtain ⟨q, hq⟩ : ∃ q, r / 16 = q + 1 := ⟨r / 16 - 1, by omega⟩
        rw [hq]; simp [List.replicate_succ]
      have hgs : Good code dec (r % 16 * 16 + nex) := hg _ (by simp)
      have hgt : GoodEvs code dec (firstCoefEv 0 t).1 := fun s hs => hg s (by simp [hs])
      obtain ⟨g, rfl⟩ : ∃ g, fuel = g + 1 := ⟨fuel - 1, by omega⟩
      have htr := firstCoefEv_trail_le t 0
      -- the (run, size) symbol and what follows it
      have hsym : firstDec dec (g + 1) (r % 16 + 1 + t.length)
          (evBits code (.sym (r % 16 * 16 + nex) :: .bits ex nex :: (firstCoefEv 0 t).1) ++ X) =
          .ok (List.replicate (r % 16) 0 ++ v :: (firstBody 0 t ++ l), e, b) := by
        have hcont : firstDec dec g (firstCoefEv 0 t).2 X = .ok (l, e, b) := by
          rw [firstDec_fuel dec g (g + 1) _ X (by simp at hf; omega) (by simp at hf; omega)]; exact h
        have hih := ih 0 g X l e b hvt hgt (by simp at hf; omega) hcont
        rw [firstDec_succ, if_neg (by omega)]
        simp only [evBits, List.append_assoc]
        rw [hgs]
        have hq : (r % 16 * 16 + nex) / 16 = r % 16 := by omega
        have hm : (r % 16 * 16 + nex) % 16 = nex := by omega
        simp only [hq, hm]
        rw [if_pos (show nex ≠ 0 by omega), if_neg (show ¬ (r % 16 + 1 > r % 16 + 1 + t.length) by omega)]
        rw [getBits_natBits ex nex hex]
        simp only
        rw [show r % 16 + 1 + t.length - r % 16 - 1 = 0 + t.length by omega, hih, hext]
      by_cases hz : r / 16 = 0
      · have hr : r % 16 = r := by omega
        rw [hz]
        simp only [List.replicate_zero, List.nil_append]
        rw [show r + (v :: t).length = r % 16 + 1 + t.length by simp; omega]
        rw [hsym, hr]
        simp
      · have := first_zrl code dec (hgz hz) (r / 16) (g + 1) (r % 16 + 1 + t.length) _ _ e b (by simp at hf; omega) hsym
        rw [show r + (v :: t).length = 16 * (r / 16) + (r % 16 + 1 + t.length) by simp; omega]
        rw [evBits_append, List.append_assoc, this]
        congr 2
        rw [← List.append_assoc, List.replicate_append_replicate, show 16 * (r / 16) + r % 16 = r by omega]
        simp

/-! #### sequences of blocks with end-of-band runs -/

theorem all_zero_eq : ∀ (b : List Int), b.all (· == 0) = true → b = List.replicate b.length 0 := by
  intro b
  induction b with
  | nil => intro _; rfl
  | cons v t ih =>
    intro h
    simp only [List.all_cons, Bool.and_eq_true, beq_iff_eq] at h
    rw [List.length_cons, List.replicate_succ, ← ih h.2, h.1]

theorem firstDecBlocks_succ (dec : Dec) (L n e : Nat) (bits : List Bool) :
    firstDecBlocks dec L (n + 1) e bits =
      match firstDecBlock dec L e bits with
      | .error m => .error m
      | .ok (b, e', bits') =>
        match firstDecBlocks dec L n e' bits' with
        | .error m => .error m
        | .ok (bs, e'', bits'') => .ok (b :: bs, e'', bits'') := rfl

/-- a pending run of `e` end-of-band blocks yields `k ≤ e` all-zero bands without reading a bit -/
theorem firstDecBlocks_run (dec : Dec) (L : Nat) : ∀ (k n e : Nat) (bits : List Bool) (bs : List (List Int)) (e' : Nat) (b' : List Bool),
    k ≤ e → firstDecBlocks dec L n (e - k) bits = .ok (bs, e', b') →
    firstDecBlocks dec L (k + n) e bits = .ok (List.replicate k (List.replicate L 0) ++ bs, e', b') := by
  intro k
  induction k with
  | zero => intro n e bits bs e' b' _ h; simpa using h
  | succ k ih =>
    intro n e bits bs e' b' hk h
    rw [show k + 1 + n = (k + n) + 1 by omega, firstDecBlocks_succ]
    unfold firstDecBlock
    rw [if_pos (by omega)]
    simp only
    rw [ih n (e - 1) bits bs e' b' (by omega) (by rw [show e - 1 - k = e - (k + 1) by omega]; exact h)]
    simp [List.replicate_succ]

/-- the EOBn symbol ends the band and announces `e - 1` further all-zero bands -/
theorem first_eob (code : Nat → List Bool) (dec : Dec) (e rem fuel : Nat) (rest : List Bool)
    (h0 : 1 ≤ e) (h1 : e < 32768) (hr : 1 ≤ rem) (hf : rem < fuel) (hg : GoodEvs code dec (eobEv e)) :
    firstDec dec fuel rem (evBits code (eobEv e) ++ rest) = .ok (List.replicate rem 0, e - 1, rest) := by
  obtain ⟨g, rfl⟩ : ∃ g, fuel = g + 1 := ⟨fuel - 1, by omega⟩
  have he0 : e ≠ 0 := by omega
  have hk := log2_lt_15 e he0 h1
  rw [firstDec_succ, if_neg (by omega), evBits_eobEv code e he0, List.append_assoc, hg _ (eobEv_sym e he0)]
  simp only [Nat.mul_mod_left, ne_eq, not_true_eq_false, if_false]
  rw [Nat.mul_div_cancel _ (by omega : 0 < 16), if_neg (by omega), readEob_eob e he0]

theorem rep_snoc {α : Type} (q : Nat) (z : α) (t : List α) : List.replicate (q + 1) z ++ t = List.replicate q z ++ z :: t := by
  rw [List.replicate_succ', List.append_assoc]; rfl

/-- well-formed input: every band has `L` coefficients of magnitude below 2^15 -/
def WF (L : Nat) (t : List (List Int)) : Prop := ∀ b ∈ t, b.length = L ∧ ∀ v ∈ b, v.natAbs < 32768

theorem firstCoefEv_all_zero : ∀ (b : List Int) (r : Nat), b.all (· == 0) = true → firstCoefEv r b = ([], r + b.length) := by
  intro b
  induction b with
  | nil => intro r _; rfl
  | cons v t ih =>
    intro r h
    simp only [List.all_cons, Bool.and_eq_true, beq_iff_eq] at h
    simp only [firstCoefEv, h.1, if_true, List.length_cons]
    rw [ih (r + 1) h.2]; congr 1; omega

/-- the two statements proved together by induction over the blocks: (A) from a block boundary
with nothing pending; (B) from inside a band whose remaining coefficients are zero, with `e ≥ 1`
end-of-band blocks pending (the current one included) -/
def FirstOK (code : Nat → List Bool) (dec : Dec) (L : Nat) (t : List (List Int)) : Prop :=
  (∀ rest, GoodEvs code dec (firstEv 0 t) →
    firstDecBlocks dec L t.length 0 (evBits code (firstEv 0 t) ++ rest) = .ok (t, 0, rest)) ∧
  (∀ e rem rest fuel, 1 ≤ e → e < 0x7FFF → 1 ≤ rem → rem < fuel → GoodEvs code dec (firstEv e t) →
    ∃ e' bits', firstDec dec fuel rem (evBits code (firstEv e t) ++ rest) = .ok (List.replicate rem 0, e', bits') ∧
      firstDecBlocks dec L ((e - 1) + t.length) e' bits' = .ok (List.replicate (e - 1) (List.replicate L 0) ++ t, 0, rest))

/-- a band with a nonzero coefficient, decoded from a block boundary, given the statement for the blocks after it -/
theorem first_step (code : Nat → List Bool) (dec : Dec) (L : Nat) (t : List (List Int)) (ht : FirstOK code dec L t)
    (b : List Int) (hb : b.length = L) (hv : ∀ v ∈ b, v.natAbs < 32768) (rest : List Bool)
    (hg : GoodEvs code dec ((firstCoefEv 0 b).1 ++ (if (firstCoefEv 0 b).2 = 0 then firstEv 0 t else firstEv 1 t))) :
    firstDecBlocks dec L (t.length + 1) 0
      (evBits code ((firstCoefEv 0 b).1 ++ (if (firstCoefEv 0 b).2 = 0 then firstEv 0 t else firstEv 1 t)) ++ rest) =
      .ok (b :: t, 0, rest) := by
  have htr := firstCoefEv_trail_le b 0
  have hbody := firstBody_trail b 0
  rw [firstDecBlocks_succ]
  unfold firstDecBlock
  rw [if_neg (by omega), evBits_append, List.append_assoc]
  by_cases h0 : (firstCoefEv 0 b).2 = 0
  · rw [if_pos h0] at hg ⊢
    have hc := first_coefs code dec b 0 (L + 1) (evBits code (firstEv 0 t) ++ rest) [] 0 _ hv hg.append_left (by omega)
      (by rw [h0]; exact firstDec_rem_zero dec _ _)
    rw [Nat.zero_add, hb] at hc
    rw [hc]
    simp only
    rw [ht.1 rest hg.append_right]
    simp only
    rw [h0] at hbody
    simp at hbody ⊢
    exact hbody
  · rw [if_neg h0] at hg ⊢
    obtain ⟨e', bits', hd, hrest⟩ := ht.2 1 (firstCoefEv 0 b).2 rest (L + 1) (by omega) (by omega) (by omega) (by omega) hg.append_right
    have hc := first_coefs code dec b 0 (L + 1) (evBits code (firstEv 1 t) ++ rest) _ e' bits' hv hg.append_left (by omega) hd
    rw [Nat.zero_add, hb] at hc
    rw [hc]
    simp only
    simp only [Nat.sub_self, Nat.zero_add, List.replicate_zero, List.nil_append] at hrest
    rw [hrest]
    simp only
    simp at hbody
    rw [hbody]

theorem first_blocks (code : Nat → List Bool) (dec : Dec) (L : Nat) (hL : 1 ≤ L) :
    ∀ t, WF L t → FirstOK code dec L t := by
  intro t
  induction t with
  | nil =>
    intro _
    refine ⟨?_, ?_⟩
    · intro rest _; simp [firstEv, eobEv_zero, evBits, firstDecBlocks]
    · intro e rem rest fuel h1 h2 hr hf hg
      refine ⟨e - 1, rest, ?_, ?_⟩
      · simp only [firstEv] at hg ⊢
        exact first_eob code dec e rem fuel rest h1 (by omega) hr hf hg
      · have := firstDecBlocks_run dec L (e - 1) 0 (e - 1) rest [] 0 rest (by omega) (by simp [firstDecBlocks])
        simpa using this
  | cons b t ih =>
    intro hwf
    have hwt : WF L t := fun x hx => hwf x (by simp [hx])
    have hb := (hwf b (by simp)).1
    have hv := (hwf b (by simp)).2
    have iht := ih hwt
    refine ⟨?_, ?_⟩
    · -- (A)
      intro rest hg
      by_cases hz : b.all (· == 0) = true
      · have hbz : b = List.replicate L 0 := by rw [← hb]; exact all_zero_eq b hz
        simp only [firstEv, hz, if_true, show ¬ (0 + 1 = 0x7FFF) by omega, if_false] at hg ⊢
        obtain ⟨e', bits', hd, hrest⟩ := iht.2 1 L rest (L + 1) (by omega) (by omega) hL (by omega) hg
        rw [List.length_cons, firstDecBlocks_succ]
        unfold firstDecBlock
        rw [if_neg (by omega), hd]
        simp only
        simp only [Nat.sub_self, Nat.zero_add, List.replicate_zero, List.nil_append] at hrest
        rw [hrest, hbz]
      · have hz' : b.all (· == 0) = false := by simpa using hz
        simp only [firstEv, hz', Bool.false_eq_true, if_false, eobEv_zero, List.nil_append] at hg ⊢
        exact first_step code dec L t iht b hb hv rest hg
    · -- (B)
      intro e rem rest fuel h1 h2 hr hf hg
      by_cases hz : b.all (· == 0) = true
      · have hbz : b = List.replicate L 0 := by rw [← hb]; exact all_zero_eq b hz
        by_cases hfull : e + 1 = 0x7FFF
        · have hev : firstEv e (b :: t) = eobEv (e + 1) ++ firstEv 0 t := by
            simp only [firstEv, hz, if_true]; rw [if_pos hfull]
          rw [hev] at hg ⊢
          refine ⟨e, evBits code (firstEv 0 t) ++ rest, ?_, ?_⟩
          · rw [evBits_append, List.append_assoc]
            have := first_eob code dec (e + 1) rem fuel (evBits code (firstEv 0 t) ++ rest) (by omega) (by omega) hr hf hg.append_left
            rwa [Nat.add_sub_cancel] at this
          · have := firstDecBlocks_run dec L e t.length e (evBits code (firstEv 0 t) ++ rest) t 0 rest (by omega)
              (by rw [Nat.sub_self]; exact iht.1 rest hg.append_right)
            rw [show e - 1 + (b :: t).length = e + t.length by simp; omega, this, hbz]
            congr 2
            obtain ⟨q, rfl⟩ : ∃ q, e = q + 1 := ⟨e - 1, by omega⟩
            exact rep_snoc q _ t
        · have hev : firstEv e (b :: t) = firstEv (e + 1) t := by
            simp only [firstEv, hz, if_true]; rw [if_neg hfull]
          rw [hev] at hg ⊢
          obtain ⟨e', bits', hd, hrest⟩ := iht.2 (e + 1) rem rest fuel (by omega) (by omega) hr hf hg
          refine ⟨e', bits', hd, ?_⟩
          rw [show e - 1 + (b :: t).length = e + 1 - 1 + t.length by simp; omega, hrest, hbz]
          congr 2
          obtain ⟨q, rfl⟩ : ∃ q, e = q + 1 := ⟨e - 1, by omega⟩
          exact rep_snoc q _ t
      · have hz' : b.all (· == 0) = false := by simpa using hz
        simp only [firstEv, hz', Bool.false_eq_true, if_false] at hg ⊢
        refine ⟨e - 1, evBits code ((firstCoefEv 0 b).1 ++ (if (firstCoefEv 0 b).2 = 0 then firstEv 0 t else firstEv 1 t)) ++ rest, ?_, ?_⟩
        · rw [evBits_append, List.append_assoc]
          exact first_eob code dec e rem fuel _ h1 (by omega) hr hf hg.append_left
        · have hs := first_step code dec L t iht b hb hv rest hg.append_right
          have := firstDecBlocks_run dec L (e - 1) (t.length + 1) (e - 1) _ _ 0 rest (by omega)
            (by rw [Nat.sub_self]; exact hs)
          rw [show e - 1 + (b :: t).length = e - 1 + (t.length + 1) by simp, this]

end LJT.ProgAC
