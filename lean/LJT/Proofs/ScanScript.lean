import LJT.Model.ScanScript
/-! A scan script accepted by `validate_script` as progressive passes the progression checks of the
library's own decoder (`start_pass_phuff_decoder`): no JERR_BAD_PROGRESSION, no JWRN_BOGUS_PROGRESSION. -/
namespace LJT.ScanScript

theorem sum_map_zero {α : Type} (l : List α) (f : α → Nat) (h : ∀ x ∈ l, f x = 0) : (l.map f).sum = 0 := by
  induction l with
  | nil => rfl
  | cons x xs ih =>
    simp only [List.map_cons, List.sum_cons, h x (by simp), Nat.zero_add]
    exact ih (fun y hy => h y (by simp [hy]))

theorem checkComps_pos {nc : Nat} {scanno : Int} {s : Scan} (h : checkComps nc scanno s = none) :
    1 ≤ s.ncomps ∧ s.ncomps ≤ (Gen.MAX_COMPS_IN_SCAN : Int) := by
  unfold checkComps at h
  split at h
  · cases h
  · omega

theorem comps_ne_nil {s : Scan} (h1 : 1 ≤ s.ncomps) (h4 : s.idx.length = 4) : s.comps ≠ [] := by
  unfold Scan.comps
  intro e
  have := congrArg List.length e
  simp only [List.length_map, List.length_take, List.length_nil] at this
  omega

/-- one accepted progressive scan is neither `bad` nor raises a warning in the decoder -/
theorem accepted_scan (prec nc : Nat) (scanno : Int) (st : BitPos) (s : Scan) (h4 : s.idx.length = 4)
    (hc : checkComps nc scanno s = none) (hp : progOK prec st s = true) :
    decBad s = false ∧ decWarnings st s = 0 := by
  obtain ⟨hn1, _⟩ := checkComps_pos hc
  unfold progOK at hp
  simp only [Bool.and_eq_true, decide_eq_true_eq, List.all_eq_true] at hp
  obtain ⟨⟨hrange, hdcac⟩, hcoef⟩ := hp
  obtain ⟨r1, r2, r3, r4, r5, r6, r7, r8⟩ := hrange
  have hmax : (if prec = 12 then (13 : Int) else 10) ≤ 13 := by split <;> omega
  -- per component facts
  have hco : ∀ c ∈ s.comps, (s.ss = 0 ∨ 0 ≤ st.f c 0) ∧
      ∀ d, d < s.se.toNat + 1 - s.ss.toNat →
        (st.f c (s.ss.toNat + d) < 0 → s.ah = 0) ∧
        (¬ st.f c (s.ss.toNat + d) < 0 → s.ah = st.f c (s.ss.toNat + d) ∧ s.al = s.ah - 1) := by
    intro c hcm
    have := hcoef c hcm
    unfold coefOK at this
    simp only [Bool.and_eq_true, Bool.or_eq_true, decide_eq_true_eq, List.all_eq_true, List.mem_range] at this
    refine ⟨this.1, ?_⟩
    intro d hd
    have h2 := this.2 d hd
    constructor
    · intro hlt; simp only [hlt, if_true, decide_eq_true_eq] at h2; exact h2
    · intro hge; simp only [hge, if_false, decide_eq_true_eq] at h2; exact h2
  constructor
  · -- not bad
    unfold decBad
    have hrefine : s.ah ≠ 0 → s.al = s.ah - 1 := by
      intro hah
      obtain ⟨c, hcm⟩ := List.exists_mem_of_ne_nil _ (comps_ne_nil hn1 h4)
      have h0 := (hco c hcm).2 0 (by omega)
      by_cases hlt : st.f c (s.ss.toNat + 0) < 0
      · exact absurd (h0.1 hlt) hah
      · exact (h0.2 hlt).2
    by_cases hss : s.ss = 0
    · simp only [hss, if_true] at hdcac ⊢
      simp only [decide_eq_true_eq] at hdcac
      by_cases hah : s.ah = 0
      · simp [hdcac, hah]; omega
      · have := hrefine hah; simp [hdcac, this]; omega
    · simp only [hss, if_false, decide_eq_true_eq] at hdcac ⊢
      have hD : (Gen.DCTSIZE2 : Int) = 64 := rfl
      by_cases hah : s.ah = 0
      · simp [hdcac, hah]; omega
      · have := hrefine hah; simp [hdcac, this]; omega
  · -- no warning
    unfold decWarnings
    apply sum_map_zero
    intro c hcm
    obtain ⟨hdc, hk⟩ := hco c hcm
    have h1 : (if s.ss ≠ 0 ∧ st.f c 0 < 0 then 1 else 0) = 0 := by
      split
      · rename_i h; rcases hdc with e | e
        · exact absurd e h.1
        · omega
      · rfl
    rw [h1, Nat.zero_add, List.length_eq_zero_iff, List.filter_eq_nil_iff]
    intro d hd
    have hd' := List.mem_range.1 hd
    obtain ⟨a1, a2⟩ := hk d hd'
    simp only [decide_eq_true_eq, ne_eq, Decidable.not_not]
    by_cases hlt : st.f c (s.ss.toNat + d) < 0
    · simp only [hlt, if_true]; exact a1 hlt
    · simp only [hlt, if_false]; exact (a2 hlt).1

theorem accepted_scans (prec nc : Nat) : ∀ (scans : List Scan) (scanno : Int) (st st' : VState) (w : Nat),
    (∀ s ∈ scans, s.idx.length = 4) →
    validateScans prec nc .progressive scans scanno st = .ok st' → decRun scans st.bits w = some w := by
  intro scans
  induction scans with
  | nil => intro _ _ _ w _ _; rfl
  | cons s rest ih =>
    intro scanno st st' w h4 h
    unfold validateScans at h
    split at h
    · cases h
    · rename_i hc
      simp only at h
      split at h
      · rename_i hp
        obtain ⟨hb, hw⟩ := accepted_scan prec nc scanno st.bits s (h4 s (by simp)) hc hp
        unfold decRun
        simp only [hb, hw, Bool.false_eq_true, if_false, Nat.add_zero]
        exact ih (scanno + 1) _ st' w (fun x hx => h4 x (by simp [hx])) h
      · cases h

/-- **Accepted progressive scan scripts decode without complaint.**  Whatever script an application hands
to the compressor (any number of scans, any component lists, any `Ss Se Ah Al`, 8- or 12-bit): if
`validate_script` accepts it as progressive, then the library's own progressive decoder raises neither
`JERR_BAD_PROGRESSION` nor a single `JWRN_BOGUS_PROGRESSION` for the scans in that order. -/
theorem accepted_progressive_script_decodes (prec nc : Nat) (scans : List Scan)
    (h4 : ∀ s ∈ scans, s.idx.length = 4)
    (h : validateScript prec nc scans = .ok .progressive) : decRun scans BitPos.init 0 = some 0 := by
  unfold validateScript at h
  cases scans with
  | nil => cases h
  | cons s0 rest =>
    simp only at h
    generalize (if s0.ss ≠ 0 ∧ s0.se = 0 then Mode.lossless
      else if s0.ss ≠ 0 ∨ s0.se ≠ (Gen.DCTSIZE2 : Int) - 1 then Mode.progressive else Mode.sequential) = mode at h
    cases hv : validateScans prec nc mode (s0 :: rest) 1 ⟨BitPos.init, []⟩ with
    | error e => rw [hv] at h; cases h
    | ok st =>
      rw [hv] at h
      cases mode with
      | progressive => exact accepted_scans prec nc (s0 :: rest) 1 ⟨BitPos.init, []⟩ st 0 h4 hv
      | sequential => simp only at h; split at h <;> cases h
      | lossless => simp only at h; split at h <;> cases h

end LJT.ScanScript
