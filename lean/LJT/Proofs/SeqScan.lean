import LJT.Proofs.SeqInterval
import LJT.Proofs.RstFraming
import LJT.Proofs.Lossless
/-! The entropy-coded data of a whole sequential Huffman scan - restart intervals joined by RSTn markers,
DC predictors reset at every interval - decodes to exactly the blocks that were coded. -/
namespace LJT.SeqHuff
open LJT.Huff LJT.Bits LJT.LL

/-- decode every restart interval of a scan: the blocks of interval `k` (component slots `slotss[k]`) from the
bytes of interval `k`, with the DC predictors at 0 at its start -/
def decodeIntervals (dt : Nat → Option (DDerived × DDerived)) : List (List Nat) → List (List Nat) → Option (List (List Blk))
  | [], [] => some []
  | slots :: ss, seg :: segs =>
    match decodeBlocks dt (Array.replicate 4 0) slots (segmentBits seg), decodeIntervals dt ss segs with
    | some (blocks, _), some rest => some (blocks :: rest)
    | _, _ => none
  | _, _ => none

theorem decodeIntervals_ok (ct : Nat → Option (CDerived × CDerived)) (dt : Nat → Option (DDerived × DDerived)) :
    ∀ (ivs : List (List Blk)) (bitss : List (List Bool)),
      (∀ iv ∈ ivs, (∀ b ∈ iv, TabsOK ct dt b.slot ∧ b.ac.length = 63 ∧ ∀ v ∈ b.ac, v.natAbs < 32768) ∧
        DiffsOK (Array.replicate 4 0) iv) →
      All2 (fun iv bits => encodeBlocks ct (Array.replicate 4 0) iv = some bits) ivs bitss →
      decodeIntervals dt (ivs.map (fun iv => iv.map (·.slot))) (bitss.map segmentBytes) = some ivs := by
  intro ivs
  induction ivs with
  | nil => intro bitss _ h; cases h; rfl
  | cons iv ivs ih =>
    intro bitss hall h
    cases h with
    | cons h1 h2 =>
      rename_i bits bitss'
      obtain ⟨hb, hd⟩ := hall iv (by simp)
      have hr := ih bitss' (fun x hx => hall x (by simp [hx])) h2
      have h0 := decodeBlocks_encodeBlocks ct dt iv (Array.replicate 4 0) bits
        (List.replicate (padLen bits.length) true) hb hd h1
      simp only [List.map_cons, decodeIntervals, segmentBits_segmentBytes, h0, hr]

/-- **A whole sequential Huffman scan round-trips, restart markers included**: the blocks of every restart
interval in MCU order, coded by `encodeBlocks` with the predictors reset to 0, packed, 1-padded, byte-stuffed
and joined by `FF D0..D7`; splitting at the markers and decoding interval by interval returns exactly the
blocks (the padding bits of each interval are what is left over). -/
theorem scan_roundtrip (ct : Nat → Option (CDerived × CDerived)) (dt : Nat → Option (DDerived × DDerived))
    (ivs : List (List Blk)) (hne : ivs ≠ []) (bitss : List (List Bool))
    (hall : ∀ iv ∈ ivs, (∀ b ∈ iv, TabsOK ct dt b.slot ∧ b.ac.length = 63 ∧ ∀ v ∈ b.ac, v.natAbs < 32768) ∧
      DiffsOK (Array.replicate 4 0) iv)
    (henc : All2 (fun iv bits => encodeBlocks ct (Array.replicate 4 0) iv = some bits) ivs bitss) :
    decodeIntervals dt (ivs.map (fun iv => iv.map (·.slot)))
      (splitRST (joinRST (bitss.map segmentBytes) 0) []) = some ivs := by
  have hne' : bitss ≠ [] := by
    intro e; subst e; cases henc; exact hne rfl
  rw [splitRST_joinRST bitss 0 hne']
  exact decodeIntervals_ok ct dt ivs bitss hall henc

end LJT.SeqHuff
