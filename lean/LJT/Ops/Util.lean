/-! Parsing/printing helpers for the line protocol of `ljt-driver`. -/
namespace LJT.Ops

def toks (line : String) : List String :=
  (line.trimAscii.toString.splitOn " ").filter (· ≠ "")

def nat? (s : String) : Option Nat := s.toNat?
def int? (s : String) : Option Int := s.toInt?

def nats? (l : List String) : Option (List Nat) := l.mapM nat?
def ints? (l : List String) : Option (List Int) := l.mapM int?

def joinNat (l : List Nat) : String := " ".intercalate (l.map toString)
def joinInt (l : List Int) : String := " ".intercalate (l.map toString)

def hexDigit (c : Char) : Option Nat :=
  if '0' ≤ c ∧ c ≤ '9' then some (c.toNat - '0'.toNat)
  else if 'a' ≤ c ∧ c ≤ 'f' then some (c.toNat - 'a'.toNat + 10)
  else if 'A' ≤ c ∧ c ≤ 'F' then some (c.toNat - 'A'.toNat + 10)
  else none

/-- hex string -> bytes; "-" is the empty string -/
def hexBytes? (s : String) : Option (List Nat) :=
  if s = "-" then some [] else
  let rec go : List Char → List Nat → Option (List Nat)
    | [], acc => some acc.reverse
    | [_], _ => none
    | a :: b :: r, acc => do
      let x ← hexDigit a; let y ← hexDigit b
      go r ((x * 16 + y) :: acc)
  go s.toList []

def hexOf (bs : List Nat) : String :=
  if bs.isEmpty then "-" else
  let d (n : Nat) : Char := if n < 10 then Char.ofNat (48 + n) else Char.ofNat (87 + n)
  String.ofList (bs.flatMap (fun b => [d ((b / 16) % 16), d (b % 16)]))

/-- cheap order-sensitive digest for long outputs (FNV-1a 64) -/
def fnv (bs : List Nat) : Nat :=
  bs.foldl (fun h b => ((h ^^^ (b % 256)) * 1099511628211) % 18446744073709551616) 14695981039346656037

end LJT.Ops
