"""C05 - SIMD and scalar code paths give bit-identical results."""
ID = "C05"
VARIANTS = ["san", "simd", "sse2", "nosimd"]
VARIANT_ALIAS = {"sse2": "simd", "nosimd": "simd"}
ENV = {"sse2": {"JSIMD_FORCESSE2": "1"}, "nosimd": {"JSIMD_FORCENONE": "1"}}
CROSS = True
RULE = ("the same operations are executed by four variants - the build without SIMD (under ASan/UBSan), the SIMD build at its default level "
        "(AVX2), the SIMD build with JSIMD_FORCESSE2=1 and with JSIMD_FORCENONE=1 - and their result lines must be identical.  s5c: "
        "tj3Compress8 of formula images (noise, hard edges, gradients, photographic-like, extremes) for every width 1..70 and beyond "
        "(all residues modulo 16 and 32), all 12 pixel formats, 7 subsampling levels, qualities 1..100 (incl. >= 98 with the fast DCT), "
        "accurate and fast DCT, optimised and progressive entropy coding, RGB and YCCK colourspaces, source buffer at every offset 0..31 "
        "from a 64-byte boundary with random row padding: digest of the JPEG.  s5d: streams from formula coefficients decoded with every "
        "scaling factor (all reduced-size IDCTs), accurate/fast IDCT, fancy/plain/merged upsampling, all pixel formats, destination at "
        "every offset 0..31 with row padding: digest of the samples.  s5y: RGB -> YUV planes -> RGB through tj3EncodeYUV8/tj3DecodeYUV8 "
        "(colour conversion, h2v1/h2v2 downsampling and upsampling only).  quant/recip ops of C07: jsimd_quantize vs quantize() on the "
        "same divisor tables; nbits / C19 ops: SIMD nbits table vs clz")
TRUSTED = ["bit-identity is a statement about two implementations; the theorems prove the parts for which one model serves both (quantiser "
           "for both word sizes, nbits table vs bit length); all other SIMD kernels are compared output against output"]
ASSUMPTIONS = ["the floating-point DCT/IDCT is exempt and not exercised; instruction-set levels present on this machine: AVX2 and SSE2"]


def classify(op, R):
    p = op.split(" ")
    if p[0] == "s5n": return "s5n:%s:w%d:d%s" % ("".join(p[7:13]), int(p[1]) % 16, p[5])
    if p[0] == "s5e": return "s5e:ss%s:k%s:m%s" % (p[1], p[5], p[6])
    if p[0] == "s5c": return "s5c:w%d:pf%s:ss%s:f%s:off%d" % (int(p[1]) % 32, p[3], p[4], p[6], int(p[7]) % 4)
    if p[0] == "s5d": return "s5d:ss%s:pf%s:f%s:sf%s" % (p[1], p[6], p[7], p[8])
    if p[0] == "s5y": return "s5y:ss%s:w%d" % (p[3], int(p[1]) % 16)
    return p[0]


def gen_ops(rng, tier):
    big = tier == "thorough"
    ops = []
    for i in range(6000 if big else 900):
        w = rng.choice([rng.randint(1, 70), rng.randint(1, 70), rng.randint(71, 140), 16, 32, 33, 31, 17, 15]); h = rng.randint(1, 24)
        q = rng.choice([rng.randint(1, 100), 98, 99, 100, 75, 1])
        ops.append("s5c %d %d %d %d %d %d %d %d %d %d" % (w, h, rng.randrange(12), rng.randrange(7), q, rng.randrange(16), rng.randrange(32), rng.choice([0, 0, 1, 3, 5, 16]),
                                                         rng.randrange(1 << 30), rng.randrange(5)))
    for i in range(6000 if big else 900):
        ss = rng.choice([0, 1, 2, 3, 4, 5, 6, 2, 1])
        w = rng.choice([rng.randint(1, 70), rng.randint(1, 40), 16, 32, 33, 31, 17]); h = rng.randint(1, 24)
        ops.append("s5d %d %d %d %d %d %d %d %d %d %d" % (ss, w, h, rng.randrange(1 << 30), rng.choice([7, 7, 7, 7, 0, 2, 3]), rng.randrange(12), rng.randrange(4), rng.randrange(16),
                                                         rng.randrange(32), rng.choice([0, 0, 1, 3, 7])))
    for i in range(2000 if big else 300):
        ops.append("s5y %d %d %d %d %d %d" % (rng.choice([rng.randint(1, 70), 16, 31, 32, 33, 65]), rng.randint(1, 20), rng.choice([0, 1, 2, 4, 5, 6]), rng.randrange(1 << 30),
                                             rng.randrange(5), rng.choice([1, 2, 4, 8, 16, 32])))
    # sampling factors beyond the TurboJPEG levels (libjpeg API): row groups of 2..4 rows through the h2v1 / h2v2 / generic downsamplers
    for i in range(1500 if big else 260):
        f = rng.choice([(2, 2, 1, 2, 1, 2), (2, 2, 2, 1, 2, 1), (2, 2, 1, 2, 1, 2), (4, 2, 2, 2, 1, 1), (2, 4, 1, 2, 1, 4), (4, 1, 2, 1, 1, 1), (2, 2, 1, 1, 2, 1), (3, 2, 1, 2, 1, 1), (2, 3, 2, 1, 1, 3),
                        (1, 2, 1, 1, 1, 2), (2, 1, 1, 1, 2, 1), (4, 4, 2, 2, 1, 1), (2, 2, 1, 2, 2, 2),
                        (4, 2, 1, 1, 1, 1), (2, 2, 1, 1, 1, 1), (4, 1, 1, 1, 1, 1), (2, 4, 1, 1, 1, 1), (4, 4, 1, 1, 1, 1), (4, 2, 2, 1, 2, 1), (4, 2, 1, 2, 1, 2), (2, 1, 1, 1, 1, 1), (1, 2, 1, 1, 1, 1)])
        ops.append("s5n %d %d %d %d %d %d %s" % (rng.choice([rng.randint(1, 70), 17, 31, 33, 47, 48, 16, 32]), rng.randint(1, 40), rng.randrange(1 << 30), rng.randrange(5), rng.randrange(2),
                                                 rng.choice([0, 0, 0, 30]), " ".join(map(str, f))))
    # entropy coding alone: SIMD Huffman / progressive-prepare routines against the C ones on formula coefficients, every scan script
    for i in range(2500 if big else 400):
        ss = rng.choice([0, 1, 2, 3, 3, 4])
        mode = rng.choice([0, 1, 2, 3, 3, 3, 3, 6])
        ops.append("s5e %d %d %d %d %d %d %d %d" % (ss, rng.randint(1, 50), rng.randint(1, 30), rng.randrange(1 << 30), rng.choice([0, 0, 1, 2, 3, 4, 6, 7]), mode,
                                                   rng.randrange(1, 1 << 30), rng.choice([0, 0, 0, 1, 3, 8])))
    # the quantiser: SIMD vs C on the same tables (C07 op; the executor itself compares jsimd_quantize with quantize())
    for d in list(range(1, 70)) + [8 * q for q in (1, 2, 3, 4, 5, 16, 255, 256, 1000, 8191)]:
        ws = [rng.randint(-32767, 32767) for _ in range(20)] + [k * d + e for k in range(0, 8) for e in (-1, 0, 1) if abs(k * d + e) < 32768]
        ops.append("quant 16 %d %s" % (d, " ".join(map(str, ws[:60]))))
    return ops


def search(ctx, failing_ops):
    return []


MANIFEST = {
    "text": ("Kernel-checked Lean theorems for the parts where one model serves both implementations: the reciprocal quantiser returns the "
             "same value for the 16-bit word of the SIMD build and the 32-bit word of the scalar build (both equal round-to-nearest "
             "division, C07), the SIMD bit-length table equals the scalar one and the clz form (C19).  All other kernels (colour "
             "conversion, down/upsampling incl. merged, forward/inverse DCTs incl. reduced sizes, quantisation, Huffman encoding) are "
             "compared output against output over four variants (no SIMD compiled in, AVX2, SSE2 forced, SIMD disabled at run time) on "
             "every width residue, buffer offset 0..31, pixel format, subsampling level, scaling factor and quality."),
    "design_ref": "DESIGN.md 6.5",
    "note": ("Partial: equality of hand-written assembly with C is compared, not proved. Trusted: Lean kernel; axioms propext, Quot.sound, "
             "Classical.choice; the instruction-set levels of this machine."),
    "technique": "Lean 4 proof (word-size independence of the quantiser, table agreement) + four-way output comparison of the real code across SIMD levels",
}
