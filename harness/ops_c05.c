/* C05: SIMD and scalar code paths give bit-identical results.  The same operations are run in every build /
 * run-time variant (AVX2, SSE2 forced, SIMD disabled by environment, SIMD not compiled in) and the result
 * lines are compared with each other by the checker. */
#include "exec_common.h"
#include <sys/mman.h>

static unsigned long long c05_fnv(const void *p, size_t n, unsigned long long h)
{
  const unsigned char *b = (const unsigned char *)p; size_t i;
  for (i = 0; i < n; i++) { h ^= b[i]; h *= 1099511628211ULL; }
  return h;
}

static int c05_pixel(unsigned long long seed, int kind, int x, int y, int c)
{
  unsigned long long m = c03_mix(seed * 7919ULL + (unsigned long long)y * 104729ULL + (unsigned long long)x * 7ULL + (unsigned long long)c);
  switch (kind) {
  case 0: return (int)(m % 256ULL);
  case 1: return ((x / 3 + y / 2 + c) & 1) ? 255 : 0;
  case 2: return (x * 5 + y * 3 + c * 40) & 255;
  case 3: return (int)(128 + ((x * 7 + y * 5) % 32) - 16 + (int)(m % 3ULL));
  default: return (m & 1ULL) ? 255 : 0;
  }
}

/* s5c w h pf subsamp quality flags(bit0 fastdct, bit1 optimize, bit2 progressive) offset pitchpad seed kind :
   compress from a buffer placed at `offset` bytes into an aligned allocation; result = digest of the JPEG */
static int c05_s5c(toks_t *t)
{
  int w = (int)tl(t, 1), h = (int)tl(t, 2), pf = (int)tl(t, 3), ss = (int)tl(t, 4), q = (int)tl(t, 5), fl = (int)tl(t, 6), off = (int)tl(t, 7), pad = (int)tl(t, 8), kind = (int)tl(t, 10);
  unsigned long long seed = (unsigned long long)tll(t, 9); int ps = tjPixelSize[pf], x, y, c; size_t pitch = (size_t)w * ps + pad;
  unsigned char *base = NULL, *img, *jp = NULL; size_t jn = 0; tjhandle hd = tj3Init(TJINIT_COMPRESS);
  if (posix_memalign((void **)&base, 64, pitch * h + 128)) INTERNAL("memalign");
  memset(base, 0x77, pitch * h + 128);
  img = base + off;
  for (y = 0; y < h; y++) for (x = 0; x < w; x++) for (c = 0; c < ps; c++) img[(size_t)y * pitch + (size_t)x * ps + c] = (unsigned char)c05_pixel(seed, kind, x, y, c);
  tj3Set(hd, TJPARAM_QUALITY, q); tj3Set(hd, TJPARAM_SUBSAMP, pf == TJPF_GRAY ? TJSAMP_GRAY : ss);
  tj3Set(hd, TJPARAM_FASTDCT, fl & 1); tj3Set(hd, TJPARAM_OPTIMIZE, (fl >> 1) & 1); tj3Set(hd, TJPARAM_PROGRESSIVE, (fl >> 2) & 1);
  if (pf == TJPF_CMYK) tj3Set(hd, TJPARAM_COLORSPACE, (fl & 8) ? TJCS_YCCK : TJCS_CMYK);
  else if (pf != TJPF_GRAY && (fl & 8)) tj3Set(hd, TJPARAM_COLORSPACE, TJCS_RGB), tj3Set(hd, TJPARAM_SUBSAMP, TJSAMP_444);
  if (tj3Compress8(hd, img, w, (int)pitch, h, pf, &jp, &jn) < 0) printf("R err %s\n", tj3GetErrorStr(hd));
  else printf("R %zu %llu\n", jn, c05_fnv(jp, jn, 14695981039346656037ULL));
  tj3Free(jp); tj3Destroy(hd); free(base);
  return 1;
}

/* s5d ss w h seed ckind pf flags(bit0 fastdct, bit1 fastupsample) scale(index) offset pitchpad :
   a stream built from formula coefficients (C03 builder, Huffman baseline), decoded into a buffer at `offset` */
static int c05_s5d(toks_t *t)
{
  c03_job j; int pf = (int)tl(t, 6), fl = (int)tl(t, 7), sfi = (int)tl(t, 8), off = (int)tl(t, 9), pad = (int)tl(t, 10), err = 0, nsf, sw, sh, ps = tjPixelSize[pf], y;
  unsigned char *jp = NULL; unsigned long jn = 0; tjhandle hd; tjscalingfactor *sf = tj3GetScalingFactors(&nsf), f; unsigned char *base = NULL, *img; size_t pitch; unsigned long long hsh = 14695981039346656037ULL;
  memset(&j, 0, sizeof(j));
  j.ss = (int)tl(t, 1); j.w = (int)tl(t, 2); j.h = (int)tl(t, 3); j.prec = 8; j.seed = (unsigned long long)tll(t, 4); j.kind = (int)tl(t, 5); j.mode = 1; j.nc = j.ss == 3 ? 1 : 3;
  if (j.kind == 7) {
    /* a natural stream: the library's own accurate-DCT compression of a formula image */
    tjhandle hc = tj3Init(TJINIT_COMPRESS); int x, yy, c, nc = j.nc, ik = (int)(j.seed % 5ULL); unsigned char *src = (unsigned char *)malloc((size_t)j.w * j.h * nc + 16); size_t n2 = 0; unsigned char *p2 = NULL;
    static const int sub[7] = { TJSAMP_444, TJSAMP_422, TJSAMP_420, TJSAMP_GRAY, TJSAMP_440, TJSAMP_411, TJSAMP_441 };
    for (yy = 0; yy < j.h; yy++) for (x = 0; x < j.w; x++) for (c = 0; c < nc; c++) src[((size_t)yy * j.w + x) * nc + c] = (unsigned char)c05_pixel(j.seed, ik, x, yy, c);
    tj3Set(hc, TJPARAM_QUALITY, 1 + (int)((j.seed >> 8) % 100ULL)); tj3Set(hc, TJPARAM_SUBSAMP, sub[j.ss % 7]);
    if (tj3Compress8(hc, src, j.w, 0, j.h, nc == 1 ? TJPF_GRAY : TJPF_RGB, &p2, &n2) < 0) { printf("R err natural %s\n", tj3GetErrorStr(hc)); tj3Destroy(hc); free(src); return 1; }
    jp = (unsigned char *)malloc(n2); memcpy(jp, p2, n2); jn = n2; tj3Free(p2); tj3Destroy(hc); free(src);
  } else if (!c03_build(&j, &jp, &jn, &err)) { printf("R err build %d\n", err); return 1; }
  hd = tj3Init(TJINIT_DECOMPRESS);
  f = sf[sfi % nsf];
  tj3SetScalingFactor(hd, f);
  tj3Set(hd, TJPARAM_FASTDCT, fl & 1); tj3Set(hd, TJPARAM_FASTUPSAMPLE, (fl >> 1) & 1);
  sw = TJSCALED(j.w, f); sh = TJSCALED(j.h, f);
  if (j.nc == 1 && pf == TJPF_CMYK) pf = TJPF_GRAY, ps = 1;
  if (pf == TJPF_CMYK) pf = TJPF_RGB, ps = 3;
  pitch = (size_t)sw * ps + pad;
  if (posix_memalign((void **)&base, 64, pitch * sh + 128)) INTERNAL("memalign");
  memset(base, 0x77, pitch * sh + 128);
  img = base + off;
  if (tj3Decompress8(hd, jp, jn, img, (int)pitch, pf) < 0) printf("R err %s\n", tj3GetErrorStr(hd));
  else {
    for (y = 0; y < sh; y++) {
      if (tjPixelSize[pf] == 4 && tjAlphaOffset[pf] < 0) { int x, xo = (pf == TJPF_RGBX || pf == TJPF_BGRX) ? 3 : 0; for (x = 0; x < sw; x++) img[(size_t)y * pitch + (size_t)x * 4 + xo] = 0; }
      hsh = c05_fnv(img + (size_t)y * pitch, (size_t)sw * ps, hsh);
    }
    printf("R %dx%d %llu jpeg%llu\n", sw, sh, hsh, c05_fnv(jp, jn, 14695981039346656037ULL));
  }
  tj3Destroy(hd); free(base); free(jp);
  return 1;
}

/* s5y w h subsamp seed kind align : RGB -> YUV planes -> RGB (colour conversion, downsampling, upsampling only) */
static int c05_s5y(toks_t *t)
{
  int w = (int)tl(t, 1), h = (int)tl(t, 2), ss = (int)tl(t, 3), kind = (int)tl(t, 5), align = (int)tl(t, 6), x, y, c; unsigned long long seed = (unsigned long long)tll(t, 4);
  unsigned char *img = (unsigned char *)malloc((size_t)w * h * 3 + 16), *back = (unsigned char *)malloc((size_t)w * h * 3 + 16), *yuv; size_t ysz = tj3YUVBufSize(w, align, h, ss);
  tjhandle hc = tj3Init(TJINIT_COMPRESS), hdd = tj3Init(TJINIT_DECOMPRESS);
  for (y = 0; y < h; y++) for (x = 0; x < w; x++) for (c = 0; c < 3; c++) img[((size_t)y * w + x) * 3 + c] = (unsigned char)c05_pixel(seed, kind, x, y, c);
  yuv = (unsigned char *)malloc(ysz + 16); memset(yuv, 0, ysz + 16);
  tj3Set(hc, TJPARAM_SUBSAMP, ss);
  if (tj3EncodeYUV8(hc, img, w, 0, h, TJPF_RGB, yuv, align) < 0) { printf("R err %s\n", tj3GetErrorStr(hc)); goto done; }
  tj3Set(hdd, TJPARAM_SUBSAMP, ss);
  if (tj3DecodeYUV8(hdd, yuv, align, back, w, 0, h, TJPF_RGB) < 0) { printf("R err %s\n", tj3GetErrorStr(hdd)); goto done; }
  printf("R yuv%llu rgb%llu\n", c05_fnv(yuv, ysz, 14695981039346656037ULL), c05_fnv(back, (size_t)w * h * 3, 14695981039346656037ULL));
done:
  tj3Destroy(hc); tj3Destroy(hdd); free(img); free(back); free(yuv);
  return 1;
}

/* s5e ss w h seed kind mode sseed ri : entropy coding alone (formula coefficients through jpeg_write_coefficients, the C03 builder):
   baseline, optimised, progressive with jpeg_simple_progression or a seeded scan script (bands of every length, successive
   approximation), arithmetic; result = digest of the JPEG */
static int c05_s5e(toks_t *t)
{
  c03_job j; unsigned char *jp = NULL; unsigned long n = 0, i; int err = 0; unsigned long long h = 14695981039346656037ULL;
  memset(&j, 0, sizeof(j));
  j.ss = (int)tl(t, 1); j.w = (int)tl(t, 2); j.h = (int)tl(t, 3); j.seed = (unsigned long long)tll(t, 4); j.kind = (int)tl(t, 5); j.mode = (int)tl(t, 6);
  j.sseed = (unsigned long long)tll(t, 7); j.ri = (int)tl(t, 8); j.prec = 8; j.nc = j.ss == 3 ? 1 : 3;
  if (!c03_build(&j, &jp, &n, &err)) { printf("R err build %d\n", err); return 1; }
  for (i = 0; i < n; i++) { h ^= jp[i]; h *= 1099511628211ULL; }
  printf("R %lu %llu\n", n, h); free(jp);
  return 1;
}


/* s5n w h seed kind dct smooth h0 v0 h1 v1 h2 v2 : compression through the libjpeg API with sampling factors the TurboJPEG levels cannot
   express (e.g. 2x2,1x2,1x2: h2v1 downsampling of two rows per row group; 2x2,2x1,2x1; 4x2,1x1,1x1; 3x2,...), so that the SIMD
   downsamplers, colour converters and DCTs are driven with every row-group height; result = digest of the JPEG */
static int c05_s5n(toks_t *t)
{
  int w = (int)tl(t, 1), h = (int)tl(t, 2), kind = (int)tl(t, 4), dct = (int)tl(t, 5), smooth = (int)tl(t, 6), i, x, y, c; unsigned long long seed = (unsigned long long)tll(t, 3);
  struct jpeg_compress_struct cc; my_err_t e; unsigned char *jp = NULL, *row; unsigned long jn = 0;
  cc.err = my_err_init(&e);
  jpeg_create_compress(&cc);
  if (setjmp(e.jb)) { printf("R err %d\n", e.code); jpeg_destroy_compress(&cc); free(jp); return 1; }
  jpeg_mem_dest(&cc, &jp, &jn);
  cc.image_width = (JDIMENSION)w; cc.image_height = (JDIMENSION)h; cc.input_components = 3; cc.in_color_space = JCS_RGB;
  jpeg_set_defaults(&cc); jpeg_set_quality(&cc, 90, TRUE);
  cc.dct_method = dct ? JDCT_IFAST : JDCT_ISLOW; cc.smoothing_factor = smooth;
  for (i = 0; i < 3; i++) { cc.comp_info[i].h_samp_factor = (int)tl(t, 7 + 2 * i); cc.comp_info[i].v_samp_factor = (int)tl(t, 8 + 2 * i); }
  jpeg_start_compress(&cc, TRUE);
  row = (unsigned char *)malloc((size_t)w * 3 + 16);
  for (y = 0; y < h; y++) { JSAMPROW rp = row; for (x = 0; x < w; x++) for (c = 0; c < 3; c++) row[x * 3 + c] = (unsigned char)c05_pixel(seed, kind, x, y, c); jpeg_write_scanlines(&cc, &rp, 1); }
  free(row);
  jpeg_finish_compress(&cc);
  jpeg_destroy_compress(&cc);
  printf("R %lu %llu", jn, c05_fnv(jp, jn, 14695981039346656037ULL));
  /* ... and the decompressor on that stream (accurate IDCT only: the fast ones are allowed to differ) at scales where the components
     get IDCTs of different sizes, with and without fancy upsampling: the SIMD upsamplers and colour converters with every row-group height */
  if (!dct) {
    static const int sc[6][2] = { { 1, 1 }, { 1, 2 }, { 1, 4 }, { 1, 8 }, { 3, 8 }, { 2, 1 } }; int k;
    for (k = 0; k < 12; k++) {
      struct jpeg_decompress_struct d; my_err_t de; unsigned long long hh = 14695981039346656037ULL; unsigned char * volatile drow = NULL;
      d.err = my_err_init(&de);
      jpeg_create_decompress(&d);
      if (setjmp(de.jb)) { printf(" e%d", de.code); jpeg_destroy_decompress(&d); free(drow); continue; }
      jpeg_mem_src(&d, jp, jn);
      jpeg_read_header(&d, TRUE);
      d.scale_num = sc[k % 6][0]; d.scale_denom = sc[k % 6][1]; d.do_fancy_upsampling = k < 6; d.dct_method = JDCT_ISLOW; d.out_color_space = JCS_RGB;
      jpeg_start_decompress(&d);
      drow = (unsigned char *)malloc((size_t)d.output_width * 3 + 16);
      while (d.output_scanline < d.output_height) { JSAMPROW rp = drow; jpeg_read_scanlines(&d, &rp, 1); hh = c05_fnv(drow, (size_t)d.output_width * 3, hh); }
      jpeg_finish_decompress(&d); jpeg_destroy_decompress(&d); free(drow);
      printf(" %llx", hh);
    }
  }
  printf("\n");
  free(jp);
  return 1;
}

static int dispatch_c05(toks_t *t)
{
  if (!strcmp(t->tok[0], "s5n") && t->n >= 13) return c05_s5n(t);
  if (!strcmp(t->tok[0], "s5e") && t->n >= 9) return c05_s5e(t);
  if (!strcmp(t->tok[0], "s5c") && t->n >= 11) return c05_s5c(t);
  if (!strcmp(t->tok[0], "s5d") && t->n >= 11) return c05_s5d(t);
  if (!strcmp(t->tok[0], "s5y") && t->n >= 7) return c05_s5y(t);
  return 0;
}
