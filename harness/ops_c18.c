/* C18: image file loading (tj3LoadImage*, cjpeg front-end readers) and save/load round trip */
#include "exec_common.h"
#include "cdjpeg.h"
#include <unistd.h>
/* the GIF and Targa readers (only part of cjpeg) are compiled into the executor by extra_rd*.c */

static char c18_path[256];
static const char *c18_tmp(const char *ext)
{
  const char *d = access("/dev/shm", W_OK) == 0 ? "/dev/shm" : "/tmp";
  snprintf(c18_path, sizeof(c18_path), "%s/ljtv_c18_%d%s", d, (int)getpid(), ext);
  return c18_path;
}
static int c18_write(const char *p, const unsigned char *b, size_t n)
{
  FILE *f = fopen(p, "wb"); if (!f) return 0;
  if (n && fwrite(b, 1, n, f) != n) { fclose(f); return 0; }
  fclose(f); return 1;
}
static const char *c18_errkind(const char *m)
{
  if (strstr(m, "Premature end of input file")) return "eof";
  if (strstr(m, "Nonnumeric data")) return "nonnumeric";
  if (strstr(m, "out of range in PPM")) return "outofrange";
  if (strstr(m, "Not a PPM")) return "notppm";
  if (strstr(m, "Maximum supported image dimension")) return "toobig";
  if (strstr(m, "Bogus input colorspace")) return "badcs";
  if (strstr(m, "no data") || strstr(m, "Could not read input file")) return "nodata";
  if (strstr(m, "Unsupported file type")) return "notppm";
  return m;
}
static const int c18_xoff[12] = { -1, -1, 3, 3, 0, 0, -1, -1, -1, -1, -1, -1 };   /* undefined component of the X formats */

static void *c18_load(tjhandle h, int bits, const char *p, int *w, int align, int *hh, int *pf)
{
  if (bits == 8) return tj3LoadImage8(h, p, w, align, hh, pf);
  if (bits == 12) return tj3LoadImage12(h, p, w, align, hh, pf);
  return tj3LoadImage16(h, p, w, align, hh, pf);
}
static long c18_get(const void *buf, int bits, size_t i)
{
  return bits == 8 ? (long)((const unsigned char *)buf)[i] : bits == 12 ? (long)((const short *)buf)[i] : (long)((const unsigned short *)buf)[i];
}
static int c18_effprec(int bits, int prec)
{
  if (bits == 8) return (prec >= 2 && prec <= 8) ? prec : 8;
  return (prec >= bits - 3 && prec <= bits) ? prec : bits;
}

/* pnmload bits prec pf maxPixels bottomUp align hex */
static int c18_pnmload(toks_t *t)
{
  int bits = (int)tl(t, 1), prec = (int)tl(t, 2), pf = (int)tl(t, 3), bu = (int)tl(t, 5), align = (int)tl(t, 6), w = 0, h = 0, pfo, P;
  long maxpix = tl(t, 4); size_t n; unsigned char *b = hex2bytes(t->tok[7], &n); void *img; tjhandle hd;
  const char *p = c18_tmp(".ppm");
  P = c18_effprec(bits, prec);
  if (!c18_write(p, b, n)) INTERNAL("cannot write temp file");
  hd = tj3Init(TJINIT_COMPRESS);
  tj3Set(hd, TJPARAM_PRECISION, prec);
  tj3Set(hd, TJPARAM_BOTTOMUP, bu);
  tj3Set(hd, TJPARAM_MAXPIXELS, (int)maxpix);
  pfo = pf == 12 ? TJPF_UNKNOWN : pf;
  img = c18_load(hd, bits, p, &w, align, &h, &pfo);
  if (!img) {
    printf("R err %s\n", c18_errkind(tj3GetErrorStr(hd)));
    printf("O ok\n");
  } else {
    int ps = tjPixelSize[pfo], y, x, xo = c18_xoff[pfo]; size_t pitch = ((size_t)w * ps + align - 1) & ~(size_t)(align - 1);
    unsigned long long fh = 14695981039346656037ULL; long mx = 0, bad = -1;
    for (y = 0; y < h; y++) for (x = 0; x < w * ps; x++) {
      long v = c18_get(img, bits, (size_t)y * pitch + x);
      if (xo >= 0 && x % ps == xo) v = -1;
      else { if (v > mx) mx = v; if (v > (1L << P) - 1 || v < 0) bad = v; }
      fh ^= (unsigned long long)(v & 255); fh *= 1099511628211ULL; fh ^= (unsigned long long)((v >> 8) & 255); fh *= 1099511628211ULL;
    }
    if (pfo == TJPF_CMYK) printf("R ok %d %d 11 cmyk\n", w, h);
    else printf("R ok %d %d %d %llu max%ld\n", w, h, pfo, fh, mx);
    if (bad >= 0) printf("O fail pnmload: loader returned sample %ld, outside the %d-bit target precision\n", bad, P);
    else printf("O ok\n");
    tj3Free(img);
  }
  tj3Destroy(hd); unlink(p); free(b);
  return 1;
}

static unsigned c18_formula(unsigned long long seed, int y, int x, int P)
{
  return (unsigned)(((seed + 1ULL) * (unsigned long long)(y * 131 + x * 17 + 7) * 40503ULL / 64ULL) % (1ULL << P));
}

/* pnmsave bits prec pf bottomUp w h seed align ext(0 ppm,1 bmp) : save a formula image, digest of the file,
   then load it back with the same settings and compare */
static int c18_pnmsave(toks_t *t)
{
  int bits = (int)tl(t, 1), prec = (int)tl(t, 2), pf = (int)tl(t, 3), bu = (int)tl(t, 4), w = (int)tl(t, 5), h = (int)tl(t, 6), align = (int)tl(t, 8), bmp = (int)tl(t, 9);
  unsigned long long seed = (unsigned long long)tll(t, 7);
  int P = bmp ? 8 : c18_effprec(bits, prec), ps = tjPixelSize[pf], y, x, rc, w2 = 0, h2 = 0, pf2 = pf, xo = c18_xoff[pf];
  size_t pitch = ((size_t)w * ps + align - 1) & ~(size_t)(align - 1), ss = bits == 8 ? 1 : 2;
  unsigned char *buf = (unsigned char *)malloc(pitch * h * ss + 16); tjhandle hd; const char *p = c18_tmp(bmp ? ".bmp" : ".ppm");
  void *img;
  memset(buf, 0xA5, pitch * h * ss + 16);
  for (y = 0; y < h; y++) for (x = 0; x < w * ps; x++) {
    unsigned v = c18_formula(seed, y, x, P);
    if (bits == 8) buf[(size_t)y * pitch + x] = (unsigned char)v; else ((unsigned short *)buf)[(size_t)y * pitch + x] = (unsigned short)v;
  }
  hd = tj3Init(TJINIT_DECOMPRESS);
  tj3Set(hd, TJPARAM_PRECISION, prec);
  tj3Set(hd, TJPARAM_BOTTOMUP, bu);
  if (bits == 8) rc = tj3SaveImage8(hd, p, buf, w, (int)pitch, h, pf);
  else if (bits == 12) rc = tj3SaveImage12(hd, p, (short *)buf, w, (int)pitch, h, pf);
  else rc = tj3SaveImage16(hd, p, (unsigned short *)buf, w, (int)pitch, h, pf);
  if (rc < 0) { printf("R%s err\n", (pf == 11 || bmp) ? " skip" : ""); printf("O fail pnmsave: %s\n", tj3GetErrorStr(hd)); goto done; }
  {
    FILE *f = fopen(p, "rb"); unsigned long long fh = 14695981039346656037ULL; long n = 0; int c;
    while ((c = getc(f)) != EOF) { fh ^= (unsigned long long)c; fh *= 1099511628211ULL; n++; }
    fclose(f);
    printf("R%s ok %ld %llu\n", (pf == 11 || bmp) ? " skip" : "", n, fh);
  }
  img = c18_load(hd, bits, p, &w2, align, &h2, &pf2);
  if (!img) { printf("O fail pnmsave: saved file does not load back: %s\n", tj3GetErrorStr(hd)); goto done; }
  if (w2 != w || h2 != h || pf2 != pf) { printf("O fail pnmsave: loaded %dx%d pf %d, saved %dx%d pf %d\n", w2, h2, pf2, w, h, pf); tj3Free(img); goto done; }
  if (pf != TJPF_CMYK) {
    for (y = 0; y < h; y++) for (x = 0; x < w * ps; x++) {
      long a = c18_get(buf, bits, (size_t)y * pitch + x), b2 = c18_get(img, bits, (size_t)y * pitch + x);
      if (xo >= 0 && x % ps == xo) continue;
      if (tjAlphaOffset[pf] >= 0 && x % ps == tjAlphaOffset[pf]) { if (b2 != (1L << P) - 1) { printf("O fail pnmsave: alpha %ld after load, expected opaque\n", b2); tj3Free(img); goto done; } continue; }
      if (a != b2) { printf("O fail pnmsave: round trip changed sample (%d,%d): %ld -> %ld (bits %d precision %d pf %d bottomUp %d align %d %s)\n", x, y, a, b2, bits, P, pf, bu, align, bmp ? "bmp" : "ppm"); tj3Free(img); goto done; }
    }
  }
  tj3Free(img);
  printf("O ok\n");
done:
  tj3Destroy(hd); unlink(p); free(buf);
  return 1;
}

/* imgfuzz kind(0 bmp via tj3LoadImage8, 1 gif, 2 targa, 3 bmp via cjpeg reader w/ colormapped passthrough) maxPixels hex :
   robustness observer; result is not compared with a model */
static int c18_imgfuzz(toks_t *t)
{
  int kind = (int)tl(t, 1); long maxpix = tl(t, 2); size_t n; unsigned char *b = hex2bytes(t->tok[3], &n);
  if (kind == 0) {
    const char *p = c18_tmp(".bmp"); tjhandle hd = tj3Init(TJINIT_COMPRESS); int w = 0, h = 0, pf = TJPF_UNKNOWN; void *img;
    c18_write(p, b, n);
    tj3Set(hd, TJPARAM_MAXPIXELS, (int)maxpix);
    img = tj3LoadImage8(hd, p, &w, 1, &h, &pf);
    if (img) {
      printf("R skip ok %d %d %d\n", w, h, pf);
      if (maxpix && (long long)w * h > maxpix) printf("O fail imgfuzz: %dx%d loaded although TJPARAM_MAXPIXELS=%ld\n", w, h, maxpix); else printf("O ok\n");
      tj3Free(img);
    } else { printf("R skip err\n"); printf("O ok\n"); }
    tj3Destroy(hd); unlink(p);
  } else {
    struct jpeg_compress_struct c; my_err_t e; cjpeg_source_ptr src; FILE *f = n ? fmemopen(b, n, "rb") : fopen("/dev/null", "rb");
    volatile long rows = 0;
    c.err = my_err_init(&e);
    jpeg_create_compress(&c);
    if (setjmp(e.jb)) { printf("R skip err %d\n", e.code); printf("O ok\n"); jpeg_destroy_compress(&c); if (f) fclose(f); free(b); return 1; }
    c.in_color_space = JCS_RGB;
    jpeg_set_defaults(&c);
    src = kind == 1 ? jinit_read_gif(&c) : kind == 2 ? jinit_read_targa(&c) : jinit_read_bmp(&c, TRUE);
    src->input_file = f;
    src->max_pixels = (JDIMENSION)maxpix;
    (*src->start_input) (&c, src);
    if (maxpix && (unsigned long long)c.image_width * c.image_height > (unsigned long long)maxpix) {
      printf("R skip ok\n"); printf("O fail imgfuzz: reader accepted %ux%u although max_pixels=%ld\n", c.image_width, c.image_height, maxpix);
    } else {
      JDIMENSION y = 0;
      (*c.mem->realize_virt_arrays) ((j_common_ptr)&c);
      while (y < c.image_height) {
        JDIMENSION nl = (*src->get_pixel_rows) (&c, src), i, x;
        for (i = 0; i < nl; i++) for (x = 0; x < c.image_width * (JDIMENSION)c.input_components; x++) rows += src->buffer[i][x];   /* touch every sample: MSan/ASan observers */
        y += nl;
      }
      (*src->finish_input) (&c, src);
      printf("R skip ok %u %u %d\n", c.image_width, c.image_height, c.input_components);
      printf("O ok\n");
    }
    jpeg_destroy_compress(&c);
    if (f) fclose(f);
  }
  free(b);
  return 1;
}

static int dispatch_c18(toks_t *t)
{
  if (!strcmp(t->tok[0], "pnmload") && t->n >= 8) return c18_pnmload(t);
  if (!strcmp(t->tok[0], "pnmsave") && t->n >= 10) return c18_pnmsave(t);
  if (!strcmp(t->tok[0], "imgfuzz") && t->n >= 4) return c18_imgfuzz(t);
  return 0;
}
