import LJT.Model.ArithBin
import LJT.Model.ProgHuff
/-! The arithmetic *encoder* of src/jcarith.c: the QM coder of T.81 Annex D as coded
(`arith_encode`, `finish_pass`: carry propagation over the buffered byte, stacked 0xFF bytes and
pending zero bytes, "Pacman" termination) and the binarisation of coefficients into binary
decisions (`encode_mcu`, `encode_mcu_DC_first`, `encode_mcu_AC_first`, `encode_mcu_DC_refine`,
`encode_mcu_AC_refine`), plus the file layout of arithmetic-coded files (SOF9 / SOF10, DAC before
every scan, no DHT).  The binarisation is a pure function from coefficients to a list of
(statistics bin, decision) pairs; the coder folds over that list.  Bin numbering is that of
`Model/Arith.lean` (the decoder model). -/
namespace LJT.ArithEnc
open LJT LJT.Arith LJT.ArithBin LJT.T81 LJT.T81Enc

structure ES where
  c : Nat
  a : Nat
  sc : Nat
  zc : Nat
  ct : Nat
  buffer : Int
  out : Array Nat
  stats : Array Nat

def freshStats : Array Nat := (Array.replicate 5121 0).set! fixedBin 113

def ES.init : ES := ⟨0, 0x10000, 0, 0, 11, -1, #[], freshStats⟩

def put (s : ES) (b : Nat) : ES := { s with out := s.out.push (b % 256) }

/-- `if (e->zc) do emit_byte(0x00) while (--e->zc);` -/
def putZeros (s : ES) : ES := { s with out := s.out ++ Array.replicate s.zc 0, zc := 0 }

/-- a carry reaches the buffered byte: it is output incremented, the stacked 0xFF bytes turn into zeros -/
def outCarry (s : ES) : ES :=
  let s := if s.buffer ≥ 0 then
      let s := putZeros s
      let b := s.buffer.toNat + 1
      let s := put s b
      if b == 0xFF then put s 0 else s
    else s
  { s with zc := s.zc + s.sc, sc := 0 }

/-- no carry can reach them any more: the buffered byte and the stacked 0xFF bytes are output -/
def outPlain (s : ES) : ES :=
  let s := if s.buffer == 0 then { s with zc := s.zc + 1 }
           else if s.buffer ≥ 0 then put (putZeros s) s.buffer.toNat else s
  if s.sc != 0 then
    let s := putZeros s
    { s with out := s.out ++ (Array.replicate s.sc #[0xFF, 0x00]).flatten, sc := 0 }
  else s

/-- renormalisation and byte output (D.1.6) -/
def renormE : Nat → ES → ES
  | 0, s => s
  | f + 1, s =>
    let s := { s with a := s.a * 2, c := s.c * 2, ct := s.ct - 1 }
    let s := if s.ct == 0 then
        let temp := s.c >>> 19
        let s := if temp > 0xFF then { outCarry s with buffer := ((temp % 256 : Nat) : Int) }
                 else if temp == 0xFF then { s with sc := s.sc + 1 }
                 else { outPlain s with buffer := ((temp % 256 : Nat) : Int) }
        { s with c := s.c &&& 0x7FFFF, ct := s.ct + 8 }
      else s
    if s.a < 0x8000 then renormE f s else s

/-- `arith_encode` -/
def encode (s : ES) (d : Dn) : ES :=
  let st := d.1
  let sv := s.stats.getD st 0
  let q := qmTable.getD (sv % 128) 0
  let nl := q % 256
  let nm := (q / 256) % 256
  let qe := q / 65536
  let a := s.a - qe
  if d.2 != sv / 128 then
    let ca := if a ≥ qe then (s.c + a, qe) else (s.c, a)
    renormE 20 { s with c := ca.1, a := ca.2, stats := s.stats.setIfInBounds st (((sv / 128) * 128) ^^^ nl) }
  else if a ≥ 0x8000 then { s with a := a }
  else
    let ca := if a < qe then (s.c + a, qe) else (s.c, a)
    renormE 20 { s with c := ca.1, a := ca.2, stats := s.stats.setIfInBounds st (((sv / 128) * 128) ^^^ nm) }

/-- `finish_pass` (D.1.8 with discarding of final zero bytes) -/
def finish (s : ES) : ES :=
  let temp := (s.a - 1 + s.c) &&& 0xFFFF0000
  let c := if temp < s.c then temp + 0x8000 else temp
  let c := c <<< s.ct
  let s := { s with c := c }
  let s := if c &&& 0xF8000000 != 0 then outCarry s else outPlain s
  if c &&& 0x7FFF800 != 0 then
    let s := putZeros s
    let b1 := (c >>> 19) % 256
    let s := put s b1
    let s := if b1 == 0xFF then put s 0 else s
    if c &&& 0x7F800 != 0 then
      let b2 := (c >>> 11) % 256
      let s := put s b2
      if b2 == 0xFF then put s 0 else s
    else s
  else s

/-- the bytes of one restart interval coded from a decision list -/
def codeInterval (ds : List Dn) : List Nat := (finish (ds.foldl encode ES.init)).out.toList

/-! ### scans -/

/-- decisions of one scan, one list per restart interval.  `scs`: (frame component index, dc table,
ac table); `prog` = progressive process -/
def scanDecisions (f : Frame) (hmax vmax : Nat) (coef : Nat → Nat → Nat → Nat → Int) (prog : Bool)
    (scs : List (Nat × Nat × Nat)) (ss se ah al ri : Nat) : List (List Dn) := Id.run do
  let ns := scs.length
  let compOf := fun (i : Nat) => f.comps.getD i ⟨0, 1, 1, 0⟩
  let c0 := compOf (scs.headD (0, 0, 0)).1
  let single := ns == 1
  let mcusX := if single then ceilDiv (ceilDiv (f.width * c0.h) hmax) 8 else ceilDiv f.width (8 * hmax)
  let mcusY := if single then ceilDiv (ceilDiv (f.height * c0.v) vmax) 8 else ceilDiv f.height (8 * vmax)
  let total := mcusX * mcusY
  let mut ivs : Array (List Dn) := #[]
  let mut cur : Array (List Dn) := #[]
  let mut lastDC : Array Int := Array.replicate 4 0
  let mut ctx : Array Nat := Array.replicate 4 0
  let mut togo := ri
  for m in [0:total] do
    if ri != 0 then
      if togo == 0 then
        ivs := ivs.push cur.toList.flatten
        cur := #[]
        lastDC := Array.replicate 4 0
        ctx := Array.replicate 4 0
        togo := ri
      togo := togo - 1
    let my := m / mcusX
    let mx := m % mcusX
    let mut prevDC : Int := 0
    for i in [0:ns] do
      let (ci, dtbl, atbl) := scs.getD i (0, 0, 0)
      let c := compOf ci
      let wb := ceilDiv (ceilDiv (f.width * c.h) hmax) 8
      let hb := ceilDiv (ceilDiv (f.height * c.v) vmax) 8
      let bh := if single then 1 else c.h
      let bv := if single then 1 else c.v
      for by_ in [0:bv] do
        for bx in [0:bh] do
          let real := decide (my * bv + by_ < hb) && decide (mx * bh + bx < wb)
          let zzb : List Int := if real then ProgHuff.blockZZ coef ci (my * bv + by_) (mx * bh + bx) else prevDC :: List.replicate 63 0
          let dc := zzb.headD 0
          prevDC := dc
          let band := fun (lo hi : Nat) => (List.range (hi + 1 - lo)).map (fun j =>
            ((zzb.getD (lo + j) 0).natAbs / 2 ^ al, decide (zzb.getD (lo + j) 0 < 0)))
          if !prog then
            let (ds, cx) := dcDiff dtbl (ctx.getD i 0) 0 1 (dc - lastDC.getD i 0)
            if dc - lastDC.getD i 0 != 0 then lastDC := lastDC.setIfInBounds i dc
            ctx := ctx.setIfInBounds i cx
            cur := cur.push (ds ++ acF atbl 5 false 1 (band 1 63))
          else if ss == 0 then
            if ah == 0 then
              let mval := ProgHuff.asr dc al
              let (ds, cx) := dcDiff dtbl (ctx.getD i 0) 0 1 (mval - lastDC.getD i 0)
              if mval - lastDC.getD i 0 != 0 then lastDC := lastDC.setIfInBounds i mval
              ctx := ctx.setIfInBounds i cx
              cur := cur.push ds
            else
              cur := cur.push [(fixedBin, ((ProgHuff.asr dc al) % 2).toNat)]
          else
            if ah == 0 then cur := cur.push (acF atbl 5 false ss (band ss se))
            else cur := cur.push (acR atbl false ss (band ss se))
  ivs := ivs.push cur.toList.flatten
  return ivs.toList

/-- `c03_script` of the harness, sequential branch: the components in order, partitioned into scans -/
def seqScript (seed nc : Nat) (mix : Nat → Nat) : List (List Nat × Nat × Nat × Nat × Nat) := Id.run do
  let mut s := seed
  let mut out : Array (List Nat × Nat × Nat × Nat × Nat) := #[]
  let mut ci := 0
  for _ in [0:nc] do
    if ci < nc then
      s := mix s
      let take := min (1 + s % (nc - ci)) 4
      out := out.push ((List.range take).map (· + ci), 0, 63, 0, 0)
      ci := ci + take
  return out.toList

/-- the whole arithmetic-coded file libjpeg-turbo writes -/
def encodeFile (w h : Nat) (comps : List (Nat × Nat)) (qs : List (List Nat)) (ri : Nat) (prog : Bool)
    (script : List (List Nat × Nat × Nat × Nat × Nat)) (coef : Nat → Nat → Nat → Nat → Int) : List Nat := Id.run do
  let nc := comps.length
  let cls := fun (i : Nat) => if nc == 1 then 0 else min i 1
  let ncls := if nc == 1 then 1 else 2
  let o : Opts := { q16 := false, joinTables := false, fill := false, driPos := 2, split := false, tblShift := 0, ri := ri }
  let sof := if prog then 0xCA else 0xC9
  let f : Frame := ⟨sof, 8, h, w, (List.range nc).map (fun i => ⟨i + 1, (comps.getD i (1, 1)).1, (comps.getD i (1, 1)).2, cls i⟩)⟩
  let hmax := f.comps.foldl (fun a c => max a c.h) 1
  let vmax := f.comps.foldl (fun a c => max a c.v) 1
  let mut s : List Nat := [0xFF, 0xD8, 0xFF, 0xE0, 0, 16, 0x4A, 0x46, 0x49, 0x46, 0, 1, 1, 0, 0, 1, 0, 1, 0, 0]
  for k in [0:ncls] do s := s ++ marker o 0xDB (dqtPayload o k (qs.getD k []))
  s := s ++ marker o sof ([8] ++ be16 h ++ be16 w ++ [nc] ++ f.comps.flatMap (fun c => [c.id, c.h * 16 + c.v, c.tq]))
  let mut driSent := false
  for (cis, ss, se, ah, al) in script do
    let scs := cis.map (fun ci => (ci, cls ci, cls ci))
    -- DAC: conditioning of every table the scan uses (`emit_dac`), defaults L = 0, U = 1, K = 5
    let dcUse := fun (t : Nat) => ss == 0 && ah == 0 && cis.any (fun ci => cls ci == t)
    let acUse := fun (t : Nat) => se != 0 && cis.any (fun ci => cls ci == t)
    let dac := (List.range 16).flatMap (fun t => (if dcUse t then [t, 0x10] else []) ++ (if acUse t then [t + 0x10, 5] else []))
    if !dac.isEmpty then s := s ++ marker o 0xCC dac
    if ri != 0 && !driSent then
      s := s ++ marker o 0xDD (be16 ri)
      driSent := true
    let hdr := [cis.length] ++ cis.flatMap (fun ci =>
        [ci + 1, (if ss == 0 && ah == 0 then cls ci else 0) * 16 + (if se != 0 then cls ci else 0)]) ++ [ss, se, ah * 16 + al]
    s := s ++ marker o 0xDA hdr
    let ivs := scanDecisions f hmax vmax coef prog scs ss se ah al ri
    s := s ++ ProgHuff.joinRstBytes 0 (ivs.map codeInterval)
  return s ++ [0xFF, 0xD9]

end LJT.ArithEnc
