import LJT.Props.C19
import LJT.Props.C20
import LJT.Props.C13
import LJT.Props.C16
import LJT.Props.C02
import LJT.Props.C10
import LJT.Props.C08
import LJT.Ops.C19
