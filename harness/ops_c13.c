/* C13 operations: drive the real in-memory destination managers through a
 * client write sequence (dest), and the worst-case-size clause on the real
 * compressor (wcase). */
#include "exec_common.h"

EXTERN(void) jpeg_mem_dest_tj(j_compress_ptr cinfo, unsigned char **outbuffer, size_t *outsize, boolean alloc);

static int g_grows;
static boolean (*g_orig_empty)(j_compress_ptr);
static boolean counting_empty(j_compress_ptr cinfo)
{
  boolean r = g_orig_empty(cinfo);
  /* the manager may have re-installed nothing; keep our wrapper */
  g_grows++;
  return r;
}

#define PAT(k) ((unsigned char)(((k) * 131u + 7u) & 0xFF))

static int op_dest(toks_t *t)
{
  struct jpeg_compress_struct c;
  my_err_t e;
  int tj = !strcmp(t->tok[1], "tj"), alloc = (int)tl(t, 2), i;
  unsigned char *outbuf = NULL, *callerbuf = NULL;
  size_t outsize = 0; unsigned long uls = 0;
  size_t declared = 0;
  unsigned k = 0;           /* bytes written in the current image */
  int active = 0, bad = 0; const char *why = "";
  volatile int started = 0;
  /* buffers returned by earlier images and kept by the caller */
  static unsigned char *kept[64]; static size_t keptsz[64]; int nkept = 0, j2;
  c.err = my_err_init(&e);
  jpeg_create_compress(&c);
  printf("R");
  if (setjmp(e.jb)) {
    printf(" err%d\n", e.code);
    if (e.code != JERR_BUFFER_SIZE) printf("O fail dest unexpected error %d\n", e.code);
    else if (tj && alloc) printf("O fail dest buffer-size error although reallocation is enabled\n");
    else printf("O ok\n");
    jpeg_destroy_compress(&c);
    return 1;
  }
  for (i = 3; i < t->n; i++) {
    const char *s = t->tok[i];
    if (s[0] == 'S') {
      if (!strcmp(s, "Snull")) { outbuf = NULL; outsize = 0; declared = 0; }
      else if (!strcmp(s, "Sreuse") || !strcmp(s, "Sreuse0")) {
        if (s[6]) outsize = 0;   /* the size handed back with a reused buffer is documented as ignored: 0 is a legal value */
        declared = outsize; /* pointer and *outsize as left by the previous image */
        if (nkept > 0 && kept[nkept - 1] == outbuf) nkept--;   /* handed back: no longer the caller's */
      }
      else {
        declared = (size_t)strtoul(s + 1, NULL, 10);
        callerbuf = outbuf = (unsigned char *)malloc(declared ? declared : 1);
        outsize = declared;
      }
      if (tj) jpeg_mem_dest_tj(&c, &outbuf, &outsize, alloc);
      else { uls = (unsigned long)outsize; jpeg_mem_dest(&c, &outbuf, &uls); outsize = uls; }
      g_orig_empty = c.dest->empty_output_buffer;
      c.dest->empty_output_buffer = counting_empty;
      g_grows = 0; k = 0; active = 1; started = 1;
      printf(" s:%zu", c.dest->free_in_buffer);
    } else if (s[0] == 'w' || s[0] == 'b') {
      size_t n = (size_t)strtoul(s + 1, NULL, 10), j;
      if (!active) continue;
      if (s[0] == 'b' && c.dest->free_in_buffer >= 512 && n < 512) {
        for (j = 0; j < n; j++) c.dest->next_output_byte[j] = PAT(k + j);
        c.dest->next_output_byte += n; c.dest->free_in_buffer -= n; k += n;
      } else {
        for (j = 0; j < n; j++) {
          *c.dest->next_output_byte++ = PAT(k); k++;
          if (--c.dest->free_in_buffer == 0) {
            if (!(*c.dest->empty_output_buffer) (&c)) INTERNAL("suspension from memory destination");
          }
        }
      }
      printf(" w:%zu:%d", c.dest->free_in_buffer, g_grows);
    } else if (s[0] == 'T') {
      size_t j;
      if (!active) continue;
      (*c.dest->term_destination) (&c);
      if (!tj) outsize = uls;
      printf(" T:%zu:%llu:%d", outsize, fnv(outbuf, outsize), g_grows);
      if (outsize != k) { bad = 1; why = "reported size differs from bytes written"; }
      for (j = 0; j < outsize && j < k; j++)
        if (outbuf[j] != PAT(j)) { bad = 1; why = "returned buffer does not hold the bytes written"; break; }
      if (tj && !alloc && outsize > declared) { bad = 1; why = "size exceeds capacity with reallocation disabled"; }
      if (tj && !alloc && outbuf != callerbuf) { bad = 1; why = "buffer pointer changed with reallocation disabled"; }
      active = 0;
      if (nkept < 64) { kept[nkept] = outbuf; keptsz[nkept] = outsize; nkept++; }
    }
  }
  /* every buffer the caller still owns must still be readable and intact */
  for (j2 = 0; j2 < nkept; j2++) {
    size_t q;
    for (q = 0; q < keptsz[j2]; q++)
      if (kept[j2][q] != PAT(q)) { bad = 1; why = "a buffer returned by an earlier call was modified"; break; }
  }
  printf("\n");
  if (bad) printf("O fail dest %s\n", why); else printf("O ok\n");
  jpeg_destroy_compress(&c);
  (void)started;
  return 1;
}

/* xorshift PRNG local to an op: every random choice derives from the op line */
static unsigned long long xs_state;
static unsigned xs_next(void)
{
  xs_state ^= xs_state << 13; xs_state ^= xs_state >> 7; xs_state ^= xs_state << 17;
  return (unsigned)(xs_state >> 32);
}

/* fill a sample buffer: kind 0 noise, 1 flat, 2 alternating 0/max, 3 worst-case
 * differences for lossless (each sample = previous + 2^(P-1) - 1 mod 2^P), 4 gradient */
static void fill_samples(unsigned short *buf, size_t n, int prec, int kind, int nc)
{
  size_t i; unsigned maxv = (1u << prec) - 1;
  for (i = 0; i < n; i++) {
    switch (kind) {
    case 0: buf[i] = (unsigned short)(xs_next() & maxv); break;
    case 1: buf[i] = (unsigned short)(maxv / 3); break;
    case 2: buf[i] = (unsigned short)(((i / nc) & 1) ? maxv : 0); break;
    case 3: buf[i] = (unsigned short)(((i / nc) * ((1u << (prec - 1)) - 1)) & maxv); break;
    default: buf[i] = (unsigned short)(((i / nc) * 3) & maxv); break;
    }
  }
}

static int tj_compress_any(tjhandle h, int prec, unsigned short *s16, unsigned char *s8, int w, int hgt, int pf,
                           unsigned char **jb, size_t *js)
{
  if (prec <= 8) return tj3Compress8(h, s8, w, 0, hgt, pf, jb, js);
  if (prec <= 12) return tj3Compress12(h, (short *)s16, w, 0, hgt, pf, jb, js);
  return tj3Compress16(h, s16, w, 0, hgt, pf, jb, js);
}

/* wcase prec=<P> lossless=<0|1> <w> <h> <subsamp> <quality> <kind> <seed> <opt> <prog> <arith> <restart>
 * compress with a buffer of exactly tj3JPEGBufSize() and TJPARAM_NOREALLOC; then sweep
 * capacities around the real size and check the contract on the real library. */
static int op_wcase(toks_t *t)
{
  int prec = atoi(t->tok[1] + 5), lossless = atoi(t->tok[2] + 9);
  int w = (int)tl(t, 3), hgt = (int)tl(t, 4), ss = (int)tl(t, 5), q = (int)tl(t, 6), kind = (int)tl(t, 7);
  int opt = (int)tl(t, 9), prog = (int)tl(t, 10), arith = (int)tl(t, 11), rst = (int)tl(t, 12);
  int gray = (ss == TJSAMP_GRAY), nc = gray ? 1 : 3, pf = gray ? TJPF_GRAY : TJPF_RGB, rc, bad = 0, k;
  size_t n = (size_t)w * hgt * nc, bound, refsize = 0, i;
  unsigned short *s16 = (unsigned short *)malloc(n * 2 + 2);
  unsigned char *s8 = (unsigned char *)malloc(n + 1), *ref = NULL;
  char why[200] = "";
  /* every JPEG buffer of this op stays allocated until the handle is gone: a handle remembers the address of the last buffer, and a
   * new allocation landing on a freed one is a history of its own (op aba), not something to meet by accident here */
  unsigned char *keep[32]; int nkeep = 0;
  tjhandle h = tj3Init(TJINIT_COMPRESS);
  xs_state = 0x9E3779B97F4A7C15ULL ^ (unsigned long long)tl(t, 8) * 0x100000001B3ULL;
  fill_samples(s16, n, prec, kind, nc);
  for (i = 0; i < n; i++) s8[i] = (unsigned char)s16[i];
#define SETP(p, v) if (tj3Set(h, p, v) < 0) { snprintf(why, sizeof(why), "tj3Set %d", p); }
  SETP(TJPARAM_PRECISION, prec);
  if (lossless) { SETP(TJPARAM_LOSSLESS, 1); SETP(TJPARAM_LOSSLESSPSV, 1 + (int)(tl(t, 8) % 7)); }
  else { SETP(TJPARAM_SUBSAMP, ss); SETP(TJPARAM_QUALITY, q); SETP(TJPARAM_PROGRESSIVE, prog); }
  SETP(TJPARAM_OPTIMIZE, opt);
  SETP(TJPARAM_ARITHMETIC, arith);
  if (rst) SETP(TJPARAM_RESTARTROWS, rst);
  /* reference: reallocation enabled, NULL buffer */
  {
    unsigned char *jb = NULL; size_t js = 0;
    rc = tj_compress_any(h, prec, s16, s8, w, hgt, pf, &jb, &js);
    if (rc < 0) { printf("R err %s\n", tj3GetErrorStr(h)); printf("O ok\n"); tj3Free(jb); goto done; }
    ref = jb; refsize = js;
  }
  bound = tj3JPEGBufSize(w, hgt, lossless ? TJSAMP_444 : ss);
  if (gray) bound = tj3JPEGBufSize(w, hgt, TJSAMP_GRAY);
  printf("R size %zu bound %zu\n", refsize, bound);
  /* (a) worst-case clause */
  SETP(TJPARAM_NOREALLOC, 1);
  {
    unsigned char *jb = (unsigned char *)malloc(bound), *jb0 = jb; size_t js = bound;
    rc = tj_compress_any(h, prec, s16, s8, w, hgt, pf, &jb, &js);
    if (rc < 0) { bad = 1; snprintf(why, sizeof(why), "worst-case buffer of tj3JPEGBufSize()=%zu bytes too small (JPEG is %zu): %s", bound, refsize, tj3GetErrorStr(h)); }
    else if (jb != jb0 || js != refsize || memcmp(jb, ref, refsize)) { bad = 1; snprintf(why, sizeof(why), "NOREALLOC result differs from reference"); }
    keep[nkeep++] = jb0;
  }
  /* (b) capacities around the real size, reallocation disabled */
  for (k = 0; k < 5 && !bad; k++) {
    size_t cap = k == 0 ? 1 : k == 1 ? refsize - 1 : k == 2 ? refsize : k == 3 ? refsize + 1 : refsize / 2;
    unsigned char *jb, *jb0; size_t js = cap;
    if (cap == 0) continue;
    jb0 = jb = (unsigned char *)malloc(cap);
    rc = tj_compress_any(h, prec, s16, s8, w, hgt, pf, &jb, &js);
    if (rc == 0) {
      if (js > cap || jb != jb0 || js != refsize || memcmp(jb, ref, refsize)) { bad = 1; snprintf(why, sizeof(why), "NOREALLOC cap=%zu: success with size %zu (JPEG is %zu)", cap, js, refsize); }
    } else if (cap > refsize) { bad = 1; snprintf(why, sizeof(why), "NOREALLOC cap=%zu > size %zu failed: %s", cap, refsize, tj3GetErrorStr(h)); }
    keep[nkeep++] = jb0;
  }
  /* (c) reallocation enabled: tiny, exact, and reused buffers */
  SETP(TJPARAM_NOREALLOC, 0);
  for (k = 0; k < 4 && !bad; k++) {
    size_t cap = k == 0 ? 1 : k == 1 ? refsize : k == 2 ? refsize - 1 : 4096;
    unsigned char *jb = (unsigned char *)tj3Alloc(cap ? cap : 1), *orig = jb; size_t js = cap;
    int rep;
    for (rep = 0; rep < 2 && !bad; rep++) {    /* second iteration reuses the returned buffer */
      rc = tj_compress_any(h, prec, s16, s8, w, hgt, pf, &jb, &js);
      if (rc < 0 || js != refsize || memcmp(jb, ref, refsize)) { bad = 1; snprintf(why, sizeof(why), "realloc cap=%zu rep=%d: rc=%d size %zu (JPEG is %zu)", cap, rep, rc, js, refsize); }
    }
    keep[nkeep++] = jb;
    if (jb != orig) keep[nkeep++] = orig;    /* the caller's own buffer is never freed by the library */
  }
  if (bad) printf("O fail wcase %s\n", why); else printf("O ok\n");
done:
  tj3Free(ref);
  free(s16); free(s8);
  tj3Destroy(h);
  while (nkeep > 0) tj3Free(keep[--nkeep]);
  return 1;
}


/* capsweep <w> <h> <quality> <icclen> <seed> <subsamp> : every initial capacity from 1 to size+4 of a small JPEG (with an ICC profile
 * of <icclen> bytes when non-zero), with reallocation disabled (exact-size heap buffer) and enabled (fresh handle each time, so that
 * no buffer address is ever handed back to a handle that remembers it).  The contract of the property at every boundary. */
static tjhandle c13_handle(int q, int ss, const unsigned char *icc, int icclen)
{
  tjhandle h = tj3Init(TJINIT_COMPRESS);
  tj3Set(h, TJPARAM_SUBSAMP, ss); tj3Set(h, TJPARAM_QUALITY, q);
  if (icclen > 0) tj3SetICCProfile(h, (unsigned char *)icc, (size_t)icclen);
  return h;
}
static int op_capsweep(toks_t *t)
{
  int w = (int)tl(t, 1), hgt = (int)tl(t, 2), q = (int)tl(t, 3), icclen = (int)tl(t, 4), ss = (int)tl(t, 6), rc, bad = 0;
  size_t n = (size_t)w * hgt * 3, i, refsize = 0, cap; unsigned char *img = (unsigned char *)malloc(n + 1), *icc = (unsigned char *)malloc((size_t)icclen + 1), *ref = NULL;
  char why[240] = ""; tjhandle h;
  xs_state = 0x9E3779B97F4A7C15ULL ^ (unsigned long long)tl(t, 5) * 0x100000001B3ULL;
  for (i = 0; i < n; i++) img[i] = (unsigned char)xs_next();
  for (i = 0; i < (size_t)icclen; i++) icc[i] = (unsigned char)(i * 31 + 7);
  h = c13_handle(q, ss, icc, icclen);
  { size_t js = 0; rc = tj3Compress8(h, img, w, 0, hgt, TJPF_RGB, &ref, &js); refsize = js; }
  if (rc < 0) { printf("R err %s\n", tj3GetErrorStr(h)); printf("O ok\n"); goto done; }
  printf("R size %zu\n", refsize);
  tj3Set(h, TJPARAM_NOREALLOC, 1);
  for (cap = 1; cap <= refsize + 4 && !bad; cap++) {
    unsigned char *jb0 = (unsigned char *)malloc(cap), *jb = jb0; size_t js = cap;
    rc = tj3Compress8(h, img, w, 0, hgt, TJPF_RGB, &jb, &js);
    if (rc == 0 && (js > cap || jb != jb0 || js != refsize || memcmp(jb, ref, refsize))) { bad = 1; snprintf(why, sizeof(why), "no reallocation, capacity %zu: success with reported size %zu (the JPEG has %zu bytes)", cap, js, refsize); }
    else if (rc == 0 && cap < refsize) { bad = 1; snprintf(why, sizeof(why), "no reallocation, capacity %zu below the JPEG size %zu: success", cap, refsize); }
    else if (rc < 0 && cap > refsize) { bad = 1; snprintf(why, sizeof(why), "no reallocation, capacity %zu above the JPEG size %zu: %s", cap, refsize, tj3GetErrorStr(h)); }
    free(jb0);
  }
  for (cap = 1; cap <= refsize + 4 && !bad; cap++) {
    tjhandle h2 = c13_handle(q, ss, icc, icclen);
    unsigned char *jb0 = (unsigned char *)tj3Alloc(cap), *jb = jb0; size_t js = cap;
    rc = tj3Compress8(h2, img, w, 0, hgt, TJPF_RGB, &jb, &js);
    if (rc < 0 || js != refsize || memcmp(jb, ref, refsize)) { bad = 1; snprintf(why, sizeof(why), "reallocation enabled, initial capacity %zu: rc=%d size %zu (the JPEG has %zu bytes)", cap, rc, js, refsize); }
    else if (jb == jb0 && cap < refsize) { bad = 1; snprintf(why, sizeof(why), "reallocation enabled, initial capacity %zu below the JPEG size %zu: buffer not replaced", cap, refsize); }
    if (jb != jb0) tj3Free(jb);
    tj3Free(jb0);
    tj3Destroy(h2);
  }
  if (bad) printf("O fail capsweep %s\n", why); else printf("O ok\n");
done:
  tj3Free(ref); free(img); free(icc); tj3Destroy(h);
  return 1;
}

#ifdef C13_WRAP
/* A one-slot allocator under malloc/free (the executor of C13 is linked with --wrap=malloc,free): while armed, a request of
 * 256..32768 bytes is served from the slot when the slot is free, so that "free the buffer, allocate another one" puts the new
 * buffer at the address of the old one - which any malloc may do - with room behind it for a canary instead of a heap header. */
extern void *__real_malloc(size_t n);
extern void __real_free(void *p);
static unsigned char c13_slot[1 << 17] __attribute__((aligned(64)));
static int c13_slot_on = 0, c13_slot_used = 0;
void *__wrap_malloc(size_t n)
{
  if (c13_slot_on && !c13_slot_used && n >= 256 && n <= 32768) { c13_slot_used = 1; return c13_slot; }
  return __real_malloc(n);
}
void __wrap_free(void *p) { if (p == (void *)c13_slot) { c13_slot_used = 0; return; } __real_free(p); }

/* aba <w> <h> <quality> <seed> <delta> : the caller lets the library fill a large buffer of its own, frees it, allocates a buffer
 * smaller than the JPEG by <delta> bytes - which the allocator places at the same address - and compresses again with the true
 * capacity and reallocation enabled.  Nothing may be stored beyond that capacity. */
static int op_aba(toks_t *t)
{
  int w = (int)tl(t, 1), hgt = (int)tl(t, 2), q = (int)tl(t, 3), delta = (int)tl(t, 5), rc; size_t n = (size_t)w * hgt * 3, i, big = 32768, size1, cap, over = 0;
  unsigned char *img = (unsigned char *)malloc(n + 1), *P, *Q, *jb; size_t js;
  tjhandle h = tj3Init(TJINIT_COMPRESS);
  xs_state = 0x9E3779B97F4A7C15ULL ^ (unsigned long long)tl(t, 4) * 0x100000001B3ULL;
  for (i = 0; i < n; i++) img[i] = (unsigned char)xs_next();
  tj3Set(h, TJPARAM_SUBSAMP, TJSAMP_444); tj3Set(h, TJPARAM_QUALITY, q);
  c13_slot_on = 1;
  P = (unsigned char *)tj3Alloc(big);
  if (P != c13_slot) { printf("R skip slot\n"); c13_slot_on = 0; tj3Free(P); goto done; }
  jb = P; js = big;
  rc = tj3Compress8(h, img, w, 0, hgt, TJPF_RGB, &jb, &js);
  if (rc < 0 || jb != P || js < 300 + (size_t)delta) { printf("R skip first %d %zu\n", rc, js); if (jb != P) tj3Free(jb); tj3Free(P); c13_slot_on = 0; goto done; }
  size1 = js;
  tj3Free(P);                                   /* the caller is done with the first JPEG */
  cap = size1 - (size_t)delta;
  Q = (unsigned char *)tj3Alloc(cap);           /* a new, smaller buffer: same address */
  memset(c13_slot + cap, 0xA5, 4096);
  jb = Q; js = cap;
  rc = tj3Compress8(h, img, w, 0, hgt, TJPF_RGB, &jb, &js);
  for (i = 0; i < 4096; i++) if (c13_slot[cap + i] != 0xA5) over = i + 1;
  printf("R same %d rc %d moved %d size %zu cap %zu\n", Q == c13_slot, rc, jb != Q, js, cap);
  if (over) printf("O fail aba: %zu bytes stored beyond a fresh %zu-byte buffer (reallocation enabled) that malloc placed at the address of the buffer used in the previous call, which the caller had freed\n", over, cap);
  else if (rc < 0 || js != size1) printf("O fail aba: second compression rc=%d size %zu, expected %zu\n", rc, js, size1);
  else printf("O ok\n");
  if (jb != Q) tj3Free(jb);
  tj3Free(Q);
  c13_slot_on = 0;
done:
  free(img);
  tj3Destroy(h);
  return 1;
}
#endif

static int dispatch_c13(toks_t *t)
{
  const char *op = t->tok[0];
  if (!strcmp(op, "capsweep") && t->n >= 7) return op_capsweep(t);
#ifdef C13_WRAP
  if (!strcmp(op, "aba") && t->n >= 6) return op_aba(t);
#endif
  if (!strcmp(op, "dest")) return op_dest(t);
  if (!strcmp(op, "wcase")) return op_wcase(t);
  return 0;
}
