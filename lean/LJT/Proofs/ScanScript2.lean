import LJT.Proofs.ScanScript
/-! Sequential and lossless scan scripts accepted by `validate_script` send every component exactly once. -/
namespace LJT.ScanScript

/-- the index check of an accepted scan: every listed component lies inside the frame and the list is strictly
increasing (hence free of repetitions) -/
theorem checkComps_go_ok (nc : Nat) : ∀ (ix : List Int) (prev : Option Int),
    checkComps.go nc ix prev = true →
    (∀ t ∈ ix, 0 ≤ t ∧ t < (nc : Int)) ∧ (ix.map Int.toNat).Nodup ∧ (∀ p, prev = some p → ∀ t ∈ ix, p < t) := by
  intro ix
  induction ix with
  | nil => intro prev _; exact ⟨by simp, by simp, by simp⟩
  | cons t rest ih =>
    intro prev h
    unfold checkComps.go at h
    split at h
    · cases h
    · rename_i hr
      have hr' : 0 ≤ t ∧ t < (nc : Int) := by omega
      have key : ∀ (h2 : checkComps.go nc rest (some t) = true), 
          (∀ x ∈ t :: rest, 0 ≤ x ∧ x < (nc : Int)) ∧ ((t :: rest).map Int.toNat).Nodup ∧ (∀ x ∈ rest, t < x) := by
        intro h2
        obtain ⟨a1, a2, a3⟩ := ih (some t) h2
        refine ⟨?_, ?_, a3 t rfl⟩
        · intro x hx
          rcases List.mem_cons.1 hx with e | e
          · subst e; exact hr'
          · exact a1 x e
        · simp only [List.map_cons, List.nodup_cons]
          refine ⟨?_, a2⟩
          intro hm
          obtain ⟨y, hy, e⟩ := List.mem_map.1 hm
          have h1 := a3 t rfl y hy
          have h2 := a1 y hy
          omega
      cases prev with
      | none =>
        simp only at h
        obtain ⟨b1, b2, _⟩ := key h
        exact ⟨b1, b2, by intro p hp; cases hp⟩
      | some p =>
        simp only at h
        split at h
        · cases h
        · rename_i hp
          obtain ⟨b1, b2, b3⟩ := key h
          refine ⟨b1, b2, ?_⟩
          intro p' hp' x hx
          cases hp'
          rcases List.mem_cons.1 hx with e | e
          · subst e; omega
          · have := b3 x e; omega

theorem checkComps_ok {nc : Nat} {scanno : Int} {s : Scan} (h : checkComps nc scanno s = none) :
    (∀ c ∈ s.comps, c < nc) ∧ s.comps.Nodup := by
  unfold checkComps at h
  split at h
  · cases h
  · simp only at h
    split at h
    · rename_i hg
      obtain ⟨a1, a2, _⟩ := checkComps_go_ok nc _ none hg
      refine ⟨?_, a2⟩
      intro c hc
      unfold Scan.comps at hc
      obtain ⟨t, ht, e⟩ := List.mem_map.1 hc
      have := a1 t ht
      omega
    · cases h

/-- one accepted scan in the sequential / lossless modes -/
theorem np_step (prec nc : Nat) (mode : Mode) (hm : mode ≠ .progressive) (s : Scan) (rest : List Scan) (scanno : Int)
    (st st' : VState) (h : validateScans prec nc mode (s :: rest) scanno st = .ok st') :
    checkComps nc scanno s = none ∧ (∀ x ∈ s.comps, x ∉ st.sent) ∧
    validateScans prec nc mode rest (scanno + 1) ⟨st.bits, st.sent ++ s.comps⟩ = .ok st' := by
  unfold validateScans at h
  cases hc : checkComps nc scanno s with
  | some e => rw [hc] at h; cases h
  | none =>
    rw [hc] at h
    cases mode with
    | progressive => exact absurd rfl hm
    | sequential =>
      simp at h
      split at h
      · cases h
      · split at h
        · cases h
        · rename_i hd
          exact ⟨rfl, fun x hx hin => hd ⟨x, hx, hin⟩, h⟩
    | lossless =>
      simp at h
      split at h
      · cases h
      · split at h
        · cases h
        · rename_i hd
          exact ⟨rfl, fun x hx hin => hd ⟨x, hx, hin⟩, h⟩

/-- invariant of the scan loop in the sequential / lossless modes -/
theorem validateScans_sent (prec nc : Nat) (mode : Mode) (hm : mode ≠ .progressive) :
    ∀ (scans : List Scan) (scanno : Int) (st st' : VState),
      validateScans prec nc mode scans scanno st = .ok st' → st.sent.Nodup → (∀ c ∈ st.sent, c < nc) →
      st'.sent.Nodup ∧ (∀ c ∈ st'.sent, c < nc) ∧ st'.sent = st.sent ++ scans.flatMap Scan.comps := by
  intro scans
  induction scans with
  | nil =>
    intro scanno st st' h hn hl
    simp only [validateScans] at h
    cases h
    exact ⟨hn, hl, by simp⟩
  | cons s rest ih =>
    intro scanno st st' h hn hl
    obtain ⟨hc, hdup, hrec⟩ := np_step prec nc mode hm s rest scanno st st' h
    obtain ⟨c1, c2⟩ := checkComps_ok hc
    obtain ⟨r1, r2, r3⟩ := ih (scanno + 1) _ st' hrec
      (List.nodup_append.2 ⟨hn, c2, fun a ha b hb e => hdup b hb (e ▸ ha)⟩)
      (by intro c hc'; rcases List.mem_append.1 hc' with e | e
          · exact hl c e
          · exact c1 c e)
    exact ⟨r1, r2, by rw [r3]; simp⟩

/-- **Accepted sequential and lossless scripts send every component exactly once**: the components named by the
scans, in order, are a rearrangement of `0 .. nc-1`. -/
theorem accepted_nonprogressive_script_is_complete (prec nc : Nat) (scans : List Scan) (m : Mode)
    (hm : m ≠ .progressive) (h : validateScript prec nc scans = .ok m) :
    (scans.flatMap Scan.comps).Perm (List.range nc) := by
  unfold validateScript at h
  cases scans with
  | nil => cases h
  | cons s0 rest =>
    simp only at h
    generalize (if s0.ss ≠ 0 ∧ s0.se = 0 then Mode.lossless
      else if s0.ss ≠ 0 ∨ s0.se ≠ (Gen.DCTSIZE2 : Int) - 1 then Mode.progressive else Mode.sequential) = mode at h
    cases hv : validateScans prec nc mode (s0 :: rest) 1 ⟨BitPos.init, []⟩ with
    | error e => rw [hv] at h; cases h
    | ok st =>
      rw [hv] at h
      have hmode : mode = m ∧ (mode ≠ .progressive → (List.range nc).all (fun c => st.sent.contains c) = true) := by
        cases mode with
        | progressive =>
          simp only at h
          split at h
          · injection h with h; exact ⟨h, fun hne => absurd rfl hne⟩
          · cases h
        | sequential =>
          simp only at h
          split at h
          · rename_i hcpl; injection h with h; exact ⟨h, fun _ => hcpl⟩
          · cases h
        | lossless =>
          simp only at h
          split at h
          · rename_i hcpl; injection h with h; exact ⟨h, fun _ => hcpl⟩
          · cases h
      obtain ⟨e, hall⟩ := hmode
      subst e
      have hall' := hall hm
      obtain ⟨r1, r2, r3⟩ := validateScans_sent prec nc mode hm (s0 :: rest) 1 ⟨BitPos.init, []⟩ st hv (by simp) (by simp)
      simp only [List.nil_append] at r3
      rw [← r3]
      apply (List.perm_ext_iff_of_nodup r1 List.nodup_range).2
      intro c
      constructor
      · intro hc; exact List.mem_range.2 (r2 c hc)
      · intro hc
        have := List.all_eq_true.1 hall' c hc
        simpa using this

end LJT.ScanScript
