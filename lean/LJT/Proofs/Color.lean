import LJT.Model.Color
namespace LJT.Color

theorem packPixel_length (L : Layout) (p : Int × Int × Int) (f : Int) : (packPixel L p f).length = L.size := by
  simp [packPixel]

theorem packPixel_get (L : Layout) (p : Int × Int × Int) (f : Int) (k : Nat) (hk : k < L.size) :
    (packPixel L p f).getD k 0 =
      if k = L.r then p.1 else if k = L.g then p.2.1 else if k = L.b then p.2.2 else f := by
  unfold packPixel
  rw [List.getD_eq_getElem?_getD, List.getElem?_map, List.getElem?_range hk]
  rfl

theorem getD_append_left (l1 l2 : List Int) (k : Nat) (hk : k < l1.length) :
    (l1 ++ l2).getD k 0 = l1.getD k 0 := by
  simp [List.getD_eq_getElem?_getD, List.getElem?_append_left hk]

/-- reading back what was packed returns the colour samples, whatever sits in the other
positions -/
theorem extract_pack (L : Layout) (hv : L.Valid) : ∀ (px : List ((Int × Int × Int) × Int)),
    extractRow L px.length (packRow L px) = px.map (·.1) := by
  obtain ⟨hr, hg, hb, hrg, hrb, hgb, _⟩ := hv
  intro px
  induction px with
  | nil => rfl
  | cons q rest ih =>
    obtain ⟨p, f⟩ := q
    simp only [List.length_cons, packRow, extractRow, List.map_cons]
    have hl := packPixel_length L p f
    rw [getD_append_left _ _ _ (by omega), getD_append_left _ _ _ (by omega), getD_append_left _ _ _ (by omega)]
    rw [packPixel_get L p f _ hr, packPixel_get L p f _ hg, packPixel_get L p f _ hb]
    have hdrop : (packPixel L p f ++ packRow L rest).drop L.size = packRow L rest := by
      rw [List.drop_append_of_le_length (by omega), List.drop_of_length_le (by omega)]; rfl
    rw [hdrop, ih]
    simp [hrg.symm, hrb.symm, hgb.symm]

/-- the fourth sample of every emitted pixel is the fill value -/
theorem alpha_pack (L : Layout) (hv : L.Valid) : ∀ (px : List ((Int × Int × Int) × Int)),
    alphaRow L px.length (packRow L px) = px.map (fun q => L.a.map (fun _ => q.2)) := by
  obtain ⟨_, _, _, _, _, _, ha⟩ := hv
  intro px
  induction px with
  | nil => rfl
  | cons q rest ih =>
    obtain ⟨p, f⟩ := q
    simp only [List.length_cons, packRow, alphaRow, List.map_cons]
    have hl := packPixel_length L p f
    have hdrop : (packPixel L p f ++ packRow L rest).drop L.size = packRow L rest := by
      rw [List.drop_append_of_le_length (by omega), List.drop_of_length_le (by omega)]; rfl
    rw [hdrop, ih]
    congr 1
    cases hA : L.a with
    | none => rfl
    | some a =>
      obtain ⟨h1, h2, h3, h4⟩ := ha a hA
      simp only [Option.map_some]
      rw [getD_append_left _ _ _ (by omega), packPixel_get L p f _ h1]
      simp [h2, h3, h4]

end LJT.Color
