import LJT.Model.Nbits
/-! kernel-evaluated check of entries 32768..40959 of the regenerated nbits table -/
namespace LJT
theorem nbits_chunk_C4 : checkRange nbitsTbl nbitsSpec 14 32768 8192 = true := by decide +kernel
end LJT
