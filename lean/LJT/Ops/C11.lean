import LJT.Ops.Util
import LJT.Model.Extent
import LJT.Model.DecompCtl
import LJT.Gen.TJ
namespace LJT.Ops
open LJT.Extent LJT.DecompCtl

/-- the model's prediction of which bytes of the documented buffer a decompression writes -/
def opC11 : List String → Option String
  | ["g11d", ss, w, h, _seed, pf, sfi, pad, _bu, _fe, crop, prec, fl] => do
    -- flag bit 2: the region was set under another scaling factor (call history): what is legitimately written then is decided by the
    -- oracle (guard pages), not by the extent model
    let fl ← nat? fl
    if fl ≥ 4 then none
    let ss ← nat? ss; let w ← nat? w; let h ← nat? h; let pf ← nat? pf; let sfi ← nat? sfi; let pad ← nat? pad
    let crop ← nat? crop; let prec ← nat? prec
    let nc := if ss == 3 then 1 else 3
    let pf := if nc == 1 && pf == 11 then 6 else pf
    let pf := if pf == 11 then 0 else pf
    let ps := Gen.tjPixelSize.getD pf 3
    let ssz := if prec ≤ 8 then 1 else 2
    let (n, d) := if prec == 8 then Gen.tjScalingFactors.getD (sfi % 16) (1, 1) else (1, 1)
    let sw := outputDim w n d; let sh := outputDim h n d
    let (ow, oh) :=
      if crop != 0 && prec == 8 then
        let mw := outputDim ([8, 16, 16, 8, 8, 32, 8].getD (ss % 7) 8) n d
        let cx := if mw * (crop % 3) ≥ sw then 0 else mw * (crop % 3)
        let cy := (crop / 3) % (if sh > 0 then sh else 1)
        let cw := if sw - cx > 1 then 1 + (crop * 7) % (sw - cx) else 0
        let ch := if sh - cy > 1 then 1 + (crop * 5) % (sh - cy) else 0
        if tjCropAccept (sw : Int) (sh : Int) (mw : Int) (cx : Int) (cy : Int) (cw : Int) (ch : Int) then ((if cw == 0 then sw - cx else cw), (if ch == 0 then sh - cy else ch)) else (sw, sh)
      else (sw, sh)
    let rowb := ow * ps * ssz
    let pitch := rowb + pad * ssz
    let doc := docSize rowb pitch oh
    some s!"{rowb} {pitch} {doc} {maskDigest rowb pitch oh doc}"
  | _ => none

end LJT.Ops
