import LJT.Model.Nbits
/-! kernel-evaluated check of entries 8192..16383 of the regenerated nbits table -/
namespace LJT
theorem nbits_chunk_C1 : checkRange nbitsTbl nbitsSpec 14 8192 8192 = true := by decide +kernel
end LJT
