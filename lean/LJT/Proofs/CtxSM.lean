import LJT.Model.CtxSM
import LJT.Proofs.SkipSM
namespace LJT.Skip

/-- the upsampler's side of the invariant: at position `(cr, cg, r)` either the conversion buffer is empty (`r = 0`) or
it holds row group `(cr, cg)` with `r` rows delivered -/
def UpsAt (c : Cfg) (s : CSt) (cr cg r : Nat) : Prop :=
  (s.nro = c.v ∧ r = 0) ∨ (s.nro = r ∧ 0 < r ∧ r < c.v ∧ s.cbRow = cr ∧ s.cbRg = cg)

/-- one call of `sep_upsample` from the context main controller, with the centre row group `(cr, cg)` selected by the
controller's state -/
theorem cups_spec (c : Cfg) (hv : 0 < c.v) (s : CSt) (room cr cg r : Nat) (hr : r < c.v)
    (hctr : (if s.cs = 2 then (s.postRow, c.M - 1) else (s.curRow, s.rg)) = (cr, cg))
    (hu : UpsAt c s cr cg r) (hroom : 1 ≤ room) (hrtg : 1 ≤ s.rtg) :
    ∃ k, 1 ≤ k ∧ k ≤ room ∧ k ≤ s.rtg ∧ r + k ≤ c.v ∧ (cups c s room).2 = (List.range k).map (fun j => (cr, cg, r + j)) ∧
      (cups c s room).1 = { s with cbRow := cr, cbRg := cg, rtg := s.rtg - k, nro := r + k,
                                    rg := if r + k = c.v then s.rg + 1 else s.rg } := by
  rcases hu with ⟨h1, h2⟩ | ⟨h1, h2, h3, h4, h5⟩
  · subst h2
    have hge : c.v ≤ s.nro := by omega
    refine ⟨min (min c.v s.rtg) room, by omega, by omega, by omega, by omega, ?_, ?_⟩
    · by_cases hcs : s.cs = 2
      · rw [if_pos hcs] at hctr
        simp only [Prod.mk.injEq] at hctr
        simp [cups, hge, hcs, hctr.1, hctr.2]
      · rw [if_neg hcs] at hctr
        simp only [Prod.mk.injEq] at hctr
        simp [cups, hge, hcs, hctr.1, hctr.2]
    · by_cases hcs : s.cs = 2
      · rw [if_pos hcs] at hctr
        simp only [Prod.mk.injEq] at hctr
        simp only [cups, hge, hcs, if_true, Nat.sub_zero, Nat.zero_add, hctr.1, hctr.2]
        by_cases hk : min (min c.v s.rtg) room = c.v
        · have : c.v ≤ min (min c.v s.rtg) room := by omega
          rw [if_pos this, if_pos hk]
        · have : ¬ c.v ≤ min (min c.v s.rtg) room := by omega
          rw [if_neg this, if_neg hk]
      · rw [if_neg hcs] at hctr
        simp only [Prod.mk.injEq] at hctr
        simp only [cups, hge, hcs, if_true, if_false, Nat.sub_zero, Nat.zero_add, hctr.1, hctr.2]
        by_cases hk : min (min c.v s.rtg) room = c.v
        · have : c.v ≤ min (min c.v s.rtg) room := by omega
          rw [if_pos this, if_pos hk]
        · have : ¬ c.v ≤ min (min c.v s.rtg) room := by omega
          rw [if_neg this, if_neg hk]
  · have hlt : ¬ c.v ≤ s.nro := by omega
    refine ⟨min (min (c.v - r) s.rtg) room, by omega, by omega, by omega, by omega, ?_, ?_⟩
    · have hlt' : ¬ c.v ≤ r := by omega
      simp only [cups, h1, hlt', if_false, h4, h5]
    · have hlt' : ¬ c.v ≤ r := by omega
      simp only [cups, h1, hlt', if_false]
      by_cases hk : r + min (min (c.v - r) s.rtg) room = c.v
      · have : c.v ≤ r + min (min (c.v - r) s.rtg) room := by omega
        rw [if_pos this, if_pos hk, ← h4, ← h5]
      · have : ¬ c.v ≤ r + min (min (c.v - r) s.rtg) room := by omega
        rw [if_neg this, if_neg hk, ← h4, ← h5]


/-! ### the last iMCU row -/

theorem T_cases (c : Cfg) (hL : 0 < c.M * c.v) :
    c.H = c.M * c.v * (c.H / (c.M * c.v)) + c.H % (c.M * c.v) ∧ c.H % (c.M * c.v) < c.M * c.v ∧
    c.T = if c.H % (c.M * c.v) = 0 then c.H / (c.M * c.v) else c.H / (c.M * c.v) + 1 := by
  have hdm := (Nat.div_add_mod c.H (c.M * c.v)).symm
  have hml := Nat.mod_lt c.H hL
  refine ⟨hdm, hml, ?_⟩
  unfold Cfg.T
  generalize c.M * c.v = L at *
  generalize c.H / L = q at *
  generalize c.H % L = rl at *
  by_cases h0 : rl = 0
  · rw [if_pos h0]
    subst h0
    have : c.H + L - 1 = L * q + (L - 1) := by omega
    rw [this, Nat.mul_add_div hL]
    have : (L - 1) / L = 0 := Nat.div_eq_of_lt (by omega)
    omega
  · rw [if_neg h0]
    have : c.H + L - 1 = L * (q + 1) + (rl - 1) := by rw [Nat.mul_add]; omega
    rw [this, Nat.mul_add_div hL]
    have : (rl - 1) / L = 0 := Nat.div_eq_of_lt (by omega)
    omega

/-- a position inside the image lies in an iMCU row below `T`; in the last one its row group is a real one, the real
row groups are at most `M`, and after the last real row group the image is over -/
theorem bottom_facts (c : Cfg) (hM : 0 < c.M) (hv : 0 < c.v) (a g r : Nat) (hr : r < c.v) (hy : lineOf c a g r < c.H) (hg : g < c.M) :
    a < c.T ∧ 1 ≤ c.bottomAvail ∧ c.bottomAvail ≤ c.M ∧
    (a + 1 = c.T → g < c.bottomAvail ∧ c.H ≤ lineOf c a c.bottomAvail 0) := by
  have hL : 0 < c.M * c.v := Nat.mul_pos hM hv
  obtain ⟨t1, t2, t3⟩ := T_cases c hL
  have hx := lt_L hg hr
  simp only [lineOf] at hy ⊢
  unfold Cfg.bottomAvail
  generalize hLL : c.M * c.v = L at *
  generalize c.H / L = q at *
  generalize c.H % L = rl at *
  have haq : a * L = L * a := Nat.mul_comm _ _
  -- a ≤ q, and a < q when rl = 0
  have haq2 : a ≤ q := by
    apply Nat.le_of_lt_succ
    apply Nat.lt_of_mul_lt_mul_left (a := L)
    rw [Nat.mul_succ]; omega
  by_cases h0 : rl = 0
  · simp only [h0, if_true] at t3 ⊢
    have halt : a < q := by
      apply Nat.lt_of_mul_lt_mul_left (a := L)
      omega
    have hb1 : (L - 1) / c.v + 1 ≤ c.M := by
      have : (L - 1) / c.v < c.M := by rw [Nat.div_lt_iff_lt_mul hv]; omega
      omega
    refine ⟨by omega, Nat.le_add_left 1 _, hb1, fun hT => ?_⟩
    -- a + 1 = q: rows left = L
    have hq : q = a + 1 := by omega
    subst hq
    have hgv : g * c.v ≤ L - 1 := by omega
    have hg2 : g ≤ (L - 1) / c.v := by rw [Nat.le_div_iff_mul_le hv]; exact hgv
    refine ⟨by omega, ?_⟩
    have hdm := Nat.div_add_mod (L - 1) c.v
    have hml := Nat.mod_lt (L - 1) hv
    rw [Nat.succ_mul, Nat.mul_comm ((L - 1) / c.v) c.v]
    rw [Nat.mul_succ] at t1
    omega
  · simp only [h0, if_false] at t3 ⊢
    have hb1 : (rl - 1) / c.v + 1 ≤ c.M := by
      have : (rl - 1) / c.v < c.M := by rw [Nat.div_lt_iff_lt_mul hv]; omega
      omega
    refine ⟨by omega, Nat.le_add_left 1 _, hb1, fun hT => ?_⟩
    have hq : q = a := by omega
    subst hq
    have hgv : g * c.v ≤ rl - 1 := by omega
    have hg2 : g ≤ (rl - 1) / c.v := by rw [Nat.le_div_iff_mul_le hv]; exact hgv
    refine ⟨by omega, ?_⟩
    have hdm := Nat.div_add_mod (rl - 1) c.v
    have hml := Nat.mod_lt (rl - 1) hv
    rw [Nat.succ_mul, Nat.mul_comm ((rl - 1) / c.v) c.v]
    omega


theorem lt_T_line (c : Cfg) (hM : 0 < c.M) (hv : 0 < c.v) (a : Nat) (h : a < c.T) : lineOf c a 0 0 < c.H := by
  have hL : 0 < c.M * c.v := Nat.mul_pos hM hv
  obtain ⟨t1, t2, t3⟩ := T_cases c hL
  simp only [lineOf]
  generalize c.M * c.v = L at *
  generalize c.H / L = q at *
  generalize c.H % L = rl at *
  by_cases h0 : rl = 0
  · rw [if_pos h0] at t3
    have : a * L < q * L := Nat.mul_lt_mul_of_pos_right (by omega) hL
    rw [Nat.mul_comm q L] at this
    omega
  · rw [if_neg h0] at t3
    have : a * L ≤ q * L := Nat.mul_le_mul_right L (by omega)
    rw [Nat.mul_comm q L] at this
    omega

/-- number of real row groups of iMCU row `a` that are processed before the postponed one -/
def availOf (c : Cfg) (a : Nat) : Nat := if a + 1 = c.T then c.bottomAvail else c.M - 1

/-- rows delivered from scanline `y` on are the rows their scanlines name -/
def RowsOK (c : Cfg) (y : Nat) (rows : List Prov) : Prop :=
  ∀ j (h : j < rows.length), (rows[j]).2.1 < c.M ∧ (rows[j]).2.2 < c.v ∧ Prov.line c rows[j] = y + j

theorem rowsOK_range (c : Cfg) (a g r k : Nat) (hg : g < c.M) (hk : r + k ≤ c.v) :
    RowsOK c (lineOf c a g r) ((List.range k).map (fun j => (a, g, r + j))) := by
  intro j h
  simp only [List.length_map, List.length_range] at h
  simp only [List.getElem_map, List.getElem_range]
  refine ⟨hg, by show r + j < c.v; omega, ?_⟩
  show a * (c.M * c.v) + g * c.v + (r + j) = lineOf c a g r + j
  simp only [lineOf]; omega

theorem rowsOK_append (c : Cfg) (y : Nat) (r1 r2 : List Prov) (h1 : RowsOK c y r1) (h2 : RowsOK c (y + r1.length) r2) :
    RowsOK c y (r1 ++ r2) := by
  intro j h
  by_cases hj : j < r1.length
  · rw [List.getElem_append_left hj]; exact h1 j hj
  · have hj' : r1.length ≤ j := by omega
    rw [List.getElem_append_right hj']
    have := h2 (j - r1.length) (by simp only [List.length_append] at h; omega)
    have e : y + r1.length + (j - r1.length) = y + j := by omega
    rw [e] at this
    exact this

/-- the invariant of the context-row machine about scanline `y` (`output_scanline` is advanced only after
`process_data` has returned); `d` = by how much `rows_to_go` lags behind inside a skip -/
def CInvY (c : Cfg) (s : CSt) (y : Nat) (d : Nat := 0) : Prop :=
  y ≤ c.H ∧ (y < c.H → ∃ a g r, g < c.M ∧ r < c.v ∧ y = lineOf c a g r ∧ s.rtg = c.H - y + d ∧ s.ictr = s.irow ∧
    ((s.cs = 1 ∧ s.bf = true ∧ s.curRow = a ∧ s.irow = a + 1 ∧ s.rg = g ∧ g < s.avail ∧ s.avail = availOf c a ∧ UpsAt c s a g r)
    ∨ (s.cs = 2 ∧ s.bf = false ∧ g = c.M - 1 ∧ r = 0 ∧ s.nro = c.v ∧ s.rg = c.M + 1 ∧ s.avail = c.M + 2 ∧ s.postRow = a ∧
        s.irow = a + 1 ∧ a + 1 < c.T)
    ∨ (s.cs = 2 ∧ s.bf = true ∧ g = c.M - 1 ∧ UpsAt c s a g r ∧ 0 < r ∧ s.rg = c.M + 1 ∧ s.avail = c.M + 2 ∧ s.postRow = a ∧
        s.curRow = a + 1 ∧ s.irow = a + 2 ∧ a + 1 < c.T)
    ∨ (s.cs = 0 ∧ s.bf = false ∧ g = 0 ∧ r = 0 ∧ s.nro = c.v ∧ s.irow = a)
    ∨ (s.cs = 0 ∧ s.bf = true ∧ g = 0 ∧ r = 0 ∧ s.nro = c.v ∧ s.curRow = a ∧ s.irow = a + 1)))

theorem availOf_le (c : Cfg) (hM : 2 ≤ c.M) (hv : 0 < c.v) (a : Nat) (h : lineOf c a 0 0 < c.H) :
    1 ≤ availOf c a ∧ availOf c a ≤ c.M := by
  obtain ⟨_, b1, b2, _⟩ := bottom_facts c (by omega) hv a 0 0 hv h (by omega)
  unfold availOf
  split <;> omega

/-- CTX_PROCESS_IMCU from position `(a, g, r)` -/
theorem cproc_spec (c : Cfg) (hM : 2 ≤ c.M) (hv : 0 < c.v) (s : CSt) (room a g r d : Nat) (hg : g < c.M) (hr : r < c.v)
    (hy : lineOf c a g r < c.H) (hrtg : s.rtg = c.H - lineOf c a g r + d) (hd : d = 0 ∨ room ≤ c.H - lineOf c a g r)
    (hic : s.ictr = s.irow)
    (h1 : s.cs = 1) (h2 : s.bf = true) (h3 : s.curRow = a) (h4 : s.irow = a + 1) (h5 : s.rg = g) (h6 : g < s.avail)
    (h7 : s.avail = availOf c a) (hu : UpsAt c s a g r) (hroom : 1 ≤ room) :
    ∃ k, 1 ≤ k ∧ k ≤ room ∧ r + k ≤ c.v ∧ (cproc c s room).2 = (List.range k).map (fun j => (a, g, r + j)) ∧
      CInvY c (cproc c s room).1 (lineOf c a g r + k) d := by
  have hcs : ¬ s.cs = 2 := by omega
  obtain ⟨k, k1, k2, k3, k4, k5, k6⟩ := cups_spec c hv s room a g r hr (by rw [if_neg hcs, h3, h5]) hu hroom (by omega)
  have hline0 : lineOf c a 0 0 < c.H := by simp only [lineOf] at hy ⊢; omega
  obtain ⟨av1, av2⟩ := availOf_le c hM hv a hline0
  obtain ⟨bt1, _, _, bt4⟩ := bottom_facts c (by omega) hv a g r hr hy hg
  refine ⟨k, k1, k2, k4, ?_, ?_⟩
  · unfold cproc; simp only; split <;> exact k5
  · have hle : lineOf c a g r + k ≤ c.H := by rcases hd with h | h <;> omega
    unfold cproc
    simp only [k6]
    by_cases hfull : r + k = c.v
    · rw [if_pos hfull]
      by_cases hmore : g + 1 < s.avail
      · -- next row group of the same iMCU row
        have : s.rg + 1 < s.avail := by omega
        rw [if_pos this]
        simp only [k6, hfull, if_true]
        refine ⟨hle, fun _ => ⟨a, g + 1, 0, by omega, hv, ?_, ?_, hic, ?_⟩⟩
        · simp only [lineOf]; rw [Nat.succ_mul]; omega
        · show s.rtg - k = _; omega
        · exact Or.inl ⟨h1, h2, h3, h4, by show s.rg + 1 = g + 1; omega, hmore, h7, Or.inl ⟨rfl, rfl⟩⟩
      · have : ¬ s.rg + 1 < s.avail := by omega
        rw [if_neg this]
        have hga : g + 1 = s.avail := by omega
        refine ⟨hle, fun hlt => ?_⟩
        by_cases hT : a + 1 = c.T
        · -- the last iMCU row is finished: the image is over
          exfalso
          obtain ⟨_, b2⟩ := bt4 hT
          have : s.avail = c.bottomAvail := by rw [h7]; unfold availOf; rw [if_pos hT]
          rw [← this, ← hga] at b2
          simp only [lineOf] at b2 hlt
          rw [Nat.succ_mul] at b2
          omega
        · have hav : s.avail = c.M - 1 := by rw [h7]; unfold availOf; rw [if_neg hT]
          refine ⟨a, c.M - 1, 0, by omega, hv, ?_, ?_, hic, ?_⟩
          · simp only [lineOf]
            have : g + 1 = c.M - 1 := by omega
            rw [← this, Nat.succ_mul]; omega
          · show s.rtg - k = _; omega
          · exact Or.inr (Or.inl ⟨rfl, rfl, rfl, rfl, hfull, rfl, rfl, h3, h4, by omega⟩)
    · rw [if_neg hfull]
      have : s.rg < s.avail := by omega
      rw [if_pos this]
      simp only [k6, hfull, if_false]
      refine ⟨hle, fun _ => ⟨a, g, r + k, hg, by omega, ?_, ?_, hic, ?_⟩⟩
      · simp only [lineOf]; omega
      · show s.rtg - k = _; omega
      · exact Or.inl ⟨h1, h2, h3, h4, h5, h6, h7, Or.inr ⟨rfl, by omega, by omega, rfl, rfl⟩⟩


/-- CTX_POSTPONED_ROW (and what follows it in the same call) from position `(a, M-1, r)` with the next iMCU row decoded -/
theorem cpost_spec (c : Cfg) (hM : 2 ≤ c.M) (hv : 0 < c.v) (s : CSt) (n a r d : Nat) (hr : r < c.v)
    (hy : lineOf c a (c.M - 1) r < c.H) (hrtg : s.rtg = c.H - lineOf c a (c.M - 1) r + d)
    (hd : d = 0 ∨ n ≤ c.H - lineOf c a (c.M - 1) r) (hic : s.ictr = s.irow)
    (h1 : s.cs = 2) (h2 : s.bf = true) (h3 : s.postRow = a) (h4 : s.curRow = a + 1) (h5 : s.irow = a + 2)
    (h6 : s.rg = c.M + 1) (h7 : s.avail = c.M + 2) (hu : UpsAt c s a (c.M - 1) r) (hT : a + 1 < c.T) (hn : 1 ≤ n) :
    1 ≤ (cprocess c s n).2.length ∧ (cprocess c s n).2.length ≤ n ∧ RowsOK c (lineOf c a (c.M - 1) r) (cprocess c s n).2 ∧
      CInvY c (cprocess c s n).1 (lineOf c a (c.M - 1) r + (cprocess c s n).2.length) d := by
  obtain ⟨k, k1, k2, k3, k4, k5, k6⟩ := cups_spec c hv s n a (c.M - 1) r hr (by rw [if_pos h1, h3]) hu hn (by omega)
  have hle : lineOf c a (c.M - 1) r + k ≤ c.H := by rcases hd with h | h <;> omega
  have hfill : cfill s = s := by simp [cfill, h2]
  have hM1 : c.M - 1 < c.M := by omega
  have hnext : lineOf c (a + 1) 0 0 < c.H := lt_T_line c (by omega) hv (a + 1) hT
  have hnextline : lineOf c (a + 1) 0 0 = lineOf c a (c.M - 1) 0 + c.v := by
    simp only [lineOf]
    have : c.M = (c.M - 1) + 1 := by omega
    have e : c.M * c.v = (c.M - 1) * c.v + c.v := by
      conv => lhs; rw [this, Nat.succ_mul]
    rw [Nat.succ_mul, e]; omega
  have hline_r : lineOf c a (c.M - 1) r = lineOf c a (c.M - 1) 0 + r := by simp only [lineOf]; omega
  unfold cprocess
  simp only [hfill, h1, if_true]
  by_cases hfull : r + k = c.v
  · -- the postponed row group is finished
    have hrg : ¬ (cups c s n).1.rg < (cups c s n).1.avail := by
      rw [k6]; simp only [hfull, if_true, h6, h7]; omega
    rw [if_neg hrg]
    have hlen : (cups c s n).2.length = k := by rw [k5]; simp
    by_cases hroom : n ≤ k
    · rw [hlen, if_pos hroom]
      simp only [hlen, k5, List.length_map, List.length_range]
      refine ⟨k1, k2, rowsOK_range c a (c.M - 1) r k hM1 k4, ?_⟩
      rw [k6]
      refine ⟨by omega, fun _ => ⟨a + 1, 0, 0, by omega, hv, by omega, by show s.rtg - k = _; omega, hic, ?_⟩⟩
      exact Or.inr (Or.inr (Or.inr (Or.inr ⟨rfl, h2, rfl, rfl, by show r + k = c.v; exact hfull, h4, h5⟩)))
    · rw [hlen, if_neg hroom]
      -- CTX_PREPARE_FOR_IMCU, CTX_PROCESS_IMCU on the next iMCU row
      have hs1 : (cups c s n).1 = { s with cbRow := a, cbRg := c.M - 1, rtg := s.rtg - k, nro := c.v, rg := s.rg + 1 } := by
        rw [k6]; simp only [hfull, if_true]
      rw [hs1]
      obtain ⟨av1, av2⟩ := availOf_le c hM hv (a + 1) hnext
      have hav : (if s.ictr = c.T then c.bottomAvail else c.M - 1) = availOf c (a + 1) := by
        unfold availOf
        have : s.ictr = a + 1 + 1 := by omega
        rw [this]
      obtain ⟨k', q1, q2, q3, q4, q5⟩ := cproc_spec c hM hv
        (cprep c { { s with cbRow := a, cbRg := c.M - 1, rtg := s.rtg - k, nro := c.v, rg := s.rg + 1 } with cs := 0 })
        (n - k) (a + 1) 0 0 d (by omega) hv hnext (by show s.rtg - k = _; omega) (by rcases hd with h | h; exact Or.inl h; exact Or.inr (by omega))
        (by show s.ictr = s.irow; exact hic) rfl
        (by show s.bf = true; exact h2) (by show s.curRow = a + 1; exact h4) (by show s.irow = a + 1 + 1; omega) rfl
        (by show 0 < (if s.ictr = c.T then c.bottomAvail else c.M - 1); rw [hav]; omega)
        (by show (if s.ictr = c.T then c.bottomAvail else c.M - 1) = _; exact hav) (Or.inl ⟨rfl, rfl⟩) (by omega)
      simp only [k5, q4, List.length_append, List.length_map, List.length_range]
      refine ⟨by omega, by omega, ?_, ?_⟩
      · apply rowsOK_append
        · exact rowsOK_range c a (c.M - 1) r k hM1 k4
        · simp only [List.length_map, List.length_range]
          have : lineOf c a (c.M - 1) r + k = lineOf c (a + 1) 0 0 := by omega
          rw [this]
          exact rowsOK_range c (a + 1) 0 0 k' (by omega) (by omega)
      · have : lineOf c a (c.M - 1) r + (k + k') = lineOf c (a + 1) 0 0 + k' := by omega
        rw [this]
        exact q5
  · -- rows of the postponed row group remain
    have hrg : (cups c s n).1.rg < (cups c s n).1.avail := by
      rw [k6]; simp only [hfull, if_false, h6, h7]; omega
    rw [if_pos hrg]
    simp only [k5, List.length_map, List.length_range]
    refine ⟨k1, k2, rowsOK_range c a (c.M - 1) r k hM1 k4, ?_⟩
    rw [k6]
    simp only [hfull, if_false]
    refine ⟨by omega, fun _ => ⟨a, c.M - 1, r + k, hM1, by omega, by simp only [lineOf]; omega, by show s.rtg - k = _; omega, hic, ?_⟩⟩
    exact Or.inr (Or.inr (Or.inl ⟨h1, h2, rfl, Or.inr ⟨rfl, by omega, by omega, rfl, rfl⟩, by omega, h6, h7, h3, h4, h5, hT⟩))


theorem cups_y (c : Cfg) (s : CSt) (room : Nat) : (cups c s room).1.y = s.y := by
  unfold cups
  dsimp only
  repeat' split
  all_goals rfl

theorem cproc_y (c : Cfg) (s : CSt) (room : Nat) : (cproc c s room).1.y = s.y := by
  unfold cproc
  dsimp only
  split
  · exact cups_y c s room
  · exact cups_y c s room

theorem cfill_y (s : CSt) : (cfill s).y = s.y := by
  unfold cfill; split <;> rfl

theorem cprocess_y (c : Cfg) (s : CSt) (n : Nat) : (cprocess c s n).1.y = s.y := by
  unfold cprocess
  dsimp only
  split
  · split
    · rw [cups_y, cfill_y]
    · split
      · show (cups c (cfill s) n).1.y = s.y
        rw [cups_y, cfill_y]
      · rw [cproc_y]
        show (cups c (cfill s) n).1.y = s.y
        rw [cups_y, cfill_y]
  · split
    · rw [cproc_y]; show (cfill s).y = s.y; exact cfill_y s
    · rw [cproc_y, cfill_y]

theorem cfill_idem (s : CSt) : cfill (cfill s) = cfill s := by
  unfold cfill
  by_cases h : s.bf = true
  · simp [h]
  · simp [h]

theorem cprocess_fill (c : Cfg) (s : CSt) (n : Nat) : cprocess c s n = cprocess c (cfill s) n := by
  unfold cprocess
  rw [cfill_idem]

/-- one call of `process_data_context_main` inside the image: at least one row, the right rows, the invariant again -/
theorem cprocess_spec (c : Cfg) (hM : 2 ≤ c.M) (hv : 0 < c.v) (s : CSt) (y n d : Nat) (hinv : CInvY c s y d) (hy : y < c.H) (hn : 1 ≤ n)
    (hd : d = 0 ∨ n ≤ c.H - y) :
    1 ≤ (cprocess c s n).2.length ∧ (cprocess c s n).2.length ≤ n ∧ RowsOK c y (cprocess c s n).2 ∧
      CInvY c (cprocess c s n).1 (y + (cprocess c s n).2.length) d := by
  obtain ⟨a, g, r, hg, hr, hyl, hrtg, hic, hc⟩ := hinv.2 hy
  have hline0 : lineOf c a 0 0 < c.H := by rw [hyl] at hy; simp only [lineOf] at hy ⊢; omega
  obtain ⟨av1, av2⟩ := availOf_le c hM hv a hline0
  -- from an (A)-like state the call is CTX_PROCESS_IMCU
  have hd' : d = 0 ∨ n ≤ c.H - lineOf c a g r := by rw [← hyl]; exact hd
  have fromProc : ∀ t : CSt, cprocess c s n = cproc c t n → t.rtg = c.H - lineOf c a g r + d → t.ictr = t.irow → t.cs = 1 →
      t.bf = true → t.curRow = a → t.irow = a + 1 → t.rg = g → g < t.avail → t.avail = availOf c a → UpsAt c t a g r →
      1 ≤ (cprocess c s n).2.length ∧ (cprocess c s n).2.length ≤ n ∧ RowsOK c y (cprocess c s n).2 ∧
        CInvY c (cprocess c s n).1 (y + (cprocess c s n).2.length) d := by
    intro t he t1 t2 t3 t4 t5 t6 t7 t8 t9 t10
    obtain ⟨k, k1, k2, k3, k4, k5⟩ := cproc_spec c hM hv t n a g r d hg hr (by rw [← hyl]; exact hy) t1 hd' t2 t3 t4 t5 t6 t7 t8 t9 t10 hn
    rw [he, k4]
    simp only [List.length_map, List.length_range]
    rw [← k4, hyl]
    refine ⟨k1, k2, ?_, k5⟩
    rw [k4]; exact rowsOK_range c a g r k hg k3
  rcases hc with ⟨x1, x2, x3, x4, x5, x6, x7, x8⟩ | ⟨x1, x2, x3, x4, x5, x6, x7, x8, x9, x10⟩ |
      ⟨x1, x2, x3, x4, x5, x6, x7, x8, x9, x10, x11⟩ | ⟨x1, x2, x3, x4, x5, x6⟩ | ⟨x1, x2, x3, x4, x5, x6, x7⟩
  · -- CTX_PROCESS_IMCU
    have hfill : cfill s = s := by simp [cfill, x2]
    refine fromProc s ?_ (by rw [hrtg, hyl]) hic x1 x2 x3 x4 x5 x6 x7 x8
    unfold cprocess
    simp only [hfill, x1]
    rfl
  · -- postponed row group, next iMCU row not decoded yet
    subst x3; subst x4
    rw [cprocess_fill, hyl]
    have hf : cfill s = { s with bf := true, curRow := s.irow, irow := s.irow + 1, ictr := s.ictr + 1 } := by simp [cfill, x2]
    rw [hf]
    exact cpost_spec c hM hv _ n a 0 d hv (by rw [← hyl]; exact hy) (by show s.rtg = _; rw [hrtg, hyl]) hd'
      (by show s.ictr + 1 = s.irow + 1; omega) x1 rfl x8 (by show s.irow = a + 1; exact x9) (by show s.irow + 1 = a + 2; omega)
      x6 x7 (Or.inl ⟨x5, rfl⟩) x10 hn
  · -- postponed row group, partly delivered
    subst x3
    rw [hyl]
    exact cpost_spec c hM hv s n a r d hr (by rw [← hyl]; exact hy) (by rw [hrtg, hyl]) hd' hic x1 x2 x8 x9 x10 x6 x7 x4 x11 hn
  · -- CTX_PREPARE_FOR_IMCU, nothing decoded
    subst x3; subst x4
    have hf : cfill s = { s with bf := true, curRow := s.irow, irow := s.irow + 1, ictr := s.ictr + 1 } := by simp [cfill, x2]
    refine fromProc (cprep c (cfill s)) ?_ (by rw [hf]; show s.rtg = _; rw [hrtg, hyl])
      (by rw [hf]; show s.ictr + 1 = s.irow + 1; omega) rfl (by rw [hf]; rfl) (by rw [hf]; show s.irow = a; exact x6)
      (by rw [hf]; show s.irow + 1 = a + 1; omega) rfl ?_ ?_ (Or.inl ⟨by rw [hf]; exact x5, rfl⟩)
    · unfold cprocess
      have : (cfill s).cs = 0 := by rw [hf]; exact x1
      simp only [this]
      rfl
    · rw [hf]
      show 0 < (if s.ictr + 1 = c.T then c.bottomAvail else c.M - 1)
      have : (if s.ictr + 1 = c.T then c.bottomAvail else c.M - 1) = availOf c a := by unfold availOf; rw [hic, x6]
      rw [this]; omega
    · rw [hf]
      show (if s.ictr + 1 = c.T then c.bottomAvail else c.M - 1) = availOf c a
      unfold availOf; rw [hic, x6]
  · -- CTX_PREPARE_FOR_IMCU with the iMCU row decoded
    subst x3; subst x4
    have hfill : cfill s = s := by simp [cfill, x2]
    refine fromProc (cprep c s) ?_ (by show s.rtg = _; rw [hrtg, hyl]) hic rfl x2 x6 x7 rfl ?_ ?_ (Or.inl ⟨x5, rfl⟩)
    · unfold cprocess
      simp only [hfill, x1]
      rfl
    · show 0 < (if s.ictr = c.T then c.bottomAvail else c.M - 1)
      have : (if s.ictr = c.T then c.bottomAvail else c.M - 1) = availOf c a := by unfold availOf; rw [hic, x7]
      rw [this]; omega
    · show (if s.ictr = c.T then c.bottomAvail else c.M - 1) = availOf c a
      unfold availOf; rw [hic, x7]


/-- the invariant between API calls -/
def CInv (c : Cfg) (s : CSt) (d : Nat := 0) : Prop := CInvY c s s.y d

theorem cinit_inv (c : Cfg) (hM : 0 < c.M) (hv : 0 < c.v) : CInv c (cinit c) := by
  refine ⟨Nat.zero_le _, fun _ => ⟨0, 0, 0, hM, hv, by simp [cinit, lineOf], by simp [cinit], rfl, ?_⟩⟩
  exact Or.inr (Or.inr (Or.inr (Or.inl ⟨rfl, rfl, rfl, rfl, rfl, rfl⟩)))

theorem cread_spec (c : Cfg) (hM : 2 ≤ c.M) (hv : 0 < c.v) (s : CSt) (n d : Nat) (hinv : CInv c s d) (hy : s.y < c.H) (hn : 1 ≤ n)
    (hd : d = 0 ∨ n ≤ c.H - s.y) :
    1 ≤ (cread c s n).2.length ∧ (cread c s n).2.length ≤ n ∧ RowsOK c s.y (cread c s n).2 ∧
      CInv c (cread c s n).1 d ∧ (cread c s n).1.y = s.y + (cread c s n).2.length := by
  obtain ⟨p1, p2, p3, p4⟩ := cprocess_spec c hM hv s s.y n d hinv hy hn hd
  have h1 : ¬ c.H ≤ s.y := by omega
  have h2 : ¬ n = 0 := by omega
  have e : cread c s n = ({ (cprocess c s n).1 with y := (cprocess c s n).1.y + (cprocess c s n).2.length }, (cprocess c s n).2) := by
    simp only [cread, h1, h2, if_false]
  rw [e]
  refine ⟨p1, p2, p3, ?_, by show (cprocess c s n).1.y + _ = _; rw [cprocess_y]⟩
  show CInvY c _ ((cprocess c s n).1.y + (cprocess c s n).2.length) d
  rw [cprocess_y]
  exact p4

theorem creadDiscard_spec (c : Cfg) (hM : 2 ≤ c.M) (hv : 0 < c.v) (d : Nat) : ∀ (k : Nat) (s : CSt), CInv c s d → s.y + k ≤ c.H →
    CInv c (creadDiscard c k s) d ∧ (creadDiscard c k s).y = s.y + k := by
  intro k
  induction k with
  | zero => intro s h _; exact ⟨h, rfl⟩
  | succ k ih =>
    intro s h hH
    obtain ⟨q1, q2, _, q4, q5⟩ := cread_spec c hM hv s 1 d h (by omega) (by omega) (Or.inr (by omega))
    have hl : (cread c s 1).2.length = 1 := by omega
    simp only [creadDiscard]
    obtain ⟨i1, i2⟩ := ih (cread c s 1).1 q4 (by rw [q5, hl]; omega)
    exact ⟨i1, by rw [i2, q5, hl]; omega⟩



/-- the part of the context branch of `_jpeg_skip_scanlines` after the position has been moved to the iMCU row boundary
`y'` with `after` lines still to go -/
def cskipTail (c : Cfg) (s : CSt) (y' after : Nat) : CSt :=
  let L := c.M * c.v
  let s := { s with y := y' }
  let s := { s with bf := false, rg := 0, cs := 0, nro := c.v, rtg := c.H - s.y }
  let toSkip := (after - 1) / L * L
  let toRead := after - toSkip
  let s := { s with y := s.y + toSkip, irow := s.irow + toSkip / L, ictr := s.ictr + toSkip / L }
  let s := creadDiscard c toRead s
  { s with rtg := c.H - s.y }

theorem cskip_eq (c : Cfg) (s : CSt) (n : Nat) (h1 : ¬ c.H ≤ s.y + n) (h2 : ¬ n = 0) :
    cskip c s n =
      if n < (c.M * c.v - s.y % (c.M * c.v)) % (c.M * c.v) + 1 ∨
          ((c.M * c.v - s.y % (c.M * c.v)) % (c.M * c.v) < c.v ∧ s.bf = true ∧
            n - (c.M * c.v - s.y % (c.M * c.v)) % (c.M * c.v) < c.M * c.v + 1) then (creadDiscard c n s, n)
      else if (decide ((c.M * c.v - s.y % (c.M * c.v)) % (c.M * c.v) < c.v) && s.bf) = true then
        (cskipTail c s (s.y + (c.M * c.v - s.y % (c.M * c.v)) % (c.M * c.v) + c.M * c.v)
          (n - (c.M * c.v - s.y % (c.M * c.v)) % (c.M * c.v) - c.M * c.v), n)
      else (cskipTail c s (s.y + (c.M * c.v - s.y % (c.M * c.v)) % (c.M * c.v)) (n - (c.M * c.v - s.y % (c.M * c.v)) % (c.M * c.v)), n) := by
  simp only [cskip, h1, h2, if_false, cskipTail]
  split
  · rfl
  · split <;> rfl

theorem cset_rtg_inv (c : Cfg) (s : CSt) (d : Nat) (h : CInv c s d) : CInv c { s with rtg := c.H - s.y } := by
  refine ⟨h.1, fun hy => ?_⟩
  obtain ⟨a, g, r, hg, hr, hy', hrtg, hic, hc⟩ := h.2 hy
  refine ⟨a, g, r, hg, hr, hy', rfl, hic, ?_⟩
  rcases hc with ⟨x1, x2, x3, x4, x5, x6, x7, x8⟩ | x | ⟨x1, x2, x3, x4, x5⟩ | x | x
  · exact Or.inl ⟨x1, x2, x3, x4, x5, x6, x7, x8⟩
  · exact Or.inr (Or.inl x)
  · exact Or.inr (Or.inr (Or.inl ⟨x1, x2, x3, x4, x5⟩))
  · exact Or.inr (Or.inr (Or.inr (Or.inl x)))
  · exact Or.inr (Or.inr (Or.inr (Or.inr x)))

theorem cskipTail_spec (c : Cfg) (hM : 2 ≤ c.M) (hv : 0 < c.v) (s : CSt) (y' after a' : Nat)
    (hy : y' = lineOf c a' 0 0) (hirow : s.irow = a') (hic : s.ictr = s.irow) (h1 : 1 ≤ after) (hH : y' + after < c.H) :
    CInv c (cskipTail c s y' after) ∧ (cskipTail c s y' after).y = y' + after := by
  have hL : 0 < c.M * c.v := Nat.mul_pos (by omega) hv
  generalize hLL : c.M * c.v = L at hL
  have hq : (after - 1) / L * L / L = (after - 1) / L := Nat.mul_div_cancel _ hL
  have hle2 : (after - 1) / L * L ≤ after - 1 := Nat.div_mul_le_self _ _
  generalize hqq : (after - 1) / L = q at hq hle2
  let s2 : CSt := { s with y := y' + q * L, bf := false, rg := 0, cs := 0, nro := c.v, rtg := c.H - y', irow := s.irow + q, ictr := s.ictr + q }
  have e : cskipTail c s y' after = { creadDiscard c (after - q * L) s2 with rtg := c.H - (creadDiscard c (after - q * L) s2).y } := by
    simp only [cskipTail, hLL, hqq, hq]
    rfl
  have hy2 : s2.y = lineOf c (a' + q) 0 0 := by
    show y' + q * L = _
    simp only [lineOf] at hy ⊢
    rw [hLL] at hy ⊢
    rw [Nat.add_mul, hy]; omega
  have inv2 : CInv c s2 (q * L) := by
    refine ⟨by show y' + q * L ≤ c.H; omega, fun hlt => ⟨a' + q, 0, 0, by omega, hv, hy2, ?_, by show s.ictr + q = s.irow + q; omega, ?_⟩⟩
    · show c.H - y' = c.H - (y' + q * L) + q * L; omega
    · exact Or.inr (Or.inr (Or.inr (Or.inl ⟨rfl, rfl, rfl, rfl, rfl, by show s.irow + q = a' + q; omega⟩)))
  obtain ⟨i1, i2⟩ := creadDiscard_spec c hM hv (q * L) (after - q * L) s2 inv2 (by show y' + q * L + (after - q * L) ≤ c.H; omega)
  rw [e]
  refine ⟨cset_rtg_inv c _ (q * L) i1, ?_⟩
  show (creadDiscard c (after - q * L) s2).y = _
  rw [i2]; show y' + q * L + (after - q * L) = _; omega


theorem cskip_spec (c : Cfg) (hM : 2 ≤ c.M) (hv : 0 < c.v) (s : CSt) (n : Nat) (hinv : CInv c s) :
    CInv c (cskip c s n).1 ∧ (cskip c s n).2 = min n (c.H - s.y) ∧ (cskip c s n).1.y = s.y + min n (c.H - s.y) := by
  have hyH := hinv.1
  by_cases h1 : c.H ≤ s.y + n
  · have e : cskip c s n = ({ s with y := c.H }, c.H - s.y) := by simp [cskip, h1]
    rw [e]
    refine ⟨⟨Nat.le_refl _, fun h => absurd h (Nat.lt_irrefl _)⟩, by omega, by show c.H = _; omega⟩
  · by_cases h2 : n = 0
    · subst h2
      have h1' : ¬ c.H ≤ s.y := by simpa using h1
      have e : cskip c s 0 = (s, 0) := by simp [cskip, h1']
      rw [e]
      exact ⟨hinv, by simp, by simp⟩
    · rw [cskip_eq c s n h1 h2]
      obtain ⟨a, g, r, hg, hr, hy, hrtg, hic, hc⟩ := hinv.2 (by omega)
      obtain ⟨hdiv, hmod⟩ := lineOf_divmod c a g r hg hr
      have hx := lt_L hg hr
      have hmod' : s.y % (c.M * c.v) = g * c.v + r := by rw [hy]; exact hmod
      have hmin : min n (c.H - s.y) = n := by omega
      have hMv : c.M * c.v = (c.M - 1) * c.v + c.v := by
        have : c.M = (c.M - 1) + 1 := by omega
        conv => lhs; rw [this, Nat.succ_mul]
      have hyl : s.y = a * (c.M * c.v) + (g * c.v + r) := by rw [hy]; simp only [lineOf]; omega
      have hnext1 : lineOf c (a + 1) 0 0 = a * (c.M * c.v) + c.M * c.v := by simp only [lineOf]; rw [Nat.succ_mul]; omega
      have hnext2 : lineOf c (a + 2) 0 0 = a * (c.M * c.v) + c.M * c.v + c.M * c.v := by
        simp only [lineOf]; rw [Nat.succ_mul, Nat.succ_mul]; omega
      rw [hmod', hmin]
      generalize hLL : c.M * c.v = L at *
      by_cases hcond : n < (L - (g * c.v + r)) % L + 1 ∨ ((L - (g * c.v + r)) % L < c.v ∧ s.bf = true ∧ n - (L - (g * c.v + r)) % L < L + 1)
      · rw [if_pos hcond]
        obtain ⟨j1, j2⟩ := creadDiscard_spec c hM hv 0 n s hinv (by omega)
        exact ⟨j1, rfl, j2⟩
      · rw [if_neg hcond]
        have hleft : (L - (g * c.v + r)) % L = if g * c.v + r = 0 then 0 else L - (g * c.v + r) := by
          by_cases h0 : g * c.v + r = 0
          · rw [if_pos h0, h0]; simp
          · rw [if_neg h0]; exact Nat.mod_eq_of_lt (by omega)
        rw [hleft] at hcond ⊢
        have hc1 : ¬ n < (if g * c.v + r = 0 then 0 else L - (g * c.v + r)) + 1 := fun h => hcond (Or.inl h)
        have hc2 : ¬ ((if g * c.v + r = 0 then 0 else L - (g * c.v + r)) < c.v ∧ s.bf = true ∧
            n - (if g * c.v + r = 0 then 0 else L - (g * c.v + r)) < L + 1) := fun h => hcond (Or.inr h)
        -- the two continuations
        have tailNext : ∀ a', s.irow = a' → s.y + (if g * c.v + r = 0 then 0 else L - (g * c.v + r)) + L = lineOf c a' 0 0 →
            1 ≤ n - (if g * c.v + r = 0 then 0 else L - (g * c.v + r)) - L →
            s.y + (if g * c.v + r = 0 then 0 else L - (g * c.v + r)) + L + (n - (if g * c.v + r = 0 then 0 else L - (g * c.v + r)) - L) = s.y + n →
            CInv c (cskipTail c s (s.y + (if g * c.v + r = 0 then 0 else L - (g * c.v + r)) + L) (n - (if g * c.v + r = 0 then 0 else L - (g * c.v + r)) - L)) ∧
            (cskipTail c s (s.y + (if g * c.v + r = 0 then 0 else L - (g * c.v + r)) + L) (n - (if g * c.v + r = 0 then 0 else L - (g * c.v + r)) - L)).y = s.y + n := by
          intro a' e1 e2 e3 e4
          obtain ⟨j1, j2⟩ := cskipTail_spec c hM hv s _ _ a' e2 e1 hic e3 (by rw [e4]; omega)
          exact ⟨j1, by rw [j2, e4]⟩
        have tailHere : ∀ a', s.irow = a' → s.y + (if g * c.v + r = 0 then 0 else L - (g * c.v + r)) = lineOf c a' 0 0 →
            1 ≤ n - (if g * c.v + r = 0 then 0 else L - (g * c.v + r)) →
            s.y + (if g * c.v + r = 0 then 0 else L - (g * c.v + r)) + (n - (if g * c.v + r = 0 then 0 else L - (g * c.v + r))) = s.y + n →
            CInv c (cskipTail c s (s.y + (if g * c.v + r = 0 then 0 else L - (g * c.v + r))) (n - (if g * c.v + r = 0 then 0 else L - (g * c.v + r)))) ∧
            (cskipTail c s (s.y + (if g * c.v + r = 0 then 0 else L - (g * c.v + r))) (n - (if g * c.v + r = 0 then 0 else L - (g * c.v + r)))).y = s.y + n := by
          intro a' e1 e2 e3 e4
          obtain ⟨j1, j2⟩ := cskipTail_spec c hM hv s _ _ a' e2 e1 hic e3 (by rw [e4]; omega)
          exact ⟨j1, by rw [j2, e4]⟩
        rcases hc with ⟨x1, x2, x3, x4, x5, x6, x7, x8⟩ | ⟨x1, x2, x3, x4, x5, x6, x7, x8, x9, x10⟩ |
            ⟨x1, x2, x3, x4, x5, x6, x7, x8, x9, x10, x11⟩ | ⟨x1, x2, x3, x4, x5, x6⟩ | ⟨x1, x2, x3, x4, x5, x6, x7⟩
        · -- CTX_PROCESS_IMCU
          obtain ⟨_, _, bt3, bt4⟩ := bottom_facts c (by omega) hv a g r hr (by rw [← hy]; omega) hg
          by_cases hT : a + 1 = c.T
          · exfalso
            obtain ⟨_, b2⟩ := bt4 hT
            have hbv : c.bottomAvail * c.v ≤ c.M * c.v := Nat.mul_le_mul_right _ bt3
            simp only [lineOf] at b2
            rw [hLL] at b2 hbv
            by_cases h0 : g * c.v + r = 0
            · rw [if_pos h0] at hc1 hc2
              apply hc2
              exact ⟨hv, x2, by omega⟩
            · rw [if_neg h0] at hc1
              omega
          · have hav : s.avail = c.M - 1 := by rw [x7]; unfold availOf; rw [if_neg hT]
            have hgv : (g + 1) * c.v ≤ (c.M - 1) * c.v := Nat.mul_le_mul_right _ (by omega)
            rw [Nat.succ_mul] at hgv
            by_cases h0 : g * c.v + r = 0
            · rw [if_pos h0] at hc1 hc2 ⊢
              have hnx : (decide (0 < c.v) && s.bf) = true := by simp [hv, x2]
              rw [if_pos hnx]
              have hn : ¬ n - 0 < L + 1 := fun h => hc2 ⟨hv, x2, h⟩
              have := tailNext (a + 1) x4 (by rw [if_pos h0, hnext1]; omega) (by rw [if_pos h0]; omega) (by rw [if_pos h0]; omega)
              rw [if_pos h0] at this
              exact ⟨this.1, rfl, this.2⟩
            · rw [if_neg h0] at hc1 hc2 ⊢
              have hnx : ¬ (decide (L - (g * c.v + r) < c.v) && s.bf) = true := by
                have : ¬ L - (g * c.v + r) < c.v := by omega
                simp [this]
              rw [if_neg hnx]
              have := tailHere (a + 1) x4 (by rw [if_neg h0, hnext1]; omega) (by rw [if_neg h0]; omega) (by rw [if_neg h0]; omega)
              rw [if_neg h0] at this
              exact ⟨this.1, rfl, this.2⟩
        · -- postponed row group, next iMCU row not decoded
          subst x3; subst x4
          have h0 : ¬ (c.M - 1) * c.v + 0 = 0 := by
            have : 0 < (c.M - 1) * c.v := Nat.mul_pos (by omega) hv
            omega
          rw [if_neg h0] at hc1 hc2 ⊢
          have hnx : ¬ (decide (L - ((c.M - 1) * c.v + 0) < c.v) && s.bf) = true := by simp [x2]
          rw [if_neg hnx]
          have := tailHere (a + 1) x9 (by rw [if_neg h0, hnext1]; omega) (by rw [if_neg h0]; omega) (by rw [if_neg h0]; omega)
          rw [if_neg h0] at this
          exact ⟨this.1, rfl, this.2⟩
        · -- postponed row group partly delivered: the next iMCU row is in the buffer and is skipped as a whole
          subst x3
          have h0 : ¬ (c.M - 1) * c.v + r = 0 := by omega
          rw [if_neg h0] at hc1 hc2 ⊢
          have hlt : L - ((c.M - 1) * c.v + r) < c.v := by omega
          have hnx : (decide (L - ((c.M - 1) * c.v + r) < c.v) && s.bf) = true := by simp [hlt, x2]
          rw [if_pos hnx]
          have hn : ¬ n - (L - ((c.M - 1) * c.v + r)) < L + 1 := fun h => hc2 ⟨hlt, x2, h⟩
          have := tailNext (a + 2) x10 (by rw [if_neg h0, hnext2]; omega) (by rw [if_neg h0]; omega) (by rw [if_neg h0]; omega)
          rw [if_neg h0] at this
          exact ⟨this.1, rfl, this.2⟩
        · -- on an iMCU row boundary, nothing decoded
          subst x3; subst x4
          have h0 : 0 * c.v + 0 = 0 := by simp
          rw [if_pos h0] at hc1 hc2 ⊢
          have hnx : ¬ (decide (0 < c.v) && s.bf) = true := by simp [x2]
          rw [if_neg hnx]
          have := tailHere a x6 (by rw [if_pos h0, hy]; rfl) (by rw [if_pos h0]; omega) (by rw [if_pos h0]; omega)
          rw [if_pos h0] at this
          exact ⟨this.1, rfl, this.2⟩
        · -- on an iMCU row boundary with that iMCU row decoded: it is skipped as a whole
          subst x3; subst x4
          have h0 : 0 * c.v + 0 = 0 := by simp
          rw [if_pos h0] at hc1 hc2 ⊢
          have hnx : (decide (0 < c.v) && s.bf) = true := by simp [hv, x2]
          rw [if_pos hnx]
          have hn : ¬ n - 0 < L + 1 := fun h => hc2 ⟨hv, x2, h⟩
          have := tailNext (a + 1) x7 (by rw [if_pos h0, hnext1]; omega) (by rw [if_pos h0]; omega) (by rw [if_pos h0]; omega)
          rw [if_pos h0] at this
          exact ⟨this.1, rfl, this.2⟩


theorem cstep_spec (c : Cfg) (hM : 2 ≤ c.M) (hv : 0 < c.v) (s : CSt) (call : Call) (hinv : CInv c s) :
    CInv c (cstep c s call).1 ∧ s.y ≤ (cstep c s call).1.y ∧ (∀ ip ∈ (cstep c s call).2.1, RowOK c s.y ip) := by
  cases call with
  | sk n =>
    obtain ⟨h1, _, h3⟩ := cskip_spec c hM hv s n hinv
    refine ⟨h1, by show s.y ≤ (cskip c s n).1.y; rw [h3]; omega, ?_⟩
    intro ip hip
    simp [cstep] at hip
  | rd n =>
    by_cases hH : c.H ≤ s.y
    · have e : cread c s n = (s, []) := by simp [cread, hH]
      simp only [cstep, e]
      exact ⟨hinv, Nat.le_refl _, by intro ip hip; simp at hip⟩
    · by_cases hn : n = 0
      · have e : cread c s n = (s, []) := by simp [cread, hH, hn]
        simp only [cstep, e]
        exact ⟨hinv, Nat.le_refl _, by intro ip hip; simp at hip⟩
      · obtain ⟨q1, q2, q3, q4, q5⟩ := cread_spec c hM hv s n 0 hinv (by omega) (by omega) (Or.inl rfl)
        have hle : (cread c s n).1.y ≤ c.H := q4.1
        refine ⟨q4, by show s.y ≤ (cread c s n).1.y; omega, ?_⟩
        intro ip hip
        simp only [cstep, List.mem_map] at hip
        obtain ⟨⟨p, i⟩, hmem, e⟩ := hip
        obtain ⟨m1, m2, m3⟩ := List.mem_zipIdx hmem
        subst e
        obtain ⟨r1, r2, r3⟩ := q3 (i - s.y) (by omega)
        rw [← m3] at r1 r2 r3
        exact ⟨r1, r2, by show Prov.line c p = i; rw [r3]; omega, m1, by omega⟩

theorem crun_spec (c : Cfg) (hM : 2 ≤ c.M) (hv : 0 < c.v) : ∀ (calls : List Call) (s : CSt), CInv c s →
    CInv c (crun c s calls).1 ∧ ∀ ip ∈ (crun c s calls).2, RowOK c s.y ip := by
  intro calls
  induction calls with
  | nil => intro s h; exact ⟨h, by intro ip hip; simp [crun] at hip⟩
  | cons a as ih =>
    intro s h
    obtain ⟨h1, h2, h3⟩ := cstep_spec c hM hv s a h
    obtain ⟨i1, i2⟩ := ih (cstep c s a).1 h1
    simp only [crun]
    refine ⟨i1, ?_⟩
    intro ip hip
    rcases List.mem_append.mp hip with h | h
    · exact h3 ip h
    · obtain ⟨q1, q2, q3, q4, q5⟩ := i2 ip h
      exact ⟨q1, q2, q3, by omega, q5⟩


theorem cfull_decode_gen (c : Cfg) (hM : 2 ≤ c.M) (hv : 0 < c.v) : ∀ (k : Nat) (s : CSt), CInv c s → s.y + k ≤ c.H →
    (crun c s (List.replicate k (.rd 1))).2.map (·.1) = List.range' s.y k ∧
    (crun c s (List.replicate k (.rd 1))).1.y = s.y + k := by
  intro k
  induction k with
  | zero => intro s _ _; simp [crun]
  | succ k ih =>
    intro s h hH
    obtain ⟨q1, q2, _, q4, q5⟩ := cread_spec c hM hv s 1 0 h (by omega) (by omega) (Or.inl rfl)
    have hl : (cread c s 1).2.length = 1 := by omega
    obtain ⟨i1, i2⟩ := ih (cread c s 1).1 q4 (by rw [q5, hl]; omega)
    simp only [List.replicate_succ, crun, cstep, List.map_append]
    rw [i1, q5, hl]
    refine ⟨?_, by rw [i2, q5, hl]; omega⟩
    obtain ⟨p, hp⟩ : ∃ p, (cread c s 1).2 = [p] := by
      match hh : (cread c s 1).2, hl with
      | [p], _ => exact ⟨p, rfl⟩
    rw [hp]
    simp [List.range'_succ]

end LJT.Skip
