import LJT.Proofs.HuffOpt1
/-! K.2 generator, part 2: structural invariants of the forest (weights, slots, Kraft equality per tree). -/
set_option maxRecDepth 20000
namespace LJT.Huff

def wsum (ts : List Tree) : Nat := (ts.map (·.w)).sum
def slots (ts : List Tree) : List Nat := (ts.flatMap (·.mem)).map (·.1)
def kr (m : List (Nat × Nat)) : Nat := (m.map (fun p => 2 ^ (300 - p.2))).sum

theorem perm_wsum {l1 l2 : List Tree} (p : l1.Perm l2) : wsum l1 = wsum l2 := by
  induction p with
  | nil => rfl
  | cons x _ ih => simp only [wsum, List.map_cons, List.sum_cons] at *; omega
  | swap x y l => simp only [wsum, List.map_cons, List.sum_cons]; omega
  | trans _ _ ih1 ih2 => omega

theorem perm_slots {l1 l2 : List Tree} (p : l1.Perm l2) : (slots l1).Perm (slots l2) :=
  (p.flatMap_right _).map _

theorem bump_fst (m : List (Nat × Nat)) : (bump m).map (·.1) = m.map (·.1) := by
  simp [bump, List.map_map, Function.comp_def]

theorem kr_append (m1 m2 : List (Nat × Nat)) : kr (m1 ++ m2) = kr m1 + kr m2 := by
  simp [kr, List.sum_append]

theorem kr_bump (m : List (Nat × Nat)) (h : ∀ p ∈ m, p.2 < 300) : kr (bump m) * 2 = kr m := by
  induction m with
  | nil => rfl
  | cons p m ih =>
    have hp := h p (by simp)
    have ih' := ih (fun q hq => h q (by simp [hq]))
    simp only [kr, bump, List.map_cons, List.sum_cons] at *
    have e : 300 - p.2 = (300 - (p.2 + 1)) + 1 := by omega
    rw [e, Nat.pow_succ]
    rw [Nat.add_mul, ih']

structure Inv (n W : Nat) (ts : List Tree) : Prop where
  wf : WF ts
  wsum_eq : wsum ts = W
  slots_perm : (slots ts).Perm (List.range n)
  kraft : ∀ t ∈ ts, kr t.mem = 2 ^ 300
  depth : ∀ t ∈ ts, ∀ p ∈ t.mem, p.2 + ts.length ≤ n

theorem mem_mergeTrees {a b : Tree} {p : Nat × Nat} (hp : p ∈ (mergeTrees a b).mem) :
    ∃ q, (q ∈ a.mem ∨ q ∈ b.mem) ∧ p = (q.1, q.2 + 1) := by
  simp only [mergeTrees, bump, List.mem_map, List.mem_append] at hp
  obtain ⟨q, hq, e⟩ := hp
  exact ⟨q, hq, e.symm⟩

theorem Inv.step {n W : Nat} {ts : List Tree} (hn : n ≤ 257) (hW : W ≤ FREQ_LIMIT) (h : Inv n W ts)
    (hlen : 2 ≤ ts.length) :
    ∃ a b rest ts', mergeStep ts = some ts' ∧ Inv n W ts' ∧ ts.Perm (a :: b :: rest) ∧
      ts'.Perm (mergeTrees a b :: rest) ∧ key a < key b ∧ (∀ t ∈ rest, key b < key t) ∧
      ts'.length + 1 = ts.length := by
  obtain ⟨a, b, ha, hb, hab, hmin, hstep⟩ := mergeStep_spec ts h.wf hlen
  have hne : a ≠ b := fun e => by subst e; omega
  obtain ⟨rest, p1, p2⟩ := mergeStep_perm ts h.wf a b ha hb hne
  have hnd : (a :: b :: rest).Nodup := (p1.nodup_iff).1 h.wf.nodup
  have hrest_mem : ∀ t ∈ rest, t ∈ ts ∧ t ≠ a ∧ t ≠ b := by
    intro t ht
    refine ⟨p1.mem_iff.2 (by simp [ht]), ?_, ?_⟩
    · intro e; subst e; simp at hnd; exact hnd.1.2 ht
    · intro e; subst e; simp at hnd; exact hnd.2.1 ht
  have hlen' : ((ts.erase b).map (repl a b)).length + 1 = ts.length := by
    rw [List.length_map, List.length_erase_of_mem hb]; omega
  have hws : a.w + b.w + wsum rest = W := by
    have := perm_wsum p1
    rw [h.wsum_eq] at this
    simp only [wsum, List.map_cons, List.sum_cons] at this ⊢
    omega
  refine ⟨a, b, rest, _, hstep, ?_, p1, p2, hab, ?_, hlen'⟩
  · -- the invariant after the step
    have repl_idx : ∀ t, (repl a b t).idx = t.idx := by
      intro t; unfold repl; split
      · rename_i e; simp [mergeTrees, e]
      · rfl
    have hwf' : WF ((ts.erase b).map (repl a b)) := by
      refine ⟨?_, ?_, ?_, ?_⟩
      · apply List.Pairwise.map (repl a b) _ (h.wf.sorted.erase b)
        intro x y hxy; rw [repl_idx, repl_idx]; exact hxy
      · intro t ht
        obtain ⟨u, hu, e⟩ := List.mem_map.1 ht
        rw [← e, repl_idx]; exact h.wf.idx_lt u (List.mem_of_mem_erase hu)
      · intro t ht
        rcases (p2.mem_iff.1 ht) with _ | ⟨_, ht'⟩
        · have := h.wf.w_pos a ha; simp [mergeTrees]; omega
        · exact h.wf.w_pos t (hrest_mem t ht').1
      · intro t ht
        rcases (p2.mem_iff.1 ht) with _ | ⟨_, ht'⟩
        · simp only [mergeTrees]; omega
        · exact h.wf.w_le t (hrest_mem t ht').1
    refine ⟨hwf', ?_, ?_, ?_, ?_⟩
    · rw [perm_wsum p2]
      simp only [wsum, List.map_cons, List.sum_cons, mergeTrees] at hws ⊢
      omega
    · have q1 := perm_slots p2
      have q2 := perm_slots p1
      refine q1.trans (List.Perm.trans ?_ (q2.symm.trans h.slots_perm))
      simp only [slots, List.flatMap_cons, List.map_append, mergeTrees, bump_fst, List.append_assoc]
      exact List.Perm.refl _
    · intro t ht
      rcases (p2.mem_iff.1 ht) with _ | ⟨_, ht'⟩
      · have ka := h.kraft a ha
        have kb := h.kraft b hb
        have hd : ∀ p ∈ a.mem ++ b.mem, p.2 < 300 := by
          intro p hp
          rcases List.mem_append.1 hp with hp | hp
          · have := h.depth a ha p hp; omega
          · have := h.depth b hb p hp; omega
        have := kr_bump (a.mem ++ b.mem) hd
        rw [kr_append, ka, kb] at this
        simp only [mergeTrees]
        omega
      · exact h.kraft t (hrest_mem t ht').1
    · intro t ht p hp
      rcases (p2.mem_iff.1 ht) with _ | ⟨_, ht'⟩
      · obtain ⟨q, hq, e⟩ := mem_mergeTrees hp
        rw [e]
        rcases hq with hq | hq
        · have := h.depth a ha q hq; simp only; omega
        · have := h.depth b hb q hq; simp only; omega
      · have := h.depth t (hrest_mem t ht').1 p hp; omega
  · intro t ht
    obtain ⟨h1, h2, h3⟩ := hrest_mem t ht
    rcases hmin t h1 with e | e | e
    · exact absurd e h2
    · exact absurd e h3
    · exact e

theorem mergeAll_final {n W : Nat} (hn : n ≤ 257) (hW : W ≤ FREQ_LIMIT) :
    ∀ (fuel : Nat) (ts : List Tree), Inv n W ts → 1 ≤ ts.length → ts.length ≤ fuel + 1 →
      ∃ T, mergeAll fuel ts = [T] ∧ Inv n W [T] := by
  intro fuel
  induction fuel with
  | zero =>
    intro ts h h1 h2
    match ts, h, h1, h2 with
    | [], _, h1, _ => simp at h1
    | [T], h, _, _ => exact ⟨T, rfl, h⟩
    | _ :: _ :: _, _, _, h2 => simp at h2
  | succ f ih =>
    intro ts h h1 h2
    by_cases hl : 2 ≤ ts.length
    · obtain ⟨a, b, rest, ts', hs, hi, _, _, _, _, hl'⟩ := h.step hn hW hl
      simp only [mergeAll, hs]
      exact ih ts' hi (by omega) (by omega)
    · have hnone := mergeStep_none ts h.wf (by omega)
      simp only [mergeAll, hnone]
      match ts, h, h1, hl with
      | [], _, h1, _ => simp at h1
      | [T], h, _, _ => exact ⟨T, rfl, h⟩
      | _ :: _ :: _, _, _, hl => simp at hl

end LJT.Huff
