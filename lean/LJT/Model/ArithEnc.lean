import LJT.Model.Arith
import LJT.Model.ProgHuff
/-! The arithmetic *encoder* of src/jcarith.c: the QM coder of T.81 Annex D as coded
(`arith_encode`, `finish_pass`: carry propagation over the buffered byte, stacked 0xFF bytes and
pending zero bytes, "Pacman" termination) and the binarisation of coefficients into binary
decisions (`encode_mcu`, `encode_mcu_DC_first`, `encode_mcu_AC_first`, `encode_mcu_DC_refine`,
`encode_mcu_AC_refine`), plus the file layout of arithmetic-coded files (SOF9 / SOF10, DAC before
every scan, no DHT).  The binarisation is a pure function from coefficients to a list of
(statistics bin, decision) pairs; the coder folds over that list.  Bin numbering is that of
`Model/Arith.lean` (the decoder model). -/
namespace LJT.ArithEnc
open LJT LJT.Arith LJT.T81 LJT.T81Enc

/-- a binary decision: statistics bin and value -/
abbrev Dn := Nat × Nat

structure ES where
  c : Nat
  a : Nat
  sc : Nat
  zc : Nat
  ct : Nat
  buffer : Int
  out : Array Nat
  stats : Array Nat

def freshStats : Array Nat := (Array.replicate 5121 0).set! fixedBin 113

def ES.init : ES := ⟨0, 0x10000, 0, 0, 11, -1, #[], freshStats⟩

def put (s : ES) (b : Nat) : ES := { s with out := s.out.push (b % 256) }

/-- `if (e->zc) do emit_byte(0x00) while (--e->zc);` -/
def putZeros (s : ES) : ES := { s with out := s.out ++ Array.replicate s.zc 0, zc := 0 }

/-- a carry reaches the buffered byte: it is output incremented, the stacked 0xFF bytes turn into zeros -/
def outCarry (s : ES) : ES :=
  let s := if s.buffer ≥ 0 then
      let s := putZeros s
      let b := s.buffer.toNat + 1
      let s := put s b
      if b == 0xFF then put s 0 else s
    else s
  { s with zc := s.zc + s.sc, sc := 0 }

/-- no carry can reach them any more: the buffered byte and the stacked 0xFF bytes are output -/
def outPlain (s : ES) : ES :=
  let s := if s.buffer == 0 then { s with zc := s.zc + 1 }
           else if s.buffer ≥ 0 then put (putZeros s) s.buffer.toNat else s
  if s.sc != 0 then
    let s := putZeros s
    { s with out := s.out ++ (Array.replicate s.sc #[0xFF, 0x00]).flatten, sc := 0 }
  else s

/-- renormalisation and byte output (D.1.6) -/
def renormE : Nat → ES → ES
  | 0, s => s
  | f + 1, s =>
    let s := { s with a := s.a * 2, c := s.c * 2, ct := s.ct - 1 }
    let s := if s.ct == 0 then
        let temp := s.c >>> 19
        let s := if temp > 0xFF then { outCarry s with buffer := ((temp % 256 : Nat) : Int) }
                 else if temp == 0xFF then { s with sc := s.sc + 1 }
                 else { outPlain s with buffer := ((temp % 256 : Nat) : Int) }
        { s with c := s.c &&& 0x7FFFF, ct := s.ct + 8 }
      else s
    if s.a < 0x8000 then renormE f s else s

/-- `arith_encode` -/
def encode (s : ES) (d : Dn) : ES :=
  let st := d.1
  let sv := s.stats.getD st 0
  let q := Gen.aritab.getD (sv % 128) 0
  let nl := q % 256
  let nm := (q / 256) % 256
  let qe := q / 65536
  let a := s.a - qe
  if d.2 != sv / 128 then
    let ca := if a ≥ qe then (s.c + a, qe) else (s.c, a)
    renormE 20 { s with c := ca.1, a := ca.2, stats := s.stats.setIfInBounds st (((sv / 128) * 128) ^^^ nl) }
  else if a ≥ 0x8000 then { s with a := a }
  else
    let ca := if a < qe then (s.c + a, qe) else (s.c, a)
    renormE 20 { s with c := ca.1, a := ca.2, stats := s.stats.setIfInBounds st (((sv / 128) * 128) ^^^ nm) }

/-- `finish_pass` (D.1.8 with discarding of final zero bytes) -/
def finish (s : ES) : ES :=
  let temp := (s.a - 1 + s.c) &&& 0xFFFF0000
  let c := if temp < s.c then temp + 0x8000 else temp
  let c := c <<< s.ct
  let s := { s with c := c }
  let s := if c &&& 0xF8000000 != 0 then outCarry s else outPlain s
  if c &&& 0x7FFF800 != 0 then
    let s := putZeros s
    let b1 := (c >>> 19) % 256
    let s := put s b1
    let s := if b1 == 0xFF then put s 0 else s
    if c &&& 0x7F800 != 0 then
      let b2 := (c >>> 11) % 256
      let s := put s b2
      if b2 == 0xFF then put s 0 else s
    else s
  else s

/-- the bytes of one restart interval coded from a decision list -/
def codeInterval (ds : List Dn) : List Nat := (finish (ds.foldl encode ES.init)).out.toList

/-! ### binarisation -/

/-- Figure F.8 / F.9 for a DC difference magnitude `v1 = |v| - 1`, first bin `st`: decisions,
`m` (the category mask) -/
def dcMag (tbl st v1 : Nat) : List Dn × Nat :=
  if v1 == 0 then ([(st, 0)], 0)
  else
    let n := Nat.log2 v1
    let x1 := dcBase tbl + 20
    let un := (st, 1) :: (List.range n).map (fun i => (x1 + i, 1))
    let stF := if n == 0 then x1 else x1 + n
    let bits := (List.range n).map (fun i => (stF + 14, (v1 >>> (n - 1 - i)) % 2))
    (un ++ [(stF, 0)] ++ bits, 2 ^ n)

/-- Figure F.4: a DC difference with conditioning context `ctx`: decisions and the new context -/
def dcDiff (tbl ctx L U : Nat) (v : Int) : List Dn × Nat :=
  let st := dcBase tbl + ctx
  if v == 0 then ([(st, 0)], 0)
  else
    let neg := decide (v < 0)
    let st2 := st + (if neg then 3 else 2)
    let ctx1 := if neg then 8 else 4
    let mg := dcMag tbl st2 (v.natAbs - 1)
    let m := mg.2
    let ctx' := if m < (2 ^ L) / 2 then 0 else if m > (2 ^ U) / 2 then ctx1 + 8 else ctx1
    ((st, 1) :: (st + 1, if neg then 1 else 0) :: mg.1, ctx')

/-- sign and magnitude of a nonzero AC coefficient at zigzag position `k` whose run bins start at `st` -/
def acVal (tbl K k st : Nat) (neg : Bool) (av : Nat) : List Dn :=
  let st2 := st + 2
  let v1 := av - 1
  let hd : List Dn := [(st + 1, 1), (fixedBin, if neg then 1 else 0)]
  if v1 == 0 then hd ++ [(st2, 0)]
  else
    let n := Nat.log2 v1
    if n == 0 then hd ++ [(st2, 1), (st2, 0)]
    else
      let x := acBase tbl + (if k ≤ K then 189 else 217)
      let un := (List.range (n - 1)).map (fun i => (x + i, 1))
      let stF := x + (n - 1)
      let bits := (List.range n).map (fun i => (stF + 14, (v1 >>> (n - 1 - i)) % 2))
      hd ++ [(st2, 1), (st2, 1)] ++ un ++ [(stF, 0)] ++ bits

/-- index of the last coefficient with nonzero magnitude among zigzag positions 1..se (0 if none) -/
def lastNz (mag : Nat → Nat) (se : Nat) : Nat :=
  ((List.range se).map (· + 1)).foldl (fun acc k => if mag k != 0 then k else acc) 0

/-- Figure F.5: the AC coefficients `ss..se` of a block; `mag k`, `neg k` = magnitude (after the
point transform) and sign of the coefficient at zigzag position `k` -/
def acFirst (tbl K ss se : Nat) (mag : Nat → Nat) (neg : Nat → Bool) : List Dn := Id.run do
  let ke := lastNz mag se
  let mut out : List Dn := []
  let mut k := ss
  let mut fuel := 70
  while k ≤ ke && fuel > 0 do
    fuel := fuel - 1
    let mut st := acBase tbl + 3 * (k - 1)
    out := out ++ [(st, 0)]
    let mut f2 := 70
    while mag k == 0 && f2 > 0 do
      f2 := f2 - 1
      out := out ++ [(st + 1, 0)]
      st := st + 3
      k := k + 1
    out := out ++ acVal tbl K k st (neg k) (mag k)
    k := k + 1
  if k ≤ se then out := out ++ [(acBase tbl + 3 * (k - 1), 1)]
  return out

/-- Figure G.10: AC refinement; `mag` at level Al, `magH` at level Ah -/
def acRefine (tbl ss se : Nat) (mag magH : Nat → Nat) (neg : Nat → Bool) : List Dn := Id.run do
  let ke := lastNz mag se
  let kex := lastNz magH ke
  let mut out : List Dn := []
  let mut k := ss
  let mut fuel := 70
  while k ≤ ke && fuel > 0 do
    fuel := fuel - 1
    let mut st := acBase tbl + 3 * (k - 1)
    if k > kex then out := out ++ [(st, 0)]
    let mut f2 := 70
    while mag k == 0 && f2 > 0 do
      f2 := f2 - 1
      out := out ++ [(st + 1, 0)]
      st := st + 3
      k := k + 1
    let v := mag k
    if v / 2 != 0 then out := out ++ [(st + 2, v % 2)]
    else out := out ++ [(st + 1, 1), (fixedBin, if neg k then 1 else 0)]
    k := k + 1
  if k ≤ se then out := out ++ [(acBase tbl + 3 * (k - 1), 1)]
  return out

/-! ### scans -/

/-- decisions of one scan, one list per restart interval.  `scs`: (frame component index, dc table,
ac table); `prog` = progressive process -/
def scanDecisions (f : Frame) (hmax vmax : Nat) (coef : Nat → Nat → Nat → Nat → Int) (prog : Bool)
    (scs : List (Nat × Nat × Nat)) (ss se ah al ri : Nat) : List (List Dn) := Id.run do
  let ns := scs.length
  let compOf := fun (i : Nat) => f.comps.getD i ⟨0, 1, 1, 0⟩
  let c0 := compOf (scs.headD (0, 0, 0)).1
  let single := ns == 1
  let mcusX := if single then ceilDiv (ceilDiv (f.width * c0.h) hmax) 8 else ceilDiv f.width (8 * hmax)
  let mcusY := if single then ceilDiv (ceilDiv (f.height * c0.v) vmax) 8 else ceilDiv f.height (8 * vmax)
  let total := mcusX * mcusY
  let mut ivs : Array (List Dn) := #[]
  let mut cur : Array (List Dn) := #[]
  let mut lastDC : Array Int := Array.replicate 4 0
  let mut ctx : Array Nat := Array.replicate 4 0
  let mut togo := ri
  for m in [0:total] do
    if ri != 0 then
      if togo == 0 then
        ivs := ivs.push cur.toList.flatten
        cur := #[]
        lastDC := Array.replicate 4 0
        ctx := Array.replicate 4 0
        togo := ri
      togo := togo - 1
    let my := m / mcusX
    let mx := m % mcusX
    let mut prevDC : Int := 0
    for i in [0:ns] do
      let (ci, dtbl, atbl) := scs.getD i (0, 0, 0)
      let c := compOf ci
      let wb := ceilDiv (ceilDiv (f.width * c.h) hmax) 8
      let hb := ceilDiv (ceilDiv (f.height * c.v) vmax) 8
      let bh := if single then 1 else c.h
      let bv := if single then 1 else c.v
      for by_ in [0:bv] do
        for bx in [0:bh] do
          let real := decide (my * bv + by_ < hb) && decide (mx * bh + bx < wb)
          let zzb : List Int := if real then ProgHuff.blockZZ coef ci (my * bv + by_) (mx * bh + bx) else prevDC :: List.replicate 63 0
          let dc := zzb.headD 0
          prevDC := dc
          let mag := fun (k : Nat) => (zzb.getD k 0).natAbs / 2 ^ al
          let magH := fun (k : Nat) => (zzb.getD k 0).natAbs / 2 ^ ah
          let neg := fun (k : Nat) => decide (zzb.getD k 0 < 0)
          if !prog then
            let (ds, cx) := dcDiff dtbl (ctx.getD i 0) 0 1 (dc - lastDC.getD i 0)
            if dc - lastDC.getD i 0 != 0 then lastDC := lastDC.setIfInBounds i dc
            ctx := ctx.setIfInBounds i cx
            cur := cur.push (ds ++ acFirst atbl 5 1 63 mag neg)
          else if ss == 0 then
            if ah == 0 then
              let mval := ProgHuff.asr dc al
              let (ds, cx) := dcDiff dtbl (ctx.getD i 0) 0 1 (mval - lastDC.getD i 0)
              if mval - lastDC.getD i 0 != 0 then lastDC := lastDC.setIfInBounds i mval
              ctx := ctx.setIfInBounds i cx
              cur := cur.push ds
            else
              cur := cur.push [(fixedBin, ((ProgHuff.asr dc al) % 2).toNat)]
          else
            if ah == 0 then cur := cur.push (acFirst atbl 5 ss se mag neg)
            else cur := cur.push (acRefine atbl ss se mag magH neg)
  ivs := ivs.push cur.toList.flatten
  return ivs.toList

/-- `c03_script` of the harness, sequential branch: the components in order, partitioned into scans -/
def seqScript (seed nc : Nat) (mix : Nat → Nat) : List (List Nat × Nat × Nat × Nat × Nat) := Id.run do
  let mut s := seed
  let mut out : Array (List Nat × Nat × Nat × Nat × Nat) := #[]
  let mut ci := 0
  for _ in [0:nc] do
    if ci < nc then
      s := mix s
      let take := min (1 + s % (nc - ci)) 4
      out := out.push ((List.range take).map (· + ci), 0, 63, 0, 0)
      ci := ci + take
  return out.toList

/-- the whole arithmetic-coded file libjpeg-turbo writes -/
def encodeFile (w h : Nat) (comps : List (Nat × Nat)) (qs : List (List Nat)) (ri : Nat) (prog : Bool)
    (script : List (List Nat × Nat × Nat × Nat × Nat)) (coef : Nat → Nat → Nat → Nat → Int) : List Nat := Id.run do
  let nc := comps.length
  let cls := fun (i : Nat) => if nc == 1 then 0 else min i 1
  let ncls := if nc == 1 then 1 else 2
  let o : Opts := { q16 := false, joinTables := false, fill := false, driPos := 2, split := false, tblShift := 0, ri := ri }
  let sof := if prog then 0xCA else 0xC9
  let f : Frame := ⟨sof, 8, h, w, (List.range nc).map (fun i => ⟨i + 1, (comps.getD i (1, 1)).1, (comps.getD i (1, 1)).2, cls i⟩)⟩
  let hmax := f.comps.foldl (fun a c => max a c.h) 1
  let vmax := f.comps.foldl (fun a c => max a c.v) 1
  let mut s : List Nat := [0xFF, 0xD8, 0xFF, 0xE0, 0, 16, 0x4A, 0x46, 0x49, 0x46, 0, 1, 1, 0, 0, 1, 0, 1, 0, 0]
  for k in [0:ncls] do s := s ++ marker o 0xDB (dqtPayload o k (qs.getD k []))
  s := s ++ marker o sof ([8] ++ be16 h ++ be16 w ++ [nc] ++ f.comps.flatMap (fun c => [c.id, c.h * 16 + c.v, c.tq]))
  let mut driSent := false
  for (cis, ss, se, ah, al) in script do
    let scs := cis.map (fun ci => (ci, cls ci, cls ci))
    -- DAC: conditioning of every table the scan uses (`emit_dac`), defaults L = 0, U = 1, K = 5
    let dcUse := fun (t : Nat) => ss == 0 && ah == 0 && cis.any (fun ci => cls ci == t)
    let acUse := fun (t : Nat) => se != 0 && cis.any (fun ci => cls ci == t)
    let dac := (List.range 16).flatMap (fun t => (if dcUse t then [t, 0x10] else []) ++ (if acUse t then [t + 0x10, 5] else []))
    if !dac.isEmpty then s := s ++ marker o 0xCC dac
    if ri != 0 && !driSent then
      s := s ++ marker o 0xDD (be16 ri)
      driSent := true
    let hdr := [cis.length] ++ cis.flatMap (fun ci =>
        [ci + 1, (if ss == 0 && ah == 0 then cls ci else 0) * 16 + (if se != 0 then cls ci else 0)]) ++ [ss, se, ah * 16 + al]
    s := s ++ marker o 0xDA hdr
    let ivs := scanDecisions f hmax vmax coef prog scs ss se ah al ri
    s := s ++ ProgHuff.joinRstBytes 0 (ivs.map codeInterval)
  return s ++ [0xFF, 0xD9]

end LJT.ArithEnc
