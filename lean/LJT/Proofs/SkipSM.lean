import LJT.Model.SkipSM
namespace LJT.Skip

/-- position `(a, g, r)` = iMCU row, row group, row within the group -/
def lineOf (c : Cfg) (a g r : Nat) : Nat := a * (c.M * c.v) + g * c.v + r

/-- the invariant between the counters, the ghost fields and the output position; `strong` = as it holds between
API calls (a full main buffer has had at least one row delivered from it) -/
def InvW (strong : Bool) (c : Cfg) (s : St) : Prop :=
  s.y ≤ c.H ∧ (s.y < c.H → ∃ a g r, g < c.M ∧ r < c.v ∧ s.y = lineOf c a g r ∧ s.rtg = c.H - s.y ∧
    ((s.nro < c.v ∧ s.nro = r ∧ s.bf = true ∧ s.bufRow = a ∧ s.cbRow = a ∧ s.cbRg = g ∧ s.rg = g ∧ s.irow = a + 1 ∧
        0 < r)
     ∨ (s.nro = c.v ∧ r = 0 ∧ s.bf = true ∧ s.bufRow = a ∧ s.rg = g ∧ s.irow = a + 1 ∧ (strong = true → g ≠ 0))
     ∨ (s.nro = c.v ∧ r = 0 ∧ g = 0 ∧ s.bf = false ∧ s.rg = 0 ∧ s.irow = a)))

theorem InvW.weaken {c : Cfg} {s : St} (h : InvW true c s) : InvW false c s := by
  obtain ⟨h1, h2⟩ := h
  refine ⟨h1, fun hy => ?_⟩
  obtain ⟨a, g, r, hg, hr, hy', hrtg, hc⟩ := h2 hy
  refine ⟨a, g, r, hg, hr, hy', hrtg, ?_⟩
  rcases hc with ⟨x1, x2, x3, x4, x5, x6, x7, x8, x9⟩ | ⟨x1, x2, x3, x4, x5, x6, _⟩ | x
  · exact Or.inl ⟨x1, x2, x3, x4, x5, x6, x7, x8, x9⟩
  · exact Or.inr (Or.inl ⟨x1, x2, x3, x4, x5, x6, fun h => by cases h⟩)
  · exact Or.inr (Or.inr x)

theorem init_inv (c : Cfg) (hM : 0 < c.M) (hv : 0 < c.v) : InvW true c (init c) := by
  refine ⟨Nat.zero_le _, fun _ => ⟨0, 0, 0, hM, hv, by simp [init, lineOf], by simp [init], ?_⟩⟩
  exact Or.inr (Or.inr ⟨rfl, rfl, rfl, rfl, rfl, rfl⟩)


/-- the state `prep` leaves: everything in place to deliver rows from position `(a, g, r)` -/
def Ready (c : Cfg) (s : St) (a g r : Nat) : Prop :=
  s.nro = r ∧ s.bf = true ∧ s.bufRow = a ∧ s.cbRow = a ∧ s.cbRg = g ∧ s.rg = g ∧ s.irow = a + 1

theorem prep_spec (c : Cfg) (s : St) (h : InvW false c s) (hy : s.y < c.H) :
    ∃ a g r, g < c.M ∧ r < c.v ∧ s.y = lineOf c a g r ∧ (prep c s).y = s.y ∧ (prep c s).rtg = c.H - s.y ∧
      Ready c (prep c s) a g r := by
  obtain ⟨a, g, r, hg, hr, hy', hrtg, hc⟩ := h.2 hy
  refine ⟨a, g, r, hg, hr, hy', ?_⟩
  rcases hc with ⟨x1, x2, x3, x4, x5, x6, x7, x8, _⟩ | ⟨x1, x2, x3, x4, x5, x6, _⟩ | ⟨x1, x2, x3, x4, x5, x6⟩
  · have : ¬ c.v ≤ r := by omega
    simp [prep, fillBuf, x3, this, Ready, x2, x4, x5, x6, x7, x8, hrtg]
  · simp [prep, fillBuf, x3, x1, Ready, x2, x4, x5, x6, hrtg]
  · simp [prep, fillBuf, x4, x1, Ready, x2, x3, x5, x6, hrtg]


theorem succ_mul_v (g v : Nat) : (g + 1) * v = g * v + v := Nat.succ_mul g v

theorem deliver_spec (c : Cfg) (s : St) (n a g r : Nat) (hg : g < c.M) (hr : r < c.v)
    (hy : s.y = lineOf c a g r) (hH : s.y < c.H) (hrtg : s.rtg = c.H - s.y) (hR : Ready c s a g r) (hn : 1 ≤ n) :
    ∃ k, 1 ≤ k ∧ k ≤ n ∧ r + k ≤ c.v ∧ (deliver c s n).2 = (List.range k).map (fun j => (a, g, r + j)) ∧
      (deliver c s n).1.y = s.y + k ∧ InvW true c (deliver c s n).1 := by
  obtain ⟨r1, r2, r3, r4, r5, r6, r7⟩ := hR
  refine ⟨min (min (c.v - r) (c.H - s.y)) n, by omega, by omega, by omega, ?_, ?_, ?_⟩
  · simp [deliver, r1, r4, r5, hrtg]
  · simp only [deliver, r1, hrtg]
    split <;> split <;> rfl
  · generalize hk : min (min (c.v - r) (c.H - s.y)) n = k
    have hk1 : 1 ≤ k := by omega
    have hk2 : r + k ≤ c.v := by omega
    have hk3 : k ≤ c.H - s.y := by omega
    by_cases hfull : r + k = c.v
    · by_cases hlast : g + 1 = c.M
      · -- the iMCU row is finished
        have hs : (deliver c s n).1 = { s with rtg := c.H - s.y - k, nro := c.v, bf := false, rg := 0, y := s.y + k } := by
          simp only [deliver, r1, hrtg, hk, r6]
          have h1 : c.v ≤ r + k := by omega
          have h2 : c.M ≤ g + 1 := by omega
          simp [h1, h2, hfull]
        rw [hs]
        refine ⟨by simp; omega, fun hlt => ⟨a + 1, 0, 0, by omega, by omega, ?_, by simp; omega, ?_⟩⟩
        · simp only [lineOf] at hy ⊢
          have e1 := succ_mul_v g c.v
          have e2 : c.M * c.v = g * c.v + c.v := by rw [← hlast]; exact e1
          have e3 := Nat.succ_mul a (c.M * c.v)
          simp only [Nat.succ_eq_add_one] at e3
          rw [e3, hy]; simp; omega
        · exact Or.inr (Or.inr ⟨rfl, rfl, rfl, rfl, rfl, r7⟩)
      · have hs : (deliver c s n).1 = { s with rtg := c.H - s.y - k, nro := c.v, rg := g + 1, y := s.y + k } := by
          simp only [deliver, r1, hrtg, hk, r6]
          have h1 : c.v ≤ r + k := by omega
          have h2 : ¬ c.M ≤ g + 1 := by omega
          simp [h1, h2, hfull]
        rw [hs]
        refine ⟨by simp; omega, fun hlt => ⟨a, g + 1, 0, by omega, by omega, ?_, by simp; omega, ?_⟩⟩
        · simp only [lineOf] at hy ⊢
          rw [succ_mul_v, hy]; simp; omega
        · exact Or.inr (Or.inl ⟨rfl, rfl, r2, r3, rfl, r7, fun _ => by omega⟩)
    · have hs : (deliver c s n).1 = { s with rtg := c.H - s.y - k, nro := r + k, y := s.y + k } := by
        simp only [deliver, r1, hrtg, hk, r6]
        have h1 : ¬ c.v ≤ r + k := by omega
        have h2 : ¬ c.M ≤ g := by omega
        simp [h1, h2]
      rw [hs]
      refine ⟨by simp; omega, fun hlt => ⟨a, g, r + k, hg, by omega, ?_, by simp; omega, ?_⟩⟩
      · simp only [lineOf] at hy ⊢
        rw [hy]; omega
      · exact Or.inl ⟨by simp; omega, rfl, r2, r3, r4, r5, r6, r7, by omega⟩


theorem read_spec (c : Cfg) (s : St) (n : Nat) (h : InvW false c s) (hH : s.y < c.H) (hn : 1 ≤ n) :
    ∃ a g r k, g < c.M ∧ r < c.v ∧ s.y = lineOf c a g r ∧ 1 ≤ k ∧ k ≤ n ∧ r + k ≤ c.v ∧
      (read c s n).2 = (List.range k).map (fun j => (a, g, r + j)) ∧
      (read c s n).1.y = s.y + k ∧ InvW true c (read c s n).1 := by
  obtain ⟨a, g, r, hg, hr, hy, py, prtg, hR⟩ := prep_spec c s h hH
  have hd := deliver_spec c (prep c s) n a g r hg hr (by rw [py]; exact hy) (by rw [py]; exact hH) (by rw [py]; exact prtg) hR hn
  obtain ⟨k, k1, k2, k3, k4, k5, k6⟩ := hd
  have e : read c s n = deliver c (prep c s) n := by
    have h1 : ¬ c.H ≤ s.y := by omega
    have h2 : ¬ n = 0 := by omega
    simp [read, h1, h2]
  refine ⟨a, g, r, k, hg, hr, hy, k1, k2, k3, by rw [e]; exact k4, by rw [e, k5, py], by rw [e]; exact k6⟩

theorem readDiscard_spec (c : Cfg) : ∀ (k : Nat) (s : St), InvW false c s → 1 ≤ k → s.y + k ≤ c.H →
    InvW true c (readDiscard c k s) ∧ (readDiscard c k s).y = s.y + k := by
  intro k
  induction k with
  | zero => intro s _ h; omega
  | succ k ih =>
    intro s h _ hH
    obtain ⟨a, g, r, k', _, _, _, k1, k2, _, _, hy, hinv⟩ := read_spec c s 1 h (by omega) (by omega)
    have hk' : k' = 1 := by omega
    subst hk'
    simp only [readDiscard]
    by_cases hk : k = 0
    · subst hk
      simp only [readDiscard]
      exact ⟨hinv, hy⟩
    · obtain ⟨i1, i2⟩ := ih (read c s 1).1 hinv.weaken (by omega) (by rw [hy]; omega)
      exact ⟨i1, by rw [i2, hy]; omega⟩

theorem lt_of_mul_v {x M v : Nat} (h : x * v < M * v) : x < M := Nat.lt_of_mul_lt_mul_right h

theorem jump_spec (c : Cfg) (s : St) (a g rows : Nat)
    (h1 : s.nro = c.v) (h2 : s.bf = true) (h3 : s.bufRow = a) (h4 : s.rg = g) (h5 : s.irow = a + 1)
    (hy : s.y = lineOf c a g 0) (hv : 0 < c.v) (hin : g * c.v + rows < c.M * c.v) (hH : s.y + rows < c.H)
    (hst : 0 < rows ∨ g ≠ 0) :
    InvW true c (jump c s rows) ∧ (jump c s rows).y = s.y + rows := by
  have hdm := Nat.div_add_mod rows c.v
  have hl := Nat.mod_lt rows hv
  generalize hq : rows / c.v = q at hdm
  generalize hlv : rows % c.v = l at hdm hl
  have hqv : c.v * q = q * c.v := Nat.mul_comm _ _
  have hgq : g + q < c.M := by
    apply lt_of_mul_v (v := c.v)
    rw [Nat.add_mul]; omega
  let m : St := { s with rg := g + q, y := s.y + q * c.v, rtg := c.H - (s.y + q * c.v) }
  have hm : jump c s rows = readDiscard c l m := by
    simp only [jump, hq, hlv, h4]
    have : rows - l = q * c.v := by omega
    rw [this]
  have hmy : m.y = lineOf c a (g + q) 0 := by
    show s.y + q * c.v = _
    simp only [lineOf] at hy ⊢
    rw [Nat.add_mul, hy]; omega
  have minv : ∀ b : Bool, (b = true → g + q ≠ 0) → InvW b c m := by
    intro b hb
    refine ⟨by show s.y + q * c.v ≤ c.H; omega, fun _ => ⟨a, g + q, 0, hgq, hv, hmy, rfl, ?_⟩⟩
    exact Or.inr (Or.inl ⟨h1, rfl, h2, h3, rfl, h5, hb⟩)
  rw [hm]
  by_cases hl0 : l = 0
  · subst hl0
    simp only [readDiscard]
    refine ⟨minv true (fun _ => ?_), by show s.y + q * c.v = _; omega⟩
    rcases hst with h | h
    · have : q ≠ 0 := by
        intro hq0; subst hq0; omega
      omega
    · omega
  · obtain ⟨i1, i2⟩ := readDiscard_spec c l m (minv false (fun h => by cases h)) (by omega) (by show s.y + q * c.v + l ≤ c.H; omega)
    refine ⟨i1, ?_⟩
    rw [i2]; show s.y + q * c.v + l = _; omega


theorem lt_L {g r M v : Nat} (hg : g < M) (hr : r < v) : g * v + r < M * v := by
  have : (g + 1) * v ≤ M * v := Nat.mul_le_mul_right v hg
  rw [Nat.succ_mul] at this
  omega

theorem lineOf_divmod (c : Cfg) (a g r : Nat) (hg : g < c.M) (hr : r < c.v) :
    lineOf c a g r / (c.M * c.v) = a ∧ lineOf c a g r % (c.M * c.v) = g * c.v + r := by
  have hx := lt_L hg hr
  have hL : 0 < c.M * c.v := by omega
  rw [Nat.div_mod_unique hL]
  refine ⟨?_, hx⟩
  simp only [lineOf]
  rw [Nat.mul_comm (c.M * c.v) a]; omega

theorem lineOf_unique (c : Cfg) (a g r a' g' r' : Nat) (hg : g < c.M) (hr : r < c.v) (hg' : g' < c.M) (hr' : r' < c.v)
    (h : lineOf c a g r = lineOf c a' g' r') : a = a' ∧ g = g' ∧ r = r' := by
  obtain ⟨d1, m1⟩ := lineOf_divmod c a g r hg hr
  obtain ⟨d2, m2⟩ := lineOf_divmod c a' g' r' hg' hr'
  rw [h] at d1 m1
  have ha : a = a' := by omega
  have hx : g * c.v + r = g' * c.v + r' := by omega
  have hv : 0 < c.v := by omega
  have e1 : (g * c.v + r) / c.v = g ∧ (g * c.v + r) % c.v = r := by
    rw [Nat.div_mod_unique hv]; exact ⟨by rw [Nat.mul_comm c.v g]; omega, hr⟩
  have e2 : (g' * c.v + r') / c.v = g' ∧ (g' * c.v + r') % c.v = r' := by
    rw [Nat.div_mod_unique hv]; exact ⟨by rw [Nat.mul_comm c.v g']; omega, hr'⟩
  rw [hx] at e1
  exact ⟨ha, by omega, by omega⟩


theorem incSimple_boundary (c : Cfg) (s : St) (a rows : Nat) (hM : 0 < c.M) (hv : 0 < c.v)
    (h1 : s.nro = c.v) (h2 : s.bf = false) (h4 : s.rg = 0) (h5 : s.irow = a)
    (hy : s.y = lineOf c a 0 0) (hin : rows < c.M * c.v) (hH : s.y + rows < c.H) :
    InvW true c (incSimple c s rows) ∧ (incSimple c s rows).y = s.y + rows := by
  have hnv : ¬ c.v < c.v := Nat.lt_irrefl _
  by_cases h0 : rows = 0
  · subst h0
    have e : incSimple c s 0 = { s with rtg := c.H - s.y } := by
      simp [incSimple, h1, jump, readDiscard, h4]
    rw [e]
    refine ⟨⟨by show s.y ≤ c.H; omega, fun _ => ⟨a, 0, 0, hM, hv, hy, rfl, ?_⟩⟩, rfl⟩
    exact Or.inr (Or.inr ⟨h1, rfl, rfl, h2, h4, h5⟩)
  · have hpos : 0 < rows := by omega
    have e : incSimple c s rows = jump c { s with bf := true, bufRow := s.irow, irow := s.irow + 1 } rows := by
      simp [incSimple, hpos, fillBuf, h2, h1, readDiscard]
    rw [e]
    have := jump_spec c { s with bf := true, bufRow := s.irow, irow := s.irow + 1 } a 0 rows h1 rfl h5 h4
      (by show s.irow + 1 = a + 1; omega) hy hv (by omega) hH (Or.inl hpos)
    exact this

theorem incSimple_inside (c : Cfg) (s : St) (a g r rows : Nat) (hv : 0 < c.v) (hinv : InvW true c s)
    (hg : g < c.M) (hr : r < c.v) (hy : s.y = lineOf c a g r) (hne : g * c.v + r ≠ 0)
    (hin : g * c.v + r + rows < c.M * c.v) (hH : s.y + rows < c.H) (h0 : 0 < rows) :
    InvW true c (incSimple c s rows) ∧ (incSimple c s rows).y = s.y + rows := by
  obtain ⟨a', g', r', hg', hr', hy', hrtg, hc⟩ := hinv.2 (by omega)
  obtain ⟨ea, eg, er⟩ := lineOf_unique c a g r a' g' r' hg hr hg' hr' (by rw [← hy, hy'])
  subst ea; subst eg; subst er
  rcases hc with ⟨x1, x2, x3, x4, x5, x6, x7, x8, x9⟩ | ⟨x1, x2, x3, x4, x5, x6, _⟩ | ⟨x1, x2, x3, x4, x5, x6⟩
  · -- rows of the current row group are still in the conversion buffer
    have e : incSimple c s rows = jump c (readDiscard c (min (c.v - r) rows) s) (rows - min (c.v - r) rows) := by
      simp [incSimple, h0, fillBuf, x3, x2, hr]
    rw [e]
    generalize hp : min (c.v - r) rows = p
    obtain ⟨i1, i2⟩ := readDiscard_spec c p s hinv.weaken (by omega) (by omega)
    by_cases hrest : rows - p = 0
    · rw [hrest]
      obtain ⟨_, _, _, _, _, _, hrtg1, _⟩ := i1.2 (by omega)
      have e2 : jump c (readDiscard c p s) 0 = readDiscard c p s := by
        simp only [jump, Nat.zero_mod, Nat.zero_div, Nat.add_zero, Nat.sub_zero, readDiscard]
        rw [← hrtg1]
      rw [e2]
      exact ⟨i1, by rw [i2]; omega⟩
    · -- the conversion buffer was emptied: position (a, g+1, 0)
      have hp' : p = c.v - r := by omega
      have hy1 : (readDiscard c p s).y = lineOf c a (g + 1) 0 := by
        rw [i2, hy, hp']
        simp only [lineOf]
        rw [Nat.succ_mul]; omega
      have hg1 : g + 1 < c.M := by
        apply lt_of_mul_v (v := c.v)
        rw [Nat.succ_mul]; omega
      obtain ⟨a2, g2, r2, hg2, hr2, hy2, hrtg2, hc2⟩ := i1.2 (by rw [i2]; omega)
      obtain ⟨ea, eg, er⟩ := lineOf_unique c a (g + 1) 0 a2 g2 r2 hg1 hv hg2 hr2 (by rw [← hy1, hy2])
      subst ea; subst eg; subst er
      rcases hc2 with ⟨_, _, _, _, _, _, _, _, z9⟩ | ⟨z1, z2, z3, z4, z5, z6, _⟩ | ⟨_, _, z3, _⟩
      · omega
      · obtain ⟨j1, j2⟩ := jump_spec c (readDiscard c p s) a (g + 1) (rows - p) z1 z3 z4 z5 z6 hy1 hv
          (by rw [Nat.succ_mul]; omega) (by rw [i2]; omega) (Or.inr (by omega))
        exact ⟨j1, by rw [j2, i2]; omega⟩
      · omega
  · have hnv : ¬ c.v < c.v := Nat.lt_irrefl _
    have e : incSimple c s rows = jump c s rows := by
      simp [incSimple, h0, fillBuf, x3, x1, readDiscard]
    rw [e]
    subst x2
    exact jump_spec c s a g rows x1 x3 x4 x5 x6 hy hv (by omega) hH (Or.inl h0)
  · subst x2; subst x3; omega


theorem set_rtg_inv (c : Cfg) (s : St) (b : Bool) (h : InvW b c s) : InvW b c { s with rtg := c.H - s.y } := by
  refine ⟨h.1, fun hy => ?_⟩
  obtain ⟨a, g, r, hg, hr, hy', hrtg, hc⟩ := h.2 hy
  exact ⟨a, g, r, hg, hr, hy', rfl, hc⟩

/-- the part of `_jpeg_skip_scanlines` after the rows left in the current iMCU row have been dropped -/
def skipRest (c : Cfg) (s : St) (left n : Nat) : St :=
  let L := c.M * c.v
  let s := { s with y := s.y + left, bf := false, rg := 0, nro := c.v }
  let s := { s with rtg := c.H - s.y }
  let after := n - left
  let toSkip := after / L * L
  let toRead := after - toSkip
  let s := { s with y := s.y + toSkip, irow := s.irow + toSkip / L }
  let s := incSimple c s toRead
  { s with rtg := c.H - s.y }

theorem skip_eq (c : Cfg) (s : St) (n : Nat) (h1 : ¬ c.H ≤ s.y + n) (h2 : ¬ n = 0) :
    skip c s n = if n < (c.M * c.v - s.y % (c.M * c.v)) % (c.M * c.v) then (incSimple c s n, n)
      else (skipRest c s ((c.M * c.v - s.y % (c.M * c.v)) % (c.M * c.v)) n, n) := by
  simp only [skip, h1, h2, if_false, skipRest]

theorem skipRest_spec (c : Cfg) (s : St) (a' left n : Nat) (hM : 0 < c.M) (hv : 0 < c.v)
    (hy : s.y + left = lineOf c a' 0 0) (hirow : s.irow = a') (hle : left ≤ n) (hH : s.y + n < c.H) :
    InvW true c (skipRest c s left n) ∧ (skipRest c s left n).y = s.y + n := by
  have hL : 0 < c.M * c.v := Nat.mul_pos hM hv
  generalize hLL : c.M * c.v = L at hL
  have hq : (n - left) / L * L / L = (n - left) / L := Nat.mul_div_cancel _ hL
  have hle2 : (n - left) / L * L ≤ n - left := Nat.div_mul_le_self _ _
  have hmod : n - left - (n - left) / L * L < L := by
    have := Nat.mod_lt (n - left) hL
    have h2 := Nat.div_add_mod (n - left) L
    rw [Nat.mul_comm] at h2
    omega
  generalize hqq : (n - left) / L = q at hq hle2 hmod
  let s2 : St := { s with y := s.y + left + q * L, bf := false, rg := 0, nro := c.v, rtg := c.H - (s.y + left),
                          irow := s.irow + q }
  have e : skipRest c s left n = { incSimple c s2 (n - left - q * L) with rtg := c.H - (incSimple c s2 (n - left - q * L)).y } := by
    simp only [skipRest, hLL, hqq, hq]
    rfl
  have hy2 : s2.y = lineOf c (a' + q) 0 0 := by
    show s.y + left + q * L = _
    simp only [lineOf] at hy ⊢
    rw [hLL] at hy ⊢
    rw [Nat.add_mul, hy]; omega
  obtain ⟨i1, i2⟩ := incSimple_boundary c s2 (a' + q) (n - left - q * L) hM hv rfl rfl rfl
    (by show s.irow + q = a' + q; omega) hy2 (by rw [hLL]; exact hmod)
    (by show s.y + left + q * L + (n - left - q * L) < c.H; omega)
  rw [e]
  refine ⟨set_rtg_inv c _ true i1, ?_⟩
  show (incSimple c s2 (n - left - q * L)).y = _
  rw [i2]; show s.y + left + q * L + (n - left - q * L) = _; omega

theorem skip_spec (c : Cfg) (s : St) (n : Nat) (hM : 0 < c.M) (hv : 0 < c.v) (hinv : InvW true c s) :
    InvW true c (skip c s n).1 ∧ (skip c s n).2 = min n (c.H - s.y) ∧ (skip c s n).1.y = s.y + min n (c.H - s.y) := by
  have hyH := hinv.1
  by_cases h1 : c.H ≤ s.y + n
  · have e : skip c s n = ({ s with y := c.H }, c.H - s.y) := by simp [skip, h1]
    rw [e]
    refine ⟨⟨Nat.le_refl _, fun h => absurd h (Nat.lt_irrefl _)⟩, by omega, by show c.H = _; omega⟩
  · by_cases h2 : n = 0
    · subst h2
      have h1' : ¬ c.H ≤ s.y := by simpa using h1
      have e : skip c s 0 = (s, 0) := by simp [skip, h1']
      rw [e]
      exact ⟨hinv, by simp, by simp⟩
    · rw [skip_eq c s n h1 h2]
      obtain ⟨a, g, r, hg, hr, hy, hrtg, hc⟩ := hinv.2 (by omega)
      obtain ⟨hdiv, hmod⟩ := lineOf_divmod c a g r hg hr
      have hx := lt_L hg hr
      have hmod' : s.y % (c.M * c.v) = g * c.v + r := by rw [hy]; exact hmod
      have hmin : min n (c.H - s.y) = n := by omega
      rw [hmod', hmin]
      generalize hLL : c.M * c.v = L at hx
      by_cases hx0 : g * c.v + r = 0
      · -- on an iMCU row boundary: nothing left in the current iMCU row
        have hleft : (L - (g * c.v + r)) % L = 0 := by rw [hx0]; simp
        rw [hleft]
        have hn0 : ¬ n < 0 := Nat.not_lt_zero _
        rw [if_neg hn0]
        have hg0 : g = 0 := by
          rcases Nat.eq_zero_or_pos g with h | h
          · exact h
          · have : c.v ≤ g * c.v := Nat.le_mul_of_pos_left _ h
            omega
        have hr0 : r = 0 := by omega
        subst hg0; subst hr0
        have hirow : s.irow = a := by
          rcases hc with ⟨_, _, _, _, _, _, _, _, x9⟩ | ⟨_, _, _, _, _, _, x7⟩ | ⟨_, _, _, _, _, x6⟩
          · omega
          · exact absurd rfl (x7 rfl)
          · exact x6
        obtain ⟨j1, j2⟩ := skipRest_spec c s a 0 n hM hv (by rw [hy]; rfl) hirow (Nat.zero_le _) (by omega)
        exact ⟨j1, rfl, j2⟩
      · have hleft : (L - (g * c.v + r)) % L = L - (g * c.v + r) := Nat.mod_eq_of_lt (by omega)
        rw [hleft]
        by_cases hlt : n < L - (g * c.v + r)
        · rw [if_pos hlt]
          obtain ⟨j1, j2⟩ := incSimple_inside c s a g r n hv hinv hg hr hy hx0 (by rw [hLL]; omega) (by omega) (by omega)
          exact ⟨j1, rfl, j2⟩
        · rw [if_neg hlt]
          have hirow : s.irow = a + 1 := by
            rcases hc with ⟨_, _, _, _, _, _, _, x8, _⟩ | ⟨_, _, _, _, _, x6, _⟩ | ⟨_, x2, x3, _⟩
            · exact x8
            · exact x6
            · subst x2; subst x3; simp at hx0
          obtain ⟨j1, j2⟩ := skipRest_spec c s (a + 1) (L - (g * c.v + r)) n hM hv
            (by rw [hy]; simp only [lineOf]; rw [hLL, Nat.succ_mul]; omega) hirow (by omega) (by omega)
          exact ⟨j1, rfl, j2⟩


/-- what is claimed of a delivered row: it is the row of the image that its scanline number names -/
def RowOK (c : Cfg) (lo : Nat) (ip : Nat × Prov) : Prop :=
  ip.2.2.1 < c.M ∧ ip.2.2.2 < c.v ∧ Prov.line c ip.2 = ip.1 ∧ lo ≤ ip.1 ∧ ip.1 < c.H

theorem step_spec (c : Cfg) (s : St) (call : Call) (hM : 0 < c.M) (hv : 0 < c.v) (hinv : InvW true c s) :
    InvW true c (step c s call).1 ∧ s.y ≤ (step c s call).1.y ∧ (∀ ip ∈ (step c s call).2.1, RowOK c s.y ip) := by
  cases call with
  | sk n =>
    obtain ⟨h1, _, h3⟩ := skip_spec c s n hM hv hinv
    refine ⟨h1, by show s.y ≤ (skip c s n).1.y; rw [h3]; omega, ?_⟩
    intro ip hip
    simp [step] at hip
  | rd n =>
    by_cases hH : c.H ≤ s.y
    · have e : read c s n = (s, []) := by simp [read, hH]
      simp only [step, e]
      exact ⟨hinv, Nat.le_refl _, by intro ip hip; simp at hip⟩
    · by_cases hn : n = 0
      · have e : read c s n = (s, []) := by simp [read, hH, hn]
        simp only [step, e]
        exact ⟨hinv, Nat.le_refl _, by intro ip hip; simp at hip⟩
      · obtain ⟨a, g, r, k, hg, hr, hy, k1, k2, k3, hrows, hy', hinv'⟩ := read_spec c s n hinv.weaken (by omega) (by omega)
        have hle : (read c s n).1.y ≤ c.H := hinv'.1
        refine ⟨hinv', by show s.y ≤ (read c s n).1.y; omega, ?_⟩
        intro ip hip
        simp only [step, hrows, List.mem_map] at hip
        obtain ⟨⟨p, i⟩, hmem, e⟩ := hip
        obtain ⟨m1, m2, m3⟩ := List.mem_zipIdx hmem
        simp only [List.length_map, List.length_range] at m2
        simp only [List.getElem_map, List.getElem_range] at m3
        subst e; subst m3
        refine ⟨hg, by show r + (i - s.y) < c.v; omega, ?_, m1, by omega⟩
        show a * (c.M * c.v) + g * c.v + (r + (i - s.y)) = i
        simp only [lineOf] at hy
        omega

theorem run_spec (c : Cfg) (hM : 0 < c.M) (hv : 0 < c.v) : ∀ (calls : List Call) (s : St), InvW true c s →
    InvW true c (run c s calls).1 ∧ ∀ ip ∈ (run c s calls).2, RowOK c s.y ip := by
  intro calls
  induction calls with
  | nil => intro s h; exact ⟨h, by intro ip hip; simp [run] at hip⟩
  | cons a as ih =>
    intro s h
    obtain ⟨h1, h2, h3⟩ := step_spec c s a hM hv h
    obtain ⟨i1, i2⟩ := ih (step c s a).1 h1
    simp only [run]
    refine ⟨i1, ?_⟩
    intro ip hip
    rcases List.mem_append.mp hip with h | h
    · exact h3 ip h
    · obtain ⟨q1, q2, q3, q4, q5⟩ := i2 ip h
      exact ⟨q1, q2, q3, by omega, q5⟩


theorem full_decode_gen (c : Cfg) : ∀ (k : Nat) (s : St), InvW true c s → s.y + k ≤ c.H →
    (run c s (List.replicate k (.rd 1))).2.map (·.1) = List.range' s.y k ∧
    (run c s (List.replicate k (.rd 1))).1.y = s.y + k := by
  intro k
  induction k with
  | zero => intro s _ _; simp [run]
  | succ k ih =>
    intro s h hH
    obtain ⟨a, g, r, k', _, _, _, k1, k2, _, hrows, hy, hinv⟩ := read_spec c s 1 h.weaken (by omega) (by omega)
    have hk' : k' = 1 := by omega
    subst hk'
    obtain ⟨i1, i2⟩ := ih (read c s 1).1 hinv (by rw [hy]; omega)
    simp only [List.replicate_succ, run, step, List.map_append]
    rw [i1, hy]
    refine ⟨?_, by rw [i2, hy]; omega⟩
    rw [hrows]
    simp [List.range'_succ]

end LJT.Skip
