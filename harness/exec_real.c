/* Real-code executor: one op per line on stdin -> "R ..." (+ "O ...") on stdout.
 * Property-specific operations live in ops_*.c, included here so that the
 * whole executor is one translation unit. */
#include "exec_common.h"
#include "ops_c19.c"
#include "ops_c20.c"
#include "ops_c13.c"
#include "ops_c16.c"
#include "ops_c02.c"
#include "ops_c10.c"

int main(void)
{
  ssize_t len;
  setvbuf(stdout, NULL, _IOLBF, 1 << 16);
  while ((len = getline(&g_line, &g_cap, stdin)) > 0) {
    toks_t t = tokenize(g_line);
    int done = 0;
    if (t.n == 0) { printf("R skip\nE\n"); continue; }
    if (!done) done = dispatch_c19(&t);
    if (!done) done = dispatch_c20(&t);
    if (!done) done = dispatch_c13(&t);
    if (!done) done = dispatch_c16(&t);
    if (!done) done = dispatch_c02(&t);
    if (!done) done = dispatch_c10(&t);
    if (!done) printf("R skip\n");
    printf("E\n");      /* end of this op: everything before a crash belongs to the op in flight */
    fflush(stdout);
  }
  return 0;
}
