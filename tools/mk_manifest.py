#!/usr/bin/env python3
"""Regenerates MANIFEST.json from vlib/props/*.py (one entry per property module that
declares MANIFEST = {...}); properties without a module go to not_applicable."""
import importlib, json, os, sys
V = os.path.dirname(os.path.dirname(os.path.abspath(__file__)))
sys.path.insert(0, V)
props = [json.loads(l) for l in open(os.path.join(V, "properties.jsonl"))]
checks, na = [], []
for p in props:
    pid = p["id"]
    try:
        m = importlib.import_module("vlib.props." + pid)
        M = m.MANIFEST
    except Exception as e:
        na.append({"property_id": pid, "reason": "check not built yet (planned per DESIGN.md section 6; not a claim that proof cannot apply)"})
        continue
    checks.append({
        "property_id": pid,
        "quick_cmd": "./check %s --tier quick" % pid,
        "thorough_cmd": "./check %s --tier thorough" % pid,
        "evidence_file": "/verif/evidence/%s.json" % pid,
        "replay_cmd_template": "./check %s --replay {path}" % pid,
        "engine": "lean4-proof+correspondence",
        "level_claimed": {"category": "proof", "text": M["text"], "design_ref": M["design_ref"]},
        "level_note": M["note"],
        "technique": M["technique"],
    })
man = {
    "version": 1,
    "setup_cmd": "./check --setup",
    "hooks": {
        "guard": "LJT_VERIF (jchuff.c) / LJT_VERIF_POOLS (jmemmgr.c)",
        "enable": "two hooks, both add-only and off by default. (1) LJT_VERIF_POOLS: alloc_small() (src/jmemmgr.c) asks for no pool slop, so that every small object of the library's pools is a malloc block of its own; the 'sanp' build variant (vlib/common.py: the san variant's cmake flags plus -DLJT_VERIF_POOLS) is used by C01, C11, C12 and C17 next to the unmodified san and simd builds, so that ASan also reports overruns of objects that otherwise share one pool block. (2) LJT_VERIF: jpeg_gen_optimal_table() (src/jchuff.c) calls ljt_verif_codesize_hook(codesize, n) under #ifdef LJT_VERIF; the library itself is never built with the guard - the C19 harness compiles a private, renamed copy of jchuff.c from the working tree with -DLJT_VERIF (harness/ops_c19.c); everything else links the static libraries built from /repo's working tree and reaches internals through the repo's own private headers",
        "baseline_off_cmd": "cmake -G Ninja -S /repo -B /repo/_build -DCMAKE_BUILD_TYPE=Release && cmake --build /repo/_build && ctest --test-dir /repo/_build -j8 --timeout 900",
        "source_commits": ["0d680ea", "4c08660"],
        "add_only": True,
    },
    "engines": [{
        "name": "lean4-proof+correspondence",
        "path": "/verif/check",
        "serves_properties": [c["property_id"] for c in checks],
        "kind_free_text": "Lean 4 theorems over a hand-written executable model (lean/LJT) whose tables are regenerated from /repo on every run (tools/gen_*), tied to the C code by a differential run of the compiled model (ljt-driver) against the real functions (harness/exec_real.c) on seeded generated operations; property oracles on the real code supply replays",
    }],
    "checks": checks,
    "not_applicable": na,
    "notes": "See DESIGN.md. known_findings.json lists fixed and known findings. Exit 2 from ./check = internal error (tree does not build), never a verdict.",
}
json.dump(man, open(os.path.join(V, "MANIFEST.json"), "w"), indent=1)
print("checks:", [c["property_id"] for c in checks], "n/a:", len(na))
