"""C18 - image file loading is robust; save/load round-trips exactly."""
import struct
ID = "C18"
VARIANTS = ["san", "simd"]
RULE = ("pnmload: generated PGM/PPM files (text and raw, one- and two-byte samples, maxval 1..65535 incl. powers of two +-1, comments and "
        "odd white space in header and body; malformed: truncated at every stage, samples above maxval in text/byte/word form, non-numeric "
        "characters, zero or overflowing numbers, unterminated comments, wrong magic, pixel limit at and below the image size) loaded "
        "through tj3LoadImage8/12/16 with every pixel format, precision 2..16, both row orders, alignments 1..16: outcome (error kind or "
        "dimensions, pixel format, digest and maximum of all defined samples) must equal the Lean model; oracle on the real result: every "
        "sample within the target precision.  pnmsave: formula images saved with tj3SaveImage*; the file must equal the model's file byte "
        "for byte and load back to identical samples (PPM/PGM all precisions, BMP 8-bit, both row orders, all alignments).  imgfuzz: "
        "generated and mutated BMP, GIF and Targa files through tj3LoadImage8 / the cjpeg readers under ASan+UBSan, pixel limit honoured")
TRUSTED = ["Model.PNM is a hand-written model of read_pbm_integer, start_input_ppm, the text/byte/word row readers for gray and RGB-family "
           "pixel formats, the rescale table, tj3LoadImage row placement and the wrppm writer; tied by exact comparison per generated file",
           "CMYK conversion (floating point), BMP, GIF and Targa parsing are not modelled: memory safety, termination, pixel limit and the "
           "in-range clause are observed on the real code under sanitizers, the BMP 8-bit round trip is checked on the real functions"]
ASSUMPTIONS = ["files are delivered through the file system (temp file) exactly as generated"]

PFS = [12, 6, 0, 1, 2, 3, 4, 5, 7, 8, 9, 10, 11]


def hx(b):
    return b.hex() if b else "-"


def ws(rng):
    k = rng.random()
    if k < .6: return rng.choice([b" ", b"\n", b"\t", b"\r\n", b"  "])
    if k < .85: return b"\n# a comment 12 34\n"
    return b" #x\n"


def gen_pnm(rng, malformed):
    magic = rng.choice([2, 3, 5, 6])
    w = rng.randint(1, 9); h = rng.randint(1, 6)
    maxval = rng.choice([1, 3, 7, 9, 15, 63, 127, 254, 255, 256, 511, 1023, 4095, 4096, 32767, 65535, rng.randint(1, 65535), rng.randint(1, 300)])
    spp = 1 if magic in (2, 5) else 3
    n = w * h * spp
    vals = [rng.choice([0, maxval, rng.randint(0, maxval), rng.randint(0, maxval)]) for _ in range(n)]
    mal = rng.choice(["trunc", "range", "nonnum", "zero", "bigdim", "magic", "hdrtrunc", "overflow", "comment-eof", "empty"]) if malformed else None
    if mal == "range" and n:
        i = rng.randrange(n)
        vals[i] = rng.choice([maxval + 1, 255, 65535, maxval + rng.randint(1, 9), 9]) if True else 0
    hdr_w, hdr_h, hdr_m = str(w), str(h), str(maxval)
    if mal == "zero":
        k = rng.randrange(3)
        if k == 0: hdr_w = "0"
        elif k == 1: hdr_h = "0"
        else: hdr_m = "0"
    if mal == "bigdim":
        if rng.random() < .5: hdr_w = rng.choice(["65536", "70000", "99999999999", "4294967297"])
        else: hdr_m = rng.choice(["65536", "4294967296", "18446744073709551617"])
    if mal == "overflow": hdr_h = rng.choice(["4294967299", "00000000000000000003", "65535"])
    f = b"P" + (bytes([48 + magic]) if mal != "magic" else rng.choice([b"1", b"4", b"7", b"x", b""]))
    f += ws(rng) + hdr_w.encode() + ws(rng) + hdr_h.encode() + ws(rng) + hdr_m.encode()
    if magic in (2, 3):
        body = b""
        for v in vals:
            body += ws(rng) + str(v).encode()
        if mal == "nonnum":
            body = body[:rng.randrange(len(body) + 1)] + rng.choice([b" x ", b"-", b" 1a", b"."]) + body
        body += rng.choice([b"", b"\n", b" "])
        f += body
    else:
        f += rng.choice([b"\n", b" ", b"\t"])
        if maxval > 255:
            body = b"".join(struct.pack(">H", min(v, 65535)) for v in vals)
        else:
            body = bytes(min(v, 255) for v in vals)
        f += body
    if mal == "trunc": f = f[:len(f) - rng.randint(1, max(1, min(len(f) - 3, n + 3)))]
    if mal == "hdrtrunc": f = f[:rng.randint(0, 8)]
    if mal == "comment-eof": f = f[:rng.randint(2, 6)] + b"# never ends"
    if mal == "empty": f = b""
    return f, w, h, mal


def gen_bmp(rng):
    w = rng.randint(1, 9); h = rng.randint(1, 6); bpp = rng.choice([8, 24, 24, 32])
    ncol = rng.randint(1, 256) if bpp == 8 else 0
    rowlen = (w * bpp // 8 + 3) & ~3
    pal = bytes(rng.randrange(256) for _ in range(ncol * 4))
    data = bytes(rng.randrange(256) for _ in range(rowlen * h))
    off = 14 + 40 + len(pal)
    hdr = b"BM" + struct.pack("<IHHI", off + len(data), 0, 0, off)
    info = struct.pack("<IiiHHIIiiII", 40, w, h if rng.random() < .7 else -h, 1, bpp, 0, len(data), 2835, 2835, ncol, 0)
    return hdr + info + pal + data


def gen_gif(rng):
    w = rng.randint(1, 8); h = rng.randint(1, 5); bits = rng.randint(2, 8)
    ncol = 1 << bits
    f = b"GIF89a" + struct.pack("<HHBBB", w, h, 0x80 | (bits - 1), 0, 0) + bytes(rng.randrange(256) for _ in range(3 * ncol))
    f += b"," + struct.pack("<HHHHB", 0, 0, w, h, rng.choice([0, 0x40]))
    # LZW stream of literal codes with a clear code before each, code size bits+1
    cs = bits; clear = 1 << cs; eoi = clear + 1
    codes = []
    for _ in range(w * h):
        codes += [clear, rng.randrange(ncol)]
    codes.append(eoi)
    acc = 0; nb = 0; out = bytearray()
    for c in codes:
        acc |= c << nb; nb += cs + 1
        while nb >= 8:
            out.append(acc & 255); acc >>= 8; nb -= 8
    if nb: out.append(acc & 255)
    f += bytes([cs])
    for i in range(0, len(out), 255):
        blk = out[i:i + 255]; f += bytes([len(blk)]) + bytes(blk)
    f += b"\x00;"
    return f


def gen_tga(rng):
    w = rng.randint(1, 9); h = rng.randint(1, 6)
    kind = rng.choice([1, 2, 3, 9, 10, 11])
    cmap = kind in (1, 9)
    psize = 8 if kind in (1, 3, 9, 11) else rng.choice([16, 24, 32])
    ncol = rng.randint(1, 256) if cmap else 0
    hdr = struct.pack("<BBBHHBHHHHBB", 0, 1 if cmap else 0, kind, 0, ncol, 24 if cmap else 0, 0, 0, w, h, psize, rng.choice([0, 0x20]))
    body = bytes(rng.randrange(256) for _ in range(ncol * 3))
    bpp = psize // 8
    if kind < 8:
        body += bytes(rng.randrange(256) for _ in range(w * h * bpp))
    else:
        left = w * h
        while left > 0:
            n = rng.randint(1, min(128, left))
            if rng.random() < .5: body += bytes([0x80 | (n - 1)]) + bytes(rng.randrange(256) for _ in range(bpp))
            else: body += bytes([n - 1]) + bytes(rng.randrange(256) for _ in range(n * bpp))
            left -= n
    return hdr + body


def mutate(rng, f):
    b = bytearray(f)
    k = rng.random()
    if k < .35 and b:
        for _ in range(rng.randint(1, 4)):
            b[rng.randrange(min(len(b), 64))] = rng.choice([0, 1, 0x7f, 0x80, 0xff, rng.randrange(256)])
    elif k < .6 and b:
        b = b[:rng.randrange(len(b))]
    elif k < .8 and b:
        i = rng.randrange(len(b)); b[i:i] = bytes(rng.randrange(256) for _ in range(rng.randint(1, 6)))
    return bytes(b)


def classify(op, R):
    p = op.split(" ")
    if p[0] == "pnmload":
        return "pnmload:b%s:pf%s:%s" % (p[1], p[3], " ".join(R.split()[:2]) if "err" in R else "ok")
    if p[0] == "pnmsave":
        return "pnmsave:b%s:pf%s:ext%s" % (p[1], p[3], p[9])
    return "%s:k%s:%s" % (p[0], p[1], "err" if "err" in R else "ok")


def gen_ops(rng, tier):
    ops = []
    big = tier == "thorough"
    for i in range(4000 if big else 700):
        f, w, h, mal = gen_pnm(rng, rng.random() < .45)
        bits = rng.choice([8, 8, 12, 16])
        prec = rng.choice([rng.randint(2, 8)] if bits == 8 else [rng.randint(bits - 3, bits)]) if rng.random() < .85 else rng.randint(0, 17)
        pf = rng.choice(PFS)
        mp = rng.choice([0, 0, 0, w * h, max(w * h - 1, 1), 1]) if rng.random() < .3 else 0
        ops.append("pnmload %d %d %d %d %d %d %s" % (bits, prec, pf, mp, rng.randrange(2), rng.choice([1, 1, 2, 4, 8, 16]), hx(f)))
    # directed: exactly one sample above maxval, in every channel position, for every reader (text / byte / word x gray / rgb / cmyk)
    for magic in (2, 3, 5, 6):
        spp = 1 if magic in (2, 5) else 3
        for maxval in (3, 7, 200, 255, 300, 1023, 65534):
            for pf in (12, 6, 0, 3, 7, 10, 11):
                for pos in range(spp * 2):
                    if not big and rng.random() < .5: continue
                    vals = [rng.randint(0, maxval) for _ in range(spp * 2)]
                    vals[pos] = rng.choice([maxval + 1, 65535 if maxval > 255 else 255, maxval + 1])
                    f = ("P%d\n2 1\n%d\n" % (magic, maxval)).encode()
                    if magic in (2, 3): f += " ".join(map(str, vals)).encode() + b"\n"
                    elif maxval > 255: f += b"".join(struct.pack(">H", min(v, 65535)) for v in vals)
                    else: f += bytes(min(v, 255) for v in vals)
                    bits = rng.choice([8, 12, 16])
                    prec = rng.randint(2, 8) if bits == 8 else rng.randint(bits - 3, bits)
                    ops.append("pnmload %d %d %d 0 %d 1 %s" % (bits, prec, pf, rng.randrange(2), hx(f)))
    for i in range(1200 if big else 260):
        bits = rng.choice([8, 8, 12, 16])
        prec = rng.randint(2, 8) if bits == 8 else rng.randint(bits - 3, bits)
        pf = rng.randrange(12)
        bmp = 1 if (bits == 8 and rng.random() < .35) else 0
        if bmp: prec = 8
        ops.append("pnmsave %d %d %d %d %d %d %d %d %d" % (bits, prec, pf, rng.randrange(2), rng.randint(1, 17), rng.randint(1, 7), rng.randrange(1 << 20),
                                                         rng.choice([1, 2, 4, 8, 16]), bmp))
    for i in range(2400 if big else 450):
        kind = rng.choice([0, 1, 2, 3])
        f = gen_bmp(rng) if kind in (0, 3) else gen_gif(rng) if kind == 1 else gen_tga(rng)
        if rng.random() < .7: f = mutate(rng, f)
        ops.append("imgfuzz %d %d %s" % (kind, rng.choice([0, 0, 0, 1, 4, 20]), hx(f)))
    return ops


def search(ctx, failing_ops):
    from .. import common as C
    import random
    rng = random.Random("search/%s" % ctx["seed"])
    ops = list(failing_ops) + gen_ops(rng, "quick")
    found = []
    for v, exe in ctx["exes"].items():
        res, _ = C.run_exec(exe, ops)
        for op, (R, O) in zip(ops, res):
            if O and O.startswith("fail"):
                found.append((v, op, R, O))
    return found


MANIFEST = {
    "text": ("Kernel-checked Lean theorems on a model of the PPM/PGM reader and writer: for every byte string, every precision 2..16, pixel "
             "format, row order and pixel limit, a successful load returns only samples within the target precision and an image within the "
             "pixel limit; read_pbm_integer never returns a value above its bound; the rescale table is monotone, maps 0 to 0 and maxval to "
             "full scale and is the identity when maxval is full scale; decimal printing followed by read_pbm_integer is the identity; "
             "save followed by load returns the saved samples for gray and RGB images at every precision.  The model is compared "
             "with tj3LoadImage8/12/16 on every generated valid and malformed file and with tj3SaveImage* byte for byte; BMP, GIF and Targa "
             "readers are exercised under sanitizers and the BMP round trip is checked on the real functions."),
    "design_ref": "DESIGN.md 6.18",
    "note": ("Partial: BMP/GIF/Targa parsers and the CMYK conversion are outside the model (observed, not proved). Trusted: Lean kernel; axioms "
             "propext, Quot.sound, Classical.choice; the hand-written model (tied by exact comparison); the file system between harness and library."),
    "technique": "Lean 4 proof (induction over the sample readers, decimal print/parse lemma) + exact model/code correspondence on generated files + sanitizer observers",
}
