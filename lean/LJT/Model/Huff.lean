import LJT.Gen.Tables
import LJT.Gen.Err
/-! Huffman table machinery as coded in src/jchuff.c (jpeg_make_c_derived_tbl,
jpeg_gen_optimal_table) and src/jdhuff.c (jpeg_make_d_derived_tbl, jpeg_huff_decode).

A table is `(bits, vals)`: `bits` has 17 entries (`bits[0]` unused, `bits[l]` = number
of codes of length `l`, each an UINT8), `vals` lists the symbols in code order. -/
namespace LJT.Huff

structure Tbl where
  bits : List Nat
  vals : List Nat
deriving Repr, DecidableEq

/-- Figure C.1: the list of code lengths, one per symbol, in code order:
`bits[l]` copies of `l` for `l = from .. from + n - 1`. -/
def sizesFrom (bits : List Nat) : Nat → Nat → List Nat
  | _, 0 => []
  | l, n + 1 => List.replicate (bits.getD l 0) l ++ sizesFrom bits (l + 1) n

def sizes (bits : List Nat) : List Nat := sizesFrom bits 1 16

/-- Figure C.2 as coded (inner loop assigns consecutive codes of length `si`; leaving the
inner loop checks `code < 2^si`, doubles `code` and increments `si`). -/
def genCodes : List Nat → Nat → Nat → Option (List Nat)
  | [], code, si => if code ≥ 2 ^ si then none else some []
  | s :: rest, code, si =>
    if s = si then (genCodes rest (code + 1) si).map (code :: ·)
    else if s < si then none            -- unreachable: `sizes` is sorted
    else if code ≥ 2 ^ si then none
    else genCodes (s :: rest) (code * 2) (si + 1)
termination_by l _ si => (l.length, (l.headD 0) - si)
decreasing_by
  · simp_wf; exact Prod.Lex.left _ _ (by simp)
  · simp_wf; apply Prod.Lex.right; simp at *; omega

/-- codes for a `bits` array: `none` = JERR_BAD_HUFF_TABLE from the code-space check -/
def codes (bits : List Nat) : Option (List Nat) :=
  match sizes bits with
  | [] => some []
  | s :: rest => genCodes (s :: rest) 0 s

/-- encoder-side derived table: `ehufco[256]`, `ehufsi[256]` -/
structure CDerived where
  co : List Nat
  si : List Nat
deriving Repr, DecidableEq

def fillC : List Nat → List Nat → List Nat → Nat → Array Nat → Array Nat → Option CDerived
  | [], _, _, _, co, si => some ⟨co.toList, si.toList⟩
  | _ :: _, [], _, _, _, _ => none
  | _ :: _, _ :: _, [], _, co, si => some ⟨co.toList, si.toList⟩   -- vals shorter than sizes: C reads the rest of huffval[256]; callers pad
  | sz :: szs, c :: cs, v :: vs, maxsym, co, si =>
    if v > maxsym || si.getD v 0 != 0 then none
    else fillC szs cs vs maxsym (co.setIfInBounds v c) (si.setIfInBounds v sz)

/-- `jpeg_make_c_derived_tbl`; `vals` must hold at least `(sizes bits).length` entries
(the C array always has 256).  `none` = JERR_BAD_HUFF_TABLE. -/
def mkCDerived (isDC lossless : Bool) (t : Tbl) : Option CDerived :=
  let sz := sizes t.bits
  if sz.length > 256 then none else
  match codes t.bits with
  | none => none
  | some cs =>
    let maxsym := if isDC then (if lossless then 16 else 15) else 255
    fillC sz cs (t.vals ++ List.replicate (256 - t.vals.length) 0) maxsym
      (Array.replicate 256 0) (Array.replicate 256 0)

/-- decoder-side derived table.  `maxcode`, `valoffset` have 18 entries (index 0 unused);
`maxcode[l] = -1` when no code has length `l`; `lookup` has 256 entries
`(nb << 8) | sym`, or `9 << 8` for "longer than 8 bits". -/
structure DDerived where
  maxcode : List Int
  valoffset : List Int
  lookup : List Nat
  vals : List Nat
deriving Repr, DecidableEq

/-- Figure F.15 as coded: for each length `l` (from `l`, `n` levels) the pair
`(maxcode[l], valoffset[l])`; `p` = index of the first code of length `l`.
`valoffset` of an unused length is uninitialised in C; reported as 0. -/
def f15 (bits : List Nat) (cs : List Nat) : Nat → Nat → Nat → List (Int × Int)
  | 0, _, _ => []
  | n + 1, l, p =>
    let b := bits.getD l 0
    if b ≠ 0 then
      ((cs.getD (p + b - 1) 0 : Int), (p : Int) - (cs.getD p 0 : Int)) :: f15 bits cs n (l + 1) (p + b)
    else ((-1 : Int), (0 : Int)) :: f15 bits cs n (l + 1) p

def lookupTbl (bits cs vals : List Nat) : List Nat := Id.run do
  let mut tab : Array Nat := Array.replicate 256 (9 <<< 8)
  let mut p := 0
  for l in [1:9] do
    for _ in [0:bits.getD l 0] do
      let base := (cs.getD p 0) <<< (8 - l)
      for ctr in [0:1 <<< (8 - l)] do
        tab := tab.setIfInBounds (base + ctr) ((l <<< 8) ||| vals.getD p 0)
      p := p + 1
  return tab.toList

/-- `jpeg_make_d_derived_tbl`.  Note `valoffset[l]` for unused lengths is left
uninitialised by the C code; the model and the harness both report 0 there. -/
def mkDDerived (isDC lossless : Bool) (t : Tbl) : Option DDerived :=
  let sz := sizes t.bits
  if sz.length > 256 then none else
  match codes t.bits with
  | none => none
  | some cs =>
    let vals := t.vals ++ List.replicate (256 - t.vals.length) 0
    let lv := f15 t.bits cs 16 1 0
    let mc := lv.map (·.1)
    let vo := lv.map (·.2)
    let maxsym := if lossless then 16 else 15
    if isDC && (vals.take sz.length).any (· > maxsym) then none
    else some ⟨(0 : Int) :: mc ++ [0xFFFFF], (0 : Int) :: vo ++ [0], lookupTbl t.bits cs vals, vals⟩

/-! ### Bit-sequential decoding (Figure F.16 as coded in `jpeg_huff_decode`) -/

/-- the per-length decoding data `(maxcode[l], valoffset[l])` for `l = 1 .. 17` -/
def DDerived.levels (d : DDerived) : List (Int × Int) := (d.maxcode.zip d.valoffset).drop 1

/-- `jpeg_huff_decode`: while `code > maxcode[l]` shift in one more bit and move to the
next length.  `lv` holds the data of lengths `l, l+1, ..`.  Returns the symbol, a flag for
"code longer than 16 bits" (JWRN_HUFF_BAD_CODE, symbol 0) and the remaining bits;
`none` when the input is exhausted. -/
def decodeLv (vals : List Nat) : List (Int × Int) → Nat → Int → List Bool → Option (Nat × Bool × List Bool)
  | [], _, _, _ => none
  | (mc, vo) :: lv, l, code, bs =>
    if code ≤ mc then
      if l > 16 then some (0, true, bs)
      else some (vals.getD (code + vo).toNat 0, false, bs)
    else match bs with
      | [] => none
      | b :: bs' => decodeLv vals lv (l + 1) (code * 2 + (if b then 1 else 0)) bs'

/-- decode one symbol from a bit list (first bit read explicitly, `l = 1`) -/
def decode (d : DDerived) : List Bool → Option (Nat × Bool × List Bool)
  | [] => none
  | b :: bs => decodeLv d.vals d.levels 1 (if b then 1 else 0) bs

/-- the code of symbol `s` as a bit list, most significant bit first -/
def codeBits (code size : Nat) : List Bool :=
  (List.range size).map (fun i => (code >>> (size - 1 - i)) % 2 = 1)

def encode (c : CDerived) (s : Nat) : Option (List Bool) :=
  let sz := c.si.getD s 0
  if sz = 0 then none else some (codeBits (c.co.getD s 0) sz)

/-! ### `jpeg_gen_optimal_table` (Annex K.2 as coded)

The C function works on three parallel arrays indexed by *slot* (position in the compacted
list of non-zero frequencies): `freq[]`, `codesize[]` and the chain links `others[]`.
A live tree of the forest is a slot whose `freq` entry has not been overwritten with the
sentinel 1000000001; its members are the slots on the `others[]` chain starting there.
The model keeps exactly that information as a list of live trees in ascending slot order:
`w` = the `freq` entry, `idx` = the slot, `mem` = the chain, each member with its `codesize`.
Merging `c1` and `c2` appends `c2`'s chain to `c1`'s and increments every `codesize` on both,
stores the sum in `c1`'s slot and kills `c2`'s slot. -/

structure Tree where
  w : Nat
  idx : Nat
  mem : List (Nat × Nat)
deriving Repr, DecidableEq

def FREQ_LIMIT : Nat := 1000000000

/-- state of the scan for the two smallest frequencies: `v`, `c1`, `v2`, `c2` of the C code -/
structure Scan where
  v : Nat
  c1 : Option Tree
  v2 : Nat
  c2 : Option Tree

/-- one iteration of `for (i = 0; i < num_nz_symbols; i++)`: ties go to the later slot (`<=`) -/
def scanStep (s : Scan) (t : Tree) : Scan :=
  if t.w ≤ s.v2 then
    if t.w ≤ s.v then ⟨t.w, some t, s.v, s.c1⟩ else ⟨s.v, s.c1, t.w, some t⟩
  else s

def findTwo (ts : List Tree) : Scan := ts.foldl scanStep ⟨FREQ_LIMIT, none, FREQ_LIMIT, none⟩

def bump (m : List (Nat × Nat)) : List (Nat × Nat) := m.map fun p => (p.1, p.2 + 1)

def mergeTrees (a b : Tree) : Tree := ⟨a.w + b.w, a.idx, bump (a.mem ++ b.mem)⟩

/-- one pass of the `for (;;)` loop; `none` = `c2 < 0` (everything merged) -/
def mergeStep (ts : List Tree) : Option (List Tree) :=
  let s := findTwo ts
  match s.c1, s.c2 with
  | some a, some b => some ((ts.erase b).map fun t => if t.idx = a.idx then mergeTrees a b else t)
  | _, _ => none

def mergeAll : Nat → List Tree → List Tree
  | 0, ts => ts
  | f + 1, ts => match mergeStep ts with
    | some ts' => mergeAll f ts'
    | none => ts

/-- the forest before the first merge: slot `k` holds the `k`-th non-zero frequency -/
def initForest : List Nat → Nat → List Tree
  | [], _ => []
  | w :: ws, k => ⟨w, k, [(k, 0)]⟩ :: initForest ws (k + 1)

/-- `codesize[k]` after the merge loop -/
def csOf (ts : List Tree) (k : Nat) : Nat :=
  match (ts.flatMap (·.mem)).lookup k with
  | some d => d
  | none => 0

/-- `bits[]` / `bit_pos[]` as total functions (wrapped, so that compiled code builds each table once) -/
structure Bits where
  f : Nat → Nat

def Bits.upd (b : Bits) (i v : Nat) : Bits := ⟨fun j => if j = i then v else b.f j⟩

/-- `while (bits[j] == 0) j--;` started at `j`; the model stops at 0 -/
def findJ : Nat → Bits → Nat
  | 0, _ => 0
  | j + 1, b => if b.f (j + 1) = 0 then findJ j b else j + 1

/-- `while (bits[i] > 0) { ... }` of the length-limiting step (at most `fuel` iterations) -/
def limitAt (i : Nat) : Nat → Bits → Bits
  | 0, b => b
  | f + 1, b =>
    if b.f i > 0 then
      let j := findJ (i - 2) b
      let b := b.upd i (b.f i - 2)
      let b := b.upd (i - 1) (b.f (i - 1) + 1)
      let b := b.upd (j + 1) (b.f (j + 1) + 2)
      let b := b.upd j (b.f j - 1)
      limitAt i f b
    else b

/-- `for (i = MAX_CLEN; i > 16; i--)` -/
def limitAll (b : Bits) : Bits :=
  (List.range 16).foldl (fun b k => limitAt (32 - k) (b.f (32 - k)) b) b

/-- `bit_pos[l]`: number of slots with a code length in `1 .. l-1` -/
def bitPos (b : Bits) : Bits := ⟨fun l => (((List.range l).drop 1).map b.f).sum⟩

/-- the loop that fills `huffval[]`: slot `k` goes to `bit_pos[codesize[k]]++` -/
def placeVals (cs nz : List Nat) (m : Nat) (bp : Bits) : Array Nat :=
  ((List.range m).foldl (fun (st : Array Nat × Bits) k =>
      let c := cs.getD k 0
      (st.1.setIfInBounds (st.2.f c) (nz.getD k 0 % 256), st.2.upd c (st.2.f c + 1)))
    (Array.replicate 256 0, bp)).1

inductive GenResult where
  | ok (t : Tbl)
  | clenOverflow
deriving Repr, DecidableEq

/-- `freq[]` as the function sees it: 257 entries, entry 256 forced to 1 -/
def freqIn (freq0 : List Nat) : List Nat := ((freq0 ++ List.replicate (257 - freq0.length) 0).take 256) ++ [1]

/-- `nz_index[]`: the symbols with a non-zero count, ascending; the pseudo-symbol 256 is last -/
def nzIndex (freq1 : List Nat) : List Nat := (List.range 257).filter (fun i => freq1.getD i 0 ≠ 0)

/-- `codesize[0 .. num_nz_symbols-1]` after the merge loop -/
def genCs (freq0 : List Nat) : List Nat :=
  (List.range (nzIndex (freqIn freq0)).length).map
    (csOf (mergeAll 300 (initForest ((nzIndex (freqIn freq0)).map ((freqIn freq0).getD · 0)) 0)))

/-- `bits[]` as counted from `codesize[]` -/
def b0Of (cs : List Nat) : Bits := ⟨fun l => ((List.range 33).map (fun l => cs.count l)).getD l 0⟩

/-- `bits[]` after the length-limiting loop and the removal of the pseudo-symbol's count -/
def b3Of (cs : List Nat) : Bits :=
  let b2 := limitAll (b0Of cs)
  b2.upd (findJ 16 b2) (b2.f (findJ 16 b2) - 1)

/-- `htbl->bits[0..16]`, narrowed to UINT8 on copy-out -/
def genBits (cs : List Nat) : List Nat :=
  let b3 := b3Of cs
  (List.range 17).map (fun l => b3.f l % 256)

/-- `jpeg_gen_optimal_table`.  `freq` has 257 entries (entry 256 is overwritten with 1).
(Counters are `int` since the repair of D4, DESIGN I.7.) -/
def genOptimalTable (freq0 : List Nat) : GenResult :=
  let cs := genCs freq0
  if cs.any (· > 32) then .clenOverflow else
  let nz := nzIndex (freqIn freq0)
  let bits := genBits cs
  .ok ⟨bits, (placeVals cs nz (nz.length - 1) (bitPos (b0Of cs))).toList.take (bits.drop 1).sum⟩

end LJT.Huff
