"""C11 - only the documented extent of caller buffers is read or written."""
ID = "C11"
VARIANTS = ["san", "simd", "sse2", "sanp"]
VARIANT_ALIAS = {"sse2": "simd"}
ENV = {"sse2": {"JSIMD_FORCESSE2": "1"}}
RULE = ("every caller buffer is an mmap'ed region whose documented last byte (or first byte) touches a PROT_NONE page, so an access one byte "
        "outside is a SIGSEGV; source buffers are made read-only.  g11d: tj3Decompress8/12/16 into such a buffer for every width 1..70 "
        "(all residues modulo the vector widths), pixel format, scaling factor, cropping region, row padding 0..40, both row orders, "
        "8/12/16-bit; run twice with different prefill: the set of bytes written must be exactly the model's (the samples of the rows, "
        "never the row padding) - compared as a digest with the Lean model of the extent.  g11c: tj3Compress8/12/16 (lossy and lossless) "
        "from a read-only buffer with pitch.  g11r: jpeg_read_scanlines (libjpeg API) into rows placed at every byte alignment inside a canary "
        "field - RGB565 and the extended RGB colourspaces, every dither mode, merged and separate upsampling, horizontal crops.  g11y: tj3EncodeYUVPlanes8, tj3DecodeYUVPlanes8, tj3CompressFromYUVPlanes8 and "
        "tj3DecompressToYUVPlanes8 (with scaling) on planes of exactly tj3YUVPlaneSize() bytes each with stride padding, which must stay "
        "untouched.  Run on the build without SIMD (ASan), with AVX2 and with SSE2")
TRUSTED = ["guard pages and canaries observe the real accesses; Model.Extent is the documented addressing arithmetic"]
ASSUMPTIONS = ["page size 4096; reads of SIMD kernels beyond a row but inside the page-aligned mapping before the guard page are invisible when the buffer is flush at the other end - both placements are exercised"]


def classify(op, R):
    p = op.split(" ")
    if p[0] == "g11d": return "g11d:ss%s:pf%s:sf%s:p%s:w%d:fe%s:crop%d" % (p[1], p[5], p[6], p[11], int(p[2]) % 16, p[9], 1 if p[10] != "0" else 0)
    if p[0] == "g11r": return "g11r:ss%s:cs%s:off%s:d%s:f%s:w%d:crop%d" % (p[1], p[4], p[5], p[7], p[8], int(p[2]) % 4, 1 if p[10] != "0" else 0)
    if p[0] == "g11c": return "g11c:pf%s:ss%s:p%s:ll%s:w%d" % (p[3], p[4], p[8], p[9], int(p[1]) % 16)
    return "g11y:ss%s:w%d:sf%s" % (p[3], int(p[1]) % 16, p[7])


def gen_ops(rng, tier):
    big = tier == "thorough"
    ops = []
    for i in range(8000 if big else 1100):
        prec = rng.choice([8, 8, 8, 8, 12])
        ops.append("g11d %d %d %d %d %d %d %d %d %d %d %d %d" % (rng.choice([0, 1, 2, 3, 4, 5, 6, 2, 1]), rng.choice([rng.randint(1, 70), rng.randint(1, 40), 16, 32, 33, 31]), rng.randint(1, 30),
                                                           rng.randrange(1 << 30), rng.randrange(12), rng.randrange(16), rng.choice([0, 0, 1, 2, 3, 7, 40]), rng.randrange(2), rng.randrange(2),
                                                           rng.choice([0, 0, 0] + list(range(1, 40))), prec, rng.randrange(4)))
    # call history: cropping region set under a scaling factor of 1/2, decompression at another one (flag bit 2)
    for i in range(1500 if big else 200):
        ops.append("g11d %d %d %d %d %d %d %d %d %d %d 8 %d" % (rng.choice([0, 1, 2, 2, 2, 4, 5, 6]), rng.choice([33, 40, 48, 64, 70]), rng.randint(9, 30), rng.randrange(1 << 30),
                                                              rng.randrange(12), rng.choice([8, 8, 8, 9, 11, 13, 15]), rng.choice([0, 0, 1, 7]), rng.randrange(2), rng.randrange(2), rng.randint(1, 39), 4 + rng.randrange(4)))
    for i in range(4000 if big else 500):
        prec = rng.choice([8, 8, 8, 12, 16, rng.randint(2, 16)])
        ll = 1 if prec not in (8, 12) else rng.randrange(2)
        ops.append("g11c %d %d %d %d %d %d %d %d %d" % (rng.choice([rng.randint(1, 70), 16, 32, 33, 31, 17]), rng.randint(1, 24), rng.randrange(12), rng.randrange(7), rng.choice([0, 0, 1, 3, 9, 40]),
                                                       rng.randrange(2), rng.randrange(1 << 30), prec, ll))
    for i in range(4000 if big else 500):
        # last argument: entropy-coding parameters set on the instance that colour conversion / downsampling must not depend on
        # (bit 0 TJPARAM_LOSSLESS, 1 PROGRESSIVE, 2 ARITHMETIC, 3 OPTIMIZE, 4 RESTARTROWS)
        ops.append("g11y %d %d %d %d %d %d %d %d" % (rng.choice([rng.randint(1, 70), 16, 32, 33, 31, 17]), rng.randint(1, 24), rng.choice([0, 1, 2, 3, 4, 5, 6]), rng.choice([0, 0, 1, 3, 8]),
                                                    rng.randrange(2), rng.randrange(1 << 30), rng.randrange(16), rng.choice([0, 0, 0, 1, 1, 2, 4, 8, 16, 31])))
    # libjpeg API: rows inside a canary field at every alignment, RGB565 (JCS 16) and the extended RGB colourspaces (6..15), every
    # dither mode, merged and separate upsampling, with and without a horizontal crop
    for i in range(6000 if big else 900):
        w = rng.choice([rng.randint(1, 40), 10, 12, 16, 17, 18, 24, 32, 33])
        cs = rng.choice([16, 16, 16, 6, 8, 9, 12, 13, 2, 1])
        # RGB565 pixels are 16-bit words: their rows are kept 2-byte aligned (stores through odd addresses are the known finding D31 of
        # C01); the byte formats get every alignment and row distance
        off = rng.choice([0, 2]) if cs == 16 else rng.randrange(4)
        pad = rng.choice([0, 2, 2, 6]) if cs == 16 else rng.choice([0, 1, 2, 3, 6])
        ops.append("g11r %d %d %d %d %d %d %d %d %d %d %d" % (rng.choice([0, 1, 2, 2, 4, 3]), w, rng.randint(1, 20), cs, off,
                                                             pad, rng.randrange(3), rng.randrange(2), rng.randrange(40), rng.choice([0, 0, 3, 4, 7, 16, 40]), rng.randrange(1 << 30)))
    return ops


def search(ctx, failing_ops):
    return []


MANIFEST = {
    "text": ("Kernel-checked Lean theorems on the addressing arithmetic of packed-pixel buffers: every sample of every row lies below the "
             "documented size pitch*(height-1)+rowBytes in either row order; a byte offset belongs to some row exactly when offset/pitch < "
             "height and offset mod pitch < rowBytes, so row padding and everything behind the last row belong to no row; rows do not "
             "overlap (planar buffers: C20 theorems).  On the real code every buffer is flush against inaccessible pages, sources are "
             "read-only, and the observed write mask of decompression must equal the model's mask exactly."),
    "design_ref": "DESIGN.md 6.11",
    "note": ("Partial: that the code performs only the accesses of the model is observed (guard pages, canaries, write-mask digest), not "
             "proved. Trusted: Lean kernel; axioms propext, Quot.sound, Classical.choice; the MMU."),
    "technique": "Lean 4 proof (extent arithmetic) + guard-page / write-mask observation of the real code at three SIMD levels, mask compared with the model",
}
