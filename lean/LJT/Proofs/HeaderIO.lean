import LJT.Model.HeaderIO
/-! Header fields survive the trip through the marker writer and the marker reader. -/
namespace LJT.HeaderIO
open LJT.Gen

theorem hi8 (x : Nat) : (x >>> 8) &&& 0xFF = (x / 256) % 256 := by
  rw [Nat.shiftRight_eq_div_pow, show (0xFF : Nat) = 2 ^ 8 - 1 by rfl, Nat.and_two_pow_sub_one_eq_mod]
theorem lo8 (x : Nat) : x &&& 0xFF = x % 256 := by
  rw [show (0xFF : Nat) = 2 ^ 8 - 1 by rfl, Nat.and_two_pow_sub_one_eq_mod]
theorem lo4 (x : Nat) : x &&& 15 = x % 16 := by
  rw [show (15 : Nat) = 2 ^ 4 - 1 by rfl, Nat.and_two_pow_sub_one_eq_mod]
theorem hi4 (x : Nat) : (x >>> 4) &&& 15 = (x / 16) % 16 := by
  rw [Nat.shiftRight_eq_div_pow, lo4]
theorem shr4 (x : Nat) : x >>> 4 = x / 16 := by rw [Nat.shiftRight_eq_div_pow]
theorem shl8 (x : Nat) : x <<< 8 = x * 256 := by rw [Nat.shiftLeft_eq]
theorem shl4 (x : Nat) : x <<< 4 = x * 16 := by rw [Nat.shiftLeft_eq]

theorem join2 (x : Nat) (h : x < 65536) : (((x >>> 8) &&& 0xFF) <<< 8) + (x &&& 0xFF) = x := by
  rw [hi8, lo8, shl8]; omega

theorem examinedLen_app0 (limit : Nat) : examinedLen 0xE0 limit 14 = 14 := by
  unfold examinedLen Header.saveLimit
  simp only [APP0_DATA_LEN, APP14_DATA_LEN]
  by_cases h0 : limit = 0
  · simp [h0]
  · by_cases h1 : limit < 14
    · simp [h0, h1]
    · simp [h0, h1]; omega

theorem examinedLen_app14 (limit : Nat) : examinedLen 0xEE limit 12 = 12 := by
  unfold examinedLen Header.saveLimit
  simp only [APP0_DATA_LEN, APP14_DATA_LEN]
  by_cases h0 : limit = 0
  · simp [h0]
  · by_cases h1 : limit < 12
    · simp [h0, h1]
    · simp [h0, h1]; omega

/-- **JFIF density, units and version round-trip**, whatever save limit the application installed for APP0 -/
theorem jfif_roundtrip (j : Jfif) (h1 : j.major < 256) (h2 : j.minor < 256) (h3 : j.unit < 256)
    (h4 : j.xd < 65536) (h5 : j.yd < 65536) (limit : Nat) :
    examineApp0 ((jfifPayload j).take (examinedLen 0xE0 limit 14)) = some j := by
  rw [examinedLen_app0]
  unfold jfifPayload examineApp0 emit2 byte
  simp only [List.cons_append, List.nil_append, List.take_succ_cons, List.take_zero, List.length_cons, List.length_nil,
    List.getD_cons_zero, List.getD_cons_succ, APP0_DATA_LEN]
  simp only [Nat.mod_eq_of_lt h1, Nat.mod_eq_of_lt h2, Nat.mod_eq_of_lt h3, join2 _ h4, join2 _ h5]
  simp

/-- **Adobe colour transform round-trips**, whatever save limit the application installed for APP14 -/
theorem adobe_roundtrip (t : Nat) (h : t < 256) (limit : Nat) :
    examineApp14 ((adobePayload t).take (examinedLen 0xEE limit 12)) = some t := by
  rw [examinedLen_app14]
  unfold adobePayload examineApp14 emit2 byte
  simp only [List.cons_append, List.nil_append, List.take_succ_cons, List.take_zero, List.length_cons, List.length_nil,
    List.getD_cons_zero, List.getD_cons_succ, APP14_DATA_LEN]
  simp [Nat.mod_eq_of_lt h]

theorem parseComps_roundtrip : ∀ (cs : List CompInfo) (rest : List Nat),
    (∀ c ∈ cs, c.id < 256 ∧ c.h < 16 ∧ c.v < 16 ∧ c.tq < 256) →
    parseComps cs.length (cs.flatMap (fun c => [byte c.id, byte ((c.h <<< 4) + c.v), byte c.tq]) ++ rest) = some cs := by
  intro cs
  induction cs with
  | nil => intro rest _; rfl
  | cons c cs ih =>
    intro rest h
    obtain ⟨a1, a2, a3, a4⟩ := h c (by simp)
    simp only [List.flatMap_cons, List.cons_append, List.nil_append, List.length_cons, parseComps]
    rw [ih rest (fun x hx => h x (by simp [hx]))]
    simp only [Option.map_some, byte, lo4, shl4, shr4]
    congr 2
    have e1 : c.id % 256 = c.id := Nat.mod_eq_of_lt a1
    have e2 : c.tq % 256 = c.tq := Nat.mod_eq_of_lt a4
    have e3 : (c.h * 16 + c.v) % 256 = c.h * 16 + c.v := Nat.mod_eq_of_lt (by omega)
    have e4 : (c.h * 16 + c.v) / 16 % 16 = c.h := by omega
    have e5 : (c.h * 16 + c.v) % 16 = c.v := by omega
    rw [e1, e2, e3, e4, e5]

/-- **Frame header round trip**: precision, dimensions, and every component's identifier, sampling factors and
quantisation-table selector -/
theorem sof_roundtrip (s : Sof) (hp : s.precision < 256) (hh1 : 1 ≤ s.height) (hh : s.height < 65536)
    (hw1 : 1 ≤ s.width) (hw : s.width < 65536) (hn1 : 1 ≤ s.comps.length) (hn : s.comps.length < 256)
    (hc : ∀ c ∈ s.comps, c.id < 256 ∧ c.h < 16 ∧ c.v < 16 ∧ c.tq < 256) :
    parseSof (sofBytes s) = some s := by
  unfold sofBytes parseSof emit2
  simp only [List.cons_append, List.nil_append]
  have hl : 3 * s.comps.length + 2 + 5 + 1 < 65536 := by omega
  simp only [join2 _ hl, join2 _ hh, join2 _ hw, byte, Nat.mod_eq_of_lt hn, Nat.mod_eq_of_lt hp]
  have := parseComps_roundtrip s.comps [] hc
  simp only [List.append_nil] at this
  rw [if_neg (by omega), if_neg (by omega)]
  simp only [byte] at this
  rw [this]
  rfl

theorem dri_roundtrip (ri : Nat) (h : ri < 65536) : parseDri (driBytes ri) = some ri := by
  unfold driBytes parseDri emit2
  simp only [List.cons_append, List.nil_append]
  rw [join2 _ h]
  simp

/-- **Predictor selection value / spectral selection and point transform / successive approximation** -/
theorem sos_params_roundtrip (ss se ah al : Nat) (h1 : ss < 256) (h2 : se < 256) (h3 : ah < 16) (h4 : al < 16) :
    parseSosParams (sosParams ss se ah al) = some (ss, se, ah, al) := by
  unfold sosParams parseSosParams byte
  simp only [lo4, shl4, shr4, Nat.mod_eq_of_lt h1, Nat.mod_eq_of_lt h2]
  have e3 : (ah * 16 + al) % 256 = ah * 16 + al := Nat.mod_eq_of_lt (by omega)
  rw [e3]
  congr 4 <;> omega

end LJT.HeaderIO
