import LJT.Proofs.HuffOpt10
/-! K.2 generator, part 11: the theorem about the returned `huffval[]`. -/
set_option maxRecDepth 20000
namespace LJT.Huff

theorem csum_cons (x : Nat) (xs : List Nat) : ∀ n,
    csum (fun j => (x :: xs).getD j 0) (n + 1) = x + csum (fun j => xs.getD j 0) n := by
  intro n
  induction n with
  | zero => simp [csum]
  | succ n ih =>
    have : csum (fun j => (x :: xs).getD j 0) (n + 1 + 1) =
        csum (fun j => (x :: xs).getD j 0) (n + 1) + (x :: xs).getD (n + 1) 0 := rfl
    rw [this, ih]
    simp only [csum, List.getD_cons_succ]; omega

theorem sum_eq_csum : ∀ (l : List Nat), l.sum = csum (fun j => l.getD j 0) l.length := by
  intro l
  induction l with
  | nil => rfl
  | cons x xs ih => rw [List.length_cons, csum_cons, List.sum_cons, ih]

theorem drop1_sum (l : List Nat) (h : 1 ≤ l.length) :
    (l.drop 1).sum + l.getD 0 0 = csum (fun j => l.getD j 0) l.length := by
  cases l with
  | nil => simp at h
  | cons x xs =>
    rw [List.length_cons, csum_cons, List.drop_one, List.tail_cons, sum_eq_csum xs]
    simp; omega

/-- **`jpeg_gen_optimal_table`, symbol list.**  Unless the function leaves through `JERR_HUFF_CLEN_OVERFLOW`, the
`huffval[]` it returns lists exactly the symbols with a non-zero frequency, each once (`Perm`), and a
symbol whose Huffman code length (`codesize[]`, before the limiting step) is shorter stands before every
symbol whose length is longer: symbol number `k` (in ascending symbol order) stands at position
`pos cs k`. -/
theorem genOptimalTable_vals (freq0 : List Nat) (hlen : freq0.length ≤ 257)
    (htot : ((List.range 256).map (freq0.getD · 0)).sum < 1000000000) :
    genOptimalTable freq0 = .clenOverflow ∨
    ∃ t, genOptimalTable freq0 = .ok t ∧ t.vals.length = (nzReal freq0).length ∧
      t.vals.Perm (nzReal freq0) ∧
      (∀ k, k < (nzReal freq0).length → pos (genCs freq0) k < (nzReal freq0).length ∧
        t.vals.getD (pos (genCs freq0) k) 0 = (nzReal freq0).getD k 0) ∧
      (∀ k k', k < (nzReal freq0).length → k' < (nzReal freq0).length →
        (genCs freq0).getD k 0 < (genCs freq0).getD k' 0 → pos (genCs freq0) k < pos (genCs freq0) k') := by
  rw [genOptimalTable_eq]
  by_cases hov : (genCs freq0).any (· > 32) = true
  · left; simp [hov]
  · right
    have hno : (genCs freq0).any (· > 32) = false := by simpa using hov
    simp only [hno, Bool.false_eq_true, if_false]
    obtain ⟨hb, hlen', hmax, hone⟩ := genBits_ok freq0 hlen htot hno
    have hb' : BitsOK (fun l => (genBits (genCs freq0)).getD l 0) (nzReal freq0).length :=
      hb.congr (fun l hl => genBits_getD _ hb.small l hl)
    have htotal : ((genBits (genCs freq0)).drop 1).sum = (nzReal freq0).length := by
      have h17 : (genBits (genCs freq0)).length = 17 := by simp [genBits]
      have := drop1_sum (genBits (genCs freq0)) (by omega)
      rw [h17, hb'.count, hb'.zero] at this
      omega
    have hnz := nzIndex_eq freq0 hlen
    have hm := nzReal_length freq0
    have hnzget : ∀ k, k < (nzReal freq0).length →
        (nzIndex (freqIn freq0)).getD k 0 % 256 = (nzReal freq0).getD k 0 := by
      intro k hk
      rw [hnz]
      simp only [List.getD_eq_getElem?_getD]
      rw [List.getElem?_append_left hk]
      have : (nzReal freq0).getD k 0 < 256 := (nzReal_lt freq0 _ (getD_mem hk)).1
      simp only [List.getD_eq_getElem?_getD] at this
      exact Nat.mod_eq_of_lt this
    have h32 : ∀ c ∈ genCs freq0, c ≤ 32 := by
      intro c hc
      have h2 := List.any_eq_false.1 hno c hc
      simpa using h2
    refine ⟨_, rfl, ?_⟩
    simp only [htotal, hnz, List.length_append, List.length_cons, List.length_nil, Nat.add_sub_cancel]
    rw [← hnz]
    by_cases hm0 : (nzReal freq0).length = 0
    · -- no real symbol at all
      rw [hm0]
      have hnil : nzReal freq0 = [] := List.eq_nil_of_length_eq_zero hm0
      simp [hnil]
    · have h0 : (genCs freq0).count 0 = 0 := by
        apply List.count_eq_zero.2
        intro h; have := hone (by omega) 0 h; omega
      obtain ⟨v1, v2, v3⟩ := placeVals_spec (genCs freq0) (nzIndex (freqIn freq0)) (nzReal freq0).length
        hlen' hm hmax h32 h0
      refine ⟨v1, ?_, ?_, ?_⟩
      · refine v3.trans (List.Perm.of_eq ?_)
        apply List.ext_getElem
        · simp
        · intro i h1 h2
          simp only [List.getElem_map, List.getElem_range]
          rw [hnzget i (by simpa using h1)]
          simp [List.getD_eq_getElem?_getD, List.getElem?_eq_getElem h2]
      · intro k hk
        obtain ⟨a1, a2⟩ := v2 k hk
        exact ⟨a1, by rw [a2, hnzget k hk]⟩
      · intro k k' hk hk' hlt
        exact pos_lt_of_cs_lt _ (by omega) (by omega) hlt

end LJT.Huff
