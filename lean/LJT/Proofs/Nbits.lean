import LJT.Proofs.NbitsTable
namespace LJT

theorem nbitsSpec_bounds (x : Nat) (h : x ≠ 0) :
    2 ^ (nbitsSpec x - 1) ≤ x ∧ x < 2 ^ nbitsSpec x := by
  simp only [nbitsSpec, h, if_false]
  exact ⟨by simpa using Nat.log2_self_le h, Nat.lt_log2_self⟩

theorem nbitsSpec_unique (x n : Nat) (h : x ≠ 0) (h1 : 2 ^ (n - 1) ≤ x) (h2 : x < 2 ^ n) :
    nbitsSpec x = n := by
  simp only [nbitsSpec, h, if_false]
  have hn : n ≠ 0 := by
    intro h0; subst h0; simp at h2; exact h h2
  have : x.log2 = n - 1 := (Nat.log2_eq_iff h).2 ⟨h1, by rwa [Nat.sub_add_cancel (by omega)]⟩
  omega

theorem nbitsClz_eq (fuel x : Nat) (h : x < 2 ^ fuel) : nbitsClz fuel x = nbitsSpec x := by
  induction fuel generalizing x with
  | zero => simp at h; subst h; simp [nbitsClz, nbitsSpec]
  | succ k ih =>
    unfold nbitsClz
    by_cases hx : x = 0
    · simp [hx, nbitsSpec]
    · simp only [hx, if_false]
      have hlt : x / 2 < 2 ^ k := by
        rw [Nat.pow_succ] at h; omega
      rw [ih _ hlt]
      simp only [nbitsSpec, hx, if_false]
      rw [Nat.log2_def x]
      by_cases h2 : 2 ≤ x
      · have : x / 2 ≠ 0 := by omega
        simp [h2, this]
      · have : x = 1 := by omega
        subst this; simp

end LJT
