/-! Entropy-coded segment byte layer shared by all Huffman coders
(jchuff.c / jclhuff.c / jcphuff.c `emit_bits` + `flush_bits`; jdhuff.c
`jpeg_fill_bit_buffer`): bits are packed most-significant first, the last byte of a
segment is padded with 1-bits, every 0xFF data byte is followed by a stuffed 0x00, segments
are separated by RSTn markers (0xFF 0xD0+n). -/
namespace LJT.Bits

/-- pack a multiple-of-8 bit list into bytes, MSB first -/
def packBytes : List Bool → List Nat
  | b7 :: b6 :: b5 :: b4 :: b3 :: b2 :: b1 :: b0 :: rest =>
    ((((((((if b7 then 1 else 0) * 2 + (if b6 then 1 else 0)) * 2 + (if b5 then 1 else 0)) * 2 +
      (if b4 then 1 else 0)) * 2 + (if b3 then 1 else 0)) * 2 + (if b2 then 1 else 0)) * 2 +
      (if b1 then 1 else 0)) * 2 + (if b0 then 1 else 0)) :: packBytes rest
  | _ => []

def byteBits (b : Nat) : List Bool :=
  [b / 128 % 2 = 1, b / 64 % 2 = 1, b / 32 % 2 = 1, b / 16 % 2 = 1,
   b / 8 % 2 = 1, b / 4 % 2 = 1, b / 2 % 2 = 1, b % 2 = 1]

def unpackBytes (bs : List Nat) : List Bool := bs.flatMap byteBits

/-- number of 1-bits `flush_bits` appends -/
def padLen (n : Nat) : Nat := (8 - n % 8) % 8

def pad (bits : List Bool) : List Bool := bits ++ List.replicate (padLen bits.length) true

/-- byte stuffing -/
def stuff : List Nat → List Nat
  | [] => []
  | b :: bs => if b = 0xFF then 0xFF :: 0x00 :: stuff bs else b :: stuff bs

/-- remove stuffed zeros (the reader: `FF 00` -> `FF`); a segment handed to this function
contains no marker -/
def unstuff : List Nat → List Nat
  | [] => []
  | [b] => [b]
  | b :: c :: bs => if b = 0xFF ∧ c = 0x00 then 0xFF :: unstuff bs else b :: unstuff (c :: bs)

/-- the bytes of one entropy-coded segment -/
def segmentBytes (bits : List Bool) : List Nat := stuff (packBytes (pad bits))

/-- the bits the decoder sees in one segment -/
def segmentBits (bytes : List Nat) : List Bool := unpackBytes (unstuff bytes)

/-- segments joined by RSTn markers, n cycling 0..7 starting from `k` -/
def joinRST : List (List Nat) → Nat → List Nat
  | [], _ => []
  | [s], _ => s
  | s :: s' :: rest, k => s ++ [0xFF, 0xD0 + k % 8] ++ joinRST (s' :: rest) (k + 1)

/-- split entropy-coded data at RSTn markers: `FF` followed by `D0..D7` -/
def splitRST : List Nat → List Nat → List (List Nat)
  | [], acc => [acc.reverse]
  | [b], acc => [(b :: acc).reverse]
  | b :: c :: bs, acc =>
    if b = 0xFF ∧ 0xD0 ≤ c ∧ c ≤ 0xD7 then acc.reverse :: splitRST bs []
    else if b = 0xFF ∧ c = 0x00 then splitRST bs (0x00 :: 0xFF :: acc)
    else splitRST (c :: bs) (b :: acc)

end LJT.Bits
