"""C01 - decoding arbitrary bytes is memory-safe, terminating and error-reporting."""
import random
from . import C03 as _C03
ID = "C01"
VARIANTS = ["san", "simd", "sanp"]      # sanp: san built with -DLJT_VERIF_POOLS (no pool slop: ASan sees intra-pool overruns)
RULE = ("stage 1: well-formed streams of every process from the real encoders (ent: baseline, optimised, progressive with random scripts, "
        "arithmetic sequential/progressive, multi-scan, 8/12-bit, all sampling factors, restart markers; mkjpg: lossless at every "
        "precision 2..16 with predictors 1..7 and point transforms, lossy 8/12-bit with restart rows/blocks, gray/RGB/CMYK).  stage 2 "
        "(dfz): each stream unchanged and under seeded mutations (bit flips in headers and entropy data, truncation at every kind of "
        "place, inserted and deleted bytes, marker-length edits, dimension / sampling-factor / table-selector / Ns / Ss-Se-Ah-Al edits, "
        "duplicated and reordered segments, splices of two streams, 0x00 / 0xFF runs, pure noise) is decoded through tj3DecompressHeader + "
        "tj3Decompress8/12/16 (all pixel formats, scaling factors, cropping regions, fast upsampling / DCT, stop-on-warning, bottom-up), "
        "tj3DecompressToYUV8 (scaling, alignment), tj3Transform (all operations and options, crop), libjpeg jpeg_read_scanlines with "
        "scale 1/8..16/8, all DCT methods, fancy / merged upsampling, block smoothing, 1- and 2-pass colour quantisation with dithering, "
        "RGB565 and extended colourspaces, jpeg_crop_scanline + jpeg_skip_scanlines, buffered-image mode with intermediate output passes, "
        "saved markers, and jpeg_read_coefficients - with pixel, scan and memory limits configured.  Every call runs twice with "
        "different buffer prefill: equal outcome and equal produced output are required (uninitialised output shows as a difference); "
        "ASan/UBSan reports, crashes and the per-call watchdog are failures; hand-built frames/scans of 5..255 components (all SOF types)")
TRUSTED = ["sanitizers and the prefill differencing are the observers of memory safety and initialisation on the real code; the theorems "
           "cover the model decoders only"]
ASSUMPTIONS = ["pixel limit 2^20, scan limit 64 (500 in a fifth of the calls) and a 256 MB memory limit are configured, as the property presupposes"]


def classify(op, R):
    if op.startswith("g11r "):
        p = op.split(" ")
        return "g11r:ss%s:cs%s:f%s:crop%d" % (p[1], p[4], p[8], 1 if p[10] != "0" else 0)
    return _classify(op, R)


def _classify(op, R):
    p = op.split(" ")
    if p[0] == "dfz":
        r = R.split(" ")
        return "dfz:api%s:%s" % (p[1], r[1] if len(r) > 1 else "?")
    if p[0] == "mkjpg": return "mkjpg:k%d" % (int(p[1]) % 2)
    return _C03.classify(op, R)


def gen_ops(rng, tier):
    big = tier == "thorough"
    ops = []
    for _ in range(160 if big else 45):
        o = _C03.one(rng).split(" ")
        o[2] = str(rng.randint(1, 40)); o[3] = str(rng.randint(1, 40))
        o[11] = "-1"
        ops.append(" ".join(o))
    for _ in range(160 if big else 45):
        ops.append("mkjpg %d %d" % (rng.randrange(2), rng.randrange(1 << 30)))
    # valid streams through the libjpeg API into rows of exactly the documented size inside a canary field (the g11r operation of C11):
    # RGB565 and the extended colourspaces, every dither mode, merged and separate upsampling, crops of every width
    for _ in range(2000 if big else 350):
        cs = rng.choice([16, 16, 16, 16, 6, 8, 9, 12, 13, 2])
        ops.append("g11r %d %d %d %d %d %d %d %d %d %d %d" % (rng.choice([0, 1, 2, 2, 2, 4, 3]), rng.choice([rng.randint(1, 100), 16, 17, 32, 33, 96]), rng.randint(1, 34), cs,
                                                             rng.choice([0, 2]) if cs == 16 else rng.randrange(4), rng.choice([0, 2, 6]) if cs == 16 else rng.randrange(7),
                                                             rng.randrange(3), rng.randrange(2), rng.randrange(100), rng.choice([0, 1, 2, 3, 4, 7, 16, 33, 64]), rng.randrange(1 << 30)))
    return ops


def mutate(rng, b, other):
    b = bytearray(b)
    n = len(b)
    k = rng.randrange(15)
    if k == 14: k = 13
    def markers():
        return [i for i in range(2, n - 3) if b[i] == 0xFF and b[i + 1] not in (0, 0xFF) and not (0xD0 <= b[i + 1] <= 0xD7)]
    if k == 0:
        for _ in range(rng.randint(1, 6)):
            i = rng.randrange(n); b[i] ^= 1 << rng.randrange(8)
    elif k == 1:
        b = b[:rng.randrange(1, n)]
    elif k == 2:
        i = rng.randrange(n); b[i:i] = bytes(rng.randrange(256) for _ in range(rng.randint(1, 8)))
    elif k == 3:
        i = rng.randrange(n); del b[i:i + rng.randint(1, 20)]
    elif k == 4:
        ms = markers()
        if ms:
            i = rng.choice(ms); v = rng.choice([0, 1, 2, 3, 0xFFFF, 0x7FFF, (b[i + 2] << 8 | b[i + 3]) + rng.choice([-2, -1, 1, 2, 64])]) & 0xFFFF
            b[i + 2] = v >> 8; b[i + 3] = v & 255
    elif k == 5:
        # frame header fields
        for i in markers():
            if 0xC0 <= b[i + 1] <= 0xCF and b[i + 1] not in (0xC4, 0xC8, 0xCC) and i + 12 < n:
                f = rng.randrange(6)
                if f == 0: b[i + 4] = rng.choice([0, 1, 2, 7, 8, 9, 12, 13, 16, 17, 255])
                elif f == 1: b[i + 5:i + 7] = bytes([rng.choice([0, 0xFF, 0x7F]), rng.randrange(256)])
                elif f == 2: b[i + 7:i + 9] = bytes([rng.choice([0, 0xFF, 0x7F]), rng.randrange(256)])
                elif f == 3: b[i + 9] = rng.choice([0, 1, 2, 3, 4, 5, 10, 11, 255])
                elif f == 4: b[i + 11] = rng.choice([0x00, 0x11, 0x21, 0x12, 0x22, 0x41, 0x14, 0x44, 0x55, 0xF1, 0x1F, 0x33])
                else: b[i + 12] = rng.randrange(256)
                break
    elif k == 6:
        for i in markers():
            if b[i + 1] == 0xDA and i + 8 < n:
                j = i + 4 + rng.randrange(min(12, n - i - 5)); b[j] = rng.choice([0, 1, 2, 3, 4, 5, 0x10, 0x11, 0x33, 0x44, 63, 64, 255, rng.randrange(256)])
                if rng.random() < .5: break
    elif k == 7:
        ms = markers()
        if len(ms) >= 2:
            i, j = sorted(rng.sample(ms, 2)); seg = bytes(b[i:j]); p = rng.choice(ms); b[p:p] = seg
    elif k == 8 and other:
        cut = rng.randrange(2, n); cut2 = rng.randrange(2, len(other)); b = b[:cut] + bytearray(other[cut2:])
    elif k == 9:
        i = rng.randrange(n); b[i:i + rng.randint(1, 40)] = bytes([rng.choice([0, 0xFF])]) * rng.randint(1, 40)
    elif k == 10:
        # entropy data damage only
        for i in markers():
            if b[i + 1] == 0xDA:
                s = i + 2 + (b[i + 2] << 8 | b[i + 3])
                if s < n - 2:
                    for _ in range(rng.randint(1, 10)):
                        j = rng.randrange(s, n - 2); b[j] = rng.choice([b[j] ^ (1 << rng.randrange(8)), 0xFF, 0, 0xD0 + rng.randrange(8), 0xD9])
                break
    elif k == 11:
        b = bytearray(b[:2]) + bytearray(rng.randrange(256) for _ in range(rng.randint(0, 300)))
    elif k == 12:
        # DHT / DQT / DRI / DAC payload
        for i in markers():
            if b[i + 1] in (0xC4, 0xDB, 0xDD, 0xCC) and rng.random() < .6:
                L = b[i + 2] << 8 | b[i + 3]
                for _ in range(rng.randint(1, 5)):
                    j = i + 4 + rng.randrange(max(1, min(L - 2, n - i - 5))); b[j] = rng.choice([0, 1, 0xFF, 16, 17, 0x80, rng.randrange(256)])
                break
    else:
        # progressive stream with a zero among the ten quantisers that block smoothing divides by, optionally cut after the
        # first scan so that the AC coefficients are still unknown and smoothing is active
        ms = markers()
        dq = [i for i in ms if b[i + 1] == 0xDB]
        if dq:
            i = rng.choice(dq)
            if (b[i + 4] >> 4) == 0 and i + 5 + 10 < n:
                b[i + 5 + rng.choice([1, 2, 3, 4, 5, 6, 7, 8, 9, 9, 9])] = 0
        sos = [i for i in ms if b[i + 1] == 0xDA]
        if len(sos) >= 2 and rng.random() < .7:
            b = b[:sos[rng.randint(1, min(3, len(sos) - 1))]] + bytearray([0xFF, 0xD9])
    return bytes(b)


def many_component_stream(sof, nf, ns, tables=True, data=b""):
    """a frame of `nf` components (ids 1..nf, 1x1 sampling) and one scan naming the first `ns` of them - self-consistent lengths, so
    that the parser gets as far as storing the scan's component pointers; T.81 allows at most 4 components in a scan"""
    def seg(m, payload):
        return bytes([0xFF, m]) + (len(payload) + 2).to_bytes(2, "big") + payload
    out = b"\xff\xd8"
    if tables:
        out += seg(0xDB, bytes([0]) + bytes([1] * 64))
        out += seg(0xC4, bytes([0x00]) + bytes([0, 1] + [0] * 14) + bytes([0]))
        out += seg(0xC4, bytes([0x10]) + bytes([0, 1] + [0] * 14) + bytes([0]))
    comps = b"".join(bytes([(i + 1) & 255, 0x11, 0]) for i in range(nf))
    out += seg(sof, bytes([8, 0, 8, 0, 8, nf & 255]) + comps)
    sc = b"".join(bytes([(i + 1) & 255, 0x00]) for i in range(ns))
    out += seg(0xDA, bytes([ns & 255]) + sc + bytes([0, 63, 0]))
    return out + data + b"\xff\xd9"


def worst_huff_stream(nblocks, trunc, ones=True):
    """baseline grayscale stream whose AC table gives the symbol run 0 / size 15 the 16-bit code 0xFFFE and whose
    coefficients all have 15 value bits: 31 bits per coefficient, nearly every byte 0xFF and therefore stuffed - the
    most input bytes one block can consume.  Cut after `trunc` bytes of entropy-coded data, no EOI."""
    def seg(m, payload):
        return bytes([0xFF, m]) + (len(payload) + 2).to_bytes(2, "big") + payload
    out = b"\xff\xd8" + seg(0xDB, bytes([0]) + bytes([1] * 64))
    out += seg(0xC0, bytes([8]) + (8).to_bytes(2, "big") + (8 * nblocks).to_bytes(2, "big") + bytes([1, 1, 0x11, 0]))
    out += seg(0xC4, bytes([0x00]) + bytes([1] + [0] * 15) + bytes([0]))
    acvals = [0x00, 0x01, 0x11, 0x21, 0x31, 0x41, 0x51, 0x61, 0x71, 0x81, 0x91, 0xA1, 0xB1, 0xC1, 0xD1, 0x0F]
    out += seg(0xC4, bytes([0x10]) + bytes([1] * 16) + bytes(acvals))
    out += seg(0xDA, bytes([1, 1, 0x00, 0, 63, 0]))
    bits = []
    for _ in range(nblocks):
        bits.append("0")                                   # DC difference 0
        for _k in range(63):
            bits.append("1111111111111110")                # symbol 0x0F
            bits.append("1" * 15 if ones else "100000000000000")
    s = "".join(bits)
    s += "1" * (-len(s) % 8)
    data = bytearray()
    for i in range(0, len(s), 8):
        b = int(s[i:i + 8], 2)
        data.append(b)
        if b == 0xFF: data.append(0)
    return out + bytes(data[:trunc])


def lossless_partial_stream(w, h, ncomp, scans, prec=8):
    """lossless (SOF3) stream whose scans cover only some of the frame's components; all differences zero"""
    def seg(m, payload):
        return bytes([0xFF, m]) + (len(payload) + 2).to_bytes(2, "big") + payload
    out = b"\xff\xd8"
    out += seg(0xC3, bytes([prec]) + h.to_bytes(2, "big") + w.to_bytes(2, "big") + bytes([ncomp]) + b"".join(bytes([i + 1, 0x11, 0]) for i in range(ncomp)))
    out += seg(0xC4, bytes([0x00]) + bytes([1] + [0] * 15) + bytes([0]))
    for comps in scans:
        out += seg(0xDA, bytes([len(comps)]) + b"".join(bytes([c + 1, 0x00]) for c in comps) + bytes([1, 0, 0]))
        nbits = w * h * len(comps)
        s = "0" * nbits
        s += "1" * (-len(s) % 8)
        out += bytes(int(s[i:i + 8], 2) for i in range(0, len(s), 8))
    return out + b"\xff\xd9"


def stage2(ops, model_lines, res_by_v):
    base, fails = _C03.stage2(ops, model_lines, res_by_v)
    vs = list(res_by_v.keys())
    streams = [bytes.fromhex(o.split(" ")[1]) for o in base]
    for i, op in enumerate(ops):
        if op.startswith("mkjpg "):
            p = res_by_v[vs[0]][i][0].split(" ")
            if len(p) == 2 and p[1].startswith("ffd8"):
                streams.append(bytes.fromhex(p[1]))
    streams = [s for s in streams if len(s) < 40000]
    rng = random.Random(len(streams) * 7919 + sum(len(s) for s in streams[:5]))
    out = []
    for s in streams:
        for r in range(8):
            other = rng.choice(streams)
            m = s if r == 0 else mutate(rng, s, other)
            if rng.random() < .25 and r: m = mutate(rng, m, other)
            out.append("dfz %d %d %s" % (rng.choice([0, 0, 1, 2, 3, 3, 3, 4]), rng.randrange(1 << 30), m.hex() if m else "-"))
    # multi-scan lossless frames whose scans never cover every component: what is delivered for the missing ones must not be
    # working memory that was never written
    for (w, h, nc, scans) in ((16, 16, 3, [[0]]), (9, 5, 3, [[0], [2]]), (16, 16, 4, [[1, 2]]), (33, 3, 2, [[1]]), (16, 16, 3, [[0], [1], [2]]), (8, 8, 3, [[0, 1]])):
        for api in (0, 3, 3, 4):
            out.append("dfz %d %d %s" % (api, rng.randrange(1 << 30), lossless_partial_stream(w, h, nc, scans).hex()))
    # frames and scans with more components than a scan may have (the scan's component pointers live in a 4-entry array of the
    # decompression object)
    for sof in (0xC0, 0xC2, 0xC3, 0xC9):
        for nf, ns in ((5, 5), (10, 5), (10, 10), (11, 11), (24, 24), (25, 25), (40, 40), (255, 255), (255, 200), (4, 5), (40, 4)):
            for api in (0, 3, 4):
                out.append("dfz %d %d %s" % (api, rng.randrange(1 << 30), many_component_stream(sof, nf, ns, tables=rng.random() < .7, data=bytes([0x55] * rng.choice([0, 40]))).hex()))
    # blocks that consume the most input bytes a block can, with the data ending inside them: the decoder's choice between its
    # checked and unchecked (fast) paths must leave no read beyond the end of the input
    for nb in (1, 2, 3):
        for trunc in list(range(120, 1100, 37)) + [255, 256, 257, 511, 512, 513]:
            for ones in (True, False):
                out.append("dfz %d %d %s" % (rng.choice([0, 3, 4]), rng.randrange(1 << 30), worst_huff_stream(nb, trunc, ones).hex()))
    return out, fails


def search(ctx, failing_ops):
    return []


MANIFEST = {
    "text": ("Kernel-checked Lean theorems that hold for every bit string: the model's AC decoder never delivers more coefficients than the "
             "block holds, whatever runs and ZRLs the data encode; the zigzag table is padded so that position + 4-bit run always indexes "
             "inside it and yields a valid coefficient position; the marker loop consumes at least four bytes per segment, so the number "
             "of segments is bounded by the input length; the independent T.81 decoder is a total function.  On the real code, mutated and "
             "adversarial streams of every process are pushed through every decompression, header-reading and transformation entry point "
             "with seeded options under ASan/UBSan, a per-call watchdog and prefill differencing of the produced output."),
    "design_ref": "DESIGN.md 6.1",
    "note": ("Partial by nature: memory safety, undefined behaviour, initialisation and running time of the C code are observed, not "
             "proved. Trusted: sanitizers; Lean kernel; axioms propext, Quot.sound, Classical.choice."),
    "technique": "Lean 4 proof (for-all-bit-strings bounds on the model decoders) + mutation-driven exploration of the real decoders under sanitizers with prefill differencing",
}
