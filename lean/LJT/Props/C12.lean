import LJT.Model.History
import LJT.Props.C14
/-! # C12 - instance results are independent of prior history, even after errors

The mechanism as a theorem: if every entry point runs its epilogue (on success and after an
error) and every datastream starts with the marker-reader reset, then after *any* sequence of
parameter changes, successful calls and calls failing at any stage, a probe sees exactly what
it would see on a fresh instance carrying the same parameter settings.  Memory accounting is
history-free by C14 `after_image_release_only_permanent`.  That the real entry points do run
these steps is what the harness checks (history vs fresh instance on the real library). -/
namespace LJT.Props.C12
open LJT.History

theorem step_clean (s : St) (o : Op) (h : s.gstate = 0 ∧ s.imageBytes = 0) : (step s o).gstate = 0 ∧ (step s o).imageBytes = 0 := by
  cases o with
  | set i v => simpa [step] using h
  | call stage alloc failed mid => simp [step, epilogue]

theorem run_clean (ops : List Op) : ∀ (s : St), s.gstate = 0 ∧ s.imageBytes = 0 →
    (run s ops).gstate = 0 ∧ (run s ops).imageBytes = 0 := by
  induction ops with
  | nil => intro s h; simpa [run] using h
  | cons o t ih => intro s h; exact ih (step s o) (step_clean s o h)

/-- **A probe after any history sees a fresh instance with the same parameter settings** -/
theorem probe_sees_fresh_instance (p0 : List Int) (ops : List Op) :
    seenByProbe (run (fresh p0) ops) = seenByProbe (fresh (run (fresh p0) ops).params) := by
  have h := run_clean ops (fresh p0) (by simp [fresh])
  generalize run (fresh p0) ops = s at *
  obtain ⟨ps, g, ib, mm⟩ := s
  simp only at h
  obtain ⟨rfl, rfl⟩ := h
  simp [seenByProbe, prologue, fresh]

/-- parameter settings are the only thing that persists, and they persist exactly: the value
of a parameter after a history is the last value set (calls do not touch them) -/
theorem params_persist (s : St) (stage alloc : Nat) (failed mid : Bool) :
    (step s (.call stage alloc failed mid)).params = s.params := by
  simp [step, epilogue, body, prologue]

/-- memory accounting after the image pool is released does not depend on the history (from C14) -/
theorem accounting_history_free (s : LJT.Mem.State) (h : LJT.Mem.Inv s) :
    (LJT.Mem.freePool s 1).total = LJT.Mem.sumSizes (s.live.filter (fun b => decide (b.pool ≠ 1))) :=
  LJT.Props.C14.after_image_release_only_permanent s h

/-- non-vacuity: a history with a failure in the middle of a saved marker -/
example : seenByProbe (run (fresh [75, 2]) [.set 0 90, .call 3 5000 true true, .call 7 100 false false]) = ⟨[90, 2], 0, 0, false⟩ := by
  decide

end LJT.Props.C12
