import LJT.Proofs.TJSize
/-!
# C20 - Planar YUV images follow the published geometry and compose correctly

Full statement: plane widths, heights and sizes equal the published closed forms for every
width, height, subsampling, alignment and stride; the unified-buffer functions equal the
per-plane functions at the documented offsets; decompress-to-planes = raw-data decode
cropped; decode-planes = decompress with fast upsampling.

Proved here (for all arguments, over the model of `src/turbojpeg.c` size helpers with C
integer semantics): the geometry clauses.  The two pixel equalities are stated as
`*_partial` remarks at the end: they are decided by the correspondence/oracle run on the
real code only (DESIGN 6.20).
-/
namespace LJT.C20
open LJT.TJ LJT.Gen

/-- number of planes for a subsampling level -/
def numPlanes (s : Int) : Int := if s = (TJSAMP_GRAY : Int) then 1 else 3

/-- **Plane width closed form** and exact overflow guard: for every valid request the
function returns `ceil(w / (mcuw/8)) * (mcuw/8)` (luma) or `ceil(w / (mcuw/8))` (chroma),
or 0 exactly when that value does not fit a C `int`. -/
theorem plane_width_closed_form (comp w s : Int) (hs : validSubsamp s = true)
    (hw : 1 ≤ w) (hw2 : w ≤ 2147483647) (hc : 0 ≤ comp) (hc2 : comp < numPlanes s) :
    yuvPlaneWidth comp w s =
      (let r := if comp = 0 then lumaDim w.toNat (mcuW s) else chromaDim w.toNat (mcuW s)
       if r > INT_MAX then 0 else r) :=
  planeDim_closed comp w s (mcuW s) (mcu_cases s hs).1 hs hw hw2 hc hc2

theorem plane_height_closed_form (comp h s : Int) (hs : validSubsamp s = true)
    (hh : 1 ≤ h) (hh2 : h ≤ 2147483647) (hc : 0 ≤ comp) (hc2 : comp < numPlanes s) :
    yuvPlaneHeight comp h s =
      (let r := if comp = 0 then lumaDim h.toNat (mcuH s) else chromaDim h.toNat (mcuH s)
       if r > INT_MAX then 0 else r) :=
  planeDim_closed comp h s (mcuH s) (mcu_cases s hs).2 hs hh hh2 hc hc2

/-- invalid requests are refused (0 = error) for *every* `int` argument -/
theorem plane_dim_rejects_invalid (comp d s : Int) (mcu : Nat)
    (h : d < 1 ∨ validSubsamp s = false ∨ comp < 0 ∨ comp ≥ numPlanes s) :
    planeDim comp d s mcu = 0 := by
  unfold planeDim numPlanes at *
  rcases h with h | h | h | h
  · simp [h]
  · simp [h]
  · by_cases h1 : (decide (d < 1) || !validSubsamp s) = true
    · simp [h1]
    · simp [h1, h]
  · by_cases h1 : (decide (d < 1) || !validSubsamp s) = true
    · simp [h1]
    · simp [h1, h]

/-- **Planes cover the image**: the luma plane is at least as wide as the image and the
chroma plane, scaled back by the horizontal subsampling factor, too. -/
theorem planes_cover_image (v mcu : Nat) (hm : mcu = 8 ∨ mcu = 16 ∨ mcu = 32) :
    v ≤ lumaDim v mcu ∧ v ≤ chromaDim v mcu * (mcu / 8) ∧ lumaDim v mcu = chromaDim v mcu * (mcu / 8) := by
  have hp : 0 < mcu / 8 := by rcases hm with rfl | rfl | rfl <;> decide
  refine ⟨ceilMul_ge v _ hp, ?_, rfl⟩
  exact ceilMul_ge v _ hp

/-- **Buffer size is the sum of the padded planes** (3-plane case). -/
theorem bufsize_is_sum_color (w al h s : Int) (k : Nat) (hk : k ≤ 30) (hal : al = ((2 ^ k : Nat) : Int))
    (hs : validSubsamp s = true) (hg : s ≠ (TJSAMP_GRAY : Int))
    (h0 : planeOK 0 w al h s) (h1 : planeOK 1 w al h s) (h2 : planeOK 2 w al h s) :
    yuvBufSize w al h s = planeBytes 0 w al h s + planeBytes 1 w al h s + planeBytes 2 w al h s :=
  yuvBufSize_color w al h s k hk hal hs hg h0 h1 h2

/-- **Buffer size, grayscale.** -/
theorem bufsize_is_sum_gray (w al h : Int) (k : Nat) (hk : k ≤ 30) (hal : al = ((2 ^ k : Nat) : Int))
    (h0 : planeOK 0 w al h (TJSAMP_GRAY : Int)) :
    yuvBufSize w al h (TJSAMP_GRAY : Int) = planeBytes 0 w al h (TJSAMP_GRAY : Int) :=
  yuvBufSize_gray w al h _ k hk hal (by decide) rfl h0

/-- documented plane offsets inside a unified buffer -/
def planeOffset (i : Nat) (w al h s : Int) : Nat :=
  match i with
  | 0 => 0
  | 1 => planeBytes 0 w al h s
  | _ => planeBytes 0 w al h s + planeBytes 1 w al h s

/-- **Unified buffer = per-plane at the documented offsets** (geometry): every plane,
addressed with the unified buffer's own stride, lies inside `tj3YUVBufSize` bytes and the
planes do not overlap (plane `i` ends where plane `i+1` begins). -/
theorem unified_planes_inside_and_disjoint (w al h s : Int) (k : Nat) (hk : k ≤ 30)
    (hal : al = ((2 ^ k : Nat) : Int)) (hs : validSubsamp s = true) (hg : s ≠ (TJSAMP_GRAY : Int))
    (h0 : planeOK 0 w al h s) (h1 : planeOK 1 w al h s) (h2 : planeOK 2 w al h s) :
    ∀ i, i < 3 →
      planeOffset i w al h s + (planeStride i w al s * (yuvPlaneHeight i h s - 1) + yuvPlaneWidth i w s)
        ≤ planeOffset i w al h s + planeBytes i w al h s ∧
      planeOffset i w al h s + planeBytes i w al h s ≤ yuvBufSize w al h s ∧
      (i + 1 < 3 → planeOffset (i + 1) w al h s = planeOffset i w al h s + planeBytes i w al h s) := by
  have hsum := yuvBufSize_color w al h s k hk hal hs hg h0 h1 h2
  have hal0 : 0 < al.toNat := by rw [hal, Int.toNat_natCast]; exact Nat.two_pow_pos k
  intro i hi
  have hi' : i = 0 ∨ i = 1 ∨ i = 2 := by omega
  rcases hi' with rfl | rfl | rfl
  · refine ⟨?_, ?_, ?_⟩
    · have := planeSize_le_bytes 0 w al h s hal0 h0.2.1; simp only [planeOffset]; omega
    · rw [hsum]; simp only [planeOffset]; omega
    · intro _; simp [planeOffset]
  · refine ⟨?_, ?_, ?_⟩
    · have := planeSize_le_bytes 1 w al h s hal0 h1.2.1; simp only [planeOffset]; omega
    · rw [hsum]; simp only [planeOffset]; omega
    · intro _; simp [planeOffset]
  · refine ⟨?_, ?_, ?_⟩
    · have := planeSize_le_bytes 2 w al h s hal0 h2.2.1; simp only [planeOffset]; omega
    · rw [hsum]; simp only [planeOffset]; omega
    · intro hlt; omega

/-- **Plane size formula**: `stride * (ph - 1) + pw`, with `stride = pw` when 0 is passed
and `|stride|` otherwise (including `INT_MIN`, which has no `int` negation). -/
theorem plane_size_formula (comp w st h s : Int) (hs : validSubsamp s = true) (hw : 1 ≤ w) (hh : 1 ≤ h)
    (hpw : yuvPlaneWidth comp w s ≠ 0) (hph : yuvPlaneHeight comp h s ≠ 0)
    (hst : st.natAbs ≤ 2147483648) :
    yuvPlaneSize comp w st h s =
      (if st = 0 then yuvPlaneWidth comp w s else st.natAbs) * (yuvPlaneHeight comp h s - 1)
        + yuvPlaneWidth comp w s := by
  unfold yuvPlaneSize
  have c1 : ¬ (w < 1) := by omega
  have c2 : ¬ (h < 1) := by omega
  simp only [c1, c2, hs, hpw, hph, decide_false, Bool.not_true, Bool.or_self, Bool.false_eq_true, if_false]
  apply Nat.mod_eq_of_lt
  have a := yuvPlaneWidth_le comp.toNat w s
  have b1 := planeDim_le comp w s (mcuW s)
  have b2 := planeDim_le comp h s (mcuH s)
  have hA : (if st = 0 then yuvPlaneWidth comp w s else st.natAbs) ≤ 2147483648 := by
    split
    · unfold yuvPlaneWidth; unfold INT_MAX at b1; omega
    · exact hst
  have hB : yuvPlaneHeight comp h s - 1 ≤ 2147483648 := by
    unfold yuvPlaneHeight; unfold INT_MAX at b2; omega
  have := Nat.mul_le_mul hA hB
  unfold yuvPlaneWidth at *
  unfold ULL INT_MAX at *
  have : (2:Nat) ^ 64 = 18446744073709551616 := by decide
  omega

/-- **Worst-case JPEG buffer size function, closed form** (shared with C13): whenever the
mathematical value fits 64 bits the function returns exactly it. -/
theorem jpeg_bufsize_closed_form (w h s : Int) (hs : validSubsamp s = true)
    (hw : 1 ≤ w) (hw2 : w ≤ 2147483647) (hh : 1 ≤ h) (hh2 : h ≤ 2147483647)
    (hfit : ceilMul w.toNat (mcuW s) * ceilMul h.toNat (mcuH s) *
        (2 + (if s = (TJSAMP_GRAY : Int) then 0 else 4 * 64 / (mcuW s * mcuH s))) + 2048 < ULL) :
    jpegBufSize w h s = ceilMul w.toNat (mcuW s) * ceilMul h.toNat (mcuH s) *
        (2 + (if s = (TJSAMP_GRAY : Int) then 0 else 4 * 64 / (mcuW s * mcuH s))) + 2048 :=
  jpegBufSize_closed w h s hs hw hw2 hh hh2 hfit

-- non-vacuity: a concrete odd-sized 4:2:0 image with 4-byte row alignment meets every
-- hypothesis above (k = 2, planes OK) and gives the documented numbers.
example : planeOK 0 35 4 27 2 ∧ planeOK 1 35 4 27 2 ∧ planeOK 2 35 4 27 2 ∧
    (4 : Int) = ((2 ^ 2 : Nat) : Int) ∧ yuvPlaneWidth 0 35 2 = 36 ∧ yuvPlaneWidth 1 35 2 = 18 ∧ yuvPlaneHeight 1 27 2 = 14 ∧
    yuvBufSize 35 4 27 2 = 36 * 28 + 20 * 14 + 20 * 14 := by
  unfold planeOK; decide +kernel

end LJT.C20
