import LJT.Model.Bits
namespace LJT.Bits

theorem byteBits_pack (b7 b6 b5 b4 b3 b2 b1 b0 : Bool) :
    byteBits ((((((((if b7 then 1 else 0) * 2 + (if b6 then 1 else 0)) * 2 + (if b5 then 1 else 0)) * 2 +
      (if b4 then 1 else 0)) * 2 + (if b3 then 1 else 0)) * 2 + (if b2 then 1 else 0)) * 2 +
      (if b1 then 1 else 0)) * 2 + (if b0 then 1 else 0)) = [b7, b6, b5, b4, b3, b2, b1, b0] := by
  cases b7 <;> cases b6 <;> cases b5 <;> cases b4 <;> cases b3 <;> cases b2 <;> cases b1 <;> cases b0 <;> decide

/-- unpacking the packed bytes gives the bits back, for whole bytes -/
theorem unpack_pack : ∀ (n : Nat) (l : List Bool), l.length = 8 * n → unpackBytes (packBytes l) = l := by
  intro n
  induction n with
  | zero => intro l h; cases l <;> simp_all [packBytes, unpackBytes]
  | succ n ih =>
    intro l h
    match l, h with
    | b7 :: b6 :: b5 :: b4 :: b3 :: b2 :: b1 :: b0 :: rest, h =>
      have hr : rest.length = 8 * n := by simp only [List.length_cons] at h; omega
      simp only [packBytes, unpackBytes, List.flatMap_cons]
      rw [byteBits_pack]
      have := ih rest hr
      simp only [unpackBytes] at this
      rw [this]; rfl

theorem unstuff_stuff : ∀ (bs : List Nat), unstuff (stuff bs) = bs := by
  intro bs
  induction bs with
  | nil => rfl
  | cons b bs ih =>
    simp only [stuff]
    by_cases h : b = 0xFF
    · simp only [h, if_true]
      simp only [unstuff, and_self, if_true, ih]
    · simp only [h, if_false]
      cases hs : stuff bs with
      | nil =>
        rw [hs] at ih
        simp only [unstuff] at ih ⊢
        rw [← ih]
      | cons c cs =>
        rw [hs] at ih
        simp only [unstuff, h, false_and, if_false, ih]

theorem pad_length (bits : List Bool) : ∃ n, (pad bits).length = 8 * n := by
  unfold pad padLen
  refine ⟨(bits.length + 7) / 8, ?_⟩
  simp only [List.length_append, List.length_replicate]
  omega

/-- **bits_roundtrip (one segment)**: the decoder sees exactly the emitted bits followed
by the 1-padding of `flush_bits`, whatever 0xFF bytes had to be stuffed -/
theorem segmentBits_segmentBytes (bits : List Bool) :
    segmentBits (segmentBytes bits) = bits ++ List.replicate (padLen bits.length) true := by
  unfold segmentBits segmentBytes
  rw [unstuff_stuff]
  obtain ⟨n, hn⟩ := pad_length bits
  rw [unpack_pack n _ hn]
  rfl

theorem padLen_lt (n : Nat) : padLen n < 8 := by unfold padLen; omega

end LJT.Bits
