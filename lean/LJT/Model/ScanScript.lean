import LJT.Gen.Tables
import LJT.Gen.Err
/-! Scan-script validation: `validate_script` of src/jcmaster.c (what the compressor accepts) and the
progression checks of `start_pass_phuff_decoder` of src/jdphuff.c (what its own decoder objects to). -/
namespace LJT.ScanScript

/-- one `jpeg_scan_info`: `comps_in_scan`, the four `component_index[]` slots, `Ss Se Ah Al` -/
structure Scan where
  ncomps : Int
  idx : List Int
  ss : Int
  se : Int
  ah : Int
  al : Int
deriving Repr

inductive Mode where
  | sequential | progressive | lossless
deriving Repr, DecidableEq

/-- `last_bitpos[ci][coefi]` / `coef_bits[ci][coefi]`: -1 until seen, then the last `Al` (wrapped so that
compiled code builds each table once) -/
structure BitPos where
  f : Nat → Nat → Int

def BitPos.init : BitPos := ⟨fun _ _ => -1⟩

/-- set `[c][k] := al` for every listed component and `k` in `ss .. se` -/
def BitPos.update (st : BitPos) (comps : List Nat) (ss se : Nat) (al : Int) : BitPos :=
  ⟨fun c k => if c ∈ comps ∧ ss ≤ k ∧ k ≤ se then al else st.f c k⟩

/-- the components a scan names, as natural numbers (valid once the index checks have passed) -/
def Scan.comps (s : Scan) : List Nat := (s.idx.take s.ncomps.toNat).map Int.toNat

/-- "Validate component indexes": count in 1..MAX_COMPS_IN_SCAN, every index inside the frame, strictly
increasing.  `none` = fine, else (code, parameter). -/
def checkComps (nc : Nat) (scanno : Int) (s : Scan) : Option (Nat × Int) :=
  if s.ncomps ≤ 0 ∨ s.ncomps > (Gen.MAX_COMPS_IN_SCAN : Int) then some (Gen.JERR_COMPONENT_COUNT, s.ncomps) else
  let ix := s.idx.take s.ncomps.toNat
  let rec go : List Int → Option Int → Bool
    | [], _ => true
    | t :: rest, prev =>
      if t < 0 ∨ t ≥ (nc : Int) then false
      else match prev with
        | some p => if t ≤ p then false else go rest (some t)
        | none => go rest (some t)
  if go ix none then none else some (Gen.JERR_BAD_SCAN_SCRIPT, scanno)

/-- the per-coefficient rule of a progressive scan for one component -/
def coefOK (st : BitPos) (c : Nat) (s : Scan) : Bool :=
  (s.ss = 0 || decide (0 ≤ st.f c 0)) &&
  (List.range (s.se.toNat + 1 - s.ss.toNat)).all fun d =>
    let k := s.ss.toNat + d
    if st.f c k < 0 then decide (s.ah = 0) else decide (s.ah = st.f c k ∧ s.al = s.ah - 1)

/-- "Validate progression parameters", progressive branch -/
def progOK (prec : Nat) (st : BitPos) (s : Scan) : Bool :=
  let maxA : Int := if prec = 12 then 13 else 10
  decide (0 ≤ s.ss ∧ s.ss < (Gen.DCTSIZE2 : Int) ∧ s.ss ≤ s.se ∧ s.se < (Gen.DCTSIZE2 : Int) ∧
          0 ≤ s.ah ∧ s.ah ≤ maxA ∧ 0 ≤ s.al ∧ s.al ≤ maxA) &&
  (if s.ss = 0 then decide (s.se = 0) else decide (s.ncomps = 1)) &&
  s.comps.all (fun c => coefOK st c s)

/-- state of the scan loop: progressive bit positions, or the set of components sent -/
structure VState where
  bits : BitPos
  sent : List Nat

def validateScans (prec nc : Nat) (mode : Mode) : List Scan → Int → VState → Except (Nat × Int) VState
  | [], _, st => .ok st
  | s :: rest, scanno, st =>
    match checkComps nc scanno s with
    | some e => .error e
    | none =>
      match mode with
      | .progressive =>
        if progOK prec st.bits s then
          validateScans prec nc mode rest (scanno + 1) ⟨st.bits.update s.comps s.ss.toNat s.se.toNat s.al, st.sent⟩
        else .error (Gen.JERR_BAD_PROG_SCRIPT, scanno)
      | _ =>
        let okp := if mode = .lossless then
            decide (1 ≤ s.ss ∧ s.ss ≤ 7 ∧ s.se = 0 ∧ s.ah = 0 ∧ 0 ≤ s.al ∧ s.al < (prec : Int))
          else decide (s.ss = 0 ∧ s.se = (Gen.DCTSIZE2 : Int) - 1 ∧ s.ah = 0 ∧ s.al = 0)
        if !okp then .error (Gen.JERR_BAD_PROG_SCRIPT, scanno)
        else if s.comps.any (fun c => st.sent.contains c) then .error (Gen.JERR_BAD_SCAN_SCRIPT, scanno)
        else validateScans prec nc mode rest (scanno + 1) ⟨st.bits, st.sent ++ s.comps⟩

/-- `validate_script`: the mode it selects, or the error it raises -/
def validateScript (prec nc : Nat) (scans : List Scan) : Except (Nat × Int) Mode :=
  match scans with
  | [] => .error (Gen.JERR_BAD_SCAN_SCRIPT, 0)
  | s0 :: _ =>
    let mode := if s0.ss ≠ 0 ∧ s0.se = 0 then Mode.lossless
      else if s0.ss ≠ 0 ∨ s0.se ≠ (Gen.DCTSIZE2 : Int) - 1 then Mode.progressive else Mode.sequential
    match validateScans prec nc mode scans 1 ⟨BitPos.init, []⟩ with
    | .error e => .error e
    | .ok st =>
      let complete := match mode with
        | .progressive => (List.range nc).all (fun c => decide (0 ≤ st.bits.f c 0))
        | _ => (List.range nc).all (fun c => st.sent.contains c)
      if complete then .ok mode else .error (Gen.JERR_MISSING_DATA, 0)

/-! ### the decoder's side (`start_pass_phuff_decoder`) -/

/-- `bad` of the parameter validation: JERR_BAD_PROGRESSION -/
def decBad (s : Scan) : Bool :=
  (if s.ss = 0 then decide (s.se ≠ 0)
   else decide (s.ss > s.se ∨ s.se ≥ (Gen.DCTSIZE2 : Int)) || decide (s.ncomps ≠ 1)) ||
  (decide (s.ah ≠ 0) && decide (s.al ≠ s.ah - 1)) || decide (s.al > 13)

/-- number of JWRN_BOGUS_PROGRESSION warnings one scan raises against the progression state -/
def decWarnings (st : BitPos) (s : Scan) : Nat :=
  (s.comps.map fun c =>
    (if s.ss ≠ 0 ∧ st.f c 0 < 0 then 1 else 0) +
    ((List.range (s.se.toNat + 1 - s.ss.toNat)).filter fun d =>
      let k := s.ss.toNat + d
      let expected : Int := if st.f c k < 0 then 0 else st.f c k
      decide (s.ah ≠ expected)).length).sum

/-- the decoder run over a whole script: `none` = JERR_BAD_PROGRESSION, else the number of warnings -/
def decRun : List Scan → BitPos → Nat → Option Nat
  | [], _, w => some w
  | s :: rest, st, w =>
    if decBad s then none
    else decRun rest (st.update s.comps s.ss.toNat s.se.toNat s.al) (w + decWarnings st s)

end LJT.ScanScript
