import LJT.Gen.Tables
import LJT.Gen.Err
/-! Huffman table machinery as coded in src/jchuff.c (jpeg_make_c_derived_tbl,
jpeg_gen_optimal_table) and src/jdhuff.c (jpeg_make_d_derived_tbl, jpeg_huff_decode).

A table is `(bits, vals)`: `bits` has 17 entries (`bits[0]` unused, `bits[l]` = number
of codes of length `l`, each an UINT8), `vals` lists the symbols in code order. -/
namespace LJT.Huff

structure Tbl where
  bits : List Nat
  vals : List Nat
deriving Repr, DecidableEq

/-- Figure C.1: the list of code lengths, one per symbol, in code order:
`bits[l]` copies of `l` for `l = from .. from + n - 1`. -/
def sizesFrom (bits : List Nat) : Nat → Nat → List Nat
  | _, 0 => []
  | l, n + 1 => List.replicate (bits.getD l 0) l ++ sizesFrom bits (l + 1) n

def sizes (bits : List Nat) : List Nat := sizesFrom bits 1 16

/-- Figure C.2 as coded (inner loop assigns consecutive codes of length `si`; leaving the
inner loop checks `code < 2^si`, doubles `code` and increments `si`). -/
def genCodes : List Nat → Nat → Nat → Option (List Nat)
  | [], code, si => if code ≥ 2 ^ si then none else some []
  | s :: rest, code, si =>
    if s = si then (genCodes rest (code + 1) si).map (code :: ·)
    else if s < si then none            -- unreachable: `sizes` is sorted
    else if code ≥ 2 ^ si then none
    else genCodes (s :: rest) (code * 2) (si + 1)
termination_by l _ si => (l.length, (l.headD 0) - si)
decreasing_by
  · simp_wf; exact Prod.Lex.left _ _ (by simp)
  · simp_wf; apply Prod.Lex.right; simp at *; omega

/-- codes for a `bits` array: `none` = JERR_BAD_HUFF_TABLE from the code-space check -/
def codes (bits : List Nat) : Option (List Nat) :=
  match sizes bits with
  | [] => some []
  | s :: rest => genCodes (s :: rest) 0 s

/-- encoder-side derived table: `ehufco[256]`, `ehufsi[256]` -/
structure CDerived where
  co : List Nat
  si : List Nat
deriving Repr, DecidableEq

def fillC : List Nat → List Nat → List Nat → Nat → Array Nat → Array Nat → Option CDerived
  | [], _, _, _, co, si => some ⟨co.toList, si.toList⟩
  | _ :: _, [], _, _, _, _ => none
  | _ :: _, _ :: _, [], _, co, si => some ⟨co.toList, si.toList⟩   -- vals shorter than sizes: C reads the rest of huffval[256]; callers pad
  | sz :: szs, c :: cs, v :: vs, maxsym, co, si =>
    if v > maxsym || si.getD v 0 != 0 then none
    else fillC szs cs vs maxsym (co.setIfInBounds v c) (si.setIfInBounds v sz)

/-- `jpeg_make_c_derived_tbl`; `vals` must hold at least `(sizes bits).length` entries
(the C array always has 256).  `none` = JERR_BAD_HUFF_TABLE. -/
def mkCDerived (isDC lossless : Bool) (t : Tbl) : Option CDerived :=
  let sz := sizes t.bits
  if sz.length > 256 then none else
  match codes t.bits with
  | none => none
  | some cs =>
    let maxsym := if isDC then (if lossless then 16 else 15) else 255
    fillC sz cs (t.vals ++ List.replicate (256 - t.vals.length) 0) maxsym
      (Array.replicate 256 0) (Array.replicate 256 0)

/-- decoder-side derived table.  `maxcode`, `valoffset` have 18 entries (index 0 unused);
`maxcode[l] = -1` when no code has length `l`; `lookup` has 256 entries
`(nb << 8) | sym`, or `9 << 8` for "longer than 8 bits". -/
structure DDerived where
  maxcode : List Int
  valoffset : List Int
  lookup : List Nat
  vals : List Nat
deriving Repr, DecidableEq

/-- Figure F.15 as coded: for each length `l` (from `l`, `n` levels) the pair
`(maxcode[l], valoffset[l])`; `p` = index of the first code of length `l`.
`valoffset` of an unused length is uninitialised in C; reported as 0. -/
def f15 (bits : List Nat) (cs : List Nat) : Nat → Nat → Nat → List (Int × Int)
  | 0, _, _ => []
  | n + 1, l, p =>
    let b := bits.getD l 0
    if b ≠ 0 then
      ((cs.getD (p + b - 1) 0 : Int), (p : Int) - (cs.getD p 0 : Int)) :: f15 bits cs n (l + 1) (p + b)
    else ((-1 : Int), (0 : Int)) :: f15 bits cs n (l + 1) p

def lookupTbl (bits cs vals : List Nat) : List Nat := Id.run do
  let mut tab : Array Nat := Array.replicate 256 (9 <<< 8)
  let mut p := 0
  for l in [1:9] do
    for _ in [0:bits.getD l 0] do
      let base := (cs.getD p 0) <<< (8 - l)
      for ctr in [0:1 <<< (8 - l)] do
        tab := tab.setIfInBounds (base + ctr) ((l <<< 8) ||| vals.getD p 0)
      p := p + 1
  return tab.toList

/-- `jpeg_make_d_derived_tbl`.  Note `valoffset[l]` for unused lengths is left
uninitialised by the C code; the model and the harness both report 0 there. -/
def mkDDerived (isDC lossless : Bool) (t : Tbl) : Option DDerived :=
  let sz := sizes t.bits
  if sz.length > 256 then none else
  match codes t.bits with
  | none => none
  | some cs =>
    let vals := t.vals ++ List.replicate (256 - t.vals.length) 0
    let lv := f15 t.bits cs 16 1 0
    let mc := lv.map (·.1)
    let vo := lv.map (·.2)
    let maxsym := if lossless then 16 else 15
    if isDC && (vals.take sz.length).any (· > maxsym) then none
    else some ⟨(0 : Int) :: mc ++ [0xFFFFF], (0 : Int) :: vo ++ [0], lookupTbl t.bits cs vals, vals⟩

/-! ### Bit-sequential decoding (Figure F.16 as coded in `jpeg_huff_decode`) -/

/-- the per-length decoding data `(maxcode[l], valoffset[l])` for `l = 1 .. 17` -/
def DDerived.levels (d : DDerived) : List (Int × Int) := (d.maxcode.zip d.valoffset).drop 1

/-- `jpeg_huff_decode`: while `code > maxcode[l]` shift in one more bit and move to the
next length.  `lv` holds the data of lengths `l, l+1, ..`.  Returns the symbol, a flag for
"code longer than 16 bits" (JWRN_HUFF_BAD_CODE, symbol 0) and the remaining bits;
`none` when the input is exhausted. -/
def decodeLv (vals : List Nat) : List (Int × Int) → Nat → Int → List Bool → Option (Nat × Bool × List Bool)
  | [], _, _, _ => none
  | (mc, vo) :: lv, l, code, bs =>
    if code ≤ mc then
      if l > 16 then some (0, true, bs)
      else some (vals.getD (code + vo).toNat 0, false, bs)
    else match bs with
      | [] => none
      | b :: bs' => decodeLv vals lv (l + 1) (code * 2 + (if b then 1 else 0)) bs'

/-- decode one symbol from a bit list (first bit read explicitly, `l = 1`) -/
def decode (d : DDerived) : List Bool → Option (Nat × Bool × List Bool)
  | [] => none
  | b :: bs => decodeLv d.vals d.levels 1 (if b then 1 else 0) bs

/-- the code of symbol `s` as a bit list, most significant bit first -/
def codeBits (code size : Nat) : List Bool :=
  (List.range size).map (fun i => (code >>> (size - 1 - i)) % 2 = 1)

def encode (c : CDerived) (s : Nat) : Option (List Bool) :=
  let sz := c.si.getD s 0
  if sz = 0 then none else some (codeBits (c.co.getD s 0) sz)

/-! ### `jpeg_gen_optimal_table` (Annex K.2 as coded) -/

structure GenState where
  freq : Array Nat
  codesize : Array Nat
  others : Array Int
deriving Repr

/-- find the two smallest frequencies: returns `(c1, c2)` (as `Int`, `-1` = none) -/
def findTwo (freq : Array Nat) (n : Nat) : Int × Int := Id.run do
  let mut c1 : Int := -1
  let mut c2 : Int := -1
  let mut v := 1000000000
  let mut v2 := 1000000000
  for i in [0:n] do
    let f := freq.getD i 0
    if f ≤ v2 then
      if f ≤ v then
        c2 := c1; v2 := v; v := f; c1 := i
      else
        v2 := f; c2 := i
  return (c1, c2)

/-- walk the chain starting at `c`, incrementing codesize; returns the last element -/
def bumpChain : Nat → Nat → Array Nat → Array Int → (Nat × Array Nat)
  | 0, c, cs, _ => (c, cs)
  | fuel + 1, c, cs, others =>
    let cs := cs.modify c (· + 1)
    let nx := others.getD c (-1)
    if nx ≥ 0 then bumpChain fuel nx.toNat cs others else (c, cs)

def mergeLoop : Nat → Nat → GenState → GenState
  | 0, _, st => st
  | fuel + 1, n, st =>
    let (c1, c2) := findTwo st.freq n
    if c2 < 0 then st else
    let c1 := c1.toNat; let c2 := c2.toNat
    let freq := st.freq.modify c1 (· + st.freq.getD c2 0)
    let freq := freq.setIfInBounds c2 1000000001
    let (last1, cs) := bumpChain 300 c1 st.codesize st.others
    let others := st.others.setIfInBounds last1 (c2 : Int)
    let (_, cs) := bumpChain 300 c2 cs others
    mergeLoop fuel n ⟨freq, cs, others⟩

/-- the length-limiting loop: for `i` from 32 down to 17, while `bits[i] > 0` move
symbols up.  `bits` entries are `int` counters (≤ 257, no wrap-around). -/
def limitInner : Nat → Nat → Array Nat → Array Nat
  | 0, _, bits => bits
  | fuel + 1, i, bits =>
    if bits.getD i 0 > 0 then
      let j := Id.run do
        let mut j := i - 2
        for _ in [0:40] do
          if bits.getD j 0 == 0 && j > 0 then j := j - 1
        return j
      let bits := bits.modify i (· - 2)
      let bits := bits.modify (i - 1) (· + 1)
      let bits := bits.modify (j + 1) (· + 2)
      let bits := bits.modify j (· - 1)
      limitInner fuel i bits
    else bits

def limitLoop (bits : Array Nat) : Array Nat := Id.run do
  let mut b := bits
  for k in [0:16] do
    b := limitInner 300 (32 - k) b
  return b

inductive GenResult where
  | ok (t : Tbl)
  | clenOverflow
deriving Repr, DecidableEq

/-- `jpeg_gen_optimal_table`.  `freq` has 257 entries (entry 256 is overwritten with 1).
(Counters are `int` since the repair of D4, DESIGN section 7.) -/
def genOptimalTable (freq0 : List Nat) : GenResult := Id.run do
  let freq1 := (freq0 ++ List.replicate (257 - freq0.length) 0).toArray.setIfInBounds 256 1
  -- group nonzero frequencies
  let mut nz : Array Nat := #[]
  let mut fr : Array Nat := #[]
  for i in [0:257] do
    if freq1.getD i 0 ≠ 0 then
      nz := nz.push i
      fr := fr.push (freq1.getD i 0)
  let n := nz.size
  let st := mergeLoop 300 n ⟨fr, Array.replicate 257 0, Array.replicate 257 (-1)⟩
  -- count symbols per code length
  let mut bits : Array Nat := Array.replicate 33 0
  for i in [0:n] do
    let cs := st.codesize.getD i 0
    if cs > 32 then return .clenOverflow
    bits := bits.modify cs (· + 1)
  let mut bitpos : Array Nat := Array.replicate 33 0
  let mut p := 0
  for i in [1:33] do
    bitpos := bitpos.setIfInBounds i p
    p := p + bits.getD i 0
  let bits2 := limitLoop bits
  -- remove the pseudo-symbol from the largest code length in use
  let mut i := 16
  for _ in [0:16] do
    if bits2.getD i 0 == 0 && i > 0 then i := i - 1
  let bits3 := (bits2.modify i (· - 1)).map (· % 256)   -- narrowed to UINT8 on copy-out
  let mut hv : Array Nat := Array.replicate 256 0
  let mut bp := bitpos
  for k in [0:n - 1] do
    let cs := st.codesize.getD k 0
    hv := hv.setIfInBounds (bp.getD cs 0) (nz.getD k 0 % 256)
    bp := bp.modify cs (· + 1)
  let total := (bits3.toList.take 17).foldl (· + ·) 0 - bits3.getD 0 0
  return .ok ⟨bits3.toList.take 17, hv.toList.take total⟩

end LJT.Huff
