import LJT.Model.Nbits
/-! kernel-evaluated check of entries 49152..57343 of the regenerated nbits table -/
namespace LJT
theorem nbits_chunk_C6 : checkRange nbitsTbl nbitsSpec 14 49152 8192 = true := by decide +kernel
end LJT
