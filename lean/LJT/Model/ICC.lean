/-! ICC profile embedding: `jpeg_write_icc_profile` (src/jcicc.c) and
`jpeg_read_icc_profile` (src/jdicc.c).  A marker is `(code, data)` where `data` is the
marker payload (after the 2-byte length). -/
namespace LJT.ICC

def ICC_MARKER : Nat := 0xE2
def ICC_OVERHEAD_LEN : Nat := 14
def MAX_BYTES_IN_MARKER : Nat := 65533
def MAX_DATA : Nat := MAX_BYTES_IN_MARKER - ICC_OVERHEAD_LEN   -- 65519

def magic : List Nat := [0x49, 0x43, 0x43, 0x5F, 0x50, 0x52, 0x4F, 0x46, 0x49, 0x4C, 0x45, 0x0]

/-- split into pieces of `MAX_DATA` bytes (the `while (icc_data_len > 0)` loop) -/
def chunks : Nat → List Nat → List (List Nat)
  | 0, _ => []
  | _ + 1, [] => []
  | f + 1, b :: p => (b :: p).take MAX_DATA :: chunks f ((b :: p).drop MAX_DATA)

/-- `num_markers` as computed by the writer -/
def numMarkers (len : Nat) : Nat :=
  if (len / MAX_DATA) * MAX_DATA ≠ len then len / MAX_DATA + 1 else len / MAX_DATA

/-- the APP2 payload of the marker with (0-based) index `k` out of `n` -/
def mkMarker (n k : Nat) (c : List Nat) : Nat × List Nat :=
  (ICC_MARKER, magic ++ [(k + 1) % 256, n % 256] ++ c)

def mkMarkers (n : Nat) : Nat → List (List Nat) → List (Nat × List Nat)
  | _, [] => []
  | k, c :: cs => mkMarker n k c :: mkMarkers n (k + 1) cs

/-- marker payloads written for profile `p`; sequence number (`cur_marker`, counting from
1) and count are single bytes -/
def writeICC (p : List Nat) : List (Nat × List Nat) :=
  mkMarkers (numMarkers p.length) 0 (chunks p.length p)

def isICC (m : Nat × List Nat) : Bool :=
  m.1 == ICC_MARKER && decide (ICC_OVERHEAD_LEN ≤ m.2.length) && m.2.take 12 == magic

def seqNo (m : Nat × List Nat) : Nat := m.2.getD 12 0
def count (m : Nat × List Nat) : Nat := m.2.getD 13 0
def payload (m : Nat × List Nat) : List Nat := m.2.drop ICC_OVERHEAD_LEN

/-- profile bytes carried by the marker with sequence number `i + 1` -/
def payloadAt (icc : List (Nat × List Nat)) (i : Nat) : List Nat :=
  match icc.find? (fun m => seqNo m == i + 1) with
  | some m => payload m
  | none => []

/-- `jpeg_read_icc_profile`: `none` = FALSE returned (with JWRN_BOGUS_ICC unless there is
no ICC marker at all); `some p` = reassembled profile. -/
def readICC (markers : List (Nat × List Nat)) : Option (List Nat) :=
  let icc := markers.filter isICC
  match icc.head? with
  | none => none
  | some m0 =>
    let n := count m0
    if !(icc.all (fun m => count m == n)) then none
    else if !(icc.all (fun m => decide (0 < seqNo m) && decide (seqNo m ≤ n))) then none
    else if !((icc.map seqNo).Nodup) then none
    else if !((List.range n).all (fun i => icc.any (fun m => seqNo m == i + 1))) then none
    else
      let out := (List.range n).flatMap (payloadAt icc)
      if out.isEmpty then none else some out

/-- `none` for "no ICC marker", used to tell the two FALSE cases apart in the tie -/
def hasICC (markers : List (Nat × List Nat)) : Bool := markers.any isICC

end LJT.ICC
