import LJT.Ops.Util
import LJT.Model.DecompCtl
import LJT.Model.SkipSM
import LJT.Model.MergedSM
import LJT.Model.CtxSM
namespace LJT.Ops
open LJT.DecompCtl

/-- one token of a `skipst` history: `mN` one read call for N rows, `rN` N read calls for one row (stopping at the bottom
like the harness), `sN` a skip; returns the new state and the value the harness prints as "ret" -/
def skipstTok (c : Skip.Cfg) (s : Skip.St) (tok : String) : Option (Skip.St × Nat) := do
  let n0 ← nat? (tok.drop 1).toString
  let n := min n0 64
  match tok.take 1 |>.toString with
  | "s" => let r := Skip.skip c s n; some (r.1, r.2)
  | "m" => let r := Skip.read c s n; some (r.1, r.2.length)
  | "r" =>
    let rec go (k : Nat) (s : Skip.St) (acc : Nat) : Skip.St × Nat :=
      match k with
      | 0 => (s, acc)
      | k + 1 => if c.H ≤ s.y then (s, acc) else let r := Skip.read c s 1; go k r.1 (acc + r.2.length)
    some (go n s 0)
  | _ => none

def skipstRun (c : Skip.Cfg) : Skip.St → List String → Option (List String)
  | _, [] => some []
  | s, tok :: rest =>
    if c.H ≤ s.y then some [] else do
      let (s', ret) ← skipstTok c s tok
      let more ← skipstRun c s' rest
      some (s!"{ret}:{s'.y}:{s'.irow}:{if s'.bf then 1 else 0}:{s'.rg}:{s'.nro}:{s'.rtg}" :: more)

def mskipstTok (c : Skip.Cfg) (s : Skip.MSt) (tok : String) : Option (Skip.MSt × Nat) := do
  let n0 ← nat? (tok.drop 1).toString
  let n := min n0 64
  match tok.take 1 |>.toString with
  | "s" => let r := Skip.mskip c s n; some (r.1, r.2)
  | "m" => let r := Skip.mread c s n; some (r.1, r.2.length)
  | "r" =>
    let rec go (k : Nat) (s : Skip.MSt) (acc : Nat) : Skip.MSt × Nat :=
      match k with
      | 0 => (s, acc)
      | k + 1 => if c.H ≤ s.y then (s, acc) else let r := Skip.mread c s 1; go k r.1 (acc + r.2.length)
    some (go n s 0)
  | _ => none

def mskipstRun (c : Skip.Cfg) : Skip.MSt → List String → Option (List String)
  | _, [] => some []
  | s, tok :: rest =>
    if c.H ≤ s.y then some [] else do
      let (s', ret) ← mskipstTok c s tok
      let more ← mskipstRun c s' rest
      some (s!"{ret}:{s'.y}:{s'.irow}:{if s'.bf then 1 else 0}:{s'.rg}:{if s'.spare then 1 else 0}:{s'.rtg}" :: more)

def cskipstTok (c : Skip.Cfg) (s : Skip.CSt) (tok : String) : Option (Skip.CSt × Nat) := do
  let n0 ← nat? (tok.drop 1).toString
  let n := min n0 64
  match tok.take 1 |>.toString with
  | "s" => let r := Skip.cskip c s n; some (r.1, r.2)
  | "m" => let r := Skip.cread c s n; some (r.1, r.2.length)
  | "r" =>
    let rec go (k : Nat) (s : Skip.CSt) (acc : Nat) : Skip.CSt × Nat :=
      match k with
      | 0 => (s, acc)
      | k + 1 => if c.H ≤ s.y then (s, acc) else let r := Skip.cread c s 1; go k r.1 (acc + r.2.length)
    some (go n s 0)
  | _ => none

def cskipstRun (c : Skip.Cfg) : Skip.CSt → List String → Option (List String)
  | _, [] => some []
  | s, tok :: rest =>
    if c.H ≤ s.y then some [] else do
      let (s', ret) ← cskipstTok c s tok
      let more ← cskipstRun c s' rest
      some (s!"{ret}:{s'.y}:{s'.irow}:{if s'.bf then 1 else 0}:{s'.rg}:{s'.cs}:{s'.which}:{s'.ictr}:{s'.nro}:{s'.rtg}" :: more)

def opC08 : List String → Option String
  | "skipst" :: ss :: _w :: h :: _prog :: snum :: _fancy :: _ycc :: upm :: _seed :: calls => do
    let ss ← nat? ss; let h ← nat? h; let snum ← nat? snum
    let v := [1, 1, 2, 1, 2, 1, 4].getD ss 1
    let c : Skip.Cfg := ⟨snum, v, outputDim h snum 8⟩
    let recs ← if upm = "1" then mskipstRun c (Skip.minit c) calls
      else if upm = "2" then cskipstRun c (Skip.cinit c) calls else skipstRun c (Skip.init c) calls
    some (s!"{if upm = "1" then "merged" else if upm = "2" then "context" else "sep"} {c.M} {c.v} {c.H} |" ++ String.join (recs.map (" " ++ ·)))
  | ["outdim", w, h] => do
    let w ← nat? w; let h ← nat? h
    some (" ".intercalate (Gen.tjScalingFactors.map (fun (n, d) => s!"{outputDim w n d}:{outputDim h n d}")))
  | ["tjcrop", jw, jh, ss, sfi, x, y, w, h] => do
    let jw ← nat? jw; let jh ← nat? jh; let ss ← nat? ss; let sfi ← nat? sfi
    let x ← int? x; let y ← int? y; let w ← int? w; let h ← int? h
    let (n, d) := Gen.tjScalingFactors.getD (sfi % 16) (1, 1)
    let sw := outputDim jw n d; let sh := outputDim jh n d
    let mw := outputDim (Gen.tjMCUWidth.getD ss 8) n d
    some (if tjCropAccept sw sh mw x y w h then "accept" else "reject")
  | _ => none

end LJT.Ops
