"""C12 - instance results are independent of prior history, even after errors."""
from . import C14 as _C14
ID = "C12"
VARIANTS = ["san", "simd", "sanp"]
ENV = {"sanp": {"LJT_NOPOOL": "1"}}      # sanp: library built with -DLJT_VERIF_POOLS (no pool slop: ASan sees intra-pool overruns)
HARNESS_FLAGS = _C14.HARNESS_FLAGS
RULE = ("hist: a seeded history of 1..40 calls on one TJINIT_TRANSFORM instance - tj3Set of every settable parameter with valid and invalid "
        "values, compression, decompression into every pixel format, decompression of streams truncated in the header / inside the saved "
        "ICC marker / in the entropy data, of bit-flipped progressive streams, of lossless streams, transformation with TRIM or PERFECT "
        "(failing for imperfect ones) incl. truncated input, scaling and cropping settings, ICC profile setting, YUV decompression, "
        "header reads of garbage - compression from RGB / GRAY / CMYK, decompression of an RGB-colourspace JPEG (Adobe marker) - followed by a probe (tj3Compress8/12/16 "
        "of an image, tj3DecodeYUV8 of fixed planes, tj3Compress8 from CMYK, tj3DecompressHeader + tj3Decompress8 + "
        "tj3GetICCProfile of a stream with an ICC profile, tj3Transform of a progressive stream and of the ICC stream; each part digested on its own) after the non-parameter settings were "
        "put back; the same probe on a fresh instance given the same values of every settable parameter must produce the same return "
        "codes, error strings and output bytes; all under ASan/UBSan, instances destroyed afterwards.  memtrace -> memreplay (shared "
        "with C14): the library's usage counter over repeated operations on one instance equals the model's")
TRUSTED = ["Model.History states the epilogue/prologue discipline of the entry points; that each real entry point follows it is exercised, not proved"]
ASSUMPTIONS = ["parameters that tj3DecompressHeader sets from a stream are part of the current settings (as documented) and are copied to the fresh instance"]


def classify(op, R):
    p = op.split(" ")
    if p[0] == "hist": return "hist:n%d:%s" % (min(int(p[2]) // 5, 8), R.split(" ")[1] if len(R.split(" ")) > 1 else "?")
    return p[0]


def gen_ops(rng, tier):
    big = tier == "thorough"
    ops = []
    for i in range(6000 if big else 700):
        ops.append("hist %d %d" % (rng.randrange(1 << 30), rng.choice([1, 2, 3, 5, 8, 12, 20, 40])))
    for kind in (0, 1):
        for reps in (2, 5, 12, 30):
            ops.append("memtrace %d %d %d %d" % (kind, rng.randrange(1 << 20), reps, rng.choice([1, 2, 4])))
        # enough identical operations under the smallest limit that any per-operation drift of the usage counter must hit it
        ops.append("memtrace %d %d 150 1" % (kind, rng.randrange(1 << 20)))
    return ops


def stage2(ops, model_lines, res_by_v):
    return _C14.stage2(ops, model_lines, res_by_v)


def search(ctx, failing_ops):
    return []


MANIFEST = {
    "text": ("Kernel-checked Lean theorems on the model of what an instance carries between calls: if every entry point runs its epilogue "
             "(jpeg_abort after success and after an error longjmp) and every datastream starts with the marker-reader reset, then after "
             "any sequence of parameter changes, successful calls and calls failing at any stage - also in the middle of a saved marker - "
             "a probe sees exactly the state of a fresh instance with the same parameter settings; parameters are untouched by calls; "
             "memory accounting after the image pool is released does not depend on the history (C14).  On the real library seeded "
             "histories are followed by a probe that is compared with the same probe on a fresh instance, and the allocator's counter "
             "is replayed through the model."),
    "design_ref": "DESIGN.md 6.12",
    "note": ("Partial: that each real entry point restores the working state is exercised over seeded histories, not proved. Trusted: Lean "
             "kernel; axioms propext, Quot.sound, Classical.choice."),
    "technique": "Lean 4 proof (invariant over operation sequences, refinement to 'parameters only') + history-vs-fresh differential on the real library + allocator trace replay",
}
