import LJT.Gen.TJ
/-! Buffer- and plane-size helpers of the TurboJPEG API (src/turbojpeg.c:
tj3JPEGBufSize, TJBUFSIZE, tj3YUVBufSize, tj3YUVPlaneSize, tj3YUVPlaneWidth/Height and
their legacy wrappers), with the C integer types modelled explicitly:
arguments are C `int`s (`Int` in `[-2^31, 2^31)`), intermediate values are
`unsigned long long` (`Nat` modulo 2^64), results are `size_t`/`int` with 0 = error.
`unsigned long` is 64 bits on this platform, so the `ULLONG_MAX > ULONG_MAX` blocks are
compiled out. -/
namespace LJT.TJ
open LJT.Gen

def INT_MAX : Nat := 2147483647
def ULL : Nat := 2 ^ 64

/-- `PAD((unsigned long long)v, p)` = `(v + p - 1) & ~(p - 1)` with `p` an `int` -/
def padULL (v p : Nat) : Nat := ((v + p - 1) % ULL) &&& (ULL - p)

def mcuW (s : Int) : Nat := tjMCUWidth.getD s.toNat 0
def mcuH (s : Int) : Nat := tjMCUHeight.getD s.toNat 0

def validSubsamp (s : Int) : Bool := 0 ≤ s && s < (TJ_NUMSAMP : Int)

/-- `tj3YUVPlaneWidth` / `tj3YUVPlaneHeight` share this shape; `mcu` is the iMCU size. -/
def planeDim (comp dim subsamp : Int) (mcu : Nat) : Nat :=
  if dim < 1 || !validSubsamp subsamp then 0 else
  let nc : Int := if subsamp = (TJSAMP_GRAY : Int) then 1 else 3
  if comp < 0 || comp ≥ nc then 0 else
  let p := padULL dim.toNat (mcu / 8)
  let r := if comp = 0 then p else (p * 8 % ULL) / mcu
  if r > INT_MAX then 0 else r

def yuvPlaneWidth (comp width subsamp : Int) : Nat := planeDim comp width subsamp (mcuW subsamp)
def yuvPlaneHeight (comp height subsamp : Int) : Nat := planeDim comp height subsamp (mcuH subsamp)

def isPow2 (x : Int) : Bool := x.toNat &&& (x.toNat - 1) == 0

/-- `tj3YUVBufSize` (after the D10 repair: stride computed in `unsigned long long`,
strides above INT_MAX rejected). -/
def yuvBufSize (width align height subsamp : Int) : Nat :=
  if align < 1 || !isPow2 align || !validSubsamp subsamp then 0 else
  let nc := if subsamp = (TJSAMP_GRAY : Int) then 1 else 3
  let rec go : Nat → Nat → Nat → Nat
    | 0, _, acc => acc
    | n + 1, i, acc =>
      let pw := yuvPlaneWidth i width subsamp
      let ph := yuvPlaneHeight i height subsamp
      let stride := padULL pw align.toNat
      if pw = 0 || ph = 0 then 0
      else if stride > INT_MAX then 0
      else go n (i + 1) ((acc + stride * ph) % ULL)
  go nc 0 0

/-- `tj3YUVPlaneSize` (after the D10 repair: |stride| computed without `abs(INT_MIN)`). -/
def yuvPlaneSize (comp width stride height subsamp : Int) : Nat :=
  if width < 1 || height < 1 || !validSubsamp subsamp then 0 else
  let pw := yuvPlaneWidth comp width subsamp
  let ph := yuvPlaneHeight comp height subsamp
  if pw = 0 || ph = 0 then 0 else
  let st : Nat := if stride = 0 then pw else stride.natAbs
  (st * (ph - 1) + pw) % ULL

/-- `tj3JPEGBufSize` (after the D10 repair: padded dimensions in `unsigned long long`,
product overflow rejected). -/
def jpegBufSize (width height subsamp : Int) : Nat :=
  if width < 1 || height < 1 || subsamp < -1 || subsamp ≥ (TJ_NUMSAMP : Int) then 0 else
  let s : Int := if subsamp = -1 then (TJSAMP_444 : Int) else subsamp
  let mcuw := mcuW s; let mcuh := mcuH s
  let chromasf := if s = (TJSAMP_GRAY : Int) then 0 else 4 * 64 / (mcuw * mcuh)
  let pw := padULL width.toNat mcuw
  let ph := padULL height.toNat mcuh
  if ph > (ULL - 1 - 2048) / (2 + chromasf) / pw then 0
  else pw * ph * (2 + chromasf) + 2048

/-- `TJBUFSIZE` (legacy; returns `(unsigned long)-1` on error) -/
def legacyBUFSIZE (width height : Int) : Nat :=
  if width < 1 || height < 1 then ULL - 1 else
  let pw := padULL width.toNat 16
  let ph := padULL height.toNat 16
  if ph > (ULL - 1 - 2048) / 6 / pw then ULL - 1
  else pw * ph * 6 + 2048

/-! closed forms over the naturals -/

def ceilMul (v p : Nat) : Nat := (v + p - 1) / p * p

/-- luma plane dimension: `v` rounded up to a multiple of `mcu/8` -/
def lumaDim (v mcu : Nat) : Nat := ceilMul v (mcu / 8)
/-- chroma plane dimension -/
def chromaDim (v mcu : Nat) : Nat := (v + mcu / 8 - 1) / (mcu / 8)

/-- `TJSCALED(dim, sf)` -/
def scaled (dim num denom : Nat) : Nat := (dim * num + denom - 1) / denom

end LJT.TJ
