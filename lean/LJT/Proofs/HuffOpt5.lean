import LJT.Proofs.HuffOpt4
/-! K.2 generator, part 5: Kraft sums over the `bits[]` counters and the length-limiting loop. -/
set_option maxRecDepth 20000
namespace LJT.Huff

/-- `Σ_{l<m} b l · 2^(32-l)` -/
def ksum (b : Nat → Nat) : Nat → Nat
  | 0 => 0
  | m + 1 => ksum b m + b m * 2 ^ (32 - m)

/-- `Σ_{l<m} b l` -/
def csum (b : Nat → Nat) : Nat → Nat
  | 0 => 0
  | m + 1 => csum b m + b m

@[simp] theorem Bits.upd_f (b : Bits) (i v j : Nat) : (b.upd i v).f j = if j = i then v else b.f j := rfl

theorem ksum_congr (b c : Nat → Nat) : ∀ m, (∀ l, l < m → b l = c l) → ksum b m = ksum c m := by
  intro m; induction m with
  | zero => intro _; rfl
  | succ m ih => intro h; simp only [ksum]; rw [ih (fun l hl => h l (by omega)), h m (by omega)]

theorem csum_congr (b c : Nat → Nat) : ∀ m, (∀ l, l < m → b l = c l) → csum b m = csum c m := by
  intro m; induction m with
  | zero => intro _; rfl
  | succ m ih => intro h; simp only [csum]; rw [ih (fun l hl => h l (by omega)), h m (by omega)]

theorem ksum_upd_add (b : Bits) (i d : Nat) : ∀ m, i < m →
    ksum (b.upd i (b.f i + d)).f m = ksum b.f m + d * 2 ^ (32 - i) := by
  intro m; induction m with
  | zero => intro h; omega
  | succ m ih =>
    intro h
    simp only [ksum]
    by_cases e : i = m
    · subst e
      rw [ksum_congr (b.upd i (b.f i + d)).f b.f i (fun l hl => by simp; omega)]
      simp [Nat.add_mul]; omega
    · rw [ih (by omega)]; simp [Ne.symm e]; omega

theorem ksum_upd_sub (b : Bits) (i d : Nat) (hd : d ≤ b.f i) : ∀ m, i < m →
    ksum (b.upd i (b.f i - d)).f m + d * 2 ^ (32 - i) = ksum b.f m := by
  intro m; induction m with
  | zero => intro h; omega
  | succ m ih =>
    intro h
    simp only [ksum]
    by_cases e : i = m
    · subst e
      rw [ksum_congr (b.upd i (b.f i - d)).f b.f i (fun l hl => by simp; omega)]
      simp only [Bits.upd_f, if_true]
      have : (b.f i - d) * 2 ^ (32 - i) + d * 2 ^ (32 - i) = b.f i * 2 ^ (32 - i) := by
        rw [← Nat.add_mul]; congr 1; omega
      omega
    · have := ih (by omega); simp [Ne.symm e]; omega

theorem csum_upd_add (b : Bits) (i d : Nat) : ∀ m, i < m →
    csum (b.upd i (b.f i + d)).f m = csum b.f m + d := by
  intro m; induction m with
  | zero => intro h; omega
  | succ m ih =>
    intro h
    simp only [csum]
    by_cases e : i = m
    · subst e
      rw [csum_congr (b.upd i (b.f i + d)).f b.f i (fun l hl => by simp; omega)]
      simp; omega
    · rw [ih (by omega)]; simp [Ne.symm e]; omega

theorem csum_upd_sub (b : Bits) (i d : Nat) (hd : d ≤ b.f i) : ∀ m, i < m →
    csum (b.upd i (b.f i - d)).f m + d = csum b.f m := by
  intro m; induction m with
  | zero => intro h; omega
  | succ m ih =>
    intro h
    simp only [csum]
    by_cases e : i = m
    · subst e
      rw [csum_congr (b.upd i (b.f i - d)).f b.f i (fun l hl => by simp; omega)]
      simp; omega
    · have := ih (by omega); simp [Ne.symm e]; omega

theorem ksum_zero_above (b : Nat → Nat) (m : Nat) : ∀ m', m ≤ m' → (∀ l, m ≤ l → l < m' → b l = 0) →
    ksum b m' = ksum b m := by
  intro m'; induction m' with
  | zero => intro h _; have : m = 0 := by omega
            subst this; rfl
  | succ k ih =>
    intro h hz
    by_cases e : m = k + 1
    · subst e; rfl
    · simp only [ksum]
      rw [ih (by omega) (fun l h1 h2 => hz l h1 (by omega)), hz k (by omega) (by omega)]; simp

theorem csum_le (b : Nat → Nat) (x y : Nat) (hxy : x < y) : ∀ m, y < m → b x + b y ≤ csum b m := by
  have h1 : ∀ m, x < m → b x ≤ csum b m := by
    intro m; induction m with
    | zero => intro h; omega
    | succ m ih =>
      intro h; simp only [csum]
      by_cases e : x = m
      · subst e; omega
      · have := ih (by omega); omega
  intro m; induction m with
  | zero => intro h; omega
  | succ m ih =>
    intro h; simp only [csum]
    by_cases e : y = m
    · subst e; have := h1 y hxy; omega
    · have := ih (by omega); omega

theorem dvd_ksum (b : Nat → Nat) (i : Nat) (hi : i ≤ 32) : ∀ m, m ≤ i → 2 ^ (33 - i) ∣ ksum b m := by
  intro m; induction m with
  | zero => intro _; exact Nat.dvd_zero _
  | succ m ih =>
    intro h
    simp only [ksum]
    apply Nat.dvd_add (ih (by omega))
    apply Nat.dvd_trans (Nat.pow_dvd_pow 2 (show 33 - i ≤ 32 - m by omega)) (Nat.dvd_mul_left _ _)

/-- what the loop body needs at level `i`: the counter is even, and a shorter non-empty level exists -/
theorem level_facts (b : Nat → Nat) (i : Nat) (hi1 : 17 ≤ i) (hi2 : i ≤ 32) (hK : ksum b 33 = 2 ^ 32)
    (hz : ∀ l, i < l → l < 33 → b l = 0) (hc : csum b 33 ≤ 257) (hpos : 0 < b i) :
    2 ≤ b i ∧ ∃ j, 1 ≤ j ∧ j ≤ i - 2 ∧ b j ≠ 0 := by
  have e1 : ksum b 33 = ksum b (i + 1) := ksum_zero_above b (i + 1) 33 (by omega) (fun l h1 h2 => hz l (by omega) h2)
  have e2 : ksum b (i + 1) = ksum b i + b i * 2 ^ (32 - i) := rfl
  have hx : 0 < 2 ^ (32 - i) := Nat.two_pow_pos _
  constructor
  · have d1 := dvd_ksum b i hi2 i (Nat.le_refl _)
    have d2 : 2 ^ (33 - i) ∣ ksum b i + b i * 2 ^ (32 - i) := by
      rw [← e2, ← e1, hK]; exact Nat.pow_dvd_pow 2 (by omega)
    have d3 : 2 ^ (33 - i) ∣ b i * 2 ^ (32 - i) := (Nat.dvd_add_right d1).1 d2
    have e3 : 2 ^ (33 - i) = 2 * 2 ^ (32 - i) := by
      rw [show 33 - i = (32 - i) + 1 by omega, Nat.pow_succ, Nat.mul_comm]
    rw [e3] at d3
    have d4 : 2 ∣ b i := Nat.dvd_of_mul_dvd_mul_right hx d3
    omega
  · apply Classical.byContradiction
    intro hno
    have hall : ∀ j, 1 ≤ j → j ≤ i - 2 → b j = 0 := by
      intro j h1 h2
      apply Classical.byContradiction
      intro hj; exact hno ⟨j, h1, h2, hj⟩
    have e4 : ksum b (i - 1) = ksum b 1 := ksum_zero_above b 1 (i - 1) (by omega) (fun l h1 h2 => hall l h1 (by omega))
    have e5 : ksum b i = ksum b (i - 1) + b (i - 1) * 2 ^ (32 - (i - 1)) := by
      have : i = (i - 1) + 1 := by omega
      conv => lhs; rw [this]
      rfl
    have e6 : ksum b 1 = b 0 * 2 ^ 32 := by simp [ksum]
    have e7 : 2 ^ (32 - (i - 1)) = 2 * 2 ^ (32 - i) := by
      rw [show 32 - (i - 1) = (32 - i) + 1 by omega, Nat.pow_succ, Nat.mul_comm]
    have tot : b 0 * 2 ^ 32 + b (i - 1) * (2 * 2 ^ (32 - i)) + b i * 2 ^ (32 - i) = 2 ^ 32 := by
      have e8 : ksum b 33 = b 0 * 2 ^ 32 + b (i - 1) * (2 * 2 ^ (32 - i)) + b i * 2 ^ (32 - i) := by
        rw [e1, e2, e5, e4, e6, e7]
      rw [hK] at e8; exact e8.symm
    have hb0 : b 0 = 0 := by
      apply Classical.byContradiction
      intro h0
      have : 2 ^ 32 ≤ b 0 * 2 ^ 32 := Nat.le_mul_of_pos_left _ (by omega)
      have : 0 < b i * 2 ^ (32 - i) := Nat.mul_pos hpos hx
      omega
    rw [hb0] at tot
    have hsum := csum_le b (i - 1) i (by omega) 33 (by omega)
    have hx16 : 2 ^ (32 - i) ≤ 2 ^ 15 := Nat.pow_le_pow_right (by decide) (by omega)
    have h1 : b (i - 1) * (2 * 2 ^ (32 - i)) ≤ b (i - 1) * 2 ^ 16 := by
      apply Nat.mul_le_mul_left; omega
    have h2 : b i * 2 ^ (32 - i) ≤ b i * 2 ^ 16 := by
      apply Nat.mul_le_mul_left; omega
    have h3 : b (i - 1) * 2 ^ 16 + b i * 2 ^ 16 ≤ 257 * 2 ^ 16 := by
      rw [← Nat.add_mul]; apply Nat.mul_le_mul_right; omega
    omega

theorem findJ_spec (b : Bits) : ∀ m, (findJ m b = 0 ∧ ∀ l, 1 ≤ l → l ≤ m → b.f l = 0) ∨
    (1 ≤ findJ m b ∧ findJ m b ≤ m ∧ b.f (findJ m b) ≠ 0 ∧ ∀ l, findJ m b < l → l ≤ m → b.f l = 0) := by
  intro m; induction m with
  | zero => left; exact ⟨rfl, fun l h1 h2 => by omega⟩
  | succ m ih =>
    simp only [findJ]
    by_cases e : b.f (m + 1) = 0
    · simp only [e, if_true]
      rcases ih with ⟨h1, h2⟩ | ⟨h1, h2, h3, h4⟩
      · left; refine ⟨h1, fun l hl1 hl2 => ?_⟩
        by_cases e2 : l = m + 1
        · rw [e2]; exact e
        · exact h2 l hl1 (by omega)
      · right; refine ⟨h1, by omega, h3, fun l hl1 hl2 => ?_⟩
        by_cases e2 : l = m + 1
        · rw [e2]; exact e
        · exact h4 l hl1 (by omega)
    · simp only [e, if_false]
      right; exact ⟨by omega, Nat.le_refl _, e, fun l h1 h2 => by omega⟩

/-- invariant of the limiting loop -/
structure LInv (b : Bits) (i : Nat) : Prop where
  kraft : ksum b.f 33 = 2 ^ 32
  count : csum b.f 33 ≤ 257
  zero : ∀ l, i < l → l < 33 → b.f l = 0

theorem limitAt_inv (i : Nat) (hi1 : 17 ≤ i) (hi2 : i ≤ 32) : ∀ (fuel : Nat) (b : Bits), LInv b i → b.f i ≤ fuel →
    LInv (limitAt i fuel b) i ∧ (limitAt i fuel b).f i = 0 ∧ csum (limitAt i fuel b).f 33 = csum b.f 33 := by
  intro fuel
  induction fuel with
  | zero => intro b h hf; exact ⟨h, by simp [limitAt]; omega, rfl⟩
  | succ f ih =>
    intro b h hf
    simp only [limitAt]
    by_cases hpos : b.f i > 0
    · simp only [hpos, if_true]
      obtain ⟨h2, j0, hj1, hj2, hj3⟩ := level_facts b.f i hi1 hi2 h.kraft h.zero h.count hpos
      have hj : 1 ≤ findJ (i - 2) b ∧ findJ (i - 2) b ≤ i - 2 ∧ b.f (findJ (i - 2) b) ≠ 0 := by
        rcases findJ_spec b (i - 2) with ⟨_, hz⟩ | ⟨a1, a2, a3, _⟩
        · exact absurd (hz j0 hj1 hj2) hj3
        · exact ⟨a1, a2, a3⟩
      generalize findJ (i - 2) b = j at hj
      obtain ⟨j1, j2, j3⟩ := hj
      -- the four updates, one at a time
      let b1 := b.upd i (b.f i - 2)
      let b2 := b1.upd (i - 1) (b1.f (i - 1) + 1)
      let b3 := b2.upd (j + 1) (b2.f (j + 1) + 2)
      let b4 := b3.upd j (b3.f j - 1)
      have hb3j : b3.f j = b.f j := by
        simp only [b3, b2, b1, Bits.upd_f]
        rw [if_neg (by omega), if_neg (by omega), if_neg (by omega)]
      have k1 : ksum b1.f 33 + 2 * 2 ^ (32 - i) = ksum b.f 33 := ksum_upd_sub b i 2 h2 33 (by omega)
      have k2 : ksum b2.f 33 = ksum b1.f 33 + 1 * 2 ^ (32 - (i - 1)) := ksum_upd_add b1 (i - 1) 1 33 (by omega)
      have k3 : ksum b3.f 33 = ksum b2.f 33 + 2 * 2 ^ (32 - (j + 1)) := ksum_upd_add b2 (j + 1) 2 33 (by omega)
      have k4 : ksum b4.f 33 + 1 * 2 ^ (32 - j) = ksum b3.f 33 := ksum_upd_sub b3 j 1 (by rw [hb3j]; omega) 33 (by omega)
      have c1 : csum b1.f 33 + 2 = csum b.f 33 := csum_upd_sub b i 2 h2 33 (by omega)
      have c2 : csum b2.f 33 = csum b1.f 33 + 1 := csum_upd_add b1 (i - 1) 1 33 (by omega)
      have c3 : csum b3.f 33 = csum b2.f 33 + 2 := csum_upd_add b2 (j + 1) 2 33 (by omega)
      have c4 : csum b4.f 33 + 1 = csum b3.f 33 := csum_upd_sub b3 j 1 (by rw [hb3j]; omega) 33 (by omega)
      have ex : 2 ^ (32 - (i - 1)) = 2 * 2 ^ (32 - i) := by
        rw [show 32 - (i - 1) = (32 - i) + 1 by omega, Nat.pow_succ, Nat.mul_comm]
      have ey : 2 ^ (32 - j) = 2 * 2 ^ (32 - (j + 1)) := by
        rw [show 32 - j = (32 - (j + 1)) + 1 by omega, Nat.pow_succ, Nat.mul_comm]
      have hk4 : ksum b4.f 33 = ksum b.f 33 := by omega
      have hc4 : csum b4.f 33 = csum b.f 33 := by omega
      have hb4i : b4.f i = b.f i - 2 := by
        simp only [b4, b3, b2, b1, Bits.upd_f]
        rw [if_neg (by omega), if_neg (by omega), if_neg (by omega)]
        simp
      have hinv4 : LInv b4 i := by
        refine ⟨by rw [hk4]; exact h.kraft, by rw [hc4]; exact h.count, ?_⟩
        intro l hl1 hl2
        simp only [b4, b3, b2, b1, Bits.upd_f]
        rw [if_neg (by omega), if_neg (by omega), if_neg (by omega), if_neg (by omega)]
        exact h.zero l hl1 hl2
      obtain ⟨r1, r2, r3⟩ := ih b4 hinv4 (by rw [hb4i]; omega)
      exact ⟨r1, r2, by rw [r3, hc4]⟩
    · rw [if_neg hpos]
      exact ⟨h, by omega, rfl⟩

theorem LInv.down {b : Bits} {i : Nat} (h : LInv b i) (hz : b.f i = 0) : LInv b (i - 1) := by
  refine ⟨h.kraft, h.count, ?_⟩
  intro l h1 h2
  by_cases e : l = i
  · rw [e]; exact hz
  · exact h.zero l (by omega) h2

theorem limitFold_inv : ∀ (k : Nat), k ≤ 16 → ∀ (b : Bits), LInv b 32 →
    LInv ((List.range k).foldl (fun b k => limitAt (32 - k) (b.f (32 - k)) b) b) (32 - k) ∧
    csum ((List.range k).foldl (fun b k => limitAt (32 - k) (b.f (32 - k)) b) b).f 33 = csum b.f 33 := by
  intro k
  induction k with
  | zero => intro _ b h; exact ⟨h, rfl⟩
  | succ k ih =>
    intro hk b h
    rw [List.range_succ, List.foldl_append]
    obtain ⟨h1, h2⟩ := ih (by omega) b h
    generalize (List.range k).foldl (fun b k => limitAt (32 - k) (b.f (32 - k)) b) b = bb at h1 h2
    simp only [List.foldl_cons, List.foldl_nil]
    obtain ⟨r1, r2, r3⟩ := limitAt_inv (32 - k) (by omega) (by omega) (bb.f (32 - k)) bb h1 (Nat.le_refl _)
    have := r1.down r2
    rw [show 32 - k - 1 = 32 - (k + 1) by omega] at this
    exact ⟨this, by rw [r3, h2]⟩

/-- **The length-limiting step**: the Kraft sum and the number of symbols are unchanged, and no
length above 16 remains in use. -/
theorem limitAll_spec (b : Bits) (hK : ksum b.f 33 = 2 ^ 32) (hc : csum b.f 33 ≤ 257) :
    ksum (limitAll b).f 33 = 2 ^ 32 ∧ csum (limitAll b).f 33 = csum b.f 33 ∧
    ∀ l, 16 < l → l < 33 → (limitAll b).f l = 0 := by
  have h0 : LInv b 32 := ⟨hK, hc, fun l h1 h2 => by omega⟩
  obtain ⟨h1, h2⟩ := limitFold_inv 16 (Nat.le_refl _) b h0
  unfold limitAll
  refine ⟨h1.kraft, h2, ?_⟩
  intro l hl1 hl2
  exact h1.zero l (by omega) hl2

end LJT.Huff
