import LJT.Proofs.HuffOpt3
/-! K.2 generator, part 4: the whole merge loop, from the initial forest to the single final tree. -/
set_option maxRecDepth 20000
namespace LJT.Huff

theorem mergeAll_final2 {n W P : Nat} (hn : n ≤ 257) (hW : W ≤ FREQ_LIMIT) :
    ∀ (fuel : Nat) (ts : List Tree) (g : Ghost), Inv n W ts → PInv P ts g → 1 ≤ ts.length →
      ts.length ≤ fuel + 1 → ∃ T g', mergeAll fuel ts = [T] ∧ Inv n W [T] ∧ PInv P [T] g' := by
  intro fuel
  induction fuel with
  | zero =>
    intro ts g h hp h1 h2
    match ts, h, hp, h1, h2 with
    | [], _, _, h1, _ => simp at h1
    | [T], h, hp, _, _ => exact ⟨T, g, rfl, h, hp⟩
    | _ :: _ :: _, _, _, _, h2 => simp at h2
  | succ f ih =>
    intro ts g h hp h1 h2
    by_cases hl : 2 ≤ ts.length
    · obtain ⟨a, b, rest, ts', hs, hi, p1, p2, hab, hrest, hl'⟩ := h.step hn hW hl
      have ha : a ∈ ts := p1.mem_iff.2 (by simp)
      have hb : b ∈ ts := p1.mem_iff.2 (by simp)
      have hnd : (a :: b :: rest).Nodup := (p1.nodup_iff).1 h.wf.nodup
      have hna : a ∉ rest := by simp at hnd; exact hnd.1.2
      have hnb : b ∉ rest := by simp at hnd; exact hnd.2.1
      have hidx : ∀ t ∈ rest, t.idx ≠ a.idx := by
        intro t ht e
        have ht' : t ∈ ts := p1.mem_iff.2 (by simp [ht])
        have := h.wf.idx_inj ht' ha e
        exact hna (this ▸ ht)
      obtain ⟨g', hp'⟩ := hp.step p1 p2 hab hrest (h.wf.idx_lt a ha) (h.wf.idx_lt b hb)
        (h.wf.w_pos a ha) hna hnb hidx
      simp only [mergeAll, hs]
      exact ih ts' g' hi hp' (by omega) (by omega)
    · have hnone := mergeStep_none ts h.wf (by omega)
      simp only [mergeAll, hnone]
      match ts, h, hp, h1, hl with
      | [], _, _, h1, _ => simp at h1
      | [T], h, hp, _, _ => exact ⟨T, g, rfl, h, hp⟩
      | _ :: _ :: _, _, _, _, hl => simp at hl

/-! the initial forest -/

theorem getD_mem {l : List Nat} {i : Nat} (hi : i < l.length) : l.getD i 0 ∈ l := by
  rw [List.getD_eq_getElem?_getD, List.getElem?_eq_getElem hi]
  exact List.getElem_mem hi

theorem le_sum_of_mem' : ∀ (l : List Nat) (a : Nat), a ∈ l → a ≤ l.sum := by
  intro l
  induction l with
  | nil => intro a h; simp at h
  | cons x xs ih =>
    intro a h
    rcases List.mem_cons.1 h with h | h
    · subst h; simp
    · have := ih a h; simp only [List.sum_cons]; omega

theorem mem_initForest : ∀ (ws : List Nat) (k : Nat) (t : Tree), t ∈ initForest ws k →
    ∃ i, i < ws.length ∧ t.idx = k + i ∧ t.w = ws.getD i 0 ∧ t.mem = [(k + i, 0)] := by
  intro ws
  induction ws with
  | nil => intro k t h; simp [initForest] at h
  | cons w ws ih =>
    intro k t h
    simp only [initForest, List.mem_cons] at h
    rcases h with h | h
    · exact ⟨0, by simp, by simp [h], by simp [h], by simp [h]⟩
    · obtain ⟨i, hi, e1, e2, e3⟩ := ih (k + 1) t h
      refine ⟨i + 1, by simp; omega, by omega, ?_, ?_⟩
      · simpa using e2
      · rw [e3]; congr 2; omega

theorem initForest_mem : ∀ (ws : List Nat) (k i : Nat), i < ws.length →
    (⟨ws.getD i 0, k + i, [(k + i, 0)]⟩ : Tree) ∈ initForest ws k := by
  intro ws
  induction ws with
  | nil => intro k i h; simp at h
  | cons w ws ih =>
    intro k i h
    cases i with
    | zero => simp [initForest]
    | succ i =>
      simp only [initForest, List.mem_cons]
      right
      have := ih (k + 1) i (by simpa using h)
      have e : k + 1 + i = k + (i + 1) := by omega
      rw [e] at this
      simpa using this

theorem initForest_length : ∀ (ws : List Nat) (k : Nat), (initForest ws k).length = ws.length := by
  intro ws; induction ws with
  | nil => intro k; rfl
  | cons w ws ih => intro k; simp [initForest, ih]

theorem initForest_sorted : ∀ (ws : List Nat) (k : Nat),
    (initForest ws k).Pairwise (fun a b => a.idx < b.idx) := by
  intro ws; induction ws with
  | nil => intro k; simp [initForest]
  | cons w ws ih =>
    intro k
    simp only [initForest, List.pairwise_cons]
    refine ⟨?_, ih (k + 1)⟩
    intro t ht
    obtain ⟨i, _, e, _, _⟩ := mem_initForest ws (k + 1) t ht
    show k < t.idx
    omega

theorem initForest_wsum : ∀ (ws : List Nat) (k : Nat), wsum (initForest ws k) = ws.sum := by
  intro ws; induction ws with
  | nil => intro k; rfl
  | cons w ws ih =>
    intro k
    have := ih (k + 1)
    simp only [wsum, initForest, List.map_cons, List.sum_cons] at this ⊢
    omega

theorem initForest_slots : ∀ (ws : List Nat) (k : Nat), slots (initForest ws k) = List.range' k ws.length := by
  intro ws; induction ws with
  | nil => intro k; rfl
  | cons w ws ih =>
    intro k
    have := ih (k + 1)
    simp only [slots, initForest, List.flatMap_cons, List.map_append, List.map_cons, List.map_nil,
      List.length_cons, List.range'_succ] at this ⊢
    rw [this]; rfl

theorem initForest_inv (ws : List Nat) (hlen : ws.length ≤ 257) (hpos : ∀ w ∈ ws, 1 ≤ w)
    (hsum : ws.sum ≤ FREQ_LIMIT) : Inv ws.length ws.sum (initForest ws 0) := by
  have hle : ∀ i, i < ws.length → ws.getD i 0 ≤ ws.sum := by
    intro i hi
    exact le_sum_of_mem' ws _ (getD_mem hi)
  refine ⟨⟨initForest_sorted ws 0, ?_, ?_, ?_⟩, initForest_wsum ws 0, ?_, ?_, ?_⟩
  · intro t ht; obtain ⟨i, hi, e, _, _⟩ := mem_initForest ws 0 t ht; omega
  · intro t ht; obtain ⟨i, hi, _, e, _⟩ := mem_initForest ws 0 t ht
    rw [e]; exact hpos _ (getD_mem hi)
  · intro t ht; obtain ⟨i, hi, _, e, _⟩ := mem_initForest ws 0 t ht
    rw [e]; exact Nat.le_trans (hle i hi) hsum
  · rw [initForest_slots, List.range_eq_range']
  · intro t ht; obtain ⟨i, hi, _, _, e⟩ := mem_initForest ws 0 t ht
    rw [e]; simp only [kr, List.map_cons, List.map_nil, List.sum_cons, List.sum_nil]; rfl
  · intro t ht p hp; obtain ⟨i, hi, _, _, e⟩ := mem_initForest ws 0 t ht
    rw [e] at hp; simp at hp; rw [hp, initForest_length]; simp

def ghost0 : Ghost := ⟨0, 511, 0, 510, 0, fun _ => 0⟩

theorem initForest_pinv (ws : List Nat) (hn1 : 1 ≤ ws.length) (hlen : ws.length ≤ 257)
    (hpos : ∀ w ∈ ws, 1 ≤ w) (hlast : ws.getD (ws.length - 1) 0 = 1) :
    PInv (ws.length - 1) (initForest ws 0) ghost0 := by
  refine ⟨by decide, by decide, by decide, ?_, ?_, ?_, ?_, ?_⟩
  · intro t ht
    obtain ⟨i, hi, _, e, _⟩ := mem_initForest ws 0 t ht
    have : 1 ≤ t.w := by
      rw [e]; exact hpos _ (getD_mem hi)
    show 0 * 512 + (511 - 510) < key t
    unfold key; omega
  · have hm := initForest_mem ws 0 (ws.length - 1) (by omega)
    rw [hlast] at hm
    simp only [Nat.zero_add] at hm
    refine ⟨_, hm, by simp [ghost0], ?_, ?_, ?_, ?_⟩
    · intro p hp; simp at hp; simp [hp, ghost0]
    · intro h0; simp [ghost0] at h0
    · intro _ t ht hne
      obtain ⟨i, hi, e1, e2, e3⟩ := mem_initForest ws 0 t ht
      have hw : 1 ≤ t.w := by
        rw [e2]; exact hpos _ (getD_mem hi)
      have hi' : i ≠ ws.length - 1 := by
        intro e
        apply hne
        cases t with
        | mk w idx mem =>
          simp only at e1 e2 e3
          subst e
          simp only [Nat.zero_add] at e1 e3
          rw [hlast] at e2
          rw [e1, e2, e3]
      unfold key
      simp only
      omega
    · intro t ht _ p hp hp1
      obtain ⟨i, hi, _, _, e3⟩ := mem_initForest ws 0 t ht
      rw [e3] at hp; simp at hp; rw [hp] at hp1; simp at hp1
  · intro j k _ _ hk; simp [ghost0] at hk; omega
  · intro k hk1 hk; simp [ghost0] at hk; omega
  · intro t ht ⟨p, hp, hp1⟩
    obtain ⟨i, hi, _, _, e3⟩ := mem_initForest ws 0 t ht
    rw [e3] at hp; simp at hp; rw [hp] at hp1; simp at hp1

/-- **The merge loop.**  For `n` non-zero frequencies, the last of which is the pseudo-symbol's 1, whose sum
does not exceed 10^9, the loop ends with one tree that holds every slot once, satisfies the Kraft equality,
and has the pseudo-symbol (slot `n-1`) on its deepest level. -/
theorem merge_result (ws : List Nat) (hn1 : 1 ≤ ws.length) (hlen : ws.length ≤ 257)
    (hpos : ∀ w ∈ ws, 1 ≤ w) (hsum : ws.sum ≤ FREQ_LIMIT) (hlast : ws.getD (ws.length - 1) 0 = 1) :
    ∃ T hP, mergeAll 300 (initForest ws 0) = [T] ∧ Inv ws.length ws.sum [T] ∧
      (ws.length - 1, hP) ∈ T.mem ∧ ∀ p ∈ T.mem, p.2 ≤ hP := by
  obtain ⟨T, g', e, hi, hp⟩ := mergeAll_final2 (P := ws.length - 1) hlen hsum 300 (initForest ws 0) ghost0
    (initForest_inv ws hlen hpos hsum) (initForest_pinv ws hn1 hlen hpos hlast)
    (by rw [initForest_length]; exact hn1) (by rw [initForest_length]; omega)
  obtain ⟨TP, hTP, hPm, hPd, _, _, _⟩ := hp.tp
  simp at hTP
  subst hTP
  exact ⟨TP, g'.h, e, hi, hPm, hPd⟩

end LJT.Huff
