import LJT.Proofs.HuffOpt7
import LJT.Proofs.Huff
/-! K.2 generator, part 8: the returned `bits[]` is accepted by the code-space check of
`jpeg_make_c_derived_tbl` / `jpeg_make_d_derived_tbl` (Figure C.2 as coded). -/
set_option maxRecDepth 20000
namespace LJT.Huff

/-- code space (in units of `2^-16`) taken by a list of code lengths -/
def need (l : List Nat) : Nat := (l.map (fun s => 2 ^ (16 - s))).sum

theorem genCodes_accepts : ∀ (l : List Nat) (code si : Nat), l.Pairwise (· ≤ ·) → (∀ s ∈ l, si ≤ s) →
    (∀ s ∈ l, s ≤ 16) → si ≤ 16 → code * 2 ^ (16 - si) + need l < 2 ^ 16 →
    ∃ cs, genCodes l code si = some cs := by
  intro l code si
  induction l, code, si using genCodes.induct with
  | case1 code si hge =>
    intro _ _ _ hsi h
    exfalso
    have : code < 2 ^ si := pow_lt_of_mul_lt hsi (by simp [need] at h; omega)
    omega
  | case2 code si hlt =>
    intro _ _ _ _ _
    exact ⟨[], by simp [genCodes, hlt]⟩
  | case3 rest code s ih =>
    intro hs hall h16 hsi h
    have hs' : rest.Pairwise (· ≤ ·) := (List.pairwise_cons.1 hs).2
    have hall' : ∀ x ∈ rest, s ≤ x := (List.pairwise_cons.1 hs).1
    obtain ⟨cs, hcs⟩ := ih hs' hall' (fun x hx => h16 x (by simp [hx])) hsi (by
      simp only [need, List.map_cons, List.sum_cons] at h ⊢
      rw [Nat.add_mul]; omega)
    refine ⟨code :: cs, ?_⟩
    rw [genCodes]; simp [hcs]
  | case4 s rest code si hne hlt =>
    intro _ hall _ _ _
    have := hall s (by simp); omega
  | case5 s rest code si hne hnlt hge =>
    intro _ _ _ hsi h
    exfalso
    have : code < 2 ^ si := pow_lt_of_mul_lt hsi (by
      have : 0 ≤ need (s :: rest) := Nat.zero_le _
      omega)
    omega
  | case6 s rest code si hne hnlt hnge ih =>
    intro hs hall h16 hsi h
    have hs1 := hall s (by simp)
    have hs2 := h16 s (by simp)
    obtain ⟨cs, hcs⟩ := ih hs (fun x hx => by have := hall x hx; rcases List.mem_cons.1 hx with e | e
                                              · omega
                                              · have := (List.pairwise_cons.1 hs).1 x e; omega)
      h16 (by omega) (by
        have e : 2 ^ (16 - si) = 2 * 2 ^ (16 - (si + 1)) := by
          rw [show 16 - si = (16 - (si + 1)) + 1 by omega, Nat.pow_succ, Nat.mul_comm]
        rw [e] at h
        rw [Nat.mul_assoc]; exact h)
    refine ⟨cs, ?_⟩
    rw [genCodes]; simp [hne, hnlt, hnge, hcs]

/-- `Σ_{j=l}^{l+n-1} b j · 2^(16-j)` -/
def rsum (b : Nat → Nat) : Nat → Nat → Nat
  | _, 0 => 0
  | l, n + 1 => b l * 2 ^ (16 - l) + rsum b (l + 1) n

theorem k16_add_rsum (b : Nat → Nat) : ∀ n l, k16 b (l + n) = k16 b l + rsum b l n := by
  intro n
  induction n with
  | zero => intro l; simp [rsum]
  | succ n ih =>
    intro l
    have := ih (l + 1)
    rw [show l + (n + 1) = l + 1 + n by omega, this]
    simp only [k16, rsum]; omega

theorem need_sizesFrom (bits : List Nat) : ∀ n l, need (sizesFrom bits l n) = rsum (fun j => bits.getD j 0) l n := by
  intro n
  induction n with
  | zero => intro l; simp [sizesFrom, need, rsum]
  | succ n ih =>
    intro l
    have := ih (l + 1)
    simp only [sizesFrom, need, rsum, List.map_append, List.sum_append, List.map_replicate] at this ⊢
    rw [this]
    congr 1
    generalize bits.getD l 0 = k
    induction k with
    | zero => simp
    | succ k ihk => simp [List.replicate_succ, ihk, Nat.add_mul]; omega

/-- a `bits[]` array that leaves a code point free is accepted by the validator -/
theorem codes_accepts (bits : List Nat) (h : k16 (fun j => bits.getD j 0) 17 < 2 ^ 16) :
    ∃ cs, codes bits = some cs := by
  unfold codes
  have hneed : need (sizes bits) < 2 ^ 16 := by
    unfold sizes
    rw [need_sizesFrom]
    have := k16_add_rsum (fun j => bits.getD j 0) 16 1
    simp only [show 1 + 16 = 17 by rfl] at this
    omega
  have hsorted := sizesFrom_sorted bits 16 1
  have hrange := sizesFrom_ge bits 16 1
  cases hsz : sizes bits with
  | nil => exact ⟨[], rfl⟩
  | cons s rest =>
    simp only
    unfold sizes at hsz
    rw [hsz] at hsorted hrange
    unfold sizes at hneed; rw [hsz] at hneed
    apply genCodes_accepts (s :: rest) 0 s hsorted
    · intro x hx
      rcases List.mem_cons.1 hx with e | e
      · omega
      · exact (List.pairwise_cons.1 hsorted).1 x e
    · intro x hx; have := hrange x hx; omega
    · have := hrange s (by simp); omega
    · simpa using hneed

end LJT.Huff
