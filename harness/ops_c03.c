/* C03 / C04: entropy coding and scan structure never change the coefficients; emitted streams are
 * decodable by an independent T.81 decoder (the Lean model) and vice versa. */
#include "exec_common.h"

static unsigned long long c03_mix(unsigned long long x)
{
  x += 0x9E3779B97F4A7C15ULL;
  x = (x ^ (x >> 30)) * 0xBF58476D1CE4E5B9ULL;
  x = (x ^ (x >> 27)) * 0x94D049BB133111EBULL;
  return x ^ (x >> 31);
}

/* coefficient formula: k = natural-order index */
static int c03_coef(unsigned long long seed, int kind, int prec, int ci, int by, int bx, int k)
{
  unsigned long long h = c03_mix(seed * 1000003ULL + (unsigned long long)ci * 7919ULL + (unsigned long long)by * 104729ULL + (unsigned long long)bx * 611ULL + (unsigned long long)k);
  int maxac = prec == 8 ? 1023 : 16383, maxdc = prec == 8 ? 1016 : 16300;
  switch (kind) {
  case 0: { int r = (int)(h % 41ULL) - 20; if (k > 20 && (h >> 8) % 4ULL) r = 0; return r; }
  case 1: return k == 0 ? (int)(seed % 200ULL) - 100 : 0;
  case 2: if (k == 0) return (h & 1ULL) ? maxdc : -maxdc; return ((h >> 3) % 5ULL == 0) ? (((h >> 1) & 1ULL) ? maxac : -maxac) : 0;
  case 3: return (int)(h % 255ULL) - 127;
  case 4: return k == 63 ? ((h & 1ULL) ? 1 : -3) : (k == 0 ? (int)(h % 9ULL) - 4 : 0);
  case 5: return 0;
  case 8: /* flat, with one isolated block every 61 block rows (about 11000 blocks in a 182-block-wide image): the adaptive statistics of the
             arithmetic coder reach the small-Qe end of the probability table before a less probable symbol arrives */
    if (by % 61 == 60 && bx == 177) return k == 0 ? 9 : (int)((h >> 4) % 7ULL) - 3;
    return k == 0 ? 5 : 0;
  case 7: /* every AC coefficient stays nonzero at every point transform: refinement scans are all correction bits */
    return k == 0 ? (int)(h % 9ULL) - 4 : ((h & 1ULL) ? 1 : -1) * (8 + (int)((h >> 3) % 100ULL));
  default: { /* mostly-flat with rare isolated blocks: long EOB runs broken at odd places */
    if ((h >> 20) % 97ULL) return k == 0 ? 5 : 0;
    return (int)((h >> 4) % 7ULL) - 3; }
  }
}

static void c03_factors(int ss, int *h, int *v)
{
  static const int hh[7] = { 1, 2, 2, 1, 1, 4, 1 }, vv[7] = { 1, 1, 2, 1, 2, 1, 4 };
  if (ss >= 10) { *h = ss / 10; *v = ss % 10; } else { *h = hh[ss]; *v = vv[ss]; }
}

#define C03_MAXSCANS 200
/* seeded generator of valid scan scripts */
static int c03_script(unsigned long long seed, int nc, int progressive, jpeg_scan_info *sc)
{
  int n = 0, ci, round;
  unsigned long long s = seed;
#define RND(m) ((int)((s = c03_mix(s)) % (unsigned long long)(m)))
  if (!progressive) {
    /* sequential: partition the components (in order) into scans */
    ci = 0;
    while (ci < nc) {
      int take = 1 + RND(nc - ci), k;
      if (take > 4) take = 4;
      sc[n].comps_in_scan = take;
      for (k = 0; k < take; k++) sc[n].component_index[k] = ci + k;
      sc[n].Ss = 0; sc[n].Se = 63; sc[n].Ah = 0; sc[n].Al = 0; n++;
      ci += take;
    }
    return n;
  }
  {
    int dcal = RND(3), dcinter = RND(2);
    /* DC first */
    if (dcinter && nc <= 4) {
      sc[n].comps_in_scan = nc; for (ci = 0; ci < nc; ci++) sc[n].component_index[ci] = ci;
      sc[n].Ss = 0; sc[n].Se = 0; sc[n].Ah = 0; sc[n].Al = dcal; n++;
    } else for (ci = 0; ci < nc; ci++) {
      sc[n].comps_in_scan = 1; sc[n].component_index[0] = ci; sc[n].Ss = 0; sc[n].Se = 0; sc[n].Ah = 0; sc[n].Al = dcal; n++;
    }
    {
      /* AC bands per component, each with its own first Al */
      int bs[4][8], be[4][8], bal[4][8], nb[4];
      for (ci = 0; ci < nc; ci++) {
        int k = 1; nb[ci] = 0;
        while (k <= 63 && nb[ci] < 8) {
          int e = nb[ci] == 7 ? 63 : k + RND(64 - k);
          if (RND(3) == 0) e = 63;
          bs[ci][nb[ci]] = k; be[ci][nb[ci]] = e; bal[ci][nb[ci]] = RND(3); nb[ci]++;
          k = e + 1;
        }
      }
      for (round = 0; round < 4; round++) {
        int start = n, b, i;
        /* DC refinement of this round */
        if (round >= 1 && dcal - round >= 0) {
          if (RND(2) && nc <= 4) {
            sc[n].comps_in_scan = nc; for (ci = 0; ci < nc; ci++) sc[n].component_index[ci] = ci;
            sc[n].Ss = 0; sc[n].Se = 0; sc[n].Ah = dcal - round + 1; sc[n].Al = dcal - round; n++;
          } else for (ci = 0; ci < nc; ci++) {
            sc[n].comps_in_scan = 1; sc[n].component_index[0] = ci; sc[n].Ss = 0; sc[n].Se = 0; sc[n].Ah = dcal - round + 1; sc[n].Al = dcal - round; n++;
          }
        }
        for (ci = 0; ci < nc; ci++) for (b = 0; b < nb[ci]; b++) {
          int al = bal[ci][b] - round;
          if (al < 0) continue;
          sc[n].comps_in_scan = 1; sc[n].component_index[0] = ci; sc[n].Ss = bs[ci][b]; sc[n].Se = be[ci][b];
          sc[n].Ah = round == 0 ? 0 : al + 1; sc[n].Al = al; n++;
        }
        /* shuffle the scans of this round */
        for (i = n - 1; i > start; i--) { int j = start + RND(i - start + 1); jpeg_scan_info t = sc[i]; sc[i] = sc[j]; sc[j] = t; }
      }
    }
  }
#undef RND
  return n;
}

typedef struct { int ss, w, h, prec, kind, mode, ri, rirows, nc, qk, mk; unsigned long long seed, sseed; } c03_job;

/* set the entropy-coding parameters of a compressor for `mode` */
static void c03_setmode(struct jpeg_compress_struct *c, c03_job *j, int mode, jpeg_scan_info *scans)
{
  c->arith_code = (mode == 4 || mode == 5);
  c->optimize_coding = (mode == 1 || mode == 3 || mode == 6 || j->prec == 12 || j->kind == 2 || j->kind == 3) && !c->arith_code;
  c->scan_info = NULL; c->num_scans = 0;
  if (mode == 2 || mode == 5) jpeg_simple_progression(c);
  if (mode == 3 || mode == 6 || mode == 7 || mode == 8) {
    int n = c03_script(j->sseed, j->nc, mode == 3 || mode == 7, scans);
    c->scan_info = scans; c->num_scans = n;
    if (mode == 7 || mode == 8) c->arith_code = TRUE, c->optimize_coding = FALSE;
  }
  c->restart_interval = (unsigned)j->ri; c->restart_in_rows = j->rirows;
}

static int c03_build(c03_job *j, unsigned char **out, unsigned long *outsize, int *err)
{
  struct jpeg_compress_struct c; my_err_t e; int ci, hs, vs, k; jvirt_barray_ptr arrays[4];
  static jpeg_scan_info scans[C03_MAXSCANS];
  c.err = my_err_init(&e);
  jpeg_create_compress(&c);
  if (setjmp(e.jb)) { *err = e.code; jpeg_destroy_compress(&c); return 0; }
  jpeg_mem_dest(&c, out, outsize);
  c03_factors(j->ss, &hs, &vs);
  c.image_width = (JDIMENSION)j->w; c.image_height = (JDIMENSION)j->h; c.input_components = j->nc;
  c.in_color_space = j->nc == 1 ? JCS_GRAYSCALE : j->nc == 3 ? JCS_YCbCr : JCS_CMYK;
  jpeg_set_defaults(&c);
  c.data_precision = j->prec;
  jpeg_set_colorspace(&c, j->nc == 1 ? JCS_GRAYSCALE : j->nc == 3 ? JCS_YCbCr : JCS_CMYK);
  for (ci = 0; ci < j->nc; ci++) { c.comp_info[ci].h_samp_factor = ci ? 1 : hs; c.comp_info[ci].v_samp_factor = ci ? 1 : vs; }
  if (j->nc == 4) { c.comp_info[3].h_samp_factor = hs; c.comp_info[3].v_samp_factor = vs; c.comp_info[1].dc_tbl_no = c.comp_info[1].ac_tbl_no = 1; c.comp_info[2].dc_tbl_no = c.comp_info[2].ac_tbl_no = 1; }
  jpeg_set_quality(&c, 75, TRUE);
  if (j->qk) {
    /* custom tables: qk bit0 -> table 0 has entries above 255, bit1 -> table 1 has; qk 4 -> all ones */
    unsigned int q[64]; int tb;
    for (tb = 0; tb < 2; tb++) {
      for (k = 0; k < 64; k++) q[k] = j->qk == 4 ? 1 : (unsigned)(1 + (k * 7 + tb * 3) % 200 + (((j->qk >> tb) & 1) && k % 9 == 4 ? 300 + 40 * k : 0));
      jpeg_add_quant_table(&c, tb, q, 100, FALSE);
    }
  }
  c03_setmode(&c, j, j->mode, scans);
  for (ci = 0; ci < j->nc; ci++) {
    int chs = c.comp_info[ci].h_samp_factor, cvs = c.comp_info[ci].v_samp_factor;
    JDIMENSION wb = (JDIMENSION)((((long)j->w * chs + hs * 8 - 1) / (hs * 8))), hb = (JDIMENSION)((((long)j->h * cvs + vs * 8 - 1) / (vs * 8)));
    JDIMENSION pwb = (wb + chs - 1) / chs * chs, phb = (hb + cvs - 1) / cvs * cvs;
    arrays[ci] = (*c.mem->request_virt_barray) ((j_common_ptr)&c, JPOOL_IMAGE, TRUE, pwb, phb, (JDIMENSION)cvs);
  }
  jpeg_write_coefficients(&c, arrays);
  if (j->mk) {
    /* extra marker segments: a small or a maximum-length COM, an APP3 */
    static unsigned char big[65533]; unsigned i; unsigned clen = j->mk == 1 ? 11 : j->mk == 2 ? 65533 : 700, alen = j->mk == 2 ? 5000 : 3;
    for (i = 0; i < sizeof(big); i++) big[i] = (unsigned char)(i * 7 + j->mk + (i >> 8));
    jpeg_write_marker(&c, JPEG_COM, big, clen);
    jpeg_write_marker(&c, JPEG_APP0 + 3, big + 17, alen);
  }
  for (ci = 0; ci < j->nc; ci++) {
    int chs = c.comp_info[ci].h_samp_factor, cvs = c.comp_info[ci].v_samp_factor;
    JDIMENSION wb = (JDIMENSION)((((long)j->w * chs + hs * 8 - 1) / (hs * 8))), hb = (JDIMENSION)((((long)j->h * cvs + vs * 8 - 1) / (vs * 8))), by, bx;
    for (by = 0; by < hb; by++) {
      JBLOCKARRAY ba = (*c.mem->access_virt_barray) ((j_common_ptr)&c, arrays[ci], by, 1, TRUE);
      for (bx = 0; bx < wb; bx++) for (k = 0; k < 64; k++) ba[0][bx][k] = (JCOEF)c03_coef(j->seed, j->kind, j->prec, ci, (int)by, (int)bx, k);
    }
  }
  jpeg_finish_compress(&c);
  jpeg_destroy_compress(&c);
  return 1;
}

/* the transcoder: read coefficients, copy critical parameters, write with another entropy mode */
static int c03_transcode(c03_job *j, int mode2, const unsigned char *in, unsigned long n, unsigned char **out, unsigned long *outsize, int *err)
{
  struct jpeg_decompress_struct d; struct jpeg_compress_struct c; my_err_t ed, ec; jvirt_barray_ptr *arr;
  static jpeg_scan_info scans[C03_MAXSCANS];
  d.err = my_err_init(&ed); c.err = my_err_init(&ec);
  jpeg_create_decompress(&d); jpeg_create_compress(&c);
  if (setjmp(ed.jb)) { *err = ed.code; jpeg_destroy_compress(&c); jpeg_destroy_decompress(&d); return 0; }
  if (setjmp(ec.jb)) { *err = ec.code; jpeg_destroy_compress(&c); jpeg_destroy_decompress(&d); return 0; }
  jpeg_mem_src(&d, in, n);
  jpeg_read_header(&d, TRUE);
  arr = jpeg_read_coefficients(&d);
  jpeg_copy_critical_parameters(&d, &c);
  c03_setmode(&c, j, mode2, scans);
  jpeg_mem_dest(&c, out, outsize);
  jpeg_write_coefficients(&c, arr);
  jpeg_finish_compress(&c);
  jpeg_destroy_compress(&c);
  jpeg_finish_decompress(&d);
  jpeg_destroy_decompress(&d);
  return 1;
}

/* compare the coefficients carried by a stream with the formula; returns number of differing coefficients, -1 on error */
static long c03_compare(c03_job *j, const unsigned char *jp, unsigned long n, int *warn, int *err, char *where, size_t wsz)
{
  struct jpeg_decompress_struct d; my_err_t e; jvirt_barray_ptr *arr; int ci, k; long bad = 0;
  d.err = my_err_init(&e);
  jpeg_create_decompress(&d);
  if (setjmp(e.jb)) { *err = e.code; jpeg_destroy_decompress(&d); return -1; }
  jpeg_mem_src(&d, jp, n);
  jpeg_read_header(&d, TRUE);
  arr = jpeg_read_coefficients(&d);
  if ((int)d.image_width != j->w || (int)d.image_height != j->h || d.num_components != j->nc) { snprintf(where, wsz, "dimensions %ux%u x%d", d.image_width, d.image_height, d.num_components); bad = 1; }
  else for (ci = 0; ci < d.num_components; ci++) {
    jpeg_component_info *cp = &d.comp_info[ci]; JDIMENSION by, bx;
    for (by = 0; by < cp->height_in_blocks; by++) {
      JBLOCKARRAY ba = (*d.mem->access_virt_barray) ((j_common_ptr)&d, arr[ci], by, 1, FALSE);
      for (bx = 0; bx < cp->width_in_blocks; bx++) for (k = 0; k < 64; k++) {
        int exp = c03_coef(j->seed, j->kind, j->prec, ci, (int)by, (int)bx, k);
        if (ba[0][bx][k] != exp) { if (!bad) snprintf(where, wsz, "component %d block (%u,%u) coefficient %d: %d, source %d", ci, by, bx, k, ba[0][bx][k], exp); bad++; }
      }
    }
  }
  jpeg_finish_decompress(&d);
  *warn = e.nwarn;
  jpeg_destroy_decompress(&d);
  return bad;
}

/* ent ss w h prec seed kind mode ri rirows scriptseed mode2(-1 = no transcoding) */
static int c03_ent(toks_t *t)
{
  c03_job j; int mode2 = (int)tl(t, 11), err = 0, warn = 0; unsigned char *jp = NULL, *jp2 = NULL; unsigned long n = 0, n2 = 0; long bad; char where[200] = "";
  const unsigned char *fin; unsigned long fn;
  j.ss = (int)tl(t, 1); j.w = (int)tl(t, 2); j.h = (int)tl(t, 3); j.prec = (int)tl(t, 4); j.seed = (unsigned long long)tll(t, 5); j.kind = (int)tl(t, 6);
  j.mode = (int)tl(t, 7); j.ri = (int)tl(t, 8); j.rirows = (int)tl(t, 9); j.sseed = (unsigned long long)tll(t, 10);
  j.qk = t->n > 12 ? (int)tl(t, 12) : 0; j.mk = t->n > 13 ? (int)tl(t, 13) : 0;
  j.nc = j.ss == 3 ? 1 : (j.ss >= 100 ? 4 : 3);
  if (j.ss >= 100) j.ss -= 100;
  if (!c03_build(&j, &jp, &n, &err)) { printf("R skip err build %d\n", err); printf("O fail ent: compressor rejected a valid request (code %d)\n", err); goto done; }
  fin = jp; fn = n;
  if (mode2 >= 0) {
    if (!c03_transcode(&j, mode2, jp, n, &jp2, &n2, &err)) { printf("R skip err transcode %d\n", err); printf("O fail ent: transcoder rejected own stream (code %d)\n", err); goto done; }
    fin = jp2; fn = n2;
  }
  printf("R skip "); puthex(fin, fn); printf("\n");
  bad = c03_compare(&j, fin, fn, &warn, &err, where, sizeof(where));
  if (bad < 0) printf("O fail ent: own stream not decodable (code %d)\n", err);
  else if (bad > 0) printf("O fail ent: %ld coefficients differ from the source; first: %s\n", bad, where);
  else if (warn) printf("O fail ent: decoder warned %d times on own stream\n", warn);
  else printf("O ok\n");
done:
  free(jp); free(jp2);
  return 1;
}

/* print what the independent decoder prints for a decoded coefficient set */
static void c03_t81_print(struct jpeg_decompress_struct *d, jvirt_barray_ptr *arr, int nwarn, char *got, size_t gotsz)
{
  int ci, k;
  if (got) got[0] = 0;
  printf("R ok P%d %ux%u nc%d prog%d ri%u scans%d |", d->data_precision, d->image_width, d->image_height, d->num_components, d->progressive_mode ? 1 : 0, d->restart_interval, d->input_scan_number);
  for (ci = 0; ci < d->num_components; ci++) {
    jpeg_component_info *cp = &d->comp_info[ci]; JDIMENSION by, bx; unsigned long long h = 14695981039346656037ULL, hq = 14695981039346656037ULL;
    for (by = 0; by < cp->height_in_blocks; by++) {
      JBLOCKARRAY ba = (*d->mem->access_virt_barray) ((j_common_ptr)d, arr[ci], by, 1, FALSE);
      for (bx = 0; bx < cp->width_in_blocks; bx++) for (k = 0; k < 64; k++) {
        int v = ba[0][bx][k];
        h ^= (unsigned long long)(v & 255); h *= 1099511628211ULL; h ^= (unsigned long long)((v >> 8) & 255); h *= 1099511628211ULL;
      }
    }
    if (cp->quant_table) for (k = 0; k < 64; k++) { unsigned v = cp->quant_table->quantval[k]; hq ^= v & 255; hq *= 1099511628211ULL; hq ^= v >> 8; hq *= 1099511628211ULL; }
    printf(" %d%d q%llu %ux%u %llu", cp->h_samp_factor, cp->v_samp_factor, hq, cp->width_in_blocks, cp->height_in_blocks, h);
    if (got) snprintf(got + strlen(got), gotsz - strlen(got), "%s%llu", ci ? "," : "", h);
  }
  printf(" w%d\n", nwarn);
}

/* t81 hex | t81c h1,h2,.. hex : decode with libjpeg-turbo, print what the independent decoder prints;
   t81c additionally compares the per-component coefficient digests with the ones given */
static int c03_t81(toks_t *t)
{
  int withexp = !strcmp(t->tok[0], "t81c"); const char *expect = withexp ? t->tok[1] : NULL; char got[400] = "";
  size_t n; unsigned char *b = hex2bytes(t->tok[withexp ? 2 : 1], &n);
  struct jpeg_decompress_struct d; my_err_t e; jvirt_barray_ptr *arr;
  d.err = my_err_init(&e);
  jpeg_create_decompress(&d);
  if (setjmp(e.jb)) {
    printf("R err %d\n", e.code);
    if (withexp) printf("O fail t81c: libjpeg-turbo rejected a conforming stream (code %d)\n", e.code);
    jpeg_destroy_decompress(&d); free(b); return 1;
  }
  jpeg_mem_src(&d, b, n);
  jpeg_read_header(&d, TRUE);
  arr = jpeg_read_coefficients(&d);
  c03_t81_print(&d, arr, e.nwarn, got, sizeof(got));
  if (withexp) {
    if (strcmp(got, expect)) printf("O fail t81c: libjpeg-turbo decoded coefficient digests %s from a conforming stream whose writer put in %s\n", got, expect);
    else if (e.nwarn) printf("O fail t81c: libjpeg-turbo warned %d times on a conforming stream\n", e.nwarn);
    else printf("O ok\n");
  }
  jpeg_finish_decompress(&d);
  jpeg_destroy_decompress(&d);
  free(b);
  return 1;
}

/* seqbytes seed w h ri hs vs nc : baseline Huffman (Annex K tables, not optimised) scan written by jpeg_write_coefficients for the
   formula coefficients; result = length and digest of the entropy-coded data between the SOS header and EOI */
static int c03_seqbytes(toks_t *t)
{
  c03_job j; unsigned char *jp = NULL; unsigned long n = 0, i, s0 = 0; int err = 0; unsigned long long h = 14695981039346656037ULL;
  memset(&j, 0, sizeof(j));
  j.seed = (unsigned long long)tll(t, 1); j.w = (int)tl(t, 2); j.h = (int)tl(t, 3); j.ri = (int)tl(t, 4); j.nc = (int)tl(t, 7);
  j.ss = j.nc == 1 ? 3 : (int)tl(t, 5) * 10 + (int)tl(t, 6); j.prec = 8; j.kind = 0; j.mode = 0;
  if (!c03_build(&j, &jp, &n, &err)) { printf("R err build %d\n", err); return 1; }
  for (i = 2; i + 3 < n; ) {
    if (jp[i] == 0xFF && jp[i + 1] == 0xDA) { s0 = i + 2 + ((unsigned long)jp[i + 2] << 8 | jp[i + 3]); break; }
    if (jp[i] == 0xFF && jp[i + 1] != 0xFF && jp[i + 1] != 0) i += 2 + ((unsigned long)jp[i + 2] << 8 | jp[i + 3]); else i++;
  }
  if (!strcmp(t->tok[0], "seqfile")) {
    for (i = 0; i < n; i++) { h ^= jp[i]; h *= 1099511628211ULL; }
    printf("R %lu %llu\n", n, h); free(jp); return 1;
  }
  if (!s0 || n < s0 + 2) { printf("R err nosos\n"); free(jp); return 1; }
  for (i = s0; i < n - 2; i++) { h ^= jp[i]; h *= 1099511628211ULL; }
  printf("R %lu %llu\n", n - 2 - s0, h);
  free(jp);
  return 1;
}

/* progfile seed w h ri hs vs nc kind sseed : whole progressive Huffman file (mode 2 = jpeg_simple_progression, mode 3 = seeded script) */
static int c03_progfile(toks_t *t)
{
  c03_job j; unsigned char *jp = NULL; unsigned long n = 0, i; int err = 0; unsigned long long h = 14695981039346656037ULL;
  memset(&j, 0, sizeof(j));
  j.seed = (unsigned long long)tll(t, 1); j.w = (int)tl(t, 2); j.h = (int)tl(t, 3); j.ri = (int)tl(t, 4); j.nc = (int)tl(t, 7);
  j.ss = j.nc == 1 ? 3 : (int)tl(t, 5) * 10 + (int)tl(t, 6); j.prec = 8; j.kind = (int)tl(t, 8); j.sseed = (unsigned long long)tll(t, 9);
  j.mode = j.sseed ? 3 : 2;
  if (!c03_build(&j, &jp, &n, &err)) { printf("R err build %d\n", err); return 1; }
  for (i = 0; i < n; i++) { h ^= jp[i]; h *= 1099511628211ULL; }
  if (getenv("C03_DUMP")) { FILE *f = fopen(getenv("C03_DUMP"), "wb"); if (f) { fwrite(jp, 1, n, f); fclose(f); } }
  printf("R %lu %llu\n", n, h); free(jp); return 1;
}

/* arifile seed w h ri hs vs nc kind mode sseed : whole arithmetic-coded file */
static int c03_arifile(toks_t *t)
{
  c03_job j; unsigned char *jp = NULL; unsigned long n = 0, i; int err = 0; unsigned long long h = 14695981039346656037ULL;
  memset(&j, 0, sizeof(j));
  j.seed = (unsigned long long)tll(t, 1); j.w = (int)tl(t, 2); j.h = (int)tl(t, 3); j.ri = (int)tl(t, 4); j.nc = (int)tl(t, 7);
  j.ss = j.nc == 1 ? 3 : (int)tl(t, 5) * 10 + (int)tl(t, 6); j.prec = 8; j.kind = (int)tl(t, 8); j.mode = (int)tl(t, 9); j.sseed = (unsigned long long)tll(t, 10);
  if (!c03_build(&j, &jp, &n, &err)) { printf("R err build %d\n", err); return 1; }
  for (i = 0; i < n; i++) { h ^= jp[i]; h *= 1099511628211ULL; }
  if (getenv("C03_DUMP")) { FILE *f = fopen(getenv("C03_DUMP"), "wb"); if (f) { fwrite(jp, 1, n, f); fclose(f); } }
  printf("R %lu %llu\n", n, h); free(jp); return 1;
}

static int dispatch_c03(toks_t *t)
{
  if (!strcmp(t->tok[0], "arifile") && t->n >= 11) return c03_arifile(t);
  if (!strcmp(t->tok[0], "progfile") && t->n >= 10) return c03_progfile(t);
  if (!strcmp(t->tok[0], "ent") && t->n >= 12) return c03_ent(t);
  if (!strcmp(t->tok[0], "t81") && t->n >= 2) return c03_t81(t);
  if (!strcmp(t->tok[0], "t81c") && t->n >= 3) return c03_t81(t);
  if (!strcmp(t->tok[0], "seqbytes") && t->n >= 8) return c03_seqbytes(t);
  if (!strcmp(t->tok[0], "seqfile") && t->n >= 8) return c03_seqbytes(t);
  return 0;
}
