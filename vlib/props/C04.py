"""C04 - emitted streams conform to T.81; conforming streams decode to spec."""
from . import C03 as _C03
ID = "C04"
VARIANTS = ["san", "simd"]
RULE = ("ent -> t81: every Huffman- or arithmetic-coded DCT stream the real compressor / transcoder writes over the C03 request space (all sampling factors, "
        "8/12-bit, default/optimised tables, random progressive and sequential scripts, restart intervals, 1/3/4 components) is parsed and "
        "decoded by the Lean decoder written from T.81, which enforces marker order and lengths, table definitions (Annex C code "
        "construction, Kraft), scan header constraints, progression rules (every bit once and in order), byte stuffing, RSTn numbering and "
        "cadence, 1-padding of every entropy-coded interval and EOI; a violation it reports is a failing input, and its coefficients must "
        "equal libjpeg-turbo's.  t81enc -> t81c: the Lean writer (sequential Huffman, Annex K tables, table identifiers 0-3 in any "
        "rotation, several tables per DQT/DHT, 16-bit DQT, fill bytes, DRI before DQT / after SOF / before SOS, sampling factors such as "
        "3x1 1x3 2x2+1x2, one scan per component or interleaved, restart intervals) produces streams libjpeg-turbo never writes; "
        "jpeg_read_coefficients must accept them without warning and return exactly the writer's coefficients.  seqfile: whole baseline "
        "files written by the real compressor must equal, byte for byte, the Lean writer's output when it is configured like jcmarker.c.  "
        "progfile: whole progressive Huffman files (jpeg_simple_progression or a seeded script; every coefficient kind) must equal, byte for byte, "
        "Model.ProgHuff.encodeFile: the model's DC/AC first/refinement event streams, its symbol statistics, jpeg_gen_optimal_table as modelled "
        "in Model.Huff (the function C19's theorems are about), and the per-scan DHT/DRI/SOS layout.  arifile: whole arithmetic-coded files "
        "(sequential, jpeg_simple_progression, seeded progressive and sequential scripts) must equal Model.ArithEnc.encodeFile: the binarisation of "
        "jcarith.c as a pure function to (bin, decision) lists and the QM coder (carry into the buffered byte, stacked 0xFF, pending zeros, termination)")
TRUSTED = ["Model.T81 (decoder) and Model.T81Enc (writer) are written from the text of T.81, not from libjpeg-turbo; each is checked "
           "against the other and against the real codec on every generated stream",
           "the reader decodes arithmetic-coded streams with an executable model of the QM decoder (Model/Arith.lean, no theorems about it); lossless streams are outside this check (C02)"]
ASSUMPTIONS = ["JFIF/Adobe application segments are passed over; only T.81 syntax is judged"]

HV = [[11], [11, 11, 11], [21, 11, 11], [22, 11, 11], [12, 11, 11], [41, 11, 11], [31, 11, 13], [12, 21, 11], [22, 21, 12], [11, 22, 11], [33, 11, 11],
      [21, 21], [11, 12, 21, 11], [22, 11, 11, 22], [44, 11, 22]]


def classify(op, R):
    p = op.split(" ")
    if p[0] == "seqfile":
        return "seqfile:nc%s:%sx%s:ri%s" % (p[7], p[5], p[6], "0" if p[4] == "0" else "1")
    if p[0] == "progfile":
        return "progfile:nc%s:%sx%s:ri%s:k%s:%s" % (p[7], p[5], p[6], "0" if p[4] == "0" else "1", p[8], "simple" if p[9] == "0" else "script")
    if p[0] == "arifile":
        return "arifile:nc%s:%sx%s:ri%s:k%s:m%s" % (p[7], p[5], p[6], "0" if p[4] == "0" else "1", p[8], p[9])
    if p[0] == "t81enc":
        return "t81enc:f%s:hv%s:ri%s" % (p[5], "".join(p[6:]), "0" if p[4] == "0" else "1")
    if p[0] in ("t81", "t81c"):
        return p[0] + ":" + ("err" if R.startswith("err") else "ok")
    return _C03.classify(op, R)


def gen_ops(rng, tier):
    big = tier == "thorough"
    ops = []
    for _ in range(1500 if big else 300):
        o = _C03.one(rng).split(" ")
        o[7] = str(rng.choice([0, 1, 2, 3, 3, 3, 6, 4, 5, 7, 8]))
        pass
        o.append(str(rng.choice([0, 0, 0, 1, 2, 3, 4])))        # quantisation tables: default / 16-bit entries in table 0, 1, both / all ones
        ops.append(" ".join(o))
    for _ in range(1500 if big else 320):
        hv = rng.choice(HV)
        # at most 10 blocks per MCU when interleaved
        fl = rng.randrange(16) | (rng.randrange(3) << 4) | (rng.randrange(4) << 6)
        if sum((x // 10) * (x % 10) for x in hv) > 10: fl |= 8
        ops.append("t81enc %d %d %d %d %d %s" % (rng.randrange(1 << 30), rng.choice([rng.randint(1, 60), 8, 16, 33]), rng.choice([rng.randint(1, 50), 8, 17]),
                                                 rng.choice([0, 0, 1, 2, 3, 7, 8, 40]), fl, " ".join(map(str, hv))))
    # whole files, byte for byte: what jcmarker.c + jchuff.c write for baseline files (quality 75) vs the Lean writer configured the
    # same way (SOI, JFIF APP0, one DQT per table, SOF0, one DHT per table in scan order, DRI, SOS, data, EOI)
    for i in range(900 if big else 160):
        nc = rng.choice([1, 3, 3, 3])
        hs, vs = rng.choice([(1, 1), (2, 1), (2, 2), (1, 2), (4, 1), (1, 4), (2, 1), (2, 2)]) if nc == 3 else (1, 1)
        ops.append("seqfile %d %d %d %d %d %d %d" % (rng.randrange(1 << 30), rng.randint(1, 70), rng.randint(1, 50), rng.choice([0, 0, 1, 2, 3, 7, 8, 9, 50]), hs, vs, nc))
    # whole progressive Huffman files, byte for byte: jcphuff.c (DC/AC first and refinement passes, EOB runs, correction-bit buffering,
    # restarts), the statistics pass + jpeg_gen_optimal_table per scan, and the per-scan DHT/SOS layout, against Model/ProgHuff.lean
    for i in range(700 if big else 130):
        nc = rng.choice([1, 3, 3, 3])
        hs, vs = rng.choice([(1, 1), (2, 1), (2, 2), (1, 2), (4, 1), (1, 4), (2, 1), (2, 2)]) if nc == 3 else (1, 1)
        kind = rng.choice([0, 0, 0, 1, 2, 3, 4, 5, 6, 6, 7, 7])
        w, h = (rng.randint(1, 70), rng.randint(1, 50)) if kind != 6 else (rng.randint(60, 200), rng.randint(40, 120))
        ops.append("progfile %d %d %d %d %d %d %d %d %d" % (rng.randrange(1 << 30), w, h, rng.choice([0, 0, 1, 2, 3, 7, 8, 9, 50]), hs, vs, nc, kind,
                                                          rng.choice([0, 0, rng.randrange(1, 1 << 30), rng.randrange(1, 1 << 30), rng.randrange(1, 1 << 30)])))
    # whole arithmetic-coded files, byte for byte: jcarith.c (binarisation of DC/AC coefficients in sequential, first and refinement
    # scans; QM coder with carry propagation, stacked 0xFF bytes, termination) and the DAC/SOS layout, against Model/ArithEnc.lean
    for i in range(700 if big else 130):
        nc = rng.choice([1, 3, 3, 3])
        hs, vs = rng.choice([(1, 1), (2, 1), (2, 2), (1, 2), (4, 1), (1, 4), (2, 1), (2, 2)]) if nc == 3 else (1, 1)
        kind = rng.choice([0, 0, 0, 1, 2, 3, 4, 5, 6, 7])
        mode = rng.choice([4, 4, 5, 7, 7, 8])
        ops.append("arifile %d %d %d %d %d %d %d %d %d %d" % (rng.randrange(1 << 30), rng.randint(1, 70), rng.randint(1, 50), rng.choice([0, 0, 1, 2, 3, 7, 8, 9, 50]),
                                                             hs, vs, nc, kind, mode, rng.randrange(1, 1 << 30)))
    # the small-Qe end of the probability-estimation table: flat image with an isolated block about every 11000 blocks, whole file
    # byte for byte against the Lean QM encoder (which uses the Table D.3 literal), and through ent -> t81 (Lean QM decoder)
    ops.append("arifile %d 1456 1456 0 1 1 1 8 4 %d" % (rng.randrange(1 << 30), rng.randrange(1, 1 << 30)))
    for mode in ((4, 5, 7) if big else (4,)):
        ops.append("ent 3 1456 1456 8 %d 8 %d 0 0 %d -1 0" % (rng.randrange(1 << 20), mode, rng.randrange(1 << 20)))
    # more than 0x7FFF consecutive end-of-band blocks: the forced emit_eobrun
    for i in range(3 if big else 1):
        ops.append("progfile %d %d %d 0 1 1 1 5 %d" % (rng.randrange(1 << 30), 1456 + 8 * rng.randrange(8), 1456 + 8 * rng.randrange(8), 0 if i == 0 else rng.randrange(1, 1 << 30)))
    return ops


def stage2(ops, model_lines, res_by_v):
    out, fails = _C03.stage2(ops, model_lines, res_by_v)
    if model_lines:
        for i, op in enumerate(ops):
            if op.startswith("t81enc "):
                p = model_lines[i].split(" ")
                if len(p) == 3 and p[0] == "skip" and p[1].startswith("ffd8"):
                    out.append("t81c %s %s" % (p[2], p[1]))
    return out, fails


def judge(op, R, M):
    if op.startswith("t81 ") and M.startswith("err "):
        return "fail t81: a stream written by the compressor violates T.81 as read by the independent decoder: %s (libjpeg-turbo: %s)" % (M[4:], R[:80])
    if op.startswith("t81 ") and not R.startswith("skip") and not M.startswith("skip") and " ".join(M.split()) != " ".join(R.split()):
        # the Lean reader is the property's independent decoder: different tables / geometry / coefficients for a stream the real
        # compressor wrote is the violation itself, with the stream as the failing input
        return ("fail t81: the decoder written from T.81 recovers from a stream the compressor wrote something else than libjpeg-turbo's "
                "own decoder: independent '%s' vs libjpeg-turbo '%s'" % (M[:90], R[:90]))
    return None


def search(ctx, failing_ops):
    return _C03.search(ctx, failing_ops)


MANIFEST = {
    "text": ("Kernel-checked Lean theorems on the independent T.81 layer: the interval framing (bit packing, 1-padding, 0xFF00 stuffing, RSTn "
             "joining) written by the model writer is inverted by the model reader for every bit string; marker segments carry their exact "
             "length; the block coder of the writer is inverted by the reader's decoding procedure for any valid tables (C03 theorem, which "
             "the reader runs as code); Annex C code construction yields prefix-free codes (C19 theorems).  The reader is tied to "
             "libjpeg-turbo's decoder and the writer to libjpeg-turbo's decoder on every generated stream, in both directions."),
    "design_ref": "DESIGN.md 6.4",
    "note": ("Partial: a whole-stream theorem 'reader (writer image) = image' is not proved; its parts are, and the composition is exercised "
             "by correspondence. The QM coder is modelled (and tied on every arithmetic stream) but not proved; lossless processes are not judged here. Trusted: Lean kernel; axioms propext, Quot.sound, "
             "Classical.choice; hand-written reader and writer."),
    "technique": "Lean 4 proof (framing and block-coder inverses) + two-way stream exchange between the Lean T.81 reader/writer and the real codec",
}
