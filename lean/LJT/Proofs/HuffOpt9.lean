import LJT.Proofs.HuffOpt8
/-! K.2 generator, part 9: the theorem about the returned `bits[]`. -/
set_option maxRecDepth 20000
namespace LJT.Huff

theorem genBits_getD (cs : List Nat) (h : ∀ l, l ≤ 16 → (b3Of cs).f l ≤ 255) (l : Nat) (hl : l < 17) :
    (genBits cs).getD l 0 = (b3Of cs).f l := by
  unfold genBits
  simp only [getD_map_range, hl, if_true]
  exact Nat.mod_eq_of_lt (by have := h l (by omega); omega)

theorem BitsOK.congr {b c : Nat → Nat} {m : Nat} (h : BitsOK b m) (e : ∀ l, l < 17 → c l = b l) : BitsOK c m := by
  obtain ⟨L, hL, hk, hz⟩ := h.kraft
  refine ⟨?_, ⟨L, hL, ?_, ?_⟩, ?_⟩
  · rw [csum_congr c b 17 e]; exact h.count
  · rw [k16_congr c b 17 e]; exact hk
  · intro l h1 h2; rw [e l (by omega)]; exact hz l h1 h2
  · intro l hl; rw [e l (by omega)]; exact h.small l hl

theorem BitsOK.zero {b : Nat → Nat} {m : Nat} (h : BitsOK b m) : b 0 = 0 := by
  obtain ⟨L, hL, hk, _⟩ := h.kraft
  have h1 := k16_ge_term b 0 17 (by omega)
  have h2 : 0 < 2 ^ (16 - L) := Nat.two_pow_pos _
  apply Classical.byContradiction
  intro h0
  have : 2 ^ 16 ≤ b 0 * 2 ^ (16 - 0) := Nat.le_mul_of_pos_left _ (by omega)
  omega

theorem BitsOK.lt {b : Nat → Nat} {m : Nat} (h : BitsOK b m) : k16 b 17 < 2 ^ 16 := by
  obtain ⟨L, hL, hk, _⟩ := h.kraft
  have h2 : 0 < 2 ^ (16 - L) := Nat.two_pow_pos _
  omega

/-- **`jpeg_gen_optimal_table`, code lengths.**  For every histogram (at most 257 entries, total count of the
256 real symbols below 10^9) the function either takes the `JERR_HUFF_CLEN_OVERFLOW` exit (some Huffman
code length exceeds 32) or returns a `bits[]` array of 17 entries in which: the counts of lengths 1..16 add
up to the number of symbols with a non-zero frequency, `bits[0] = 0`, no count exceeds 255 (the `UINT8`
copy-out loses nothing), the Kraft sum falls short of 1 by exactly one code point of the longest length in
use, and the table passes the code-space check of both derived-table builders. -/
theorem genOptimalTable_bits (freq0 : List Nat) (hlen : freq0.length ≤ 257)
    (htot : ((List.range 256).map (freq0.getD · 0)).sum < 1000000000) :
    genOptimalTable freq0 = .clenOverflow ∨
    ∃ t, genOptimalTable freq0 = .ok t ∧ t.bits.length = 17 ∧
      BitsOK (fun l => t.bits.getD l 0) (nzReal freq0).length ∧ (∃ cs, codes t.bits = some cs) := by
  rw [genOptimalTable_eq]
  by_cases hov : (genCs freq0).any (· > 32) = true
  · left; simp [hov]
  · right
    have hno : (genCs freq0).any (· > 32) = false := by simpa using hov
    simp only [hno, Bool.false_eq_true, if_false]
    refine ⟨_, rfl, by simp [genBits], ?_, ?_⟩
    · have hb := (genBits_ok freq0 hlen htot hno).1
      exact hb.congr (fun l hl => genBits_getD _ hb.small l hl)
    · have hb := (genBits_ok freq0 hlen htot hno).1
      have hb' : BitsOK (fun l => (genBits (genCs freq0)).getD l 0) (nzReal freq0).length :=
        hb.congr (fun l hl => genBits_getD _ hb.small l hl)
      exact codes_accepts _ hb'.lt

end LJT.Huff
