import LJT.Ops.C03
import LJT.Ops.C07
import LJT.Model.T81Enc
import LJT.Model.DCT
import LJT.Model.ProgHuff
import LJT.Model.ArithEnc
namespace LJT.Ops
open LJT.T81 LJT.T81Enc

def c04Coef (seed : Nat) (ci by_ bx k : Nat) : Int :=
  let h := c07Mix ((seed * 1000003 + ci * 7919 + by_ * 104729 + bx * 611 + k) % 18446744073709551616)
  let r : Int := ((h % 41 : Nat) : Int) - 20
  if k > 20 && (h >>> 8) % 4 != 0 then 0 else r

/-- `c03_coef` of the harness for 8-bit precision: every kind -/
def c03CoefK (seed kind : Nat) (ci by_ bx k : Nat) : Int :=
  let h := c07Mix ((seed * 1000003 + ci * 7919 + by_ * 104729 + bx * 611 + k) % 18446744073709551616)
  match kind with
  | 0 => if k > 20 && (h >>> 8) % 4 != 0 then 0 else ((h % 41 : Nat) : Int) - 20
  | 1 => if k == 0 then ((seed % 200 : Nat) : Int) - 100 else 0
  | 2 => if k == 0 then (if h % 2 == 1 then 1016 else -1016)
         else if (h >>> 3) % 5 == 0 then (if (h >>> 1) % 2 == 1 then 1023 else -1023) else 0
  | 3 => ((h % 255 : Nat) : Int) - 127
  | 4 => if k == 63 then (if h % 2 == 1 then 1 else -3) else if k == 0 then ((h % 9 : Nat) : Int) - 4 else 0
  | 5 => 0
  | 7 => if k == 0 then ((h % 9 : Nat) : Int) - 4 else (if h % 2 == 1 then 1 else -1) * (8 + (((h >>> 3) % 100 : Nat) : Int))
  | 8 => if by_ % 61 == 60 && bx == 177 then (if k == 0 then 9 else (((h >>> 4) % 7 : Nat) : Int) - 3) else (if k == 0 then 5 else 0)
  | _ => if (h >>> 20) % 97 != 0 then (if k == 0 then 5 else 0) else (((h >>> 4) % 7 : Nat) : Int) - 3

/-- `c03_script` of the harness (progressive branch): the seeded generator of valid progressive scan scripts -/
def c03ScriptProg (seed nc : Nat) : List (List Nat × Nat × Nat × Nat × Nat) := Id.run do
  let mut s := seed
  let rnd := fun (s : Nat) (m : Nat) => let s' := c07Mix s; (s', s' % m)
  let mut out : Array (List Nat × Nat × Nat × Nat × Nat) := #[]
  let (s1, dcal) := rnd s 3; s := s1
  let (s2, dcinter) := rnd s 2; s := s2
  let all := List.range nc
  if dcinter != 0 && nc ≤ 4 then out := out.push (all, 0, 0, 0, dcal)
  else for ci in all do out := out.push ([ci], 0, 0, 0, dcal)
  -- AC bands per component
  let mut bands : Array (Array (Nat × Nat × Nat)) := #[]
  for _ci in all do
    let mut k := 1
    let mut bs : Array (Nat × Nat × Nat) := #[]
    for _ in [0:8] do
      if k ≤ 63 && bs.size < 8 then
        let mut e := 63
        if bs.size != 7 then
          let (s', r) := rnd s (64 - k); s := s'
          e := k + r
        let (s', r3) := rnd s 3; s := s'
        if r3 == 0 then e := 63
        let (s'', al) := rnd s 3; s := s''
        bs := bs.push (k, e, al)
        k := e + 1
    bands := bands.push bs
  for round in [0:4] do
    let start := out.size
    if round ≥ 1 && dcal ≥ round then
      let (s', r) := rnd s 2; s := s'
      if r != 0 && nc ≤ 4 then out := out.push (all, 0, 0, dcal - round + 1, dcal - round)
      else for ci in all do out := out.push ([ci], 0, 0, dcal - round + 1, dcal - round)
    for ci in all do
      for (bsk, bek, bal) in (bands.getD ci #[]) do
        if bal ≥ round then
          let al := bal - round
          out := out.push ([ci], bsk, bek, (if round == 0 then 0 else al + 1), al)
    -- shuffle the scans of this round
    let n := out.size
    if n > 0 then
      for d in [0:n] do
        let i := n - 1 - d
        if i > start then
          let (s', r) := rnd s (i - start + 1); s := s'
          let j := start + r
          let a := out.getD i ([], 0, 0, 0, 0)
          let b := out.getD j ([], 0, 0, 0, 0)
          out := (out.setIfInBounds i b).setIfInBounds j a
  return out.toList

def c04Quant (q16 : Bool) (cls k : Nat) : Nat :=
  if q16 then 1 + (k * 977 + cls * 31) % 40000 else 1 + (k * 7 + cls * 3) % 200

def opC04 : List String → Option String
  -- t81enc seed w h ri flags hv1 hv2 ... : flags bit0 q16, bit1 joinTables, bit2 fill, bit3 split, bits 4-5 driPos, bits 6-7 tblShift
  | "t81enc" :: seed :: w :: h :: ri :: flags :: hvs => do
    let seed ← nat? seed; let w ← nat? w; let h ← nat? h; let ri ← nat? ri; let fl ← nat? flags
    let hv ← nats? hvs
    let comps := hv.map (fun x => (x / 10, x % 10))
    let o : Opts := { q16 := fl % 2 == 1, joinTables := (fl / 2) % 2 == 1, fill := (fl / 4) % 2 == 1, driPos := (fl / 16) % 4, split := (fl / 8) % 2 == 1, tblShift := (fl / 64) % 4, ri := ri }
    let qs := [(List.range 64).map (c04Quant o.q16 0), (List.range 64).map (c04Quant o.q16 1)]
    match encode o w h comps qs (c04Coef seed) with
    | none => some "skip unencodable"
    | some bytes =>
      let hmax := comps.foldl (fun a c => max a c.1) 1
      let vmax := comps.foldl (fun a c => max a c.2) 1
      let hashes := (List.range comps.length).map (fun ci =>
        let c := comps.getD ci (1, 1)
        let wb := ceilDiv (ceilDiv (w * c.1) hmax) 8
        let hb := ceilDiv (ceilDiv (h * c.2) vmax) 8
        (List.range hb).foldl (fun acc by_ => (List.range wb).foldl (fun acc bx =>
          (List.range 64).foldl (fun acc k => c03fnv16 acc (c04Coef seed ci by_ bx k)) acc) acc) 14695981039346656037)
      some s!"skip {hexOf bytes} {",".intercalate (hashes.map toString)}"
  -- seqbytes seed w h ri hs vs nc : the entropy-coded data of the baseline scan the real encoder must write for the formula coefficients
  | ["seqbytes", seed, w, h, ri, hs, vs, nc] => do
    let seed ← nat? seed; let w ← nat? w; let h ← nat? h; let ri ← nat? ri; let hs ← nat? hs; let vs ← nat? vs; let nc ← nat? nc
    let comps := if nc == 1 then [(1, 1)] else [(hs, vs), (1, 1), (1, 1)]
    match scanBytes w h comps ri (c04Coef seed) with
    | none => some "unencodable"
    | some bs => some s!"{bs.length} {fnv bs}"
  -- seqfile seed w h ri hs vs nc : the whole baseline file libjpeg-turbo must write (jcmarker.c layout: SOI, JFIF APP0, one DQT per
  -- table, SOF0, one DHT per table in scan-component order, DRI, SOS, data, EOI) for quality 75 and the formula coefficients
  | ["seqfile", seed, w, h, ri, hs, vs, nc] => do
    let seed ← nat? seed; let w ← nat? w; let h ← nat? h; let ri ← nat? ri; let hs ← nat? hs; let vs ← nat? vs; let nc ← nat? nc
    let comps := if nc == 1 then [(1, 1)] else [(hs, vs), (1, 1), (1, 1)]
    let sc := LJT.DCT.qualityScaling 75
    let qs := [LJT.DCT.scaleTable Gen.Src.std_luminance_quant_tbl sc true, LJT.DCT.scaleTable Gen.Src.std_chrominance_quant_tbl sc true]
    let o : Opts := { q16 := false, joinTables := false, fill := false, driPos := 2, split := false, tblShift := 0, ri := ri, jfif := true, ljDummies := true }
    match encode o w h comps qs (c04Coef seed) with
    | none => some "unencodable"
    | some bs => some s!"{bs.length} {fnv bs}"
  -- progfile seed w h ri hs vs nc kind sseed : the whole progressive file libjpeg-turbo must write (jcphuff.c events, optimal tables per scan
  -- from jpeg_gen_optimal_table, per-scan DHT/SOS layout of jcmarker.c); sseed 0 = jpeg_simple_progression, else the seeded script
  | ["progfile", seed, w, h, ri, hs, vs, nc, kind, sseed] => do
    let seed ← nat? seed; let w ← nat? w; let h ← nat? h; let ri ← nat? ri; let hs ← nat? hs; let vs ← nat? vs; let nc ← nat? nc
    let kind ← nat? kind; let sseed ← nat? sseed
    let comps := if nc == 1 then [(1, 1)] else [(hs, vs), (1, 1), (1, 1)]
    let sc := LJT.DCT.qualityScaling 75
    let qs := [LJT.DCT.scaleTable Gen.Src.std_luminance_quant_tbl sc true, LJT.DCT.scaleTable Gen.Src.std_chrominance_quant_tbl sc true]
    let script := if sseed == 0 then LJT.ProgHuff.simpleProgression nc else c03ScriptProg sseed nc
    match LJT.ProgHuff.encodeFile w h comps qs ri script (c03CoefK seed kind) with
    | none => some "unencodable"
    | some bs => some s!"{bs.length} {fnv bs}"
  -- arifile seed w h ri hs vs nc kind mode sseed : the whole arithmetic-coded file libjpeg-turbo must write (jcarith.c binarisation and
  -- QM coder, DAC/SOS layout); mode 4 = sequential one scan, 5 = jpeg_simple_progression, 7 = seeded progressive script, 8 = seeded sequential script
  | ["arifile", seed, w, h, ri, hs, vs, nc, kind, mode, sseed] => do
    let seed ← nat? seed; let w ← nat? w; let h ← nat? h; let ri ← nat? ri; let hs ← nat? hs; let vs ← nat? vs; let nc ← nat? nc
    let kind ← nat? kind; let mode ← nat? mode; let sseed ← nat? sseed
    let comps := if nc == 1 then [(1, 1)] else [(hs, vs), (1, 1), (1, 1)]
    let sc := LJT.DCT.qualityScaling 75
    let qs := [LJT.DCT.scaleTable Gen.Src.std_luminance_quant_tbl sc true, LJT.DCT.scaleTable Gen.Src.std_chrominance_quant_tbl sc true]
    let prog := mode == 5 || mode == 7
    let script := if mode == 4 then [(List.range nc, 0, 63, 0, 0)]
      else if mode == 5 then LJT.ProgHuff.simpleProgression nc
      else if mode == 7 then c03ScriptProg sseed nc
      else LJT.ArithEnc.seqScript sseed nc c07Mix
    let bs := LJT.ArithEnc.encodeFile w h comps qs ri prog script (c03CoefK seed kind)
    some s!"{bs.length} {fnv bs}"
  | ["susp", _, _, hex] => do
    let bytes ← hexBytes? hex
    match decode bytes with
    | .error e => some s!"err {e}"
    | .ok r => some (t81Line r)
  | ["suspall", _, hex] => do
    let bytes ← hexBytes? hex
    match decode bytes with
    | .error e => some s!"err {e}"
    | .ok r => some (t81Line r)
  | ["t81c", _, hex] => do
    let bytes ← hexBytes? hex
    match decode bytes with
    | .error e => some s!"err {e}"
    | .ok r => some (t81Line r)
  | _ => none

end LJT.Ops
