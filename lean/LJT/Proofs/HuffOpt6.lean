import LJT.Proofs.HuffOpt5
/-! K.2 generator, part 6: from the final tree to the `bits[]` array that is returned. -/
set_option maxRecDepth 20000
namespace LJT.Huff

theorem lookup_of_mem : ∀ (m : List (Nat × Nat)), (m.map (·.1)).Nodup → ∀ k d, (k, d) ∈ m →
    m.lookup k = some d := by
  intro m
  induction m with
  | nil => intro _ k d h; simp at h
  | cons p m ih =>
    intro hnd k d h
    obtain ⟨p1, p2⟩ := p
    simp only [List.map_cons, List.nodup_cons] at hnd
    rcases List.mem_cons.1 h with h | h
    · cases h; simp
    · have hk : k ≠ p1 := by
        intro e; apply hnd.1; rw [← e]
        exact List.mem_map.2 ⟨(k, d), h, rfl⟩
      have : (k == p1) = false := by simpa using hk
      simp only [List.lookup_cons, this]
      exact ih hnd.2 k d h

theorem csOf_single (T : Tree) (hnd : (T.mem.map (·.1)).Nodup) (k d : Nat) (h : (k, d) ∈ T.mem) :
    csOf [T] k = d := by
  unfold csOf
  simp only [List.flatMap_cons, List.flatMap_nil, List.append_nil]
  rw [lookup_of_mem T.mem hnd k d h]

/-- the list of `codesize[]` values is a rearrangement of the depths in the final tree -/
theorem cs_perm (T : Tree) (n : Nat) (hs : (slots [T]).Perm (List.range n)) :
    ((List.range n).map (csOf [T])).Perm (T.mem.map (·.2)) := by
  have hs' : (T.mem.map (·.1)).Perm (List.range n) := by
    simpa [slots] using hs
  have hnd : (T.mem.map (·.1)).Nodup := (hs'.nodup_iff).2 List.nodup_range
  refine (hs'.symm.map (csOf [T])).trans ?_
  rw [List.map_map]
  apply List.Perm.of_eq
  apply List.map_congr_left
  intro p hp
  exact csOf_single T hnd p.1 p.2 hp

def K32 (ds : List Nat) : Nat := (ds.map (fun d => 2 ^ (32 - d))).sum

theorem kr_eq_K32 : ∀ (m : List (Nat × Nat)), (∀ p ∈ m, p.2 ≤ 32) → kr m = K32 (m.map (·.2)) * 2 ^ 268 := by
  intro m
  induction m with
  | nil => intro _; simp [kr, K32]
  | cons p m ih =>
    intro h
    have hp := h p (by simp)
    have := ih (fun q hq => h q (by simp [hq]))
    simp only [kr, K32, List.map_cons, List.sum_cons] at this ⊢
    rw [this, Nat.add_mul, ← Nat.pow_add]
    congr 2; omega

theorem ksum_count_cons (d : Nat) (ds : List Nat) : ∀ m,
    ksum (fun l => (d :: ds).count l) m = ksum (fun l => ds.count l) m + (if d < m then 2 ^ (32 - d) else 0) := by
  intro m
  induction m with
  | zero => simp [ksum]
  | succ m ih =>
    simp only [ksum]
    rw [ih, List.count_cons]
    by_cases e : d = m
    · subst e
      rw [if_neg (Nat.lt_irrefl d), if_pos (Nat.lt_succ_self d)]
      simp [Nat.add_mul]; omega
    · have : (d == m) = false := by simpa using e
      rw [this]; simp only [Bool.false_eq_true, if_false, Nat.add_zero]
      by_cases e2 : d < m
      · rw [if_pos e2, if_pos (show d < m + 1 by omega)]; omega
      · rw [if_neg e2, if_neg (show ¬ d < m + 1 by omega)]; omega

theorem ksum_count : ∀ (ds : List Nat), (∀ d ∈ ds, d ≤ 32) → ksum (fun l => ds.count l) 33 = K32 ds := by
  intro ds
  induction ds with
  | nil => intro _; simp [ksum, K32]
  | cons d ds ih =>
    intro h
    rw [ksum_count_cons, ih (fun x hx => h x (by simp [hx]))]
    have := h d (by simp)
    simp [K32, show d < 33 by omega]; omega

theorem csum_count_cons (d : Nat) (ds : List Nat) : ∀ m,
    csum (fun l => (d :: ds).count l) m = csum (fun l => ds.count l) m + (if d < m then 1 else 0) := by
  intro m
  induction m with
  | zero => simp [csum]
  | succ m ih =>
    simp only [csum]
    rw [ih, List.count_cons]
    by_cases e : d = m
    · subst e
      rw [if_neg (Nat.lt_irrefl d), if_pos (Nat.lt_succ_self d)]
      simp; omega
    · have : (d == m) = false := by simpa using e
      rw [this]; simp only [Bool.false_eq_true, if_false, Nat.add_zero]
      by_cases e2 : d < m
      · rw [if_pos e2, if_pos (show d < m + 1 by omega)]; omega
      · rw [if_neg e2, if_neg (show ¬ d < m + 1 by omega)]; omega

theorem csum_count : ∀ (ds : List Nat), (∀ d ∈ ds, d ≤ 32) → csum (fun l => ds.count l) 33 = ds.length := by
  intro ds
  induction ds with
  | nil => intro _; simp [csum]
  | cons d ds ih =>
    intro h
    rw [csum_count_cons, ih (fun x hx => h x (by simp [hx]))]
    have := h d (by simp)
    simp [show d < 33 by omega]

/-- `Σ_{l<m} b l · 2^(16-l)` -/
def k16 (b : Nat → Nat) : Nat → Nat
  | 0 => 0
  | m + 1 => k16 b m + b m * 2 ^ (16 - m)

theorem ksum_eq_k16 (b : Nat → Nat) : ∀ m, m ≤ 17 → ksum b m = k16 b m * 2 ^ 16 := by
  intro m; induction m with
  | zero => intro _; simp [ksum, k16]
  | succ m ih =>
    intro h
    simp only [ksum, k16, ih (by omega), Nat.add_mul, Nat.mul_assoc, ← Nat.pow_add]
    congr 3; omega

theorem k16_congr (b c : Nat → Nat) : ∀ m, (∀ l, l < m → b l = c l) → k16 b m = k16 c m := by
  intro m; induction m with
  | zero => intro _; rfl
  | succ m ih => intro h; simp only [k16]; rw [ih (fun l hl => h l (by omega)), h m (by omega)]

theorem k16_upd_sub (b : Bits) (i d : Nat) (hd : d ≤ b.f i) : ∀ m, i < m →
    k16 (b.upd i (b.f i - d)).f m + d * 2 ^ (16 - i) = k16 b.f m := by
  intro m; induction m with
  | zero => intro h; omega
  | succ m ih =>
    intro h
    simp only [k16]
    by_cases e : i = m
    · subst e
      rw [k16_congr (b.upd i (b.f i - d)).f b.f i (fun l hl => by simp; omega)]
      simp only [Bits.upd_f, if_true]
      have : (b.f i - d) * 2 ^ (16 - i) + d * 2 ^ (16 - i) = b.f i * 2 ^ (16 - i) := by
        rw [← Nat.add_mul]; congr 1; omega
      omega
    · have := ih (by omega); simp [Ne.symm e]; omega

theorem csum_zero_above (b : Nat → Nat) (m : Nat) : ∀ m', m ≤ m' → (∀ l, m ≤ l → l < m' → b l = 0) →
    csum b m' = csum b m := by
  intro m'; induction m' with
  | zero => intro h _; have : m = 0 := by omega
            subst this; rfl
  | succ k ih =>
    intro h hz
    by_cases e : m = k + 1
    · subst e; rfl
    · simp only [csum]
      rw [ih (by omega) (fun l h1 h2 => hz l h1 (by omega)), hz k (by omega) (by omega)]; simp

theorem k16_single (b : Nat → Nat) (l0 : Nat) : ∀ m, l0 < m → (∀ l, l < m → l ≠ l0 → b l = 0) →
    k16 b m = b l0 * 2 ^ (16 - l0) := by
  have hz : ∀ m, m ≤ l0 → (∀ l, l < m → l ≠ l0 → b l = 0) → k16 b m = 0 := by
    intro m; induction m with
    | zero => intro _ _; rfl
    | succ m ih =>
      intro h hz; simp only [k16]
      rw [ih (by omega) (fun l h1 h2 => hz l (by omega) h2), hz m (by omega) (by omega)]; simp
  intro m; induction m with
  | zero => intro h; omega
  | succ m ih =>
    intro h hzz
    simp only [k16]
    by_cases e : l0 = m
    · subst e; rw [hz l0 (Nat.le_refl _) (fun l h1 h2 => hzz l (by omega) h2)]; simp
    · rw [ih (by omega) (fun l h1 h2 => hzz l (by omega) h2), hzz m (by omega) (Ne.symm e)]; simp

theorem csum_ge_term (b : Nat → Nat) (x : Nat) : ∀ m, x < m → b x ≤ csum b m := by
  intro m; induction m with
  | zero => intro h; omega
  | succ m ih =>
    intro h; simp only [csum]
    by_cases e : x = m
    · subst e; omega
    · have := ih (by omega); omega

theorem k16_ge_term (b : Nat → Nat) (l0 : Nat) : ∀ m, l0 < m → b l0 * 2 ^ (16 - l0) ≤ k16 b m := by
  intro m; induction m with
  | zero => intro h; omega
  | succ m ih =>
    intro h; simp only [k16]
    by_cases e : l0 = m
    · subst e; omega
    · have := ih (by omega); omega

theorem no_256 : ∀ l0 ≤ 16, ∀ L ≤ 16, l0 ≤ L → 256 * 2 ^ (16 - l0) + 2 ^ (16 - L) ≠ 2 ^ 16 := by decide

/-- what the returned `bits[]` satisfies, as a function of the level -/
structure BitsOK (b : Nat → Nat) (nsym : Nat) : Prop where
  count : csum b 17 = nsym
  kraft : ∃ L, L ≤ 16 ∧ k16 b 17 + 2 ^ (16 - L) = 2 ^ 16 ∧ ∀ l, L < l → l ≤ 16 → b l = 0
  small : ∀ l, l ≤ 16 → b l ≤ 255

/-- removal of the pseudo-symbol's count from the table produced by the limiting step -/
theorem remove_pseudo (b2 : Bits) (n : Nat) (hn1 : 1 ≤ n) (hn : n ≤ 257) (hK : ksum b2.f 33 = 2 ^ 32)
    (hc : csum b2.f 33 = n) (hz : ∀ l, 16 < l → l < 33 → b2.f l = 0) :
    BitsOK (b2.upd (findJ 16 b2) (b2.f (findJ 16 b2) - 1)).f (n - 1) := by
  have e1 : ksum b2.f 33 = ksum b2.f 17 := ksum_zero_above b2.f 17 33 (by omega) (fun l h1 h2 => hz l (by omega) h2)
  have e2 := ksum_eq_k16 b2.f 17 (Nat.le_refl _)
  have hk : k16 b2.f 17 = 2 ^ 16 := by
    have : k16 b2.f 17 * 2 ^ 16 = 2 ^ 16 * 2 ^ 16 := by rw [← e2, ← e1, hK]
    exact Nat.eq_of_mul_eq_mul_right (by decide) this
  have hc17 : csum b2.f 17 = n := by
    rw [← hc]; exact (csum_zero_above b2.f 17 33 (by omega) (fun l h1 h2 => hz l (by omega) h2)).symm
  rcases findJ_spec b2 16 with ⟨hL, hall⟩ | ⟨hL1, hL2, hL3, hL4⟩
  · -- nothing on levels 1..16: the table holds the pseudo-symbol alone
    rw [hL]
    have hs : k16 b2.f 17 = b2.f 0 * 2 ^ (16 - 0) :=
      k16_single b2.f 0 17 (by omega) (fun l h1 h2 => hall l (by omega) (by omega))
    have hb0 : b2.f 0 = 1 := by
      rw [hk] at hs
      have : b2.f 0 * 2 ^ 16 = 1 * 2 ^ 16 := by simpa using hs.symm
      exact Nat.eq_of_mul_eq_mul_right (by decide) this
    have k1 := k16_upd_sub b2 0 1 (by omega) 17 (by omega)
    have c1 := csum_upd_sub b2 0 1 (by omega) 17 (by omega)
    have hn' : n = 1 := by
      have hs2 : csum b2.f 17 = csum b2.f 1 := csum_zero_above b2.f 1 17 (by omega) (fun l h1 h2 => hall l h1 (by omega))
      have hs3 : csum b2.f 1 = b2.f 0 := by simp [csum]
      omega
    refine ⟨by omega, ⟨0, by omega, by simp at k1 ⊢; omega, ?_⟩, ?_⟩
    · intro l h1 h2; simp only [Bits.upd_f]; rw [if_neg (by omega)]; exact hall l (by omega) h2
    · intro l hl; simp only [Bits.upd_f]
      by_cases e : l = 0
      · simp [e, hb0]
      · rw [if_neg e, hall l (by omega) hl]; omega
  · generalize findJ 16 b2 = L at hL1 hL2 hL3 hL4
    have k1 := k16_upd_sub b2 L 1 (by omega) 17 (by omega)
    have c1 := csum_upd_sub b2 L 1 (by omega) 17 (by omega)
    have hcnt : csum (b2.upd L (b2.f L - 1)).f 17 = n - 1 := by omega
    have hkr : k16 (b2.upd L (b2.f L - 1)).f 17 + 2 ^ (16 - L) = 2 ^ 16 := by omega
    have hzer : ∀ l, L < l → l ≤ 16 → (b2.upd L (b2.f L - 1)).f l = 0 := by
      intro l h1 h2; simp only [Bits.upd_f]; rw [if_neg (by omega)]; exact hL4 l h1 h2
    refine ⟨hcnt, ⟨L, hL2, hkr, hzer⟩, ?_⟩
    -- no counter reaches 256
    intro l0 hl0
    apply Classical.byContradiction
    intro hbig
    generalize (b2.upd L (b2.f L - 1)).f = b3 at hcnt hkr hzer hbig
    have hl0L : l0 ≤ L := by
      apply Classical.byContradiction
      intro h; have := hzer l0 (by omega) hl0; omega
    have hoth : ∀ l, l < 17 → l ≠ l0 → b3 l = 0 := by
      intro l h1 h2
      rcases Nat.lt_or_gt_of_ne h2 with h3 | h3
      · have := csum_le b3 l l0 h3 17 (by omega); omega
      · have := csum_le b3 l0 l h3 17 (by omega); omega
    have h256 : b3 l0 = 256 := by
      have : b3 l0 ≤ csum b3 17 := csum_ge_term b3 l0 17 (by omega)
      omega
    have := k16_single b3 l0 17 (by omega) hoth
    rw [this, h256] at hkr
    exact no_256 l0 hl0 L hL2 hl0L hkr

end LJT.Huff
