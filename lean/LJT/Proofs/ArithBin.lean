import LJT.Model.ArithBin
import LJT.Proofs.ProgRef
/-! The binarisation of coefficients for arithmetic coding is inverted exactly (C03): the decision
lists of the encoder side of `Model/ArithBin.lean` (src/jcarith.c), fed in order to the decoder side
(src/jdarith.c as the reader runs it), give back the coefficients; the decoder asks for exactly the
statistics bins the encoder used, in the same order, and consumes exactly the decisions of the
block.  The QM coder itself is the channel: it is modelled (Model/Arith.lean, Model/ArithEnc.lean)
and tied to libjpeg-turbo in both directions, not proved. -/
namespace LJT.ArithBin
open LJT.Arith (dcBase acBase fixedBin)

/-- a list of decisions as a source: the decoder must ask for the bin the encoder used; a wrong
bin or an exhausted list sets the flag -/
def lsrc : Src (List Dn × Bool) :=
  ⟨fun s st => match s.1 with
    | [] => (0, ([], true))
    | d :: t => if d.1 = st then (d.2, (t, s.2)) else (0, (t, true))⟩

@[simp] theorem lsrc_next (st v : Nat) (t : List Dn) (f : Bool) : lsrc.next ((st, v) :: t, f) st = (v, (t, f)) := by
  simp [lsrc]

/-! ### magnitudes -/

/-- `n` ones and a zero in consecutive bins: the unary part of a magnitude category -/
theorem magUnary_ones : ∀ (n fuel m st : Nat) (rest : List Dn) (f : Bool), n < fuel → m * 2 ^ n < 0x8000 →
    magUnary lsrc fuel m st ((List.range n).map (fun i => (st + i, 1)) ++ (st + n, 0) :: rest, f) =
      some (m * 2 ^ n, st + n, (rest, f)) := by
  intro n
  induction n with
  | zero =>
    intro fuel m st rest f hf _
    obtain ⟨g, rfl⟩ : ∃ g, fuel = g + 1 := ⟨fuel - 1, by omega⟩
    simp [magUnary]
  | succ n ih =>
    intro fuel m st rest f hf hm
    obtain ⟨g, rfl⟩ : ∃ g, fuel = g + 1 := ⟨fuel - 1, by omega⟩
    have hlist : (List.range (n + 1)).map (fun i => (st + i, 1)) =
        (st, 1) :: (List.range n).map (fun i => (st + 1 + i, 1)) := by
      rw [List.range_succ_eq_map]
      simp [List.map_map, Function.comp_def, Nat.add_assoc, Nat.add_comm 1]
    rw [hlist]
    simp only [magUnary, List.cons_append, lsrc_next]
    have h2 : m * 2 ^ (n + 1) = m * 2 * 2 ^ n := by rw [Nat.pow_succ]; ring
    rw [if_neg (by omega), if_neg (by
      intro h; rw [h2] at hm
      have : 1 ≤ 2 ^ n := Nat.one_le_two_pow
      have : m * 2 * 1 ≤ m * 2 * 2 ^ n := Nat.mul_le_mul_left _ this
      omega)]
    have := ih g (m * 2) (st + 1) rest f (by omega) (by rw [← h2]; exact hm)
    rw [show st + (n + 1) = st + 1 + n by omega, this, h2]

/-- the bit at position `j` splits off: `w mod 2^(j+1) = bit_j * 2^j + w mod 2^j` -/
theorem mod_pow_succ' (w j : Nat) : w % 2 ^ (j + 1) = (w >>> j) % 2 * 2 ^ j + w % 2 ^ j := by
  rw [Nat.shiftRight_eq_div_pow, Nat.mod_pow_succ]
  rw [Nat.add_comm, Nat.mul_comm]

/-- the magnitude bits, most significant first, all in bin `st` -/
theorem magBits_bits (w : Nat) : ∀ (j fuel A st : Nat) (rest : List Dn) (f : Bool), j < fuel →
    magBits lsrc fuel (2 ^ j * A) (2 ^ j) st ((List.range j).map (fun i => (st, (w >>> (j - 1 - i)) % 2)) ++ rest, f) =
      (2 ^ j * A + w % 2 ^ j, (rest, f)) := by
  intro j
  induction j with
  | zero =>
    intro fuel A st rest f hf
    obtain ⟨g, rfl⟩ : ∃ g, fuel = g + 1 := ⟨fuel - 1, by omega⟩
    simp [magBits, Nat.mod_one]
  | succ j ih =>
    intro fuel A st rest f hf
    obtain ⟨g, rfl⟩ : ∃ g, fuel = g + 1 := ⟨fuel - 1, by omega⟩
    have hlist : (List.range (j + 1)).map (fun i => (st, (w >>> (j + 1 - 1 - i)) % 2)) =
        (st, (w >>> j) % 2) :: (List.range j).map (fun i => (st, (w >>> (j - 1 - i)) % 2)) := by
      rw [List.range_succ_eq_map]
      simp only [List.map_cons, List.map_map, Function.comp_def, Nat.add_sub_cancel, Nat.sub_zero]
      congr 1
      apply List.map_congr_left
      intro i hi
      simp at hi
      congr 3
      omega
    have hhalf : 2 ^ (j + 1) / 2 = 2 ^ j := by rw [Nat.pow_succ]; omega
    have hpos : 2 ^ j ≠ 0 := by have := Nat.two_pow_pos j; omega
    rw [hlist]
    simp only [magBits, List.cons_append, lsrc_next, hhalf, hpos, if_false]
    rcases Nat.mod_two_eq_zero_or_one (w >>> j) with hb | hb
    · rw [hb]
      simp only [Nat.zero_ne_one, if_false]
      have := ih g (2 * A) st rest f (by omega)
      rw [show 2 ^ (j + 1) * A = 2 ^ j * (2 * A) by rw [Nat.pow_succ]; ring, this, mod_pow_succ', hb]
      simp
    · rw [hb]
      simp only [if_true]
      have hor : 2 ^ (j + 1) * A ||| 2 ^ j = 2 ^ j * (2 * A + 1) := by
        rw [← Nat.two_pow_add_eq_or_of_lt (by rw [Nat.pow_succ]; omega : 2 ^ j < 2 ^ (j + 1)) A]
        rw [Nat.pow_succ]; ring
      rw [hor]
      have := ih g (2 * A + 1) st rest f (by omega)
      rw [this, mod_pow_succ', hb]
      rw [Nat.pow_succ]; ring_nf

/-- `v1` has its leading one at position `log2 v1` -/
theorem log2_split (v1 : Nat) (h : v1 ≠ 0) : 2 ^ Nat.log2 v1 + v1 % 2 ^ Nat.log2 v1 = v1 := by
  have hlo := Nat.log2_self_le h
  have hhi : v1 < 2 ^ (Nat.log2 v1 + 1) := Nat.lt_log2_self
  have hp : 2 ^ (Nat.log2 v1 + 1) = 2 * 2 ^ Nat.log2 v1 := by rw [Nat.pow_succ]; omega
  have : v1 / 2 ^ Nat.log2 v1 = 1 := by
    apply Nat.div_eq_of_lt_le
    · simpa using hlo
    · rw [hp] at hhi; omega
  have hdm := Nat.div_add_mod v1 (2 ^ Nat.log2 v1)
  rw [this] at hdm
  omega

theorem log2_lt_of_lt (v1 : Nat) (h : v1 ≠ 0) (hb : v1 < 2 ^ 15) : Nat.log2 v1 < 15 :=
  (Nat.log2_lt h).2 hb

/-- the value of a (magnitude, sign) pair -/
def sval (neg : Bool) (a : Nat) : Int := if neg then -((a : Nat) : Int) else ((a : Nat) : Int)

/-- **DC differences**: the decisions of Figure F.4 decode to the difference and to the same new
conditioning context, using exactly the bins the encoder used -/
theorem decDC_dcDiff (tbl ctx L U : Nat) (v : Int) (hv : v.natAbs ≤ 32768) (rest : List Dn) (f : Bool) :
    decDC lsrc ((dcDiff tbl ctx L U v).1 ++ rest, f) tbl ctx L U = some (v, (dcDiff tbl ctx L U v).2, (rest, f)) := by
  unfold dcDiff decDC
  by_cases h0 : v = 0
  · subst h0; simp
  · simp only [h0, if_false]
    generalize hsg : (if v < 0 then 1 else 0 : Nat) = sg
    have hsg01 : sg = 0 ∨ sg = 1 := by split at hsg <;> omega
    simp only [List.cons_append, lsrc_next, Nat.one_ne_zero, if_false]
    unfold dcMag
    by_cases h1 : v.natAbs - 1 = 0
    · simp only [h1, if_true, List.cons_append, List.nil_append, lsrc_next, ne_eq, not_true_eq_false, if_false]
      have hm : magBits lsrc 20 0 0 (dcBase tbl + ctx + 2 + sg + 14) (rest, f) = (0, (rest, f)) := by simp [magBits]
      simp only [hm]
      congr 2
      rcases hsg01 with rfl | rfl
      · simp only [Nat.zero_ne_one, if_false]
        split at hsg <;> omega
      · simp only [if_true]
        split at hsg <;> omega
    · simp only [h1, if_false]
      have hn := log2_lt_of_lt (v.natAbs - 1) h1 (by omega)
      generalize hv1 : v.natAbs - 1 = v1 at *
      generalize hnn : Nat.log2 v1 = n at *
      have hlist : ((dcBase tbl + ctx + 2 + sg, 1) :: ((List.range n).map (fun i => (dcBase tbl + 20 + i, 1)) ++
          ((dcBase tbl + 20 + n, 0) :: (List.range n).map (fun i => (dcBase tbl + 20 + n + 14, (v1 >>> (n - 1 - i)) % 2))))) ++ rest =
          (dcBase tbl + ctx + 2 + sg, 1) :: ((List.range n).map (fun i => (dcBase tbl + 20 + i, 1)) ++
          ((dcBase tbl + 20 + n, 0) :: ((List.range n).map (fun i => (dcBase tbl + 20 + n + 14, (v1 >>> (n - 1 - i)) % 2)) ++ rest))) := by
        simp
      rw [hlist]
      simp only [lsrc_next, ne_eq, Nat.one_ne_zero, not_false_eq_true, if_true]
      rw [magUnary_ones n 20 1 (dcBase tbl + 20) _ f (by omega) (by
        have : 2 ^ n ≤ 2 ^ 14 := Nat.pow_le_pow_right (by omega) (by omega)
        omega)]
      simp only [Nat.one_mul]
      have hb := magBits_bits v1 n 20 1 (dcBase tbl + 20 + n + 14) rest f (by omega)
      rw [Nat.mul_one] at hb
      rw [hb, ← hnn, log2_split v1 h1]
      congr 2
      rcases hsg01 with rfl | rfl
      · simp only [Nat.zero_ne_one, if_false]
        split at hsg <;> omega
      · simp only [if_true]
        split at hsg <;> omega

/-- **a nonzero AC coefficient**: after the "not zero" decision, sign and magnitude decode exactly -/
theorem decACval_acVal (tbl K k st : Nat) (neg : Bool) (av : Nat) (h1 : 1 ≤ av) (hv : av ≤ 32768) (rest : List Dn) (f : Bool) :
    ∃ l', acVal tbl K k st neg av = (st + 1, 1) :: l' ∧
      decACval lsrc (l' ++ rest, f) tbl k K st = some (sval neg av, (rest, f)) := by
  unfold acVal
  by_cases hz : av - 1 = 0
  · refine ⟨[(fixedBin, if neg then 1 else 0), (st + 2, 0)], by simp [hz], ?_⟩
    have hav : av = 1 := by omega
    subst hav
    unfold decACval
    simp only [List.cons_append, List.nil_append, lsrc_next, ne_eq, not_true_eq_false, if_false]
    have hm : magBits lsrc 20 0 0 (st + 2 + 14) (rest, f) = (0, (rest, f)) := by simp [magBits]
    simp only [hm]
    cases neg <;> simp [sval]
  · simp only [hz, if_false]
    have hn := log2_lt_of_lt (av - 1) hz (by omega)
    generalize hv1 : av - 1 = v1 at *
    have hav : av = v1 + 1 := by omega
    generalize hnn : Nat.log2 v1 = n at *
    by_cases hn0 : n = 0
    · subst hn0
      have hv1one : v1 = 1 := by
        have := log2_split v1 hz
        rw [hnn] at this
        simp [Nat.mod_one] at this
        omega
      refine ⟨[(fixedBin, if neg then 1 else 0), (st + 2, 1), (st + 2, 0)], by simp, ?_⟩
      unfold decACval
      simp only [List.cons_append, List.nil_append, lsrc_next, ne_eq, Nat.one_ne_zero, not_false_eq_true, if_true, not_true_eq_false, if_false]
      have hm : magBits lsrc 20 1 1 (st + 2 + 14) (rest, f) = (1, (rest, f)) := by simp [magBits]
      simp only [hm]
      rw [hav, hv1one]
      cases neg <;> simp [sval]
    · simp only [hn0, if_false]
      obtain ⟨q, rfl⟩ : ∃ q, n = q + 1 := ⟨n - 1, by omega⟩
      generalize hx : acBase tbl + (if k ≤ K then 189 else 217) = x
      refine ⟨(fixedBin, if neg then 1 else 0) :: (st + 2, 1) :: (st + 2, 1) :: ((List.range q).map (fun i => (x + i, 1)) ++
          ((x + q, 0) :: (List.range (q + 1)).map (fun i => (x + q + 14, (v1 >>> (q + 1 - 1 - i)) % 2)))), by simp, ?_⟩
      unfold decACval
      have hlist : ((fixedBin, if neg then 1 else 0) :: (st + 2, 1) :: (st + 2, 1) :: ((List.range q).map (fun i => (x + i, 1)) ++
          ((x + q, 0) :: (List.range (q + 1)).map (fun i => (x + q + 14, (v1 >>> (q + 1 - 1 - i)) % 2))))) ++ rest =
          (fixedBin, if neg then 1 else 0) :: (st + 2, 1) :: (st + 2, 1) :: ((List.range q).map (fun i => (x + i, 1)) ++
          ((x + q, 0) :: ((List.range (q + 1)).map (fun i => (x + q + 14, (v1 >>> (q + 1 - 1 - i)) % 2)) ++ rest))) := by simp
      rw [hlist]
      simp only [lsrc_next, ne_eq, Nat.one_ne_zero, not_false_eq_true, if_true, hx]
      rw [magUnary_ones q 20 2 x _ f (by omega) (by
        have : 2 ^ q ≤ 2 ^ 13 := Nat.pow_le_pow_right (by omega) (by omega)
        omega)]
      simp only
      have hb := magBits_bits v1 (q + 1) 20 1 (x + q + 14) rest f (by omega)
      rw [Nat.mul_one] at hb
      rw [show 2 * 2 ^ q = 2 ^ (q + 1) by rw [Nat.pow_succ]; omega, hb, ← hnn, log2_split v1 hz, hav]
      cases neg <;> simp [sval]

theorem sval_zero (neg : Bool) : sval neg 0 = 0 := by cases neg <;> simp [sval]

theorem map_sval_all_zero : ∀ (l : List (Nat × Bool)), l.all (fun x => x.1 == 0) = true →
    l.map (fun c => sval c.2 c.1) = List.replicate l.length 0 := by
  intro l
  induction l with
  | nil => intro _; rfl
  | cons c t ih =>
    intro h
    simp only [List.all_cons, Bool.and_eq_true, beq_iff_eq] at h
    rw [List.map_cons, h.1, sval_zero, ih h.2, List.length_cons, List.replicate_succ]

/-- the end-of-block decision 0 at a symbol start puts the decoder where it is inside a run -/
theorem decF_eob0 (tbl K k rem : Nat) (Y : List Dn) (f : Bool) :
    decF lsrc tbl K false k (rem + 1) ((acBin tbl k, 0) :: Y, f) = decF lsrc tbl K true k (rem + 1) (Y, f) := by
  simp only [decF, Bool.false_eq_true, if_false, lsrc_next, Nat.zero_ne_one, if_true]

/-- **the AC coefficients of a block or band (sequential mode and first pass)**: end-of-block
decisions, zero runs, signs and magnitudes decode to exactly the coefficients -/
theorem decF_acF (tbl K : Nat) : ∀ (l : List (Nat × Bool)) (started : Bool) (k : Nat) (rest : List Dn) (f : Bool),
    (∀ c ∈ l, c.1 ≤ 32768) → (started = true → l.all (fun x => x.1 == 0) = false) →
    decF lsrc tbl K started k l.length (acF tbl K started k l ++ rest, f) = some (l.map (fun c => sval c.2 c.1), (rest, f)) := by
  intro l
  induction l with
  | nil => intro started k rest f _ _; simp [decF, acF]
  | cons c t ih =>
    intro started k rest f hb hs
    have hbt : ∀ x ∈ t, x.1 ≤ 32768 := fun x hx => hb x (by simp [hx])
    unfold acF
    by_cases hz : (!started && (c :: t).all (fun x => x.1 == 0)) = true
    · -- end of block
      rw [if_pos hz]
      simp only [Bool.and_eq_true, Bool.not_eq_true'] at hz
      obtain ⟨hst, hall⟩ := hz
      subst hst
      simp only [List.length_cons, decF, List.cons_append, List.nil_append, Bool.false_eq_true, if_false, lsrc_next, if_true]
      rw [map_sval_all_zero _ hall]; simp
    · rw [if_neg hz]
      have hnz : (c :: t).all (fun x => x.1 == 0) = false := by
        cases hst : started with
        | true => exact hs hst
        | false =>
          rw [hst] at hz
          simp only [Bool.not_false, Bool.true_and] at hz
          exact Bool.eq_false_iff.2 hz
      -- after the end-of-block decision (made, with value 0, unless inside a run)
      have hcore : ∀ (X : List Dn), decF lsrc tbl K started k (c :: t).length
          (((if started = true then [] else [(acBin tbl k, 0)]) ++ X) ++ rest, f) = decF lsrc tbl K true k (t.length + 1) (X ++ rest, f) := by
        intro X
        cases started with
        | true => simp only [if_true, List.nil_append, List.length_cons]
        | false => simp only [Bool.false_eq_true, if_false, List.cons_append, List.nil_append, List.length_cons]; exact decF_eob0 tbl K k t.length _ f
      rw [hcore]
      simp only [decF, if_true, Nat.zero_ne_one, if_false]
      by_cases hc0 : c.1 = 0
      · -- a zero inside (or starting) a run
        rw [if_pos hc0]
        have ht : t.all (fun x => x.1 == 0) = false := by
          simp only [List.all_cons, hc0, beq_self_eq_true, Bool.true_and] at hnz; exact hnz
        have htne : t.length ≠ 0 := by
          intro h0
          have : t = [] := List.length_eq_zero_iff.1 h0
          subst this; simp at ht
        have hih := ih true (k + 1) rest f hbt (fun _ => ht)
        simp only [List.cons_append, lsrc_next, Nat.zero_ne_one, if_false]
        rw [if_neg htne, hih, List.map_cons, hc0, sval_zero]
      · -- a coefficient
        rw [if_neg hc0]
        obtain ⟨l', hl', hdec⟩ := decACval_acVal tbl K k (acBin tbl k) c.2 c.1 (by omega) (hb c (by simp))
          (acF tbl K false (k + 1) t ++ rest) f
        have hih := ih false (k + 1) rest f hbt (fun h => by cases h)
        rw [hl']
        simp only [List.cons_append, List.append_assoc, lsrc_next, if_true]
        rw [hdec]
        simp only
        rw [hih, List.map_cons]

/-! ### refinement -/

open LJT.ProgAC (prevOf newOf prevOf_ne prevOf_zero prevOf_one newOf_zero corr corr_prev)

theorem prev_all_zero (p : Int) (hp : 0 < p) : ∀ (l : List (Nat × Bool)),
    (l.map (prevOf p)).all (· == 0) = !(l.any (fun x => decide (x.1 ≥ 2))) := by
  intro l
  induction l with
  | nil => rfl
  | cons c t ih =>
    simp only [List.map_cons, List.all_cons, List.any_cons, ih, Bool.not_or]
    congr 1
    by_cases h2 : 2 ≤ c.1
    · have := prevOf_ne p hp c h2
      simp [this, h2]
    · have : prevOf p c = 0 := by unfold prevOf; rw [if_pos (by omega)]
      simp [this, h2]

theorem new_all_zero (p : Int) : ∀ (l : List (Nat × Bool)), l.all (fun x => x.1 == 0) = true →
    l.map (newOf p) = l.map (prevOf p) := by
  intro l
  induction l with
  | nil => intro _; rfl
  | cons c t ih =>
    intro h
    simp only [List.all_cons, Bool.and_eq_true, beq_iff_eq] at h
    rw [List.map_cons, List.map_cons, ih h.2, newOf_zero p c h.1, prevOf_zero p c h.1]

/-- **AC refinement (Figure G.10)**: correction decisions for coefficients with history, zero
runs, newly-nonzero coefficients with their signs and the conditional end-of-block decisions
decode from the values of the previous level to exactly the values of this level -/
theorem decR_acR (tbl : Nat) (p : Int) (hp : 0 < p) : ∀ (l : List (Nat × Bool)) (started : Bool) (k : Nat) (rest : List Dn) (f : Bool),
    (started = true → l.all (fun x => x.1 == 0) = false) →
    decR lsrc tbl p started k (l.map (prevOf p)) (acR tbl started k l ++ rest, f) = some (l.map (newOf p), (rest, f)) := by
  intro l
  induction l with
  | nil => intro started k rest f _; simp [decR, acR]
  | cons c t ih =>
    intro started k rest f hs
    unfold acR
    by_cases hz : (!started && (c :: t).all (fun x => x.1 == 0)) = true
    · -- end of block
      rw [if_pos hz]
      simp only [Bool.and_eq_true, Bool.not_eq_true'] at hz
      obtain ⟨hst, hall⟩ := hz
      subst hst
      have hnone : (c :: t).any (fun x => decide (x.1 ≥ 2)) = false := by
        rw [List.any_eq_false]
        intro x hx
        have := List.all_eq_true.1 hall x hx
        simp only [beq_iff_eq] at this
        simp [this]
      have hpz := prev_all_zero p hp (c :: t)
      rw [hnone] at hpz
      rw [List.map_cons] at hpz ⊢
      simp only [decR, List.cons_append, List.nil_append, Bool.not_false, Bool.true_and, hpz, if_true, lsrc_next]
      rw [← List.map_cons, new_all_zero p _ hall]
    · rw [if_neg hz]
      have hnz : (c :: t).all (fun x => x.1 == 0) = false := by
        cases hst : started with
        | true => exact hs hst
        | false =>
          rw [hst] at hz
          simp only [Bool.not_false, Bool.true_and] at hz
          exact Bool.eq_false_iff.2 hz
      -- the conditional end-of-block decision
      have hcore : ∀ (X : List Dn), decR lsrc tbl p started k ((c :: t).map (prevOf p))
          (((if (started || (c :: t).any (fun x => decide (x.1 ≥ 2))) = true then [] else [(acBin tbl k, 0)]) ++ X) ++ rest, f) =
          decR lsrc tbl p true k ((c :: t).map (prevOf p)) (X ++ rest, f) := by
        intro X
        have hpz := prev_all_zero p hp (c :: t)
        rw [List.map_cons] at hpz ⊢
        cases started with
        | true => simp only [Bool.true_or, if_true, List.nil_append]
        | false =>
          simp only [Bool.false_or]
          cases hany : (c :: t).any (fun x => decide (x.1 ≥ 2)) with
          | true =>
            have hpz' : ((prevOf p c :: t.map (prevOf p)).all (· == 0)) = false := by rw [hpz, hany]; rfl
            simp only [if_true, List.nil_append, decR, Bool.not_false, Bool.true_and, hpz', Bool.false_eq_true, if_false, Bool.not_true,
              Bool.false_and]
          | false =>
            have hpz' : ((prevOf p c :: t.map (prevOf p)).all (· == 0)) = true := by rw [hpz, hany]; rfl
            simp only [Bool.false_eq_true, if_false, List.cons_append, List.nil_append, decR, Bool.not_false, Bool.true_and, hpz', if_true,
              lsrc_next, Nat.zero_ne_one, Bool.not_true, Bool.false_and]
      rw [hcore]
      rw [List.map_cons, List.map_cons]
      simp only [decR, Bool.not_true, Bool.false_and, Bool.false_eq_true, if_false, Nat.zero_ne_one]
      by_cases hc0 : c.1 = 0
      · rw [if_pos hc0, prevOf_zero p c hc0]
        have ht : t.all (fun x => x.1 == 0) = false := by
          simp only [List.all_cons, hc0, beq_self_eq_true, Bool.true_and] at hnz; exact hnz
        have htne : (t.map (prevOf p)).isEmpty = false := by
          cases t with
          | nil => simp at ht
          | cons _ _ => rfl
        simp only [ne_eq, not_true_eq_false, if_false, List.cons_append, lsrc_next, Nat.zero_ne_one, htne, Bool.false_eq_true]
        rw [ih true (k + 1) rest f (fun _ => ht), newOf_zero p c hc0]
      · rw [if_neg hc0]
        by_cases h2 : c.1 ≥ 2
        · rw [if_pos h2, if_pos (prevOf_ne p hp c h2)]
          simp only [List.cons_append, lsrc_next]
          rw [ih false (k + 1) rest f (fun h => by cases h)]
          simp only
          congr 2
          have hc := corr_prev p hp c h2
          unfold corr at hc
          rw [← hc]
          rcases Nat.mod_two_eq_zero_or_one c.1 with hm | hm
          · simp [hm]
          · simp only [hm, decide_true, if_true]
            by_cases hneg : prevOf p c < 0
            · rw [if_pos hneg, if_neg (by omega)]
            · rw [if_neg hneg, if_pos (by omega)]
        · have h1 : c.1 = 1 := by omega
          rw [if_neg h2, prevOf_one p c h1]
          simp only [ne_eq, not_true_eq_false, if_false, List.cons_append, lsrc_next, if_true]
          rw [ih false (k + 1) rest f (fun h => by cases h)]
          simp only
          congr 2
          obtain ⟨a, neg⟩ := c
          simp only at h1
          subst h1
          cases neg <;> simp [newOf, ProgAC.sgn]

end LJT.ArithBin
