#!/usr/bin/env python3
"""tools/failures.py <prop> [seed] [variant]: re-run a property's generated ops (incl. stage 2) on one executor and classify oracle failures"""
import sys, os, re, collections, importlib
sys.path.insert(0, os.path.dirname(os.path.dirname(os.path.abspath(__file__))))
from vlib import common as C
pid = sys.argv[1]; seed = sys.argv[2] if len(sys.argv) > 2 else "1"; var = sys.argv[3] if len(sys.argv) > 3 else "san"
P = importlib.import_module("vlib.props." + pid)
th, vd = C.build_variants([var])
exe = C.compile_harness(th, var, vd[var], [os.path.join(C.VERIF, "harness/exec_real.c")], "exec_real", extra=getattr(P, "HARNESS_FLAGS", ""))
rng = C.rng_for(seed, pid)
ops = P.gen_ops(rng, "quick")
allops = []; allres = []
res, cr = C.run_exec(exe, ops)
allops += ops; allres += res
if hasattr(P, "stage2"):
    ml = C.run_driver(ops)
    ops2, f2 = P.stage2(ops, ml, {var: res})
    res2, cr2 = C.run_exec(exe, ops2)
    allops += ops2; allres += res2
cnt = collections.Counter(); ex = {}
for op, (R, O) in zip(allops, allres):
    if O and O.startswith("fail"):
        k = re.sub(r"\d+", "N", O)[:100]
        cnt[k] += 1; ex.setdefault(k, []).append((op, R, O))
for k, n in cnt.most_common():
    op, R, O = ex[k][0]
    print(n, "|", O[:300]); print("     R:", R[:120]); print("     op:", op[:100])
    if os.environ.get("DUMP"):
        open(os.environ["DUMP"], "a").write(op + "\n")
print("total ops", len(allops), "fails", sum(cnt.values()))
