import LJT.Proofs.Lossless
import LJT.Model.LosslessDec
import LJT.Proofs.RstFraming
/-! The entropy-coded data of a whole lossless scan - restart intervals joined by RSTn markers - decodes,
interval by interval, to the differences that were coded (modulo 2^16). -/
namespace LJT.LL
open LJT.Huff LJT.Bits

theorem decodeSegments_ok (cds : List CDerived) (dds : List DDerived) (tblOf : List Nat) (nc : Nat)
    (htab : TablesOK cds dds tblOf 0 nc) :
    ∀ (segs : List (List (List Int))) (bitss : List (List Bool)),
      (∀ seg ∈ segs, ∀ m ∈ seg, m.length = nc) →
      All2 (fun seg bits => segBits cds tblOf (seg.flatMap (mcuItems 0)) = some bits) segs bitss →
      ∃ segs', decodeSegments dds tblOf nc (segs.map List.length) (bitss.map segmentBytes) =
          some (segs'.map (fun seg => seg.flatMap (mcuItems 0))) ∧
        All2 (All2 (All2 Cong16)) segs' segs := by
  intro segs
  induction segs with
  | nil =>
    intro bitss _ h
    cases h
    exact ⟨[], rfl, All2.nil⟩
  | cons seg segs ih =>
    intro bitss hlen h
    cases h with
    | cons h1 h2 =>
      rename_i bits bitss'
      obtain ⟨rest', hr, ha⟩ := ih bitss' (fun s hs => hlen s (by simp [hs])) h2
      obtain ⟨seg', hd, hs⟩ := decodeItems_ok cds dds tblOf nc htab seg bits
        (List.replicate (padLen bits.length) true) (hlen seg (by simp)) h1
      refine ⟨seg' :: rest', ?_, All2.cons hs ha⟩
      simp only [List.map_cons, decodeSegments, segmentBits_segmentBytes, hd, hr]

/-- **The entropy-coded data of a lossless scan round-trips, restart markers included.**  For any number of
restart intervals, each any sequence of MCUs of `nc` differences coded with the tables of their components:
the scan's bytes - every interval packed, 1-padded and byte-stuffed, the intervals joined by `FF D0..D7` -
split at the markers and decoded interval by interval give back, for every interval and MCU, differences
congruent modulo 2^16 to the ones coded (which is all the undifferencer looks at: `component_roundtrip`). -/
theorem scan_entropy_roundtrip (cds : List CDerived) (dds : List DDerived) (tblOf : List Nat) (nc : Nat)
    (htab : TablesOK cds dds tblOf 0 nc) (segs : List (List (List Int))) (hne : segs ≠ [])
    (hlen : ∀ seg ∈ segs, ∀ m ∈ seg, m.length = nc) (bitss : List (List Bool))
    (henc : All2 (fun seg bits => segBits cds tblOf (seg.flatMap (mcuItems 0)) = some bits) segs bitss) :
    ∃ segs', decodeSegments dds tblOf nc (segs.map List.length)
        (splitRST (joinRST (bitss.map segmentBytes) 0) []) = some (segs'.map (fun seg => seg.flatMap (mcuItems 0))) ∧
      All2 (All2 (All2 Cong16)) segs' segs := by
  have hne' : bitss ≠ [] := by
    intro e; subst e; cases henc; exact hne rfl
  rw [splitRST_joinRST bitss 0 hne']
  exact decodeSegments_ok cds dds tblOf nc htab segs bitss hlen henc

end LJT.LL
