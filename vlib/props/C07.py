"""C07 - lossy round-trip error is bounded by the quantisation steps."""
ID = "C07"
VARIANTS = ["san", "simd"]
RULE = ("rt: images from a formula shared with the model (noise, constant, edges, gradient, extreme checkerboard, photographic-like, "
        "all-min/all-max) x 8/12-bit x gray/RGB/CMYK without colour transform or subsampling x sizes incl. non-multiples of 8 x tables "
        "(all ones, jpeg_set_quality 1..100, random 8-bit, log-uniform 16-bit, sparse huge entries, boundary values 255/256/257/8191/"
        "8192/8193/16384/32767, max exactly 256) x up to 4 tables assigned to components round-robin: coefficient digest "
        "(jpeg_read_coefficients) and decoded-sample digest of the real codec (scalar and SIMD builds) must equal the model; oracle on the "
        "real output: per-block squared error <= 64*(sqrt(sum((q_k/2+1/2)^2)/64)+1)^2 with q read back from the file, constant images "
        "within ceil(q0/16)+1.  blk: explicit single blocks.  recip/quant: compute_reciprocal and quantize (static functions of "
        "jcdctmgr.c) for every divisor 1..2^18 and coefficient sweeps vs the model, C quantize vs jsimd_quantize")
TRUSTED = ["Model.DCT is a hand-written model of convsamp, jpeg_fdct_islow, compute_reciprocal, quantize, the dequantisation multipliers, "
           "jpeg_idct_islow and the range-limit table; the DCT constants, PASS1_BITS and the standard tables are regenerated from the source text",
           "the RMS clause itself is decided by the oracle on the real codec and by bit-exact correspondence; the theorems prove its "
           "ingredients (round-to-nearest quantisation incl. the reciprocal method, exact dequantisation, range limiting as a projection, "
           "exactness of the zero-AC shortcuts) and the constant-image clause in full"]
ASSUMPTIONS = ["allowance constants c = 1/2 (coefficient domain) and a = 1 (sample domain) fixed in the oracle"]


def classify(op, R):
    p = op.split(" ")
    if p[0] == "rt":
        return "rt:p%s:nc%s:k%s:t%s:%s" % (p[1], p[2], p[6], p[8], "err" if R.startswith("err") else "ok")
    return p[0]


def gen_ops(rng, tier):
    ops = []
    big = tier == "thorough"
    # every divisor of the reciprocal table, both word sizes (8q up to 32767*8, and the ifast range beyond)
    step = 4096
    for W in (16, 32):
        for lo in range(1, 1 << 18, step * (1 if big else 4)):
            ops.append("recip %d %d %d" % (W, lo, lo + step))
        ops.append("recip %d 1 2049" % W)
        ops.append("recip %d 65000 66000" % W)
    for i in range(600 if big else 120):
        W = rng.choice((16, 32))
        d = rng.choice([rng.randint(1, 65535), 8 * rng.randint(1, 8191), 1 << rng.randrange(0, 16), (1 << rng.randrange(1, 16)) + rng.choice((-1, 1)),
                        rng.randint(65536, 262136), 65535, 65536, 32768, 32767])
        d = max(d, 1)
        ws = []
        for _ in range(48):
            k = rng.random()
            if k < .3: ws.append(rng.randint(-32767, 32767))
            elif k < .7:
                m = rng.randint(0, max(1, 32767 // d)) * d + rng.choice((0, d // 2 - 1, d // 2, d // 2 + 1, -(d // 2), -(d // 2) - 1, d - 1, 1))
                ws.append(max(-32767, min(32767, m * rng.choice((1, -1)))))
            else: ws.append(rng.choice((0, 1, -1, 32767, -32767, 16384, -16384, 8192)))
        ops.append("quant %d %d %s" % (W, d, " ".join(map(str, ws))))
    for i in range(1500 if big else 260):
        prec = rng.choice((8, 8, 12))
        nc = rng.choice((1, 3, 4))
        w = rng.choice([rng.randint(1, 40), rng.randint(1, 20), 8, 16, 9, 17]); h = rng.choice([rng.randint(1, 30), rng.randint(1, 12), 8, 9])
        kind = rng.randrange(7); tkind = rng.randrange(7)
        ntbl = rng.randint(1, min(4, nc)) if nc > 1 else 1
        ops.append("rt %d %d %d %d %d %d %d %d %d" % (prec, nc, w, h, rng.randrange(1 << 30), kind, rng.randrange(1 << 30), tkind, ntbl))
    # histories: several images through one compression object and one decompression object, tables redefined between images,
    # later images abbreviated (optionally after a tables-only datastream) - the bound must hold for the tables the decoder holds
    for i in range(400 if big else 70):
        ops.append("rtseq %d %d %d %d %d %d %d" % (rng.choice((1, 3)), rng.choice([8, 16, 17, rng.randint(1, 30)]), rng.choice([8, 9, rng.randint(1, 20)]),
                                                  rng.randrange(1 << 30), rng.randrange(7), rng.randint(2, 4), rng.randrange(1 << 30)))
    for q in range(1, 101, 1 if big else 9):
        ops.append("rt 8 3 %d %d %d %d %d 1 2" % (rng.randint(9, 24), rng.randint(9, 24), rng.randrange(1 << 20), rng.choice((0, 5, 2)), q - 1))
    for i in range(200 if big else 40):
        prec = rng.choice((8, 12)); mx = (1 << prec) - 1
        qk = rng.random()
        q = [1 if qk < .2 else rng.randint(1, 255) if qk < .6 else min(32767, int(2 ** rng.uniform(0, 15))) for _ in range(64)]
        sk = rng.random()
        if sk < .3: s = [rng.randint(0, mx) for _ in range(64)]
        elif sk < .5: s = [rng.choice((0, mx)) for _ in range(64)]
        elif sk < .7:
            v = rng.randint(0, mx); s = [v] * 64
        else:
            a, b = rng.randint(0, mx), rng.randint(0, mx); s = [a if (k % 8) < rng.randint(0, 8) else b for k in range(64)]
        ops.append("blk %d %s %s" % (prec, " ".join(map(str, q)), " ".join(map(str, s))))
    return ops


def search(ctx, failing_ops):
    from .. import common as C
    import random
    rng = random.Random("search/%s" % ctx["seed"])
    ops = list(failing_ops) + gen_ops(rng, "quick")
    found = []
    for v, exe in ctx["exes"].items():
        res, _ = C.run_exec(exe, ops)
        for op, (R, O) in zip(ops, res):
            if O and O.startswith("fail"):
                found.append((v, op, R, O))
    return found


MANIFEST = {
    "text": ("Kernel-checked Lean theorems on a model of the accurate-integer-DCT sample path: the reciprocal-multiplication quantiser of "
             "compute_reciprocal/quantize equals round-to-nearest division for every divisor and every coefficient magnitude the word size "
             "admits (both word sizes), the 12-bit division path likewise, hence |w - d*quant(w)| <= d/2; dequantisation is exact; the "
             "range-limit table is the clamp on the reachable range and never increases the error to an in-range sample; the zero-AC "
             "shortcuts of jpeg_idct_islow return exactly what the general path returns; a constant block of any in-range value is "
             "reproduced within ceil(q0/16)+1 for any table (8- and 12-bit).  The model is tied bit-exactly (coefficients and samples) to "
             "the real codec in scalar and SIMD builds over random and boundary tables, and the per-block RMS bound is checked on the real "
             "output with the tables read back from the file."),
    "design_ref": "DESIGN.md 6.7",
    "note": ("Partial: the general RMS bound needs a near-Parseval argument about the fixed-point DCT pair that is not proved; it is decided "
             "by the oracle on the real codec. Trusted: Lean kernel; axioms propext, Quot.sound, Classical.choice; the hand-written model "
             "(tied by bit-exact correspondence); float arithmetic of the oracle."),
    "technique": "Lean 4 proof (number-theoretic argument for the reciprocal quantiser, omega on the DC path) + bit-exact model/code correspondence + RMS oracle on the real codec",
}
