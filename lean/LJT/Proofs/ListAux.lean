import LJT.Proofs.Lossless
import LJT.Model.LosslessDec
/-! Generic list lemmas for regrouping a scan: uniform flattening, chunking, element-wise relations. -/
namespace LJT.LL

theorem getD_map_lt {α β : Type} (f : α → β) (l : List α) (i : Nat) (d : α) (e : β) (h : i < l.length) :
    (l.map f).getD i e = f (l.getD i d) := by
  simp [List.getD_eq_getElem?_getD, List.getElem?_eq_getElem h]

theorem map_getD_range {α : Type} (l : List α) (d : α) : (List.range l.length).map (fun i => l.getD i d) = l := by
  apply List.ext_getElem
  · simp
  · intro i h1 h2
    simp [List.getD_eq_getElem?_getD, List.getElem?_eq_getElem h2]

/-- indexing into the concatenation of lists that all have length `k` -/
theorem getD_flatten_uniform {α : Type} (k : Nat) (d : α) : ∀ (l : List (List α)), (∀ r ∈ l, r.length = k) →
    ∀ i j, j < k → l.flatten.getD (i * k + j) d = (l.getD i []).getD j d := by
  intro l
  induction l with
  | nil => intro _ i j _; simp
  | cons r rs ih =>
    intro h i j hj
    have hr : r.length = k := h r (by simp)
    cases i with
    | zero =>
      simp only [List.flatten_cons, Nat.zero_mul, Nat.zero_add, List.getD_cons_zero]
      simp only [List.getD_eq_getElem?_getD]
      rw [List.getElem?_append_left (by omega)]
    | succ i =>
      simp only [List.flatten_cons, List.getD_cons_succ]
      have := ih (fun x hx => h x (by simp [hx])) i j hj
      rw [← this]
      have hle : r.length ≤ (i + 1) * k + j := by rw [hr, Nat.succ_mul]; omega
      simp only [List.getD_eq_getElem?_getD]
      rw [List.getElem?_append_right hle]
      have e : (i + 1) * k + j - r.length = i * k + j := by rw [hr, Nat.succ_mul]; omega
      rw [e]

theorem all2_flatten {α β : Type} {R : α → β → Prop} : ∀ {a : List (List α)} {b : List (List β)},
    All2 (All2 R) a b → All2 R a.flatten b.flatten := by
  intro a b h
  induction h with
  | nil => exact All2.nil
  | cons h1 _ ih => simp only [List.flatten_cons]; exact all2_append h1 ih

theorem all2_getD {α β : Type} {R : α → β → Prop} (da : α) (db : β) (hd : R da db) : ∀ {a : List α} {b : List β},
    All2 R a b → ∀ i, R (a.getD i da) (b.getD i db) := by
  intro a b h
  induction h with
  | nil => intro i; simpa using hd
  | cons h1 _ ih =>
    intro i
    cases i with
    | zero => simpa using h1
    | succ i => simpa using ih i

theorem chunksF_flatten {α : Type} (R : Nat) (hR : 0 < R) : ∀ (f : Nat) (l : List α), l.length ≤ f →
    (chunksF R f l).flatten = l := by
  intro f
  induction f with
  | zero => intro l h; have : l = [] := List.eq_nil_of_length_eq_zero (by omega)
            subst this; rfl
  | succ f ih =>
    intro l h
    cases l with
    | nil => rfl
    | cons r rs =>
      simp only [chunksF, List.flatten_cons]
      rw [ih _ (by simp only [List.length_drop, List.length_cons] at h ⊢; omega)]
      exact List.take_append_drop R (r :: rs)

theorem chunksF_map {α β : Type} (g : α → β) (R : Nat) : ∀ (f : Nat) (l : List α),
    chunksF R f (l.map g) = (chunksF R f l).map (List.map g) := by
  intro f
  induction f with
  | zero => intro l; rfl
  | succ f ih =>
    intro l
    cases l with
    | nil => rfl
    | cons r rs =>
      simp only [List.map_cons, chunksF]
      rw [← List.map_cons, ← List.map_drop, ih, List.map_take]

end LJT.LL
