import LJT.Ops.Util
import LJT.Model.DecompCtl
namespace LJT.Ops
open LJT.DecompCtl

def opC08 : List String → Option String
  | ["outdim", w, h] => do
    let w ← nat? w; let h ← nat? h
    some (" ".intercalate (Gen.tjScalingFactors.map (fun (n, d) => s!"{outputDim w n d}:{outputDim h n d}")))
  | ["tjcrop", jw, jh, ss, sfi, x, y, w, h] => do
    let jw ← nat? jw; let jh ← nat? jh; let ss ← nat? ss; let sfi ← nat? sfi
    let x ← int? x; let y ← int? y; let w ← int? w; let h ← int? h
    let (n, d) := Gen.tjScalingFactors.getD (sfi % 16) (1, 1)
    let sw := outputDim jw n d; let sh := outputDim jh n d
    let mw := outputDim (Gen.tjMCUWidth.getD ss 8) n d
    some (if tjCropAccept sw sh mw x y w h then "accept" else "reject")
  | _ => none

end LJT.Ops
