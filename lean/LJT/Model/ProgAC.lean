import LJT.Model.Huff
import LJT.Model.Lossless
/-! Progressive AC coding (T.81 G.1.2.2 / G.1.2.3) as pure functions, used by both sides of the
model: the encoder model `Model/ProgHuff.lean` (src/jcphuff.c `encode_mcu_AC_first`,
`encode_mcu_AC_refine`, `emit_eobrun`) builds its event streams with `firstEv` / `refEv`, and the
independent reader `Model/T81.lean` decodes every AC band with `firstDecBlock` / `refDecBlock`.
The functions are structurally recursive so that `Proofs/ProgAC.lean` can reason about them.

Events are independent of the Huffman table: a symbol of the scan's AC table, or raw bits. -/
namespace LJT.ProgAC
open LJT.LL

inductive Ev
  | sym (s : Nat)
  | bits (v n : Nat)
deriving Repr, DecidableEq

/-- the bit string of an event list under a code -/
def evBits (code : Nat → List Bool) : List Ev → List Bool
  | [] => []
  | .sym s :: t => code s ++ evBits code t
  | .bits v n :: t => natBits v n ++ evBits code t

/-- `emit_eobrun` without the buffered correction bits: EOBn symbol and the low n bits of the run -/
def eobEv (e : Nat) : List Ev :=
  if e = 0 then []
  else if Nat.log2 e = 0 then [.sym 0]
  else [.sym (Nat.log2 e * 16), .bits (e % 2 ^ Nat.log2 e) (Nat.log2 e)]

/-- buffered correction bits (`emit_buffered_bits`) -/
def brEv (br : List Nat) : List Ev := br.map (fun b => .bits b 1)

/-! ### first pass (`encode_mcu_AC_first`) -/

/-- the coefficients of one band, already point-transformed (sign · (|c| >> Al)), with `r`
pending zeros: events and the number of trailing zeros -/
def firstCoefEv : Nat → List Int → List Ev × Nat
  | r, [] => ([], r)
  | r, v :: t =>
    if v = 0 then firstCoefEv (r + 1) t
    else
      (List.replicate (r / 16) (.sym 0xF0) ++
        (.sym (r % 16 * 16 + (category v).1) :: .bits (category v).2.1 (category v).2.2 :: (firstCoefEv 0 t).1),
       (firstCoefEv 0 t).2)

/-- the bands of consecutive blocks with `e` pending end-of-band blocks (`EOBRUN`) -/
def firstEv : Nat → List (List Int) → List Ev
  | e, [] => eobEv e
  | e, b :: t =>
    if b.all (· == 0) then
      if e + 1 = 0x7FFF then eobEv (e + 1) ++ firstEv 0 t else firstEv (e + 1) t
    else
      eobEv e ++ ((firstCoefEv 0 b).1 ++ (if (firstCoefEv 0 b).2 = 0 then firstEv 0 t else firstEv 1 t))

/-! ### refinement pass (`encode_mcu_AC_refine`) -/

/-- is there a newly-nonzero coefficient (|c| >> Al = 1) here or later in the band?  (`cabsvalue <= EOBPTR`) -/
def hasOne (l : List (Nat × Bool)) : Bool := l.any (fun c => c.1 == 1)

/-- one band in a refinement scan.  Each coefficient is (|c| >> Al, c < 0).  `r` = zeros since the
last symbol, `br` = correction bits collected since then.  Result: events (without the flush of the
pending EOBRUN, which precedes the first of them), final `r`, final `br`. -/
def refCoefEv : Nat → List Nat → List (Nat × Bool) → List Ev × Nat × List Nat
  | r, br, [] => ([], r, br)
  | r, br, c :: t =>
    if c.1 = 0 then refCoefEv (r + 1) br t
    else
      let nz := if hasOne (c :: t) then r / 16 else 0
      let zr : List Ev := if nz = 0 then [] else (.sym 0xF0 :: brEv br) ++ List.replicate (nz - 1) (.sym 0xF0)
      let r' := r - 16 * nz
      let br' := if nz = 0 then br else []
      if c.1 > 1 then
        (zr ++ (refCoefEv r' (br' ++ [c.1 % 2]) t).1, (refCoefEv r' (br' ++ [c.1 % 2]) t).2)
      else
        (zr ++ ((.sym (r' * 16 + 1) :: .bits (if c.2 then 0 else 1) 1 :: brEv br') ++ (refCoefEv 0 [] t).1), (refCoefEv 0 [] t).2)

/-- `MAX_CORR_BITS - DCTSIZE2 + 1` -/
def maxBE : Nat := 1000 - 64 + 1

/-- the bands of consecutive blocks in a refinement scan with pending `EOBRUN = e` and buffered
correction bits `be` -/
def refEv : Nat → List Nat → List (List (Nat × Bool)) → List Ev
  | e, be, [] => eobEv e ++ brEv be
  | e, be, b :: t =>
    let ce := refCoefEv 0 [] b
    if ce.1.isEmpty then
      if ce.2.1 > 0 ∨ ce.2.2 ≠ [] then
        if e + 1 = 0x7FFF ∨ (be ++ ce.2.2).length > maxBE then eobEv (e + 1) ++ (brEv (be ++ ce.2.2) ++ refEv 0 [] t)
        else refEv (e + 1) (be ++ ce.2.2) t
      else refEv e be t
    else
      eobEv e ++ (brEv be ++ (ce.1 ++
        (if ce.2.1 > 0 ∨ ce.2.2 ≠ [] then
          (if ce.2.2.length > maxBE then eobEv 1 ++ (brEv ce.2.2 ++ refEv 0 [] t) else refEv 1 ce.2.2 t)
         else refEv 0 [] t)))

/-! ### the decoding procedures (T.81 G.2, figures G.3 - G.7 as the reader runs them) -/

abbrev Dec := List Bool → Option (Nat × Bool × List Bool)

def getBits (n : Nat) (bs : List Bool) : Option (Nat × List Bool) :=
  if bs.length < n then none else some (bitsNat (bs.take n), bs.drop n)

/-- run length of an EOBn symbol: 2^n plus n extra bits -/
def readEob (n : Nat) (bits : List Bool) : Option (Nat × List Bool) :=
  if n = 0 then some (1, bits) else (getBits n bits).map (fun p => (2 ^ n + p.1, p.2))

/-- first pass, `rem` coefficients of the band left: values, EOBRUN afterwards, rest of the bits -/
def firstDec (dec : Dec) : Nat → Nat → List Bool → Except String (List Int × Nat × List Bool)
  | 0, rem, bits => if rem = 0 then .ok ([], 0, bits) else .error "AC first: too many symbols"
  | f + 1, rem, bits =>
    if rem = 0 then .ok ([], 0, bits) else
    match dec bits with
    | none => .error "AC first: bad Huffman code"
    | some (_, true, _) => .error "AC first: bit pattern that is no code of the table"
    | some (sym, false, rest) =>
      if sym % 16 ≠ 0 then
        if sym / 16 + 1 > rem then .error "AC first: run beyond band"
        else
          match getBits (sym % 16) rest with
          | none => .error "AC first: out of data"
          | some (x, rest2) =>
            match firstDec dec f (rem - sym / 16 - 1) rest2 with
            | .error e => .error e
            | .ok (l, e, b) => .ok (List.replicate (sym / 16) 0 ++ extend (sym % 16) x :: l, e, b)
      else if sym / 16 = 15 then
        if 16 > rem then .error "AC first: ZRL beyond band"
        else
          match firstDec dec f (rem - 16) rest with
          | .error e => .error e
          | .ok (l, e, b) => .ok (List.replicate 16 0 ++ l, e, b)
      else
        match readEob (sym / 16) rest with
        | none => .error "AC first: out of data"
        | some (run, rest2) => .ok (List.replicate rem 0, run - 1, rest2)

/-- one band of length `L` in a first-pass scan -/
def firstDecBlock (dec : Dec) (L eobrun : Nat) (bits : List Bool) : Except String (List Int × Nat × List Bool) :=
  if eobrun > 0 then .ok (List.replicate L 0, eobrun - 1, bits) else firstDec dec (L + 1) L bits

/-- `n` consecutive bands -/
def firstDecBlocks (dec : Dec) (L : Nat) : Nat → Nat → List Bool → Except String (List (List Int) × Nat × List Bool)
  | 0, e, bits => .ok ([], e, bits)
  | n + 1, e, bits =>
    match firstDecBlock dec L e bits with
    | .error m => .error m
    | .ok (b, e', bits') =>
      match firstDecBlocks dec L n e' bits' with
      | .error m => .error m
      | .ok (bs, e'', bits'') => .ok (b :: bs, e'', bits'')

/-- correction of a coefficient with nonzero history -/
def corr (p cur : Int) (b : Bool) : Int := if b then (if cur ≥ 0 then cur + p else cur - p) else cur

/-- pass over the band until `r` zero-history coefficients have been skipped and the next one is
reached, reading a correction bit for every nonzero-history coefficient on the way: new values of
the coefficients passed, the rest of the band from the stop position, rest of the bits -/
def refSkip (p : Int) : Nat → List Int → List Bool → Option (List Int × List Int × List Bool)
  | _, [], bits => some ([], [], bits)
  | r, c :: t, bits =>
    if c ≠ 0 then
      match bits with
      | [] => none
      | b :: rest => (refSkip p r t rest).map (fun x => (corr p c b :: x.1, x.2.1, x.2.2))
    else if r = 0 then some ([], c :: t, bits)
    else (refSkip p (r - 1) t bits).map (fun x => (c :: x.1, x.2.1, x.2.2))

/-- correction bits for all nonzero-history coefficients of (the rest of) a band -/
def refTail (p : Int) : List Int → List Bool → Option (List Int × List Bool)
  | [], bits => some ([], bits)
  | c :: t, bits =>
    if c ≠ 0 then
      match bits with
      | [] => none
      | b :: rest => (refTail p t rest).map (fun x => (corr p c b :: x.1, x.2))
    else (refTail p t bits).map (fun x => (c :: x.1, x.2))

/-- refinement pass over the rest `prev` of a band (values known so far), `p = 2^Al` -/
def refDec (dec : Dec) (p : Int) : Nat → List Int → List Bool → Except String (List Int × Nat × List Bool)
  | 0, prev, bits => if prev.isEmpty then .ok ([], 0, bits) else .error "AC refinement: too many symbols"
  | f + 1, prev, bits =>
    if prev.isEmpty then .ok ([], 0, bits) else
    match dec bits with
    | none => .error "AC refinement: bad Huffman code"
    | some (_, true, _) => .error "AC refinement: bit pattern that is no code of the table"
    | some (sym, false, rest) =>
      if sym % 16 ≠ 0 then
        if sym % 16 ≠ 1 then .error "AC refinement: size must be 1"
        else
          match rest with
          | [] => .error "AC refinement: out of data"
          | b :: rest2 =>
            match refSkip p (sym / 16) prev rest2 with
            | none => .error "AC refinement: out of data"
            | some (_, [], _) => .error "AC refinement: run beyond band"
            | some (done, _ :: t, bs) =>
              match refDec dec p f t bs with
              | .error e => .error e
              | .ok (l, e, b') => .ok (done ++ (if b then p else -p) :: l, e, b')
      else if sym / 16 = 15 then
        match refSkip p 15 prev rest with
        | none => .error "AC refinement: out of data"
        | some (_, [], _) => .error "AC refinement: ZRL beyond band"
        | some (done, z :: t, bs) =>
          match refDec dec p f t bs with
          | .error e => .error e
          | .ok (l, e, b') => .ok (done ++ z :: l, e, b')
      else
        match readEob (sym / 16) rest with
        | none => .error "AC refinement: out of data"
        | some (run, rest2) =>
          match refTail p prev rest2 with
          | none => .error "AC refinement: out of data"
          | some (done, bs) => .ok (done, run - 1, bs)

/-- one band in a refinement scan -/
def refDecBlock (dec : Dec) (p : Int) (prev : List Int) (eobrun : Nat) (bits : List Bool) :
    Except String (List Int × Nat × List Bool) :=
  if eobrun > 0 then
    match refTail p prev bits with
    | none => .error "AC refinement: out of data"
    | some (done, bs) => .ok (done, eobrun - 1, bs)
  else refDec dec p (prev.length + 1) prev bits

/-- consecutive bands -/
def refDecBlocks (dec : Dec) (p : Int) : List (List Int) → Nat → List Bool → Except String (List (List Int) × Nat × List Bool)
  | [], e, bits => .ok ([], e, bits)
  | prev :: ps, e, bits =>
    match refDecBlock dec p prev e bits with
    | .error m => .error m
    | .ok (b, e', bits') =>
      match refDecBlocks dec p ps e' bits' with
      | .error m => .error m
      | .ok (bs, e'', bits'') => .ok (b :: bs, e'', bits'')

end LJT.ProgAC
