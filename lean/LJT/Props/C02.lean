import LJT.Proofs.Lossless
import LJT.Proofs.LosslessScan
import LJT.Proofs.Bits
import LJT.Proofs.LosslessFull2
/-!
# C02 - Lossless mode reproduces every sample exactly

Full statement: for every image with 2..16 bits per sample and 1..4 components, every
PSV 1..7, every restart setting and scan layout the compressor accepts, compressing in
lossless mode with Pt = 0 and decompressing returns exactly the original samples; with
Pt > 0 each sample comes back with its Pt low bits cleared; through both APIs and for
every packed-pixel layout, row order and pitch.

Proved here over `Model.Lossless` (whose compressor side is byte-identical to the real
encoder on every generated case, and whose tables come from the C19-verified builders):

* `component_roundtrip` - point transform + predictor + mod-2^16 reconstruction + restart
  bookkeeping of both sides, for every precision, Pt, PSV, restart interval, width, height;
* `restart_sync` - compressor and decompressor reset their predictors on the same rows;
* `difference_coding_roundtrip` - category/extra-bit coding incl. the 32768 case;
* `segment_roundtrip` - Huffman-coded MCUs, packed into bytes with 1-padding and 0xFF
  stuffing, decode to congruent differences (uses C19 `derived_tables_inverse`).

`lossless_roundtrip` composes all of it: the whole scan - any number of restart intervals, MCUs
interleaved over 1..n components, regrouped by the decoder into component rows - decodes to the
input with its Pt low bits cleared, for every image, size, precision, predictor, restart interval
and every set of tables under which the encoder's model succeeds.  Both ends of the theorem are
run against the code: `llEncode` must emit the bytes libjpeg-turbo emits, and `llDecode`, run on
those bytes, must return the samples libjpeg-turbo's decompressor returns (`llenc` ops).
`lossless_roundtrip_partial` and `scan_entropy_roundtrip` are the two halves it is built from.
Not in the theorem: scan layouts other than one interleaved scan (llscan ops check those on the
real code), the marker segments around the scan (C16), and layout / row order / pitch (C10).
-/
namespace LJT.C02
open LJT.LL LJT.Huff LJT.Bits

/-- what the decoder returns for an input sample: the Pt low bits cleared -/
def cleared (Pt : Nat) (s : Nat) : Nat := (s >>> Pt) <<< Pt

theorem shift_roundtrip (s Pt : Nat) (hs : s < 65536) :
    (((s >>> Pt : Nat) : Int).toNat <<< Pt) % 65536 = cleared Pt s := by
  unfold cleared
  simp only [Int.toNat_natCast]
  apply Nat.mod_eq_of_lt
  have : (s >>> Pt) <<< Pt ≤ s := by
    rw [Nat.shiftRight_eq_div_pow, Nat.shiftLeft_eq]
    exact Nat.div_mul_le_self s (2 ^ Pt)
  omega

/-- **component_roundtrip**: for every precision 2..16, point transform, predictor,
restart interval and image size: undifferencing (with the *decompressor's* restart
bookkeeping) any differences that are congruent modulo 2^16 to the ones the compressor
produced (with *its* bookkeeping), then scaling up, returns every sample with its Pt low
bits cleared - i.e. exactly the input when Pt = 0. -/
theorem component_roundtrip (p : Params) (rows : List (List Nat)) (w : Nat)
    (hP : p.P ≤ 16) (hw : ∀ r ∈ rows, r.length = w) (hs : ∀ r ∈ rows, ∀ s ∈ r, s < 2 ^ p.P)
    (dss : List (List Int))
    (hd : All2 (All2 Cong16) dss
      (diffRows p.psv (initPred p) (encFlags p.R rows.length (true, p.R)) [] (downscale p.Pt rows))) :
    upscale p.Pt (undiffRows p.psv (initPred p) (decFlags p.R rows.length (true, p.R)) [] dss) =
      rows.map (fun r => r.map (cleared p.Pt)) := by
  have h16 : ∀ r ∈ rows, ∀ s ∈ r, s < 65536 := by
    intro r hr s hs'
    have := hs r hr s hs'
    have : 2 ^ p.P ≤ 2 ^ 16 := Nat.pow_le_pow_right (by omega) hP
    have : (2:Nat) ^ 16 = 65536 := by decide
    omega
  rw [← restart_sync]
  have hlen : (downscale p.Pt rows).length = rows.length := by simp [downscale]
  have key := undiffRows_diffRows p.psv (initPred p) w (downscale p.Pt rows) dss
    (encFlags p.R rows.length (true, p.R)) []
    (by
      intro r hr
      simp only [downscale, List.mem_map] at hr
      obtain ⟨r0, hr0, rfl⟩ := hr
      intro c hc
      simp only [List.mem_map] at hc
      obtain ⟨s, hs', rfl⟩ := hc
      have h1 := h16 r0 hr0 s hs'
      have h2 : s >>> p.Pt ≤ s := Nat.shiftRight_le s p.Pt
      constructor
      · exact Int.natCast_nonneg _
      · have : ((s >>> p.Pt : Nat) : Int) ≤ (s : Int) := Int.ofNat_le.2 h2
        omega)
    (by
      intro r hr
      simp only [downscale, List.mem_map] at hr
      obtain ⟨r0, hr0, rfl⟩ := hr
      simp [hw r0 hr0])
    (by
      left
      cases hn : rows.length with
      | zero => simp [encFlags]
      | succ n =>
        simp only [encFlags, List.headD_cons]
        exact encStep_fst p.R (true, p.R))
    (by rw [encFlags_length, hlen]; exact Nat.le_refl _)
    hd
  rw [key]
  simp only [upscale, downscale, List.map_map]
  apply List.map_congr_left
  intro r hr
  simp only [Function.comp, List.map_map]
  apply List.map_congr_left
  intro s hs'
  simp only [Function.comp]
  exact shift_roundtrip s p.Pt (h16 r hr s hs')

/-- **restart_sync** (re-exported): same reset rows on both sides, for every interval. -/
theorem restart_sync (R n : Nat) : encFlags R n (true, R) = decFlags R n (true, R) :=
  LJT.LL.restart_sync R n

/-- **difference_coding_roundtrip**: for every integer difference the decoder's value
is congruent to it modulo 2^16, the category is at most 16, and category 16 carries no
extra bits. -/
theorem difference_coding_roundtrip (d : Int) :
    Cong16 (extend (category d).1 (category d).2.1) d ∧ (category d).1 ≤ 16 ∧
    (category d).2.2 = (if (category d).1 = 16 then 0 else (category d).1) :=
  let h := extend_category d
  ⟨h.1, h.2.1, h.2.2.2⟩

/-- **segment_roundtrip**: the bytes of one restart segment (Huffman codes + extra bits
of every MCU, 1-padding, 0xFF stuffing), read back through the unstuffing bit reader and
the Huffman/extend decoder, give MCUs with congruent differences; what is left unread is
fewer than 8 padding bits. -/
theorem segment_roundtrip (cds : List CDerived) (dds : List DDerived) (tblOf : List Nat) (nc : Nat)
    (htab : TablesOK cds dds tblOf 0 nc) (mcus : List (List Int)) (hlen : ∀ m ∈ mcus, m.length = nc)
    (bits : List Bool) (henc : segBits cds tblOf (mcus.flatMap (mcuItems 0)) = some bits) :
    ∃ mcus' padding, decodeItems dds tblOf nc mcus.length (segmentBits (segmentBytes bits)) =
        some (mcus'.flatMap (mcuItems 0), padding) ∧
      All2 (All2 Cong16) mcus' mcus ∧ padding.length < 8 := by
  rw [segmentBits_segmentBytes]
  obtain ⟨mcus', hdec, hall⟩ := decodeItems_ok cds dds tblOf nc htab mcus bits _ hlen henc
  exact ⟨mcus', _, hdec, hall, by simp [padLen_lt]⟩

/-- **lossless_roundtrip_partial**: the two halves above, joined at the point where they
meet: if the differences the entropy decoder hands to the undifferencer are the ones
`segment_roundtrip` yields (congruent to the compressor's), every component comes back as
`cleared Pt` of the input.  Not yet inside this theorem: splitting the scan at RSTn markers
and regrouping MCUs into rows (see file header). -/
theorem lossless_roundtrip_partial (p : Params) (img : List (List (List Nat))) (w : Nat)
    (hP : p.P ≤ 16) (hw : ∀ rows ∈ img, ∀ r ∈ rows, r.length = w)
    (hs : ∀ rows ∈ img, ∀ r ∈ rows, ∀ s ∈ r, s < 2 ^ p.P)
    (decoded : List (List (List Int)))
    (hd : All2 (All2 (All2 Cong16)) decoded (encodeDiffs p img)) :
    All2 (fun (dss : List (List Int)) (rows : List (List Nat)) =>
        upscale p.Pt (undiffRows p.psv (initPred p) (decFlags p.R rows.length (true, p.R)) [] dss) =
          rows.map (fun r => r.map (cleared p.Pt))) decoded img := by
  unfold encodeDiffs at hd
  induction img generalizing decoded with
  | nil => cases hd; exact All2.nil
  | cons rows img ih =>
    simp only [List.map_cons] at hd
    cases hd with
    | cons h1 h2 =>
      refine All2.cons ?_ (ih (fun r hr => hw r (List.mem_cons_of_mem _ hr))
        (fun r hr => hs r (List.mem_cons_of_mem _ hr)) _ h2)
      exact component_roundtrip p rows w hP (hw rows (List.mem_cons_self ..)) (hs rows (List.mem_cons_self ..)) _ h1

/-- **scan_entropy_roundtrip**: the entropy-coded data of a whole lossless scan - any number of restart intervals,
each packed, 1-padded, byte-stuffed, joined by RST0..RST7 (exactly what `llEncode`, the model tied byte for byte to
libjpeg-turbo by `llenc`, emits) - split at the markers and decoded interval by interval yields, for every interval
and every MCU, differences congruent modulo 2^16 to the ones coded.  With `component_roundtrip` (which needs
nothing but that congruence) this leaves only the regrouping of MCUs into component rows outside a single
end-to-end statement. -/
theorem scan_entropy_roundtrip (cds : List CDerived) (dds : List DDerived) (tblOf : List Nat) (nc : Nat)
    (htab : TablesOK cds dds tblOf 0 nc) (segs : List (List (List Int))) (hne : segs ≠ [])
    (hlen : ∀ seg ∈ segs, ∀ m ∈ seg, m.length = nc) (bitss : List (List Bool))
    (henc : All2 (fun seg bits => segBits cds tblOf (seg.flatMap (mcuItems 0)) = some bits) segs bitss) :
    ∃ segs', decodeSegments dds tblOf nc (segs.map List.length)
        (Bits.splitRST (Bits.joinRST (bitss.map Bits.segmentBytes) 0) []) =
          some (segs'.map (fun seg => seg.flatMap (mcuItems 0))) ∧
      All2 (All2 (All2 Cong16)) segs' segs :=
  LJT.LL.scan_entropy_roundtrip cds dds tblOf nc htab segs hne hlen bitss henc

/-- **lossless_roundtrip**: the whole lossless scan, compressor to decompressor, for every image.  For every precision
2..16, point transform, predictor, restart interval (in MCU rows, 0 = none), number of interleaved components, image
size `w x h >= 1x1`, every image whose samples fit the precision and every set of Huffman tables under which the
compressor's model succeeds in coding it: the bytes `llEncode` emits - differences by `encodeDiffs` with the
*compressor's* restart bookkeeping, interleaved MCU by MCU, cut into restart intervals, Huffman-coded, 1-padded,
byte-stuffed and joined by RST0..RST7 - are turned back by `llDecode` - split at the markers, each interval decoded
MCU by MCU with the *decompressor's* tables, regrouped into component rows, undifferenced with the decompressor's own
restart bookkeeping in 16-bit wrap-around arithmetic and scaled up - into exactly the input with its `Pt` low bits
cleared.  (`llEncode` is tied byte for byte to jcdiffct.c/jclossls.c/jclhuff.c by the `llenc` correspondence; the real
decoder is tied by the round-trip oracle of the same ops.) -/
theorem lossless_roundtrip (p : Params) (img : List (List (List Nat))) (nc h w : Nat)
    (hP : p.P ≤ 16) (n1 : 1 ≤ nc) (h1 : 1 ≤ h) (w1 : 1 ≤ w)
    (hnc : img.length = nc) (hh : ∀ rows ∈ img, rows.length = h)
    (hw : ∀ rows ∈ img, ∀ r ∈ rows, r.length = w)
    (hs : ∀ rows ∈ img, ∀ r ∈ rows, ∀ s ∈ r, s < 2 ^ p.P)
    (cds : List CDerived) (dds : List DDerived) (tblOf : List Nat) (htab : TablesOK cds dds tblOf 0 nc)
    (bitss : List (List Bool))
    (henc : (segmentsOf p.R ((byRow (encodeDiffs p img) h).map interleaveRow)).mapM (segBits cds tblOf) = some bitss) :
    llDecode p tblOf dds nc h w (Bits.joinRST (bitss.map Bits.segmentBytes) 0) =
      some (img.map fun rows => rows.map fun r => r.map (cleared p.Pt)) := by
  obtain ⟨segItems, hdec, hcong⟩ := decoded_diffs_congruent p.R nc h w h1 w1 n1 (encodeDiffs p img)
    (encodeDiffs_shape p img nc h w h1 hnc hh hw) cds dds tblOf htab bitss henc
  unfold llDecode
  rw [hdec]
  have hpart := lossless_roundtrip_partial p img w hP hw hs _ hcong
  simp only [Option.some.injEq]
  refine all2_map_eq _ _ (fun rows => rows.length = h) _ _ (all2_weaken ?_ hpart) hh
  intro dss rows hr hl
  rw [← hl]; exact hr


-- non-vacuity: a 3x2 16-bit component alternating 0 / 65535 with PSV 7, restart every row
example : (diffRows 7 32768 (encFlags 1 2 (true, 1)) [] (downscale 0 [[0, 65535, 0], [65535, 0, 65535]])) =
    [[-32768, 65535, -65535], [32767, -65535, 65535]] := by decide

end LJT.C02
