import LJT.Proofs.Robust
import LJT.Proofs.ScanScript
import LJT.Proofs.ScanScript2
import LJT.Model.ProgHuff
/-! # C17 - the compressor never crashes or emits bad output for any parameter combination

The decision logic that can be stated on the model: the size bound that keeps
`encode_one_block` inside its local buffer, and the agreement of the two Huffman table
builders on what they accept.  Everything else of this property is explored on the real
library (harness `cparam` / `xcoef`). -/
namespace LJT.Props.C17
open LJT.Huff LJT.SeqHuff

/-- **No block overruns the encoder's local buffer**: for every valid DC/AC table pair, every
DC difference and every 63 AC coefficients below 2^15 in magnitude (all that 8- and 12-bit
data and direct coefficient input can present once the range checks passed), the bytes the
block can produce - counting up to 63 bits already pending in the bit buffer and assuming the
worst case that every byte is 0xFF and gets a stuffed zero - fit `BUFSIZE` of src/jchuff.c as
generated from the working tree. -/
theorem block_fits_local_buffer (tdc tac : Tbl) (cdc cac : CDerived)
    (h1 : mkCDerived true false tdc = some cdc) (h3 : mkCDerived false false tac = some cac)
    (diff : Int) (ac : List Int) (hlen : ac.length = 63) (hd : diff.natAbs < 32768)
    (hac : ∀ v ∈ ac, v.natAbs < 32768) (bits : List Bool) (he : encodeBlock cdc cac diff ac = some bits)
    (pending : Nat) (hp : pending ≤ 63) :
    2 * ((pending + bits.length) / 8) ≤ Gen.Src.jchuff_BUFSIZE :=
  block_fits_buffer tdc tac cdc cac h1 h3 diff ac hlen hd hac bits he pending hp

/-- every code word of an accepted table has at most 16 bits -/
theorem code_length_le_16 (isDC lossless : Bool) (t : Tbl) (c : CDerived) (hc : mkCDerived isDC lossless t = some c)
    (s : Nat) (bs : List Bool) (he : encode c s = some bs) : bs.length ≤ 16 :=
  encode_length_le isDC lossless t c hc s bs he

/-- **A table the compressor accepts is a table the decompressor accepts** (so a stream is
never written with a DHT its own reader refuses) -/
theorem compressor_tables_are_decodable (isDC lossless : Bool) (t : Tbl) (c : CDerived)
    (hc : mkCDerived isDC lossless t = some c) : (mkDDerived isDC lossless t).isSome = true :=
  c_accepts_d_accepts isDC lossless t c hc

/-- non-vacuity: the bound is tight enough to matter - 63 pending bits and 1984 block bits
need 510 of the 512 bytes -/
example : 2 * ((63 + 31 * 64) / 8) = 510 ∧ Gen.Src.jchuff_BUFSIZE = 512 := by decide


open LJT.ScanScript in
/-- **Scan scripts: what the compressor accepts, its own decoder reads without complaint.**  `validate_script`
of jcmaster.c and the progression checks of `start_pass_phuff_decoder` of jdphuff.c are modelled line by line
(Model/ScanScript.lean) and tied to the real functions by the `vscript` operation (valid, mutated and hostile
scripts: error code, offending scan number, selected mode, and the warnings of the real decoder on the file
written).  For EVERY script - any number of scans, any `comps_in_scan` and component indexes, any `Ss Se Ah
Al`, any component count, 8- or 12-bit - that `validate_script` accepts as progressive, the decoder raises
neither `JERR_BAD_PROGRESSION` nor a single `JWRN_BOGUS_PROGRESSION` when it meets the scans in that order. -/
theorem accepted_scan_script_is_decodable (prec nc : Nat) (scans : List ScanScript.Scan)
    (h4 : ∀ s ∈ scans, s.idx.length = 4)
    (h : validateScript prec nc scans = .ok .progressive) : decRun scans BitPos.init 0 = some 0 :=
  accepted_progressive_script_decodes prec nc scans h4 h

-- non-vacuity: the script of jpeg_simple_progression for one component is accepted as progressive
open LJT.ScanScript in
example : (match validateScript 8 1 [⟨1, [0, 0, 0, 0], 0, 0, 0, 1⟩, ⟨1, [0, 0, 0, 0], 1, 5, 0, 2⟩, ⟨1, [0, 0, 0, 0], 6, 63, 0, 2⟩,
    ⟨1, [0, 0, 0, 0], 1, 63, 2, 1⟩, ⟨1, [0, 0, 0, 0], 0, 0, 1, 0⟩, ⟨1, [0, 0, 0, 0], 1, 63, 1, 0⟩] with
    | .ok .progressive => true | _ => false) = true := by
  decide +kernel


open LJT.ScanScript in
/-- **Accepted sequential and lossless scan scripts are complete and free of repetition**: if `validate_script`
accepts a script in a mode other than progressive, the components its scans name, in order, are a rearrangement of
`0 .. num_components-1` - every component of the frame is sent, none twice. -/
theorem accepted_nonprogressive_script_sends_every_component_once (prec nc : Nat) (scans : List ScanScript.Scan) (m : Mode)
    (hm : m ≠ .progressive) (h : validateScript prec nc scans = .ok m) :
    (scans.flatMap ScanScript.Scan.comps).Perm (List.range nc) :=
  accepted_nonprogressive_script_is_complete prec nc scans m hm h

/-- a script in the notation of Model/ProgHuff.lean as `jpeg_scan_info` records -/
def toScans (l : List (List Nat × Nat × Nat × Nat × Nat)) : List ScanScript.Scan :=
  l.map fun (cis, ss, se, ah, al) => ⟨Int.ofNat cis.length, ((cis ++ [0, 0, 0, 0]).take 4).map (fun (c : Nat) => Int.ofNat c),
    Int.ofNat ss, Int.ofNat se, Int.ofNat ah, Int.ofNat al⟩

def acceptedProg (prec nc : Nat) (s : List ScanScript.Scan) : Bool :=
  match ScanScript.validateScript prec nc s with | .ok .progressive => true | _ => false

/-- **The library's own progression script passes its own validator**: `jpeg_simple_progression` (as modelled in
Model/ProgHuff.lean and tied byte for byte by `progfile`) for 1 to 4 components, at 8 and 12 bits - and hence, by
`accepted_scan_script_is_decodable`, decodes without a progression error or warning. -/
theorem simple_progression_is_accepted : ∀ nc ∈ [1, 2, 3, 4],
    acceptedProg 8 nc (toScans (LJT.ProgHuff.simpleProgression nc)) = true ∧
    acceptedProg 12 nc (toScans (LJT.ProgHuff.simpleProgression nc)) = true := by decide +kernel

end LJT.Props.C17
