import LJT.Model.Huff
/-! K.2 generator, part 1: the scan for the two smallest frequencies and one merge step. -/
set_option maxRecDepth 20000
namespace LJT.Huff

/-- selection order of the scan as one number: smaller weight first, ties to the larger slot -/
def key (t : Tree) : Nat := t.w * 512 + (511 - t.idx)

structure WF (ts : List Tree) : Prop where
  sorted : ts.Pairwise (fun a b => a.idx < b.idx)
  idx_lt : ∀ t ∈ ts, t.idx < 512
  w_pos : ∀ t ∈ ts, 1 ≤ t.w
  w_le : ∀ t ∈ ts, t.w ≤ FREQ_LIMIT

structure ScanInv (p : List Tree) (s : Scan) : Prop where
  v_le : s.v ≤ s.v2
  v2_le : s.v2 ≤ FREQ_LIMIT
  c1_some : ∀ a, s.c1 = some a → a ∈ p ∧ s.v = a.w ∧ ∀ t ∈ p, key a ≤ key t
  c1_none : s.c1 = none → p = [] ∧ s.v = FREQ_LIMIT
  c2_some : ∀ b, s.c2 = some b → b ∈ p ∧ s.v2 = b.w ∧
    ∃ a, s.c1 = some a ∧ key a < key b ∧ ∀ t ∈ p, t = a ∨ key b ≤ key t
  c2_none : s.c2 = none → p.length ≤ 1 ∧ s.v2 = FREQ_LIMIT

theorem scanInv_nil : ScanInv [] ⟨FREQ_LIMIT, none, FREQ_LIMIT, none⟩ := by
  constructor <;> simp

theorem scanInv_step (p : List Tree) (s : Scan) (t : Tree) (h : ScanInv p s)
    (hidx : ∀ u ∈ p, u.idx < t.idx) (ht : t.idx < 512) (hw : t.w ≤ FREQ_LIMIT) :
    ScanInv (p ++ [t]) (scanStep s t) := by
  have hpi : ∀ u ∈ p, u.idx < 512 := fun u hu => Nat.lt_trans (hidx u hu) ht
  unfold scanStep
  by_cases h2 : t.w ≤ s.v2
  · by_cases h1 : t.w ≤ s.v
    · -- t becomes c1, the old c1 becomes c2
      simp only [h2, h1, if_true]
      refine ⟨h1, Nat.le_trans h.v_le h.v2_le, ?_, ?_, ?_, ?_⟩
      · intro a ha
        simp only [Option.some.injEq] at ha
        subst ha
        refine ⟨by simp, rfl, ?_⟩
        intro u hu
        rcases List.mem_append.1 hu with hu | hu
        · cases hc : s.c1 with
          | none => have := (h.c1_none hc).1; subst this; simp at hu
          | some a =>
            obtain ⟨ham, hav, hmin⟩ := h.c1_some a hc
            have h3 := hmin u hu
            have h4 := hidx a ham
            have h5 := hpi a ham
            have h6 : t.w ≤ a.w := hav ▸ h1
            clear hmin hu hidx hpi h hc ham hav
            unfold key at h3 ⊢
            omega
        · simp at hu; subst hu; exact Nat.le_refl _
      · intro hc; simp at hc
      · intro b hb
        simp only at hb
        obtain ⟨ham, hav, hmin⟩ := h.c1_some b hb
        refine ⟨List.mem_append_left _ ham, hav, t, rfl, ?_, ?_⟩
        · have h4 := hidx b ham
          have h5 := hpi b ham
          simp only [key]; omega
        · intro u hu
          rcases List.mem_append.1 hu with hu | hu
          · right; exact hmin u hu
          · left; simpa using hu
      · intro hc
        simp only at hc
        obtain ⟨hp, hv⟩ := h.c1_none hc
        subst hp
        exact ⟨by simp, hv⟩
    · -- t becomes c2
      simp only [h2, h1, if_true, if_false]
      have h1' : s.v < t.w := Nat.lt_of_not_le h1
      cases hc : s.c1 with
      | none => have := (h.c1_none hc).2; omega
      | some a =>
        obtain ⟨ham, hav, hmin⟩ := h.c1_some a hc
        refine ⟨Nat.le_of_lt h1', hw, ?_, ?_, ?_, ?_⟩
        · intro a' ha'
          simp only [Option.some.injEq] at ha'
          subst ha'
          refine ⟨List.mem_append_left _ ham, hav, ?_⟩
          intro u hu
          rcases List.mem_append.1 hu with hu | hu
          · exact hmin u hu
          · simp at hu; subst hu
            have h5 := hpi a ham
            simp only [key]; omega
        · intro hc'; simp at hc'
        · intro b hb
          simp only [Option.some.injEq] at hb
          subst hb
          refine ⟨by simp, rfl, a, rfl, ?_, ?_⟩
          · have h5 := hpi a ham
            simp only [key]; omega
          · intro u hu
            rcases List.mem_append.1 hu with hu | hu
            · cases hc2 : s.c2 with
              | none =>
                have hl := (h.c2_none hc2).1
                left
                match p, ham, hu, hl with
                | [x], ham, hu, _ => simp at ham hu; rw [ham, hu]
              | some b' =>
                obtain ⟨hbm, hbv, a2, ha2, hab, hrest⟩ := h.c2_some b' hc2
                rw [hc] at ha2
                simp only [Option.some.injEq] at ha2
                subst ha2
                rcases hrest u hu with h6 | h6
                · left; exact h6
                · right
                  have h7 := hidx b' hbm
                  have h8 := hpi b' hbm
                  have h9 : t.w ≤ b'.w := hbv ▸ h2
                  clear hmin hu hidx hpi h hc ham hav hrest hc2 hbm hbv
                  unfold key at h6 ⊢
                  omega
            · right; simp at hu; subst hu; exact Nat.le_refl _
        · intro hc'; simp at hc'
  · -- t is larger than both
    simp only [h2, if_false]
    have h2' : s.v2 < t.w := Nat.lt_of_not_le h2
    cases hc2 : s.c2 with
    | none => have := (h.c2_none hc2).2; omega
    | some b =>
      obtain ⟨hbm, hbv, a, ha, hab, hrest⟩ := h.c2_some b hc2
      obtain ⟨ham, hav, hmin⟩ := h.c1_some a ha
      refine ⟨h.v_le, h.v2_le, ?_, ?_, ?_, ?_⟩
      · intro a' ha'
        rw [ha] at ha'
        simp only [Option.some.injEq] at ha'
        subst ha'
        refine ⟨List.mem_append_left _ ham, hav, ?_⟩
        intro u hu
        rcases List.mem_append.1 hu with hu | hu
        · exact hmin u hu
        · simp at hu; subst hu
          have h5 := hpi a ham
          have := h.v_le
          simp only [key]; omega
      · intro hc'; rw [ha] at hc'; simp at hc'
      · intro b' hb'
        rw [hc2] at hb'
        simp only [Option.some.injEq] at hb'
        subst hb'
        refine ⟨List.mem_append_left _ hbm, hbv, a, ha, hab, ?_⟩
        intro u hu
        rcases List.mem_append.1 hu with hu | hu
        · exact hrest u hu
        · right; simp at hu; subst hu
          have h8 := hpi b hbm
          simp only [key]; omega
      · intro hc'; rw [hc2] at hc'; simp at hc'


theorem foldl_scanInv : ∀ (q p : List Tree) (s : Scan), WF (p ++ q) → ScanInv p s →
    ScanInv (p ++ q) (q.foldl scanStep s) := by
  intro q
  induction q with
  | nil => intro p s _ h; simpa using h
  | cons t q ih =>
    intro p s hwf h
    have e : p ++ t :: q = (p ++ [t]) ++ q := by simp
    rw [e, List.foldl_cons]
    apply ih
    · rw [← e]; exact hwf
    · have hs := hwf.sorted
      rw [List.pairwise_append] at hs
      apply scanInv_step p s t h
      · intro u hu; exact hs.2.2 u hu t (by simp)
      · exact hwf.idx_lt t (by simp)
      · exact hwf.w_le t (by simp)

theorem findTwo_inv (ts : List Tree) (h : WF ts) : ScanInv ts (findTwo ts) := by
  have := foldl_scanInv ts [] _ (by simpa using h) scanInv_nil
  simpa [findTwo] using this

theorem WF.idx_inj {ts : List Tree} (h : WF ts) {a b : Tree} (ha : a ∈ ts) (hb : b ∈ ts)
    (e : a.idx = b.idx) : a = b := by
  have hs := h.sorted
  clear h
  induction ts with
  | nil => simp at ha
  | cons x xs ih =>
    rw [List.pairwise_cons] at hs
    rcases List.mem_cons.1 ha with ha1 | ha1
    · rcases List.mem_cons.1 hb with hb1 | hb1
      · rw [ha1, hb1]
      · have := hs.1 b hb1; rw [← ha1] at this; omega
    · rcases List.mem_cons.1 hb with hb1 | hb1
      · have := hs.1 a ha1; rw [← hb1] at this; omega
      · exact ih ha1 hb1 hs.2

theorem WF.key_inj {ts : List Tree} (h : WF ts) {a b : Tree} (ha : a ∈ ts) (hb : b ∈ ts)
    (e : key a = key b) : a = b := by
  apply h.idx_inj ha hb
  have h1 := h.idx_lt a ha
  have h2 := h.idx_lt b hb
  unfold key at e
  omega

theorem WF.nodup {ts : List Tree} (h : WF ts) : ts.Nodup := by
  have hs := h.sorted
  unfold List.Nodup
  exact hs.imp (fun {a b} hab e => by subst e; omega)

/-- the function applied to the survivors of a merge: slot `a.idx` now holds the merged tree -/
def repl (a b : Tree) : Tree → Tree := fun t => if t.idx = a.idx then mergeTrees a b else t

theorem mergeStep_spec (ts : List Tree) (h : WF ts) (hlen : 2 ≤ ts.length) :
    ∃ a b, a ∈ ts ∧ b ∈ ts ∧ key a < key b ∧ (∀ t ∈ ts, t = a ∨ t = b ∨ key b < key t) ∧
      mergeStep ts = some ((ts.erase b).map (repl a b)) := by
  have hi := findTwo_inv ts h
  cases hc2 : (findTwo ts).c2 with
  | none => have := (hi.c2_none hc2).1; omega
  | some b =>
    obtain ⟨hbm, _, a, ha, hab, hrest⟩ := hi.c2_some b hc2
    obtain ⟨ham, _, _⟩ := hi.c1_some a ha
    refine ⟨a, b, ham, hbm, hab, ?_, ?_⟩
    · intro t ht
      rcases hrest t ht with e | e
      · left; exact e
      · right
        by_cases hk : key b = key t
        · left; exact (h.key_inj hbm ht hk).symm
        · right; omega
    · unfold mergeStep
      simp only [ha, hc2]
      rfl

theorem mergeStep_none (ts : List Tree) (h : WF ts) (hlen : ts.length ≤ 1) : mergeStep ts = none := by
  have hi := findTwo_inv ts h
  cases hc2 : (findTwo ts).c2 with
  | none =>
    unfold mergeStep
    simp only [hc2]
    cases (findTwo ts).c1 <;> rfl
  | some b =>
    obtain ⟨hbm, _, a, ha, hab, _⟩ := hi.c2_some b hc2
    obtain ⟨ham, _, _⟩ := hi.c1_some a ha
    exfalso
    match ts, hlen, ham, hbm with
    | [x], _, ham, hbm =>
      simp at ham hbm
      rw [ham, hbm] at hab
      omega

/-- multiset view of one merge step -/
theorem mergeStep_perm (ts : List Tree) (h : WF ts) (a b : Tree) (ha : a ∈ ts) (hb : b ∈ ts) (hab : a ≠ b) :
    ∃ rest, ts.Perm (a :: b :: rest) ∧ ((ts.erase b).map (repl a b)).Perm (mergeTrees a b :: rest) := by
  have hnd := h.nodup
  have ha' : a ∈ ts.erase b := (List.mem_erase_of_ne hab).2 ha
  refine ⟨(ts.erase b).erase a, ?_, ?_⟩
  · have p1 := List.perm_cons_erase hb
    have p2 := List.perm_cons_erase ha'
    exact (p1.trans (p2.cons b)).trans (List.Perm.swap a b _)
  · have p2 := List.perm_cons_erase ha'
    have p3 := p2.map (repl a b)
    refine p3.trans ?_
    rw [List.map_cons]
    have e1 : repl a b a = mergeTrees a b := by simp [repl]
    rw [e1]
    apply List.Perm.cons
    have e2 : ((ts.erase b).erase a).map (repl a b) = (ts.erase b).erase a := by
      conv => rhs; rw [← List.map_id ((ts.erase b).erase a)]
      apply List.map_congr_left
      intro t ht
      have hnd2 : (ts.erase b).Nodup := hnd.erase b
      have ht2 := (List.Nodup.mem_erase_iff hnd2).1 ht
      have ht3 : t ∈ ts := List.mem_of_mem_erase ht2.2
      have : t.idx ≠ a.idx := fun e => ht2.1 (h.idx_inj ht3 ha e)
      simp [repl, this]
    rw [e2]

end LJT.Huff
