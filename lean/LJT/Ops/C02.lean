import LJT.Ops.Util
import LJT.Model.Lossless
import LJT.Model.LosslessDec
namespace LJT.Ops
open LJT.LL LJT.Huff

/-- sample generator shared with the C harness -/
def llSample (P kind seed k x : Nat) : Nat :=
  let maxv := 2 ^ P - 1
  match kind with
  | 0 => ((seed + 1) * (k + 17) * 40503 / 64) % 2 ^ P
  | 1 => maxv / 3
  | 2 => if x % 2 = 1 then maxv else 0
  | 3 => (k * 3) % 2 ^ P
  | _ => if ((seed + 1) * (k + 17) * 40503 / 64) % 2 = 1 then maxv else 0

def llImage (P nc w h kind seed : Nat) : List (List (List Nat)) :=
  (List.range nc).map (fun ci => (List.range h).map (fun y => (List.range w).map (fun x =>
    llSample P kind seed ((ci * h + y) * w + x) x)))

/-- model of the whole lossless scan: DHT tables (as `(id, bits, vals)`) and scan bytes -/
def llEncode (p : Params) (tblOf : List Nat) (img : List (List (List Nat))) :
    Option (List (Nat × Tbl) × List Nat) := do
  let h := (img.headD []).length
  let diffs := encodeDiffs p img
  let rowsItems := (byRow diffs h).map interleaveRow
  let all := rowsItems.flatten
  let ntbl := (tblOf.foldl max 0) + 1
  let tbls ← (List.range ntbl).mapM (fun t =>
    match genOptimalTable (gather tblOf all t) with
    | .ok tb => some (t, tb)
    | .clenOverflow => none)
  let cds ← tbls.mapM (fun (_, tb) => mkCDerived true true tb)
  let segs ← (segmentsOf p.R rowsItems).mapM (segBits cds tblOf)
  some (tbls, Bits.joinRST (segs.map Bits.segmentBytes) 0)

def opC02 : List String → Option String
  | ["llenc", P, Pt, psv, R, nc, w, h, kind, seed, cs] => do
    let P ← nat? P; let Pt ← nat? Pt; let psv ← nat? psv; let R ← nat? R
    let nc ← nat? nc; let w ← nat? w; let h ← nat? h; let kind ← nat? kind; let seed ← nat? seed
    let tblOf := if cs = "ycc" then [0, 1, 1] else [0, 0, 0, 0]
    let img := llImage P nc w h kind seed
    match llEncode ⟨P, Pt, psv, R⟩ tblOf img with
    | none => some "modelerr"
    | some (tbls, bytes) =>
      let d := " ".intercalate (tbls.map (fun (t, tb) => s!"dht{t}:{joinNat (tb.bits.drop 1)}:{joinNat tb.vals}"))
      -- the decoder's model on the same bytes, with the decoder-side tables derived from the DHT segments
      let dec := match tbls.mapM (fun (_, tb) => mkDDerived true true tb) with
        | none => "none"
        | some dds =>
          match llDecode ⟨P, Pt, psv, R⟩ tblOf dds nc h w bytes with
          | none => "none"
          | some comps =>
            let samples := (List.range h).flatMap fun y => (List.range w).flatMap fun x =>
              comps.flatMap fun (rows : List (List Nat)) => let v := (rows.getD y []).getD x 0; [v % 256, v / 256]
            s!"{samples.length / 2}:{fnv samples}"
      some s!"{d} scan {bytes.length}:{fnv bytes} dec {dec}"
  | _ => none

end LJT.Ops
