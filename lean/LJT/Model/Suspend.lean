/-! Suspension: the protocol by which libjpeg's decoder (and single-pass Huffman encoder)
cope with a data source (destination) that delivers (accepts) bytes in arbitrary chunks
(src/jdatasrc.c-style managers written by applications, libjpeg.txt "I/O suspension";
src/jdinput.c / jdmarker.c / jdhuff.c: every unit of work - a marker segment, an MCU - either
completes, or returns "suspended" leaving the saved state untouched, and is retried from the
same point when more bytes have been appended to the unread ones). -/
namespace LJT.Suspend

/-- a suspending source as an application implements it: unread bytes still in the buffer,
chunks not yet delivered, and the part of a `skip_input_data` request that went beyond the
buffer -/
structure Src where
  buf : List Nat
  rest : List (List Nat)
  skip : Nat
deriving Repr

/-- everything the decoder has not seen yet -/
def Src.remaining (s : Src) : List Nat := (s.buf ++ s.rest.flatten).drop s.skip

/-- the application appends the next chunk behind the unread bytes (and honours a pending skip) -/
def Src.refill (s : Src) : Option Src :=
  match s.rest with
  | [] => none
  | c :: r => let b := s.buf ++ c; some ⟨b.drop s.skip, r, s.skip - b.length⟩

/-- `INPUT_BYTES(n)`: succeeds only if all `n` bytes are in the buffer -/
def Src.read (n : Nat) (s : Src) : Option (List Nat × Src) :=
  if s.skip = 0 ∧ n ≤ s.buf.length then some (s.buf.take n, { s with buf := s.buf.drop n }) else none

/-- `skip_input_data(n)` -/
def Src.skipData (n : Nat) (s : Src) : Src :=
  if n ≤ s.buf.length then { s with buf := s.buf.drop n }
  else ⟨[], s.rest, s.skip + (n - s.buf.length)⟩

section Generic
variable {σ α : Type}

/-- a unit of work: from a saved state and the unread input (bytes for the marker reader, bits for the entropy decoder), either finish (new state, bytes
consumed) or suspend (`none`) without side effects -/
abbrev Step (σ : Type) (α : Type := Nat) := σ → List α → Option (σ × Nat)

/-- what every suspendable unit of libjpeg guarantees: it never consumes more than it was
given and, once it can finish, more bytes behind do not change what it does -/
def Stable (step : Step σ α) : Prop :=
  ∀ s d s' n e, step s d = some (s', n) → n ≤ d.length ∧ step s (d ++ e) = some (s', n)

/-- an execution against a chunked source: final state and unread bytes -/
inductive ChunkRun (step : Step σ α) : σ → List α → List (List α) → σ → List α → Prop
  | done (s buf) : step s buf = none → ChunkRun step s buf [] s buf
  | adv (s buf cs s' n sf lf) : step s buf = some (s', n) → ChunkRun step s' (buf.drop n) cs sf lf → ChunkRun step s buf cs sf lf
  | more (s buf c cs sf lf) : step s buf = none → ChunkRun step s (buf ++ c) cs sf lf → ChunkRun step s buf (c :: cs) sf lf

end Generic

/-- the marker-segment reader as a unit of work (jdmarker.c `read_markers` + `skip_variable`
/ `get_*`): needs the two marker bytes, the two length bytes and the whole payload -/
def segStep : Step Nat
  | count, 0xFF :: _m :: hi :: lo :: rest =>
    let len := hi * 256 + lo
    if 2 ≤ len ∧ len - 2 ≤ rest.length then some (count + 1, 2 + len) else none
  | _, _ => none

end LJT.Suspend
