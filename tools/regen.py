#!/usr/bin/env python3
import sys, os
sys.path.insert(0, os.path.dirname(os.path.dirname(os.path.abspath(__file__))))
from vlib import common as C
th, vd = C.build_variants(['san', 'simd'])
print(th, C.run_gen(th, vd))
