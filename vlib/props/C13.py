"""C13 - JPEG destination buffer contract and worst-case size."""
ID = "C13"
VARIANTS = ["san", "simd"]
HARNESS_FLAGS = "-DC13_WRAP -Wl,--wrap=malloc -Wl,--wrap=free"
RULE = ("dest ops: client write sequences (byte-wise and direct-block) against both in-memory destination managers with "
        "initial capacities NULL/0/1/2/511..513/4095..4097/exact total +-1, reallocation on/off, reuse of the returned buffer; "
        "wcase ops: real compressions (lossy/lossless, 8/12/16-bit, noise/flat/alternating/worst-difference content) into a "
        "buffer of exactly tj3JPEGBufSize() with NOREALLOC, capacity sweep around the real size, tiny/exact/reused buffers with "
        "reallocation; aba ops: the caller frees the buffer of the previous call and allocates a smaller one which the allocator (a one-slot "
        "allocator linked under malloc/free) places at the same address, then compresses with the true capacity - nothing may be stored "
        "beyond it (canary); class = op kind + outcome")
TRUSTED = ["Model.Dest is a hand model of jdatadst-tj.c / jdatadst.c over an abstract heap; tied by the dest op (free_in_buffer, growth count, size, content hash after every step)"]
ASSUMPTIONS = ["the model identifies a buffer with its address, as jdatadst-tj.c does: 'reuse keeps the true capacity' is proved for a caller that hands back the "
               "very buffer of the previous call; the history in which the caller has freed that buffer and a new, smaller one sits at the same address is "
               "outside the model and is run on the real code by the aba op (known finding D38)"]


def classify(op, R):
    p = op.split(" ")
    if p[0] == "dest":
        return "dest:%s:%s:%s" % (p[1], p[2], "err" if "err" in R else "ok")
    if p[0] == "capsweep":
        return "capsweep:icc%s:%s" % ("0" if p[4] == "0" else "1", R.split(" ")[0])
    if p[0] == "aba":
        return "aba:d%s:%s" % (p[5], " ".join(R.split(" ")[:6]))
    if p[0] == "wcase":
        return "wcase:%s:%s:%s" % (p[1], p[2], R.split(" ")[0])
    return p[0]


def dest_op(rng, kind, alloc, nimg):
    toks = ["dest", kind, str(alloc)]
    first = True
    prev_total = 0
    for im in range(nimg):
        total = rng.choice([0, 1, 2, 100, 511, 512, 513, 1000, 4095, 4096, 4097, 5000, 8192, 8191, 12000, 20000, rng.randint(1, 30000)])
        # (a JPEG is never empty, so *outsize = 0 is never handed back with the old pointer)
        if first or prev_total == 0 or rng.random() < .3:
            r = rng.random()
            if r < .2:
                toks.append("Snull")
            elif r < .75:
                cap = rng.choice([0, 1, 2, 511, 512, 513, 4095, 4096, 4097, total, total + 1, max(total - 1, 0), total + 600, 2 * total + 5, rng.randint(1, 20000)])
                toks.append("S%d" % cap)
            else:
                toks.append("S%d" % (total + rng.randint(1, 700)))
        else:
            # the size handed back with a re-used buffer is documented as ignored: sometimes hand back 0
            toks.append("Sreuse0" if rng.random() < .25 else "Sreuse")
        first = False
        left = total
        while left > 0:
            n = min(left, rng.choice([1, 1, 2, 3, 17, 100, 300, 495, 511, 600, 2000]))
            toks.append(("b%d" if (n < 512 and rng.random() < .5) else "w%d") % n)
            left -= n
        toks.append("T")
        prev_total = total
    return " ".join(toks)


def gen_ops(rng, tier):
    ops = []
    big = tier == "thorough"
    # the longest encoded blocks there are (largest legal magnitude in every position), enough of them to make the encoder
    # fall back to its local per-block buffer at the end of the destination buffer
    for prec, val in ((8, 1023), (12, 16383)):
        for mode in (0, 1):
            for pos in (-1, -2):
                ops.append("xcoef %d %d %d %d %d 0" % (prec, mode, val, pos, rng.choice([60, 100, 150])))
    for i in range(3000 if big else 400):
        kind = rng.choice(["tj", "tj", "std"])
        alloc = rng.randint(0, 1) if kind == "tj" else 1
        ops.append(dest_op(rng, kind, alloc, rng.choice([1, 1, 2, 3])))
    # worst-case-size clause on the real compressor
    for i in range(400 if big else 60):
        lossless = rng.random() < .4
        prec = rng.choice([8, 8, 12, 16, 2, 5, 10, 15]) if lossless else rng.choice([8, 8, 12])
        w = rng.choice([1, 2, 7, 8, 9, 16, 17, 31, 33, 48, 64]); h = rng.choice([1, 2, 7, 8, 9, 16, 17, 31, 33, 48, 64])
        if big and rng.random() < .2:
            w, h = rng.choice([(128, 128), (200, 100), (256, 64)])
        ss = rng.choice([0, 1, 2, 3, 4, 5, 6]) if not lossless else rng.choice([0, 3])
        q = rng.choice([100, 100, 100, 99, 95, 75, 1])
        kind = rng.choice([0, 0, 0, 1, 2, 3, 4])
        arith = 0 if lossless else int(rng.random() < .15)
        prog = 0 if lossless else int(rng.random() < .25)
        opt = 0 if arith else int(rng.random() < .3)
        rst = rng.choice([0, 0, 0, 1, 2])
        ops.append("wcase prec=%d lossless=%d %d %d %d %d %d %d %d %d %d %d" % (
            prec, int(lossless), w, h, ss, q, kind, rng.randrange(1 << 30), opt, prog, arith, rst))
    # every capacity 1..size+4 of small JPEGs, with and without an ICC profile (whose chunk data is copied in bulk), both allocation modes
    for i in range(40 if big else 8):
        icclen = rng.choice([0, 0, 1, 100, 700, 3000, 4058, rng.randint(1, 5000)])
        ops.append("capsweep %d %d %d %d %d %d" % (rng.choice([8, 16, 24]), rng.choice([8, 16]), rng.choice([100, 90, 50]), icclen, rng.randrange(1 << 30), rng.choice([0, 0, 2])))
    # the allocator returns the address of a buffer the caller has freed (D38)
    for i in range(40 if big else 8):
        ops.append("aba %d %d %d %d %d" % (rng.choice([16, 24, 33, 48]), rng.choice([16, 24, 31]), rng.choice([100, 95, 75]), rng.randrange(1 << 30), rng.choice([0, 1, 1, 2, 17, 200])))
    # D3 witness classes (known finding): 16-bit lossless, worst-case differences / noise
    ops.append("wcase prec=16 lossless=1 400 400 0 100 0 5 0 0 0 0")
    ops.append("wcase prec=15 lossless=1 64 64 0 100 2 7 0 0 0 0")
    return ops


def search(ctx, failing_ops):
    from .. import common as C
    import random
    rng = random.Random("search/%s" % ctx["seed"])
    ops = list(failing_ops) + gen_ops(rng, "quick")
    found = []
    for v, exe in ctx["exes"].items():
        res, _ = C.run_exec(exe, ops)
        for op, (R, O) in zip(ops, res):
            if O and O.startswith("fail"):
                found.append((v, op, R, O))
    return found


MANIFEST = {
    "text": ("Kernel-checked Lean theorems over the destination-manager state machine (both jpeg_mem_dest_tj and jpeg_mem_dest): for "
             "every client write sequence the stored-bytes < capacity invariant holds (no store outside the buffer), the returned "
             "size/contents are exactly the bytes written, with reallocation disabled success implies size < capacity and the "
             "buffer-size error occurs exactly on overflow, with reallocation enabled output never fails for any initial capacity, "
             "reuse keeps the true capacity. Tied to the real managers step by step (free_in_buffer, growth count, size, content). "
             "The worst-case-size clause is decided by an oracle on the real compressor; it is false for lossless precision>12 (known finding D3)."),
    "design_ref": "DESIGN.md 6.13",
    "note": ("Trusted: Lean kernel; axioms propext, Quot.sound, Classical.choice; hand model of the two managers (tied by correspondence); "
             "the client protocol assumption 'direct block stores are < 512 bytes and only when free >= 512' is C17's block bound; "
             "worst-case clause not proved (oracle + known finding)."),
    "technique": "Lean 4 proof (induction over client operation sequences) + step-level model/code correspondence",
}
