import LJT.Model.Nbits
/-! kernel-evaluated check of entries 49152..57343 of the regenerated nbits table -/
namespace LJT
theorem nbits_chunk_S6 : checkRange nbitsTblSimd nbitsSpec 14 49152 8192 = true := by decide +kernel
end LJT
