/* C07: lossy round trip (accurate integer DCT, no subsampling, no colour transform).
 * The static functions of jcdctmgr.c (compute_reciprocal, quantize) are reached by
 * including the source file itself under a renamed init entry point. */
#include "exec_common.h"
#include <math.h>
#define jinit_forward_dct c07_unused_jinit_forward_dct
#include "jcdctmgr.c"
#undef jinit_forward_dct

static unsigned long long c07_mix(unsigned long long x)
{
  x += 0x9E3779B97F4A7C15ULL;
  x = (x ^ (x >> 30)) * 0xBF58476D1CE4E5B9ULL;
  x = (x ^ (x >> 27)) * 0x94D049BB133111EBULL;
  return x ^ (x >> 31);
}

static int c07_sample(unsigned long long seed, int kind, int max, int c, int x, int y)
{
  int M = max + 1;
  switch (kind) {
  case 0: return (int)(c07_mix(seed * 1000003ULL + (unsigned long long)c * 7919ULL + (unsigned long long)y * 104729ULL + (unsigned long long)x) % (unsigned long long)M);
  case 1: return (int)(c07_mix(seed + (unsigned long long)c) % (unsigned long long)M);
  case 2: {
    int lo = (int)(c07_mix(seed) % (unsigned long long)M), hi = (int)(c07_mix(seed + 1ULL) % (unsigned long long)M);
    return ((x / 3 + y / 5 + c) % 2 == 0) ? lo : hi;
  }
  case 3: return (int)((((unsigned long long)x * (1ULL + seed % 7ULL) + (unsigned long long)y * (1ULL + seed % 5ULL)) * (unsigned long long)M / 64ULL + (unsigned long long)c * 17ULL) % (unsigned long long)M);
  case 4: return ((x + y + c) & 1) ? max : 0;
  case 5: {
    int v = M / 2 + (((x * 3 + y * 2) % 64) - 32) * M / 256 + (int)(c07_mix(seed + (unsigned long long)y * 4099ULL + (unsigned long long)x * 3ULL + (unsigned long long)c) % 5ULL) - 2;
    return v < 0 ? 0 : v > max ? max : v;
  }
  default: return ((seed + (unsigned long long)c) & 1ULL) ? max : 0;
  }
}

/* table formula; tkind 1 (quality) is handled by the caller */
static unsigned c07_quant(unsigned long long ts, int tkind, int t, int k)
{
  unsigned long long h = c07_mix(ts * 4096ULL + (unsigned long long)t * 64ULL + (unsigned long long)k);
  switch (tkind) {
  case 0: return 1;
  case 2: return 1 + (unsigned)(h % 255ULL);
  case 3: { unsigned e = (unsigned)(h % 15ULL); return (1u << e) + (unsigned)((h >> 8) % (unsigned long long)(1u << e)); }
  case 4: return (h % 8ULL == 0) ? 1000 + (unsigned)((h >> 8) % 31768ULL) : 1 + (unsigned)((h >> 8) % 20ULL);
  case 5: { static const unsigned sp[10] = { 255, 256, 257, 8191, 8192, 8193, 16384, 32767, 1, 2 }; return sp[h % 10ULL]; }
  default: return ((unsigned long long)k == ts % 64ULL) ? 256 : 1 + (unsigned)(h % 256ULL);
  }
}

static void c07_fnv16(unsigned long long *h, int v)
{
  *h ^= (unsigned long long)(v & 255); *h *= 1099511628211ULL;
  *h ^= (unsigned long long)((v >> 8) & 255); *h *= 1099511628211ULL;
}

/* recip W dlo dhi : digest of the divisor-table entries of every divisor in [dlo, dhi) */
static int c07_recip(toks_t *t)
{
  long W = tl(t, 1), lo = tl(t, 2), hi = tl(t, 3), d;
  unsigned long long h = 14695981039346656037ULL;
  if (W != (long)sizeof(DCTELEM) * 8) { printf("R skip\n"); return 1; }
  for (d = lo; d < hi; d++) {
    DCTELEM tb[DCTSIZE2 * 4];
    memset(tb, 0, sizeof(tb));
    compute_reciprocal((unsigned int)d, tb);
    {
      unsigned long long rc = (unsigned long long)(UDCTELEM)tb[0], co = (unsigned long long)(UDCTELEM)tb[DCTSIZE2], sh = (unsigned long long)((long)tb[DCTSIZE2 * 3] + W);
      int i;
      for (i = 0; i < 4; i++) { h ^= (rc >> (8 * i)) & 255; h *= 1099511628211ULL; }
      for (i = 0; i < 4; i++) { h ^= (co >> (8 * i)) & 255; h *= 1099511628211ULL; }
      h ^= sh & 255; h *= 1099511628211ULL;
    }
  }
  printf("R %llu\n", h);
  return 1;
}

/* quant W d w... : quantize() with the divisor table of d (up to 64 values) */
static int c07_quantop(toks_t *t)
{
  long W = tl(t, 1), d = tl(t, 2); int n = t->n - 3, i, simd_ok;
  DCTELEM __attribute__((aligned(32))) tb[DCTSIZE2 * 4]; DCTELEM __attribute__((aligned(32))) ws[DCTSIZE2];
  JCOEF __attribute__((aligned(32))) out[DCTSIZE2];
  if (W != (long)sizeof(DCTELEM) * 8) { printf("R skip\n"); return 1; }
  if (n > 64) n = 64;
  memset(tb, 0, sizeof(tb)); memset(ws, 0, sizeof(ws));
  simd_ok = 1;
  for (i = 0; i < DCTSIZE2; i++) if (!compute_reciprocal((unsigned int)d, &tb[i])) simd_ok = 0;
  for (i = 0; i < n; i++) ws[i] = (DCTELEM)tl(t, 3 + i);
  quantize(out, tb, ws);
  printf("R");
  for (i = 0; i < n; i++) printf(" %d", (int)out[i]);
  printf("\n");
#ifdef WITH_SIMD
  if (simd_ok && jsimd_can_quantize()) {
    JCOEF __attribute__((aligned(32))) out2[DCTSIZE2];
    jsimd_quantize(out2, tb, ws);
    for (i = 0; i < n; i++) if (out2[i] != out[i]) { printf("O fail quant d=%ld w=%d: SIMD quantize gives %d, C quantize %d\n", d, (int)ws[i], (int)out2[i], (int)out[i]); break; }
  }
#endif
  return 1;
}

typedef struct { int prec, nc, w, h; int *img; unsigned q[4][64]; int ntbl; int quality; } c07_job;

static int c07_compress(c07_job *j, unsigned char **out, unsigned long *outsize, int *err)
{
  struct jpeg_compress_struct c; my_err_t e; int ci, t, y, x;
  void *row = NULL;
  c.err = my_err_init(&e);
  jpeg_create_compress(&c);
  if (setjmp(e.jb)) { *err = e.code; jpeg_destroy_compress(&c); free(row); return 0; }
  jpeg_mem_dest(&c, out, outsize);
  c.image_width = (JDIMENSION)j->w; c.image_height = (JDIMENSION)j->h; c.input_components = j->nc;
  c.in_color_space = j->nc == 1 ? JCS_GRAYSCALE : j->nc == 3 ? JCS_RGB : JCS_CMYK;
  jpeg_set_defaults(&c);
  c.data_precision = j->prec;
  jpeg_set_colorspace(&c, c.in_color_space);
  c.dct_method = JDCT_ISLOW;
  if (j->quality >= 0) jpeg_set_quality(&c, j->quality, FALSE);
  else for (t = 0; t < j->ntbl; t++) jpeg_add_quant_table(&c, t, j->q[t], 100, FALSE);
  for (ci = 0; ci < j->nc; ci++) { c.comp_info[ci].quant_tbl_no = ci % j->ntbl; c.comp_info[ci].h_samp_factor = c.comp_info[ci].v_samp_factor = 1; }
  jpeg_start_compress(&c, TRUE);
  if (j->prec == 8) {
    JSAMPLE *r = (JSAMPLE *)(row = malloc((size_t)j->w * j->nc));
    for (y = 0; y < j->h; y++) {
      JSAMPROW rp = r;
      for (x = 0; x < j->w * j->nc; x++) r[x] = (JSAMPLE)j->img[(size_t)y * j->w * j->nc + x];
      jpeg_write_scanlines(&c, &rp, 1);
    }
  } else {
    J12SAMPLE *r = (J12SAMPLE *)(row = malloc((size_t)j->w * j->nc * sizeof(J12SAMPLE)));
    for (y = 0; y < j->h; y++) {
      J12SAMPROW rp = r;
      for (x = 0; x < j->w * j->nc; x++) r[x] = (J12SAMPLE)j->img[(size_t)y * j->w * j->nc + x];
      jpeg12_write_scanlines(&c, &rp, 1);
    }
  }
  jpeg_finish_compress(&c);
  jpeg_destroy_compress(&c);
  free(row);
  return 1;
}

/* decode to interleaved ints; also returns the tables the decoder read from the file */
static int c07_decode(c07_job *j, const unsigned char *jp, unsigned long n, int *dec, unsigned dq[4][64], int *warn, int *err)
{
  struct jpeg_decompress_struct d; my_err_t e; int ci, k, y, x; void *row = NULL;
  d.err = my_err_init(&e);
  jpeg_create_decompress(&d);
  if (setjmp(e.jb)) { *err = e.code; jpeg_destroy_decompress(&d); free(row); return 0; }
  jpeg_mem_src(&d, jp, n);
  jpeg_read_header(&d, TRUE);
  d.dct_method = JDCT_ISLOW;
  d.out_color_space = d.jpeg_color_space;
  if ((int)d.image_width != j->w || (int)d.image_height != j->h || d.num_components != j->nc || d.data_precision != j->prec) { *err = -2; jpeg_destroy_decompress(&d); return 0; }
  for (ci = 0; ci < j->nc; ci++) {
    JQUANT_TBL *qt = d.quant_tbl_ptrs[d.comp_info[ci].quant_tbl_no];
    for (k = 0; k < 64; k++) dq[ci][k] = qt ? qt->quantval[k] : 0;
  }
  jpeg_start_decompress(&d);
  if (j->prec == 8) {
    JSAMPLE *r = (JSAMPLE *)(row = malloc((size_t)j->w * j->nc));
    for (y = 0; y < j->h; y++) {
      JSAMPROW rp = r;
      if (jpeg_read_scanlines(&d, &rp, 1) != 1) { *err = -3; break; }
      for (x = 0; x < j->w * j->nc; x++) dec[(size_t)y * j->w * j->nc + x] = r[x];
    }
  } else {
    J12SAMPLE *r = (J12SAMPLE *)(row = malloc((size_t)j->w * j->nc * sizeof(J12SAMPLE)));
    for (y = 0; y < j->h; y++) {
      J12SAMPROW rp = r;
      if (jpeg12_read_scanlines(&d, &rp, 1) != 1) { *err = -3; break; }
      for (x = 0; x < j->w * j->nc; x++) dec[(size_t)y * j->w * j->nc + x] = r[x];
    }
  }
  jpeg_finish_decompress(&d);
  *warn = (int)e.nwarn;
  jpeg_destroy_decompress(&d);
  free(row);
  return 1;
}

/* coefficient digest: component-major, block rows, blocks, natural order */
static int c07_coefs(const unsigned char *jp, unsigned long n, unsigned long long *hash, int *first, int nfirst)
{
  struct jpeg_decompress_struct d; my_err_t e; jvirt_barray_ptr *arr; int ci, k, got = 0;
  unsigned long long h = 14695981039346656037ULL;
  d.err = my_err_init(&e);
  jpeg_create_decompress(&d);
  if (setjmp(e.jb)) { jpeg_destroy_decompress(&d); return 0; }
  jpeg_mem_src(&d, jp, n);
  jpeg_read_header(&d, TRUE);
  arr = jpeg_read_coefficients(&d);
  for (ci = 0; ci < d.num_components; ci++) {
    jpeg_component_info *cp = &d.comp_info[ci]; JDIMENSION by, bx;
    for (by = 0; by < cp->height_in_blocks; by++) {
      JBLOCKARRAY ba = (*d.mem->access_virt_barray) ((j_common_ptr)&d, arr[ci], by, 1, FALSE);
      for (bx = 0; bx < cp->width_in_blocks; bx++)
        for (k = 0; k < 64; k++) { c07_fnv16(&h, ba[0][bx][k]); if (got < nfirst) first[got++] = ba[0][bx][k]; }
    }
  }
  jpeg_finish_decompress(&d);
  jpeg_destroy_decompress(&d);
  *hash = h;
  return 1;
}

static void c07_oracle(const char *what, c07_job *j, const int *dec, unsigned dq[4][64], int constant)
{
  int ci, by, bx, k, hb = (j->h + 7) / 8, wb = (j->w + 7) / 8;
  for (ci = 0; ci < j->nc; ci++) {
    double s = 0, B;
    for (k = 0; k < 64; k++) { double v = dq[ci][k] / 2.0 + 0.5; s += v * v; }
    B = sqrt(s / 64.0) + 1.0;
    for (by = 0; by < hb; by++) for (bx = 0; bx < wb; bx++) {
      double se = 0; int maxe = 0, r, c;
      for (r = 0; r < 8; r++) for (c = 0; c < 8; c++) {
        int y = by * 8 + r, x = bx * 8 + c, dlt;
        if (y >= j->h || x >= j->w) continue;
        dlt = dec[((size_t)y * j->w + x) * j->nc + ci] - j->img[((size_t)y * j->w + x) * j->nc + ci];
        se += (double)dlt * dlt; if (abs(dlt) > maxe) maxe = abs(dlt);
      }
      if (se > 64.0 * B * B * (1 + 1e-9)) {
        printf("O fail %s: component %d block (%d,%d): squared error %.0f exceeds 64*(sqrt(sum((q/2+0.5)^2)/64)+1)^2 = %.1f for the tables in the file (q0=%u)\n", what, ci, by, bx, se, 64.0 * B * B, dq[ci][0]);
        return;
      }
      if (constant && maxe > (int)((dq[ci][0] + 15) / 16) + 1) {
        printf("O fail %s: constant image, component %d block (%d,%d): error %d exceeds ceil(q0/16)+1 with q0=%u\n", what, ci, by, bx, maxe, dq[ci][0]);
        return;
      }
    }
  }
  printf("O ok\n");
}

/* rt prec nc w h imgseed kind tseed tkind ntbl */
static int c07_rt(toks_t *t)
{
  c07_job j; unsigned long long iseed = (unsigned long long)tll(t, 5), ts = (unsigned long long)tll(t, 7);
  int kind = (int)tl(t, 6), tkind = (int)tl(t, 8), x, y, c, k, tb, err = 0, warn = 0;
  unsigned char *jp = NULL; unsigned long jn = 0; int *dec; unsigned dq[4][64]; unsigned long long ch = 0, sh = 14695981039346656037ULL;
  int ci, by, bx;
  memset(&j, 0, sizeof(j));
  j.prec = (int)tl(t, 1); j.nc = (int)tl(t, 2); j.w = (int)tl(t, 3); j.h = (int)tl(t, 4); j.ntbl = (int)tl(t, 9);
  j.quality = tkind == 1 ? 1 + (int)(ts % 100ULL) : -1;
  if (tkind == 1 && j.ntbl > 2) j.ntbl = 2;
  j.img = (int *)malloc(sizeof(int) * (size_t)j.w * j.h * j.nc);
  dec = (int *)calloc((size_t)j.w * j.h * j.nc, sizeof(int));
  for (y = 0; y < j.h; y++) for (x = 0; x < j.w; x++) for (c = 0; c < j.nc; c++)
    j.img[((size_t)y * j.w + x) * j.nc + c] = c07_sample(iseed, kind, (1 << j.prec) - 1, c, x, y);
  for (tb = 0; tb < j.ntbl; tb++) for (k = 0; k < 64; k++) j.q[tb][k] = c07_quant(ts, tkind, tb, k);
  if (!c07_compress(&j, &jp, &jn, &err)) { printf("R err compress %d\n", err); printf("O fail rt: compressor rejected a valid request (code %d)\n", err); goto done; }
  if (!c07_coefs(jp, jn, &ch, NULL, 0)) { printf("R err readcoef\n"); printf("O fail rt: own output not readable\n"); goto done; }
  if (!c07_decode(&j, jp, jn, dec, dq, &warn, &err)) { printf("R err decode %d\n", err); printf("O fail rt: own output not decodable (%d)\n", err); goto done; }
  for (ci = 0; ci < j.nc; ci++) for (by = 0; by < (j.h + 7) / 8; by++) for (bx = 0; bx < (j.w + 7) / 8; bx++)
    for (k = 0; k < 64; k++) {
      int yy = by * 8 + k / 8, xx = bx * 8 + k % 8;
      if (yy < j.h && xx < j.w) c07_fnv16(&sh, dec[((size_t)yy * j.w + xx) * j.nc + ci]);
    }
  printf("R %llu %llu w%d\n", ch, sh, warn);
  c07_oracle("rt", &j, dec, dq, kind == 1 || kind == 6);
done:
  free(jp); free(j.img); free(dec);
  return 1;
}


/* rtseq nc w h iseed kind nimg qseed : several images through ONE compression object and ONE decompression object (8-bit).  The first
 * is a complete file; the others are abbreviated images (jpeg_start_compress(FALSE)) written after the quantisation tables have been
 * redefined (jpeg_set_quality / jpeg_add_quant_table), optionally preceded by a tables-only datastream.  The decoder keeps its tables
 * between images, as documented.  Every image must satisfy the error bound for the tables the decoder holds, and those tables must be
 * the ones the compressor quantised with. */
static int c07_rtseq(toks_t *t)
{
  struct jpeg_compress_struct c; struct jpeg_decompress_struct d; my_err_t ec, ed; c07_job j;
  unsigned long long iseed = (unsigned long long)tll(t, 4), qs = (unsigned long long)tll(t, 7);
  int kind = (int)tl(t, 5), nimg = (int)tl(t, 6), im, x, y, ci, k, ok = 1; int *dec = NULL; JSAMPLE *row = NULL;
  unsigned char *bufs[8] = { 0 }; unsigned long lens[8] = { 0 }; unsigned dq[4][64];
  memset(&j, 0, sizeof(j));
  j.prec = 8; j.nc = (int)tl(t, 1); j.w = (int)tl(t, 2); j.h = (int)tl(t, 3); j.ntbl = 1;
  if (nimg > 4) nimg = 4;
  j.img = (int *)malloc(sizeof(int) * (size_t)j.w * j.h * j.nc);
  dec = (int *)calloc((size_t)j.w * j.h * j.nc, sizeof(int));
  row = (JSAMPLE *)malloc((size_t)j.w * j.nc);
  c.err = my_err_init(&ec); d.err = my_err_init(&ed);
  jpeg_create_compress(&c); jpeg_create_decompress(&d);
  if (setjmp(ec.jb)) { printf("R err compress %d\n", ec.code); printf("O fail rtseq: compressor rejected a valid request (code %d)\n", ec.code); goto done; }
  if (setjmp(ed.jb)) { printf("R err decode %d\n", ed.code); printf("O fail rtseq: own output not decodable (code %d)\n", ed.code); goto done; }
  c.image_width = (JDIMENSION)j.w; c.image_height = (JDIMENSION)j.h; c.input_components = j.nc;
  c.in_color_space = j.nc == 1 ? JCS_GRAYSCALE : JCS_RGB;
  jpeg_set_defaults(&c);
  jpeg_set_colorspace(&c, c.in_color_space);
  c.dct_method = JDCT_ISLOW;
  for (ci = 0; ci < j.nc; ci++) { c.comp_info[ci].quant_tbl_no = 0; c.comp_info[ci].h_samp_factor = c.comp_info[ci].v_samp_factor = 1; }
  printf("R seq");
  for (im = 0; im < nimg && ok; im++) {
    unsigned long long h = c07_mix(qs + (unsigned long long)im * 977ULL);
    int how = (int)(h % 3ULL), tablesfirst = im > 0 && ((h >> 8) & 1ULL);
    unsigned cq[64];
    for (y = 0; y < j.h; y++) for (x = 0; x < j.w; x++) for (ci = 0; ci < j.nc; ci++)
      j.img[((size_t)y * j.w + x) * j.nc + ci] = c07_sample(iseed + (unsigned long long)im, kind, 255, ci, x, y);
    /* redefine table 0 */
    if (how == 0) jpeg_set_quality(&c, 1 + (int)((h >> 16) % 100ULL), FALSE);
    else if (how == 1) { unsigned q[64]; for (k = 0; k < 64; k++) q[k] = 1 + (unsigned)((h >> 20) % 60ULL) + (unsigned)k % 5; jpeg_add_quant_table(&c, 0, q, 100, FALSE); }
    else jpeg_set_linear_quality(&c, 10 + (int)((h >> 16) % 400ULL), FALSE);
    for (k = 0; k < 64; k++) cq[k] = c.quant_tbl_ptrs[0]->quantval[k];
    jpeg_mem_dest(&c, &bufs[im * 2], &lens[im * 2]);
    if (tablesfirst) { jpeg_write_tables(&c); jpeg_mem_dest(&c, &bufs[im * 2 + 1], &lens[im * 2 + 1]); }
    jpeg_start_compress(&c, im == 0 ? TRUE : FALSE);
    for (y = 0; y < j.h; y++) {
      JSAMPROW rp = row;
      for (x = 0; x < j.w * j.nc; x++) row[x] = (JSAMPLE)j.img[(size_t)y * j.w * j.nc + x];
      jpeg_write_scanlines(&c, &rp, 1);
    }
    jpeg_finish_compress(&c);
    /* decode with the persistent decompressor */
    if (tablesfirst) {
      jpeg_mem_src(&d, bufs[im * 2], lens[im * 2]);
      if (jpeg_read_header(&d, FALSE) != JPEG_HEADER_TABLES_ONLY) { printf("\nO fail rtseq: tables-only datastream not recognised\n"); ok = 0; break; }
      jpeg_mem_src(&d, bufs[im * 2 + 1], lens[im * 2 + 1]);
    } else jpeg_mem_src(&d, bufs[im * 2], lens[im * 2]);
    jpeg_read_header(&d, TRUE);
    d.dct_method = JDCT_ISLOW; d.out_color_space = d.jpeg_color_space;
    for (ci = 0; ci < j.nc; ci++) { JQUANT_TBL *qt = d.quant_tbl_ptrs[d.comp_info[ci].quant_tbl_no]; for (k = 0; k < 64; k++) dq[ci][k] = qt ? qt->quantval[k] : 0; }
    jpeg_start_decompress(&d);
    for (y = 0; y < j.h; y++) {
      JSAMPROW rp = row;
      if (jpeg_read_scanlines(&d, &rp, 1) != 1) break;
      for (x = 0; x < j.w * j.nc; x++) dec[(size_t)y * j.w * j.nc + x] = row[x];
    }
    jpeg_finish_decompress(&d);
    printf(" %lu", lens[im * 2] + lens[im * 2 + 1]);
    for (k = 0; k < 64 && ok; k++) if (dq[0][k] != cq[k]) {
      printf("\nO fail rtseq: image %d of the sequence (%s%s): the decoder holds quantisation step %u at index %d, the compressor used %u\n", im,
             im ? "abbreviated" : "complete", tablesfirst ? ", after a tables-only datastream" : "", dq[0][k], k, cq[k]);
      ok = 0;
    }
    if (ok) {
      /* error bound for the tables the decoder holds */
      int by, bx, hb = (j.h + 7) / 8, wb = (j.w + 7) / 8;
      for (ci = 0; ci < j.nc && ok; ci++) {
        double s = 0, B;
        for (k = 0; k < 64; k++) { double v = dq[ci][k] / 2.0 + 0.5; s += v * v; }
        B = sqrt(s / 64.0) + 1.0;
        for (by = 0; by < hb && ok; by++) for (bx = 0; bx < wb && ok; bx++) {
          double se = 0; int r, cc;
          for (r = 0; r < 8; r++) for (cc = 0; cc < 8; cc++) {
            int yy = by * 8 + r, xx = bx * 8 + cc, dlt;
            if (yy >= j.h || xx >= j.w) continue;
            dlt = dec[((size_t)yy * j.w + xx) * j.nc + ci] - j.img[((size_t)yy * j.w + xx) * j.nc + ci];
            se += (double)dlt * dlt;
          }
          if (se > 64.0 * B * B * (1 + 1e-9)) { printf("\nO fail rtseq: image %d, component %d block (%d,%d): squared error %.0f exceeds the bound %.1f for the tables the decoder holds\n", im, ci, by, bx, se, 64.0 * B * B); ok = 0; }
        }
      }
    }
  }
  if (ok) printf("\nO ok\n");
done:
  jpeg_destroy_compress(&c); jpeg_destroy_decompress(&d);
  for (k = 0; k < 8; k++) free(bufs[k]);
  free(j.img); free(dec); free(row);
  return 1;
}

/* blk prec q0..q63 s0..s63 : one gray block, explicit coefficients and decoded samples */
static int c07_blk(toks_t *t)
{
  c07_job j; int k, err = 0, warn = 0, first[64]; unsigned char *jp = NULL; unsigned long jn = 0; int dec[64]; unsigned dq[4][64]; unsigned long long ch;
  memset(&j, 0, sizeof(j));
  if (t->n < 2 + 128) return 0;
  j.prec = (int)tl(t, 1); j.nc = 1; j.w = 8; j.h = 8; j.ntbl = 1; j.quality = -1;
  j.img = (int *)malloc(sizeof(int) * 64);
  for (k = 0; k < 64; k++) { j.q[0][k] = (unsigned)tl(t, 2 + k); j.img[k] = (int)tl(t, 66 + k); }
  if (!c07_compress(&j, &jp, &jn, &err)) { printf("R err compress %d\n", err); goto done; }
  if (!c07_coefs(jp, jn, &ch, first, 64)) { printf("R err readcoef\n"); goto done; }
  if (!c07_decode(&j, jp, jn, dec, dq, &warn, &err)) { printf("R err decode %d\n", err); goto done; }
  printf("R");
  for (k = 0; k < 64; k++) printf(" %d", first[k]);
  printf(" |");
  for (k = 0; k < 64; k++) printf(" %d", dec[k]);
  printf("\n");
  c07_oracle("blk", &j, dec, dq, 0);
done:
  free(jp); free(j.img);
  return 1;
}

static int dispatch_c07(toks_t *t)
{
  if (!strcmp(t->tok[0], "rtseq") && t->n >= 8) return c07_rtseq(t);
  if (!strcmp(t->tok[0], "recip")) return c07_recip(t);
  if (!strcmp(t->tok[0], "quant")) return c07_quantop(t);
  if (!strcmp(t->tok[0], "rt")) return c07_rt(t);
  if (!strcmp(t->tok[0], "blk")) return c07_blk(t);
  return 0;
}
