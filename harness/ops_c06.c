/* C06 operations: lossless transforms on a JPEG whose coefficients are given by a formula
 * shared with the Lean model; output dissected into dims, sampling, quant tables, blocks */
#include "exec_common.h"

static int c06_coef(unsigned long long seed, int ci, int by, int bx, int k)
{
  unsigned long long v = (seed + 1ULL) * (unsigned long long)(ci * 7 + by * 131 + bx * 17 + k * 3 + 11) * 40503ULL / 64ULL;
  int r = (int)(v % 41ULL) - 20;
  if (k > 20 && (v & 3ULL)) r = 0;          /* sparse high frequencies */
  return r;
}
static int c06_quant(int tbl, int k) { return 1 + ((k * 7 + tbl * 3) % 50) + (k == 10 ? 300 * tbl : 0); }

static void ss_factors(int ss, int *h, int *v)
{
  static const int hh[7] = { 1, 2, 2, 1, 1, 4, 1 }, vv[7] = { 1, 1, 2, 1, 2, 1, 4 };
  if (ss >= 10) { *h = ss / 10; *v = ss % 10; } else { *h = hh[ss]; *v = vv[ss]; }
}

/* build the source JPEG from the coefficient formula */
static int c06_build(int ss, int w, int h, unsigned long long seed, int srcprog, unsigned char **out, unsigned long *outsize, int *err)
{
  struct jpeg_compress_struct c; my_err_t e; int ci, nc = ss == 3 ? 1 : 3, hs, vs, t, k;
  jvirt_barray_ptr arrays[3];
  c.err = my_err_init(&e);
  jpeg_create_compress(&c);
  if (setjmp(e.jb)) { *err = e.code; jpeg_destroy_compress(&c); return 0; }
  jpeg_mem_dest(&c, out, outsize);
  c.image_width = w; c.image_height = h; c.input_components = nc; c.in_color_space = nc == 1 ? JCS_GRAYSCALE : JCS_YCbCr;
  jpeg_set_defaults(&c);
  ss_factors(ss, &hs, &vs);
  c.comp_info[0].h_samp_factor = hs; c.comp_info[0].v_samp_factor = vs;
  for (t = 0; t < (nc == 1 ? 1 : 2); t++) {
    unsigned int q[64];
    for (k = 0; k < 64; k++) q[k] = (unsigned)c06_quant(t, k);
    jpeg_add_quant_table(&c, t, q, 100, FALSE);
  }
  if (srcprog) jpeg_simple_progression(&c);
  c.optimize_coding = TRUE;
  for (ci = 0; ci < nc; ci++) {
    int chs = ci ? 1 : hs, cvs = ci ? 1 : vs;
    JDIMENSION wb = (JDIMENSION)((((long)w * chs + hs * 8 - 1) / (hs * 8))), hb = (JDIMENSION)((((long)h * cvs + vs * 8 - 1) / (vs * 8)));
    JDIMENSION pwb = (wb + chs - 1) / chs * chs, phb = (hb + cvs - 1) / cvs * cvs;
    arrays[ci] = (*c.mem->request_virt_barray) ((j_common_ptr)&c, JPOOL_IMAGE, TRUE, pwb, phb, (JDIMENSION)cvs);
  }
  jpeg_write_coefficients(&c, arrays);
  for (ci = 0; ci < nc; ci++) {
    int chs = ci ? 1 : hs, cvs = ci ? 1 : vs;
    JDIMENSION wb = (JDIMENSION)((((long)w * chs + hs * 8 - 1) / (hs * 8))), hb = (JDIMENSION)((((long)h * cvs + vs * 8 - 1) / (vs * 8))), by, bx;
    for (by = 0; by < hb; by++) {
      JBLOCKARRAY ba = (*c.mem->access_virt_barray) ((j_common_ptr)&c, arrays[ci], by, 1, TRUE);
      for (bx = 0; bx < wb; bx++) for (k = 0; k < 64; k++) ba[0][bx][k] = (JCOEF)c06_coef(seed, ci, (int)by, (int)bx, k);
    }
  }
  jpeg_finish_compress(&c);
  jpeg_destroy_compress(&c);
  return 1;
}

/* print "WxH nc | per comp: h v tq wbxhb qfnv bfnv" ; returns coefficient arrays hash */
static int c06_dissect(const unsigned char *j, unsigned long n, char *buf, size_t bufsz)
{
  struct jpeg_decompress_struct d; my_err_t e; jvirt_barray_ptr *arr; int ci; size_t pos = 0;
  d.err = my_err_init(&e);
  jpeg_create_decompress(&d);
  if (setjmp(e.jb)) { snprintf(buf, bufsz, "readerr %d", e.code); jpeg_destroy_decompress(&d); return 0; }
  jpeg_mem_src(&d, j, n);
  jpeg_read_header(&d, TRUE);
  arr = jpeg_read_coefficients(&d);
  pos += snprintf(buf + pos, bufsz - pos, "%ux%u nc%d", d.image_width, d.image_height, d.num_components);
  for (ci = 0; ci < d.num_components; ci++) {
    jpeg_component_info *cp = &d.comp_info[ci]; JDIMENSION by, bx; unsigned long long hq = 14695981039346656037ULL, hb = 14695981039346656037ULL; int k;
    for (k = 0; k < 64; k++) { unsigned v = cp->quant_table ? cp->quant_table->quantval[k] : d.quant_tbl_ptrs[cp->quant_tbl_no]->quantval[k]; hq ^= (v & 255); hq *= 1099511628211ULL; hq ^= (v >> 8); hq *= 1099511628211ULL; }
    for (by = 0; by < cp->height_in_blocks; by++) {
      JBLOCKARRAY ba = (*d.mem->access_virt_barray) ((j_common_ptr)&d, arr[ci], by, 1, FALSE);
      for (bx = 0; bx < cp->width_in_blocks; bx++) for (k = 0; k < 64; k++) { unsigned v = (unsigned)(ba[0][bx][k] & 0xFFFF); hb ^= (v & 255); hb *= 1099511628211ULL; hb ^= (v >> 8); hb *= 1099511628211ULL; }
    }
    pos += snprintf(buf + pos, bufsz - pos, " | %d %d %ux%u q%llu b%llu", cp->h_samp_factor, cp->v_samp_factor, cp->width_in_blocks, cp->height_in_blocks, hq, hb);
  }
  if (e.nwarn) pos += snprintf(buf + pos, bufsz - pos, " warn%d", e.nwarn);
  jpeg_finish_decompress(&d);
  jpeg_destroy_decompress(&d);
  return 1;
}

/* xform <op> <ss> <w> <h> <opts> <cx> <cy> <cw> <ch> <seed> <srcprog>
 * op: TJXOP 0..7 ; opts: TJXOPT bit mask (perfect 1, trim 2, crop 4, gray 8, progressive 32, arithmetic 128, optimize 256) */
static int op_xform(toks_t *t)
{
  int op = (int)tl(t, 1), ss = (int)tl(t, 2), w = (int)tl(t, 3), h = (int)tl(t, 4), opts = (int)tl(t, 5);
  unsigned long long seed = (unsigned long long)tll(t, 10); int srcprog = (int)tl(t, 11), err = 0;
  unsigned char *src = NULL, *dst = NULL; unsigned long srcsize = 0; size_t dsize = 0;
  char buf[1200], sbuf[1200], ibuf[1200];
  tjhandle hx = tj3Init(TJINIT_TRANSFORM); tjtransform xf;
  static const int inv[8] = { TJXOP_NONE, TJXOP_HFLIP, TJXOP_VFLIP, TJXOP_TRANSPOSE, TJXOP_TRANSVERSE, TJXOP_ROT270, TJXOP_ROT180, TJXOP_ROT90 };
  if (!c06_build(ss, w, h, seed, srcprog, &src, &srcsize, &err)) { printf("R skip build %d\n", err); goto done; }
  memset(&xf, 0, sizeof(xf));
  xf.op = op; xf.options = opts | TJXOPT_COPYNONE;
  xf.r.x = (int)tl(t, 6); xf.r.y = (int)tl(t, 7); xf.r.w = (int)tl(t, 8); xf.r.h = (int)tl(t, 9);
  if (tj3Transform(hx, src, srcsize, 1, &dst, &dsize, &xf) < 0) {
    printf("R err\n");
    /* a request flagged perfect may fail; anything else failing is reported by the model comparison */
    printf("O ok\n");
    goto done;
  }
  c06_dissect(dst, (unsigned long)dsize, buf, sizeof(buf));
  printf("R %s\n", buf);
  /* trim clause on the real output: when the kept region reaches a mirrored edge that has a partial
     iMCU, trimming must remove it (the output then consists of whole iMCUs on that axis) */
  if (opts & TJXOPT_TRIM) {
    int hs0, vs0, swaps = (op == TJXOP_TRANSPOSE || op == TJXOP_TRANSVERSE || op == TJXOP_ROT90 || op == TJXOP_ROT270);
    int mirx = (op == TJXOP_HFLIP || op == TJXOP_TRANSVERSE || op == TJXOP_ROT90 || op == TJXOP_ROT180);
    int miry = (op == TJXOP_VFLIP || op == TJXOP_TRANSVERSE || op == TJXOP_ROT180 || op == TJXOP_ROT270);
    int fw = swaps ? h : w, fh = swaps ? w : h, gray1 = (opts & TJXOPT_GRAY) || ss == 3, iw, ih, ow = 0, oh = 0;
    int cx = (opts & TJXOPT_CROP) ? (int)tl(t, 6) : 0, cy = (opts & TJXOPT_CROP) ? (int)tl(t, 7) : 0;
    int cw = (opts & TJXOPT_CROP) && tl(t, 8) ? (int)tl(t, 8) : fw - cx, ch = (opts & TJXOPT_CROP) && tl(t, 9) ? (int)tl(t, 9) : fh - cy;
    ss_factors(ss, &hs0, &vs0);
    iw = gray1 ? 8 : (swaps ? vs0 : hs0) * 8; ih = gray1 ? 8 : (swaps ? hs0 : vs0) * 8;
    sscanf(buf, "%dx%d", &ow, &oh);
    if (mirx && cx + cw == fw && cw >= iw && ow % iw != 0) { printf("O fail xform op %d: trim requested but the output width %d keeps a partial iMCU (iMCU width %d)\n", op, ow, iw); goto done; }
    if (miry && cy + ch == fh && ch >= ih && oh % ih != 0) { printf("O fail xform op %d: trim requested but the output height %d keeps a partial iMCU (iMCU height %d)\n", op, oh, ih); goto done; }
  }
  /* the property's table clause, evaluated on the real output: each component's quantisation table
     is the source's, transposed iff the operation transposes */
  {
    int ci, k, nco = 0, swaps = (op == TJXOP_TRANSPOSE || op == TJXOP_TRANSVERSE || op == TJXOP_ROT90 || op == TJXOP_ROT270);
    const char *p = buf; char exp[64];
    for (ci = 0; ci < 3; ci++) {
      unsigned long long hq = 14695981039346656037ULL;
      p = strstr(p, " q"); if (!p) break;
      for (k = 0; k < 64; k++) { int sk = swaps ? (k % 8) * 8 + k / 8 : k; unsigned v = (unsigned)c06_quant(ci ? 1 : 0, sk); hq ^= (v & 255); hq *= 1099511628211ULL; hq ^= (v >> 8); hq *= 1099511628211ULL; }
      snprintf(exp, sizeof(exp), " q%llu ", hq);
      if (strncmp(p, exp, strlen(exp))) { printf("O fail xform op %d: quantisation table of component %d is not the source table%s\n", op, ci, swaps ? " transposed" : ""); goto done; }
      p += 2; nco++;
    }
    (void)nco;
  }
  /* group law on the real library: transforming back with the inverse operation restores the source
     coefficients and tables, whenever the image is made of whole iMCUs and nothing was cut */
  {
    int hs, vs; ss_factors(ss, &hs, &vs);
    if (!(opts & (TJXOPT_CROP | TJXOPT_GRAY)) && w % (hs * 8) == 0 && h % (vs * 8) == 0) {
      unsigned char *back = NULL; size_t bsize = 0; tjtransform xb;
      memset(&xb, 0, sizeof(xb)); xb.op = inv[op]; xb.options = TJXOPT_COPYNONE | TJXOPT_PERFECT;
      if (tj3Transform(hx, dst, dsize, 1, &back, &bsize, &xb) < 0) printf("O fail xform inverse transform failed: %s\n", tj3GetErrorStr(hx));
      else {
        c06_dissect(src, srcsize, sbuf, sizeof(sbuf)); c06_dissect(back, (unsigned long)bsize, ibuf, sizeof(ibuf));
        if (strcmp(sbuf, ibuf)) printf("O fail xform op %d followed by its inverse does not restore the source: %s  vs  %s\n", op, sbuf, ibuf);
        else if (op != TJXOP_NONE) {
          /* composition laws on the real library: the operation must equal two other operations applied in turn
             (rot180 = vflip o hflip, rot90 = hflip o transpose, rot270 = vflip o transpose, transverse = rot180 o transpose,
             and the same laws solved for the generators: hflip = rot180 o vflip, vflip = rot180 o hflip, transpose = vflip o rot270) */
          static const int first[8] = { 0, TJXOP_VFLIP, TJXOP_HFLIP, TJXOP_ROT270, TJXOP_TRANSPOSE, TJXOP_TRANSPOSE, TJXOP_HFLIP, TJXOP_TRANSPOSE };
          static const int second[8] = { 0, TJXOP_ROT180, TJXOP_ROT180, TJXOP_VFLIP, TJXOP_ROT180, TJXOP_HFLIP, TJXOP_VFLIP, TJXOP_VFLIP };
          unsigned char *m1 = NULL, *m2 = NULL; size_t n1 = 0, n2 = 0; tjtransform x1, x2; char cbuf[1200];
          memset(&x1, 0, sizeof(x1)); x1.op = first[op]; x1.options = TJXOPT_COPYNONE | TJXOPT_PERFECT;
          memset(&x2, 0, sizeof(x2)); x2.op = second[op]; x2.options = TJXOPT_COPYNONE | TJXOPT_PERFECT;
          if (tj3Transform(hx, src, srcsize, 1, &m1, &n1, &x1) < 0 || tj3Transform(hx, m1, n1, 1, &m2, &n2, &x2) < 0)
            printf("O fail xform composition for op %d failed: %s\n", op, tj3GetErrorStr(hx));
          else {
            c06_dissect(m2, (unsigned long)n2, cbuf, sizeof(cbuf));
            if (strcmp(buf, cbuf)) printf("O fail xform op %d differs from op %d followed by op %d on a whole-iMCU image: %s  vs  %s\n", op, first[op], second[op], buf, cbuf);
            else printf("O ok\n");
          }
          tj3Free(m1); tj3Free(m2);
        }
        else printf("O ok\n");
      }
      tj3Free(back);
    } else printf("O ok\n");
  }
done:
  free(src); tj3Free(dst); tj3Destroy(hx);
  return 1;
}

/* xformn <ss> <w> <h> <seed> <srcprog> <n> (<op> <opts>)*n : several transforms in ONE tj3Transform call (they share the source
 * coefficient arrays): every output must be what the same transform gives when it is requested alone. */
static int op_xformn(toks_t *t)
{
  int ss = (int)tl(t, 1), w = (int)tl(t, 2), h = (int)tl(t, 3), srcprog = (int)tl(t, 5), n = (int)tl(t, 6), i, err = 0, bad = 0;
  unsigned long long seed = (unsigned long long)tll(t, 4);
  unsigned char *src = NULL, *dst[4] = { 0, 0, 0, 0 }, *one = NULL; unsigned long srcsize = 0; size_t dsz[4] = { 0, 0, 0, 0 }, osz = 0;
  char a[1200], b[1200]; tjtransform xf[4]; tjhandle hx = tj3Init(TJINIT_TRANSFORM), h1 = tj3Init(TJINIT_TRANSFORM);
  if (n > 4) n = 4;
  if (!c06_build(ss, w, h, seed, srcprog, &src, &srcsize, &err)) { printf("R skip build %d\n", err); goto done; }
  memset(xf, 0, sizeof(xf));
  for (i = 0; i < n; i++) { xf[i].op = (int)tl(t, 7 + 2 * i); xf[i].options = (int)tl(t, 8 + 2 * i) | TJXOPT_COPYNONE; }
  if (tj3Transform(hx, src, srcsize, n, dst, dsz, xf) < 0) { printf("R err\n"); printf("O ok\n"); goto done; }
  printf("R multi %d\n", n);
  for (i = 0; i < n && !bad; i++) {
    tj3Free(one); one = NULL; osz = 0;
    if (tj3Transform(h1, src, srcsize, 1, &one, &osz, &xf[i]) < 0) { bad = 1; printf("O fail xformn: transform %d (op %d) fails alone but not in a call of %d: %s\n", i, xf[i].op, n, tj3GetErrorStr(h1)); break; }
    c06_dissect(dst[i], (unsigned long)dsz[i], a, sizeof(a)); c06_dissect(one, (unsigned long)osz, b, sizeof(b));
    if (strcmp(a, b)) { bad = 1; printf("O fail xformn: output %d (op %d) of a call with %d transforms differs from the same transform requested alone: %s  vs  %s\n", i, xf[i].op, n, a, b); }
  }
  if (!bad) printf("O ok\n");
done:
  free(src); for (i = 0; i < 4; i++) tj3Free(dst[i]); tj3Free(one); tj3Destroy(hx); tj3Destroy(h1);
  return 1;
}

static int dispatch_c06(toks_t *t)
{
  if (!strcmp(t->tok[0], "xformn") && t->n >= 9) return op_xformn(t);
  const char *op = t->tok[0];
  if (!strcmp(op, "xform")) return op_xform(t);
  return 0;
}
