import LJT.Model.DecompCtl
/-!
# C08 - Partial decompression equals the same region of a full decode

Full statement: a horizontal crop starting at an iMCU boundary and/or any sequence of
read/skip calls, at any scaling factor and with any options, delivers exactly the pixels
a full decompression delivers at those positions (first/last column excepted under
smooth upsampling); output dimensions are ceil(dim x M/8); a skip is honoured exactly
unless it would pass the bottom, where it stops at the last row; an invalid region is
rejected.

Proved here: the dimension formula for all 16 regenerated factors, the crop-window
arithmetic, the skip return value, the region validation.  The pixel clause (the
read/skip state machine of jdapistd.c / jdmainct.c / jdsample.c / jdmerge.c) is decided
by the `skiphist` oracle on the real decoder and is `partial`: it found three defects on
the unchanged tree (known_findings.json D15, D16; both repaired).
-/
namespace LJT.C08
open LJT.DecompCtl LJT.Gen

/-- **The 16 scaling factors are exactly k/8, k = 1..16** (table regenerated each run). -/
theorem scaling_factors_are_eighths :
    tjScalingFactors.length = 16 ∧
    (∀ k, 1 ≤ k → k ≤ 16 → ∃ f ∈ tjScalingFactors, 8 % f.2 = 0 ∧ f.1 * (8 / f.2) = k) := by
  refine ⟨by decide, ?_⟩
  intro k h1 h2
  have : k = 1 ∨ k = 2 ∨ k = 3 ∨ k = 4 ∨ k = 5 ∨ k = 6 ∨ k = 7 ∨ k = 8 ∨ k = 9 ∨ k = 10 ∨ k = 11 ∨
      k = 12 ∨ k = 13 ∨ k = 14 ∨ k = 15 ∨ k = 16 := by omega
  rcases this with rfl | rfl | rfl | rfl | rfl | rfl | rfl | rfl | rfl | rfl | rfl | rfl | rfl | rfl | rfl | rfl <;> decide

/-- **Output dimension = ceil(dim x num/denom)**: the smallest integer not below the
exact scaled size. -/
theorem output_dim_is_ceil (dim num denom : Nat) (hd : 0 < denom) :
    outputDim dim num denom * denom ≥ dim * num ∧ (outputDim dim num denom - 1) * denom < dim * num ∨
    (dim * num = 0 ∧ outputDim dim num denom = 0) := by
  unfold outputDim
  by_cases h0 : dim * num = 0
  · right
    refine ⟨h0, ?_⟩
    rw [h0]; apply Nat.div_eq_of_lt; omega
  · left
    have h1 := Nat.div_add_mod (dim * num + denom - 1) denom
    have h2 := Nat.mod_lt (dim * num + denom - 1) hd
    have hq : 1 ≤ (dim * num + denom - 1) / denom := by
      apply (Nat.le_div_iff_mul_le hd).2; omega
    constructor
    · have : denom * ((dim * num + denom - 1) / denom) = (dim * num + denom - 1) / denom * denom := Nat.mul_comm _ _
      omega
    · have e : ((dim * num + denom - 1) / denom - 1) * denom = (dim * num + denom - 1) / denom * denom - denom := by
        rw [Nat.sub_mul, Nat.one_mul]
      have : denom * ((dim * num + denom - 1) / denom) = (dim * num + denom - 1) / denom * denom := Nat.mul_comm _ _
      omega

/-- the same value for a factor written as k/8 and as its reduced fraction -/
theorem output_dim_reduced (dim n d : Nat) (hd : 0 < d) (h8 : 8 % d = 0) :
    outputDim dim n d = outputDim dim (n * (8 / d)) 8 := by
  unfold outputDim
  obtain ⟨m, hm⟩ : ∃ m, 8 = d * m := ⟨8 / d, by have := Nat.div_add_mod 8 d; omega⟩
  have hmpos : 0 < m := by
    rcases Nat.eq_zero_or_pos m with h | h
    · subst h; omega
    · exact h
  have hq : 8 / d = m := by rw [hm]; exact Nat.mul_div_cancel_left m hd
  rw [hq]
  -- ceil(a/d) = ceil(a*m/(d*m))
  have key : ∀ a, (a * m + d * m - 1) / (d * m) = (a + d - 1) / d := by
    intro a
    rw [Nat.mul_comm d m, ← Nat.div_div_eq_div_mul]
    congr 1
    have : a * m + m * d - 1 = (a + d - 1) * m + (m - 1) := by
      have h1 : (a + d - 1) * m = a * m + d * m - m := by
        rw [Nat.sub_mul, Nat.add_mul, Nat.one_mul]
      have h2 : m ≤ d * m := Nat.le_mul_of_pos_left m hd
      rw [h1, Nat.mul_comm m d]; omega
    rw [this, Nat.mul_comm _ m, Nat.mul_add_div hmpos, Nat.div_eq_of_lt (by omega : m - 1 < m)]
    omega
  have := key (dim * n)
  rw [show dim * (n * m) = dim * n * m by rw [Nat.mul_assoc]]
  rw [show (8 : Nat) = d * m from hm]
  exact this.symm

/-- **Crop window**: the returned offset is the iMCU boundary at or below the request, the
right edge is exactly the requested right edge, and the window contains the request. -/
theorem crop_window (align x w : Nat) (ha : 0 < align) :
    let r := cropWindow align x w
    r.1 % align = 0 ∧ r.1 ≤ x ∧ x < r.1 + align ∧ r.1 + r.2 = x + w ∧ w ≤ r.2 := by
  unfold cropWindow
  simp only
  have h1 := Nat.div_add_mod x align
  have h2 := Nat.mod_lt x ha
  have h3 : x / align * align = align * (x / align) := Nat.mul_comm _ _
  refine ⟨by simp, by omega, by omega, by omega, by omega⟩

/-- **Skip return value**: the request is honoured exactly unless it would pass the bottom
of the image, where it stops at the last row. -/
theorem skip_return_value (height scanline n : Nat) (hs : scanline ≤ height) :
    skipReturn height scanline n = min n (height - scanline) ∧
    scanline + skipReturn height scanline n ≤ height := by
  unfold skipReturn
  split <;> constructor <;> omega

/-- **Region validation is exact**: for *all* 32-bit arguments the setter accepts exactly
the regions that are empty-by-convention (all zero) or non-negative, left-aligned to the
scaled iMCU width and inside the scaled image. -/
theorem region_validation_exact (sw sh mw x y w h : Int) (hsw : 0 ≤ sw) (hsh : 0 ≤ sh) :
    tjCropAccept sw sh mw x y w h = true ↔
      ((x = 0 ∧ y = 0 ∧ w = 0 ∧ h = 0) ∨
       (0 ≤ x ∧ 0 ≤ y ∧ 0 ≤ w ∧ 0 ≤ h ∧ x % mw = 0 ∧
        0 < (if w = 0 then sw - x else w) ∧ 0 < (if h = 0 then sh - y else h) ∧
        x + (if w = 0 then sw - x else w) ≤ sw ∧ y + (if h = 0 then sh - y else h) ≤ sh)) := by
  unfold tjCropAccept
  by_cases h0 : x = 0 ∧ y = 0 ∧ w = 0 ∧ h = 0
  · simp [h0]
  · rw [if_neg h0]
    by_cases hneg : x < 0 ∨ y < 0 ∨ w < 0 ∨ h < 0
    · rw [if_pos hneg]
      constructor
      · intro hf; cases hf
      · rintro (hz | ⟨a, b, c, d, _⟩)
        · exact absurd hz h0
        · omega
    · rw [if_neg hneg]
      by_cases hal : x % mw = 0
      · rw [if_neg (fun hn => hn hal)]
        dsimp only
        by_cases hout : (if w = 0 then sw - x else w) ≤ 0 ∨ (if h = 0 then sh - y else h) ≤ 0 ∨ x > sw ∨
            (if w = 0 then sw - x else w) > sw - x ∨ y > sh ∨ (if h = 0 then sh - y else h) > sh - y
        · rw [if_pos hout]
          constructor
          · intro hf; cases hf
          · rintro (hz | ⟨_, _, _, _, _, a, b, c, d⟩)
            · exact absurd hz h0
            · omega
        · rw [if_neg hout]
          constructor
          · intro _
            right
            exact ⟨by omega, by omega, by omega, by omega, hal, by omega, by omega, by omega, by omega⟩
          · intro _; rfl
      · rw [if_pos hal]
        constructor
        · intro hf; cases hf
        · rintro (hz | ⟨_, _, _, _, e, _⟩)
          · exact absurd hz h0
          · exact absurd e hal

-- non-vacuity: a 227x149 image at 3/8 is 86x56; a crop request (20, 30) with alignment 6
example : outputDim 227 3 8 = 86 ∧ outputDim 149 3 8 = 56 ∧ cropWindow 6 20 30 = (18, 32) ∧
    tjCropAccept 86 56 6 18 3 32 10 = true ∧ tjCropAccept 86 56 6 2147483640 0 16 0 = false := by decide

end LJT.C08
