import LJT.Model.Suspend
namespace LJT.Suspend

theorem drop_refill (b rf : List Nat) (k : Nat) :
    (b.drop k ++ rf).drop (k - b.length) = (b ++ rf).drop k := by
  by_cases hk : k ≤ b.length
  · have h0 : k - b.length = 0 := by omega
    rw [h0, List.drop_zero, List.drop_append_of_le_length hk]
  · have hb : b.drop k = [] := List.drop_of_length_le (by omega)
    rw [hb, List.nil_append, List.drop_append, hb, List.nil_append]

theorem refill_remaining (s s' : Src) (h : s.refill = some s') : s'.remaining = s.remaining := by
  unfold Src.refill at h
  cases hr : s.rest with
  | nil => simp [hr] at h
  | cons c r =>
    rw [hr] at h
    simp only [Option.some.injEq] at h
    subst h
    simp only [Src.remaining, hr, List.flatten_cons]
    rw [drop_refill, List.append_assoc]

theorem read_remaining (n : Nat) (s s' : Src) (bs : List Nat) (h : s.read n = some (bs, s')) :
    s.remaining = bs ++ s'.remaining ∧ bs.length = n := by
  unfold Src.read at h
  split at h
  · rename_i hc
    simp at h; obtain ⟨rfl, rfl⟩ := h
    simp only [Src.remaining, hc.1, List.drop_zero]
    constructor
    · rw [← List.append_assoc, List.take_append_drop]
    · simp [hc.2]
  · simp at h

theorem skip_remaining (n : Nat) (s : Src) (h0 : s.skip = 0) : (s.skipData n).remaining = s.remaining.drop n := by
  unfold Src.skipData
  split
  · rename_i hn
    simp only [Src.remaining, h0, List.drop_zero]
    rw [List.drop_append_of_le_length hn]
  · rename_i hn
    simp only [Src.remaining, h0, List.drop_zero, Nat.zero_add, List.nil_append]
    rw [List.drop_append]
    have : List.drop n s.buf = [] := List.drop_of_length_le (by omega)
    simp [this]

section Generic
variable {σ α : Type} (step : Step σ α)

/-- **Chunking is invisible**: an execution against any chunked delivery is an execution
against the same bytes delivered at once -/
theorem chunks_to_whole (hst : Stable step) : ∀ s buf cs sf lf, ChunkRun step s buf cs sf lf →
    ChunkRun step s (buf ++ cs.flatten) [] sf lf := by
  intro s buf cs sf lf h
  induction h with
  | done s buf hn => simpa using ChunkRun.done s buf hn
  | adv s buf cs s' n sf lf hs _ ih =>
    obtain ⟨hle, hext⟩ := hst s buf s' n cs.flatten hs
    apply ChunkRun.adv _ _ _ s' n _ _ hext
    rw [List.drop_append_of_le_length hle]
    exact ih
  | more s buf c cs sf lf _ _ ih =>
    simpa [List.append_assoc] using ih

/-- an execution on bytes delivered at once is deterministic -/
theorem whole_deterministic : ∀ s d a b, ChunkRun step s d [] a b → ∀ a' b', ChunkRun step s d [] a' b' → a = a' ∧ b = b' := by
  intro s d a b h
  generalize hcs : ([] : List (List α)) = cs at h
  induction h with
  | done s buf hn =>
    intro a' b' h'
    cases h' with
    | done _ _ _ => exact ⟨rfl, rfl⟩
    | adv _ _ _ s' n _ _ hs _ => rw [hn] at hs; cases hs
  | adv s buf cs s' n sf lf hs _ ih =>
    intro a' b' h'
    subst hcs
    cases h' with
    | done _ _ hn => rw [hn] at hs; cases hs
    | adv _ _ _ s2 n2 _ _ hs2 hrest =>
      rw [hs] at hs2; cases hs2
      exact ih rfl a' b' hrest
  | more s buf c cs sf lf _ _ _ => cases hcs

/-- **Two deliveries of the same bytes end in the same state** with the same unread rest -/
theorem chunking_independent (hst : Stable step) (s : σ) (cs1 cs2 : List (List α)) (h : cs1.flatten = cs2.flatten)
    (a1 a2 : σ) (b1 b2 : List α) (h1 : ChunkRun step s [] cs1 a1 b1) (h2 : ChunkRun step s [] cs2 a2 b2) :
    a1 = a2 ∧ b1 = b2 := by
  have w1 := chunks_to_whole step hst _ _ _ _ _ h1
  have w2 := chunks_to_whole step hst _ _ _ _ _ h2
  rw [List.nil_append] at w1 w2
  rw [h] at w1
  exact whole_deterministic step _ _ _ _ w1 _ _ w2

end Generic

/-- the marker-segment reader satisfies the contract -/
theorem segStep_stable : Stable segStep := by
  intro s d s' n e h
  unfold segStep at h ⊢
  split at h
  · rename_i count m hi lo rest
    dsimp only at h
    split at h
    · rename_i hc
      simp at h; obtain ⟨rfl, rfl⟩ := h
      constructor
      · simp; omega
      · simp only [List.cons_append]
        have : 2 ≤ hi * 256 + lo ∧ hi * 256 + lo - 2 ≤ (rest ++ e).length := by simp; omega
        simp [this]; omega
    · simp at h
  · simp at h

end LJT.Suspend
