import LJT.Proofs.HuffOpt11
/-! K.2 generator, part 12: the encoder-side derived table of a generated table gives every symbol with a
non-zero frequency a code of 1 to 16 bits. -/
set_option maxRecDepth 20000
namespace LJT.Huff

theorem fillC_succeeds : ∀ (sz cs vals : List Nat) (m : Nat) (co si : Array Nat),
    sz.length ≤ cs.length → sz.length ≤ vals.length → (∀ v ∈ vals.take sz.length, v ≤ m) →
    (vals.take sz.length).Nodup → (∀ v ∈ vals.take sz.length, si.getD v 0 = 0) → m < 256 → si.size = 256 →
    ∃ d, fillC sz cs vals m co si = some d := by
  intro sz
  induction sz with
  | nil => intro cs vals m co si _ _ _ _ _ _ _; exact ⟨_, rfl⟩
  | cons s0 sz ih =>
    intro cs vals m co si hcs hvals hle hnd hzero hm hsi
    cases cs with
    | nil => simp at hcs
    | cons c0 cs =>
      cases vals with
      | nil => simp at hvals
      | cons v0 vals =>
        simp only [List.length_cons, List.take_succ_cons, List.nodup_cons] at hle hnd hzero
        have hv0 : v0 ≤ m := hle v0 (by simp)
        have hz0 : si.getD v0 0 = 0 := hzero v0 (by simp)
        simp only [fillC]
        have hchk : (decide (v0 > m) || si.getD v0 0 != 0) = false := by
          simp [hz0]; omega
        rw [hchk]
        simp only [Bool.false_eq_true, if_false]
        apply ih cs vals m _ _ (by simpa using hcs) (by simpa using hvals)
          (fun v hv => hle v (by simp [hv])) hnd.2
        · intro v hv
          have hne : v0 ≠ v := fun e => hnd.1 (e ▸ hv)
          rw [getD_set _ _ _ _ (by omega)]
          simp only [hne, if_false]
          exact hzero v (by simp [hv])
        · exact hm
        · simpa using hsi

/-- `Σ_{j=l}^{l+n-1} b j` -/
def cntr (b : Nat → Nat) : Nat → Nat → Nat
  | _, 0 => 0
  | l, n + 1 => b l + cntr b (l + 1) n

theorem csum_add_cntr (b : Nat → Nat) : ∀ n l, csum b (l + n) = csum b l + cntr b l n := by
  intro n
  induction n with
  | zero => intro l; simp [cntr]
  | succ n ih =>
    intro l
    have := ih (l + 1)
    rw [show l + (n + 1) = l + 1 + n by omega, this]
    simp only [csum, cntr]; omega

theorem sizesFrom_length (bits : List Nat) : ∀ n l,
    (sizesFrom bits l n).length = cntr (fun j => bits.getD j 0) l n := by
  intro n
  induction n with
  | zero => intro l; simp [sizesFrom, cntr]
  | succ n ih => intro l; simp [sizesFrom, cntr, ih]

/-- **Every symbol with a non-zero frequency gets a code of 1 to 16 bits.**  For the table `t` returned by
`jpeg_gen_optimal_table`, `jpeg_make_c_derived_tbl` (AC symbol range) succeeds, and the code size it stores
for each such symbol lies in 1..16. -/
theorem genOptimalTable_encodes (freq0 : List Nat) (hlen : freq0.length ≤ 257)
    (htot : ((List.range 256).map (freq0.getD · 0)).sum < 1000000000) :
    genOptimalTable freq0 = .clenOverflow ∨
    ∃ t c, genOptimalTable freq0 = .ok t ∧ mkCDerived false false t = some c ∧
      ∀ s ∈ nzReal freq0, 1 ≤ c.si.getD s 0 ∧ c.si.getD s 0 ≤ 16 := by
  rcases genOptimalTable_bits freq0 hlen htot with h | ⟨t, ht, hlen17, hb, ⟨cs, hcs⟩⟩
  · left; exact h
  · right
    rcases genOptimalTable_vals freq0 hlen htot with h | ⟨t', ht', hvl, hperm, _, _⟩
    · rw [h] at ht; cases ht
    · rw [ht] at ht'
      cases ht'
      -- facts about sizes and codes
      have hm := nzReal_length freq0
      have hszlen : (sizes t.bits).length = (nzReal freq0).length := by
        unfold sizes
        rw [sizesFrom_length]
        have h1 : csum (fun j => t.bits.getD j 0) 17 =
            csum (fun j => t.bits.getD j 0) 1 + cntr (fun j => t.bits.getD j 0) 1 16 :=
          csum_add_cntr (fun j => t.bits.getD j 0) 16 1
        have e1 : csum (fun j => t.bits.getD j 0) 1 = t.bits.getD 0 0 := by simp [csum]
        have h2 := hb.count
        have h3 : t.bits.getD 0 0 = 0 := hb.zero
        omega
      obtain ⟨c0, s0, Q⟩ := codes_canon t.bits cs hcs
      have hcslen : cs.length = (sizes t.bits).length := Q.len
      have hrange := sizesFrom_ge t.bits 16 1
      have hnd : t.vals.Nodup := by
        apply (hperm.nodup_iff).2
        unfold nzReal
        exact List.Nodup.filter _ List.nodup_range
      have hpad : (t.vals ++ List.replicate (256 - t.vals.length) 0).take (sizes t.bits).length = t.vals := by
        rw [hszlen, ← hvl]; simp
      have hfill := fillC_succeeds (sizes t.bits) cs (t.vals ++ List.replicate (256 - t.vals.length) 0) 255
        (Array.replicate 256 0) (Array.replicate 256 0) (by omega) (by simp; omega)
        (by rw [hpad]; intro v hv
            have := (nzReal_lt freq0 v (hperm.mem_iff.1 hv)).1; omega)
        (by rw [hpad]; exact hnd) (by intro v _; by_cases hv : v < 256 <;> simp [Array.getD_eq_getD_getElem?, hv]) (by omega) (by simp)
      obtain ⟨d, hd⟩ := hfill
      have hmk : mkCDerived false false t = some d := by
        unfold mkCDerived
        simp only [hcs, Bool.false_eq_true, if_false]
        rw [if_neg (by omega)]
        exact hd
      refine ⟨t, d, ht, hmk, ?_⟩
      intro s hs
      have hsv : s ∈ t.vals := hperm.mem_iff.2 hs
      obtain ⟨q, hq, e⟩ := List.mem_iff_getElem.1 hsv
      have hspec := (fillC_spec (sizes t.bits) cs (t.vals ++ List.replicate (256 - t.vals.length) 0) 255
        (Array.replicate 256 0) (Array.replicate 256 0) d hd (by omega) (by simp; omega)
        (by intro x hx; unfold sizes at hx; have := hrange x hx; omega) (by omega) (by simp) (by simp)).1
      have hq' : q < (sizes t.bits).length := by omega
      have h1 := (hspec q hq').2
      have hget : (t.vals ++ List.replicate (256 - t.vals.length) 0).getD q 0 = s := by
        rw [List.getD_eq_getElem?_getD, List.getElem?_append_left hq, List.getElem?_eq_getElem hq, e]; rfl
      rw [hget] at h1
      rw [h1]
      have := hrange _ (List.getElem_mem (by unfold sizes at hq'; exact hq'))
      unfold sizes
      omega

end LJT.Huff
