import LJT.Model.Dest
namespace LJT.Dest

theorem grow_ok (s s' : State) (h : grow s = .ok s') :
    s'.rdata = s.rdata ∧ s'.cap = s.cap * 2 ∧ s'.free = s.cap ∧ s'.alloc = s.alloc ∧ s.alloc = true ∧
      s'.kind = s.kind := by
  unfold grow at h
  split at h
  · injection h with h; subst h; simp_all
  · cases h

theorem putByte_ok (s s' : State) (b : Nat) (hi : Good s) (h : putByte s b = .ok s') :
    Good s' ∧ s'.rdata = b :: s.rdata ∧ s'.alloc = s.alloc ∧ s.cap ≤ s'.cap := by
  unfold putByte at h
  unfold Good at *
  obtain ⟨hf, hsum⟩ := hi
  dsimp only at h
  split at h
  · rename_i hfull
    obtain ⟨h1, h2, h3, h4, _, _⟩ := grow_ok _ _ h
    simp only at h1 h2 h3 h4
    refine ⟨⟨?_, ?_⟩, h1, h4, ?_⟩
    · rw [h3]; omega
    · rw [h3, h2, h1]; simp only [List.length_cons]; omega
    · rw [h2]; omega
  · rename_i hnf
    injection h with h; subst h
    refine ⟨⟨by simp only; omega, ?_⟩, rfl, rfl, Nat.le_refl _⟩
    simp only [List.length_cons]; omega

theorem putBytes_ok (bs : List Nat) : ∀ (s s' : State), Good s → putBytes s bs = .ok s' →
    Good s' ∧ s'.rdata = bs.reverse ++ s.rdata ∧ s'.alloc = s.alloc ∧ s.cap ≤ s'.cap := by
  induction bs with
  | nil =>
    intro s s' hi h
    simp [putBytes] at h
    cases h; simp [hi]
  | cons b bs ih =>
    intro s s' hi h
    simp only [putBytes, List.foldlM_cons] at h
    cases hb : putByte s b with
    | error e => rw [hb] at h; cases h
    | ok s1 =>
      rw [hb] at h
      obtain ⟨i1, d1, a1, c1⟩ := putByte_ok s s1 b hi hb
      obtain ⟨i2, d2, a2, c2⟩ := ih s1 s' i1 h
      refine ⟨i2, ?_, ?_, ?_⟩
      · rw [d2, d1]; simp
      · rw [a2, a1]
      · omega

/-- with reallocation allowed, byte-wise output never fails -/
theorem putByte_alloc (s : State) (b : Nat) (ha : s.alloc = true) : ∃ s', putByte s b = .ok s' := by
  unfold putByte grow
  simp only [ha, if_true]
  split <;> exact ⟨_, rfl⟩

theorem putBytes_alloc (bs : List Nat) : ∀ (s : State), Good s → s.alloc = true → ∃ s', putBytes s bs = .ok s' := by
  induction bs with
  | nil => intro s _ _; exact ⟨s, rfl⟩
  | cons b bs ih =>
    intro s hi ha
    obtain ⟨s1, h1⟩ := putByte_alloc s b ha
    obtain ⟨i1, _, a1, _⟩ := putByte_ok s s1 b hi h1
    obtain ⟨s2, h2⟩ := ih s1 i1 (by rw [a1]; exact ha)
    exact ⟨s2, by simp only [putBytes, List.foldlM_cons, h1]; exact h2⟩

/-- without reallocation: success exactly when everything fits with one byte to spare -/
theorem putBytes_noalloc (bs : List Nat) : ∀ (s : State), Good s → s.alloc = false →
    ((∃ s', putBytes s bs = .ok s') ↔ bs.length < s.free) := by
  induction bs with
  | nil =>
    intro s hi _
    simp only [putBytes, List.foldlM_nil, List.length_nil]
    exact ⟨fun _ => hi.1, fun _ => ⟨s, rfl⟩⟩
  | cons b bs ih =>
    intro s hi ha
    simp only [putBytes, List.foldlM_cons, List.length_cons]
    obtain ⟨hf, hsum⟩ := hi
    by_cases hfull : s.free - 1 = 0
    · have : putByte s b = .error .bufferSize := by
        unfold putByte grow; simp [hfull, ha]
      rw [this]
      constructor
      · rintro ⟨s', h⟩; cases h
      · intro h; omega
    · have hb : putByte s b = .ok { s with rdata := b :: s.rdata, free := s.free - 1 } := by
        unfold putByte; simp [hfull]
      rw [hb]
      have hi1 : Good { s with rdata := b :: s.rdata, free := s.free - 1 } := by
        unfold Good; simp only [List.length_cons]; omega
      have := ih { s with rdata := b :: s.rdata, free := s.free - 1 } hi1 ha
      simp only at this
      constructor
      · intro h
        have := this.1 h; omega
      · intro h
        exact this.2 (by omega)

theorem putBlock_ok (s s' : State) (bs : List Nat) (hi : Good s) (h : putBlock s bs = .ok s') :
    Good s' ∧ s'.rdata = bs.reverse ++ s.rdata ∧ s'.alloc = s.alloc ∧ s.cap ≤ s'.cap := by
  unfold putBlock at h
  split at h
  · rename_i hc
    injection h with h; subst h
    unfold Good BUFSIZE at *
    refine ⟨⟨?_, ?_⟩, rfl, rfl, Nat.le_refl _⟩
    · simp only; omega
    · simp only [List.length_append, List.length_reverse]; omega
  · exact putBytes_ok bs s s' hi h

end LJT.Dest

namespace LJT.Dest

theorem putByte_noalloc_ok (s s' : State) (b : Nat) (ha : s.alloc = false) (h : putByte s b = .ok s') :
    s'.cap = s.cap ∧ s'.bufId = s.bufId ∧ s'.alloc = false := by
  unfold putByte grow at h
  simp only [ha] at h
  split at h
  · cases h
  · injection h with h; subst h; exact ⟨rfl, rfl, rfl⟩

theorem putBytes_noalloc_ok (bs : List Nat) : ∀ (s s' : State), s.alloc = false → putBytes s bs = .ok s' →
    s'.cap = s.cap ∧ s'.bufId = s.bufId ∧ s'.alloc = false := by
  induction bs with
  | nil => intro s s' ha h; simp [putBytes] at h; cases h; exact ⟨rfl, rfl, ha⟩
  | cons b bs ih =>
    intro s s' ha h
    simp only [putBytes, List.foldlM_cons] at h
    cases hb : putByte s b with
    | error e => rw [hb] at h; cases h
    | ok s1 =>
      rw [hb] at h
      obtain ⟨c1, b1, a1⟩ := putByte_noalloc_ok s s1 b ha hb
      obtain ⟨c2, b2, a2⟩ := ih s1 s' a1 h
      exact ⟨by rw [c2, c1], by rw [b2, b1], a2⟩

theorem putBlock_noalloc_ok (bs : List Nat) (s s' : State) (ha : s.alloc = false) (h : putBlock s bs = .ok s') :
    s'.cap = s.cap ∧ s'.bufId = s.bufId ∧ s'.alloc = false := by
  unfold putBlock at h
  split at h
  · injection h with h; subst h; exact ⟨rfl, rfl, ha⟩
  · exact putBytes_noalloc_ok bs s s' ha h

end LJT.Dest

namespace LJT.Dest

/-- ownership invariant for one image: everything the manager may free (`lib`) or has
freed (`frees`) was allocated after the image started (`id > lo`) or is the buffer the
caller handed back (`hb`). -/
def Owns (lo : Nat) (hb : Option Nat) (s : State) : Prop :=
  lo ≤ s.nalloc ∧ (∀ id, s.lib = some id → lo < id ∨ hb = some id) ∧
  (∀ id, id ∈ s.frees → lo < id ∨ hb = some id)

theorem grow_owns (lo : Nat) (hb : Option Nat) (s s' : State) (ho : Owns lo hb s) (h : grow s = .ok s') :
    Owns lo hb s' := by
  unfold grow at h
  split at h
  · injection h with h; subst h
    obtain ⟨h1, h2, h3⟩ := ho
    refine ⟨by simp; omega, ?_, ?_⟩
    · intro id hid; simp at hid; left; omega
    · intro id hid
      simp only [List.mem_append, Option.mem_toList] at hid
      rcases hid with hid | hid
      · exact h3 id hid
      · exact h2 id hid
  · cases h

theorem putByte_owns (lo : Nat) (hb : Option Nat) (s s' : State) (b : Nat) (ho : Owns lo hb s)
    (h : putByte s b = .ok s') : Owns lo hb s' := by
  unfold putByte at h
  dsimp only at h
  split at h
  · exact grow_owns lo hb { s with rdata := b :: s.rdata, free := s.free - 1 } s' ho h
  · injection h with h; subst h; exact ho

theorem putBytes_owns (lo : Nat) (hb : Option Nat) (bs : List Nat) : ∀ (s s' : State), Owns lo hb s →
    putBytes s bs = .ok s' → Owns lo hb s' := by
  induction bs with
  | nil => intro s s' ho h; simp [putBytes] at h; cases h; exact ho
  | cons b bs ih =>
    intro s s' ho h
    simp only [putBytes, List.foldlM_cons] at h
    cases hb1 : putByte s b with
    | error e => rw [hb1] at h; cases h
    | ok s1 => rw [hb1] at h; exact ih s1 s' (putByte_owns lo hb s s1 b ho hb1) h

theorem putBlock_owns (lo : Nat) (hb : Option Nat) (bs : List Nat) (s s' : State) (ho : Owns lo hb s)
    (h : putBlock s bs = .ok s') : Owns lo hb s' := by
  unfold putBlock at h
  split at h
  · injection h with h; subst h; exact ho
  · exact putBytes_owns lo hb bs s s' ho h

/-- what `start` hands over: `lo` = allocations made before this image, `hb` = the buffer
the caller handed back (only for `.reuse`). -/
def handedBack (ob : OutBuf) (prev : Option State) : Option Nat :=
  match ob, prev with
  | .reuse _, some p => some p.bufId
  | _, _ => none

def allocBefore (prev : Option State) : Nat := match prev with | some p => p.nalloc | none => 0

theorem start_owns (kind : Kind) (alloc : Bool) (ob : OutBuf) (prev : Option State) (s : State)
    (h : start kind alloc ob prev = .ok s) : Owns (allocBefore prev) (handedBack ob prev) s := by
  have fresh : ∀ a n, n = allocBefore prev →
      (if a = true then (Except.ok ⟨kind, a, n + 1, OUTPUT_BUF_SIZE, OUTPUT_BUF_SIZE, [], n + 1, some (n + 1), []⟩ : Except Err State)
      else .error .bufferSize) = .ok s → Owns (allocBefore prev) (handedBack ob prev) s := by
    intro a n hn h
    split at h
    · injection h with h; subst h
      refine ⟨by simp; omega, ?_, ?_⟩
      · intro id hid; simp at hid; left; omega
      · intro id hid; simp at hid
    · cases h
  cases ob with
  | null => simp only [start] at h; exact fresh _ _ rfl h
  | own d =>
    by_cases hd : d = 0
    · subst hd; simp only [start] at h; exact fresh _ _ rfl h
    · have : (d == 0) = false := by simp [hd]
      cases prev <;> (simp only [start, this] at h; injection h with h; subst h
                      refine ⟨by simp [allocBefore], ?_, ?_⟩ <;> (intro id hid; simp at hid))
  | reuse d =>
    by_cases hd : d = 0
    · subst hd
      cases prev with
      | none => simp only [start, beq_self_eq_true, Bool.not_false, Bool.and_self, if_true] at h; exact fresh _ _ rfl h
      | some p =>
        cases kind with
        | std =>
          have e : (Kind.std == Kind.tj) = false := rfl
          simp only [start, e, beq_self_eq_true, Bool.false_and, Bool.not_false, Bool.and_self, if_true] at h
          exact fresh true _ rfl (by rw [if_pos rfl]; exact h)
        | tj =>
          cases alloc with
          | false =>
            simp only [start, beq_self_eq_true, Bool.and_false, Bool.not_false, Bool.and_self, if_true] at h
            exact fresh _ _ rfl h
          | true =>
            simp only [start, beq_self_eq_true, Bool.and_self, Bool.not_true, Bool.and_false, Bool.false_eq_true, if_false] at h
            injection h with h; subst h
            refine ⟨by simp [allocBefore], ?_, ?_⟩
            · intro id hid
              simp only at hid
              split at hid
              · rename_i hc
                simp only [Bool.and_eq_true, beq_iff_eq] at hc
                right; simp only [handedBack]; rw [← hc.2]; exact hid.symm ▸ rfl
              · cases hid
            · intro id hid; simp at hid
    · have : (d == 0) = false := by simp [hd]
      cases prev with
      | none =>
        simp only [start, this, Bool.false_and] at h; injection h with h; subst h
        refine ⟨by simp [allocBefore], ?_, ?_⟩ <;> (intro id hid; simp at hid)
      | some p =>
        simp only [start, this, Bool.false_and] at h
        injection h with h; subst h
        refine ⟨by simp [allocBefore], ?_, ?_⟩
        · intro id hid
          simp only at hid
          split at hid
          · rename_i hc
            simp only [Bool.and_eq_true, beq_iff_eq] at hc
            right; simp only [handedBack]; rw [← hc.2]; exact hid.symm ▸ rfl
          · cases hid
        · intro id hid; simp at hid

end LJT.Dest
