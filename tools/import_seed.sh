#!/bin/bash
# import a round-3 seeded change produced by a sub-agent under /tmp/seed4/<id> into seeded/<id>/m4
id=$1
mkdir -p /verif/seeded/$id/m4
cp /tmp/seed4/$id/patch.diff /tmp/seed4/$id/meta.json /verif/seeded/$id/m4/
cp /tmp/seed4/$id/demo_m4.* /verif/seeded/$id/m4/ 2>/dev/null
git -C /repo apply --check /verif/seeded/$id/m4/patch.diff && echo "applies: $id"
