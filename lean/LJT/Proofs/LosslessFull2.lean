import LJT.Proofs.LosslessFull
/-! The differences the decoder regroups from the bytes of a whole lossless scan are congruent, entry by entry,
to the ones the compressor computed. -/
namespace LJT.LL
open LJT.Huff LJT.Bits

/-- shape of a `[ci][y][x]` array -/
def Shape (nc h w : Nat) (D : List (List (List Int))) : Prop :=
  D.length = nc ∧ ∀ comp ∈ D, comp.length = h ∧ ∀ r ∈ comp, r.length = w

theorem getD_mem_gen {α : Type} {l : List α} {i : Nat} (h : i < l.length) (d : α) : l.getD i d ∈ l := by
  rw [List.getD_eq_getElem?_getD, List.getElem?_eq_getElem h]
  exact List.getElem_mem h

theorem segMcus_counts (R h w : Nat) (rowsM : List (List (List Int))) (hl : rowsM.length = h)
    (hw : ∀ row ∈ rowsM, row.length = w) : (segMcus R rowsM).map List.length = segCounts R h w := by
  unfold segMcus segCounts
  by_cases hR : R = 0
  · simp only [hR, if_true, List.map_cons, List.map_nil, List.length_flatten]
    rw [sum_map_const rowsM List.length w hw, hl]
  · simp only [hR, if_false]
    have e1 : List.replicate h w = rowsM.map List.length := by
      apply List.ext_getElem
      · simp [hl]
      · intro i h1' h2'
        simp only [List.getElem_map, List.getElem_replicate]
        exact (hw _ (List.getElem_mem _)).symm
    rw [hl, e1, chunksF_map, List.map_map, List.map_map]
    apply List.map_congr_left
    intro ch _
    simp [List.length_flatten]

theorem decoded_diffs_congruent (R nc h w : Nat) (h1 : 1 ≤ h) (w1 : 1 ≤ w) (n1 : 1 ≤ nc)
    (D : List (List (List Int))) (hD : Shape nc h w D)
    (cds : List CDerived) (dds : List DDerived) (tblOf : List Nat) (htab : TablesOK cds dds tblOf 0 nc)
    (bitss : List (List Bool))
    (henc : (segmentsOf R ((byRow D h).map interleaveRow)).mapM (segBits cds tblOf) = some bitss) :
    ∃ segItems, decodeSegments dds tblOf nc (segCounts R h w) (splitRST (joinRST (bitss.map segmentBytes) 0) []) = some segItems ∧
      All2 (All2 (All2 Cong16)) (regroup nc h w (segItems.flatten.map (·.2))) D := by
  obtain ⟨hDl, hDs⟩ := hD
  -- rows of the scan, as MCUs
  let rowsAt : Nat → List (List Int) := fun y => D.map (·.getD y [])
  let rowsM : List (List (List Int)) := (List.range h).map (fun y => mcuRow (rowsAt y))
  have hDne : D ≠ [] := by intro e; rw [e] at hDl; simp at hDl; omega
  have hrowsAt_ne : ∀ y, rowsAt y ≠ [] := by
    intro y e; apply hDne; exact List.map_eq_nil_iff.1 e
  have hrowsAt_w : ∀ y, y < h → ∀ r ∈ rowsAt y, r.length = w := by
    intro y hy r hr
    obtain ⟨comp, hc, e⟩ := List.mem_map.1 hr
    obtain ⟨c1, c2⟩ := hDs comp hc
    rw [← e]
    apply c2
    exact getD_mem_gen (by omega) []
  have hrowsM_len : rowsM.length = h := by simp [rowsM]
  have hrowM_w : ∀ row ∈ rowsM, row.length = w := by
    intro row hr
    obtain ⟨y, hy, e⟩ := List.mem_map.1 hr
    rw [← e]
    exact mcuRow_length _ w (hrowsAt_ne y) (hrowsAt_w y (List.mem_range.1 hy))
  have hmcu_nc : ∀ row ∈ rowsM, ∀ m ∈ row, m.length = nc := by
    intro row hr m hm
    obtain ⟨y, hy, e⟩ := List.mem_map.1 hr
    rw [← e] at hm
    unfold mcuRow at hm
    obtain ⟨x, _, e2⟩ := List.mem_map.1 hm
    rw [← e2]; simp [rowsAt, hDl]
  -- the coded items are the MCUs of the restart intervals
  have hitems : (byRow D h).map interleaveRow = rowsM.map (fun r => r.flatMap (mcuItems 0)) := by
    simp only [byRow, rowsM, List.map_map]
    apply List.map_congr_left
    intro y _
    simp only [Function.comp]
    exact interleaveRow_eq _
  rw [hitems, segmentsOf_mcus] at henc
  have hall := all2_map_left _ (mapM_all2 _ _ _ henc)
  have hne : segMcus R rowsM ≠ [] := segMcus_ne_nil R rowsM (by
    intro e; have := congrArg List.length e; rw [hrowsM_len] at this; simp at this; omega)
  have hflat : (segMcus R rowsM).flatten = rowsM.flatten := segMcus_flatten R rowsM
  have hlen : ∀ seg ∈ segMcus R rowsM, ∀ m ∈ seg, m.length = nc := by
    intro seg hs m hm
    have hm' : m ∈ (segMcus R rowsM).flatten := List.mem_flatten.2 ⟨seg, hs, hm⟩
    rw [hflat] at hm'
    obtain ⟨row, hr, hmr⟩ := List.mem_flatten.1 hm'
    exact hmcu_nc row hr m hmr
  obtain ⟨segs', hdec, hcong⟩ := scan_entropy_roundtrip cds dds tblOf nc htab (segMcus R rowsM) hne hlen bitss hall
  -- the interval sizes the decoder uses
  have hcounts : (segMcus R rowsM).map List.length = segCounts R h w := segMcus_counts R h w rowsM hrowsM_len hrowM_w
  rw [hcounts] at hdec
  refine ⟨_, hdec, ?_⟩
  -- all differences in scan order
  have hflat' : ((segs'.map (fun seg => seg.flatMap (mcuItems 0))).flatten).map (·.2) = segs'.flatten.flatten := by
    rw [flatten_map_flatMap, flatMap_mcuItems_snd]
  rw [hflat']
  have hc1 : All2 Cong16 segs'.flatten.flatten rowsM.flatten.flatten := by
    have := all2_flatten (all2_flatten hcong)
    rw [hflat] at this
    exact this
  -- one entry
  have hentry : ∀ ci y x, ci < nc → y < h → x < w →
      rowsM.flatten.flatten.getD ((y * w + x) * nc + ci) 0 = ((D.getD ci []).getD y []).getD x 0 := by
    intro ci y x hci hy hx
    rw [getD_flatten_uniform nc 0 rowsM.flatten (by
      intro m hm
      obtain ⟨row, hr, hmr⟩ := List.mem_flatten.1 hm
      exact hmcu_nc row hr m hmr) (y * w + x) ci hci]
    rw [getD_flatten_uniform w [] rowsM hrowM_w y x hx]
    have e1 : rowsM.getD y [] = mcuRow (rowsAt y) := by
      simp only [rowsM]
      rw [getD_map_lt _ _ y 0 [] (by simp [hy])]
      simp [List.getD_eq_getElem?_getD, hy]
    rw [e1, mcuRow_getD _ w x (hrowsAt_ne y) (hrowsAt_w y hy) hx]
    rw [getD_map_lt _ _ ci [] 0 (by simp [rowsAt, hDl, hci])]
    simp only [rowsAt]
    rw [getD_map_lt _ _ ci [] [] (by omega)]
  -- assemble the three levels
  unfold regroup
  rw [← hDl]
  apply all2_of_pointwise []
  intro ci hci
  have hcomp : (D.getD ci []) ∈ D := getD_mem_gen hci []
  obtain ⟨c1, c2⟩ := hDs _ hcomp
  rw [← c1]
  apply all2_of_pointwise []
  intro y hy
  have hrow : ((D.getD ci []).getD y []) ∈ D.getD ci [] := getD_mem_gen hy []
  have hrw := c2 _ hrow
  rw [← hrw]
  apply all2_of_pointwise 0
  intro x hx
  rw [hrw, hDl, ← hentry ci y x (by omega) (by omega) (by omega)]
  exact all2_getD (R := Cong16) 0 0 rfl hc1 _


theorem encodeDiffs_shape (p : Params) (img : List (List (List Nat))) (nc h w : Nat) (h1 : 1 ≤ h)
    (hnc : img.length = nc) (hh : ∀ rows ∈ img, rows.length = h) (hw : ∀ rows ∈ img, ∀ r ∈ rows, r.length = w) :
    Shape nc h w (encodeDiffs p img) := by
  refine ⟨by simp [encodeDiffs, hnc], ?_⟩
  intro comp hc
  simp only [encodeDiffs, List.mem_map] at hc
  obtain ⟨rows, hr, e⟩ := hc
  have hlen := hh rows hr
  have := diffRows_shape p.psv (initPred p) w (downscale p.Pt rows) (encFlags p.R rows.length (true, p.R)) []
    (by intro r hr'
        simp only [downscale, List.mem_map] at hr'
        obtain ⟨r0, hr0, e0⟩ := hr'
        rw [← e0]; simp [hw rows hr r0 hr0])
    (by rw [encFlags_length]; simp [downscale])
    (by left
        cases hn : rows.length with
        | zero => omega
        | succ n =>
          simp only [encFlags, List.headD_cons]
          exact encStep_fst p.R (true, p.R))
  rw [← e]
  refine ⟨by rw [this.1]; simp [downscale, hlen], this.2⟩

theorem all2_map_eq {α β γ : Type} (f : α → γ) (g : β → γ) (P : β → Prop) :
    ∀ (xs : List α) (ys : List β), All2 (fun a b => P b → f a = g b) xs ys → (∀ b ∈ ys, P b) → xs.map f = ys.map g := by
  intro xs ys h
  induction h with
  | nil => intro _; rfl
  | cons h1 _ ih =>
    intro hp
    simp only [List.map_cons]
    rw [h1 (hp _ (List.mem_cons_self ..)), ih (fun b hb => hp b (List.mem_cons_of_mem _ hb))]

theorem all2_weaken {α β : Type} {R S : α → β → Prop} (hrs : ∀ a b, R a b → S a b) :
    ∀ {xs : List α} {ys : List β}, All2 R xs ys → All2 S xs ys := by
  intro xs ys h
  induction h with
  | nil => exact All2.nil
  | cons h1 _ ih => exact All2.cons (hrs _ _ h1) ih


end LJT.LL
