import LJT.Model.Nbits
/-! kernel-evaluated check of entries 40960..49151 of the regenerated nbits table -/
namespace LJT
theorem nbits_chunk_C5 : checkRange nbitsTbl nbitsSpec 14 40960 8192 = true := by decide +kernel
end LJT
