import LJT.Model.Mem
namespace LJT.Mem

theorem foldl_add_init (l : List Nat) (a : Nat) : l.foldl (· + ·) a = a + l.foldl (· + ·) 0 := by
  induction l generalizing a with
  | nil => simp
  | cons x t ih => simp only [List.foldl_cons]; rw [ih (a + x), ih (0 + x)]; omega

theorem sumSizes_cons (b : Blk) (l : List Blk) : sumSizes (b :: l) = b.size + sumSizes l := by
  simp only [sumSizes, List.map_cons, List.foldl_cons]
  rw [foldl_add_init]; omega

theorem sumSizes_filter_split (l : List Blk) (p : Blk → Bool) :
    sumSizes l = sumSizes (l.filter p) + sumSizes (l.filter (fun b => !p b)) := by
  induction l with
  | nil => simp [sumSizes]
  | cons b t ih =>
    simp only [List.filter_cons]
    cases hp : p b <;> simp [sumSizes_cons, ih] <;> omega

theorem alloc_inv (s : State) (id pool size : Nat) (ok : Bool) (h : Inv s) : Inv (alloc s id pool size ok) := by
  unfold alloc Inv at *
  cases ok <;> simp [sumSizes_cons, h]; omega

theorem freePool_inv (s : State) (pool : Nat) (h : Inv s) : Inv (freePool s pool) := by
  unfold freePool Inv at *
  simp only
  have := sumSizes_filter_split s.live (fun b => decide (b.pool = pool))
  have e : (s.live.filter (fun b => !decide (b.pool = pool))) = s.live.filter (fun b => decide (b.pool ≠ pool)) := by
    congr 1; funext b; simp
  rw [e] at this
  omega

theorem freePool_none_left (s : State) (pool : Nat) : ∀ b ∈ (freePool s pool).live, b.pool ≠ pool := by
  intro b hb
  simp only [freePool, List.mem_filter, decide_eq_true_eq] at hb
  exact hb.2

theorem destroy_empty (s : State) (hp : ∀ b ∈ s.live, b.pool = 0 ∨ b.pool = 1) : (destroy s).live = [] := by
  unfold destroy
  apply List.eq_nil_iff_forall_not_mem.2
  intro b hb
  have h0 := freePool_none_left (freePool s 1) 0 b hb
  have hb1 : b ∈ (freePool s 1).live := by
    have := hb
    unfold freePool at this
    exact (List.mem_filter.1 this).1
  have h1 := freePool_none_left s 1 b hb1
  have hb0 : b ∈ s.live := by
    have := hb1
    unfold freePool at this
    exact (List.mem_filter.1 this).1
  rcases hp b hb0 with h | h <;> contradiction

/-- returning one block (identifiers are unique) keeps the counter exact -/
theorem free1_inv (s : State) (id : Nat) (b : Blk) (h : Inv s) (hu : s.live.filter (fun x => decide (x.id = id)) = [b]) :
    Inv (free1 s id) := by
  have hf : s.live.find? (fun x => decide (x.id = id)) = some b := by
    rw [← List.head?_filter, hu]; rfl
  unfold free1 Inv at *
  rw [hf]
  simp only
  have := sumSizes_filter_split s.live (fun x => decide (x.id = id))
  rw [hu] at this
  have e : (s.live.filter (fun x => !decide (x.id = id))) = s.live.filter (fun x => decide (x.id ≠ id)) := by
    congr 1; funext x; simp
  rw [e] at this
  have hb : sumSizes [b] = b.size := by simp [sumSizes]
  rw [hb] at this
  show s.total - b.size = sumSizes (s.live.filter (fun x => decide (x.id ≠ id)))
  omega

end LJT.Mem
