/-! Which bytes of a caller-supplied packed-pixel buffer an API call may touch
(turbojpeg.h: "pitch: bytes per row", buffer size `pitch * (height - 1) + width * pixelSize`;
src/turbojpeg.c row-pointer set-up `&buf[row * pitch]` / `&buf[(height - row - 1) * pitch]`). -/
namespace LJT.Extent

/-- byte offset of the start of image row `y` -/
def rowStart (pitch h : Nat) (bottomUp : Bool) (y : Nat) : Nat :=
  if bottomUp then (h - 1 - y) * pitch else y * pitch

/-- the documented size of the buffer -/
def docSize (rowBytes pitch h : Nat) : Nat := pitch * (h - 1) + rowBytes

/-- offset `o` belongs to the samples of image row `y` -/
def inRow (rowBytes pitch h : Nat) (bottomUp : Bool) (y o : Nat) : Prop :=
  rowStart pitch h bottomUp y ≤ o ∧ o < rowStart pitch h bottomUp y + rowBytes

/-- closed form of "some row owns offset o" (what the harness compares the observed write mask with) -/
def owned (rowBytes pitch h : Nat) (o : Nat) : Bool := decide (o / pitch < h) && decide (o % pitch < rowBytes)

def maskDigest (rowBytes pitch h total : Nat) : Nat :=
  (List.range total).foldl (fun acc o => ((acc ^^^ (if owned rowBytes pitch h o then 1 else 0)) * 1099511628211) % 18446744073709551616) 14695981039346656037

end LJT.Extent
