/* C17: the compressor never crashes or emits bad output for any parameter combination */
#include "exec_common.h"

#define C17_RND(m) ((int)((rs = c03_mix(rs)) % (unsigned long long)(m)))
#define C17_P(pct) (C17_RND(100) < (pct))

/* acceptance by coefficient reading only (no upsampling): used when the sampling factors are ones the
   decompressor's upsampler does not implement (fractional ratios), which is a documented limitation of
   full decompression, not a defect of the stream */
static const char *c17_readcoefs(const unsigned char *jp, unsigned long n, int *warn)
{
  struct jpeg_decompress_struct d; my_err_t e; static char msg[120];
  d.err = my_err_init(&e);
  jpeg_create_decompress(&d);
  if (setjmp(e.jb)) { jpeg_destroy_decompress(&d); snprintf(msg, sizeof(msg), "own decompressor rejects the stream even for coefficient reading (code %d)", e.code); return msg; }
  jpeg_mem_src(&d, jp, n);
  jpeg_read_header(&d, TRUE);
  (void)jpeg_read_coefficients(&d);
  jpeg_finish_decompress(&d);
  *warn = e.nwarn;
  jpeg_destroy_decompress(&d);
  if (e.nwarn) { snprintf(msg, sizeof(msg), "own decompressor warns %d times reading coefficients (first code %d)", e.nwarn, e.warn[0]); return msg; }
  return NULL;
}

/* decode own output at the given precision: returns 0 ok, else a description */
static const char *c17_decode(const unsigned char *jp, unsigned long n, int w, int h, int *warn, int *err)
{
  struct jpeg_decompress_struct d; my_err_t e; void *row = NULL; static char msg[120];
  d.err = my_err_init(&e);
  jpeg_create_decompress(&d);
  if (setjmp(e.jb)) {
    *err = e.code; jpeg_destroy_decompress(&d); free(row);
    if (e.code == JERR_FRACT_SAMPLE_NOTIMPL || e.code == JERR_CCIR601_NOTIMPL) return c17_readcoefs(jp, n, warn);
    snprintf(msg, sizeof(msg), "own decompressor rejects the stream (code %d)", e.code); return msg;
  }
  jpeg_mem_src(&d, jp, n);
  jpeg_read_header(&d, TRUE);
  if ((int)d.image_width != w || (int)d.image_height != h) { snprintf(msg, sizeof(msg), "header says %ux%u, requested %dx%d", d.image_width, d.image_height, w, h); jpeg_destroy_decompress(&d); return msg; }
  d.out_color_space = d.jpeg_color_space;      /* no colour conversion: only the codec is judged here */
  jpeg_start_decompress(&d);
  row = malloc((size_t)d.output_width * d.output_components * 2 + 16);
  while (d.output_scanline < d.output_height) {
    JDIMENSION got;
    if (d.data_precision <= 8) { JSAMPROW rp = (JSAMPROW)row; got = jpeg_read_scanlines(&d, &rp, 1); }
    else if (d.data_precision <= 12) { J12SAMPROW rp = (J12SAMPROW)row; got = jpeg12_read_scanlines(&d, &rp, 1); }
    else { J16SAMPROW rp = (J16SAMPROW)row; got = jpeg16_read_scanlines(&d, &rp, 1); }
    if (got != 1) { snprintf(msg, sizeof(msg), "read_scanlines returned %u", got); jpeg_destroy_decompress(&d); free(row); return msg; }
  }
  jpeg_finish_decompress(&d);
  *warn = e.nwarn;
  jpeg_destroy_decompress(&d); free(row);
  if (e.nwarn) { snprintf(msg, sizeof(msg), "own decompressor warns %d times (first code %d)", e.nwarn, e.warn[0]); return msg; }
  return NULL;
}

static void c17_hostile_huff(struct jpeg_compress_struct *c, unsigned long long *prs, int slot, int isdc, int kind)
{
  unsigned long long rs = *prs; JHUFF_TBL **pp = isdc ? &c->dc_huff_tbl_ptrs[slot] : &c->ac_huff_tbl_ptrs[slot]; JHUFF_TBL *t; int i, n = 0;
  if (*pp == NULL) *pp = jpeg_alloc_huff_table((j_common_ptr)c);
  t = *pp; memset(t->bits, 0, sizeof(t->bits));
  switch (kind) {
  case 0: /* exactly complete code */
    if (isdc) { t->bits[3] = 4; t->bits[4] = 8; n = 12; } else { t->bits[7] = 64; t->bits[8] = 128; n = 192; }
    break;
  case 1: /* over-subscribed */
    t->bits[1] = 3; n = 3; break;
  case 2: /* counts beyond 256 */
    for (i = 1; i <= 16; i++) t->bits[i] = 200; n = 256; break;
  case 3: /* random counts */
    for (i = 1; i <= 16; i++) { t->bits[i] = (UINT8)(C17_P(60) ? C17_RND(6) : C17_RND(40)); n += t->bits[i]; }
    if (n > 256) n = 256;
    break;
  case 4: /* valid but missing most symbols */
    t->bits[2] = 2; n = 2; break;
  default: /* all codes 16 bits long */
    t->bits[16] = 255; n = 255; break;
  }
  for (i = 0; i < 256; i++) t->huffval[i] = (UINT8)(kind == 3 && C17_P(30) ? C17_RND(256) : (isdc ? i % 16 : (i < n ? ((i * 37) & 255) : 0)));
  if (!isdc && kind != 3) for (i = 0; i < n && i < 256; i++) t->huffval[i] = (UINT8)i;
  t->sent_table = FALSE;
  *prs = rs;
}

/* rstrows w h rows prog : a gray image compressed with the restart interval given in MCU rows (jpeg_compress_struct.restart_in_rows),
 * up to the point where rows x MCUs-per-row reaches the 16-bit limit of the DRI segment.  What is written must agree with itself: the
 * library's own decoder must read it without a warning and give the pixels of the same image compressed without restart markers. */
static unsigned long long c17_rr_decode(const unsigned char *jp, unsigned long n, int *warn, int *err)
{
  struct jpeg_decompress_struct d; my_err_t e; unsigned long long h = 14695981039346656037ULL; JSAMPLE *row = NULL;
  d.err = my_err_init(&e);
  jpeg_create_decompress(&d);
  if (setjmp(e.jb)) { *err = e.code; jpeg_destroy_decompress(&d); free(row); return 0; }
  jpeg_mem_src(&d, jp, n);
  jpeg_read_header(&d, TRUE);
  jpeg_start_decompress(&d);
  row = (JSAMPLE *)malloc((size_t)d.output_width * d.output_components);
  while (d.output_scanline < d.output_height) { JSAMPROW rp = row; size_t i; jpeg_read_scanlines(&d, &rp, 1); for (i = 0; i < (size_t)d.output_width * d.output_components; i++) { h ^= row[i]; h *= 1099511628211ULL; } }
  jpeg_finish_decompress(&d);
  *warn = (int)e.nwarn;
  jpeg_destroy_decompress(&d); free(row);
  return h;
}
static int c17_rstrows(toks_t *t)
{
  int w = (int)tl(t, 1), h = (int)tl(t, 2), rows = (int)tl(t, 3), prog = (int)tl(t, 4), pass, y, x, warn[2] = { 0, 0 }, err[2] = { 0, 0 };
  unsigned char *jp[2] = { NULL, NULL }; unsigned long jn[2] = { 0, 0 }; unsigned long long hh[2]; JSAMPLE *row = (JSAMPLE *)malloc((size_t)w);
  for (pass = 0; pass < 2; pass++) {
    struct jpeg_compress_struct c; my_err_t e;
    c.err = my_err_init(&e);
    jpeg_create_compress(&c);
    if (setjmp(e.jb)) { printf("R err compress %d\n", e.code); printf("O fail rstrows: compressor rejected a valid request (code %d)\n", e.code); jpeg_destroy_compress(&c); goto done; }
    jpeg_mem_dest(&c, &jp[pass], &jn[pass]);
    c.image_width = (JDIMENSION)w; c.image_height = (JDIMENSION)h; c.input_components = 1; c.in_color_space = JCS_GRAYSCALE;
    jpeg_set_defaults(&c);
    jpeg_set_quality(&c, 50, TRUE);
    if (prog) jpeg_simple_progression(&c);
    if (pass == 0) c.restart_in_rows = rows;
    jpeg_start_compress(&c, TRUE);
    for (y = 0; y < h; y++) { JSAMPROW rp = row; for (x = 0; x < w; x++) row[x] = (JSAMPLE)((x * 7 + y * 13 + ((x ^ y) & 8) * 9) & 255); jpeg_write_scanlines(&c, &rp, 1); }
    jpeg_finish_compress(&c);
    jpeg_destroy_compress(&c);
    hh[pass] = c17_rr_decode(jp[pass], jn[pass], &warn[pass], &err[pass]);
  }
  {
    /* DRI value and number of RSTn markers in the stream */
    unsigned long i, nrst = 0; long dri = -1;
    for (i = 2; i + 1 < jn[0]; i++) if (jp[0][i] == 0xFF) { if (jp[0][i + 1] == 0xDD && dri < 0) dri = ((long)jp[0][i + 4] << 8) | jp[0][i + 5]; else if (jp[0][i + 1] >= 0xD0 && jp[0][i + 1] <= 0xD7) nrst++; }
    printf("R skip dri %ld rst %lu warn %d\n", dri, nrst, warn[0]);
    if (err[0]) printf("O fail rstrows: own decoder rejects the file written with restart_in_rows=%d for %dx%d (error %d)\n", rows, w, h, err[0]);
    else if (warn[0]) printf("O fail rstrows: own decoder warns (%d warnings) about the file written with restart_in_rows=%d for %dx%d: DRI says %ld, %lu RSTn markers present\n", warn[0], rows, w, h, dri, nrst);
    else if (hh[0] != hh[1]) printf("O fail rstrows: restart_in_rows=%d for %dx%d changes the decoded image\n", rows, w, h);
    else printf("O ok\n");
  }
done:
  free(jp[0]); free(jp[1]); free(row);
  return 1;
}

/* creuse seed n : ONE compression object (libjpeg API) used for a seeded sequence of n images that differ in component count (1, 3, 4 and
 * up to 10 with JCS_UNKNOWN), progressive / optimised / arithmetic / baseline mode and size; jpeg_set_defaults etc. are called anew for
 * every image, as documented.  Every image must come out decodable without warnings by a fresh decompressor and with the declared size;
 * sanitizers watch the object's reuse of its own tables and scripts. */
static int c17_creuse(toks_t *t)
{
  unsigned long long rs = (unsigned long long)tll(t, 1) * 0x9E3779B97F4A7C15ULL + 1ULL; int n = (int)tl(t, 2), im, y, x, k;
  struct jpeg_compress_struct c; my_err_t e; unsigned char *jp = NULL; unsigned long jn = 0; JSAMPLE *row = NULL; const char *bad = NULL; static char msg[200];
  c.err = my_err_init(&e);
  jpeg_create_compress(&c);
  if (setjmp(e.jb)) { printf("R err compress %d\n", e.code); printf("O fail creuse: compressor rejected a valid request in a sequence on one object (code %d)\n", e.code); jpeg_destroy_compress(&c); free(jp); free(row); return 1; }
  printf("R seq");
  for (im = 0; im < n && !bad; im++) {
    int nc, w, h, mode, warn = 0, err = 0;
    rs = c03_mix(rs); nc = (int)(rs % 6ULL); nc = nc == 0 ? 1 : nc == 1 ? 3 : nc == 2 ? 4 : nc == 3 ? 3 : nc == 4 ? 10 : 2;
    rs = c03_mix(rs); w = 1 + (int)(rs % 40ULL); rs = c03_mix(rs); h = 1 + (int)(rs % 30ULL);
    rs = c03_mix(rs); mode = (int)(rs % 5ULL);           /* 0 baseline, 1 optimised, 2 progressive, 3 arithmetic, 4 progressive arithmetic */
    if (nc > 4 && mode != 2 && mode != 4) mode = (mode == 3) ? 4 : 2;   /* more than 4 components need a multi-scan script: only the progressive default makes one */
    free(jp); jp = NULL; jn = 0;
    jpeg_mem_dest(&c, &jp, &jn);
    c.image_width = (JDIMENSION)w; c.image_height = (JDIMENSION)h; c.input_components = nc;
    c.in_color_space = nc == 1 ? JCS_GRAYSCALE : nc == 3 ? JCS_RGB : nc == 4 ? JCS_CMYK : JCS_UNKNOWN;
    jpeg_set_defaults(&c);
    jpeg_set_quality(&c, 30 + (int)(rs >> 8) % 70, TRUE);
    c.optimize_coding = mode == 1; c.arith_code = mode == 3 || mode == 4;
    c.scan_info = NULL; c.num_scans = 0;
    if (mode == 2 || mode == 4) jpeg_simple_progression(&c);
    jpeg_start_compress(&c, TRUE);
    row = (JSAMPLE *)realloc(row, (size_t)w * nc);
    for (y = 0; y < h; y++) { JSAMPROW rp = row; for (x = 0; x < w * nc; x++) { rs = c03_mix(rs); row[x] = (JSAMPLE)((x * 3 + y * 5 + (int)(rs & 31ULL)) & 255); } jpeg_write_scanlines(&c, &rp, 1); }
    jpeg_finish_compress(&c);
    printf(" %d:%d:%lu", nc, mode, jn);
    {
      /* own decoder, fresh object */
      struct jpeg_decompress_struct d; my_err_t ed; JSAMPLE *drow = NULL;
      d.err = my_err_init(&ed);
      jpeg_create_decompress(&d);
      if (setjmp(ed.jb)) { err = ed.code; }
      else {
        jpeg_mem_src(&d, jp, jn);
        jpeg_read_header(&d, TRUE);
        if ((int)d.image_width != w || (int)d.image_height != h || d.num_components != nc) err = -2;
        else {
          d.out_color_space = d.jpeg_color_space;
          jpeg_start_decompress(&d);
          drow = (JSAMPLE *)malloc((size_t)d.output_width * d.output_components);
          while (d.output_scanline < d.output_height) { JSAMPROW rp = drow; jpeg_read_scanlines(&d, &rp, 1); }
          jpeg_finish_decompress(&d);
          warn = (int)ed.nwarn;
        }
      }
      jpeg_destroy_decompress(&d); free(drow);
    }
    if (err || warn) { snprintf(msg, sizeof(msg), "image %d of the sequence (%d components, mode %d, %dx%d): own decoder %s (%d)", im, nc, mode, w, h, err ? "fails" : "warns", err ? err : warn); bad = msg; }
  }
  (void)k;
  printf("\n");
  if (bad) printf("O fail creuse: %s\n", bad); else printf("O ok\n");
  jpeg_destroy_compress(&c); free(jp); free(row);
  return 1;
}

/* cparam fam seed */
static int c17_cparam(toks_t *t)
{
  int fam = (int)tl(t, 1); unsigned long long rs = (unsigned long long)tll(t, 2) * 2654435761ULL + (unsigned long long)fam;
  struct jpeg_compress_struct c; my_err_t e; unsigned char *jp = NULL; unsigned long jn = 0; void *img = NULL; void *raw[10] = { 0 };
  static jpeg_scan_info scans[C03_MAXSCANS];
  int w, h, nc, prec, lossless = 0, ci, rawin = 0, err = 0, warn = 0, y, hh = 0; const char *bad;
  static const J_COLOR_SPACE css[] = { JCS_UNKNOWN, JCS_GRAYSCALE, JCS_RGB, JCS_YCbCr, JCS_CMYK, JCS_YCCK, JCS_EXT_RGB, JCS_EXT_RGBX, JCS_EXT_BGR, JCS_EXT_BGRX, JCS_EXT_XBGR, JCS_EXT_XRGB, JCS_EXT_RGBA, JCS_EXT_BGRA, JCS_EXT_ABGR, JCS_EXT_ARGB, JCS_RGB565 };
  static const int csn[] = { 0, 1, 3, 3, 4, 4, 3, 4, 3, 4, 4, 4, 4, 4, 4, 4, 3 };
  int ics;
  c.err = my_err_init(&e);
  jpeg_create_compress(&c);
  if (setjmp(e.jb)) {
    printf("R skip err %d\n", e.code); printf("O ok\n");
    jpeg_destroy_compress(&c); free(jp); free(img); for (ci = 0; ci < 10; ci++) free(raw[ci]);
    return 1;
  }
  jpeg_mem_dest(&c, &jp, &jn);
  w = C17_P(80) ? 1 + C17_RND(70) : (C17_P(50) ? 0 : 65500 + C17_RND(60));
  h = C17_P(85) ? 1 + C17_RND(40) : (C17_P(50) ? 0 : 1 + C17_RND(3));
  if (w > 1000) h = 1 + C17_RND(2);
  ics = C17_RND(17);
  nc = csn[ics]; if (nc == 0) nc = 1 + C17_RND(5);
  if (C17_P(8)) nc = C17_RND(12);
  c.image_width = (JDIMENSION)w; c.image_height = (JDIMENSION)h; c.input_components = nc; c.in_color_space = css[ics];
  prec = C17_P(55) ? 8 : C17_P(50) ? 12 : C17_P(40) ? 16 : C17_RND(18);
  c.data_precision = prec;                 /* set before the defaults, as cjpeg does */
  jpeg_set_defaults(&c);
  c.data_precision = prec;
  if (C17_P(35)) jpeg_set_colorspace(&c, css[C17_RND(6)]);
  if (C17_P(50)) jpeg_set_quality(&c, C17_RND(102) - 1, C17_RND(2));
  if (C17_P(15)) jpeg_set_linear_quality(&c, C17_RND(100000), C17_RND(2));
  if (fam == 1 || C17_P(20)) for (ci = 0; ci < c.num_components && ci < 10; ci++) {
    c.comp_info[ci].h_samp_factor = C17_P(85) ? 1 + C17_RND(4) : C17_RND(6);
    c.comp_info[ci].v_samp_factor = C17_P(85) ? 1 + C17_RND(4) : C17_RND(6);
    if (C17_P(10)) c.comp_info[ci].quant_tbl_no = C17_RND(5);
    if (C17_P(10)) c.comp_info[ci].dc_tbl_no = C17_RND(5);
    if (C17_P(10)) c.comp_info[ci].ac_tbl_no = C17_RND(5);
    if (C17_P(5)) c.comp_info[ci].component_id = C17_RND(3);
  }
  if (fam == 2 || C17_P(10)) {
    /* quantisation tables set directly by the application */
    int tb = C17_RND(4), k, kind = C17_RND(5);
    if (c.quant_tbl_ptrs[tb] == NULL) c.quant_tbl_ptrs[tb] = jpeg_alloc_quant_table((j_common_ptr)&c);
    for (k = 0; k < 64; k++) c.quant_tbl_ptrs[tb]->quantval[k] = (UINT16)(kind == 0 ? 0 : kind == 1 ? 65535 : kind == 2 ? 8192 : kind == 3 ? (C17_P(10) ? 0 : 1 + C17_RND(255)) : C17_RND(65536));
    c.quant_tbl_ptrs[tb]->sent_table = FALSE;
  }
  if (fam == 3 || C17_P(8)) { c17_hostile_huff(&c, &rs, C17_RND(2), C17_RND(2), C17_RND(6)); hh = 1; }
  c.dct_method = C17_P(90) ? (J_DCT_METHOD)C17_RND(3) : (J_DCT_METHOD)C17_RND(8);
  c.smoothing_factor = C17_P(80) ? 0 : C17_RND(120);
  c.optimize_coding = C17_RND(2);
  c.arith_code = C17_P(20);
  if (C17_P(20)) { int k; for (k = 0; k < NUM_ARITH_TBLS; k++) { c.arith_dc_L[k] = (UINT8)C17_RND(20); c.arith_dc_U[k] = (UINT8)C17_RND(20); c.arith_ac_K[k] = (UINT8)C17_RND(70); } }
  c.restart_interval = C17_P(70) ? 0 : (C17_P(80) ? (unsigned)C17_RND(20) : (unsigned)C17_RND(70000));
  c.restart_in_rows = C17_P(85) ? 0 : C17_RND(5);
  if (C17_P(25)) jpeg_simple_progression(&c);
  if (fam == 4 || C17_P(10)) {
    /* scan scripts: valid ones from the C03 generator, or hostile */
    int n, k;
    if (C17_P(50)) n = c03_script(rs, c.num_components > 4 ? 4 : c.num_components, C17_RND(2), scans);
    else {
      n = 1 + C17_RND(12);
      for (k = 0; k < n; k++) {
        int q; scans[k].comps_in_scan = C17_P(90) ? 1 + C17_RND(4) : C17_RND(7);
        for (q = 0; q < 4; q++) scans[k].component_index[q] = C17_P(90) ? C17_RND(4) : C17_RND(12) - 2;
        scans[k].Ss = C17_P(50) ? 0 : C17_RND(70); scans[k].Se = C17_P(50) ? 63 : C17_RND(70); scans[k].Ah = C17_RND(15); scans[k].Al = C17_RND(15);
        if (C17_P(50)) { scans[k].Ah = 0; scans[k].Al = C17_RND(3); }
      }
    }
    c.scan_info = scans; c.num_scans = C17_P(95) ? n : C17_RND(3) - 1;
  }
  if (fam == 5 || (prec > 12) || C17_P(8)) { lossless = 1; jpeg_enable_lossless(&c, C17_P(90) ? 1 + C17_RND(7) : C17_RND(12), C17_P(80) ? C17_RND(prec > 1 ? prec : 1) : C17_RND(20)); }
  if (C17_P(6)) { c.write_JFIF_header = C17_RND(2); c.write_Adobe_marker = C17_RND(2); c.JFIF_major_version = (UINT8)C17_RND(3); c.density_unit = (UINT8)C17_RND(5); }
  rawin = (fam == 6 || C17_P(6)) && !lossless;
  c.raw_data_in = rawin;
#if JPEG_LIB_VERSION >= 70
  if (C17_P(5)) c.do_fancy_downsampling = C17_RND(2);
#endif
  if (getenv("C17_DEBUG")) { fprintf(stderr, "DBG w%d h%d nc%d prec%d opt%d arith%d prog%d nscans%d ri%u rr%d smooth%d dct%d ll%d raw%d\n", w, h, c.num_components, c.data_precision, c.optimize_coding, c.arith_code, c.progressive_mode, c.num_scans, c.restart_interval, c.restart_in_rows, c.smoothing_factor, (int)c.dct_method, lossless, rawin); for (ci = 0; ci < c.num_components && ci < 10; ci++) fprintf(stderr, "  comp%d id%d %dx%d q%d dc%d ac%d\n", ci, c.comp_info[ci].component_id, c.comp_info[ci].h_samp_factor, c.comp_info[ci].v_samp_factor, c.comp_info[ci].quant_tbl_no, c.comp_info[ci].dc_tbl_no, c.comp_info[ci].ac_tbl_no); }
  jpeg_start_compress(&c, C17_P(90));
  if (C17_P(10)) { static unsigned char m[300]; jpeg_write_marker(&c, JPEG_COM, m, (unsigned)C17_RND(300)); }
  {
    size_t ss = c.data_precision <= 8 ? 1 : 2; int mx = (1 << c.data_precision) - 1; size_t rowlen = (size_t)c.image_width * c.input_components, i;
    if (rawin) {
      /* raw downsampled data: max_v_samp_factor * 8 rows per call */
      JSAMPARRAY planes8[10]; J12SAMPARRAY planes12[10]; void *rowptrs[10] = { 0 }; int rows = c.max_v_samp_factor * DCTSIZE;
      for (ci = 0; ci < c.num_components && ci < 10; ci++) {
        jpeg_component_info *cp = &c.comp_info[ci]; size_t wdt = (size_t)cp->width_in_blocks * DCTSIZE, r, nr = (size_t)cp->v_samp_factor * DCTSIZE;
        raw[ci] = malloc(wdt * nr * ss + 16); rowptrs[ci] = malloc(nr * sizeof(void *));
        for (i = 0; i < wdt * nr; i++) { int v = (int)(c03_mix(rs + i + (unsigned long long)ci) % (unsigned long long)(mx + 1)); if (ss == 1) ((unsigned char *)raw[ci])[i] = (unsigned char)v; else ((short *)raw[ci])[i] = (short)v; }
        for (r = 0; r < nr; r++) ((void **)rowptrs[ci])[r] = (char *)raw[ci] + r * wdt * ss;
        planes8[ci] = (JSAMPARRAY)rowptrs[ci]; planes12[ci] = (J12SAMPARRAY)rowptrs[ci];
      }
      while (c.next_scanline < c.image_height) {
        JDIMENSION got = ss == 1 ? jpeg_write_raw_data(&c, planes8, (JDIMENSION)rows) : jpeg12_write_raw_data(&c, planes12, (JDIMENSION)rows);
        if (got == 0) break;
      }
      for (ci = 0; ci < 10; ci++) free(rowptrs[ci]);
    } else {
      img = malloc(rowlen * ss + 16);
      for (y = 0; y < (int)c.image_height; y++) {
        for (i = 0; i < rowlen; i++) {
          unsigned long long m = c03_mix(rs + (unsigned long long)y * 70001ULL + i);
          int v = (int)(m % (unsigned long long)(mx + 1));
          if (fam == 7) v = (m & 1ULL) ? mx : 0;
          if (ss == 1) ((unsigned char *)img)[i] = (unsigned char)v; else ((unsigned short *)img)[i] = (unsigned short)v;
        }
        if (c.data_precision <= 8) { JSAMPROW rp = (JSAMPROW)img; jpeg_write_scanlines(&c, &rp, 1); }
        else if (c.data_precision <= 12) { J12SAMPROW rp = (J12SAMPROW)img; jpeg12_write_scanlines(&c, &rp, 1); }
        else { J16SAMPROW rp = (J16SAMPROW)img; jpeg16_write_scanlines(&c, &rp, 1); }
      }
    }
  }
  jpeg_finish_compress(&c);
  {
    int P = c.data_precision, nco = c.num_components, ll = lossless, jcs = (int)c.jpeg_color_space, ad = c.write_Adobe_marker, jf = c.write_JFIF_header, ccir = c.CCIR601_sampling;
    jpeg_destroy_compress(&c);
    printf("R skip ok %lu p%d nc%d ll%d raw%d jcs%d adobe%d jfif%d ccir%d hh%d\n", jn, P, nco, ll, rawin, jcs, ad, jf, ccir, hh);
  }
  if (getenv("C17_DUMP")) { FILE *f = fopen(getenv("C17_DUMP"), "wb"); fwrite(jp, 1, jn, f); fclose(f); }
  if (jn < 4 || jp[0] != 0xFF || jp[1] != 0xD8 || jp[jn - 2] != 0xFF || jp[jn - 1] != 0xD9) printf("O fail cparam: success reported but the stream does not run from SOI to EOI (%lu bytes)\n", jn);
  else if ((bad = c17_decode(jp, jn, w, h, &warn, &err)) != NULL) printf("O fail cparam: compressor reported success but %s\n", bad);
  else printf("O ok\n");
  free(jp); free(img); for (ci = 0; ci < 10; ci++) free(raw[ci]);
  return 1;
}

/* xcoef prec mode val pos nblocks tblkind : direct coefficient input; val placed at `pos` (or everywhere if pos < 0, alternating sign if pos == -2) */
static int c17_xcoef(toks_t *t)
{
  int prec = (int)tl(t, 1), mode = (int)tl(t, 2), val = (int)tl(t, 3), pos = (int)tl(t, 4), nb = (int)tl(t, 5), tk = (int)tl(t, 6), k, err = 0, warn = 0; const char *bad;
  struct jpeg_compress_struct c; my_err_t e; unsigned char *jp = NULL; unsigned long jn = 0; jvirt_barray_ptr arr[1]; JDIMENSION bx; unsigned long long rs = 99;
  c.err = my_err_init(&e);
  jpeg_create_compress(&c);
  if (setjmp(e.jb)) { printf("R skip err %d\n", e.code); printf("O ok\n"); jpeg_destroy_compress(&c); free(jp); return 1; }
  jpeg_mem_dest(&c, &jp, &jn);
  c.image_width = (JDIMENSION)(8 * nb); c.image_height = 8; c.input_components = 1; c.in_color_space = JCS_GRAYSCALE;
  jpeg_set_defaults(&c);
  c.data_precision = prec;
  c.optimize_coding = (mode == 1); c.arith_code = (mode == 3);
  if (mode == 2) jpeg_simple_progression(&c);
  if (tk > 0) { c17_hostile_huff(&c, &rs, 0, 0, tk == 1 ? 5 : 0); c17_hostile_huff(&c, &rs, 0, 1, tk == 1 ? 5 : 0); }
  arr[0] = (*c.mem->request_virt_barray) ((j_common_ptr)&c, JPOOL_IMAGE, TRUE, (JDIMENSION)nb, 1, 1);
  jpeg_write_coefficients(&c, arr);
  {
    JBLOCKARRAY ba = (*c.mem->access_virt_barray) ((j_common_ptr)&c, arr[0], 0, 1, TRUE);
    for (bx = 0; bx < (JDIMENSION)nb; bx++) for (k = 0; k < 64; k++)
      ba[0][bx][k] = (JCOEF)(pos == -1 ? val : pos == -2 ? (((k + (int)bx) & 1) ? -val : val) : (k == pos ? val : 0));
  }
  jpeg_finish_compress(&c);
  jpeg_destroy_compress(&c);
  printf("R skip ok %lu\n", jn);
  if (jn < 4 || jp[jn - 2] != 0xFF || jp[jn - 1] != 0xD9) printf("O fail xcoef: success reported but no EOI\n");
  else if ((bad = c17_decode(jp, jn, 8 * nb, 8, &warn, &err)) != NULL) printf("O fail xcoef: compressor reported success but %s\n", bad);
  else printf("O ok\n");
  free(jp);
  return 1;
}

/* vscript prec nc n (comps_in_scan i0 i1 i2 i3 Ss Se Ah Al)*n : the scan script handed to jpeg_start_compress() of a small image with
 * nc components; R: "ok seq|prog|lossless [dec w|dec bad]" or "err code [parameter]" for the errors validate_script() raises.  For an
 * accepted progressive script the file is completed and read back: "dec w" = number of JWRN_BOGUS_PROGRESSION warnings of the own
 * decoder, "dec bad" = JERR_BAD_PROGRESSION.  Oracle: an accepted script yields a file the own decoder reads without error or warning. */
static int c17_vscript(toks_t *t)
{
  int prec = (int)tl(t, 1), nc = (int)tl(t, 2), n = (int)tl(t, 3), i, k, y;
  static jpeg_scan_info scans[64]; struct jpeg_compress_struct c; my_err_t e; unsigned char *jp = NULL; unsigned long jn = 0;
  volatile int started = 0; static JSAMPLE row8[16 * 10]; static J12SAMPLE row12[16 * 10];
  if (n > 64) n = 64;
  if (t->n < 4 + 9 * n) { printf("R skip short\n"); return 1; }
  for (i = 0; i < n; i++) {
    scans[i].comps_in_scan = (int)tl(t, 4 + 9 * i);
    for (k = 0; k < 4; k++) scans[i].component_index[k] = (int)tl(t, 5 + 9 * i + k);
    scans[i].Ss = (int)tl(t, 9 + 9 * i); scans[i].Se = (int)tl(t, 10 + 9 * i); scans[i].Ah = (int)tl(t, 11 + 9 * i); scans[i].Al = (int)tl(t, 12 + 9 * i);
  }
  c.err = my_err_init(&e);
  jpeg_create_compress(&c);
  if (setjmp(e.jb)) {
    int code = e.code;
    if (!started && (code == JERR_BAD_SCAN_SCRIPT || code == JERR_COMPONENT_COUNT || code == JERR_BAD_PROG_SCRIPT)) printf("R err %d %d\n", code, e.pub.msg_parm.i[0]);
    else if (!started && code == JERR_MISSING_DATA) printf("R err %d\n", code);
    else {
      /* an error raised after validate_script() accepted the script (e.g. a lossless script with a setting lossless mode refuses) */
      printf("R ok %s\n", c.master && c.master->lossless ? "lossless" : c.progressive_mode ? "prog" : "seq");
    }
    jpeg_destroy_compress(&c); free(jp);
    return 1;
  }
  jpeg_mem_dest(&c, &jp, &jn);
  c.image_width = 16; c.image_height = 8; c.input_components = nc; c.in_color_space = nc == 1 ? JCS_GRAYSCALE : nc == 3 ? JCS_RGB : nc == 4 ? JCS_CMYK : JCS_UNKNOWN;
  c.data_precision = prec;
  jpeg_set_defaults(&c);
  c.data_precision = prec;
  if (nc == 3) jpeg_set_colorspace(&c, JCS_RGB); 
  for (i = 0; i < c.num_components; i++) { c.comp_info[i].h_samp_factor = c.comp_info[i].v_samp_factor = 1; }
  c.scan_info = scans; c.num_scans = n;
  jpeg_start_compress(&c, TRUE);
  started = 1;
  {
    const char *mode = c.master->lossless ? "lossless" : c.progressive_mode ? "prog" : "seq"; int isprog = c.progressive_mode && !c.master->lossless;
    for (y = 0; y < 8; y++) {
      for (i = 0; i < 16 * nc; i++) { row8[i] = (JSAMPLE)((i * 7 + y * 13) & 255); row12[i] = (J12SAMPLE)((i * 97 + y * 131) & 4095); }
      if (prec == 12) { J12SAMPROW rp = row12; jpeg12_write_scanlines(&c, &rp, 1); } else { JSAMPROW rp = row8; jpeg_write_scanlines(&c, &rp, 1); }
    }
    jpeg_finish_compress(&c);
    jpeg_destroy_compress(&c);
    {
      struct jpeg_decompress_struct d; my_err_t ed; int w = 0, bad = 0, other = 0, islossless = !strcmp(mode, "lossless");
      d.err = my_err_init(&ed);
      jpeg_create_decompress(&d);
      if (setjmp(ed.jb)) { if (ed.code == JERR_BAD_PROGRESSION) bad = 1; else other = ed.code; }
      else {
        jpeg_mem_src(&d, jp, jn);
        jpeg_read_header(&d, TRUE);
        if (islossless) {
          d.out_color_space = d.jpeg_color_space;
          jpeg_start_decompress(&d);
          while (d.output_scanline < d.output_height) {
            if (prec == 12) { J12SAMPROW rp = row12; jpeg12_read_scanlines(&d, &rp, 1); } else { JSAMPROW rp = row8; jpeg_read_scanlines(&d, &rp, 1); }
          }
        } else (void)jpeg_read_coefficients(&d);
        jpeg_finish_decompress(&d);
      }
      for (i = 0; i < ed.nwarn && i < 64; i++) if (ed.warn[i] == JWRN_BOGUS_PROGRESSION) w++;
      jpeg_destroy_decompress(&d);
      if (!isprog) printf("R ok %s\n", mode); else if (bad) printf("R ok prog dec bad\n"); else printf("R ok prog dec %d\n", w);
      if (bad || w || other || ed.nwarn) printf("O fail vscript: the compressor accepted the scan script (%s), its own decoder %s (error %d, %d warnings, %d of them JWRN_BOGUS_PROGRESSION)\n", mode, bad ? "rejects the progression" : other ? "fails" : "warns", bad ? JERR_BAD_PROGRESSION : other, ed.nwarn, w);
      else printf("O ok\n");
    }
  }
  free(jp);
  return 1;
}


static int dispatch_c17(toks_t *t)
{
  if (!strcmp(t->tok[0], "vscript") && t->n >= 4) return c17_vscript(t);
  if (!strcmp(t->tok[0], "creuse") && t->n >= 3) return c17_creuse(t);
  if (!strcmp(t->tok[0], "rstrows") && t->n >= 5) return c17_rstrows(t);
  if (!strcmp(t->tok[0], "cparam") && t->n >= 3) return c17_cparam(t);
  if (!strcmp(t->tok[0], "xcoef") && t->n >= 7) return c17_xcoef(t);
  return 0;
}
