import LJT.Gen.TJ
import LJT.Gen.Src
/-! Colour conversion with the packed-pixel layout as a parameter: `rgb_ycc_convert`,
`rgb_gray_convert` (jccolor.c / jccolext.c), `ycc_rgb_convert` (jdcolor.c / jdcolext.c),
for 8- and 12-bit samples.  Layouts come from the regenerated offset tables. -/
namespace LJT.Color
open LJT.Gen LJT.Gen.Src

structure Layout where
  r : Nat
  g : Nat
  b : Nat
  a : Option Nat     -- position written with the maximum sample value on output (alpha / X byte)
  size : Nat
deriving Repr, DecidableEq

/-- layout of a libjpeg extended colourspace (jmorecfg.h `rgb_red[]` ...); every 4-sample
extended format gets its fourth sample set to the maximum on output -/
def layoutOfCS (cs : Nat) : Option Layout :=
  let r := rgbRed.getD cs (-1); let g := rgbGreen.getD cs (-1); let b := rgbBlue.getD cs (-1)
  let sz := rgbPixelsize.getD cs (-1)
  if r < 0 ∨ g < 0 ∨ b < 0 ∨ sz < 3 then none
  else
    let a := if sz = 4 then some (6 - r.toNat - g.toNat - b.toNat) else none
    some ⟨r.toNat, g.toNat, b.toNat, a, sz.toNat⟩

/-- layout of a TurboJPEG pixel format (turbojpeg.h `tjRedOffset[]` ...) -/
def layoutOfPF (pf : Nat) : Option Layout :=
  let r := tjRedOffset.getD pf (-1); let g := tjGreenOffset.getD pf (-1); let b := tjBlueOffset.getD pf (-1)
  let sz := tjPixelSize.getD pf 0
  if r < 0 ∨ g < 0 ∨ b < 0 ∨ sz < 3 then none
  else some ⟨r.toNat, g.toNat, b.toNat, if sz = 4 then some (6 - r.toNat - g.toNat - b.toNat) else none, sz⟩

def Layout.Valid (L : Layout) : Prop :=
  L.r < L.size ∧ L.g < L.size ∧ L.b < L.size ∧ L.r ≠ L.g ∧ L.r ≠ L.b ∧ L.g ≠ L.b ∧
  (∀ a, L.a = some a → a < L.size ∧ a ≠ L.r ∧ a ≠ L.g ∧ a ≠ L.b)

/-- executable form of `Valid` -/
def Layout.validB (L : Layout) : Bool :=
  decide (L.r < L.size) && decide (L.g < L.size) && decide (L.b < L.size) &&
  decide (L.r ≠ L.g) && decide (L.r ≠ L.b) && decide (L.g ≠ L.b) &&
  (match L.a with
   | none => true
   | some a => decide (a < L.size) && decide (a ≠ L.r) && decide (a ≠ L.g) && decide (a ≠ L.b))

theorem Layout.valid_of_validB (L : Layout) (h : L.validB = true) : L.Valid := by
  unfold Layout.validB at h
  unfold Layout.Valid
  simp only [Bool.and_eq_true, decide_eq_true_eq] at h
  obtain ⟨⟨⟨⟨⟨⟨h1, h2⟩, h3⟩, h4⟩, h5⟩, h6⟩, h7⟩ := h
  refine ⟨h1, h2, h3, h4, h5, h6, ?_⟩
  intro a ha
  rw [ha] at h7
  simp only [Bool.and_eq_true, decide_eq_true_eq] at h7
  exact ⟨h7.1.1.1, h7.1.1.2, h7.1.2, h7.2⟩

def ONE_HALF : Int := 32768

/-- RGB -> YCbCr for one pixel, `center` = 128 or 2048 (arithmetic shift by SCALEBITS) -/
def rgb2ycc (center : Int) (p : Int × Int × Int) : Int × Int × Int :=
  let (r, g, b) := p
  ((c_R_Y_OFF * r + c_G_Y_OFF * g + c_B_Y_OFF * b + ONE_HALF) / 65536,
   (c_R_CB_OFF * r + c_G_CB_OFF * g + c_B_CB_OFF * b + center * 65536 + ONE_HALF - 1) / 65536,
   (c_B_CB_OFF * r + c_G_CR_OFF * g + c_B_CR_OFF * b + center * 65536 + ONE_HALF - 1) / 65536)

def rgb2gray (p : Int × Int × Int) : Int :=
  let (r, g, b) := p
  (c_R_Y_OFF * r + c_G_Y_OFF * g + c_B_Y_OFF * b + ONE_HALF) / 65536

def clamp (maxJ x : Int) : Int := if x < 0 then 0 else if x > maxJ then maxJ else x

/-- YCbCr -> RGB for one pixel -/
def ycc2rgb (center maxJ : Int) (p : Int × Int × Int) : Int × Int × Int :=
  let (y, cb, cr) := p
  (clamp maxJ (y + (d_Cr_r_tab * (cr - center) + ONE_HALF) / 65536),
   clamp maxJ (y + (d_Cb_g_tab * (cb - center) + ONE_HALF + d_Cr_g_tab * (cr - center)) / 65536),
   clamp maxJ (y + (d_Cb_b_tab * (cb - center) + ONE_HALF) / 65536))

/-- the samples of one packed pixel: `fill` goes into every position that is not R, G, B -/
def packPixel (L : Layout) (p : Int × Int × Int) (fill : Int) : List Int :=
  (List.range L.size).map (fun k => if k = L.r then p.1 else if k = L.g then p.2.1 else if k = L.b then p.2.2 else fill)

def packRow (L : Layout) : List ((Int × Int × Int) × Int) → List Int
  | [] => []
  | (p, f) :: rest => packPixel L p f ++ packRow L rest

/-- read `n` pixels from a packed row (`inptr += RGB_PIXELSIZE`) -/
def extractRow (L : Layout) : Nat → List Int → List (Int × Int × Int)
  | 0, _ => []
  | n + 1, row => (row.getD L.r 0, row.getD L.g 0, row.getD L.b 0) :: extractRow L n (row.drop L.size)

def alphaRow (L : Layout) : Nat → List Int → List (Option Int)
  | 0, _ => []
  | n + 1, row => (L.a.map (fun a => row.getD a 0)) :: alphaRow L n (row.drop L.size)

/-- compressor side: packed RGB row -> YCbCr triples -/
def compressRow (L : Layout) (center : Int) (n : Nat) (row : List Int) : List (Int × Int × Int) :=
  (extractRow L n row).map (rgb2ycc center)

/-- decompressor side: YCbCr triples -> packed row; the fourth sample (alpha or X) is the maximum -/
def emitRow (L : Layout) (center maxJ : Int) (ycc : List (Int × Int × Int)) : List Int :=
  packRow L (ycc.map (fun p => (ycc2rgb center maxJ p, maxJ)))

end LJT.Color
