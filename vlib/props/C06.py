"""C06 - lossless transforms move DCT blocks exactly and obey group laws."""
ID = "C06"
VARIANTS = ["san", "simd"]
RULE = ("xform: source JPEGs written with jpeg_write_coefficients from a coefficient formula shared with the model (all 7 "
        "subsamplings incl. gray, non-standard luma factors, partial iMCUs on either edge, asymmetric 8/16-bit quant tables, "
        "baseline or progressive source) x 8 operations x option subsets {perfect, trim, crop(x,y,w,h), gray, progressive, "
        "arithmetic, optimize}; the real tj3Transform output (dimensions, sampling factors, table and block hashes per component) "
        "must equal the closed-form model; on whole-iMCU images op followed by its inverse must restore the source (real library)")
TRUSTED = ["Model.Transform is a closed-form model of the transupp.c block movers and planner (tied block-exactly by the xform op)"]
ASSUMPTIONS = ["crop extension, wipe and drop are outside C06 and not modelled; crop x,y are iMCU multiples (TurboJPEG requires it)"]


def classify(op, R):
    p = op.split(" ")
    if p[0] == "xformn":
        return "xformn:n%s:first%s:%s" % (p[6], p[7], "err" if R.startswith("err") else "ok")
    return "xform:op%s:ss%s:opts%s:%s" % (p[1], p[2], p[5], "err" if R.startswith("err") else "ok")


def gen_ops(rng, tier):
    ops = []
    big = tier == "thorough"
    for i in range(3000 if big else 420):
        op = rng.randrange(8)
        ss = rng.choice([0, 1, 2, 3, 4, 5, 6, 2, 1, 21, 12, 22, 41, 14])
        hs, vs = {0: (1, 1), 1: (2, 1), 2: (2, 2), 3: (1, 1), 4: (1, 2), 5: (4, 1), 6: (1, 4)}.get(ss, (ss // 10, ss % 10))
        if rng.random() < .35:
            w = rng.choice([1, 2, 3]) * hs * 8; h = rng.choice([1, 2, 3]) * vs * 8
        else:
            w = rng.randint(1, 3 * hs * 8 + 5); h = rng.randint(1, 3 * vs * 8 + 5)
        opts = 0
        if rng.random() < .2: opts |= 1
        if rng.random() < .35: opts |= 2
        if rng.random() < .15 and ss != 3: opts |= 8
        for bit in (32, 128, 256):
            if rng.random() < .12: opts |= bit
        if opts & 128: opts &= ~256
        cx = cy = cw = ch = 0
        if rng.random() < .4:
            opts |= 4
            swaps = op in (3, 4, 5, 7)
            fw, fh = (h, w) if swaps else (w, h)
            dh, dv = ((vs, hs) if swaps else (hs, vs)) if not (opts & 8) else (1, 1)
            iw, ih = dh * 8, dv * 8
            cx = rng.randrange(0, fw // iw + 1) * iw; cy = rng.randrange(0, fh // ih + 1) * ih
            cw = rng.choice([0, 0, max(1, fw - cx), rng.randint(1, max(1, fw - cx)), iw]) if cx < fw else 0
            ch = rng.choice([0, 0, max(1, fh - cy), rng.randint(1, max(1, fh - cy)), ih]) if cy < fh else 0
            if cx + cw > fw: cw = max(fw - cx, 0)
            if cy + ch > fh: ch = max(fh - cy, 0)
        ops.append("xform %d %d %d %d %d %d %d %d %d %d %d" % (op, ss, w, h, opts, cx, cy, cw, ch, rng.randrange(1 << 20), int(rng.random() < .2)))
    # several transforms in one call (they share the source coefficient arrays): each output must equal the transform requested alone
    for i in range(300 if big else 50):
        ss = rng.choice([0, 1, 2, 3, 4, 2])
        hs, vs = {0: (1, 1), 1: (2, 1), 2: (2, 2), 3: (1, 1), 4: (1, 2)}[ss]
        w = rng.choice([1, 2, 3]) * hs * 8 if rng.random() < .6 else rng.randint(1, 3 * hs * 8 + 5)
        h = rng.choice([1, 2, 3]) * vs * 8 if rng.random() < .6 else rng.randint(1, 3 * vs * 8 + 5)
        n = rng.randint(2, 4)
        trs = []
        for _ in range(n):
            trs += [rng.randrange(8), rng.choice([0, 0, 2, 2, 1, 32, 256])]
        ops.append("xformn %d %d %d %d %d %d %s" % (ss, w, h, rng.randrange(1 << 20), int(rng.random() < .2), n, " ".join(map(str, trs))))
    # trim + crop with a non-zero offset reaching into the partial iMCU at the mirrored edge
    for op in range(1, 8):
        for ss in (0, 2, 1):
            hs, vs = {0: (1, 1), 1: (2, 1), 2: (2, 2)}[ss]
            swaps = op in (3, 4, 5, 7)
            w, h = 3 * hs * 8 + 5, 3 * vs * 8 + 3
            dh, dv = (vs, hs) if swaps else (hs, vs)
            for (kx, ky) in ((1, 0), (0, 1), (1, 1)):
                ops.append("xform %d %d %d %d 6 %d %d 0 0 %d 0" % (op, ss, w, h, kx * dh * 8, ky * dv * 8, rng.randrange(1 << 20)))
    return ops


def search(ctx, failing_ops):
    from .. import common as C
    import random
    rng = random.Random("search/%s" % ctx["seed"])
    # re-examine with the real-library oracle (inverse law): whole-iMCU variants of the failing requests
    ops = list(failing_ops)
    for o in [x for x in failing_ops if x.startswith("xform ")][:10]:
        p = o.split(" ")
        ss = int(p[2]); hs, vs = {0: (1, 1), 1: (2, 1), 2: (2, 2), 3: (1, 1), 4: (1, 2), 5: (4, 1), 6: (1, 4)}.get(ss, (ss // 10, ss % 10))
        for k in (1, 2, 3):
            ops.append("xform %s %s %d %d 0 0 0 0 0 %s %s" % (p[1], p[2], k * hs * 8, (4 - k) * vs * 8, p[10], p[11]))
    ops += gen_ops(rng, "quick")
    found = []
    for v, exe in ctx["exes"].items():
        res, _ = C.run_exec(exe, ops)
        for op, (R, O) in zip(ops, res):
            if O and O.startswith("fail"):
                found.append((v, op, R, O))
    return found


MANIFEST = {
    "text": ("Kernel-checked Lean theorems about the closed form of the block movers: block algebra (transpose and the two sign "
             "patterns are involutions and commute as required), the inverse law for all eight operations and the composition laws "
             "(rot90 = hflip o transpose, rot270 = vflip o transpose, rot180 = vflip o hflip, transverse = rot180 o transpose) on "
             "whole-iMCU grids of any size, perfect <-> mirrored dimensions are whole iMCUs and a perfect request fails otherwise, "
             "trimming removes exactly the partial iMCU, tables are transposed iff the operation transposes. The closed form and the "
             "planner (output size, trim, crop offsets, gray, sampling-factor swap) are tied block-exactly to tj3Transform output."),
    "design_ref": "DESIGN.md 6.6",
    "note": ("Trusted: Lean kernel; axioms propext, Quot.sound, Classical.choice; the closed-form model (tied by correspondence on "
             "coefficient-level hashes for every generated request); the virtual-array layer and jpegtran's command line are not modelled."),
    "technique": "Lean 4 proof (case analysis over the 8 operations + block algebra) + block-exact model/code correspondence",
}
