import LJT.Model.DCT
import Mathlib.Data.Nat.Prime.Basic
import Mathlib.Tactic.Linarith
import Mathlib.Tactic.Ring
/-! Lemmas for C07: the reciprocal-multiplication quantiser is round-to-nearest division. -/
namespace LJT.DCT

/-- a divisor of a power of two lying in `[2^b, 2^(b+1))` is `2^b` -/
theorem pow_two_of_dvd {d b n : Nat} (hdvd : d ∣ 2 ^ n) (hlo : 2 ^ b ≤ d) (hhi : d < 2 ^ (b + 1)) : d = 2 ^ b := by
  obtain ⟨k, _, rfl⟩ := (Nat.dvd_prime_pow Nat.prime_two).1 hdvd
  have h1 : b ≤ k := (Nat.pow_le_pow_iff_right (by omega)).1 hlo
  have h2 : k < b + 1 := (Nat.pow_lt_pow_iff_right (by omega)).1 hhi
  have : k = b := by omega
  rw [this]

/-- the three branches of `compute_reciprocal`, stated on the untruncated values:
`n = |w| + d/2`, `R = 2^(W + log2 d) = d * fq + fr` -/
theorem recip_case_le {d fq fr R n A : Nat} (hd : 0 < d) (hR : R = d * fq + fr) (hfr0 : 0 < fr) (hfrd : fr < d)
    (hfr : fr ≤ d / 2) (hn : n < 2 * A) (hfq : A ≤ fq) : (n + 1) * fq / R = n / d := by
  have hRpos : 0 < R := by rw [hR]; omega
  apply Nat.div_eq_of_lt_le
  · -- (n/d) * R ≤ (n+1) * fq
    have hk : n / d * d ≤ n := Nat.div_mul_le_self n d
    have h2 : 2 * fr ≤ d := by omega
    have : 2 * (n / d * fr) ≤ n := by nlinarith
    have h3 : n / d * fr ≤ fq := by omega
    have hs : n < n / d * d + d := by
      have := Nat.lt_div_mul_add (a := n) hd; omega
    rw [hR]; nlinarith
  · -- (n+1) * fq < (n/d + 1) * R
    have hs : n < n / d * d + d := by
      have := Nat.lt_div_mul_add (a := n) hd; omega
    have : n + 1 ≤ (n / d + 1) * d := by nlinarith
    rw [hR]
    have h5 : (n + 1) * fq ≤ (n / d + 1) * d * fq := Nat.mul_le_mul_right _ this
    have h6 : 0 < (n / d + 1) * fr := Nat.mul_pos (Nat.succ_pos _) hfr0
    nlinarith

theorem recip_case_gt {d fq fr R n A : Nat} (hd : 0 < d) (hR : R = d * fq + fr) (hfrd : fr < d)
    (hfr : d / 2 < fr) (hn : n < 2 * A) (hfq : A ≤ fq) : n * (fq + 1) / R = n / d := by
  have hRpos : 0 < R := by rw [hR]; omega
  have hk : n / d * d ≤ n := Nat.div_mul_le_self n d
  have hs : n < n / d * d + d := by
    have := Nat.lt_div_mul_add (a := n) hd; omega
  apply Nat.div_eq_of_lt_le
  · rw [hR]
    have : n / d * fr ≤ n / d * d := Nat.mul_le_mul_left _ (by omega)
    nlinarith
  · rw [hR]
    have h2 : d + 1 ≤ 2 * fr := by omega
    -- n < fq + (k+1) fr
    have h3 : n < 2 * ((n / d + 1) * fr) := by nlinarith
    have h4 : n < fq + (n / d + 1) * fr := by omega
    -- s * fq ≤ d * fq - fq
    have hsd : n - n / d * d + 1 ≤ d := by omega
    have h5 : (n - n / d * d + 1) * fq ≤ d * fq := Nat.mul_le_mul_right _ hsd
    have h6 : n = n / d * d + (n - n / d * d) := by omega
    generalize n - n / d * d = s at *
    generalize n / d = k at *
    subst h6
    nlinarith


theorem recip_no_wrap {X B d fq fr : Nat} (hR : X * B = d * fq + fr) (hdB : B + 1 ≤ d) (hdX : d < X)
    (hcon : X ≤ fq + 1) : False := by
  have h1 : d * (X - 1) ≤ d * fq := Nat.mul_le_mul_left _ (by omega)
  have h2 : (B + 1) * X ≤ d * X := Nat.mul_le_mul_right _ hdB
  have h3 : d * (X - 1) = d * X - d := by rw [Nat.mul_sub, Nat.mul_one]
  have h4 : (B + 1) * X = X * B + X := by ring
  omega

theorem two_pow_pred (W : Nat) (hW : 1 ≤ W) : 2 * 2 ^ (W - 1) = 2 ^ W := by
  obtain ⟨k, rfl⟩ : ∃ k, W = k + 1 := ⟨W - 1, by omega⟩
  simp [Nat.pow_succ]; omega

/-- **the reciprocal quantiser is round-to-nearest division**: for every word size `W ≥ 16`,
every positive divisor and every magnitude below 2^15 -/
theorem quantMag_round (W d a : Nat) (hW : 16 ≤ W) (hd : 0 < d) (ha : a < 32768) :
    quantMag W (computeReciprocal W d) a = (a + d / 2) / d := by
  have hX16 : 2 ^ 16 ≤ 2 ^ W := Nat.pow_le_pow_right (by omega) hW
  have hXX : 2 ^ (2 * W) = 2 ^ W * 2 ^ W := by rw [Nat.two_mul, Nat.pow_add]
  unfold computeReciprocal
  by_cases h1 : d = 1
  · subst h1
    have : a < 2 ^ (2 * W) := by rw [hXX]; nlinarith
    simp [quantMag, Nat.mod_eq_of_lt this]
  rw [if_neg h1]
  by_cases h2 : d > 65535
  · rw [if_pos h2]
    have : a + d / 2 < d := by omega
    simp [quantMag, Nat.div_eq_of_lt this]
  rw [if_neg h2]
  have hdne : d ≠ 0 := by omega
  have hlo : 2 ^ d.log2 ≤ d := Nat.log2_self_le hdne
  have hhi : d < 2 ^ (d.log2 + 1) := Nat.lt_log2_self
  have hb15 : d.log2 < 16 := (Nat.log2_lt hdne).2 (by omega)
  generalize hb : d.log2 = b at *
  have hRdef : 2 ^ (W + b) = 2 ^ W * 2 ^ b := Nat.pow_add ..
  have hhi' : d < 2 * 2 ^ b := by rw [Nat.pow_succ] at hhi; omega
  have hAA : 2 * 2 ^ (W - 1) = 2 ^ W := two_pow_pred W (by omega)
  have hR : 2 ^ (W + b) = d * (2 ^ (W + b) / d) + 2 ^ (W + b) % d := (Nat.div_add_mod _ _).symm
  have hfrd : 2 ^ (W + b) % d < d := Nat.mod_lt _ hd
  have hn : a + d / 2 < 2 * 2 ^ (W - 1) := by omega
  have hfqA : 2 ^ (W - 1) ≤ 2 ^ (W + b) / d := by
    apply (Nat.le_div_iff_mul_le hd).2
    rw [hRdef]; nlinarith
  have hdW : d < 2 ^ W := by omega
  have hrW : ((W + b : Nat) : Int) - W + W = ((W + b : Nat) : Int) := by omega
  by_cases hfr0 : 2 ^ (W + b) % d = 0
  · -- divisor is a power of two
    simp only [hfr0, if_true]
    have hdp : d = 2 ^ b := pow_two_of_dvd (Nat.dvd_of_mod_eq_zero hfr0) hlo hhi
    have hb1 : 1 ≤ b := by
      rcases Nat.eq_zero_or_pos b with h0 | h0
      · subst h0; simp at hdp; omega
      · exact h0
    have hfq : 2 ^ (W + b) / d = 2 ^ W := by
      rw [hdp, hRdef]; exact Nat.mul_div_cancel _ (Nat.pow_pos (by omega))
    have hhalf : 2 ^ W / 2 = 2 ^ (W - 1) := by omega
    have hc : d / 2 % 2 ^ W = d / 2 := Nat.mod_eq_of_lt (by omega)
    have hq : 2 ^ (W - 1) % 2 ^ W = 2 ^ (W - 1) := Nat.mod_eq_of_lt (by omega)
    have hprod : (a + d / 2) * 2 ^ (W - 1) < 2 ^ (2 * W) := by rw [hXX]; nlinarith
    have hsh : (((W + b - 1 : Nat) : Int) - W + W).toNat = W + b - 1 := by omega
    have hsplit : 2 ^ (W + b - 1) = 2 ^ b * 2 ^ (W - 1) := by
      rw [← Nat.pow_add]; congr 1; omega
    simp only [quantMag, hfq, hhalf, hc, hq, Nat.mod_eq_of_lt hprod, hsh, hsplit]
    rw [Nat.mul_div_mul_right _ _ (Nat.pow_pos (by omega)), hdp]
  · simp only [hfr0, if_false]
    have hfr0' : 0 < 2 ^ (W + b) % d := Nat.pos_of_ne_zero hfr0
    have hdB : 2 ^ b + 1 ≤ d := by
      rcases Nat.lt_or_ge (2 ^ b) d with h | h
      · omega
      · exfalso; apply hfr0
        have : d = 2 ^ b := by omega
        rw [this, hRdef]; exact Nat.mul_mod_left _ _
    generalize hfqd : 2 ^ (W + b) / d = fq at *
    generalize hfrd' : 2 ^ (W + b) % d = fr at *
    have hsh : (((W + b : Nat) : Int) - W + W).toNat = W + b := by omega
    by_cases hle : fr ≤ d / 2
    · simp only [hle, if_true]
      have hfqlt : fq < 2 ^ W := by
        have : fq * d < 2 ^ W * d := by rw [hRdef] at hR; nlinarith
        exact Nat.lt_of_mul_lt_mul_right this
      have hc : (d / 2 + 1) % 2 ^ W = d / 2 + 1 := Nat.mod_eq_of_lt (by omega)
      have hprod : (a + (d / 2 + 1)) * fq < 2 ^ (2 * W) := by
        rw [hXX]; exact Nat.mul_lt_mul_of_le_of_lt (by omega) hfqlt (by omega)
      simp only [quantMag, Nat.mod_eq_of_lt hfqlt, hc, Nat.mod_eq_of_lt hprod, hsh]
      have := recip_case_le (n := a + d / 2) hd hR hfr0' hfrd hle hn hfqA
      rw [← this]; congr 1
    · simp only [hle, if_false]
      have hfq1 : fq + 1 < 2 ^ W := by
        rw [hRdef] at hR
        by_contra hcon
        exact recip_no_wrap hR hdB hdW (by omega)
      have hc : d / 2 % 2 ^ W = d / 2 := Nat.mod_eq_of_lt (by omega)
      have hprod : (a + d / 2) * (fq + 1) < 2 ^ (2 * W) := by rw [hXX]; exact Nat.mul_lt_mul'' (by omega) hfq1
      simp only [quantMag, Nat.mod_eq_of_lt hfq1, hc, Nat.mod_eq_of_lt hprod, hsh]
      exact recip_case_gt hd hR hfrd (by omega) hn hfqA


theorem quantize8_round (W d : Nat) (w : Int) (hW : 16 ≤ W) (hd : 0 < d) (hw : w.natAbs < 32768) :
    quantize8 W d w = roundDiv d w := by
  simp only [quantize8, roundDiv, quantMag_round W d _ hW hd hw]

theorem quantize12_round (d : Nat) (w : Int) (hd : 0 < d) : quantize12 d w = roundDiv d w := by
  unfold quantize12 roundDiv
  by_cases h : w.natAbs + d / 2 ≥ d
  · simp [h]
  · have : (w.natAbs + d / 2) / d = 0 := Nat.div_eq_of_lt (by omega)
    simp [h, this]

/-- rounding to the nearest multiple: the quantisation error is at most half a step -/
theorem roundDiv_err (d : Nat) (hd : 0 < d) (w : Int) :
    - ((d / 2 : Nat) : Int) ≤ w - (d : Int) * roundDiv d w ∧ w - (d : Int) * roundDiv d w ≤ ((d / 2 : Nat) : Int) := by
  unfold roundDiv
  have h1 : (w.natAbs + d / 2) / d * d ≤ w.natAbs + d / 2 := Nat.div_mul_le_self _ _
  have h2 : w.natAbs + d / 2 < (w.natAbs + d / 2) / d * d + d := by
    have := Nat.lt_div_mul_add (a := w.natAbs + d / 2) hd; omega
  generalize hm : (w.natAbs + d / 2) / d = m at *
  have hp : ((m * d : Nat) : Int) = (d : Int) * (m : Int) := by push_cast; ring
  generalize hmd : m * d = p at *
  by_cases hneg : w < 0
  · simp only [hneg, if_true]
    have : (d : Int) * -(m : Int) = - ((d : Int) * (m : Int)) := by ring
    rw [this, ← hp]; omega
  · simp only [hneg, if_false]
    rw [← hp]; omega

open LJT.Gen.Src
theorem rangeLimit_clamp (prec : Nat) (z : Int)
    (h1 : - (2 * (maxSample prec + 1)) ≤ z) (h2 : z < 2 * (maxSample prec + 1)) :
    rangeLimit prec z = max 0 (min (maxSample prec) (z + center prec)) := by
  unfold rangeLimit maxSample center at *
  by_cases hp : prec ≤ 8 <;> simp only [hp, if_true, if_false] at * <;> omega

theorem idctColGen_zero_ac (P : Nat) (hP : P = 1 ∨ P = 2) (c0 q0 q1 q2 q3 q4 q5 q6 q7 : Int) :
    idctColGen P [c0, 0, 0, 0, 0, 0, 0, 0] [q0, q1, q2, q3, q4, q5, q6, q7] =
      List.replicate 8 (c0 * q0 * 2 ^ P) := by
  generalize hy : c0 * q0 = y
  rcases hP with rfl | rfl <;>
    simp [idctColGen, descale, i_CONST_BITS8, hy, List.replicate] <;> omega

theorem idctRowGen_zero_ac (P : Nat) (hP : P = 1 ∨ P = 2) (w0 : Int) :
    idctRowGen P [w0, 0, 0, 0, 0, 0, 0, 0] = List.replicate 8 (descale w0 (P + 3)) := by
  rcases hP with rfl | rfl <;>
    simp [idctRowGen, descale, i_CONST_BITS8, List.replicate] <;> omega

theorem rows_const (v : Int) : rows (List.replicate 64 v) = List.replicate 8 (List.replicate 8 v) := by
  simp [rows, List.range, List.range.loop, List.replicate]
theorem rows_const' (x : Int) : rows (List.replicate 64 x) =
    [[x,x,x,x,x,x,x,x],[x,x,x,x,x,x,x,x],[x,x,x,x,x,x,x,x],[x,x,x,x,x,x,x,x],[x,x,x,x,x,x,x,x],[x,x,x,x,x,x,x,x],[x,x,x,x,x,x,x,x],[x,x,x,x,x,x,x,x]] := by
  simp [rows, List.range, List.range.loop, List.replicate]

theorem fdct1d_true_const (P : Nat) (hP : P = 1 ∨ P = 2) (x : Int) :
    fdct1d true P [x,x,x,x,x,x,x,x] = [8 * x * 2 ^ P, 0, 0, 0, 0, 0, 0, 0] := by
  rcases hP with rfl | rfl <;> simp [fdct1d, descale, f_CONST_BITS8] <;> omega

theorem fdct1d_false_const (P : Nat) (hP : P = 1 ∨ P = 2) (y : Int) :
    fdct1d false P [y,y,y,y,y,y,y,y] = [descale (8 * y) P, 0, 0, 0, 0, 0, 0, 0] := by
  rcases hP with rfl | rfl <;> simp [fdct1d, descale, f_CONST_BITS8] <;> omega

theorem transpose8_dc (a : Int) :
    transpose8 [[a,0,0,0,0,0,0,0],[a,0,0,0,0,0,0,0],[a,0,0,0,0,0,0,0],[a,0,0,0,0,0,0,0],[a,0,0,0,0,0,0,0],[a,0,0,0,0,0,0,0],[a,0,0,0,0,0,0,0],[a,0,0,0,0,0,0,0]] =
    [[a,a,a,a,a,a,a,a],[0,0,0,0,0,0,0,0],[0,0,0,0,0,0,0,0],[0,0,0,0,0,0,0,0],[0,0,0,0,0,0,0,0],[0,0,0,0,0,0,0,0],[0,0,0,0,0,0,0,0],[0,0,0,0,0,0,0,0]] := by
  simp [transpose8, List.range, List.range.loop]

theorem transpose8_dc' (a : Int) :
    transpose8 [[a,0,0,0,0,0,0,0],[0,0,0,0,0,0,0,0],[0,0,0,0,0,0,0,0],[0,0,0,0,0,0,0,0],[0,0,0,0,0,0,0,0],[0,0,0,0,0,0,0,0],[0,0,0,0,0,0,0,0],[0,0,0,0,0,0,0,0]] =
    [[a,0,0,0,0,0,0,0],[0,0,0,0,0,0,0,0],[0,0,0,0,0,0,0,0],[0,0,0,0,0,0,0,0],[0,0,0,0,0,0,0,0],[0,0,0,0,0,0,0,0],[0,0,0,0,0,0,0,0],[0,0,0,0,0,0,0,0]] := by
  simp [transpose8, List.range, List.range.loop]

theorem fdctIslow_const (P : Nat) (hP : P = 1 ∨ P = 2) (x : Int) :
    fdctIslow P (List.replicate 64 x) = (64 * x) :: List.replicate 63 0 := by
  have h0 := fdct1d_false_const P hP 0
  have hd : descale (8 * (8 * x * 2 ^ P)) P = 64 * x := by
    rcases hP with rfl | rfl <;> simp [descale] <;> omega
  have hz : descale (8 * 0) P = 0 := by
    rcases hP with rfl | rfl <;> simp [descale]
  simp only [fdctIslow, rows_const', List.map, fdct1d_true_const P hP, transpose8_dc, fdct1d_false_const P hP, hd, hz, transpose8_dc']
  simp [List.replicate]

theorem roundDiv_zero (d : Nat) (hd : 0 < d) : roundDiv d 0 = 0 := by
  have : (0 + d / 2) / d = 0 := Nat.div_eq_of_lt (by omega)
  simp only [roundDiv, Int.natAbs_zero, this]; simp

theorem roundDiv_mag (d : Nat) (hd : 0 < d) (w : Int) : (roundDiv d w).natAbs * d ≤ 2 * w.natAbs := by
  unfold roundDiv
  have h1 : (w.natAbs + d / 2) / d * d ≤ w.natAbs + d / 2 := Nat.div_mul_le_self _ _
  generalize hm : (w.natAbs + d / 2) / d = m at *
  have habs : (if w < 0 then -(m : Int) else (m : Int)).natAbs = m := by
    split <;> simp
  rw [habs]
  rcases Nat.eq_zero_or_pos m with h0 | h0
  · subst h0; simp
  · have : d ≤ m * d := Nat.le_mul_of_pos_left d h0
    omega

theorem quantizeCoef_round (prec W q : Nat) (w : Int) (hW : 16 ≤ W) (hq : 1 ≤ q)
    (hw : prec ≤ 8 → w.natAbs < 32768) : quantizeCoef prec W q w = roundDiv (q * 8) w := by
  unfold quantizeCoef
  by_cases hp : prec ≤ 8
  · simp only [hp, if_true]; exact quantize8_round W _ w hW (by omega) (hw hp)
  · simp only [hp, if_false]; exact quantize12_round _ w (by omega)

theorem forwardBlock_const (prec W : Nat) (hprec : prec = 8 ∨ prec = 12) (hW : 16 ≤ W) (q : List Nat)
    (hpos : ∀ k, 1 ≤ q.getD k 1) (x : Int) (hx : prec ≤ 8 → (64 * x).natAbs < 32768) :
    forwardBlock prec W q (List.replicate 64 (x + center prec)) =
      roundDiv (q.getD 0 1 * 8) (64 * x) :: List.replicate 63 0 := by
  have hP : pass1Bits prec = 1 ∨ pass1Bits prec = 2 := by
    rcases hprec with rfl | rfl <;> simp [pass1Bits, f_PASS1_BITS8, f_PASS1_BITS12]
  have hmap : List.map (fun s => s - center prec) (List.replicate 64 (x + center prec)) = List.replicate 64 x := by
    simp
  unfold forwardBlock
  simp only [hmap, fdctIslow_const _ hP]
  rw [List.range_succ_eq_map, List.map_cons, List.map_map]
  congr 1
  · simp only [List.getD_cons_zero]
    exact quantizeCoef_round prec W _ _ hW (hpos 0) hx
  · rw [List.eq_replicate_iff]
    constructor
    · simp
    · intro b hb
      rw [List.mem_map] at hb
      obtain ⟨k, hk, rfl⟩ := hb
      rw [List.mem_range] at hk
      have : ((64 * x) :: List.replicate 63 0).getD (k + 1) 0 = 0 := by
        rw [List.getD_cons_succ, List.getD_eq_getElem?_getD, List.getElem?_replicate]
        split <;> rfl
      simp only [Function.comp, this]
      rw [quantizeCoef_round prec W _ _ hW (hpos _) (by intro _; simp), roundDiv_zero (q.getD (k + 1) 1 * 8) (by have := hpos (k+1); omega)]

theorem rows_dc (Q : Int) : rows (Q :: List.replicate 63 0) =
    [[Q,0,0,0,0,0,0,0],[0,0,0,0,0,0,0,0],[0,0,0,0,0,0,0,0],[0,0,0,0,0,0,0,0],[0,0,0,0,0,0,0,0],[0,0,0,0,0,0,0,0],[0,0,0,0,0,0,0,0],[0,0,0,0,0,0,0,0]] := by
  simp [rows, List.range, List.range.loop, List.replicate]

theorem idctCol_dc (P : Nat) (Q a0 a1 a2 a3 a4 a5 a6 a7 : Int) :
    idctCol P [Q,0,0,0,0,0,0,0] [a0,a1,a2,a3,a4,a5,a6,a7] =
      [Q * a0 * 2 ^ P, Q * a0 * 2 ^ P, Q * a0 * 2 ^ P, Q * a0 * 2 ^ P, Q * a0 * 2 ^ P, Q * a0 * 2 ^ P, Q * a0 * 2 ^ P, Q * a0 * 2 ^ P] := by
  simp [idctCol]

theorem idctRow_dc (P : Nat) (w : Int) :
    idctRow P [w,0,0,0,0,0,0,0] = [descale w (P+3), descale w (P+3), descale w (P+3), descale w (P+3), descale w (P+3), descale w (P+3), descale w (P+3), descale w (P+3)] := by
  simp [idctRow]

theorem idctIslow_dc (prec : Nat) (Q : Int) (q : List Nat) :
    idctIslow prec (Q :: List.replicate 63 0) q =
      List.replicate 64 (rangeLimit prec (descale (Q * ((q.getD 0 0 : Nat) : Int) * 2 ^ ipass1Bits prec) (ipass1Bits prec + 3))) := by
  unfold idctIslow
  simp only [rows_dc, transpose8_dc']
  generalize ipass1Bits prec = P
  simp [rows, transpose8, List.range, List.range.loop, idctCol_dc, idctRow_dc, List.replicate]
  cases q[0]? <;> simp

theorem constant_block_bound (prec W : Nat) (hprec : prec = 8 ∨ prec = 12) (hW : 16 ≤ W) (q : List Nat)
    (hne : q ≠ []) (hpos : ∀ k, 1 ≤ q.getD k 1) (v : Int) (hv0 : 0 ≤ v) (hv1 : v ≤ maxSample prec) :
    ∀ y ∈ roundtripBlock prec W q (List.replicate 64 v), (y - v).natAbs ≤ (q.getD 0 1 + 15) / 16 + 1 := by
  intro y hy
  obtain ⟨q0, qt, rfl⟩ : ∃ q0 qt, q = q0 :: qt := by
    cases q with
    | nil => exact absurd rfl hne
    | cons a t => exact ⟨a, t, rfl⟩
  have hq0 : 1 ≤ q0 := by simpa using hpos 0
  have hvx : v = (v - center prec) + center prec := by omega
  generalize hx : v - center prec = x at hvx
  have hxr : - center prec ≤ x ∧ x ≤ maxSample prec - center prec := by omega
  have hw : prec ≤ 8 → (64 * x).natAbs < 32768 := by
    intro hp; simp only [center, maxSample, hp, if_true] at hxr; omega
  rw [roundtripBlock, hvx, forwardBlock_const prec W hprec hW _ hpos x hw, idctIslow_dc] at hy
  rw [List.mem_replicate] at hy
  obtain ⟨_, rfl⟩ := hy
  simp only [List.getD_cons_zero]
  have hd : 0 < q0 * 8 := by omega
  obtain ⟨e1, e2⟩ := roundDiv_err (q0 * 8) hd (64 * x)
  have e3 := roundDiv_mag (q0 * 8) hd (64 * x)
  generalize roundDiv (q0 * 8) (64 * x) = Q at *
  have hY : ((q0 * 8 : Nat) : Int) * Q = 8 * (Q * (q0 : Int)) := by push_cast; ring
  have hYa : Q.natAbs * (q0 * 8) = 8 * (Q * (q0 : Int)).natAbs := by rw [Int.natAbs_mul]; simp; ring
  rw [hY] at e1 e2
  rw [hYa] at e3
  generalize Q * (q0 : Int) = Y at *
  have h48 : q0 * 8 / 2 = 4 * q0 := by omega
  rw [h48] at e1 e2
  rcases hprec with rfl | rfl
  · simp only [center, maxSample, ipass1Bits, i_PASS1_BITS8, descale] at *
    simp only [show (8:Nat) ≤ 8 from Nat.le_refl _, if_true] at *
    have hz1 : -(2 * (maxSample 8 + 1)) ≤ (Y * 2 ^ 2 + 2 ^ (2 + 3 - 1)) / 2 ^ (2 + 3) := by simp [maxSample]; omega
    have hz2 : (Y * 2 ^ 2 + 2 ^ (2 + 3 - 1)) / 2 ^ (2 + 3) < 2 * (maxSample 8 + 1) := by simp [maxSample]; omega
    rw [rangeLimit_clamp 8 _ hz1 hz2]
    simp [maxSample, center]; omega
  · simp only [center, maxSample, ipass1Bits, i_PASS1_BITS12, descale] at *
    simp only [show ¬ (12:Nat) ≤ 8 by omega, if_false] at *
    have hz1 : -(2 * (maxSample 12 + 1)) ≤ (Y * 2 ^ 1 + 2 ^ (1 + 3 - 1)) / 2 ^ (1 + 3) := by simp [maxSample]; omega
    have hz2 : (Y * 2 ^ 1 + 2 ^ (1 + 3 - 1)) / 2 ^ (1 + 3) < 2 * (maxSample 12 + 1) := by simp [maxSample]; omega
    rw [rangeLimit_clamp 12 _ hz1 hz2]
    simp [maxSample, center]; omega

end LJT.DCT
