/-! Concurrency of independent instances.  The library keeps all mutable state in the instance
(`tjinstance`, `jpeg_compress_struct`, `jpeg_decompress_struct` and the pools hanging off
them); tables shared between instances are constant after their (idempotent) first-use
initialisation.  An execution of N threads is an interleaving of their operation sequences;
each operation reads and writes only the state of the instance it is applied to. -/
namespace LJT.Threads

variable {σ ρ α : Type}

/-- one operation on one instance: new instance state and the result the caller sees -/
abbrev Op (σ ρ α : Type) := α → σ → σ × ρ

/-- run a sequence of operations on one instance alone -/
def runAlone (f : Op σ ρ α) (s : σ) : List α → σ × List ρ
  | [] => (s, [])
  | a :: t => let (s', r) := f a s; let (sf, rs) := runAlone f s' t; (sf, r :: rs)

/-- a global schedule: which instance (thread) performs its next operation -/
structure Sys (σ : Type) where
  inst : Nat → σ

/-- one scheduled step: instance `i` applies `a`; nothing else changes -/
def stepSys (f : Op σ ρ α) (g : Nat → σ) (i : Nat) (a : α) : (Nat → σ) × ρ :=
  let (s', r) := f a (g i)
  (fun j => if j = i then s' else g j, r)

/-- run a whole interleaving; results are tagged with the instance that produced them -/
def runSys (f : Op σ ρ α) (g : Nat → σ) : List (Nat × α) → (Nat → σ) × List (Nat × ρ)
  | [] => (g, [])
  | (i, a) :: t => let (g', r) := stepSys f g i a; let (gf, rs) := runSys f g' t; (gf, (i, r) :: rs)

/-- the operations / results of instance `i` in a schedule, in order -/
def proj (i : Nat) (l : List (Nat × β)) : List β := (l.filter (fun p => p.1 = i)).map (·.2)

end LJT.Threads
