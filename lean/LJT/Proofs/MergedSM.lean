import LJT.Model.MergedSM
import LJT.Proofs.SkipSM
namespace LJT.Skip

/-- the invariant of the merged 2:1 machine.  `strong`: between API calls (a full main buffer has had a row delivered
from it); `exact`: `rows_to_go` is up to date (inside a skip it may lag behind, which is harmless for one-row reads) -/
def InvM (strong exact : Bool) (c : Cfg) (s : MSt) : Prop :=
  s.y ≤ c.H ∧ (s.y < c.H → ∃ a g r, g < c.M ∧ r < 2 ∧ s.y = lineOf c a g r ∧ c.H - s.y ≤ s.rtg ∧
    (exact = true → s.rtg = c.H - s.y) ∧
    ((r = 0 ∧ s.spare = false ∧ s.bf = true ∧ s.bufRow = a ∧ s.rg = g ∧ s.irow = a + 1 ∧ (strong = true → g ≠ 0))
     ∨ (r = 0 ∧ s.spare = false ∧ g = 0 ∧ s.bf = false ∧ s.rg = 0 ∧ s.irow = a)
     ∨ (r = 1 ∧ s.spare = true ∧ s.spRow = a ∧ s.spRg = g ∧ s.bf = true ∧ s.bufRow = a ∧ s.rg = g ∧ s.irow = a + 1)))

theorem InvM.weaken {c : Cfg} {s : MSt} {b e : Bool} (h : InvM true e c s) : InvM b e c s := by
  refine ⟨h.1, fun hy => ?_⟩
  obtain ⟨a, g, r, hg, hr, hy', hrtg, hex, hc⟩ := h.2 hy
  refine ⟨a, g, r, hg, hr, hy', hrtg, hex, ?_⟩
  rcases hc with ⟨x1, x2, x3, x4, x5, x6, x7⟩ | x | x
  · exact Or.inl ⟨x1, x2, x3, x4, x5, x6, fun _ => x7 rfl⟩
  · exact Or.inr (Or.inl x)
  · exact Or.inr (Or.inr x)

theorem InvM.inexact {c : Cfg} {s : MSt} {b e : Bool} (h : InvM b e c s) : InvM b false c s := by
  refine ⟨h.1, fun hy => ?_⟩
  obtain ⟨a, g, r, hg, hr, hy', hrtg, _, hc⟩ := h.2 hy
  exact ⟨a, g, r, hg, hr, hy', hrtg, fun h => absurd h (by decide), hc⟩

theorem minit_inv (c : Cfg) (hM : 0 < c.M) : InvM true true c (minit c) := by
  refine ⟨Nat.zero_le _, fun _ => ⟨0, 0, 0, hM, by omega, by simp [minit, lineOf], by simp [minit], fun _ => by simp [minit], ?_⟩⟩
  exact Or.inr (Or.inl ⟨rfl, rfl, rfl, rfl, rfl, rfl⟩)

/-- one read call inside the image: 1 or 2 rows, the right ones -/
theorem mread_spec (c : Cfg) (hv : c.v = 2) (s : MSt) (n : Nat) (e : Bool) (h : InvM false e c s) (hH : s.y < c.H) (hn : 1 ≤ n)
    (hne : n = 1 ∨ e = true) :
    ∃ a g r k, g < c.M ∧ r < 2 ∧ s.y = lineOf c a g r ∧ 1 ≤ k ∧ k ≤ n ∧ r + k ≤ 2 ∧
      (mread c s n).2 = (List.range k).map (fun j => (a, g, r + j)) ∧
      (mread c s n).1.y = s.y + k ∧ InvM true e c (mread c s n).1 := by
  obtain ⟨a, g, r, hg, hr, hy, hrtg, hex, hc⟩ := h.2 hH
  have h1 : ¬ c.H ≤ s.y := by omega
  have h2 : ¬ n = 0 := by omega
  have succ_line : lineOf c a (g + 1) 0 = lineOf c a g 0 + 2 := by
    simp only [lineOf, hv]; rw [Nat.succ_mul]; omega
  have last_line : g + 1 = c.M → lineOf c (a + 1) 0 0 = lineOf c a g 0 + 2 := by
    intro hl
    simp only [lineOf, hv]
    have e1 : c.M * 2 = g * 2 + 2 := by rw [← hl, Nat.succ_mul]
    rw [Nat.succ_mul, e1]; omega
  have r1_line : lineOf c a g 1 = lineOf c a g 0 + 1 := by simp only [lineOf]
  -- the state after `mfillBuf`
  obtain ⟨t, ht, t1, t2, t3, t4, t5, t6, t7, t8⟩ : ∃ t : MSt, mfillBuf s = t ∧ t.y = s.y ∧ t.rtg = s.rtg ∧ t.bf = true ∧
      t.bufRow = a ∧ t.rg = g ∧ t.irow = a + 1 ∧ t.spare = s.spare ∧ (t.spRow = s.spRow ∧ t.spRg = s.spRg) := by
    rcases hc with ⟨_, _, x3, x4, x5, x6, _⟩ | ⟨_, _, x3, x4, x5, x6⟩ | ⟨_, _, _, _, x5, x6, x7, x8⟩
    · exact ⟨s, by simp [mfillBuf, x3], rfl, rfl, x3, x4, x5, x6, rfl, rfl, rfl⟩
    · refine ⟨{ s with bf := true, bufRow := s.irow, irow := s.irow + 1 }, by simp [mfillBuf, x4], rfl, rfl, rfl, x6, ?_, ?_, rfl, rfl, rfl⟩
      · show s.rg = g; omega
      · show s.irow + 1 = a + 1; omega
    · exact ⟨s, by simp [mfillBuf, x5], rfl, rfl, x5, x6, x7, x8, rfl, rfl, rfl⟩
  have hrd : mread c s n = (let r := mupsample c t n
      let s' := r.1
      let s' := if c.M ≤ s'.rg then { s' with bf := false, rg := 0 } else s'
      ({ s' with y := s'.y + r.2.length }, r.2)) := by
    simp only [mread, h1, h2, if_false, ht]
  rw [hrd]
  by_cases hsp : s.spare = true
  · -- the spare row is delivered
    have hr1 : r = 1 := by
      rcases hc with ⟨_, x2, _⟩ | ⟨_, x2, _⟩ | ⟨x1, _⟩
      · rw [x2] at hsp; cases hsp
      · rw [x2] at hsp; cases hsp
      · exact x1
    have hsr : s.spRow = a ∧ s.spRg = g := by
      rcases hc with ⟨x1, _⟩ | ⟨x1, _⟩ | ⟨_, _, x3, x4, _⟩
      · omega
      · omega
      · exact ⟨x3, x4⟩
    subst hr1
    have hts : t.spare = true := by rw [t7]; exact hsp
    have hu : mupsample c t n = ({ t with spare := false, rtg := t.rtg - 1, rg := t.rg + 1 }, [(a, g, 1)]) := by
      unfold mupsample
      rw [if_pos hv, if_pos hts, t8.1, t8.2, hsr.1, hsr.2]
    rw [hu]
    by_cases hlast : g + 1 = c.M
    · have hM' : c.M ≤ t.rg + 1 := by omega
      simp only [hM', if_true, List.length_singleton]
      refine ⟨a, g, 1, 1, hg, by omega, hy, by omega, hn, by omega, rfl, by show t.y + 1 = s.y + 1; omega, ?_⟩
      refine ⟨by show t.y + 1 ≤ c.H; omega, fun hlt => ⟨a + 1, 0, 0, by omega, by omega, ?_, ?_, ?_, ?_⟩⟩
      · show t.y + 1 = _; rw [last_line hlast, t1, hy, r1_line]
      · show c.H - (t.y + 1) ≤ t.rtg - 1; omega
      · intro he; show t.rtg - 1 = c.H - (t.y + 1); have := hex he; omega
      · exact Or.inr (Or.inl ⟨rfl, rfl, rfl, rfl, rfl, t6⟩)
    · have hM' : ¬ c.M ≤ t.rg + 1 := by omega
      simp only [hM', if_false, List.length_singleton]
      refine ⟨a, g, 1, 1, hg, by omega, hy, by omega, hn, by omega, rfl, by show t.y + 1 = s.y + 1; omega, ?_⟩
      refine ⟨by show t.y + 1 ≤ c.H; omega, fun hlt => ⟨a, g + 1, 0, by omega, by omega, ?_, ?_, ?_, ?_⟩⟩
      · show t.y + 1 = _; rw [succ_line, t1, hy, r1_line]
      · show c.H - (t.y + 1) ≤ t.rtg - 1; omega
      · intro he; show t.rtg - 1 = c.H - (t.y + 1); have := hex he; omega
      · exact Or.inl ⟨rfl, rfl, t3, t4, by show t.rg + 1 = g + 1; omega, t6, fun _ => by omega⟩
  · have hsp' : s.spare = false := by cases hs : s.spare <;> simp_all
    have hts : t.spare = false := by rw [t7]; exact hsp'
    have hts' : ¬ t.spare = true := by rw [hts]; decide
    have hr0 : r = 0 := by
      rcases hc with ⟨x1, _⟩ | ⟨x1, _⟩ | ⟨_, x2, _⟩
      · exact x1
      · exact x1
      · rw [x2] at hsp'; cases hsp'
    subst hr0
    by_cases hk : 1 < min (min 2 t.rtg) n
    · -- two rows at once
      have hu : mupsample c t n = ({ t with rtg := t.rtg - min (min 2 t.rtg) n, rg := t.rg + 1 }, [(a, g, 0), (a, g, 1)]) := by
        unfold mupsample
        rw [if_pos hv, if_neg hts']
        simp only [hk, if_true, t4, t5]
      have hk2 : min (min 2 t.rtg) n = 2 := by omega
      have hex' : e = true := by
        rcases hne with h | h
        · omega
        · exact h
      have hrt := hex hex'
      rw [hu, hk2]
      by_cases hlast : g + 1 = c.M
      · have hM' : c.M ≤ t.rg + 1 := by omega
        simp only [hM', if_true, List.length_cons, List.length_nil]
        refine ⟨a, g, 0, 2, hg, by omega, hy, by omega, by omega, by omega, rfl, by show t.y + 2 = s.y + 2; omega, ?_⟩
        refine ⟨by show t.y + 2 ≤ c.H; omega, fun hlt => ⟨a + 1, 0, 0, by omega, by omega, ?_, ?_, ?_, ?_⟩⟩
        · show t.y + 2 = _; rw [last_line hlast, t1, hy]
        · show c.H - (t.y + 2) ≤ t.rtg - 2; omega
        · intro _; show t.rtg - 2 = c.H - (t.y + 2); omega
        · exact Or.inr (Or.inl ⟨rfl, hts, rfl, rfl, rfl, t6⟩)
      · have hM' : ¬ c.M ≤ t.rg + 1 := by omega
        simp only [hM', if_false, List.length_cons, List.length_nil]
        refine ⟨a, g, 0, 2, hg, by omega, hy, by omega, by omega, by omega, rfl, by show t.y + 2 = s.y + 2; omega, ?_⟩
        refine ⟨by show t.y + 2 ≤ c.H; omega, fun hlt => ⟨a, g + 1, 0, by omega, by omega, ?_, ?_, ?_, ?_⟩⟩
        · show t.y + 2 = _; rw [succ_line, t1, hy]
        · show c.H - (t.y + 2) ≤ t.rtg - 2; omega
        · intro _; show t.rtg - 2 = c.H - (t.y + 2); omega
        · exact Or.inl ⟨rfl, hts, t3, t4, by show t.rg + 1 = g + 1; omega, t6, fun _ => by omega⟩
    · -- one row; its partner goes to the spare row
      have hk1 : min (min 2 t.rtg) n = 1 := by omega
      have hu : mupsample c t n = ({ t with spare := true, spRow := t.bufRow, spRg := t.rg, rtg := t.rtg - 1 }, [(a, g, 0)]) := by
        unfold mupsample
        rw [if_pos hv, if_neg hts']
        simp only [hk1, Nat.lt_irrefl, if_false, t4, t5, List.take_succ_cons, List.take_zero]
      rw [hu]
      have hM' : ¬ c.M ≤ t.rg := by omega
      simp only [hM', if_false, List.length_singleton]
      refine ⟨a, g, 0, 1, hg, by omega, hy, by omega, hn, by omega, rfl, by show t.y + 1 = s.y + 1; omega, ?_⟩
      refine ⟨by show t.y + 1 ≤ c.H; omega, fun hlt => ⟨a, g, 1, hg, by omega, ?_, ?_, ?_, ?_⟩⟩
      · show t.y + 1 = _; rw [r1_line, t1, hy]
      · show c.H - (t.y + 1) ≤ t.rtg - 1; omega
      · intro he; show t.rtg - 1 = c.H - (t.y + 1); have := hex he; omega
      · exact Or.inr (Or.inr ⟨rfl, rfl, t4, t5, t3, t4, t5, t6⟩)


theorem mreadDiscard_spec (c : Cfg) (hv : c.v = 2) (e : Bool) : ∀ (k : Nat) (s : MSt), InvM false e c s → 1 ≤ k → s.y + k ≤ c.H →
    InvM true e c (mreadDiscard c k s) ∧ (mreadDiscard c k s).y = s.y + k := by
  intro k
  induction k with
  | zero => intro s _ h; omega
  | succ k ih =>
    intro s h _ hH
    obtain ⟨a, g, r, k', _, _, _, k1, k2, _, _, hy, hinv⟩ := mread_spec c hv s 1 e h (by omega) (by omega) (Or.inl rfl)
    have hk' : k' = 1 := by omega
    subst hk'
    simp only [mreadDiscard]
    by_cases hk : k = 0
    · subst hk
      simp only [mreadDiscard]
      exact ⟨hinv, hy⟩
    · obtain ⟨i1, i2⟩ := ih (mread c s 1).1 hinv.weaken (by omega) (by rw [hy]; omega)
      exact ⟨i1, by rw [i2, hy]; omega⟩

theorem mset_rtg_inv (c : Cfg) (s : MSt) (b e : Bool) (h : InvM b e c s) : InvM b true c { s with rtg := c.H - s.y } := by
  refine ⟨h.1, fun hy => ?_⟩
  obtain ⟨a, g, r, hg, hr, hy', _, _, hc⟩ := h.2 hy
  exact ⟨a, g, r, hg, hr, hy', Nat.le_refl _, fun _ => rfl, hc⟩

/-- the part of `_jpeg_skip_scanlines` (merged, 2:1) after the rows left in the current iMCU row have been dropped -/
def mskipRest (c : Cfg) (s : MSt) (left n : Nat) : MSt :=
  let L := c.M * c.v
  let s := { s with y := s.y + left, bf := false, rg := 0 }
  let after := n - left
  let toSkip := after / L * L
  let toRead := after - toSkip
  let s := { s with y := s.y + toSkip, irow := s.irow + toSkip / L }
  let s := mincSimple c s toRead
  if c.v = 2 then { s with rtg := c.H - s.y } else s

theorem mskip_eq (c : Cfg) (s : MSt) (n : Nat) (h1 : ¬ c.H ≤ s.y + n) (h2 : ¬ n = 0) :
    mskip c s n = if n < (c.M * c.v - s.y % (c.M * c.v)) % (c.M * c.v) then (mincSimple c s n, n)
      else (mskipRest c s ((c.M * c.v - s.y % (c.M * c.v)) % (c.M * c.v)) n, n) := by
  simp only [mskip, h1, h2, if_false, mskipRest]

theorem mskipRest_spec (c : Cfg) (hv : c.v = 2) (s : MSt) (a' left n : Nat) (hM : 0 < c.M)
    (hy : s.y + left = lineOf c a' 0 0) (hirow : s.irow = a') (hsp : s.spare = false) (hrtg : c.H - s.y ≤ s.rtg)
    (hle : left ≤ n) (hH : s.y + n < c.H) :
    InvM true true c (mskipRest c s left n) ∧ (mskipRest c s left n).y = s.y + n := by
  have hL : 0 < c.M * c.v := Nat.mul_pos hM (by omega)
  generalize hLL : c.M * c.v = L at hL
  have hq : (n - left) / L * L / L = (n - left) / L := Nat.mul_div_cancel _ hL
  have hle2 : (n - left) / L * L ≤ n - left := Nat.div_mul_le_self _ _
  generalize hqq : (n - left) / L = q at hq hle2
  let s2 : MSt := { s with y := s.y + left + q * L, bf := false, rg := 0, irow := s.irow + q }
  have e : mskipRest c s left n =
      { mreadDiscard c (n - left - q * L) s2 with rtg := c.H - (mreadDiscard c (n - left - q * L) s2).y } := by
    simp only [mskipRest, mincSimple, if_pos hv, hLL, hqq, hq]
    rfl
  have hy2 : s2.y = lineOf c (a' + q) 0 0 := by
    show s.y + left + q * L = _
    simp only [lineOf] at hy ⊢
    rw [hLL] at hy ⊢
    rw [Nat.add_mul, hy]; omega
  have inv2 : InvM false false c s2 := by
    refine ⟨by show s.y + left + q * L ≤ c.H; omega, fun _ => ⟨a' + q, 0, 0, hM, by omega, hy2, ?_, fun h => absurd h (by decide), ?_⟩⟩
    · show c.H - (s.y + left + q * L) ≤ s.rtg; omega
    · exact Or.inr (Or.inl ⟨rfl, hsp, rfl, rfl, rfl, by show s.irow + q = a' + q; omega⟩)
  rw [e]
  by_cases h0 : n - left - q * L = 0
  · rw [h0]
    simp only [mreadDiscard]
    refine ⟨?_, by show s.y + left + q * L = _; omega⟩
    have := mset_rtg_inv c s2 false false inv2
    refine ⟨this.1, fun hlt => ?_⟩
    obtain ⟨a, g, r, hg, hr, hy', h4, h5, hc⟩ := this.2 hlt
    refine ⟨a, g, r, hg, hr, hy', h4, h5, ?_⟩
    rcases hc with ⟨_, _, x3, _⟩ | x | x
    · cases x3
    · exact Or.inr (Or.inl x)
    · exact Or.inr (Or.inr x)
  · obtain ⟨i1, i2⟩ := mreadDiscard_spec c hv false (n - left - q * L) s2 inv2 (by omega)
      (by show s.y + left + q * L + (n - left - q * L) ≤ c.H; omega)
    refine ⟨mset_rtg_inv c _ true false i1, ?_⟩
    show (mreadDiscard c (n - left - q * L) s2).y = _
    rw [i2]; show s.y + left + q * L + (n - left - q * L) = _; omega

theorem mskip_spec (c : Cfg) (hv : c.v = 2) (s : MSt) (n : Nat) (hM : 0 < c.M) (hinv : InvM true true c s)
    (hfree : d16 c s (.sk n) = false) :
    InvM true true c (mskip c s n).1 ∧ (mskip c s n).2 = min n (c.H - s.y) ∧ (mskip c s n).1.y = s.y + min n (c.H - s.y) := by
  have hyH := hinv.1
  by_cases h1 : c.H ≤ s.y + n
  · have e : mskip c s n = ({ s with y := c.H }, c.H - s.y) := by simp [mskip, h1]
    rw [e]
    refine ⟨⟨Nat.le_refl _, fun h => absurd h (Nat.lt_irrefl _)⟩, by omega, by show c.H = _; omega⟩
  · by_cases h2 : n = 0
    · subst h2
      have h1' : ¬ c.H ≤ s.y := by simpa using h1
      have e : mskip c s 0 = (s, 0) := by simp [mskip, h1']
      rw [e]
      exact ⟨hinv, by simp, by simp⟩
    · rw [mskip_eq c s n h1 h2]
      obtain ⟨a, g, r, hg, hr, hy, hrtg, hex, hc⟩ := hinv.2 (by omega)
      have hr' : r < c.v := by omega
      obtain ⟨hdiv, hmod⟩ := lineOf_divmod c a g r hg hr'
      have hx := lt_L hg hr'
      have hmod' : s.y % (c.M * c.v) = g * c.v + r := by rw [hy]; exact hmod
      have hmin : min n (c.H - s.y) = n := by omega
      rw [hmod', hmin]
      have hd : d16 c s (.sk n) = (s.spare && decide (s.y + n < c.H) && decide ((c.M * c.v - (g * c.v + r)) % (c.M * c.v) ≤ n) && decide (0 < n)) := by
        simp only [d16, hmod']
      rw [hd] at hfree
      generalize hLL : c.M * c.v = L at hx hfree
      by_cases hlt : n < (L - (g * c.v + r)) % L
      · rw [if_pos hlt]
        have e : mincSimple c s n = mreadDiscard c n s := by simp [mincSimple, hv]
        rw [e]
        obtain ⟨j1, j2⟩ := mreadDiscard_spec c hv true n s hinv.weaken (by omega) (by omega)
        exact ⟨j1, rfl, j2⟩
      · rw [if_neg hlt]
        -- the spare row is empty, or this would be the D16 situation
        have hsp : s.spare = false := by
          cases hs : s.spare
          · rfl
          · rw [hs] at hfree
            have d1 : decide (s.y + n < c.H) = true := by simp; omega
            have d2 : decide ((L - (g * c.v + r)) % L ≤ n) = true := by simp; omega
            have d3 : decide (0 < n) = true := by simp; omega
            rw [d1, d2, d3] at hfree
            cases hfree
        have hr0 : r = 0 := by
          rcases hc with ⟨x1, _⟩ | ⟨x1, _⟩ | ⟨_, x2, _⟩
          · exact x1
          · exact x1
          · rw [x2] at hsp; cases hsp
        subst hr0
        by_cases hx0 : g = 0
        · subst hx0
          have hleft : (L - (0 * c.v + 0)) % L = 0 := by simp
          rw [hleft]
          have hirow : s.irow = a := by
            rcases hc with ⟨_, _, _, _, _, _, x7⟩ | ⟨_, _, _, _, _, x6⟩ | ⟨x1, _⟩
            · exact absurd rfl (x7 rfl)
            · exact x6
            · omega
          obtain ⟨j1, j2⟩ := mskipRest_spec c hv s a 0 n hM (by rw [hy]; rfl) hirow hsp hrtg (Nat.zero_le _) (by omega)
          exact ⟨j1, rfl, j2⟩
        · have hgv : 0 < g * c.v := Nat.mul_pos (by omega) (by omega)
          have hleft : (L - (g * c.v + 0)) % L = L - (g * c.v + 0) := Nat.mod_eq_of_lt (by omega)
          rw [hleft] at hlt ⊢
          have hirow : s.irow = a + 1 := by
            rcases hc with ⟨_, _, _, _, _, x6, _⟩ | ⟨_, _, x3, _⟩ | ⟨x1, _⟩
            · exact x6
            · omega
            · omega
          obtain ⟨j1, j2⟩ := mskipRest_spec c hv s (a + 1) (L - (g * c.v + 0)) n hM
            (by rw [hy]; simp only [lineOf]; rw [hLL, Nat.succ_mul]; omega) hirow hsp hrtg (by omega) (by omega)
          exact ⟨j1, rfl, j2⟩


theorem mstep_spec (c : Cfg) (hv : c.v = 2) (s : MSt) (call : Call) (hM : 0 < c.M) (hinv : InvM true true c s)
    (hfree : d16 c s call = false) :
    InvM true true c (mstep c s call).1 ∧ s.y ≤ (mstep c s call).1.y ∧ (∀ ip ∈ (mstep c s call).2.1, RowOK c s.y ip) := by
  cases call with
  | sk n =>
    obtain ⟨h1, _, h3⟩ := mskip_spec c hv s n hM hinv hfree
    refine ⟨h1, by show s.y ≤ (mskip c s n).1.y; rw [h3]; omega, ?_⟩
    intro ip hip
    simp [mstep] at hip
  | rd n =>
    by_cases hH : c.H ≤ s.y
    · have e : mread c s n = (s, []) := by simp [mread, hH]
      simp only [mstep, e]
      exact ⟨hinv, Nat.le_refl _, by intro ip hip; simp at hip⟩
    · by_cases hn : n = 0
      · have e : mread c s n = (s, []) := by simp [mread, hH, hn]
        simp only [mstep, e]
        exact ⟨hinv, Nat.le_refl _, by intro ip hip; simp at hip⟩
      · obtain ⟨a, g, r, k, hg, hr, hy, k1, k2, k3, hrows, hy', hinv'⟩ :=
          mread_spec c hv s n true hinv.weaken (by omega) (by omega) (Or.inr rfl)
        have hle : (mread c s n).1.y ≤ c.H := hinv'.1
        refine ⟨hinv', by show s.y ≤ (mread c s n).1.y; omega, ?_⟩
        intro ip hip
        simp only [mstep, hrows, List.mem_map] at hip
        obtain ⟨⟨p, i⟩, hmem, e⟩ := hip
        obtain ⟨m1, m2, m3⟩ := List.mem_zipIdx hmem
        simp only [List.length_map, List.length_range] at m2
        simp only [List.getElem_map, List.getElem_range] at m3
        subst e; subst m3
        refine ⟨hg, by show r + (i - s.y) < c.v; omega, ?_, m1, by omega⟩
        show a * (c.M * c.v) + g * c.v + (r + (i - s.y)) = i
        simp only [lineOf] at hy
        omega

theorem mrun_spec (c : Cfg) (hv : c.v = 2) (hM : 0 < c.M) : ∀ (calls : List Call) (s : MSt), InvM true true c s →
    d16free c s calls = true →
    InvM true true c (mrun c s calls).1 ∧ ∀ ip ∈ (mrun c s calls).2, RowOK c s.y ip := by
  intro calls
  induction calls with
  | nil => intro s h _; exact ⟨h, by intro ip hip; simp [mrun] at hip⟩
  | cons a as ih =>
    intro s h hf
    simp only [d16free, Bool.and_eq_true, Bool.not_eq_true'] at hf
    obtain ⟨h1, h2, h3⟩ := mstep_spec c hv s a hM h hf.1
    obtain ⟨i1, i2⟩ := ih (mstep c s a).1 h1 hf.2
    simp only [mrun]
    refine ⟨i1, ?_⟩
    intro ip hip
    rcases List.mem_append.mp hip with h | h
    · exact h3 ip h
    · obtain ⟨q1, q2, q3, q4, q5⟩ := i2 ip h
      exact ⟨q1, q2, q3, by omega, q5⟩

end LJT.Skip
