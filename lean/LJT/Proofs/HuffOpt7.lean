import LJT.Proofs.HuffOpt6
/-! K.2 generator, part 7: the input side (`freq[]`, `nz_index[]`) and the theorem about `bits[]`. -/
set_option maxRecDepth 20000
namespace LJT.Huff

theorem genOptimalTable_eq (freq0 : List Nat) :
    genOptimalTable freq0 = if (genCs freq0).any (· > 32) then .clenOverflow else
      .ok ⟨genBits (genCs freq0),
        (placeVals (genCs freq0) (nzIndex (freqIn freq0)) ((nzIndex (freqIn freq0)).length - 1)
          (bitPos (b0Of (genCs freq0)))).toList.take ((genBits (genCs freq0)).drop 1).sum⟩ := by
  unfold genOptimalTable
  rfl

theorem b3Of_eq (cs : List Nat) : b3Of cs =
  (limitAll (b0Of cs)).upd (findJ 16 (limitAll (b0Of cs))) ((limitAll (b0Of cs)).f (findJ 16 (limitAll (b0Of cs))) - 1) := rfl

/-- the real symbols with a non-zero count, ascending -/
def nzReal (freq0 : List Nat) : List Nat := (List.range 256).filter (fun i => freq0.getD i 0 ≠ 0)

theorem freqIn_getD_lt (freq0 : List Nat) (hlen : freq0.length ≤ 257) (i : Nat) (hi : i < 256) :
    (freqIn freq0).getD i 0 = freq0.getD i 0 := by
  unfold freqIn
  simp only [List.getD_eq_getElem?_getD]
  rw [List.getElem?_append_left (by simp; omega)]
  rw [List.getElem?_take_of_lt hi]
  by_cases h : i < freq0.length
  · rw [List.getElem?_append_left h]
  · rw [List.getElem?_append_right (by omega)]
    rw [List.getElem?_eq_none (by omega : freq0.length ≤ i)]
    rw [List.getElem?_replicate]
    split <;> rfl

theorem freqIn_getD_256 (freq0 : List Nat) (hlen : freq0.length ≤ 257) : (freqIn freq0).getD 256 0 = 1 := by
  unfold freqIn
  simp only [List.getD_eq_getElem?_getD]
  rw [List.getElem?_append_right (by simp; omega)]
  have : (List.take 256 (freq0 ++ List.replicate (257 - freq0.length) 0)).length = 256 := by simp; omega
  rw [this]; rfl

theorem nzIndex_eq (freq0 : List Nat) (hlen : freq0.length ≤ 257) :
    nzIndex (freqIn freq0) = nzReal freq0 ++ [256] := by
  unfold nzIndex nzReal
  rw [List.range_succ, List.filter_append]
  congr 1
  · apply List.filter_congr
    intro i hi
    rw [freqIn_getD_lt freq0 hlen i (List.mem_range.1 hi)]
  · rw [List.filter_cons, freqIn_getD_256 freq0 hlen]; rfl

theorem nzReal_lt (freq0 : List Nat) : ∀ i ∈ nzReal freq0, i < 256 ∧ freq0.getD i 0 ≠ 0 := by
  intro i hi
  simp only [nzReal, List.mem_filter, List.mem_range, decide_eq_true_eq] at hi
  exact hi

theorem ws_eq (freq0 : List Nat) (hlen : freq0.length ≤ 257) :
    (nzIndex (freqIn freq0)).map ((freqIn freq0).getD · 0) = (nzReal freq0).map (freq0.getD · 0) ++ [1] := by
  rw [nzIndex_eq freq0 hlen, List.map_append]
  congr 1
  · apply List.map_congr_left
    intro i hi
    exact freqIn_getD_lt freq0 hlen i (nzReal_lt freq0 i hi).1
  · simp only [List.map_cons, List.map_nil, freqIn_getD_256 freq0 hlen]

theorem sum_filter_ne_zero (f : Nat → Nat) : ∀ (l : List Nat),
    ((l.filter (fun i => decide (f i ≠ 0))).map f).sum = (l.map f).sum := by
  intro l
  induction l with
  | nil => rfl
  | cons x xs ih =>
    rw [List.filter_cons]
    by_cases h : f x = 0
    · have : decide (f x ≠ 0) = false := by simp [h]
      rw [this]; simp only [Bool.false_eq_true, if_false, List.map_cons, List.sum_cons, h, Nat.zero_add]; exact ih
    · have : decide (f x ≠ 0) = true := by simp [h]
      rw [this]; simp only [if_true, List.map_cons, List.sum_cons]; rw [ih]

theorem nzReal_length (freq0 : List Nat) : (nzReal freq0).length ≤ 256 := by
  unfold nzReal
  have := List.length_filter_le (fun i => decide (freq0.getD i 0 ≠ 0)) (List.range 256)
  simpa using this

theorem getD_map_range (f : Nat → Nat) (n l : Nat) :
    ((List.range n).map f).getD l 0 = if l < n then f l else 0 := by
  simp only [List.getD_eq_getElem?_getD]
  by_cases h : l < n
  · simp [h]
  · simp [h]

/-- **The code-length counts returned by `jpeg_gen_optimal_table`** (every histogram). -/
theorem genBits_ok (freq0 : List Nat) (hlen : freq0.length ≤ 257)
    (htot : ((List.range 256).map (freq0.getD · 0)).sum < 1000000000)
    (hno : (genCs freq0).any (· > 32) = false) :
    BitsOK (b3Of (genCs freq0)).f (nzReal freq0).length ∧
    (genCs freq0).length = (nzReal freq0).length + 1 ∧
    (∀ c ∈ genCs freq0, c ≤ (genCs freq0).getD (nzReal freq0).length 0) ∧
    (1 ≤ (nzReal freq0).length → ∀ c ∈ genCs freq0, 1 ≤ c) := by
  let ws := (nzReal freq0).map (freq0.getD · 0) ++ [1]
  have hwslen : ws.length = (nzReal freq0).length + 1 := by simp [ws]
  have hnr := nzReal_length freq0
  have hpos : ∀ w ∈ ws, 1 ≤ w := by
    intro w hw
    simp only [ws, List.mem_append, List.mem_map, List.mem_singleton] at hw
    rcases hw with ⟨i, hi, e⟩ | e
    · have := (nzReal_lt freq0 i hi).2; omega
    · omega
  have hsum : ws.sum ≤ FREQ_LIMIT := by
    have := sum_filter_ne_zero (freq0.getD · 0) (List.range 256)
    simp only [ws, List.sum_append, List.sum_cons, List.sum_nil, FREQ_LIMIT]
    unfold nzReal
    omega
  have hlast : ws.getD (ws.length - 1) 0 = 1 := by
    rw [hwslen]
    simp only [ws, List.getD_eq_getElem?_getD, Nat.add_sub_cancel]
    rw [List.getElem?_append_right (by simp)]
    simp
  obtain ⟨T, hP, hT, hinv, hPm, hPd⟩ := merge_result ws (by omega) (by omega) hpos hsum hlast
  have hcs : genCs freq0 = (List.range ws.length).map (csOf [T]) := by
    unfold genCs
    rw [ws_eq freq0 hlen, hT]
    rw [nzIndex_eq freq0 hlen]
    simp [ws]
  have hperm := cs_perm T ws.length hinv.slots_perm
  rw [← hcs] at hperm
  have hle32 : ∀ p ∈ T.mem, p.2 ≤ 32 := by
    intro p hp
    have : p.2 ∈ genCs freq0 := hperm.mem_iff.2 (List.mem_map.2 ⟨p, hp, rfl⟩)
    have h2 := List.any_eq_false.1 hno p.2 this
    simpa using h2
  have hcs32 : ∀ c ∈ genCs freq0, c ≤ 32 := by
    intro c hc
    have h2 := List.any_eq_false.1 hno c hc
    simpa using h2
  have hb0 : ∀ l, (b0Of (genCs freq0)).f l = (genCs freq0).count l := by
    intro l
    simp only [b0Of, getD_map_range]
    by_cases h : l < 33
    · simp [h]
    · simp only [h, if_false]
      symm
      apply List.count_eq_zero.2
      intro hm; have := hcs32 l hm; omega
  have hcount : ∀ l, (genCs freq0).count l = (T.mem.map (·.2)).count l := fun l => hperm.count_eq l
  have hK : ksum (b0Of (genCs freq0)).f 33 = 2 ^ 32 := by
    rw [ksum_congr _ (fun l => (T.mem.map (·.2)).count l) 33 (fun l _ => by rw [hb0, hcount])]
    rw [ksum_count _ (by intro d hd; obtain ⟨p, hp, e⟩ := List.mem_map.1 hd; rw [← e]; exact hle32 p hp)]
    have h1 := kr_eq_K32 T.mem hle32
    rw [hinv.kraft T (by simp)] at h1
    have : K32 (T.mem.map (·.2)) * 2 ^ 268 = 2 ^ 32 * 2 ^ 268 := by
      rw [← h1, ← Nat.pow_add]
    exact Nat.eq_of_mul_eq_mul_right (Nat.two_pow_pos _) this
  have hC : csum (b0Of (genCs freq0)).f 33 = ws.length := by
    rw [csum_congr _ (fun l => (genCs freq0).count l) 33 (fun l _ => hb0 l)]
    rw [csum_count _ hcs32, hcs]; simp
  obtain ⟨l1, l2, l3⟩ := limitAll_spec (b0Of (genCs freq0)) hK (by rw [hC]; omega)
  have hrm := remove_pseudo (limitAll (b0Of (genCs freq0))) ws.length (by omega) (by omega) l1 (by rw [l2, hC]) l3
  rw [hwslen, Nat.add_sub_cancel, ← b3Of_eq] at hrm
  have hnd : (T.mem.map (·.1)).Nodup := by
    have hs' : (T.mem.map (·.1)).Perm (List.range ws.length) := by simpa [slots] using hinv.slots_perm
    exact (hs'.nodup_iff).2 List.nodup_range
  refine ⟨hrm, by rw [hcs]; simp [hwslen], ?_, ?_⟩
  · intro c hc
    have hlastcs : (genCs freq0).getD (nzReal freq0).length 0 = hP := by
      rw [hcs]
      simp only [List.getD_eq_getElem?_getD]
      rw [List.getElem?_map, List.getElem?_range (by omega)]
      simp only [Option.map_some, Option.getD_some]
      have := csOf_single T hnd (ws.length - 1) hP hPm
      rw [hwslen, Nat.add_sub_cancel] at this
      exact this
    rw [hlastcs]
    obtain ⟨p, hp, e⟩ := List.mem_map.1 (hperm.mem_iff.1 hc)
    rw [← e]; exact hPd p hp
  · intro h1 c hc
    obtain ⟨p, hp, e⟩ := List.mem_map.1 (hperm.mem_iff.1 hc)
    rw [← e]
    apply Classical.byContradiction
    intro h0
    have hp0 : p.2 = 0 := by omega
    -- a member on level 0 together with a second member contradicts the Kraft equality
    have hk := hinv.kraft T (by simp)
    have hlen2 : 2 ≤ T.mem.length := by
      have hs' : (T.mem.map (·.1)).Perm (List.range ws.length) := by simpa [slots] using hinv.slots_perm
      have := hs'.length_eq
      simp at this; omega
    have hge : ∀ (m : List (Nat × Nat)), m.length ≤ kr m := by
      intro m; induction m with
      | nil => simp [kr]
      | cons q m ih =>
        simp only [kr, List.map_cons, List.sum_cons, List.length_cons] at ih ⊢
        have := Nat.two_pow_pos (300 - q.2); omega
    obtain ⟨m1, m2, e⟩ := List.append_of_mem hp
    have hk2 : kr T.mem = kr m1 + (2 ^ 300 + kr m2) := by
      rw [e, kr_append]
      simp only [kr, List.map_cons, List.sum_cons, hp0]
    have := hge m1
    have := hge m2
    have hl : m1.length + m2.length + 1 = T.mem.length := by rw [e]; simp; omega
    omega

end LJT.Huff
