import LJT.Model.T81
/-! An interchange-format *writer* driven only by T.81: sequential Huffman (SOF0/SOF1) with the
Annex K tables, using legal features libjpeg-turbo's own encoder never produces (quantisation
and Huffman tables under any identifier 0..3, several tables per DQT/DHT marker, 16-bit
quantisation tables, fill bytes before markers, DRI at different places, unusual sampling
factors, one scan per component or one interleaved scan). -/
namespace LJT.T81Enc
open LJT LJT.Huff LJT.T81

structure Opts where
  q16 : Bool          -- 16-bit DQT entries (forces SOF1)
  joinTables : Bool   -- all DQT tables in one marker, all DHT tables in one marker
  fill : Bool         -- 0xFF fill bytes before markers
  driPos : Nat        -- 0 before DQT, 1 after SOF, 2 just before SOS
  split : Bool        -- one scan per component instead of one interleaved scan
  tblShift : Nat      -- table identifiers are rotated by this amount (mod 4)
  ri : Nat
  jfif : Bool := false       -- JFIF APP0 segment after SOI, as jcmarker.c write_file_header writes it
  ljDummies : Bool := false  -- dummy blocks as libjpeg's transcoding coefficient controller makes them

def be16 (n : Nat) : List Nat := [(n / 256) % 256, n % 256]

def marker (o : Opts) (m : Nat) (payload : List Nat) : List Nat :=
  (if o.fill then [0xFF, 0xFF] else []) ++ [0xFF, m] ++ be16 (payload.length + 2) ++ payload

def zigzag (natural : List Nat) : List Nat := (List.range 64).map (fun k => natural.getD (Gen.naturalOrder.getD k 0) 0)

def dqtPayload (o : Opts) (id : Nat) (q : List Nat) : List Nat :=
  if o.q16 then (16 + id) :: (zigzag q).flatMap be16 else id :: zigzag q

def dhtPayload (cls id : Nat) (t : Tbl) : List Nat := (cls * 16 + id) :: (t.bits.drop 1 ++ t.vals)

/-- coefficients of block (by, bx) of component ci in natural order; blocks outside the real
area are "dummy" blocks: the writer is free to choose them, it writes zeros -/
def blockAt (coef : Nat → Nat → Nat → Nat → Int) (wb hb ci by_ bx : Nat) : List Int :=
  if by_ < hb ∧ bx < wb then (List.range 64).map (coef ci by_ bx) else List.replicate 64 0

def zz (b : List Int) : List Int := (List.range 64).map (fun k => b.getD (Gen.naturalOrder.getD k 0) 0)

/-- bits of the MCUs `[m0, m1)` of a scan over the components `cis` -/
def mcuBlocks (f : Frame) (hmax vmax : Nat) (coef : Nat → Nat → Nat → Nat → Int) (cis : List Nat)
    (mcusX : Nat) (m0 m1 : Nat) (ljDummies : Bool := false) : List SeqHuff.Blk := Id.run do
  let mut out : List SeqHuff.Blk := []
  let single := cis.length == 1
  for m in [m0:m1] do
    let my := m / mcusX
    let mx := m % mcusX
    -- DC of the previous block of this MCU (src/jctrans.c compress_output gives dummy blocks that DC)
    let mut prevDC : Int := 0
    for i in [0:cis.length] do
      let ci := cis.getD i 0
      let c := f.comps.getD ci ⟨0, 1, 1, 0⟩
      let wb := ceilDiv (ceilDiv (f.width * c.h) hmax) 8
      let hb := ceilDiv (ceilDiv (f.height * c.v) vmax) 8
      let bh := if single then 1 else c.h
      let bv := if single then 1 else c.v
      for by_ in [0:bv] do
        for bx in [0:bh] do
          let real := decide (my * bv + by_ < hb) && decide (mx * bh + bx < wb)
          let b0 := zz (blockAt coef wb hb ci (my * bv + by_) (mx * bh + bx))
          let b := if ljDummies && !real then prevDC :: List.replicate 63 0 else b0
          let dc := b.headD 0
          prevDC := dc
          out := ⟨i, dc, b.drop 1⟩ :: out
  return out.reverse

/-- bits of the MCUs `[m0, m1)` of a scan over the components `cis`: the blocks in MCU order, coded by
`SeqHuff.encodeBlocks` (the function the interval theorem of C03 is about) with the predictors at 0 -/
def mcuBits (f : Frame) (hmax vmax : Nat) (coef : Nat → Nat → Nat → Nat → Int) (cis : List Nat)
    (tabs : Nat → Option (CDerived × CDerived)) (mcusX : Nat) (m0 m1 : Nat) (ljDummies : Bool := false) : Option (List Bool) :=
  SeqHuff.encodeBlocks (fun i => tabs (cis.getD i 0)) (Array.replicate 4 0) (mcuBlocks f hmax vmax coef cis mcusX m0 m1 ljDummies)

def stdTables : List (Tbl × Tbl) :=
  [(⟨Gen.stdDcLumBits, Gen.stdDcLumVals⟩, ⟨Gen.stdAcLumBits, Gen.stdAcLumVals⟩),
   (⟨Gen.stdDcChromBits, Gen.stdDcChromVals⟩, ⟨Gen.stdAcChromBits, Gen.stdAcChromVals⟩)]

/-- the whole stream; `comps` = (h, v) per component; component i uses quantisation / Huffman
table class `min i 1`, stored under identifier `(class + tblShift) % 4` -/
def encode (o : Opts) (w h : Nat) (comps : List (Nat × Nat)) (qs : List (List Nat))
    (coef : Nat → Nat → Nat → Nat → Int) : Option (List Nat) := Id.run do
  let nc := comps.length
  let cls := fun (i : Nat) => if nc == 1 then 0 else min i 1
  let tid := fun (k : Nat) => (k + o.tblShift) % 4
  let ncls := if nc == 1 then 1 else 2
  let f : Frame := ⟨if o.q16 then 0xC1 else 0xC0, 8, h, w,
    (List.range nc).map (fun i => ⟨i + 1, (comps.getD i (1, 1)).1, (comps.getD i (1, 1)).2, tid (cls i)⟩)⟩
  let hmax := f.comps.foldl (fun a c => max a c.h) 1
  let vmax := f.comps.foldl (fun a c => max a c.v) 1
  let dri := marker o 0xDD (be16 o.ri)
  let mut s : List Nat := [0xFF, 0xD8]
  if o.jfif then s := s ++ [0xFF, 0xE0, 0, 16, 0x4A, 0x46, 0x49, 0x46, 0, 1, 1, 0, 0, 1, 0, 1, 0, 0]
  if o.ri != 0 && o.driPos == 0 then s := s ++ dri
  -- DQT
  if o.joinTables then
    s := s ++ marker o 0xDB ((List.range ncls).flatMap (fun k => dqtPayload o (tid k) (qs.getD k [])))
  else
    for k in [0:ncls] do s := s ++ marker o 0xDB (dqtPayload o (tid k) (qs.getD k []))
  -- SOF
  s := s ++ marker o f.sof ([8] ++ be16 h ++ be16 w ++ [nc] ++ f.comps.flatMap (fun c => [c.id, c.h * 16 + c.v, c.tq]))
  if o.ri != 0 && o.driPos == 1 then s := s ++ dri
  -- DHT
  let dhts := (List.range ncls).flatMap (fun k =>
    let (d, a) := stdTables.getD k (⟨[], []⟩, ⟨[], []⟩)
    [dhtPayload 0 (tid k) d, dhtPayload 1 (tid k) a])
  if o.joinTables then s := s ++ marker o 0xC4 dhts.flatten
  else for p in dhts do s := s ++ marker o 0xC4 p
  if o.ri != 0 && o.driPos == 2 then s := s ++ dri
  let tabs := fun (ci : Nat) =>
    let (d, a) := stdTables.getD (cls ci) (⟨[], []⟩, ⟨[], []⟩)
    match mkCDerived true false d, mkCDerived false false a with
    | some x, some y => some (x, y)
    | _, _ => none
  let scans : List (List Nat) := if o.split || nc == 1 then (List.range nc).map (fun i => [i]) else [List.range nc]
  for cis in scans do
    let hdr := [cis.length] ++ cis.flatMap (fun ci => [ci + 1, tid (cls ci) * 16 + tid (cls ci)]) ++ [0, 63, 0]
    s := s ++ marker o 0xDA hdr
    let single := cis.length == 1
    let c0 := f.comps.getD (cis.headD 0) ⟨0, 1, 1, 0⟩
    let mcusX := if single then ceilDiv (ceilDiv (w * c0.h) hmax) 8 else ceilDiv w (8 * hmax)
    let mcusY := if single then ceilDiv (ceilDiv (h * c0.v) vmax) 8 else ceilDiv h (8 * vmax)
    let total := mcusX * mcusY
    let step := if o.ri == 0 then total else o.ri
    let mut m := 0
    let mut rst := 0
    while m < total do
      let m1 := min total (m + step)
      match mcuBits f hmax vmax coef cis tabs mcusX m m1 o.ljDummies with
      | none => return none
      | some bits => s := s ++ Bits.segmentBytes bits
      if m1 < total then
        s := s ++ [0xFF, 0xD0 + rst % 8]
        rst := rst + 1
      m := m1
  s := s ++ (if o.fill then [0xFF] else []) ++ [0xFF, 0xD9]
  return some s

/-- the entropy-coded data (with RSTn markers) of one interleaved sequential scan over all
components with the Annex K tables, dummy blocks as libjpeg's transcoding coefficient
controller makes them: what `jpeg_write_coefficients` + `encode_mcu_huff` must produce -/
def scanBytes (w h : Nat) (comps : List (Nat × Nat)) (ri : Nat) (coef : Nat → Nat → Nat → Nat → Int) : Option (List Nat) := Id.run do
  let nc := comps.length
  let f : Frame := ⟨0xC0, 8, h, w, (List.range nc).map (fun i => ⟨i + 1, (comps.getD i (1, 1)).1, (comps.getD i (1, 1)).2, 0⟩)⟩
  let hmax := f.comps.foldl (fun a c => max a c.h) 1
  let vmax := f.comps.foldl (fun a c => max a c.v) 1
  let cls := fun (i : Nat) => if nc == 1 then 0 else min i 1
  let tabs := fun (ci : Nat) =>
    let (d, a) := stdTables.getD (cls ci) (⟨[], []⟩, ⟨[], []⟩)
    match mkCDerived true false d, mkCDerived false false a with
    | some x, some y => some (x, y)
    | _, _ => none
  let cis := List.range nc
  let single := nc == 1
  let c0 := f.comps.getD 0 ⟨0, 1, 1, 0⟩
  let mcusX := if single then ceilDiv (ceilDiv (w * c0.h) hmax) 8 else ceilDiv w (8 * hmax)
  let mcusY := if single then ceilDiv (ceilDiv (h * c0.v) vmax) 8 else ceilDiv h (8 * vmax)
  let total := mcusX * mcusY
  let step := if ri == 0 then total else ri
  -- the restart intervals `[m, m1)`, their bits, and the framing the scan-level theorem of C03 is about
  let ivs := (List.range ((total + step - 1) / step)).map (fun i => (i * step, min total ((i + 1) * step)))
  match ivs.mapM (fun (m, m1) => mcuBits f hmax vmax coef cis tabs mcusX m m1 true) with
  | none => return none
  | some bitss => return some (Bits.joinRST (bitss.map Bits.segmentBytes) 0)

end LJT.T81Enc
