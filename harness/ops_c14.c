/* C14 (and the memory-accounting part of C12): allocation failures are survived, nothing leaks, configured limits hold.
 * Built with -DC14_WRAP and -Wl,--wrap=... so that every allocation of the library goes through the functions below. */
#include "exec_common.h"
#include <unistd.h>
#include <stdarg.h>

#ifdef C14_WRAP
extern void *__real_jpeg_get_small(j_common_ptr cinfo, size_t sizeofobject);
extern void __real_jpeg_free_small(j_common_ptr cinfo, void *object, size_t sizeofobject);
extern void *__real_jpeg_get_large(j_common_ptr cinfo, size_t sizeofobject);
extern void __real_jpeg_free_large(j_common_ptr cinfo, void *object, size_t sizeofobject);
extern size_t __real_jpeg_mem_available(j_common_ptr cinfo, size_t min_bytes_needed, size_t max_bytes_needed, size_t already_allocated);
extern void *__real_malloc(size_t n);
extern void __real_free(void *p);

#define C14_MAXLIVE 4096
static struct { void *p; size_t n; int kind; void *owner; long id; } c14_live[C14_MAXLIVE];
static void *c14_owners[8]; static int c14_nowners = 0; static long c14_nextid = 0;
static int c14_owner(void *o) { int i; for (i = 0; i < c14_nowners; i++) if (c14_owners[i] == o) return i; if (c14_nowners < 8) { c14_owners[c14_nowners] = o; return c14_nowners++; } return 7; }
static int c14_nlive = 0, c14_armed = 0, c14_overflow = 0;
static long c14_count = 0, c14_fail1 = 0, c14_fail2 = 0, c14_failed = 0;
static size_t c14_cur = 0, c14_peak = 0;
/* trace of the library-level events of one memory manager (for the Lean model) */
static char *c14_trace = NULL; static size_t c14_tlen = 0, c14_tcap = 0; static void *c14_trace_owner = NULL; static int c14_tracing = 0;

static void c14_tr(const char *fmt, ...)
{
  va_list ap; char tmp[96]; int k;
  if (!c14_tracing) return;
  va_start(ap, fmt); k = vsnprintf(tmp, sizeof(tmp), fmt, ap); va_end(ap);
  if (c14_tlen + (size_t)k + 2 > c14_tcap) { c14_tcap = (c14_tcap + (size_t)k) * 2 + 256; c14_trace = (char *)realloc(c14_trace, c14_tcap); }
  memcpy(c14_trace + c14_tlen, tmp, (size_t)k); c14_tlen += (size_t)k; c14_trace[c14_tlen] = 0;
}
static int c14_should_fail(void)
{
  if (!c14_armed) return 0;
  c14_count++;
  if (c14_count == c14_fail1 || c14_count == c14_fail2) { c14_failed++; return 1; }
  return 0;
}
static void c14_tr(const char *fmt, ...);
static void c14_add(void *p, size_t n, int kind, void *owner)
{
  if (!p) return;
  if (c14_nlive >= C14_MAXLIVE) { c14_overflow = 1; return; }
  c14_live[c14_nlive].p = p; c14_live[c14_nlive].n = n; c14_live[c14_nlive].kind = kind; c14_live[c14_nlive].owner = owner; c14_live[c14_nlive].id = c14_nextid++;
  if (kind) c14_tr(" a%d.%ld:%zu", c14_owner(owner), c14_live[c14_nlive].id, n);
  c14_nlive++;
  if (kind) { c14_cur += n; if (c14_cur > c14_peak) c14_peak = c14_cur; }
}
static int c14_del(void *p)
{
  int i;
  for (i = c14_nlive - 1; i >= 0; i--) if (c14_live[i].p == p) { if (c14_live[i].kind) { c14_cur -= c14_live[i].n; c14_tr(" f%d.%ld", c14_owner(c14_live[i].owner), c14_live[i].id); } c14_live[i] = c14_live[--c14_nlive]; return 1; }
  return 0;
}
void *__wrap_jpeg_get_small(j_common_ptr cinfo, size_t n)
{
  void *p;
  if (c14_should_fail()) { c14_tr(" x%d:%zu", c14_owner(cinfo), n); return NULL; }
  p = __real_jpeg_get_small(cinfo, n); c14_add(p, n, 1, cinfo);
  return p;
}
void __wrap_jpeg_free_small(j_common_ptr cinfo, void *o, size_t n) { c14_del(o); __real_jpeg_free_small(cinfo, o, n); }
void *__wrap_jpeg_get_large(j_common_ptr cinfo, size_t n)
{
  void *p;
  if (c14_should_fail()) return NULL;
  p = __real_jpeg_get_large(cinfo, n); c14_add(p, n, 2, cinfo);
  return p;
}
void __wrap_jpeg_free_large(j_common_ptr cinfo, void *o, size_t n) { c14_del(o); __real_jpeg_free_large(cinfo, o, n); }
size_t __wrap_jpeg_mem_available(j_common_ptr cinfo, size_t mn, size_t mx, size_t already)
{
  /* the library's own counter, next to what is really outstanding for this memory manager */
  c14_tr(" q%d:%zu", c14_owner(cinfo), already);
  return __real_jpeg_mem_available(cinfo, mn, mx, already);
}
void *__wrap_malloc(size_t n)
{
  void *p;
  if (c14_armed && c14_should_fail()) return NULL;
  p = __real_malloc(n);
  if (c14_armed) c14_add(p, n, 0, NULL);
  return p;
}
void __wrap_free(void *p) { if (p && c14_nlive) c14_del(p); __real_free(p); }

static void c14_reset(long f1, long f2) { c14_nowners = 0; c14_nextid = 0; c14_nlive = 0; c14_count = 0; c14_fail1 = f1; c14_fail2 = f2; c14_failed = 0; c14_overflow = 0; c14_cur = c14_peak = 0; }

static void c14_image(unsigned char *img, int w, int h, int ps, unsigned long long seed, int prec)
{
  int i;
  for (i = 0; i < w * h * ps; i++) {
    int v = (int)(c03_mix(seed + (unsigned long long)i / 3ULL) % (unsigned long long)(1 << prec));
    if (prec <= 8) img[i] = (unsigned char)v; else ((unsigned short *)img)[i] = (unsigned short)v;
  }
}

/* one scenario of the catalogue; everything the library allocates while armed must be gone when it returns.
   returns a short description */
static void c14_scenario(int scen, unsigned long long seed, char *desc, size_t dsz)
{
  int w = 24 + (int)(seed % 17ULL), h = 16 + (int)((seed >> 8) % 13ULL), rc = 0, rc2 = 0;
  static unsigned char img[64 * 64 * 4 * 2], out[128 * 128 * 4 * 2]; unsigned char *jp = NULL, *jp2 = NULL; size_t jn = 0, jn2 = 0;
  tjhandle hc = NULL, hd = NULL; char es[200] = "";
  int lossless = (scen == 1 || scen == 7), prec = (scen == 2 || scen == 8) ? 12 : (scen == 7 ? 16 : 8);
  /* unarmed: the image and a reference stream for the decompression scenarios */
  c14_image(img, w, h, 3, seed, prec);
  c14_armed = 1;
  hc = tj3Init(scen >= 12 ? TJINIT_TRANSFORM : TJINIT_COMPRESS);
  if (hc) {
    tj3Set(hc, TJPARAM_PRECISION, prec); tj3Set(hc, TJPARAM_QUALITY, 80);
    if (lossless) tj3Set(hc, TJPARAM_LOSSLESS, 1); else tj3Set(hc, TJPARAM_SUBSAMP, (int)(seed % 6ULL) == 3 ? 0 : (int)(seed % 6ULL));
    if (scen == 3 || scen == 9) tj3Set(hc, TJPARAM_PROGRESSIVE, 1);
    if (scen == 4 || scen == 10) tj3Set(hc, TJPARAM_ARITHMETIC, 1);
    if (scen == 5) tj3Set(hc, TJPARAM_OPTIMIZE, 1);
    if (scen == 6) tj3Set(hc, TJPARAM_RESTARTROWS, 1);
    if (scen < 12) {
      if (prec <= 8) rc = tj3Compress8(hc, img, w, 0, h, TJPF_RGB, &jp, &jn);
      else if (prec <= 12) rc = tj3Compress12(hc, (short *)img, w, 0, h, TJPF_RGB, &jp, &jn);
      else rc = tj3Compress16(hc, (unsigned short *)img, w, 0, h, TJPF_RGB, &jp, &jn);
      if (rc < 0) snprintf(es, sizeof(es), "%s", tj3GetErrorStr(hc));
    }
  } else rc = -1;
  if (scen >= 6 && rc == 0 && jp && scen < 12) {
    hd = tj3Init(TJINIT_DECOMPRESS);
    if (hd) {
      rc2 = tj3DecompressHeader(hd, jp, jn);
      if (rc2 == 0) {
        if (scen == 11) { tjscalingfactor f = { 1, 2 }; tj3SetScalingFactor(hd, f); tj3Set(hd, TJPARAM_FASTUPSAMPLE, 1); }
        if (prec <= 8) rc2 = (scen == 6) ? tj3DecompressToYUV8(hd, jp, jn, out, 4) : tj3Decompress8(hd, jp, jn, out, 0, TJPF_BGRX);
        else if (prec <= 12) rc2 = tj3Decompress12(hd, jp, jn, (short *)out, 0, TJPF_RGB);
        else rc2 = tj3Decompress16(hd, jp, jn, (unsigned short *)out, 0, TJPF_RGB);
      }
    } else rc2 = -1;
  }
  if (scen >= 12) {
    /* transform: needs a source made without failure injection */
    long f1 = c14_fail1, f2 = c14_fail2; tjhandle h0; c14_armed = 0;
    h0 = tj3Init(TJINIT_COMPRESS); tj3Set(h0, TJPARAM_SUBSAMP, TJSAMP_420); tj3Set(h0, TJPARAM_QUALITY, 80); if (scen == 13) tj3Set(h0, TJPARAM_PROGRESSIVE, 1);
    tj3Compress8(h0, img, w, 0, h, TJPF_RGB, &jp, &jn); tj3Destroy(h0);
    c14_fail1 = f1; c14_fail2 = f2; c14_armed = 1;
    if (hc) {
      tjtransform xf; memset(&xf, 0, sizeof(xf)); xf.op = 1 + (int)(seed % 7ULL); xf.options = TJXOPT_TRIM | (scen == 14 ? TJXOPT_PROGRESSIVE : 0) | (scen == 15 ? TJXOPT_OPTIMIZE : 0);
      rc2 = tj3Transform(hc, jp, jn, 1, &jp2, &jn2, &xf);
    }
  }
  if (hc) tj3Destroy(hc);
  if (hd) tj3Destroy(hd);
  c14_armed = 0;
  if (scen >= 12) { tjhandle dummy = NULL; (void)dummy; }
  tj3Free(jp2);
  tj3Free(jp);
  snprintf(desc, dsz, "scen%d rc%d rc2%d n%ld failed%ld %s", scen, rc, rc2, c14_count, c14_failed, es);
}


/* second part of the catalogue (scenarios 16..): the remaining entry points, on images whose JPEG representation is larger than the
   destination manager's initial 4 KB so that the output buffer is re-allocated (several times) during the armed calls */
static void c14_scenario2(int scen, unsigned long long seed, char *desc, size_t dsz)
{
  int w = 100 + (int)(seed % 29ULL), h = 90 + (int)((seed >> 8) % 39ULL), rc = 0, rc2 = 0, ss = (int)((seed >> 4) % 6ULL), i;
  static unsigned char img[128 * 128 * 4], out[256 * 256 * 4], yuv[256 * 256 * 4]; unsigned char *jp = NULL, *jp2[2] = { NULL, NULL }, *icc = NULL; size_t jn = 0, jn2[2] = { 0, 0 }, iccn = 0;
  unsigned char *planes[3]; int strides[3] = { 0, 0, 0 };
  tjhandle hc = NULL, hd = NULL; char es[200] = "";
  if (ss == 3) ss = 0;
  for (i = 0; i < w * h * 4; i++) img[i] = (unsigned char)(c03_mix(seed + (unsigned long long)i) & 255ULL);   /* noise: a large JPEG */
  c14_armed = 1;
  if (scen == 24) {
    /* the legacy entry points */
    unsigned long ul = 0; int jw, jh, jss, jcs;
    hc = tjInitCompress();
    if (hc) { rc = tjCompress2(hc, img, w, 0, h, TJPF_RGBX, &jp, &ul, ss, 97, seed & 1ULL ? TJFLAG_PROGRESSIVE : 0); jn = ul; } else rc = -1;
    if (rc == 0 && jp) {
      hd = tjInitDecompress();
      if (hd) { rc2 = tjDecompressHeader3(hd, jp, ul, &jw, &jh, &jss, &jcs); if (rc2 == 0) rc2 = tjDecompress2(hd, jp, ul, out, 0, 0, 0, TJPF_BGR, 0); if (rc2 == 0) rc2 = tjDecompressToYUV2(hd, jp, ul, yuv, 0, 4, 0, 0); }
      else rc2 = -1;
      if (rc2 == 0 && hc) { unsigned char *j3 = NULL; unsigned long u3 = 0; rc2 = tjCompressFromYUV(hc, yuv, w, 4, h, ss, &j3, &u3, 97, 0); tj3Free(j3); }
    }
    goto end;
  }
  hc = tj3Init(scen == 22 ? TJINIT_TRANSFORM : TJINIT_COMPRESS);
  if (!hc) { rc = -1; goto end; }
  tj3Set(hc, TJPARAM_SUBSAMP, ss); tj3Set(hc, TJPARAM_QUALITY, 97);
  if ((seed >> 12) % 3ULL == 1) tj3Set(hc, TJPARAM_PROGRESSIVE, 1);
  if ((seed >> 12) % 3ULL == 2) tj3Set(hc, TJPARAM_OPTIMIZE, 1);
  if (scen == 16) {
    rc = tj3EncodeYUV8(hc, img, w, 0, h, TJPF_BGRX, yuv, 4);
    if (rc == 0) rc = tj3CompressFromYUV8(hc, yuv, w, 4, h, &jp, &jn);
  } else if (scen == 17) {
    planes[0] = yuv; planes[1] = yuv + 256 * 256; planes[2] = yuv + 2 * 256 * 256; strides[0] = strides[1] = strides[2] = 256;
    rc = tj3EncodeYUVPlanes8(hc, img, w, 0, h, TJPF_RGB, planes, strides);
    if (rc == 0) rc = tj3CompressFromYUVPlanes8(hc, (const unsigned char * const *)planes, w, strides, h, &jp, &jn);
  } else if (scen == 18 || scen == 19 || scen == 20) {
    rc = tj3Compress8(hc, img, w, 0, h, TJPF_XRGB, &jp, &jn);
    if (rc == 0 && scen == 18 && (seed & 1ULL)) { tj3Set(hc, TJPARAM_NOREALLOC, 0); rc = tj3Compress8(hc, img, w, 0, h, TJPF_XRGB, &jp, &jn); }   /* the buffer of the first call re-used */
  } else if (scen == 21) {
    static unsigned char prof[70000]; size_t pn = 1 + (size_t)(seed % 69000ULL);
    for (i = 0; i < (int)pn; i++) prof[i] = (unsigned char)(i * 7 + 1);
    rc = tj3SetICCProfile(hc, prof, pn);
    if (rc == 0) rc = tj3Compress8(hc, img, w, 0, h, TJPF_RGB, &jp, &jn);
  } else if (scen == 23) {
    char path[64]; int lw = 0, lh = 0, lpf = TJPF_RGB; unsigned char *ld;
    snprintf(path, sizeof(path), "/dev/shm/c14_%d.ppm", (int)getpid());
    rc = tj3SaveImage8(hc, path, img, w, 0, h, TJPF_RGB);
    if (rc == 0) { ld = tj3LoadImage8(hc, path, &lw, 4, &lh, &lpf); if (!ld) rc2 = -1; tj3Free(ld); }
    unlink(path);
  }
  if (rc < 0) snprintf(es, sizeof(es), "%s", tj3GetErrorStr(hc));
  if ((scen == 19 || scen == 20 || scen == 21) && rc == 0 && jp) {
    hd = tj3Init(TJINIT_DECOMPRESS);
    if (hd) {
      rc2 = tj3DecompressHeader(hd, jp, jn);
      if (rc2 == 0 && scen == 19) {
        planes[0] = yuv; planes[1] = yuv + 256 * 256; planes[2] = yuv + 2 * 256 * 256; strides[0] = strides[1] = strides[2] = 256;
        rc2 = tj3DecompressToYUVPlanes8(hd, jp, jn, planes, strides);
        if (rc2 == 0) rc2 = tj3DecodeYUVPlanes8(hd, (const unsigned char * const *)planes, strides, out, w, 0, h, TJPF_RGBA);
      } else if (rc2 == 0 && scen == 20) {
        tjscalingfactor f = { 3, 4 }; tj3SetScalingFactor(hd, f);
        rc2 = tj3DecompressToYUV8(hd, jp, jn, yuv, 1);
        if (rc2 == 0) rc2 = tj3DecodeYUV8(hd, yuv, 1, out, TJSCALED(w, f), 0, TJSCALED(h, f), TJPF_BGR);
      } else if (rc2 == 0) {
        rc2 = tj3GetICCProfile(hd, &icc, &iccn);
        if (rc2 == 0) rc2 = tj3Decompress8(hd, jp, jn, out, 0, TJPF_RGB);
      }
    } else rc2 = -1;
  }
  if (scen == 22) {
    long f1 = c14_fail1, f2 = c14_fail2; tjhandle h0; tjtransform xf[2];
    c14_armed = 0;
    h0 = tj3Init(TJINIT_COMPRESS); tj3Set(h0, TJPARAM_SUBSAMP, ss); tj3Set(h0, TJPARAM_QUALITY, 97); tj3Compress8(h0, img, w, 0, h, TJPF_RGB, &jp, &jn); tj3Destroy(h0);
    c14_fail1 = f1; c14_fail2 = f2; c14_armed = 1;
    memset(xf, 0, sizeof(xf));
    xf[0].op = 1 + (int)(seed % 7ULL); xf[0].options = TJXOPT_TRIM | ((seed >> 3) & 1ULL ? TJXOPT_COPYNONE : 0);
    xf[1].op = (int)((seed >> 5) % 8ULL); xf[1].options = TJXOPT_TRIM | TJXOPT_GRAY | ((seed >> 9) & 1ULL ? TJXOPT_PROGRESSIVE : TJXOPT_OPTIMIZE);
    rc2 = tj3Transform(hc, jp, jn, 2, jp2, jn2, xf);
  }
end:
  if (hc) tj3Destroy(hc);
  if (hd) tj3Destroy(hd);
  c14_armed = 0;
  tj3Free(jp2[0]); tj3Free(jp2[1]); tj3Free(icc);
  tj3Free(jp);
  snprintf(desc, dsz, "scen%d rc%d rc2%d n%ld failed%ld %s", scen, rc, rc2, c14_count, c14_failed, es);
}

/* third part of the catalogue (scenarios 25, 26): call sequences on ONE decompression / transformation instance over images with and
   without an ICC profile - the profile extracted by a header read is held by the instance until it is collected, replaced or the instance is
   destroyed, whatever comes in between */
static void c14_scenario3(int scen, unsigned long long seed, char *desc, size_t dsz)
{
  static unsigned char img[48 * 40 * 3], out[64 * 64 * 4], prof[5000]; unsigned char *plain = NULL, *withicc = NULL, *icc = NULL, *d2 = NULL; size_t np = 0, ni = 0, iccn = 0, n2 = 0;
  tjhandle h0, hd = NULL; int i, rc = 0, rc2 = 0, steps = scen == 25 ? 2 : 3 + (int)(seed % 6ULL); unsigned long long rs = seed * 0x9E3779B97F4A7C15ULL + 7ULL; char hist[64] = ""; long f1 = c14_fail1, f2 = c14_fail2;
  c14_armed = 0;
  for (i = 0; i < (int)sizeof(img); i++) img[i] = (unsigned char)(c03_mix(seed + (unsigned long long)i) & 255ULL);
  for (i = 0; i < (int)sizeof(prof); i++) prof[i] = (unsigned char)(i * 11 + 3);
  h0 = tj3Init(TJINIT_COMPRESS); tj3Set(h0, TJPARAM_SUBSAMP, TJSAMP_420); tj3Set(h0, TJPARAM_QUALITY, 80);
  tj3Compress8(h0, img, 48, 0, 40, TJPF_RGB, &plain, &np);
  tj3SetICCProfile(h0, prof, 1 + (size_t)(seed % 4999ULL)); tj3Compress8(h0, img, 48, 0, 40, TJPF_RGB, &withicc, &ni);
  tj3Destroy(h0);
  c14_fail1 = f1; c14_fail2 = f2; c14_armed = 1;
  hd = tj3Init(scen == 25 ? TJINIT_DECOMPRESS : TJINIT_TRANSFORM);
  if (hd) {
    for (i = 0; i < steps; i++) {
      int k = scen == 25 ? i : (int)((rs = c03_mix(rs)) % 7ULL); size_t l = strlen(hist);
      if (l + 2 < sizeof(hist)) { hist[l] = (char)('0' + k); hist[l + 1] = 0; }
      switch (k) {
      case 0: rc = tj3DecompressHeader(hd, withicc, ni); break;
      case 1: rc = tj3DecompressHeader(hd, plain, np); break;
      case 2: rc = tj3Decompress8(hd, withicc, ni, out, 0, TJPF_RGB); break;
      case 3: rc = tj3Decompress8(hd, plain, np, out, 0, TJPF_BGRX); break;
      case 4: icc = NULL; iccn = 0; rc2 = tj3GetICCProfile(hd, &icc, &iccn); tj3Free(icc); break;
      case 5: tj3Set(hd, TJPARAM_SAVEMARKERS, (int)((rs >> 9) % 5ULL)); break;
      default: if (scen == 26) { tjtransform xf; memset(&xf, 0, sizeof(xf)); xf.op = (int)((rs >> 5) % 8ULL); xf.options = TJXOPT_TRIM; d2 = NULL; n2 = 0; rc = tj3Transform(hd, (rs >> 13) & 1ULL ? withicc : plain, (rs >> 13) & 1ULL ? ni : np, 1, &d2, &n2, &xf); tj3Free(d2); } break;
      }
    }
    tj3Destroy(hd);
  }
  c14_armed = 0;
  tj3Free(plain); tj3Free(withicc);
  snprintf(desc, dsz, "scen%d rc%d rc2%d n%ld failed%ld hist %s", scen, rc, rc2, c14_count, c14_failed, hist);
}

/* afail scen seed k1 k2 */
static int c14_afail(toks_t *t)
{
  int scen = (int)tl(t, 1); unsigned long long seed = (unsigned long long)tll(t, 2); long k1 = tl(t, 3), k2 = tl(t, 4); char desc[300]; int i; size_t leaked = 0;
  c14_reset(k1, k2);
  if (scen >= 25) c14_scenario3(scen, seed, desc, sizeof(desc)); else if (scen >= 16) c14_scenario2(scen, seed, desc, sizeof(desc)); else c14_scenario(scen, seed, desc, sizeof(desc));
  printf("R skip %s\n", desc);
  for (i = 0; i < c14_nlive; i++) leaked += c14_live[i].n;
  if (c14_overflow) printf("O ok\n");
  else if (c14_nlive) printf("O fail afail: %d blocks (%zu bytes) obtained by the library during the calls are still allocated after every handle was destroyed and every returned buffer freed (%s)\n", c14_nlive, leaked, desc);
  else printf("O ok\n");
  c14_reset(0, 0);
  return 1;
}

/* memtrace kind seed reps limitMB : a history of operations on ONE decompress object with a memory limit; emits the trace of the
   library's usage counter at every realize_virt_arrays next to the bytes really outstanding */
static int c14_memtrace(toks_t *t)
{
  int kind = (int)tl(t, 1), reps = (int)tl(t, 3), lim = (int)tl(t, 4), r, w = 96, h = 80, rc = 0; unsigned long long seed = (unsigned long long)tll(t, 2);
  static unsigned char img[128 * 128 * 3]; unsigned char *jp = NULL; size_t jn = 0; tjhandle h0 = tj3Init(TJINIT_COMPRESS), hd; static unsigned char out[128 * 128 * 4];
  c14_image(img, w, h, 3, seed, 8);
  tj3Set(h0, TJPARAM_SUBSAMP, TJSAMP_420); tj3Set(h0, TJPARAM_PROGRESSIVE, 1); tj3Set(h0, TJPARAM_QUALITY, 85);
  tj3Compress8(h0, img, w, 0, h, TJPF_RGB, &jp, &jn); tj3Destroy(h0);
  c14_reset(0, 0); c14_tlen = 0; if (c14_trace) c14_trace[0] = 0;
  c14_armed = 1; c14_tracing = 1;
  hd = tj3Init(kind == 1 ? TJINIT_TRANSFORM : TJINIT_DECOMPRESS);
  tj3Set(hd, TJPARAM_MAXMEMORY, lim);
  for (r = 0; r < reps && rc == 0; r++) {
    if (kind == 1) { tjtransform xf; unsigned char *d2 = NULL; size_t n2 = 0; memset(&xf, 0, sizeof(xf)); xf.op = 1 + (r % 7); xf.options = TJXOPT_TRIM; rc = tj3Transform(hd, jp, jn, 1, &d2, &n2, &xf); tj3Free(d2); }
    else rc = tj3Decompress8(hd, jp, jn, out, 0, TJPF_RGB);
  }
  printf("R skip rc%d%s\n", rc, c14_trace ? c14_trace : "");
  if (rc < 0) printf("O fail memtrace: operation %d of %d identical ones on the same instance failed with a %d MB memory limit: %s\n", r, reps, lim, tj3GetErrorStr(hd));
  else printf("O ok\n");
  tj3Destroy(hd);
  c14_armed = 0; c14_tracing = 0;
  tj3Free(jp);
  c14_reset(0, 0);
  return 1;
}

/* limit kind a b : configured limits */
static int c14_limit(toks_t *t)
{
  int kind = (int)tl(t, 1), a = (int)tl(t, 2), b = (int)tl(t, 3), rc; static unsigned char *img = NULL, *out = NULL; unsigned char *jp = NULL; size_t jn = 0; tjhandle h0, hd;
  if (!img) { img = (unsigned char *)__real_malloc(1200 * 1200 * 3 * 2); out = (unsigned char *)__real_malloc(1200 * 1200 * 4 * 2); c14_image(img, 1200, 1200, 3, 5, 8); }
  if (kind == 0) {
    /* pixel limit: image a x b, limit a*b + (seed-chosen delta in t[4]) */
    int delta = (int)tl(t, 4); long lim = (long)a * b + delta;
    h0 = tj3Init(TJINIT_COMPRESS); tj3Set(h0, TJPARAM_SUBSAMP, TJSAMP_420); tj3Set(h0, TJPARAM_QUALITY, 80); tj3Compress8(h0, img, a, 1200 * 3, b, TJPF_RGB, &jp, &jn); tj3Destroy(h0);
    hd = tj3Init(TJINIT_DECOMPRESS); tj3Set(hd, TJPARAM_MAXPIXELS, (int)lim);
    {
      /* call history before the decompression (t[5]): 0 header of this image, 1 nothing (fresh handle), 2 header of another, small
         image, 3 nothing and the planar-YUV entry point, 4 a complete decompression of another, small image */
      int hist = t->n > 5 ? (int)tl(t, 5) : 0; unsigned char *sj = NULL; size_t sn = 0;
      if (hist == 2 || hist == 4) {
        tjhandle hs = tj3Init(TJINIT_COMPRESS); tj3Set(hs, TJPARAM_SUBSAMP, TJSAMP_420); tj3Set(hs, TJPARAM_QUALITY, 80); tj3Compress8(hs, img, 16, 1200 * 3, 16, TJPF_RGB, &sj, &sn); tj3Destroy(hs);
        if (lim >= 256) { rc = tj3DecompressHeader(hd, sj, sn); if (rc == 0 && hist == 4) rc = tj3Decompress8(hd, sj, sn, out, 0, TJPF_RGB); }
      }
      rc = 0;
      if (hist == 0) rc = tj3DecompressHeader(hd, jp, jn);
      if (rc == 0) rc = hist == 3 ? tj3DecompressToYUV8(hd, jp, jn, out, 4) : tj3Decompress8(hd, jp, jn, out, 0, TJPF_RGB);
      tj3Free(sj);
      printf("R skip rc%d hist%d\n", rc, hist);
      if (lim > 0 && (long)a * b > lim && rc == 0) { printf("O fail limit: %dx%d decompressed although TJPARAM_MAXPIXELS=%ld (call history %d)\n", a, b, lim, hist); tj3Destroy(hd); tj3Free(jp); return 1; }
    }
    if (lim > 0 && (long)a * b > lim && rc == 0) printf("O fail limit: %dx%d decompressed although TJPARAM_MAXPIXELS=%ld\n", a, b, lim);
    else if (lim > 0 && (long)a * b <= lim && rc < 0) printf("O fail limit: %dx%d refused although TJPARAM_MAXPIXELS=%ld: %s\n", a, b, lim, tj3GetErrorStr(hd));
    else printf("O ok\n");
    tj3Destroy(hd); tj3Free(jp);
  } else if (kind == 1) {
    /* scan limit: progressive 3-component image has 10 scans with the default script */
    h0 = tj3Init(TJINIT_COMPRESS); tj3Set(h0, TJPARAM_SUBSAMP, TJSAMP_444); tj3Set(h0, TJPARAM_QUALITY, 80); tj3Set(h0, TJPARAM_PROGRESSIVE, 1); tj3Compress8(h0, img, 40, 1200 * 3, 30, TJPF_RGB, &jp, &jn); tj3Destroy(h0);
    hd = tj3Init(b ? TJINIT_TRANSFORM : TJINIT_DECOMPRESS); tj3Set(hd, TJPARAM_SCANLIMIT, a);
    {
      /* call history (t[4]): 0 none; 1 / 2 a TurboJPEG 2.x call without TJFLAG_LIMITSCANS on a small baseline image first (tjDecompress2 /
         tjDecompressToYUV2); 3 the decompression itself through tjDecompress2 without the flag.  The limit set with tj3Set holds in all */
      int hist = t->n > 4 ? (int)tl(t, 4) : 0; unsigned char *sj = NULL; size_t sn = 0;
      if (hist == 1 || hist == 2) {
        tjhandle hs = tj3Init(TJINIT_COMPRESS); tj3Set(hs, TJPARAM_SUBSAMP, TJSAMP_420); tj3Set(hs, TJPARAM_QUALITY, 80); tj3Compress8(hs, img, 16, 1200 * 3, 16, TJPF_RGB, &sj, &sn); tj3Destroy(hs);
        if (hist == 1) (void)tjDecompress2(hd, sj, (unsigned long)sn, out, 16, 0, 16, TJPF_RGB, 0); else (void)tjDecompressToYUV2(hd, sj, (unsigned long)sn, out, 16, 4, 16, 0);
        tj3Free(sj);
      }
      if (b) { tjtransform xf; unsigned char *d2 = NULL; size_t n2 = 0; memset(&xf, 0, sizeof(xf)); xf.op = TJXOP_HFLIP; xf.options = TJXOPT_TRIM; rc = tj3Transform(hd, jp, jn, 1, &d2, &n2, &xf); tj3Free(d2); }
      else if (hist == 3) rc = tjDecompress2(hd, jp, (unsigned long)jn, out, 40, 0, 30, TJPF_RGB, 0);
      else rc = tj3Decompress8(hd, jp, jn, out, 0, TJPF_RGB);
      if (tj3Get(hd, TJPARAM_SCANLIMIT) != a) { printf("R skip rc%d\n", rc); printf("O fail limit: TJPARAM_SCANLIMIT was set to %d and reads %d after call history %d\n", a, tj3Get(hd, TJPARAM_SCANLIMIT), hist); tj3Destroy(hd); tj3Free(jp); return 1; }
    }
    printf("R skip rc%d\n", rc);
    if (a > 0 && a < 10 && rc == 0) printf("O fail limit: 10-scan image accepted with TJPARAM_SCANLIMIT=%d\n", a);
    else if ((a == 0 || a >= 10) && rc < 0) printf("O fail limit: 10-scan image refused with TJPARAM_SCANLIMIT=%d: %s\n", a, tj3GetErrorStr(hd));
    else printf("O ok\n");
    tj3Destroy(hd); tj3Free(jp);
  } else {
    /* memory limit a MB; mode b: 0 progressive decompress, 1 progressive compress, 2 lossless compress, 3 optimised compress, 4 transform.
       image (t[4]) x (t[4]): whole-image buffers are needed in every mode */
    int sz = (int)tl(t, 4); size_t need;
    c14_reset(0, 0); c14_armed = 1;
    if (b == 0 || b == 4) {
      c14_armed = 0;
      h0 = tj3Init(TJINIT_COMPRESS); tj3Set(h0, TJPARAM_SUBSAMP, TJSAMP_444); tj3Set(h0, TJPARAM_QUALITY, 80); tj3Set(h0, TJPARAM_PROGRESSIVE, 1); tj3Compress8(h0, img, sz, 1200 * 3, sz, TJPF_RGB, &jp, &jn); tj3Destroy(h0);
      c14_reset(0, 0); c14_armed = 1;
      hd = tj3Init(b == 4 ? TJINIT_TRANSFORM : TJINIT_DECOMPRESS); tj3Set(hd, TJPARAM_MAXMEMORY, a);
      if (b == 4) { tjtransform xf; unsigned char *d2 = NULL; size_t n2 = 0; memset(&xf, 0, sizeof(xf)); xf.op = TJXOP_ROT90; xf.options = TJXOPT_TRIM; rc = tj3Transform(hd, jp, jn, 1, &d2, &n2, &xf); tj3Free(d2); }
      else rc = tj3Decompress8(hd, jp, jn, out, 0, TJPF_RGB);
      need = (size_t)sz * sz * 3 * 2;
    } else {
      hd = tj3Init(TJINIT_COMPRESS); tj3Set(hd, TJPARAM_MAXMEMORY, a); tj3Set(hd, TJPARAM_SUBSAMP, TJSAMP_444); tj3Set(hd, TJPARAM_QUALITY, 80);
      if (b == 1) tj3Set(hd, TJPARAM_PROGRESSIVE, 1); else if (b == 2) tj3Set(hd, TJPARAM_LOSSLESS, 1); else tj3Set(hd, TJPARAM_OPTIMIZE, 1);
      rc = tj3Compress8(hd, img, sz, 1200 * 3, sz, TJPF_RGB, &jp, &jn);
      need = (size_t)sz * sz * 3 * (b == 2 ? 2 : 2);
    }
    c14_armed = 0;
    printf("R skip rc%d peak%zu need%zu\n", rc, c14_peak, need);
    /* the library-level working memory must not exceed the limit by more than the strip buffers (1 MB allowance) */
    if (a > 0 && c14_peak > (size_t)a * 1048576 + 1048576) printf("O fail limit: working memory peaked at %zu bytes with TJPARAM_MAXMEMORY=%d MB (mode %d, %dx%d, rc %d)\n", c14_peak, a, b, sz, sz, rc);
    else if (a > 0 && need > (size_t)a * 1048576 + 1048576 && rc == 0) printf("O fail limit: a %dx%d image needing about %zu bytes of whole-image buffers was processed with TJPARAM_MAXMEMORY=%d MB (mode %d)\n", sz, sz, need, a, b);
    else if (rc < 0 && (a == 0 || need * 2 < (size_t)a * 1048576)) printf("O fail limit: refused although the limit of %d MB is ample (mode %d, %dx%d): %s\n", a, b, sz, sz, tj3GetErrorStr(hd));
    else printf("O ok\n");
    tj3Destroy(hd); tj3Free(jp); c14_reset(0, 0);
  }
  return 1;
}

static int dispatch_c14(toks_t *t)
{
  if (!strcmp(t->tok[0], "afail") && t->n >= 5) return c14_afail(t);
  if (!strcmp(t->tok[0], "memtrace") && t->n >= 5) {
    /* the allocation trace is compared with the memory-manager model, whose pool sizes are those of the unmodified allocator */
    if (getenv("LJT_NOPOOL")) { printf("R skip\n"); return 1; }
    return c14_memtrace(t);
  }
  if (!strcmp(t->tok[0], "limit") && t->n >= 5) return c14_limit(t);
  if (!strcmp(t->tok[0], "memreplay")) { printf("R ok\n"); return 1; }
  return 0;
}
#else
static int dispatch_c14(toks_t *t)
{
  if (!strcmp(t->tok[0], "afail") || !strcmp(t->tok[0], "memtrace") || !strcmp(t->tok[0], "limit") || !strcmp(t->tok[0], "memreplay")) { printf("R skip nowrap\n"); return 1; }
  return 0;
}
#endif
