/* C12: instance results are independent of prior history, even after errors */
#include "exec_common.h"

#define C12_RND(m) ((int)((rs = c03_mix(rs)) % (unsigned long long)(m)))
#define C12_P(pct) (C12_RND(100) < (pct))

static int c12_fits(tjhandle h, const unsigned char *b, size_t n, size_t cap)
{
  int w, hh; if (tj3DecompressHeader(h, b, n) < 0) return 0;
  w = tj3Get(h, TJPARAM_JPEGWIDTH); hh = tj3Get(h, TJPARAM_JPEGHEIGHT);
  return w > 0 && hh > 0 && (size_t)w * 2 * (size_t)hh * 2 * 4 * 2 <= cap;   /* up to 2x scaling, 4 samples of 2 bytes */
}

static const int c12_settable[] = { TJPARAM_STOPONWARNING, TJPARAM_BOTTOMUP, TJPARAM_NOREALLOC, TJPARAM_QUALITY, TJPARAM_SUBSAMP, TJPARAM_PRECISION,
  TJPARAM_COLORSPACE, TJPARAM_FASTUPSAMPLE, TJPARAM_FASTDCT, TJPARAM_OPTIMIZE, TJPARAM_PROGRESSIVE, TJPARAM_SCANLIMIT, TJPARAM_ARITHMETIC,
  TJPARAM_LOSSLESS, TJPARAM_LOSSLESSPSV, TJPARAM_LOSSLESSPT, TJPARAM_RESTARTBLOCKS, TJPARAM_RESTARTROWS, TJPARAM_XDENSITY, TJPARAM_YDENSITY,
  TJPARAM_DENSITYUNITS, TJPARAM_MAXMEMORY, TJPARAM_MAXPIXELS, TJPARAM_SAVEMARKERS };
#define C12_NSET ((int)(sizeof(c12_settable) / sizeof(c12_settable[0])))

typedef struct { unsigned char *good, *icc, *prog, *ll, *rgbj; size_t ngood, nicc, nprog, nll, nrgbj; unsigned char img[48 * 40 * 3]; unsigned char img4[48 * 40 * 4]; unsigned char yuv[48 * 40 * 2 + 64]; unsigned char prof[3000]; } c12_mat;

static void c12_materials(c12_mat *m, unsigned long long seed)
{
  tjhandle h; int i;
  for (i = 0; i < (int)sizeof(m->img); i++) m->img[i] = (unsigned char)(c03_mix(seed + (unsigned long long)(i / 3)) % 256ULL);
  for (i = 0; i < (int)sizeof(m->prof); i++) m->prof[i] = (unsigned char)(i * 13 + (int)seed);
  h = tj3Init(TJINIT_COMPRESS); tj3Set(h, TJPARAM_QUALITY, 85); tj3Set(h, TJPARAM_SUBSAMP, TJSAMP_420);
  m->good = NULL; m->ngood = 0; tj3Compress8(h, m->img, 48, 0, 40, TJPF_RGB, &m->good, &m->ngood);
  tj3SetICCProfile(h, m->prof, sizeof(m->prof)); m->icc = NULL; m->nicc = 0; tj3Compress8(h, m->img, 48, 0, 40, TJPF_RGB, &m->icc, &m->nicc);
  tj3SetICCProfile(h, NULL, 0); tj3Set(h, TJPARAM_PROGRESSIVE, 1); m->prog = NULL; m->nprog = 0; tj3Compress8(h, m->img, 48, 0, 40, TJPF_RGB, &m->prog, &m->nprog);
  tj3Set(h, TJPARAM_PROGRESSIVE, 0); tj3Set(h, TJPARAM_LOSSLESS, 1); m->ll = NULL; m->nll = 0; tj3Compress8(h, m->img, 48, 0, 40, TJPF_RGB, &m->ll, &m->nll);
  /* a JPEG in the RGB colourspace (Adobe marker, transform 0), a CMYK source image, and the planes of a 4:2:0 YUV image */
  tj3Set(h, TJPARAM_LOSSLESS, 0); tj3Set(h, TJPARAM_SUBSAMP, TJSAMP_444); tj3Set(h, TJPARAM_COLORSPACE, TJCS_RGB);
  m->rgbj = NULL; m->nrgbj = 0; tj3Compress8(h, m->img, 48, 0, 40, TJPF_RGB, &m->rgbj, &m->nrgbj);
  tj3Destroy(h);
  for (i = 0; i < (int)sizeof(m->img4); i++) m->img4[i] = (unsigned char)(c03_mix(seed + 77ULL + (unsigned long long)(i / 4)) % 256ULL);
  memset(m->yuv, 0, sizeof(m->yuv));
  h = tj3Init(TJINIT_COMPRESS); tj3Set(h, TJPARAM_SUBSAMP, TJSAMP_420); tj3EncodeYUV8(h, m->img, 48, 0, 40, TJPF_RGB, m->yuv, 4); tj3Destroy(h);
}
static void c12_free(c12_mat *m) { tj3Free(m->good); tj3Free(m->icc); tj3Free(m->prog); tj3Free(m->ll); tj3Free(m->rgbj); }

/* the probe: compress, decode planar YUV, compress from CMYK, decompress (with ICC retrieval) and transform with the handle's
 * current settings; every part is digested on its own (hp[0..6]) so that a difference can be attributed */
#define C12_NPART 7
static const char *c12_part[C12_NPART] = { "compress", "decodeyuv", "compress-cmyk", "decompress", "icc", "transform", "transform-icc" };
static unsigned long long c12_probe(tjhandle h, c12_mat *m, int prec, char *desc, size_t dsz, unsigned long long *hp, char *yuverr, size_t ysz)
{
  unsigned long long hsh, all = 14695981039346656037ULL; unsigned char *jp = NULL, *jp2 = NULL, *icc = NULL; size_t jn = 0, jn2 = 0, iccn = 0; int rc1, rc2, rc3, rc4 = 0, i; static unsigned char out[64 * 64 * 4 * 2]; tjtransform xf;
  static unsigned short img16[48 * 40 * 3];
  int rc6, rc7 = 0, rc5; size_t jn4 = 0, jn3 = 0;
#define MIXB(p, n) do { size_t q_; for (q_ = 0; q_ < (n); q_++) { hsh ^= ((const unsigned char *)(p))[q_]; hsh *= 1099511628211ULL; } } while (0)
#define PART(k) do { hp[k] = hsh; all ^= hsh; all *= 1099511628211ULL; hsh = 14695981039346656037ULL; } while (0)
  hsh = 14695981039346656037ULL; yuverr[0] = 0;
  for (i = 0; i < 48 * 40 * 3; i++) img16[i] = (unsigned short)(m->img[i] >> (8 - (prec < 8 ? prec : 8)));
  if (prec <= 8) rc1 = tj3Compress8(h, m->img, 48, 0, 40, TJPF_RGB, &jp, &jn);
  else if (prec <= 12) rc1 = tj3Compress12(h, (short *)img16, 48, 0, 40, TJPF_RGB, &jp, &jn);
  else rc1 = tj3Compress16(h, img16, 48, 0, 40, TJPF_RGB, &jp, &jn);
  if (rc1 == 0) MIXB(jp, jn); else { const char *e = tj3GetErrorStr(h); MIXB(e, strlen(e)); }
  PART(0);
  {
    /* decoding planar YUV (before any JPEG is read by the probe itself: what the instance remembers of earlier JPEGs must not matter),
       and compressing from a four-component pixel format */
    int ss = tj3Get(h, TJPARAM_SUBSAMP); unsigned char *jp4 = NULL;
    tj3Set(h, TJPARAM_SUBSAMP, TJSAMP_420);
    memset(out, 0, 48 * 40 * 3);
    rc6 = tj3DecodeYUV8(h, m->yuv, 4, out, 48, 0, 40, TJPF_RGB);
    if (rc6 == 0) MIXB(out, 48 * 40 * 3); else { const char *e = tj3GetErrorStr(h); MIXB(e, strlen(e)); snprintf(yuverr, ysz, "%s", e); }
    tj3Set(h, TJPARAM_SUBSAMP, ss);
    PART(1);
    { int cs = tj3Get(h, TJPARAM_COLORSPACE);     /* a four-component source needs a four-component JPEG colourspace */
      tj3Set(h, TJPARAM_COLORSPACE, TJCS_YCCK);
      rc7 = prec <= 8 ? tj3Compress8(h, m->img4, 48, 0, 40, TJPF_CMYK, &jp4, &jn4) : 0;
      tj3Set(h, TJPARAM_COLORSPACE, cs); }
    if (prec <= 8) { if (rc7 == 0) MIXB(jp4, jn4); else { const char *e = tj3GetErrorStr(h); MIXB(e, strlen(e)); } }
    tj3Free(jp4);
    PART(2);
  }
  memset(out, 0, sizeof(out));
  rc2 = tj3DecompressHeader(h, m->icc, m->nicc);
  if (rc2 == 0) { rc2 = tj3Decompress8(h, m->icc, m->nicc, out, 0, TJPF_RGB); rc4 = tj3GetICCProfile(h, &icc, &iccn); }
  if (rc2 == 0) MIXB(out, 48 * 40 * 3); else { const char *e = tj3GetErrorStr(h); MIXB(e, strlen(e)); }
  PART(3);
  if (rc4 == 0 && icc) MIXB(icc, iccn);
  PART(4);
  memset(&xf, 0, sizeof(xf)); xf.op = TJXOP_ROT90; xf.options = TJXOPT_TRIM;
  rc3 = tj3Transform(h, m->prog, m->nprog, 1, &jp2, &jn2, &xf);
  if (rc3 == 0) MIXB(jp2, jn2); else { const char *e = tj3GetErrorStr(h); MIXB(e, strlen(e)); }
  PART(5);
  {
    /* a second transformation, of the image that carries an ICC profile (APP2 segments): which extra markers reach the output is decided by
       the current TJPARAM_SAVEMARKERS alone, not by the values it had during earlier calls on the instance */
    unsigned char *jp3 = NULL;
    memset(&xf, 0, sizeof(xf)); xf.op = TJXOP_NONE; xf.options = 0;
    rc5 = tj3Transform(h, m->icc, m->nicc, 1, &jp3, &jn3, &xf);
    if (rc5 == 0) MIXB(jp3, jn3); else { const char *e = tj3GetErrorStr(h); MIXB(e, strlen(e)); }
    PART(6);
    tj3Free(jp3);
  }
  snprintf(desc, dsz, "c%d/%zu:%llx y%d:%llx k%d/%zu:%llx d%d:%llx icc%d/%zu:%llx t%d/%zu:%llx m%d/%zu:%llx", rc1, jn, hp[0], rc6, hp[1], rc7, jn4, hp[2], rc2, hp[3], rc4, iccn, hp[4], rc3, jn2, hp[5], rc5, jn3, hp[6]);
  tj3Free(jp); tj3Free(jp2); tj3Free(icc);
  return all;
}

/* hist seed nsteps */
static int c12_hist(toks_t *t)
{
  unsigned long long rs = (unsigned long long)tll(t, 1) * 11400714819323198485ULL + 1ULL; int nsteps = (int)tl(t, 2), s, i; c12_mat m; tjhandle used, fresh; char d1[400], d2[400], histdesc[400] = "", parts[200] = "", ye1[120], ye2[120]; unsigned long long h1, h2, p1[C12_NPART], p2[C12_NPART];
  static unsigned char out[256 * 256 * 4 * 2]; int prec;
  c12_materials(&m, rs);
  used = tj3Init(TJINIT_TRANSFORM);
  for (s = 0; s < nsteps; s++) {
    int k = C12_RND(13); unsigned char *jp = NULL; size_t jn = 0; char tag[24];
    switch (k) {
    case 0: case 1: {   /* parameter changes, valid and invalid */
      int p = c12_settable[C12_RND(C12_NSET)], v = C12_P(45) ? C12_RND(2) : C12_P(60) ? C12_RND(12) : (C12_P(50) ? C12_RND(200) - 50 : C12_RND(100000));   /* many parameters are switches */
      tj3Set(used, p, v); snprintf(tag, sizeof(tag), "s%d=%d ", p, v); break; }
    case 2: { int pf = C12_P(50) ? TJPF_RGB : C12_P(50) ? TJPF_GRAY : TJPF_CMYK;   /* one, three and four components */
      int cs = tj3Get(used, TJPARAM_COLORSPACE), rc;
      if (pf == TJPF_CMYK) tj3Set(used, TJPARAM_COLORSPACE, C12_P(50) ? TJCS_CMYK : TJCS_YCCK); else if (pf == TJPF_GRAY && C12_P(50)) tj3Set(used, TJPARAM_COLORSPACE, TJCS_GRAY);
      rc = tj3Compress8(used, pf == TJPF_CMYK ? m.img4 : m.img, 48, 0, 40, pf, &jp, &jn); snprintf(tag, sizeof(tag), "c%d:%d ", pf, rc); tj3Free(jp);
      tj3Set(used, TJPARAM_COLORSPACE, cs); break; }
    case 12: { int rc = tj3Decompress8(used, m.rgbj, m.nrgbj, out, 0, C12_P(50) ? TJPF_RGB : TJPF_GRAY); snprintf(tag, sizeof(tag), "a%d ", rc); break; }   /* Adobe marker, RGB colourspace */
    case 3: { int rc = tj3Decompress8(used, m.good, m.ngood, out, 0, C12_RND(TJ_NUMPF)); snprintf(tag, sizeof(tag), "d%d ", rc); break; }
    case 4: {   /* truncated at a seeded place: header, inside the ICC marker, inside the data */
      size_t cut = C12_P(40) ? 40 + (size_t)C12_RND(2900) : (size_t)C12_RND((int)m.nicc); int rc;
      if (cut > m.nicc) cut = m.nicc / 2;
      rc = tj3DecompressHeader(used, m.icc, cut); if (rc == 0 || C12_P(50)) rc = tj3Decompress8(used, m.icc, cut, out, 0, TJPF_RGB);
      snprintf(tag, sizeof(tag), "t%zu:%d ", cut, rc); break; }
    case 5: {   /* corrupted */
      unsigned char *c = (unsigned char *)malloc(m.nprog); int rc, q; memcpy(c, m.prog, m.nprog);
      for (q = 0; q < 6; q++) c[C12_RND((int)m.nprog)] ^= (unsigned char)(1 << C12_RND(8));
      rc = c12_fits(used, c, m.nprog, sizeof(out)) ? tj3Decompress8(used, c, m.nprog, out, 0, TJPF_BGRX) : -2; snprintf(tag, sizeof(tag), "x%d ", rc); free(c); break; }
    case 6: { tjtransform xf; unsigned char *d = NULL; size_t dn = 0; int rc; memset(&xf, 0, sizeof(xf)); xf.op = C12_RND(8); xf.options = C12_P(50) ? TJXOPT_TRIM : TJXOPT_PERFECT;
      rc = tj3Transform(used, C12_P(50) ? m.good : m.prog, C12_P(50) ? m.ngood : m.nprog / 2, 1, &d, &dn, &xf); snprintf(tag, sizeof(tag), "f%d ", rc); tj3Free(d); break; }
    case 7: { int rc = tj3Decompress8(used, m.ll, C12_P(50) ? m.nll : m.nll / 3, out, 0, TJPF_RGB); snprintf(tag, sizeof(tag), "l%d ", rc); break; }
    case 8: { tjscalingfactor f = { 1 + C12_RND(3), 1 + C12_RND(8) }; tjregion r = { C12_RND(3) * 8, C12_RND(10), C12_RND(30), C12_RND(30) }; tj3SetScalingFactor(used, f); tj3SetCroppingRegion(used, r);
      (void)tj3Decompress8(used, m.good, m.ngood, out, 0, TJPF_RGB); snprintf(tag, sizeof(tag), "sc "); break; }
    case 9: { tj3SetICCProfile(used, m.prof, (size_t)C12_RND(3000)); snprintf(tag, sizeof(tag), "icc "); break; }
    case 10: { int rc = tj3DecompressToYUV8(used, C12_P(60) ? m.good : m.prog, C12_P(70) ? m.ngood : 200, out, 4); snprintf(tag, sizeof(tag), "y%d ", rc); break; }
    default: { int rc = tj3DecompressHeader(used, m.img, 200); snprintf(tag, sizeof(tag), "h%d ", rc); break; }
    }
    if (strlen(histdesc) + strlen(tag) < sizeof(histdesc) - 1) strcat(histdesc, tag);
  }
  /* settings that are not TJPARAMs are put back to their defaults on the used instance */
  { tjscalingfactor one = { 1, 1 }; tjregion none = { 0, 0, 0, 0 }; unsigned char *pend = NULL; size_t pn = 0; tj3SetScalingFactor(used, one); tj3SetCroppingRegion(used, none); tj3SetICCProfile(used, NULL, 0);
    /* a profile extracted from an earlier image and not yet collected is explicit state of the API: collect it */
    if (tj3GetICCProfile(used, &pend, &pn) == 0) tj3Free(pend); }
  /* make the settings valid for a probe, then copy every settable parameter of the used instance to a fresh one */
  if (tj3Get(used, TJPARAM_QUALITY) < 1 || tj3Get(used, TJPARAM_QUALITY) > 100) tj3Set(used, TJPARAM_QUALITY, 80);
  if (tj3Get(used, TJPARAM_SUBSAMP) < 0 || tj3Get(used, TJPARAM_SUBSAMP) >= TJ_NUMSAMP) tj3Set(used, TJPARAM_SUBSAMP, TJSAMP_420);
  fresh = tj3Init(TJINIT_TRANSFORM);
  /* values that came from a header and cannot be set (e.g. a predictor 0, a density 0) are replaced on BOTH instances by the
     fresh instance's value, so that the two really carry the same current settings */
  for (i = 0; i < C12_NSET; i++) {
    int v = tj3Get(used, c12_settable[i]);
    if (tj3Set(fresh, c12_settable[i], v) < 0 || tj3Get(fresh, c12_settable[i]) != v) tj3Set(used, c12_settable[i], tj3Get(fresh, c12_settable[i]));
  }
  if (getenv("C12_DEBUG")) for (i = 0; i < C12_NSET; i++) fprintf(stderr, "param %d used %d fresh %d\n", c12_settable[i], tj3Get(used, c12_settable[i]), tj3Get(fresh, c12_settable[i]));
  prec = tj3Get(used, TJPARAM_PRECISION); if (prec < 2 || prec > 16) prec = 8;
  h1 = c12_probe(used, &m, prec, d1, sizeof(d1), p1, ye1, sizeof(ye1));
  h2 = c12_probe(fresh, &m, prec, d2, sizeof(d2), p2, ye2, sizeof(ye2));
  printf("R skip %s\n", d2);
  for (i = 0; i < C12_NPART; i++) if (p1[i] != p2[i]) { strcat(parts, parts[0] ? "," : ""); strcat(parts, c12_part[i]); }
  if (h1 != h2) printf("O fail hist: probe parts that differ: {%s}%s%s%s; after the history [%s] the probe gives %s; a fresh instance with the same parameter settings gives %s\n", parts,
                       ye1[0] ? " used decodeyuv error: '" : "", ye1, ye1[0] ? "'" : "", histdesc, d1, d2);
  else printf("O ok\n");
  tj3Destroy(used); tj3Destroy(fresh); c12_free(&m);
  return 1;
}

static int dispatch_c12(toks_t *t)
{
  if (!strcmp(t->tok[0], "hist") && t->n >= 3) return c12_hist(t);
  return 0;
}
