/-! The bookkeeping of libjpeg's memory manager (src/jmemmgr.c): blocks obtained from the
system-dependent layer (`jpeg_get_small` / `jpeg_get_large`), each belonging to a pool
(`JPOOL_PERMANENT` = 0, `JPOOL_IMAGE` = 1), and the usage counter `total_space_allocated`
that `realize_virt_arrays` hands to `jpeg_mem_available` to enforce `max_memory_to_use`. -/
namespace LJT.Mem

structure Blk where
  id : Nat
  pool : Nat
  size : Nat
deriving Repr, DecidableEq

structure State where
  live : List Blk
  total : Nat
deriving Repr

def init : State := ⟨[], 0⟩

def sumSizes (l : List Blk) : Nat := (l.map (·.size)).foldl (· + ·) 0

/-- a request to the system layer; `ok = false` models a failed allocation (out of memory) -/
def alloc (s : State) (id pool size : Nat) (ok : Bool) : State :=
  if ok then ⟨⟨id, pool, size⟩ :: s.live, s.total + size⟩ else s

/-- `free_pool`: every block of the pool goes back, the counter is reduced by their sizes -/
def freePool (s : State) (pool : Nat) : State :=
  ⟨s.live.filter (·.pool ≠ pool), s.total - sumSizes (s.live.filter (·.pool = pool))⟩

/-- a single block is returned (what the harness sees one `jpeg_free_*` at a time) -/
def free1 (s : State) (id : Nat) : State :=
  match s.live.find? (·.id = id) with
  | none => s
  | some b => ⟨s.live.filter (·.id ≠ id), s.total - b.size⟩

/-- `self_destruct`: image pool, then permanent pool -/
def destroy (s : State) : State := freePool (freePool s 1) 0

def Inv (s : State) : Prop := s.total = sumSizes s.live

/-- how much more may be given to virtual arrays under a limit (0 = no limit):
`jpeg_mem_available` of jmemnobs.c -/
def available (limit already maxNeeded : Nat) : Nat :=
  if limit = 0 then maxNeeded else limit - already

end LJT.Mem
