import LJT.Proofs.Color
/-!
# C10 - Results are independent of pixel layout, row order and pitch

Full statement: compressing the same picture presented in any RGB-family layout, with any
values in the unused byte, any pitch >= row size, top-down or bottom-up, yields
byte-identical JPEGs; decompressing to any layout yields the same R, G, B in the
documented positions with alpha = maximum sample value; decompressing a colour JPEG to
grayscale yields exactly its luminance component.

Proved here: for every *valid* layout (and all layouts of the regenerated offset tables
are valid, agree between the two APIs, and place alpha where documented), the colour
conversion result is a function of the colour samples only.  Row order and pitch are
pointer arithmetic of the wrappers; they are decided by the correspondence / oracle run
(`pfeq` ops) and listed as partial.
-/
namespace LJT.C10
open LJT.Color LJT.Gen

/-- **The offset tables are consistent** (regenerated from turbojpeg.h and jmorecfg.h on
every run): every RGB-family pixel format has a valid layout, and TurboJPEG's offsets are
those of the libjpeg colourspace it is mapped to. -/
theorem offset_tables_valid :
    (∀ pf, pf < TJ_NUMPF → pf ≠ TJPF_GRAY → pf ≠ TJPF_CMYK →
      ∃ L, layoutOfPF pf = some L ∧ L.Valid) ∧
    (∀ cs, JCS_EXT_RGB ≤ cs → cs ≤ JCS_EXT_ARGB → ∃ L, layoutOfCS cs = some L ∧ L.Valid) := by
  constructor
  · intro pf h1 h2 h3
    have : pf = 0 ∨ pf = 1 ∨ pf = 2 ∨ pf = 3 ∨ pf = 4 ∨ pf = 5 ∨ pf = 7 ∨ pf = 8 ∨ pf = 9 ∨ pf = 10 := by
      simp [TJ_NUMPF, TJPF_GRAY, TJPF_CMYK] at h1 h2 h3; omega
    rcases this with rfl | rfl | rfl | rfl | rfl | rfl | rfl | rfl | rfl | rfl <;>
      exact ⟨_, rfl, Layout.valid_of_validB _ (by decide)⟩
  · intro cs h1 h2
    have : cs = 6 ∨ cs = 7 ∨ cs = 8 ∨ cs = 9 ∨ cs = 10 ∨ cs = 11 ∨ cs = 12 ∨ cs = 13 ∨ cs = 14 ∨ cs = 15 := by
      simp [JCS_EXT_RGB, JCS_EXT_ARGB] at h1 h2; omega
    rcases this with rfl | rfl | rfl | rfl | rfl | rfl | rfl | rfl | rfl | rfl <;>
      exact ⟨_, rfl, Layout.valid_of_validB _ (by decide)⟩

/-- the libjpeg colourspace each TurboJPEG pixel format is mapped to (`pf2cs[]`, regenerated
from the source text as identifier names) -/
def pf2cs (pf : Nat) : Nat :=
  match Gen.Src.pf2csNames.getD pf "" with
  | "JCS_EXT_RGB" => JCS_EXT_RGB | "JCS_EXT_BGR" => JCS_EXT_BGR | "JCS_EXT_RGBX" => JCS_EXT_RGBX
  | "JCS_EXT_BGRX" => JCS_EXT_BGRX | "JCS_EXT_XBGR" => JCS_EXT_XBGR | "JCS_EXT_XRGB" => JCS_EXT_XRGB
  | "JCS_EXT_RGBA" => JCS_EXT_RGBA | "JCS_EXT_BGRA" => JCS_EXT_BGRA | "JCS_EXT_ABGR" => JCS_EXT_ABGR
  | "JCS_EXT_ARGB" => JCS_EXT_ARGB | "JCS_GRAYSCALE" => JCS_GRAYSCALE | "JCS_CMYK" => JCS_CMYK
  | _ => 0

/-- **Both APIs agree on where the samples are**: the layout TurboJPEG documents for a
pixel format is the layout of the libjpeg colourspace it passes down. -/
theorem tj_layout_eq_libjpeg_layout (pf : Nat) (h1 : pf < TJ_NUMPF) (h2 : pf ≠ TJPF_GRAY) (h3 : pf ≠ TJPF_CMYK) :
    layoutOfPF pf = layoutOfCS (pf2cs pf) := by
  have : pf = 0 ∨ pf = 1 ∨ pf = 2 ∨ pf = 3 ∨ pf = 4 ∨ pf = 5 ∨ pf = 7 ∨ pf = 8 ∨ pf = 9 ∨ pf = 10 := by
    simp [TJ_NUMPF, TJPF_GRAY, TJPF_CMYK] at h1 h2 h3; omega
  rcases this with rfl | rfl | rfl | rfl | rfl | rfl | rfl | rfl | rfl | rfl <;> decide

/-- **Compression is independent of the layout and of the unused byte**: two packed rows
that present the same picture in any two valid layouts, with arbitrary values in the other
positions, convert to the same YCbCr samples (hence the same JPEG). -/
theorem layout_independence_compress (L1 L2 : Layout) (h1 : L1.Valid) (h2 : L2.Valid) (center : Int)
    (px : List (Int × Int × Int)) (f1 f2 : List Int) (hf1 : f1.length = px.length) (hf2 : f2.length = px.length) :
    compressRow L1 center px.length (packRow L1 (px.zip f1)) =
      compressRow L2 center px.length (packRow L2 (px.zip f2)) := by
  unfold compressRow
  have e1 := extract_pack L1 h1 (px.zip f1)
  have e2 := extract_pack L2 h2 (px.zip f2)
  have l1 : (px.zip f1).length = px.length := by simp [hf1]
  have l2 : (px.zip f2).length = px.length := by simp [hf2]
  rw [l1] at e1; rw [l2] at e2
  rw [e1, e2]
  have m1 : (px.zip f1).map (·.1) = px := by
    rw [← List.unzip_fst, List.unzip_zip (by omega)]
  have m2 : (px.zip f2).map (·.1) = px := by
    rw [← List.unzip_fst, List.unzip_zip (by omega)]
  rw [m1, m2]

/-- **Decompression puts the same colour in every layout, alpha = maximum**: reading the
emitted row back with the same layout gives `ycc2rgb` of the decoded samples, and every
fourth sample (alpha or unused byte) equals the maximum sample value. -/
theorem layout_independence_decompress (L : Layout) (h : L.Valid) (center maxJ : Int)
    (ycc : List (Int × Int × Int)) :
    extractRow L ycc.length (emitRow L center maxJ ycc) = ycc.map (ycc2rgb center maxJ) ∧
    alphaRow L ycc.length (emitRow L center maxJ ycc) = ycc.map (fun _ => L.a.map (fun _ => maxJ)) := by
  unfold emitRow
  have e := extract_pack L h (ycc.map (fun p => (ycc2rgb center maxJ p, maxJ)))
  have a := alpha_pack L h (ycc.map (fun p => (ycc2rgb center maxJ p, maxJ)))
  simp only [List.length_map, List.map_map] at e a
  exact ⟨by rw [e]; rfl, by rw [a]; rfl⟩

/-- **Grayscale from colour is the luminance**: the luminance the compressor computes for a
pixel is the first component of its YCbCr conversion (so a gray decode of a colour JPEG, which
copies component 0, is its Y plane). -/
theorem gray_is_luma (center : Int) (p : Int × Int × Int) : rgb2gray p = (rgb2ycc center p).1 := rfl

-- non-vacuity: RGBX and ABGR views of the same two pixels with different filler bytes
example : compressRow ⟨0, 1, 2, some 3, 4⟩ 128 2 (packRow ⟨0, 1, 2, some 3, 4⟩ [((255, 0, 7), 99), ((1, 2, 3), 5)]) =
    compressRow ⟨3, 2, 1, some 0, 4⟩ 128 2 (packRow ⟨3, 2, 1, some 0, 4⟩ [((255, 0, 7), 0), ((1, 2, 3), 200)]) := by decide

end LJT.C10
