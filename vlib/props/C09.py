"""C09 - decoded and encoded data do not depend on I/O chunking or scheduling."""
from . import C03 as _C03
ID = "C09"
VARIANTS = ["san", "simd"]
RULE = ("stage 1 (ent): Huffman-coded streams of every process (baseline, optimised, default and random progressive scripts, multi-scan "
        "sequential; all sampling factors incl. 4:2:0 / 4:4:0 non-interleaved scans; restart intervals; COM segments of 11 and 65533 bytes "
        "and APP3 segments, saved with jpeg_save_markers).  stage 2 on each stream: susp - a suspending source manager delivering a "
        "two-chunk split, 1-byte chunks, random chunks of 1..64 and 1..2000 bytes; the coefficients read with jpeg_read_coefficients "
        "under suspension must equal what the Lean T.81 decoder gets from the undivided bytes, and full decompression must give the same "
        "pixels, dimensions, saved markers and warning count as the memory and the stdio source; suspall - every single split position "
        "(quick: every 3rd byte); bufimg - buffered-image mode with seeded interleavings of jpeg_consume_input / start_output / "
        "read_scanlines / finish_output over suspending and memory sources: the final pass equals one-pass decoding.  llsusp: lossless "
        "streams (2..16 bits, 1..4 components, restart rows) through the same suspending source: exact reconstruction.  suspenc: single-pass "
        "Huffman compression (restart intervals in MCUs and rows, all sampling factors) through a suspending destination whose buffer is "
        "replaced before every call by one of seeded size (small enough to suspend inside most MCUs): bytes equal the memory destination's")
TRUSTED = ["Model.Suspend states the suspension contract; it is proved for the marker-segment reader and, at the bit level, for the sequential Huffman and "
           "the lossless MCU decoders (the models C03/C02 tie to the code); for the other units of work (progressive, arithmetic, the encoder, the bit "
           "buffer in front of the MCU decoder) it is not proved but exercised on the real code at every split position", "Model.T81 (independent decoder) is the chunk-free reference for coefficients"]
ASSUMPTIONS = ["the application-side source/destination managers in the harness follow libjpeg.txt (keep unread bytes, append, honour skips)"]


def classify(op, R):
    p = op.split(" ")
    if p[0] == "ent": return _C03.classify(op, R)
    if p[0] in ("susp", "bufimg"): return "%s:k%s" % (p[0], p[1])
    if p[0] == "llsusp": return "llsusp:P%s:k%s" % ("<=8" if int(p[1]) <= 8 else "<=12" if int(p[1]) <= 12 else "<=16", p[11])
    if p[0] == "suspenc": return "suspenc:ss%s:ri%s:%s" % (p[1], "0" if p[6] == "0" and p[7] == "0" else "1", "susp" if not R.endswith(" 0") else "nosusp")
    return p[0]


def gen_ops(rng, tier):
    big = tier == "thorough"
    ops = []
    for _ in range(400 if big else 90):
        o = _C03.one(rng).split(" ")
        o[4] = "8"
        o[7] = str(rng.choice([0, 1, 2, 3, 3, 3, 6]))
        o[1] = str(rng.choice([0, 1, 2, 2, 2, 3, 4, 4, 5, 6, 22, 12]))
        o[2] = str(rng.randint(1, 40)); o[3] = str(rng.randint(1, 40))
        o[11] = "-1"
        o += ["0", str(rng.choice([0, 0, 1, 2, 3]))]
        ops.append(" ".join(o))
    for _ in range(700 if big else 150):
        ss = rng.choice([0, 1, 2, 3, 4, 5, 6])
        ri = rng.choice([0, 1, 2, 3, 5, 8]); rr = rng.choice([0, 1]) if ri == 0 else 0
        bmin = rng.choice([40, 64, 100, 200, 600]); bmax = bmin + rng.choice([0, 10, 100, 1000])
        if ss in (2, 5, 6): bmin += 200; bmax += 200
        ops.append("suspenc %d %d %d %d %d %d %d %d %d %d" % (ss, rng.randint(1, 70), rng.randint(1, 50), rng.randrange(1 << 30), rng.randrange(3), ri, rr,
                                                             rng.randrange(1 << 30), bmin, bmax))
    # lossless streams through the suspending source (decode_mcus of jdlhuff.c, decompress_data of jddiffct.c): exact reconstruction
    for i in range(600 if big else 120):
        P = rng.choice([8, 8, 12, 16, rng.randint(2, 16)]); Pt = rng.choice([0, 0, 0, rng.randrange(P)])
        nc = rng.choice([1, 3, 3, 2, 4]); w = rng.choice([1, 2, 7, 17, 40, 131]); h = rng.choice([1, 2, 5, 9, 20])
        ops.append("llsusp %d %d %d %d %d %d %d %d %d %s %d %d %d" % (P, Pt, rng.randint(1, 7), rng.choice([0, 0, 1, 2]), nc, w, h, rng.choice([0, 0, 2, 3, 4]),
                                                                  rng.randrange(1 << 20), "ycc" if nc == 3 and rng.random() < .5 else "rgb",
                                                                  rng.choice([0, 1, 2, 2, 3]), rng.randrange(1 << 30), rng.randrange(1 << 16)))
    # marker handling under suspension: saved and skipped markers (full and truncating save limits, chosen by the seed), ICC
    # profile and JFIF fields with the input cut after every byte of the header
    for i in range(80 if big else 14):
        nm = rng.randint(1, 4)
        ms = []
        for _ in range(nm):
            ms += [rng.choice([0xFE, 0xE1, 0xE3, 0xED, 0xEE, 0xE0]), rng.choice([0, 1, 2, 5, 17, 37, 300, rng.randint(0, 1500)])]
        ops.append("msusp %d %d %d %s" % (rng.randrange(1 << 30), rng.choice([0, 0, 200]), nm, " ".join(map(str, ms))))
    return ops


def stage2(ops, model_lines, res_by_v):
    import random
    base, fails = _C03.stage2(ops, model_lines, res_by_v)
    rng = random.Random(len(base))
    out = []
    for i, o in enumerate(base):
        hexs = o.split(" ")[1]
        for kind in (0, 1, 2, 3):
            if kind == 1 and len(hexs) > 6000: continue
            out.append("susp %d %d %s" % (kind, rng.randrange(1 << 30), hexs))
        if len(hexs) < 8000 and i % 3 == 0:
            out.append("suspall %d %s" % (3 if len(hexs) > 1500 else 1, hexs))
        out.append("bufimg %d %d %s" % (rng.choice([0, 2, 3]), rng.randrange(1 << 30), hexs))
    return out, fails


def search(ctx, failing_ops):
    return []


MANIFEST = {
    "text": ("Kernel-checked Lean theorems on the suspension protocol: for every unit of work that obeys libjpeg's contract (finish or suspend "
             "without side effects, never look beyond what is needed), two deliveries of the same bytes in any two chunkings reach the same "
             "final state with the same unread bytes, and every chunked execution is an execution on the undivided bytes; the application-"
             "side source manager (append behind unread bytes, skip across chunk boundaries) neither loses nor invents bytes; the marker-"
             "segment reader satisfies the contract, and so do - over the bit stream - the sequential Huffman MCU decoder and the lossless MCU decoder "
             "(they never look beyond the bits they need), so their decoded MCUs do not depend on how the bits were delivered.  On the real code every Huffman-coded process is decoded under two-chunk splits at every "
             "position, 1-byte chunks and random chunkings, in buffered-image mode under random schedules, and compressed through a "
             "suspending destination with seeded buffer sizes; coefficients are compared with the independent Lean decoder."),
    "design_ref": "DESIGN.md 6.9",
    "note": ("Partial: that the progressive/arithmetic decode_mcu_*, encode_mcu_huff and jpeg_fill_bit_buffer satisfy the contract is exercised, not proved. Trusted: Lean kernel; axioms propext, "
             "Quot.sound, Classical.choice; the harness's source and destination managers."),
    "technique": "Lean 4 proof (simulation argument over chunked executions) + exhaustive split-position runs of the real codec + independent-decoder correspondence",
}
