import LJT.Model.Huff
import LJT.Model.Lossless
/-! Sequential Huffman coding of one DCT block (src/jchuff.c encode_one_block, T.81 F.1.2 /
F.2.2): DC difference as category + extra bits, AC coefficients in zigzag order as
(run, size) symbols with ZRL and EOB. -/
namespace LJT.SeqHuff
open LJT.Huff LJT.LL

def zrlBits (c : CDerived) : Nat → Option (List Bool)
  | 0 => some []
  | n + 1 =>
    match encode c 0xF0, zrlBits c n with
    | some z, some r => some (z ++ r)
    | _, _ => none

/-- AC coefficients (zigzag positions 1..63) with `r` pending zeros -/
def encodeAC (c : CDerived) : Nat → List Int → Option (List Bool)
  | r, [] => if r = 0 then some [] else encode c 0
  | r, v :: t =>
    if v = 0 then encodeAC c (r + 1) t
    else
      let cat := category v
      match zrlBits c (r / 16), encode c ((r % 16) * 16 + cat.1), encodeAC c 0 t with
      | some z, some s, some rest => some (z ++ (s ++ (natBits cat.2.1 cat.2.2 ++ rest)))
      | _, _, _ => none

def encodeBlock (cdc cac : CDerived) (diff : Int) (ac : List Int) : Option (List Bool) :=
  match itemBits cdc diff, encodeAC cac 0 ac with
  | some d, some a => some (d ++ a)
  | _, _ => none

/-- decode `rem` AC coefficients -/
def decodeAC (dd : DDerived) : Nat → Nat → List Bool → Option (List Int × List Bool)
  | 0, rem, bits => if rem = 0 then some ([], bits) else none
  | f + 1, rem, bits =>
    if rem = 0 then some ([], bits) else
    match decode dd bits with
    | none => none
    | some (_, true, _) => none          -- a bit pattern that is no code of the table
    | some (s, false, rest) =>
      let r := s / 16
      let n := s % 16
      if n ≠ 0 then
        if r + 1 > rem then none
        else if rest.length < n then none
        else
          match decodeAC dd f (rem - r - 1) (rest.drop n) with
          | none => none
          | some (l, b) => some (List.replicate r 0 ++ extend n (bitsNat (rest.take n)) :: l, b)
      else if r = 15 then
        if 16 > rem then none
        else
          match decodeAC dd f (rem - 16) rest with
          | none => none
          | some (l, b) => some (List.replicate 16 0 ++ l, b)
      else if r = 0 then some (List.replicate rem 0, rest)
      else none

def decodeBlock (ddc dac : DDerived) (bits : List Bool) : Option (Int × List Int × List Bool) :=
  match decode ddc bits with
  | some (_, true, _) => none            -- a bit pattern that is no code of the DC table
  | _ =>
  match decodeItem ddc bits with
  | none => none
  | some (diff, rest) =>
    match decodeAC dac 64 63 rest with
    | none => none
    | some (ac, rest') => some (diff, ac, rest')

/-! ### a restart interval: blocks in MCU order, one DC predictor per component of the scan -/

/-- one block as the entropy coder sees it: the slot of its component in the scan (0 .. comps_in_scan-1), its DC
coefficient and its 63 AC coefficients in zigzag order -/
structure Blk where
  slot : Nat
  dc : Int
  ac : List Int
deriving Repr, DecidableEq

/-- `encode_mcu_huff` over the blocks of one restart interval: every block is coded with the tables of its
component, the DC coefficient as the difference to `last_dc_val[slot]` -/
def encodeBlocks (tabs : Nat → Option (CDerived × CDerived)) : Array Int → List Blk → Option (List Bool)
  | _, [] => some []
  | pred, b :: rest =>
    match tabs b.slot with
    | none => none
    | some (cdc, cac) =>
      match encodeBlock cdc cac (b.dc - pred.getD b.slot 0) b.ac, encodeBlocks tabs (pred.setIfInBounds b.slot b.dc) rest with
      | some x, some y => some (x ++ y)
      | _, _ => none

/-- `decode_mcu` over the blocks of one restart interval, given the component slot of every block -/
def decodeBlocks (tabs : Nat → Option (DDerived × DDerived)) : Array Int → List Nat → List Bool → Option (List Blk × List Bool)
  | _, [], bits => some ([], bits)
  | pred, s :: rest, bits =>
    match tabs s with
    | none => none
    | some (ddc, dac) =>
      match decodeBlock ddc dac bits with
      | none => none
      | some (diff, ac, bits') =>
        let dc := pred.getD s 0 + diff
        match decodeBlocks tabs (pred.setIfInBounds s dc) rest bits' with
        | none => none
        | some (bs, r) => some (⟨s, dc, ac⟩ :: bs, r)

end LJT.SeqHuff
