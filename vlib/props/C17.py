"""C17 - the compressor never crashes or emits bad output for any parameter combination."""
ID = "C17"
VARIANTS = ["san", "simd"]
RULE = ("cparam: the compression object filled from a seeded structured generator, family by family: (0) everything at once, (1) sampling "
        "factors 0..5 and table selectors 0..4 per component, (2) quantisation tables written directly by the application (zeros, 65535, "
        "8192, random 16-bit), (3) hostile Huffman tables (exactly complete code, over-subscribed, counts beyond 256, random counts and "
        "symbols, missing symbols, all 16-bit codes), (4) scan scripts valid and hostile, (5) lossless with predictor 0..11 and point "
        "transform 0..19 at precisions 2..16, (6) raw-data input, (7) extreme pixels; on top of dimensions 0..65559, 0..11 components, 17 "
        "input colourspaces x 6 JPEG colourspaces, precision 0..17, quality -1..100 and linear scale to 100000, smoothing 0..119, DCT "
        "method 0..7, optimise / arithmetic / progressive, restart interval to 70000 and in rows, arithmetic conditioning values, JFIF / "
        "Adobe marker fields.  xcoef: jpeg_write_coefficients with +-1023..+-32768 in every position / at DC / at 63, all modes, hostile "
        "tables.  Verdict: error_exit, or success with a stream SOI..EOI that jpeg_read_header + full decompression at the file's "
        "precision accept without warning at the requested dimensions; sanitizer reports, crashes and time-outs are failures")
TRUSTED = ["the theorems cover the decision logic that can be stated on the model (block size bound against the generated BUFSIZE, "
           "compressor-accepted Huffman tables are decompressor-accepted); the parameter space itself is explored on the real code only"]
ASSUMPTIONS = ["the application passes a compression object created by jpeg_create_compress and image data of the declared size"]


def classify(op, R):
    p = op.split(" ")
    r = R.split(" ")
    if p[0] == "creuse":
        return "creuse:n%s" % p[2]
    if p[0] == "rstrows":
        return "rstrows:" + p[3]
    if p[0] == "cparam":
        return "cparam:f%s:%s" % (p[1], ("err" + r[2]) if len(r) > 2 and r[1] == "err" else " ".join(r[3:]) if len(r) > 3 else R[:12])
    return "xcoef:p%s:m%s:t%s:%s" % (p[1], p[2], p[6], r[1] if len(r) > 1 else "?")


def gen_ops(rng, tier):
    big = tier == "thorough"
    ops = []
    for i in range(30000 if big else 4000):
        ops.append("cparam %d %d" % (rng.choice([0, 0, 0, 1, 2, 3, 4, 5, 6, 7]), rng.randrange(1 << 30)))
    # one compression object for a sequence of images with different component counts and coding modes
    for i in range(600 if big else 80):
        ops.append("creuse %d %d" % (rng.randrange(1 << 30), rng.randint(2, 6)))
    # restart interval given in MCU rows, around the 16-bit limit of the DRI segment (rows x MCUs per row = 65535, 65536, more)
    for (w, h, rows) in ((2048, 2064, 255), (2048, 2064, 256), (2048, 2072, 257), (8, 40, 3), (4096, 1032, 128), (4104, 1040, 127)):
        ops.append("rstrows %d %d %d 0" % (w, h, rows))
    ops.append("rstrows 2048 2064 256 1")
    for prec in (8, 12):
        for mode in (0, 1, 2, 3):
            for val in (1023, -1023, 1024, 2047, -2048, 16383, 32767, -32768):
                for pos in (-1, -2, 0, 1, 63):
                    for tk in (0, 1, 2):
                        if not big and rng.random() < .5: continue
                        ops.append("xcoef %d %d %d %d %d %d" % (prec, mode, val, pos, rng.choice([1, 3, 9, 40, 100]), tk))
    # blocks of the largest legal magnitude everywhere: the longest encoded blocks there are, enough of them to cross
    # the destination buffer boundary so that the encoder's local buffer is used
    for prec, val in ((8, 1023), (12, 16383)):
        for mode in (0, 1):
            for pos in (-1, -2):
                ops.append("xcoef %d %d %d %d %d 0" % (prec, mode, val, pos, rng.choice([60, 100, 150])))
    return ops


def search(ctx, failing_ops):
    from .. import common as C
    import random
    rng = random.Random("search/%s" % ctx["seed"])
    ops = gen_ops(rng, "quick")
    found = []
    for v, exe in ctx["exes"].items():
        res, _ = C.run_exec(exe, ops)
        for op, (R, O) in zip(ops, res):
            if O and O.startswith("fail"):
                found.append((v, op, R[:200], O))
    return found


MANIFEST = {
    "text": ("Kernel-checked Lean theorems on the block coder model: for every valid table pair and every block with coefficient magnitudes "
             "below 2^15, the encoded block plus up to 63 pending bits never needs more bytes than the local output buffer of "
             "encode_one_block (BUFSIZE, regenerated from the source), even if every byte is stuffed; every Huffman table the compressor's "
             "table builder accepts is accepted by the decompressor's; the block round-trips (C03).  The parameter space of the compression "
             "object - valid and hostile values of every settable field - is explored on the real library under ASan/UBSan with a per-call "
             "watchdog; every success must be a complete stream its own decompressor takes without warning."),
    "design_ref": "DESIGN.md 6.17",
    "note": ("Partial: parameter validation in jcmaster/jcinit is exercised, not modelled. Trusted: Lean kernel; axioms propext, Quot.sound, "
             "Classical.choice; sanitizers as observers of memory safety."),
    "technique": "Lean 4 proof (bit-count induction over the block coder, table-builder agreement) + structured parameter-space exploration of the real compressor under sanitizers",
}
